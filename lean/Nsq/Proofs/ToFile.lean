import Nsq.Model.ToFile
/-!
Invariant of the `ToFile` router model and its preservation by every building block
(helper lemmas for `Nsq.Props.C19`).
-/
namespace Nsq.Proofs.ToFile
open Nsq.Model.ToFile

/-- `l` lies inside the durable prefix of the decodable bytes of `f` -/
def Dur (f : File) (l : Bytes) : Prop := ∃ a b, f.data = a ++ l ++ b ∧ (a ++ l).length ≤ f.durable

/-- `l` has been handed to `write` on `f` (gzip: it may still sit in the open member) -/
def Wr (gz : Bool) (f : File) (l : Bytes) : Prop :=
  if gz then ∃ a b, f.data ++ f.tail = a ++ l ++ b else ∃ a b, f.data = a ++ l ++ b

/-- some named file holds `l` durably -/
def DurS (fs : FS) (l : Bytes) : Prop := ∃ p f, fs.get p = some f ∧ Dur f l

def FileLe (f g : File) : Prop := (∃ x, g.data = f.data ++ x) ∧ f.durable ≤ g.durable

theorem Dur_mono {f g : File} {l : Bytes} (h : FileLe f g) (hd : Dur f l) : Dur g l := by
  obtain ⟨⟨x, hx⟩, hle⟩ := h
  obtain ⟨a, b, hab, hlen⟩ := hd
  exact ⟨a, b ++ x, by rw [hx, hab]; simp, by omega⟩

theorem fileWrite_le (gz : Bool) (p : Bytes) (f : File) : FileLe f (fileWrite gz p f) := by
  unfold fileWrite FileLe
  cases gz <;> simp

theorem fileGzClose_le (f : File) : FileLe f (fileGzClose f) := by
  unfold fileGzClose FileLe; simp

theorem fileFsync_le (f : File) : FileLe f (fileFsync f) := by
  unfold fileFsync FileLe; simp; omega

theorem Wr_write (gz : Bool) (p : Bytes) (f : File) (l : Bytes) (h : Wr gz f l) : Wr gz (fileWrite gz p f) l := by
  unfold Wr fileWrite at *
  cases gz <;> simp at *
  · obtain ⟨a, b, hab⟩ := h
    exact ⟨a, b ++ (f.tail ++ p), by rw [hab]; simp⟩
  · obtain ⟨a, b, hab⟩ := h
    exact ⟨a, b ++ p, by rw [← List.append_assoc, hab]; simp⟩

theorem Wr_gzClose (gz : Bool) (f : File) (l : Bytes) (h : Wr gz f l) : Wr gz (fileGzClose f) l := by
  unfold Wr fileGzClose at *
  cases gz <;> simp at *
  · obtain ⟨a, b, hab⟩ := h
    exact ⟨a, b ++ f.tail, by rw [hab]; simp⟩
  · exact h

theorem Wr_fsync (gz : Bool) (f : File) (l : Bytes) (h : Wr gz f l) : Wr gz (fileFsync f) l := by
  unfold Wr fileFsync at *; exact h

/-- the two writes of one message put its line into the file -/
theorem Wr_line (gz : Bool) (f : File) (body : Bytes) :
    Wr gz (fileWrite gz [10] (fileWrite gz body f)) (body ++ [10]) := by
  unfold Wr fileWrite
  cases gz <;> simp
  · exact ⟨f.data ++ f.tail, [], by simp⟩
  · exact ⟨f.data ++ f.tail, [], by simp⟩

/-- `Sync()`: after the member is closed and the file fsynced, everything written is durable -/
theorem Dur_after_sync (gz : Bool) (f : File) (l : Bytes) (h : Wr gz f l) :
    Dur (fileFsync (if gz then fileGzClose f else f)) l := by
  cases gz
  · obtain ⟨a, b, hab⟩ : ∃ a b, f.data = a ++ l ++ b := by simpa [Wr] using h
    refine ⟨a, b, by simpa [fileFsync] using hab, ?_⟩
    have := congrArg List.length hab
    simp [fileFsync] at this ⊢
    omega
  · obtain ⟨a, b, hab⟩ : ∃ a b, f.data ++ f.tail = a ++ l ++ b := by simpa [Wr] using h
    refine ⟨a, b, by simpa [fileFsync, fileGzClose] using hab, ?_⟩
    have := congrArg List.length hab
    simp [fileFsync, fileGzClose] at this ⊢
    omega

/-! ### file system -/

@[simp] theorem get_set_same (fs : FS) (p : Path) (f : File) : (fs.set p f).get p = some f := by simp [FS.set]
theorem get_set_ne (fs : FS) (p q : Path) (f : File) (h : q ≠ p) : (fs.set p f).get q = fs.get q := by simp [FS.set, h]
@[simp] theorem get_del_same (fs : FS) (p : Path) : (fs.del p).get p = none := by simp [FS.del]
theorem get_del_ne (fs : FS) (p q : Path) (h : q ≠ p) : (fs.del p).get q = fs.get q := by simp [FS.del, h]

theorem DurS_set_le {fs : FS} {p : Path} {f f' : File} {l : Bytes} (hg : fs.get p = some f) (hle : FileLe f f')
    (h : DurS fs l) : DurS (fs.set p f') l := by
  obtain ⟨q, g, hq, hd⟩ := h
  by_cases hqp : q = p
  · subst hqp
    rw [hg] at hq; cases hq
    exact ⟨q, f', by simp, Dur_mono hle hd⟩
  · exact ⟨q, g, by rw [get_set_ne _ _ _ _ hqp]; exact hq, hd⟩

theorem DurS_set_new {fs : FS} {p : Path} {f' : File} {l : Bytes} (hg : fs.get p = none) (h : DurS fs l) :
    DurS (fs.set p f') l := by
  obtain ⟨q, g, hq, hd⟩ := h
  have hqp : q ≠ p := by intro e; subst e; rw [hg] at hq; cases hq
  exact ⟨q, g, by rw [get_set_ne _ _ _ _ hqp]; exact hq, hd⟩

/-- link `src` to the free name `dst`, then unlink `src` -/
theorem DurS_rename {fs : FS} {src dst : Path} {f : File} {l : Bytes} (hs : fs.get src = some f)
    (hne : src ≠ dst) (h : DurS (fs.set dst f) l) : DurS ((fs.set dst f).del src) l := by
  obtain ⟨q, g, hq, hd⟩ := h
  by_cases hqs : q = src
  · subst hqs
    rw [get_set_ne _ _ _ _ hne, hs] at hq; cases hq
    exact ⟨dst, f, by rw [get_del_ne _ _ _ (Ne.symm hne)]; simp, hd⟩
  · exact ⟨q, g, by rw [get_del_ne _ _ _ hqs]; exact hq, hd⟩

/-! ### the invariant -/

/-- the state of a message that was written but not yet finished -/
def PendOk (c : Cfg) (st : St) (m : Msg) : Prop :=
  DurS st.fs (line m) ∨
  (st.hasOut = true ∧ st.outOpen = true ∧ ∃ f, st.fs.get st.outPath = some f ∧ Wr c.gzip f (line m))

structure Inv (c : Cfg) (st : St) : Prop where
  /-- every finished message is durably in some named file -/
  fin : ∀ m ∈ st.finished, DurS st.fs (line m)
  /-- every pending message is durable somewhere or written to the file behind the open descriptor -/
  pend : st.status = .running → ∀ m ∈ st.pending, PendOk c st m
  /-- with a separate work dir the open file lives in the work dir -/
  wd : c.workDir = true → st.hasOut = true → st.outPath.out = false

/-- every pending message is already durable (what `Sync()` / `Close()` establish) -/
def AllDur (st : St) : Prop := st.status = .running → ∀ m ∈ st.pending, DurS st.fs (line m)

/-- `s'` is `st` after the process stopped (or `st` itself if it had stopped before) -/
def Dead (st s' : St) : Prop :=
  s'.status ≠ .running ∧ s'.fs = st.fs ∧ s'.finished = st.finished ∧ s'.hasOut = st.hasOut ∧ s'.outPath = st.outPath

theorem Inv_dead {c : Cfg} {st s' : St} (h : Inv c st) (hd : Dead st s') : Inv c s' := by
  obtain ⟨hs, hfs, hfin, hho, hop⟩ := hd
  exact ⟨by rw [hfin, hfs]; exact h.fin, fun hr => absurd hr hs, by rw [hho, hop]; exact h.wd⟩

theorem AllDur_dead {st s' : St} (hd : Dead st s') : AllDur s' := fun hr => absurd hr hd.1

theorem Dead_trans {a b d : St} (h1 : Dead a b) (h2 : Dead b d) : Dead a d :=
  ⟨h2.1, h2.2.1.trans h1.2.1, h2.2.2.1.trans h1.2.2.1, h2.2.2.2.1.trans h1.2.2.2.1, h2.2.2.2.2.trans h1.2.2.2.2⟩

theorem Dead_self {st : St} (h : st.status ≠ .running) : Dead st st := ⟨h, rfl, rfl, rfl, rfl⟩

/-- eliminator for a primitive: either the process is/gets stopped, or the continuation runs -/
theorem guard_elim (io : Nat → Fault) (st : St) (k : St → St) (P : St → Prop)
    (hdead : ∀ s', Dead st s' → P s')
    (hlive : st.status = .running → P (k { st with tick := st.tick + 1 })) : P (Nsq.Model.ToFile.guard io st k) := by
  unfold Nsq.Model.ToFile.guard
  by_cases h1 : st.status ≠ .running
  · rw [if_pos h1]; exact hdead st (Dead_self h1)
  · have hr : st.status = .running := by simpa using h1
    rw [if_neg h1]
    by_cases h2 : io st.tick = .kill
    · rw [if_pos h2]; exact hdead _ ⟨by simp, rfl, rfl, rfl, rfl⟩
    · rw [if_neg h2]
      by_cases h3 : io st.tick = .err
      · rw [if_pos h3]; exact hdead _ ⟨by simp, rfl, rfl, rfl, rfl⟩
      · rw [if_neg h3]; exact hlive hr

theorem guard_dead (io : Nat → Fault) (st : St) (k : St → St) (h : st.status ≠ .running) : Nsq.Model.ToFile.guard io st k = st := by
  unfold Nsq.Model.ToFile.guard; simp [h]

theorem onOut_elim (io : Nat → Fault) (st : St) (g : File → File) (P : St → Prop)
    (hdead : ∀ s', Dead st s' → P s')
    (hlive : ∀ f, st.status = .running → st.hasOut = true → st.outOpen = true → st.fs.get st.outPath = some f →
      P { st with tick := st.tick + 1, fs := st.fs.set st.outPath (g f) }) : P (onOut io st g) := by
  unfold onOut
  apply guard_elim
  · exact hdead
  · intro hr
    by_cases h1 : st.hasOut = false ∨ st.outOpen = false
    · rw [if_pos h1]; exact hdead _ ⟨by simp [fatal], rfl, rfl, rfl, rfl⟩
    · rw [if_neg h1]
      have h1' : st.hasOut = true ∧ st.outOpen = true := by
        cases hh : st.hasOut <;> cases ho : st.outOpen <;> simp_all
      cases hg : st.fs.get st.outPath with
      | none => simp only []; exact hdead _ ⟨by simp [fatal], rfl, rfl, rfl, rfl⟩
      | some f => simp only []; exact hlive f hr h1'.1 h1'.2 hg

theorem onOut_dead (io : Nat → Fault) (st : St) (g : File → File) (h : st.status ≠ .running) : onOut io st g = st := by
  unfold onOut; exact guard_dead io st _ h

/-- a write-like system call on the open file keeps the invariant -/
theorem inv_onOut {c : Cfg} (io : Nat → Fault) (st : St) (g : File → File)
    (hle : ∀ f, FileLe f (g f)) (hwr : ∀ f l, Wr c.gzip f l → Wr c.gzip (g f) l)
    (h : Inv c st) : Inv c (onOut io st g) := by
  apply onOut_elim
  · intro s' hd; exact Inv_dead h hd
  · intro f hr hho hoo hg
    refine ⟨?_, ?_, h.wd⟩
    · intro m hm; exact DurS_set_le hg (hle f) (h.fin m hm)
    · intro _ m hm
      cases h.pend hr m hm with
      | inl hd => exact Or.inl (DurS_set_le hg (hle f) hd)
      | inr hw =>
        obtain ⟨_, _, f0, hf0, hw0⟩ := hw
        rw [hg] at hf0; cases hf0
        exact Or.inr ⟨hho, hoo, g f, by simp, hwr f _ hw0⟩

theorem allDur_onOut (io : Nat → Fault) (st : St) (g : File → File)
    (hle : ∀ f, FileLe f (g f)) (ha : AllDur st) : AllDur (onOut io st g) := by
  apply onOut_elim
  · intro s' hd; exact AllDur_dead hd
  · intro f hr _ _ hg _ m hm
    exact DurS_set_le hg (hle f) (ha hr m hm)

/-- `Sync()` (also the first half of `Close()`): afterwards every pending message is durable -/
theorem inv_syncOut {c : Cfg} (io : Nat → Fault) (st : St) (h : Inv c st) :
    Inv c (syncOut c io st) ∧ AllDur (syncOut c io st) := by
  unfold syncOut
  cases hgz : c.gzip
  · -- plain file: fsync
    simp only [Bool.false_eq_true, if_false]
    apply onOut_elim (P := fun s => Inv c s ∧ AllDur s)
    · intro s' hd; exact ⟨Inv_dead h hd, AllDur_dead hd⟩
    · intro f hr hho hoo hg
      have hall : ∀ m ∈ st.pending, DurS (st.fs.set st.outPath (fileFsync f)) (line m) := by
        intro m hm
        cases h.pend hr m hm with
        | inl hd => exact DurS_set_le hg (fileFsync_le f) hd
        | inr hw =>
          obtain ⟨_, _, f0, hf0, hw0⟩ := hw
          rw [hg] at hf0; cases hf0
          have := Dur_after_sync c.gzip f _ hw0
          rw [hgz] at this
          exact ⟨st.outPath, fileFsync f, by simp, by simpa using this⟩
      exact ⟨⟨fun m hm => DurS_set_le hg (fileFsync_le f) (h.fin m hm), fun _ m hm => Or.inl (hall m hm), h.wd⟩,
             fun _ m hm => hall m hm⟩
  · -- gzip: close the member, then fsync
    simp only [if_true]
    apply onOut_elim (st := st) (P := fun s => Inv c (onOut io s fileFsync) ∧ AllDur (onOut io s fileFsync))
    · intro s' hd
      rw [onOut_dead io s' _ hd.1]
      exact ⟨Inv_dead h hd, AllDur_dead hd⟩
    · intro f hr hho hoo hg
      apply onOut_elim (P := fun s => Inv c s ∧ AllDur s)
      · intro s' hd
        have h1 : Inv c { st with tick := st.tick + 1, fs := st.fs.set st.outPath (fileGzClose f) } := by
          have := inv_onOut (c := c) io st fileGzClose fileGzClose_le (fun f l => Wr_gzClose c.gzip f l) h
          refine ⟨fun m hm => DurS_set_le hg (fileGzClose_le f) (h.fin m hm), ?_, h.wd⟩
          intro _ m hm
          cases h.pend hr m hm with
          | inl hd => exact Or.inl (DurS_set_le hg (fileGzClose_le f) hd)
          | inr hw =>
            obtain ⟨_, _, f0, hf0, hw0⟩ := hw
            rw [hg] at hf0; cases hf0
            exact Or.inr ⟨hho, hoo, fileGzClose f, by simp, Wr_gzClose c.gzip f _ hw0⟩
        exact ⟨Inv_dead h1 hd, AllDur_dead hd⟩
      · intro f1 _ _ _ hg1
        have hf1 : f1 = fileGzClose f := by simpa using hg1.symm
        subst hf1
        have hle : FileLe f (fileFsync (fileGzClose f)) :=
          ⟨by obtain ⟨x, hx⟩ := (fileGzClose_le f).1; exact ⟨x, by simpa [fileFsync] using hx⟩,
           Nat.le_trans (fileGzClose_le f).2 (fileFsync_le _).2⟩
        have hstep : ∀ l, DurS st.fs l →
            DurS ((st.fs.set st.outPath (fileGzClose f)).set st.outPath (fileFsync (fileGzClose f))) l := by
          intro l hd
          exact DurS_set_le (by simp) (fileFsync_le _) (DurS_set_le hg (fileGzClose_le f) hd)
        have hall : ∀ m ∈ st.pending,
            DurS ((st.fs.set st.outPath (fileGzClose f)).set st.outPath (fileFsync (fileGzClose f))) (line m) := by
          intro m hm
          cases h.pend hr m hm with
          | inl hd => exact hstep _ hd
          | inr hw =>
            obtain ⟨_, _, f0, hf0, hw0⟩ := hw
            rw [hg] at hf0; cases hf0
            have := Dur_after_sync c.gzip f _ hw0
            rw [hgz] at this
            exact ⟨st.outPath, fileFsync (fileGzClose f), by simp, by simpa using this⟩
        exact ⟨⟨fun m hm => hstep _ (h.fin m hm), fun _ m hm => Or.inl (hall m hm), h.wd⟩, fun _ m hm => hall m hm⟩

theorem finList_dead (io : Nat → Fault) (l : List Msg) (st : St) (h : st.status ≠ .running) : finList io st l = st := by
  induction l generalizing st with
  | nil => rfl
  | cons m rest ih => unfold finList; rw [guard_dead io st _ h]; exact ih st h

/-- the FIN loop, run when every message it finishes is durable -/
theorem inv_finList {c : Cfg} (io : Nat → Fault) (l : List Msg) (st : St) (h : Inv c st)
    (hall : ∀ m ∈ l, DurS st.fs (line m)) (hp : st.status = .running → st.pending = l) :
    Inv c (finList io st l) ∧ AllDur (finList io st l) := by
  induction l generalizing st with
  | nil =>
    unfold finList
    exact ⟨h, fun hr m hm => by rw [hp hr] at hm; cases hm⟩
  | cons m rest ih =>
    unfold finList
    apply guard_elim (P := fun s => Inv c (finList io s rest) ∧ AllDur (finList io s rest))
    · intro s' hd
      rw [finList_dead io rest s' hd.1]
      exact ⟨Inv_dead h hd, AllDur_dead hd⟩
    · intro hr
      apply ih
      · refine ⟨?_, ?_, h.wd⟩
        · intro x hx
          cases hx with
          | head => exact hall _ (List.mem_cons_self ..)
          | tail _ hx => exact h.fin x hx
        · intro _ x hx; exact Or.inl (hall x (List.mem_cons_of_mem _ hx))
      · intro x hx; exact hall x (List.mem_cons_of_mem _ hx)
      · intro _; rfl

theorem inv_syncBlock {c : Cfg} (io : Nat → Fault) (st : St) (h : Inv c st) : Inv c (syncBlock c io st) := by
  unfold syncBlock
  by_cases hp : st.pending = []
  · rw [if_pos hp]; exact h
  · rw [if_neg hp]
    have h1 := inv_syncOut io st h
    by_cases hr : (syncOut c io st).status = .running
    · exact (inv_finList io _ _ h1.1 (fun m hm => h1.2 hr m hm) (fun _ => rfl)).1
    · rw [finList_dead io _ _ hr]; exact h1.1

theorem inv_closeFd {c : Cfg} (io : Nat → Fault) (st : St) (h : Inv c st) (ha : AllDur st) :
    Inv c (closeFd io st) ∧ AllDur (closeFd io st) := by
  unfold closeFd
  apply guard_elim (P := fun s => Inv c s ∧ AllDur s)
  · intro s' hd; exact ⟨Inv_dead h hd, AllDur_dead hd⟩
  · intro hr
    by_cases h1 : st.hasOut = false ∨ st.outOpen = false
    · rw [if_pos h1]
      have hd : Dead st (fatal { st with tick := st.tick + 1 }) := ⟨by simp [fatal], rfl, rfl, rfl, rfl⟩
      exact ⟨Inv_dead h hd, AllDur_dead hd⟩
    · rw [if_neg h1]
      exact ⟨⟨h.fin, fun _ m hm => Or.inl (ha hr m hm), h.wd⟩, fun _ m hm => ha hr m hm⟩

theorem inv_clearOut {c : Cfg} (st : St) (h : Inv c st) (ha : AllDur st) :
    Inv c (clearOut st) ∧ AllDur (clearOut st) := by
  unfold clearOut
  by_cases h1 : st.status ≠ .running
  · rw [if_pos h1]; exact ⟨h, ha⟩
  · rw [if_neg h1]
    have hr : st.status = .running := by simpa using h1
    exact ⟨⟨h.fin, fun _ m hm => Or.inl (ha hr m hm), fun _ hh => by simp at hh⟩, fun _ m hm => ha hr m hm⟩

/-- link to a free name, then remove the source -/
theorem inv_renameP {c : Cfg} (io : Nat → Fault) (st : St) (src dst : Path) (h : Inv c st) (ha : AllDur st)
    (hfree : st.fs.get dst = none) (hne : src ≠ dst) :
    Inv c (renameP io st src dst) ∧ AllDur (renameP io st src dst) := by
  unfold renameP
  apply guard_elim (st := st)
    (P := fun s => Inv c (Nsq.Model.ToFile.guard io s fun s => { s with fs := s.fs.del src }) ∧
                   AllDur (Nsq.Model.ToFile.guard io s fun s => { s with fs := s.fs.del src }))
  · intro s' hd
    rw [guard_dead io s' _ hd.1]
    exact ⟨Inv_dead h hd, AllDur_dead hd⟩
  · intro hr
    cases hs : st.fs.get src with
    | none =>
      simp only []
      have hd : Dead st (fatal { st with tick := st.tick + 1 }) := ⟨by simp [fatal], rfl, rfl, rfl, rfl⟩
      rw [guard_dead io _ _ hd.1]
      exact ⟨Inv_dead h hd, AllDur_dead hd⟩
    | some f =>
      simp only []
      have hlink : ∀ l, DurS st.fs l → DurS (st.fs.set dst f) l := fun l hd => DurS_set_new hfree hd
      have h1 : Inv c { st with tick := st.tick + 1, fs := st.fs.set dst f } ∧
                AllDur { st with tick := st.tick + 1, fs := st.fs.set dst f } :=
        ⟨⟨fun m hm => hlink _ (h.fin m hm), fun _ m hm => Or.inl (hlink _ (ha hr m hm)), h.wd⟩,
         fun _ m hm => hlink _ (ha hr m hm)⟩
      apply guard_elim (P := fun s => Inv c s ∧ AllDur s)
      · intro s' hd; exact ⟨Inv_dead h1.1 hd, AllDur_dead hd⟩
      · intro _
        have hren : ∀ l, DurS st.fs l → DurS ((st.fs.set dst f).del src) l :=
          fun l hd => DurS_rename hs hne (hlink l hd)
        exact ⟨⟨fun m hm => hren _ (h.fin m hm), fun _ m hm => Or.inl (hren _ (ha hr m hm)), h.wd⟩,
               fun _ m hm => hren _ (ha hr m hm)⟩

theorem search_some {t : Nat → Bool} {n r i : Nat} (h : search t n r = some i) : t i = false := by
  induction n generalizing r with
  | zero => simp [search] at h
  | succ n ih =>
    unfold search at h
    by_cases ht : t r = true
    · rw [if_pos ht] at h; exact ih h
    · rw [if_neg ht] at h
      cases h
      simpa using ht

theorem inv_moveOut {c : Cfg} (io : Nat → Fault) (st : St) (h : Inv c st) (ha : AllDur st)
    (hsrc : st.outPath.out = false) :
    Inv c (moveOut c io st) ∧ AllDur (moveOut c io st) := by
  unfold moveOut
  have hne : ∀ p : Path, p.out = true → st.outPath ≠ p := by
    intro p hp e; rw [e] at hsrc; rw [hsrc] at hp; cases hp
  by_cases hfree : (st.fs.get { st.outPath with out := true }).isNone = true
  · simp only [hfree, if_true]
    have h2 := inv_renameP io st _ _ h ha (by simpa using hfree) (hne _ rfl)
    by_cases hcc : c.closeClears = true
    · rw [if_pos hcc]; exact inv_clearOut _ h2.1 h2.2
    · rw [if_neg hcc]; exact h2
  · simp only [hfree]
    cases hsr : search (takenDst c st.fs st.filename) (fuel st.fs) (st.rev + 1) with
    | none =>
      simp only []
      have hd : Dead st { st with status := Status.diverged } := ⟨by simp, rfl, rfl, rfl, rfl⟩
      exact ⟨Inv_dead h hd, AllDur_dead hd⟩
    | some i =>
      simp only []
      have ht := search_some hsr
      have hfree2 : st.fs.get (mkPath c true st.filename i) = none := by
        simpa [takenDst] using ht
      have h2 := inv_renameP io st st.outPath (mkPath c true st.filename i) h ha hfree2 (hne _ rfl)
      exact inv_clearOut _ h2.1 h2.2

/-- `Close()`: keeps the invariant, and if the tool is still running afterwards every message written
so far is durable -/
theorem inv_closeOut {c : Cfg} (io : Nat → Fault) (st : St) (h : Inv c st) :
    Inv c (closeOut c io st) ∧ AllDur (closeOut c io st) := by
  unfold closeOut
  by_cases hho : st.hasOut = false
  · rw [if_pos hho]
    refine ⟨h, fun hr m hm => ?_⟩
    cases h.pend hr m hm with
    | inl hd => exact hd
    | inr hw => rw [hho] at hw; cases hw.1
  · rw [if_neg hho]
    have h1 := inv_syncOut io st h
    have h3 := inv_closeFd io _ h1.1 h1.2
    by_cases hr : (closeFd io (syncOut c io st)).status ≠ .running
    · rw [if_pos hr]; exact h3
    · rw [if_neg hr]
      by_cases hwd : c.workDir = false
      · rw [if_pos hwd]; exact inv_clearOut _ h3.1 h3.2
      · rw [if_neg hwd]
        have hwd' : c.workDir = true := by simpa using hwd
        by_cases hho3 : (closeFd io (syncOut c io st)).hasOut = true
        · exact inv_moveOut io _ h3.1 h3.2 (h3.1.wd hwd' hho3)
        · -- unreachable (closeFd keeps hasOut); closed by running the fatal branch of closeFd
          exfalso
          apply hho3
          have hrun : (closeFd io (syncOut c io st)).status = .running := by simpa using hr
          revert hrun
          unfold closeFd
          apply guard_elim (P := fun s => s.status = .running → s.hasOut = true)
          · intro s' hd hrun; exact absurd hrun hd.1
          · intro _
            by_cases hc : (syncOut c io st).hasOut = false ∨ (syncOut c io st).outOpen = false
            · rw [if_pos hc]; intro hrun; simp [fatal] at hrun
            · rw [if_neg hc]; intro _
              cases hh : (syncOut c io st).hasOut <;> simp_all

/-- the invariant only looks at these fields -/
theorem Inv_congr {c : Cfg} {st s' : St} (h : Inv c st) (h1 : s'.fs = st.fs) (h2 : s'.finished = st.finished)
    (h3 : s'.pending = st.pending) (h4 : s'.status = st.status) (h5 : s'.hasOut = st.hasOut)
    (h6 : s'.outOpen = st.outOpen) (h7 : s'.outPath = st.outPath) : Inv c s' := by
  refine ⟨by rw [h2, h1]; exact h.fin, ?_, by rw [h5, h7]; exact h.wd⟩
  intro hr m hm
  rw [h3] at hm; rw [h4] at hr
  have := h.pend hr m hm
  unfold PendOk at *
  rw [h1, h5, h6, h7]; exact this

theorem AllDur_congr {st s' : St} (h : AllDur st) (h1 : s'.fs = st.fs) (h3 : s'.pending = st.pending)
    (h4 : s'.status = st.status) : AllDur s' := by
  intro hr m hm; rw [h3] at hm; rw [h4] at hr; rw [h1]; exact h hr m hm

theorem mkPath_out (c : Cfg) (o : Bool) (t : String) (r : Nat) : (mkPath c o t r).out = o := rfl

theorem inv_sealTail {c : Cfg} (io : Nat → Fault) (rd : Fault) (s1 : St) (f : File) (h : Inv c s1) (ha : AllDur s1) :
    Inv c (sealTail c io rd s1 f) ∧ AllDur (sealTail c io rd s1 f) := by
  unfold sealTail
  split
  · -- the last byte cannot be read: append unsealed (F47b) or exit (committed F47)
    split
    · exact ⟨h, ha⟩
    · have hd : Dead s1 (fatal s1) := ⟨by simp [fatal], rfl, rfl, rfl, rfl⟩
      exact ⟨Inv_dead h hd, AllDur_dead hd⟩
  split
  · have h2 := inv_onOut (c := c) io s1 (fileWrite c.gzip [10]) (fileWrite_le c.gzip [10])
      (fun f l => Wr_write c.gzip [10] f l) h
    have a2 := allDur_onOut io s1 (fileWrite c.gzip [10]) (fileWrite_le c.gzip [10]) ha
    simp only []
    split
    · exact ⟨h2, a2⟩
    · exact ⟨Inv_congr h2 rfl rfl rfl rfl rfl rfl rfl, AllDur_congr a2 rfl rfl rfl⟩
  · exact ⟨h, ha⟩

theorem inv_openNew {c : Cfg} (io : Nat → Fault) (st : St) (fn : String) (h : Inv c st) (ha : AllDur st) :
    Inv c (openNew c io st fn) ∧ AllDur (openNew c io st fn) := by
  unfold openNew
  apply guard_elim (P := fun s => Inv c s ∧ AllDur s)
  · intro s' hd; exact ⟨Inv_dead h hd, AllDur_dead hd⟩
  · intro hr
    simp only []
    cases hsr : search (taken c st.fs fn) (fuel st.fs) st.rev with
    | none =>
      simp only []
      have hd : Dead st { st with tick := st.tick + 1, status := Status.diverged } := ⟨by simp, rfl, rfl, rfl, rfl⟩
      exact ⟨Inv_dead h hd, AllDur_dead hd⟩
    | some r =>
      simp only []
      have hwd : c.workDir = true → (mkPath c (!c.workDir) fn r).out = false := by
        intro hw; rw [mkPath_out, hw]; rfl
      cases hg : st.fs.get (mkPath c (!c.workDir) fn r) with
      | none =>
        simp only []
        have hnew : ∀ l, DurS st.fs l → DurS (st.fs.set (mkPath c (!c.workDir) fn r) ⟨[], [], 0⟩) l :=
          fun l hd => DurS_set_new hg hd
        exact ⟨⟨fun m hm => hnew _ (h.fin m hm), fun _ m hm => Or.inl (hnew _ (ha hr m hm)), fun hw _ => hwd hw⟩,
               fun _ m hm => hnew _ (ha hr m hm)⟩
      | some f =>
        simp only []
        have key : ∀ s1 : St, s1.fs = st.fs → s1.finished = st.finished → s1.pending = st.pending →
            s1.status = st.status → s1.outPath = mkPath c (!c.workDir) fn r → Inv c s1 ∧ AllDur s1 := by
          intro s1 e1 e2 e3 e4 e5
          refine ⟨⟨by rw [e1, e2]; exact h.fin, ?_, fun hw _ => by rw [e5]; exact hwd hw⟩, ?_⟩
          · intro hr1 m hm; rw [e3] at hm; exact Or.inl (by rw [e1]; exact ha hr m hm)
          · intro hr1 m hm; rw [e3] at hm; rw [e1]; exact ha hr m hm
        have k2 : ∀ s1 : St, Inv c s1 ∧ AllDur s1 →
            Inv c (sealTail c io (io st.tick) s1 f) ∧ AllDur (sealTail c io (io st.tick) s1 f) :=
          fun s1 hh => inv_sealTail io _ s1 f hh.1 hh.2
        apply k2
        exact key _ rfl rfl rfl rfl rfl

/-- `updateFile()` (rotation): the old file is closed durably before the new one is opened, so every
message written so far is durable whenever the tool is still running afterwards -/
theorem inv_updateFile {c : Cfg} (io : Nat → Fault) (st : St) (now : Int) (fn : String) (h : Inv c st) :
    Inv c (updateFile c io st now fn) ∧ AllDur (updateFile c io st now fn) := by
  unfold updateFile
  have h1 := inv_closeOut io st h
  exact inv_openNew io _ fn (Inv_congr h1.1 rfl rfl rfl rfl rfl rfl rfl) (AllDur_congr h1.2 rfl rfl rfl)

theorem onOut_running (io : Nat → Fault) (st : St) (g : File → File) (h : (onOut io st g).status = .running) :
    ∃ f, st.status = .running ∧ st.hasOut = true ∧ st.outOpen = true ∧ st.fs.get st.outPath = some f ∧
      onOut io st g = { st with tick := st.tick + 1, fs := st.fs.set st.outPath (g f) } := by
  revert h
  apply onOut_elim (P := fun s => s.status = .running → ∃ f, st.status = .running ∧ st.hasOut = true ∧
      st.outOpen = true ∧ st.fs.get st.outPath = some f ∧ s = { st with tick := st.tick + 1, fs := st.fs.set st.outPath (g f) })
  · intro s' hd hr; exact absurd hr hd.1
  · intro f hr hho hoo hg _; exact ⟨f, hr, hho, hoo, hg, rfl⟩

theorem Wr_line1 (gz : Bool) (f : File) (body : Bytes) : Wr gz (fileWrite gz (body ++ [10]) f) (body ++ [10]) := by
  unfold Wr fileWrite
  cases gz <;> simp
  · exact ⟨f.data ++ f.tail, [], by simp⟩
  · exact ⟨f.data ++ f.tail, [], by simp⟩

/-- the record of one message (either shape): invariant kept; if still running, the line is in the open file -/
theorem inv_writeLine {c : Cfg} (io : Nat → Fault) (st : St) (m : Msg) (h : Inv c st) :
    Inv c (writeLine c io st m) ∧ ((writeLine c io st m).status = .running →
      (writeLine c io st m).hasOut = true ∧ (writeLine c io st m).outOpen = true ∧
      (writeLine c io st m).pending = st.pending ∧
      ∃ f, (writeLine c io st m).fs.get (writeLine c io st m).outPath = some f ∧ Wr c.gzip f (line m)) := by
  unfold writeLine
  have hw := fun (b : Bytes) (s : St) (hs : Inv c s) =>
    inv_onOut (c := c) io s (fileWrite c.gzip b) (fileWrite_le c.gzip b) (fun f l => Wr_write c.gzip b f l) hs
  by_cases h1w : c.oneWrite = true
  · rw [if_pos h1w]
    refine ⟨hw _ _ h, fun hr' => ?_⟩
    obtain ⟨f0, hr0, hho0, hoo0, hg0, he0⟩ := onOut_running io st _ hr'
    rw [he0]
    exact ⟨hho0, hoo0, rfl, fileWrite c.gzip (m.body ++ [10]) f0, by simp, Wr_line1 c.gzip f0 m.body⟩
  · rw [if_neg h1w]
    refine ⟨hw _ _ (hw _ _ h), fun hr' => ?_⟩
    obtain ⟨f1, hr1, hho1, hoo1, hg1, he1⟩ := onOut_running io _ _ hr'
    obtain ⟨f0, hr0, hho0, hoo0, hg0, he0⟩ := onOut_running io st _ hr1
    have hf1 : f1 = fileWrite c.gzip m.body f0 := by
      rw [he0] at hg1; simpa using hg1.symm
    rw [he1]
    refine ⟨hho1, hoo1, by rw [he0], fileWrite c.gzip [10] f1, by simp, ?_⟩
    rw [hf1]; exact Wr_line c.gzip f0 m.body

theorem inv_writeMsg {c : Cfg} (io : Nat → Fault) (st : St) (m : Msg) (h : Inv c st) : Inv c (writeMsg c io st m) := by
  unfold writeMsg
  obtain ⟨h2, hl⟩ := inv_writeLine io st m h
  by_cases hr : (writeLine c io st m).status ≠ .running
  · rw [if_pos hr]; exact h2
  · rw [if_neg hr]
    have hr' : (writeLine c io st m).status = .running := by simpa using hr
    by_cases hp : (writeLine c io st m).pending.length ≥ c.maxInFlight
    · rw [if_pos hp]
      exact Inv_dead h2 ⟨by simp, rfl, rfl, rfl, rfl⟩
    · rw [if_neg hp]
      obtain ⟨hho, hoo, _, f, hg, hwr⟩ := hl hr'
      refine ⟨h2.fin, ?_, h2.wd⟩
      intro _ x hx
      cases hx with
      | head => exact Or.inr ⟨hho, hoo, f, hg, hwr⟩
      | tail _ hx => exact h2.pend hr' x hx

theorem Inv_ite {c : Cfg} {p : Prop} [Decidable p] {a b : St} (ha : Inv c a) (hb : Inv c b) :
    Inv c (if p then a else b) := by
  split <;> assumption

theorem inv_finishRun {c : Cfg} (st : St) (h : Inv c st) : Inv c (finishRun st) := by
  unfold finishRun
  by_cases h1 : st.status ≠ .running
  · rw [if_pos h1]; exact h
  · rw [if_neg h1]; exact Inv_dead h ⟨by simp, rfl, rfl, rfl, rfl⟩

/-- one loop iteration of `router()` keeps the invariant, for every event and every fault schedule -/
theorem inv_step {c : Cfg} (io : Nat → Fault) (st : St) (ev : Ev) (starved : Bool) (h : Inv c st) :
    Inv c (step c io st ev starved) := by
  unfold step
  by_cases hr : st.status ≠ .running
  · rw [if_pos hr]; exact h
  · rw [if_neg hr]
    cases ev with
    | msg m now fn =>
      simp only []
      have h1 : Inv c (if needsRotation c st now fn = true then updateFile c io st now fn else st) := by
        by_cases hrot : needsRotation c st now fn = true
        · rw [if_pos hrot]; exact (inv_updateFile io st now fn h).1
        · rw [if_neg hrot]; exact h
      have h2 := inv_writeMsg io _ m h1
      exact Inv_ite (inv_syncBlock io _ h2) h2
    | tick now fn =>
      simp only []
      have h1 : Inv c (if (needsRotation c st now fn && !c.skipEmpty) = true then updateFile c io st now fn else st) := by
        by_cases hrot : (needsRotation c st now fn && !c.skipEmpty) = true
        · rw [if_pos hrot]; exact (inv_updateFile io st now fn h).1
        · rw [if_neg hrot]; exact h
      have h2 := inv_syncBlock io _ h1
      exact Inv_ite (inv_closeOut io _ h2).1 h2
    | hup => exact (inv_closeOut io _ (inv_syncBlock io st h)).1
    | term => exact inv_syncBlock io st h
    | stopped => exact inv_finishRun _ (inv_closeOut io _ (inv_syncBlock io st h)).1
    | ext p data =>
      simp only []
      by_cases hp : (st.fs.get p).isSome = true
      · rw [if_pos hp]; exact h
      · rw [if_neg hp]
        have hfree : st.fs.get p = none := by simpa using hp
        refine ⟨fun m hm => DurS_set_new hfree (h.fin m hm), ?_, h.wd⟩
        intro hr' m hm
        cases h.pend hr' m hm with
        | inl hd => exact Or.inl (DurS_set_new hfree hd)
        | inr hw =>
          obtain ⟨h1, h2, f, hf, hw0⟩ := hw
          have hne : st.outPath ≠ p := by intro e; rw [e, hfree] at hf; cases hf
          exact Or.inr ⟨h1, h2, f, by rw [get_set_ne _ _ _ _ hne]; exact hf, hw0⟩
    | extAppend p data =>
      simp only []
      cases hg : st.fs.get p with
      | none => exact h
      | some f =>
        simp only []
        by_cases hx : c.excl = true
        · rw [if_pos hx]; exact h
        · rw [if_neg hx]
          have hgz : c.gzip = false := by
            cases hgz : c.gzip
            · rfl
            · exfalso; apply hx; simp [Cfg.excl, hgz]
          refine ⟨fun m hm => DurS_set_le hg (fileWrite_le false data f) (h.fin m hm), ?_, h.wd⟩
          intro hr' m hm
          cases h.pend hr' m hm with
          | inl hd => exact Or.inl (DurS_set_le hg (fileWrite_le false data f) hd)
          | inr hw =>
            obtain ⟨h1, h2, f0, hf0, hw0⟩ := hw
            by_cases hpe : st.outPath = p
            · rw [hpe, hg] at hf0; cases hf0
              refine Or.inr ⟨h1, h2, fileWrite false data f, by rw [hpe]; simp, ?_⟩
              have := Wr_write false data f _ (by rw [hgz] at hw0; exact hw0)
              rw [hgz]; exact this
            · exact Or.inr ⟨h1, h2, f0, by rw [get_set_ne _ _ _ _ hpe]; exact hf0, hw0⟩

theorem inv_run {c : Cfg} (io : Nat → Fault) (evs : List (Ev × Bool)) (st : St) (h : Inv c st) :
    Inv c (run c io st evs) := by
  induction evs generalizing st with
  | nil => exact h
  | cons e es ih => exact ih _ (inv_step io st e.1 e.2 h)

theorem inv_init (c : Cfg) (fs : FS) : Inv c (init fs) :=
  ⟨fun m hm => (by cases hm), fun _ m hm => (by cases hm), fun _ hh => (by simp [init] at hh)⟩

theorem step_stopped (c : Cfg) (io : Nat → Fault) (st : St) (e : Ev) (s : Bool) (h : st.status ≠ .running) :
    step c io st e s = st := by
  unfold step; rw [if_pos h]

theorem run_stopped (c : Cfg) (io : Nat → Fault) (st : St) (evs : List (Ev × Bool)) (h : st.status ≠ .running) :
    run c io st evs = st := by
  induction evs with
  | nil => rfl
  | cons e es ih => unfold run; rw [step_stopped c io st e.1 e.2 h]; exact ih

theorem run_append (c : Cfg) (io : Nat → Fault) (st : St) (e1 e2 : List (Ev × Bool)) :
    run c io st (e1 ++ e2) = run c io (run c io st e1) e2 := by
  induction e1 generalizing st with
  | nil => rfl
  | cons e es ih => exact ih _


end Nsq.Proofs.ToFile
