import Nsq.Model.AdminProg
/-!
Lemmas about the program-level model of the `ClusterInfo` actions (`Nsq.Model.AdminProg`):
the error-accounting invariant of the interpreter (for every program), the explicit shape of the run of
the four program shapes, and `dedup` facts.
-/
namespace Nsq.Proofs.AdminProg
open Nsq.Model.AdminFanout Nsq.Model.AdminProg

theorem failCount_append (w : World) (xs ys : List PReq) :
    failCount w (xs ++ ys) = failCount w xs + failCount w ys := by
  simp [failCount, List.filter_append]

theorem reqs_snoc (ph : List (Op × List PReq)) (op : Op) (rs : List PReq) (e : Nat) (ps : List String) (ab : Bool) :
    St.reqs { phases := ph ++ [(op, rs)], errs := e, producers := ps, aborted := ab } =
      St.reqs { phases := ph, errs := 0, producers := [], aborted := false } ++ rs := by
  simp [St.reqs, List.flatMap_append]

theorem reqs_irrel (st : St) :
    St.reqs st = St.reqs { phases := st.phases, errs := 0, producers := [], aborted := false } := rfl

/-- The accounting invariant: as long as no non-partial error was returned, `errs` holds exactly one
entry per failed request sent so far. -/
def Accounted (w : World) (st : St) : Prop :=
  st.aborted = false → st.errs = failCount w st.reqs

theorem execStep_accounted (w : World) (a : Action) (st : St) (s : Step) (hs : s.onErr = .aggregate)
    (h : Accounted w st) : Accounted w (execStep w a st s) := by
  unfold execStep
  by_cases hab : st.aborted = true
  · simp [hab]; exact h
  · simp only [Bool.not_eq_true] at hab
    by_cases hg : guardHolds a s.guard = true
    · simp only [hab, hg, hs]
      by_cases hf : (opReqs w a st.producers s.op).allFailed = true
      · simp [hf, Accounted]
      · simp only [Bool.not_eq_true] at hf
        simp only [hf]
        intro _
        have h0 := h hab
        simp only [Bool.false_eq_true, ↓reduceIte, Bool.not_true, beq_self_eq_true]
        rw [reqs_snoc, ← reqs_irrel, failCount_append, h0]
    · simp only [Bool.not_eq_true] at hg
      simp [hab, hg]; exact h

theorem runSteps_accounted (w : World) (a : Action) (steps : List Step)
    (hall : ∀ s ∈ steps, s.onErr = .aggregate) (st : St) (h : Accounted w st) :
    Accounted w (runSteps w a steps st) := by
  induction steps generalizing st with
  | nil => exact h
  | cons s rest ih =>
    simp only [runSteps]
    exact ih (fun s' hs' => hall s' (List.mem_cons_of_mem _ hs')) _
      (execStep_accounted w a st s (hall s (List.mem_cons_self)) h)

theorem run_accounted (w : World) (a : Action) (p : Prog) (hp : allAggregate p = true) :
    Accounted w (run w a p) := by
  simp only [allAggregate, Bool.and_eq_true, List.all_eq_true, beq_iff_eq] at hp
  exact runSteps_accounted w a p.steps hp.1 {} (by intro _; rfl)

theorem failCount_zero (w : World) (rs : List PReq) (h : failCount w rs = 0) :
    ∀ r ∈ rs, fails w r = false := by
  intro r hr
  cases hf : fails w r with
  | false => rfl
  | true =>
    have : r ∈ rs.filter (fails w) := List.mem_filter.2 ⟨hr, hf⟩
    simp only [failCount, List.length_eq_zero_iff] at h
    rw [h] at this
    cases this

/-! ### dedup -/

theorem mem_dedup (x : String) (l : List String) : x ∈ dedup l ↔ x ∈ l := by
  induction l with
  | nil => simp [dedup]
  | cons y ys ih =>
    simp only [dedup, List.mem_cons, List.mem_filter, bne_iff_ne, ne_eq]
    by_cases hxy : x = y
    · simp [hxy]
    · simp [hxy, ih]

theorem dedup_nodup (l : List String) : (dedup l).Nodup := by
  induction l with
  | nil => simp [dedup]
  | cons y ys ih =>
    simp only [dedup, List.nodup_cons, List.mem_filter, bne_iff_ne, ne_eq, not_true_eq_false,
      and_false, not_false_eq_true, true_and]
    exact List.Pairwise.filter _ ih

theorem count_one_of_nodup {α : Type} [BEq α] [LawfulBEq α] (l : List α) (x : α)
    (hn : l.Nodup) (hx : x ∈ l) : l.count x = 1 := by
  induction l with
  | nil => cases hx
  | cons y ys ih =>
    simp only [List.nodup_cons] at hn
    by_cases hxy : y = x
    · subst hxy
      have : ys.count y = 0 := List.count_eq_zero_of_not_mem hn.1
      simp [this]
    · have hx' : x ∈ ys := by
        rcases List.mem_cons.1 hx with h | h
        · exact absurd h.symm hxy
        · exact h
      have hne : (y == x) = false := by simpa using hxy
      simp [List.count_cons, hne, ih hn.2 hx']

/-! ### The explicit runs of the four program shapes -/

def lkPosts (w : World) (a : Action) (uri : String) (qs : QS) : List PReq :=
  w.lookupds.map (fun l => (⟨true, .lookupd, l.addr, pathOf uri, qsOf a qs⟩ : PReq))

def prPosts (a : Action) (ps : List String) (uri : String) (qs : QS) : List PReq :=
  ps.map (fun p => (⟨true, .nsqd, p, pathOf uri, qsOf a qs⟩ : PReq))

theorem run_helper (w : World) (a : Action) (uri : String) (qs : QS) :
    run w a (helperProg uri qs) =
      (let L := doLookup w a .topicProducers
       if L.allFailed then
         { phases := [(.lookup .topicProducers, L.reqs)], errs := 0, producers := [], aborted := true }
       else
         { phases := [(.lookup .topicProducers, L.reqs), (.producersPost uri qs, prPosts a L.producers uri qs)],
           errs := 0 + failCount w L.reqs + failCount w (prPosts a L.producers uri qs),
           producers := L.producers, aborted := false }) := by
  simp only [run, helperProg, agg, runSteps, execStep, guardHolds, opReqs, prPosts]
  by_cases h : (doLookup w a .topicProducers).allFailed = true <;> simp [h]

theorem run_delete (w : World) (a : Action) (uri : String) (qs : QS) :
    run w a (deleteProg uri qs) =
      (let L := doLookup w a .topicProducers
       if L.allFailed then
         { phases := [(.lookup .topicProducers, L.reqs)], errs := 0, producers := [], aborted := true }
       else
         { phases := [(.lookup .topicProducers, L.reqs), (.lookupdPost uri qs, lkPosts w a uri qs),
                      (.producersPost uri qs, prPosts a L.producers uri qs)],
           errs := 0 + failCount w L.reqs + failCount w (lkPosts w a uri qs) +
                     failCount w (prPosts a L.producers uri qs),
           producers := L.producers, aborted := false }) := by
  simp only [run, deleteProg, agg, runSteps, execStep, guardHolds, opReqs, prPosts, lkPosts]
  by_cases h : (doLookup w a .topicProducers).allFailed = true <;> simp [h]

theorem run_tombstone (w : World) (a : Action) :
    run w a tombstoneProg =
      (let L := doLookup w a .nsqdProducersOfNode
       if L.allFailed then
         { phases := [(.lookupdPost "topic/tombstone" .topicNode, lkPosts w a "topic/tombstone" .topicNode),
                      (.lookup .nsqdProducersOfNode, L.reqs)],
           errs := 0 + failCount w (lkPosts w a "topic/tombstone" .topicNode), producers := [], aborted := true }
       else
         { phases := [(.lookupdPost "topic/tombstone" .topicNode, lkPosts w a "topic/tombstone" .topicNode),
                      (.lookup .nsqdProducersOfNode, L.reqs),
                      (.producersPost "topic/delete" .topic, prPosts a L.producers "topic/delete" .topic)],
           errs := 0 + failCount w (lkPosts w a "topic/tombstone" .topicNode) + failCount w L.reqs +
                     failCount w (prPosts a L.producers "topic/delete" .topic),
           producers := L.producers, aborted := false }) := by
  simp only [run, tombstoneProg, agg, runSteps, execStep, guardHolds, opReqs, prPosts, lkPosts]
  by_cases h : (doLookup w a .nsqdProducersOfNode).allFailed = true <;> simp [h]

theorem run_create_topic (w : World) (a : Action) (hc : a.channel = "") :
    run w a createProg =
      { phases := [(.lookupdPost "topic/create" .topic, lkPosts w a "topic/create" .topic)],
        errs := 0 + failCount w (lkPosts w a "topic/create" .topic), producers := [], aborted := false } := by
  simp [run, createProg, agg, aggCh, runSteps, execStep, guardHolds, opReqs, lkPosts, hc]

theorem run_create_channel (w : World) (a : Action) (hc : a.channel ≠ "") :
    run w a createProg =
      (let L := doLookup w a .lookupdTopicProducers
       if L.allFailed then
         { phases := [(.lookupdPost "topic/create" .topic, lkPosts w a "topic/create" .topic),
                      (.lookupdPost "channel/create" .topicChannel, lkPosts w a "channel/create" .topicChannel),
                      (.lookup .lookupdTopicProducers, L.reqs)],
           errs := 0 + failCount w (lkPosts w a "topic/create" .topic) +
                     failCount w (lkPosts w a "channel/create" .topicChannel),
           producers := [], aborted := true }
       else
         { phases := [(.lookupdPost "topic/create" .topic, lkPosts w a "topic/create" .topic),
                      (.lookupdPost "channel/create" .topicChannel, lkPosts w a "channel/create" .topicChannel),
                      (.lookup .lookupdTopicProducers, L.reqs),
                      (.producersPost "channel/create" .topicChannel,
                        prPosts a L.producers "channel/create" .topicChannel)],
           errs := 0 + failCount w (lkPosts w a "topic/create" .topic) +
                     failCount w (lkPosts w a "channel/create" .topicChannel) + failCount w L.reqs +
                     failCount w (prPosts a L.producers "channel/create" .topicChannel),
           producers := L.producers, aborted := false }) := by
  simp only [run, createProg, agg, aggCh, runSteps, execStep, guardHolds, opReqs, prPosts, lkPosts]
  by_cases h : (doLookup w a .lookupdTopicProducers).allFailed = true <;> simp [h, hc]

/-! ### Who is contacted, how often, in which order -/

/-- The commands an action sends to the nsqlookupds (uri, query string). -/
def lookupdCmds (a : Action) : List (String × QS) :=
  match a.kind with
  | .createTopic => [("topic/create", .topic)]
  | .createChannel => [("topic/create", .topic), ("channel/create", .topicChannel)]
  | .deleteTopic => [("topic/delete", .topic)]
  | .deleteChannel => [("channel/delete", .topicChannel)]
  | .tombstone => [("topic/tombstone", .topicNode)]
  | _ => []

def nsqdCmd : Kind → Option (String × QS)
  | .createTopic => none
  | .createChannel => some ("channel/create", .topicChannel)
  | .deleteTopic => some ("topic/delete", .topic)
  | .deleteChannel => some ("channel/delete", .topicChannel)
  | .pauseTopic => some ("topic/pause", .topic)
  | .unpauseTopic => some ("topic/unpause", .topic)
  | .emptyTopic => some ("topic/empty", .topic)
  | .pauseChannel => some ("channel/pause", .topicChannel)
  | .unpauseChannel => some ("channel/unpause", .topicChannel)
  | .emptyChannel => some ("channel/empty", .topicChannel)
  | .tombstone => some ("topic/delete", .topic)

/-- Well-formed actions as the handlers build them: `createChannel` has a channel, `createTopic` none. -/
def Action.wf (a : Action) : Prop :=
  (a.kind = .createTopic → a.channel = "") ∧ (a.kind = .createChannel → a.channel ≠ "")

theorem lookup_reqs_get (w : World) (a : Action) (l : Lookup) : ∀ r ∈ (doLookup w a l).reqs, r.post = false := by
  intro r hr
  cases l <;> simp only [doLookup, lookupdTopicProducers, nsqdTopicProducers, nsqdProducersOfNode] at hr
  · split at hr
    · simp only [List.mem_map] at hr; obtain ⟨_, _, rfl⟩ := hr; rfl
    · simp only [List.mem_flatMap, List.mem_cons] at hr
      obtain ⟨n, _, h | h⟩ := hr
      · subst h; rfl
      · split at h
        · simp at h; subst h; rfl
        · cases h
  · simp only [List.mem_map] at hr; obtain ⟨_, _, rfl⟩ := hr; rfl
  · simp only [List.mem_cons] at hr
    rcases hr with h | h
    · subst h; rfl
    · split at h
      · simp at h; subst h; rfl
      · cases h


def sel (t : Target) (path qs : String) : PReq → Bool :=
  fun r => r.post && (r.target == t && (r.path == path && r.qs == qs))

theorem sel_gets (w : World) (a : Action) (l : Lookup) (t : Target) (p q : String) :
    (doLookup w a l).reqs.filter (sel t p q) = [] := by
  rw [List.filter_eq_nil_iff]
  intro r hr
  simp [sel, lookup_reqs_get w a l r hr]

theorem sel_lk_same (w : World) (a : Action) (uri : String) (qs : QS) :
    (lkPosts w a uri qs).filter (sel .lookupd (pathOf uri) (qsOf a qs)) = lkPosts w a uri qs := by
  rw [List.filter_eq_self]
  intro r hr
  simp only [lkPosts, List.mem_map] at hr
  obtain ⟨_, _, rfl⟩ := hr
  simp [sel]

theorem sel_pr_same (a : Action) (ps : List String) (uri : String) (qs : QS) :
    (prPosts a ps uri qs).filter (sel .nsqd (pathOf uri) (qsOf a qs)) = prPosts a ps uri qs := by
  rw [List.filter_eq_self]
  intro r hr
  simp only [prPosts, List.mem_map] at hr
  obtain ⟨_, _, rfl⟩ := hr
  simp [sel]

theorem sel_lk_nsqd (w : World) (a : Action) (uri : String) (qs : QS) (p q : String) :
    (lkPosts w a uri qs).filter (sel .nsqd p q) = [] := by
  rw [List.filter_eq_nil_iff]
  intro r hr
  simp only [lkPosts, List.mem_map] at hr
  obtain ⟨_, _, rfl⟩ := hr
  simp [sel]

theorem sel_pr_lk (a : Action) (ps : List String) (uri : String) (qs : QS) (p q : String) :
    (prPosts a ps uri qs).filter (sel .lookupd p q) = [] := by
  rw [List.filter_eq_nil_iff]
  intro r hr
  simp only [prPosts, List.mem_map] at hr
  obtain ⟨_, _, rfl⟩ := hr
  simp [sel]

theorem sel_lk_other (w : World) (a : Action) (uri uri' : String) (qs : QS) (q : String)
    (hne : (pathOf uri == pathOf uri') = false) :
    (lkPosts w a uri qs).filter (sel .lookupd (pathOf uri') q) = [] := by
  rw [List.filter_eq_nil_iff]
  intro r hr
  simp only [lkPosts, List.mem_map] at hr
  obtain ⟨_, _, rfl⟩ := hr
  simp [sel, hne]

theorem lkPosts_addr (w : World) (a : Action) (uri : String) (qs : QS) :
    (lkPosts w a uri qs).map (·.addr) = w.lookupds.map (·.addr) := by
  simp [lkPosts, Function.comp_def]

theorem prPosts_addr (a : Action) (ps : List String) (uri : String) (qs : QS) :
    (prPosts a ps uri qs).map (·.addr) = ps := by
  simp [prPosts, Function.comp_def]

def postsTo (st : St) (t : Target) (path qs : String) : List String :=
  (st.reqs.filter (sel t path qs)).map (·.addr)

theorem lookupds_exactly_once (w : World) (a : Action) (hwf : Action.wf a)
    (hab : (runAction w a).aborted = false) :
    ∀ c ∈ lookupdCmds a,
      postsTo (runAction w a) .lookupd (pathOf c.1) (qsOf a c.2) = w.lookupds.map (·.addr) := by
  intro c hc
  unfold runAction at hab ⊢
  cases hk : a.kind <;> simp only [lookupdCmds, hk, List.mem_cons, List.not_mem_nil, or_false] at hc
  · subst hc
    simp only [progOf, run_create_topic w a (hwf.1 hk), postsTo, St.reqs, List.flatMap_cons,
      List.flatMap_nil, List.append_nil, sel_lk_same, lkPosts_addr]
  · simp only [progOf, hk, run_create_channel w a (hwf.2 hk)] at hab ⊢
    by_cases hf : (doLookup w a .lookupdTopicProducers).allFailed = true
    · simp [hf] at hab
    · simp only [Bool.not_eq_true] at hf
      rcases hc with hc | hc <;> subst hc <;>
      simp [hf, postsTo, St.reqs, List.filter_append, sel_gets, sel_lk_same, sel_pr_lk, lkPosts_addr,
        sel_lk_other w a "channel/create" "topic/create" _ _ (by decide), sel_lk_other w a "topic/create" "channel/create" _ _ (by decide)]
  · subst hc
    simp only [progOf, hk, run_delete] at hab ⊢
    by_cases hf : (doLookup w a .topicProducers).allFailed = true
    · simp [hf] at hab
    · simp only [Bool.not_eq_true] at hf
      simp [hf, postsTo, St.reqs, List.filter_append, sel_gets, sel_lk_same, sel_pr_lk, lkPosts_addr]
  · subst hc
    simp only [progOf, hk, run_delete] at hab ⊢
    by_cases hf : (doLookup w a .topicProducers).allFailed = true
    · simp [hf] at hab
    · simp only [Bool.not_eq_true] at hf
      simp [hf, postsTo, St.reqs, List.filter_append, sel_gets, sel_lk_same, sel_pr_lk, lkPosts_addr]
  · subst hc
    simp only [progOf, hk, run_tombstone] at hab ⊢
    by_cases hf : (doLookup w a .nsqdProducersOfNode).allFailed = true
    · simp [hf] at hab
    · simp only [Bool.not_eq_true] at hf
      simp [hf, postsTo, St.reqs, List.filter_append, sel_gets, sel_lk_same, sel_pr_lk, lkPosts_addr]

theorem nsqds_exactly_once (w : World) (a : Action) (hwf : Action.wf a)
    (hab : (runAction w a).aborted = false) (c : String × QS) (hc : nsqdCmd a.kind = some c) :
    postsTo (runAction w a) .nsqd (pathOf c.1) (qsOf a c.2) = (runAction w a).producers := by
  unfold runAction at hab ⊢
  cases hk : a.kind <;> simp only [nsqdCmd, hk, Option.some.injEq, reduceCtorEq] at hc <;> subst hc
  · simp only [progOf, hk, run_create_channel w a (hwf.2 hk)] at hab ⊢
    by_cases hf : (doLookup w a .lookupdTopicProducers).allFailed = true
    · simp [hf] at hab
    · simp only [Bool.not_eq_true] at hf
      simp [hf, postsTo, St.reqs, List.filter_append, sel_gets, sel_pr_same, sel_lk_nsqd, prPosts_addr]
  all_goals
    first
    | (simp only [progOf, hk, run_delete] at hab ⊢
       by_cases hf : (doLookup w a .topicProducers).allFailed = true
       · simp [hf] at hab
       · simp only [Bool.not_eq_true] at hf
         simp [hf, postsTo, St.reqs, List.filter_append, sel_gets, sel_pr_same, sel_lk_nsqd, prPosts_addr])
    | (simp only [progOf, hk, run_helper] at hab ⊢
       by_cases hf : (doLookup w a .topicProducers).allFailed = true
       · simp [hf] at hab
       · simp only [Bool.not_eq_true] at hf
         simp [hf, postsTo, St.reqs, List.filter_append, sel_gets, sel_pr_same, sel_lk_nsqd, prPosts_addr])
    | (simp only [progOf, hk, run_tombstone] at hab ⊢
       by_cases hf : (doLookup w a .nsqdProducersOfNode).allFailed = true
       · simp [hf] at hab
       · simp only [Bool.not_eq_true] at hf
         simp [hf, postsTo, St.reqs, List.filter_append, sel_gets, sel_pr_same, sel_lk_nsqd, prPosts_addr])

/-- Which lookup an action uses. -/
def lookupOf : Kind → Option Lookup
  | .createTopic => none
  | .createChannel => some .lookupdTopicProducers
  | .tombstone => some .nsqdProducersOfNode
  | _ => some .topicProducers

theorem producers_of_run (w : World) (a : Action) (hwf : Action.wf a)
    (hab : (runAction w a).aborted = false) (l : Lookup) (hl : lookupOf a.kind = some l) :
    (runAction w a).producers = (doLookup w a l).producers ∧ (doLookup w a l).allFailed = false := by
  unfold runAction at hab ⊢
  cases hk : a.kind <;> simp only [lookupOf, hk, Option.some.injEq, reduceCtorEq] at hl <;> subst hl
  · simp only [progOf, hk, run_create_channel w a (hwf.2 hk)] at hab ⊢
    by_cases hf : (doLookup w a .lookupdTopicProducers).allFailed = true
    · simp [hf] at hab
    · simp only [Bool.not_eq_true] at hf
      simp [hf]
  all_goals
    first
    | (simp only [progOf, hk, run_delete] at hab ⊢
       by_cases hf : (doLookup w a .topicProducers).allFailed = true
       · simp [hf] at hab
       · simp only [Bool.not_eq_true] at hf
         simp [hf])
    | (simp only [progOf, hk, run_helper] at hab ⊢
       by_cases hf : (doLookup w a .topicProducers).allFailed = true
       · simp [hf] at hab
       · simp only [Bool.not_eq_true] at hf
         simp [hf])
    | (simp only [progOf, hk, run_tombstone] at hab ⊢
       by_cases hf : (doLookup w a .nsqdProducersOfNode).allFailed = true
       · simp [hf] at hab
       · simp only [Bool.not_eq_true] at hf
         simp [hf])

/-- The producers found through nsqlookupd: one entry per HTTP address that a responding nsqlookupd reports. -/
theorem lookupd_producers (w : World) (a : Action) :
    (lookupdTopicProducers w a).producers.Nodup ∧
    ∀ p, p ∈ (lookupdTopicProducers w a).producers ↔
      ∃ l ∈ w.lookupds, getOk w l.addr = true ∧ p ∈ l.producers := by
  refine ⟨dedup_nodup _, fun p => ?_⟩
  simp only [lookupdTopicProducers, mem_dedup, List.mem_flatMap, List.mem_filter]
  constructor
  · rintro ⟨l, ⟨h1, h2⟩, h3⟩; exact ⟨l, h1, h2, h3⟩
  · rintro ⟨l, h1, h2, h3⟩; exact ⟨l, ⟨h1, h2⟩, h3⟩

/-- Direct mode: one entry per configured nsqd that answers and lists the topic (as often as configured) —
the address that nsqd's `/info` *reports*, not the configured one, and without de-duplication. -/
theorem nsqd_producers (w : World) (a : Action) :
    (nsqdTopicProducers w a).producers = (w.nsqdAddrs.filter (nodeHasTopic w)).map (reportOf w) := rfl

/-- Tombstone: the one producer is the address the node's `/info` reports. -/
theorem node_producers (w : World) (a : Action) :
    (nsqdProducersOfNode w a).producers = if nodeUp w a.node then [reportOf w a.node] else [] := rfl

/-- The GETs of a delete / pause / unpause / empty all precede its POSTs. -/
def getsFirst (rs : List PReq) : Prop :=
  ∃ gs ps, rs = gs ++ ps ∧ (∀ r ∈ gs, r.post = false) ∧ (∀ r ∈ ps, r.post = true)

theorem lk_posts_post (w : World) (a : Action) (uri : String) (qs : QS) :
    ∀ r ∈ lkPosts w a uri qs, r.post = true := by
  intro r hr
  simp only [lkPosts, List.mem_map] at hr
  obtain ⟨_, _, rfl⟩ := hr; rfl

theorem pr_posts_post (a : Action) (ps : List String) (uri : String) (qs : QS) :
    ∀ r ∈ prPosts a ps uri qs, r.post = true := by
  intro r hr
  simp only [prPosts, List.mem_map] at hr
  obtain ⟨_, _, rfl⟩ := hr; rfl

theorem getsFirst_delete (w : World) (a : Action) (uri : String) (qs : QS) :
    getsFirst (run w a (deleteProg uri qs)).reqs := by
  rw [run_delete]
  by_cases hf : (doLookup w a .topicProducers).allFailed = true
  · refine ⟨(doLookup w a .topicProducers).reqs, [], ?_, lookup_reqs_get w a _, by simp⟩
    simp [hf, St.reqs]
  · simp only [Bool.not_eq_true] at hf
    refine ⟨(doLookup w a .topicProducers).reqs, lkPosts w a uri qs ++ prPosts a (doLookup w a .topicProducers).producers uri qs,
      ?_, lookup_reqs_get w a _, ?_⟩
    · simp [hf, St.reqs]
    · intro r hr
      rcases List.mem_append.1 hr with h | h
      · exact lk_posts_post w a _ _ r h
      · exact pr_posts_post a _ _ _ r h

theorem getsFirst_helper (w : World) (a : Action) (uri : String) (qs : QS) :
    getsFirst (run w a (helperProg uri qs)).reqs := by
  rw [run_helper]
  by_cases hf : (doLookup w a .topicProducers).allFailed = true
  · refine ⟨(doLookup w a .topicProducers).reqs, [], ?_, lookup_reqs_get w a _, by simp⟩
    simp [hf, St.reqs]
  · simp only [Bool.not_eq_true] at hf
    refine ⟨(doLookup w a .topicProducers).reqs, prPosts a (doLookup w a .topicProducers).producers uri qs,
      ?_, lookup_reqs_get w a _, pr_posts_post a _ _ _⟩
    simp [hf, St.reqs]

theorem lookup_before_posts (w : World) (a : Action)
    (hk : a.kind ≠ .createTopic ∧ a.kind ≠ .createChannel ∧ a.kind ≠ .tombstone) :
    getsFirst (runAction w a).reqs := by
  unfold runAction
  obtain ⟨h1, h2, h3⟩ := hk
  cases hkind : a.kind <;> simp only [hkind, ne_eq, not_true_eq_false, reduceCtorEq, not_false_eq_true] at h1 h2 h3
  all_goals
    first
    | exact getsFirst_delete w a _ _
    | exact getsFirst_helper w a _ _

/-- A failed producer lookup of a delete / pause / unpause / empty sends no POST at all. -/
theorem aborted_no_post (w : World) (a : Action)
    (hk : a.kind ≠ .createTopic ∧ a.kind ≠ .createChannel ∧ a.kind ≠ .tombstone)
    (hab : (runAction w a).aborted = true) : ∀ r ∈ (runAction w a).reqs, r.post = false := by
  unfold runAction at hab ⊢
  obtain ⟨h1, h2, h3⟩ := hk
  cases hkind : a.kind <;> simp only [hkind, ne_eq, not_true_eq_false, reduceCtorEq, not_false_eq_true] at h1 h2 h3
  all_goals
    first
    | (simp only [progOf, hkind, run_delete] at hab ⊢
       by_cases hf : (doLookup w a .topicProducers).allFailed = true
       · simp only [hf, St.reqs, ↓reduceIte, List.flatMap_cons, List.flatMap_nil, List.append_nil]
         exact lookup_reqs_get w a _
       · simp [hf] at hab)
    | (simp only [progOf, hkind, run_helper] at hab ⊢
       by_cases hf : (doLookup w a .topicProducers).allFailed = true
       · simp only [hf, St.reqs, ↓reduceIte, List.flatMap_cons, List.flatMap_nil, List.append_nil]
         exact lookup_reqs_get w a _
       · simp [hf] at hab)


end Nsq.Proofs.AdminProg
