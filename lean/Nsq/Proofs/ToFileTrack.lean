import Nsq.Proofs.ToFileNoOverwrite
/-!
Third "nothing is lost" relation of the `ToFile` router model (audit round 7, item C29): between any two points of a
run every file is still there with its old bytes as a prefix — under the same name, or moved by the tool itself from
the work dir to the output dir. Unlike `NoOv` this also covers files in a separate work dir (which the tool may append
to and move) and needs neither `Cfg.WF` nor a finite directory. Helper lemmas for `Nsq.Props.C19Mono`.
-/
namespace Nsq.Proofs.ToFileTrack
open Nsq.Model.ToFile Nsq.Proofs.ToFile

/-- every file of `fs` survives in `fs'`: same name or moved work dir → output dir, old bytes a prefix -/
def Grown (fs fs' : FS) : Prop :=
  ∀ p f, fs.get p = some f → ∃ q f', fs'.get q = some f' ∧ FileLe f f' ∧ (q = p ∨ (p.out = false ∧ q.out = true))

theorem Grown_refl (fs : FS) : Grown fs fs := fun p f h => ⟨p, f, h, FileLe_refl f, Or.inl rfl⟩

theorem Grown_of_eq {fs fs' : FS} (h : fs' = fs) : Grown fs fs' := h ▸ Grown_refl fs

theorem Grown_trans {a b d : FS} (h1 : Grown a b) (h2 : Grown b d) : Grown a d := by
  intro p f hp
  obtain ⟨q, f1, hq, l1, c1⟩ := h1 p f hp
  obtain ⟨r, f2, hr, l2, c2⟩ := h2 q f1 hq
  refine ⟨r, f2, hr, FileLe_trans l1 l2, ?_⟩
  cases c1 with
  | inl e => subst e; exact c2
  | inr m =>
    cases c2 with
    | inl e => subst e; exact Or.inr m
    | inr m2 => rw [m.2] at m2; cases m2.1

theorem Grown_set_grow {fs : FS} {p : Path} {f f' : File} (hg : fs.get p = some f) (hle : FileLe f f') :
    Grown fs (fs.set p f') := by
  intro q g hq
  by_cases e : q = p
  · subst e; rw [hg] at hq; cases hq; exact ⟨q, f', by simp, hle, Or.inl rfl⟩
  · exact ⟨q, g, by rw [get_set_ne _ _ _ _ e]; exact hq, FileLe_refl g, Or.inl rfl⟩

theorem Grown_set_new {fs : FS} {p : Path} (f' : File) (hg : fs.get p = none) : Grown fs (fs.set p f') := by
  intro q g hq
  have e : q ≠ p := by intro e; subst e; rw [hg] at hq; cases hq
  exact ⟨q, g, by rw [get_set_ne _ _ _ _ e]; exact hq, FileLe_refl g, Or.inl rfl⟩

theorem Grown_rename {fs : FS} {src dst : Path} {f : File} (hs : fs.get src = some f) (hfree : fs.get dst = none)
    (hso : src.out = false) (hdo : dst.out = true) : Grown fs ((fs.set dst f).del src) := by
  have hne : src ≠ dst := by intro e; rw [e, hdo] at hso; cases hso
  intro q g hq
  by_cases e : q = src
  · subst e; rw [hs] at hq; cases hq
    exact ⟨dst, f, by rw [get_del_ne _ _ _ (Ne.symm hne)]; simp, FileLe_refl f, Or.inr ⟨hso, hdo⟩⟩
  · have e2 : q ≠ dst := by intro e2; rw [e2, hfree] at hq; cases hq
    exact ⟨q, g, by rw [get_del_ne _ _ _ e, get_set_ne _ _ _ _ e2]; exact hq, FileLe_refl g, Or.inl rfl⟩

theorem grown_guard_same (io : Nat → Fault) (st : St) (k : St → St) (h : ∀ s, (k s).fs = s.fs) :
    (Nsq.Model.ToFile.guard io st k).fs = st.fs := by
  apply guard_elim (P := fun s => s.fs = st.fs)
  · intro s' hd; exact hd.2.1
  · intro _; rw [h]

theorem grown_onOut (io : Nat → Fault) (st : St) (g : File → File) (hle : ∀ f, FileLe f (g f)) :
    Grown st.fs (onOut io st g).fs := by
  apply onOut_elim (P := fun s => Grown st.fs s.fs)
  · intro s' hd; exact Grown_of_eq hd.2.1
  · intro f _ _ _ hg; exact Grown_set_grow hg (hle f)

theorem grown_syncOut (c : Cfg) (io : Nat → Fault) (st : St) : Grown st.fs (syncOut c io st).fs := by
  unfold syncOut
  cases c.gzip
  · exact grown_onOut io st _ fileFsync_le
  · exact Grown_trans (grown_onOut io st _ fileGzClose_le) (grown_onOut io _ _ fileFsync_le)

theorem finList_fs (io : Nat → Fault) (l : List Msg) (st : St) : (finList io st l).fs = st.fs := by
  induction l generalizing st with
  | nil => rfl
  | cons m rest ih =>
    unfold finList
    rw [ih]
    exact grown_guard_same io st _ (fun _ => rfl)

theorem grown_syncBlock (c : Cfg) (io : Nat → Fault) (st : St) : Grown st.fs (syncBlock c io st).fs := by
  unfold syncBlock
  split
  · exact Grown_refl _
  · simp only []; rw [finList_fs]; exact grown_syncOut c io st

theorem closeFd_fs (io : Nat → Fault) (st : St) : (closeFd io st).fs = st.fs := by
  unfold closeFd
  apply grown_guard_same
  intro s; split <;> rfl

theorem clearOut_fs (st : St) : (clearOut st).fs = st.fs := by unfold clearOut; split <;> rfl

theorem grown_renameP (io : Nat → Fault) (st : St) (src dst : Path) (hfree : st.fs.get dst = none)
    (hso : src.out = false) (hdo : dst.out = true) : Grown st.fs (renameP io st src dst).fs := by
  unfold renameP
  apply guard_elim (st := st)
    (P := fun s => Grown st.fs (Nsq.Model.ToFile.guard io s fun s => { s with fs := s.fs.del src }).fs)
  · intro s' hd
    rw [guard_dead io s' _ hd.1]; exact Grown_of_eq hd.2.1
  · intro _
    cases hs : st.fs.get src with
    | none =>
      simp only []
      rw [guard_dead io _ _ (by simp [fatal])]
      exact Grown_refl _
    | some f =>
      simp only []
      apply guard_elim (P := fun s => Grown st.fs s.fs)
      · intro s' hd; rw [hd.2.1]; exact Grown_set_new f hfree
      · intro _; exact Grown_rename hs hfree hso hdo

theorem grown_moveOut (c : Cfg) (io : Nat → Fault) (st : St) (hsrc : st.outPath.out = false) :
    Grown st.fs (moveOut c io st).fs := by
  unfold moveOut
  by_cases hfree : (st.fs.get { st.outPath with out := true }).isNone = true
  · simp only [hfree, if_true]
    have h2 := grown_renameP io st st.outPath { st.outPath with out := true } (by simpa using hfree) hsrc rfl
    split
    · rw [clearOut_fs]; exact h2
    · exact h2
  · simp only [hfree, Bool.false_eq_true, if_false]
    cases hsr : search (takenDst c st.fs st.filename) (fuel st.fs) (st.rev + 1) with
    | none => exact Grown_refl _
    | some i =>
      simp only []
      have hfree2 : st.fs.get (mkPath c true st.filename i) = none := by
        simpa [takenDst] using search_some hsr
      rw [clearOut_fs]
      exact grown_renameP io st st.outPath _ hfree2 hsrc (mkPath_out c true _ _)

theorem grown_closeOut {c : Cfg} (io : Nat → Fault) (st : St) (h : Inv c st) : Grown st.fs (closeOut c io st).fs := by
  unfold closeOut
  by_cases hho : st.hasOut = false
  · rw [if_pos hho]; exact Grown_refl _
  · rw [if_neg hho]
    have g1 : Grown st.fs (closeFd io (syncOut c io st)).fs := by rw [closeFd_fs]; exact grown_syncOut c io st
    have h3 := inv_closeFd io _ (inv_syncOut io st h).1 (inv_syncOut io st h).2
    by_cases hr : (closeFd io (syncOut c io st)).status ≠ .running
    · rw [if_pos hr]; exact g1
    · rw [if_neg hr]
      by_cases hwd : c.workDir = false
      · rw [if_pos hwd, clearOut_fs]; exact g1
      · rw [if_neg hwd]
        exact Grown_trans g1 (grown_moveOut c io _
          (h3.1.wd (by simpa using hwd) (closeFd_hasOut io _ (by simpa using hr))))

theorem grown_sealTail (c : Cfg) (io : Nat → Fault) (rd : Fault) (s1 : St) (f : File) :
    Grown s1.fs (sealTail c io rd s1 f).fs := by
  unfold sealTail
  split
  · split
    · exact Grown_refl _
    · exact Grown_refl _
  split
  · simp only []
    split
    · exact grown_onOut io s1 _ (fileWrite_le c.gzip [10])
    · exact grown_onOut io s1 _ (fileWrite_le c.gzip [10])
  · exact Grown_refl _

theorem grown_openNew (c : Cfg) (io : Nat → Fault) (st : St) (fn : String) : Grown st.fs (openNew c io st fn).fs := by
  unfold openNew
  apply guard_elim (P := fun s => Grown st.fs s.fs)
  · intro s' hd; exact Grown_of_eq hd.2.1
  · intro _
    simp only []
    cases hsr : search (taken c st.fs fn) (fuel st.fs) st.rev with
    | none => exact Grown_refl _
    | some r =>
      simp only []
      cases hg : st.fs.get (mkPath c (!c.workDir) fn r) with
      | none => exact Grown_set_new _ hg
      | some f =>
        simp only []
        have key : ∀ s1 : St, s1.fs = st.fs → Grown st.fs (sealTail c io (io st.tick) s1 f).fs :=
          fun s1 e => e ▸ grown_sealTail c io _ s1 f
        exact key _ rfl

theorem grown_updateFile {c : Cfg} (io : Nat → Fault) (st : St) (now : Int) (fn : String) (h : Inv c st) :
    Grown st.fs (updateFile c io st now fn).fs := by
  unfold updateFile
  have key : ∀ s2 : St, s2.fs = (closeOut c io st).fs → Grown (closeOut c io st).fs (openNew c io s2 fn).fs :=
    fun s2 e => e ▸ grown_openNew c io s2 fn
  exact Grown_trans (grown_closeOut io st h) (key _ rfl)

theorem grown_writeMsg (c : Cfg) (io : Nat → Fault) (st : St) (m : Msg) : Grown st.fs (writeMsg c io st m).fs := by
  have hl : Grown st.fs (writeLine c io st m).fs := by
    unfold writeLine
    split
    · exact grown_onOut io st _ (fileWrite_le c.gzip _)
    · exact Grown_trans (grown_onOut io st _ (fileWrite_le c.gzip _)) (grown_onOut io _ _ (fileWrite_le c.gzip _))
  unfold writeMsg
  simp only []
  split
  · exact hl
  · split <;> exact hl

theorem Grown_ite {fs : FS} {p : Prop} [Decidable p] {a b : St} (ha : Grown fs a.fs) (hb : Grown fs b.fs) :
    Grown fs (if p then a else b).fs := by
  split <;> assumption

theorem grown_step {c : Cfg} (io : Nat → Fault) (st : St) (ev : Ev) (starved : Bool) (h : Inv c st) :
    Grown st.fs (step c io st ev starved).fs := by
  unfold step
  by_cases hr : st.status ≠ .running
  · rw [if_pos hr]; exact Grown_refl _
  · rw [if_neg hr]
    cases ev with
    | msg m now fn =>
      simp only []
      have g1 : Grown st.fs (if needsRotation c st now fn = true then updateFile c io st now fn else st).fs :=
        Grown_ite (grown_updateFile io st now fn h) (Grown_refl _)
      have g2 := Grown_trans g1 (grown_writeMsg c io _ m)
      exact Grown_ite (Grown_trans g2 (grown_syncBlock c io _)) g2
    | tick now fn =>
      simp only []
      have i1 : Inv c (if (needsRotation c st now fn && !c.skipEmpty) = true then updateFile c io st now fn else st) :=
        Inv_ite (inv_updateFile io st now fn h).1 h
      have g1 : Grown st.fs (if (needsRotation c st now fn && !c.skipEmpty) = true then updateFile c io st now fn else st).fs :=
        Grown_ite (grown_updateFile io st now fn h) (Grown_refl _)
      have g2 := Grown_trans g1 (grown_syncBlock c io _)
      exact Grown_ite (Grown_trans g2 (grown_closeOut io _ (inv_syncBlock io _ i1))) g2
    | hup => exact Grown_trans (grown_syncBlock c io st) (grown_closeOut io _ (inv_syncBlock io st h))
    | term => exact grown_syncBlock c io st
    | stopped =>
      have g := Grown_trans (grown_syncBlock c io st) (grown_closeOut io _ (inv_syncBlock io st h))
      have hf : ∀ s : St, (finishRun s).fs = s.fs := by intro s; unfold finishRun; split <;> rfl
      simp only []
      rw [hf]; exact g
    | ext p data =>
      simp only []
      split
      · exact Grown_refl _
      · rename_i hp
        exact Grown_set_new _ (by simpa using hp)
    | extAppend p data =>
      simp only []
      cases hg : st.fs.get p with
      | none => exact Grown_refl _
      | some f =>
        simp only []
        split
        · exact Grown_refl _
        · exact Grown_set_grow hg (fileWrite_le false data f)

theorem grown_run {c : Cfg} (io : Nat → Fault) (evs : List (Ev × Bool)) (st : St) (h : Inv c st) :
    Grown st.fs (run c io st evs).fs := by
  induction evs generalizing st with
  | nil => exact Grown_refl _
  | cons e es ih => exact Grown_trans (grown_step io st e.1 e.2 h) (ih _ (inv_step io st e.1 e.2 h))

end Nsq.Proofs.ToFileTrack
