/-
E2 — fan-out events are produced by `put` / `putDeferred` only (helper lemmas shared by the
envelope invariant and the nsqd-level lifting).
-/
import Nsq.Proofs.ChanCount
namespace Nsq.Proofs.Chan
open Nsq.Model.Chan

/-! ### fan-out events are produced by `put` / `putDeferred` only -/

def fanoutOf (id : Nat) : Ev → Bool := fun e => match e with | .fanout i _ => i == id | _ => false

theorem nFanout_eq (h : List Ev) (id : Nat) : nFanout h id = nEv (fanoutOf id) h := rfl

theorem nonput_nFanout (conf : Conf) (c : Chan) (op : Op) (id : Nat)
    (hop : ∀ i e, op ≠ .put i e) (hop2 : ∀ i p e, op ≠ .putDeferred i p e) :
    nFanout (step conf c op).1.hist id = nFanout c.hist id := by
  simp only [nFanout_eq]
  have hE : ∀ i, fanoutOf id (.ephDrop i) = false := fun _ => rfl
  cases op with
  | put i e => exact absurd rfl (hop i e)
  | putDeferred i p e => exact absurd rfl (hop2 i p e)
  | scanInFlight t => exact foldl_count _ _ (timeoutOne_count _ hE (fun _ _ => rfl)) _ _
  | scanDeferred t => exact foldl_count _ _ (deferDueOne_count _ hE (fun _ => rfl)) _ _
  | _ =>
    simp only [step, doDeliver]
    repeat' split
    all_goals first
      | rfl
      | (simp [nEv, fanoutOf, finClientPart]; done)
      | (simp only []; rw [enqueue_count _ hE]; simp [nEv, fanoutOf]; done)
      | (rename_i hfc; have := (finChanPart_hist hfc).1; simp [finClientPart, this, nEv, fanoutOf]; done)

theorem hasId_imp_fanned {c : Chan} (hi : Inv 0 c) {id : Nat} (h : hasId c.msgs id = true) : nFanout c.hist id ≠ 0 := by
  obtain ⟨e, he, rfl⟩ := hasId_iff.1 h
  intro hz
  have hst := (hi.core.agree e he).1
  rw [(status_none_iff hi.okh).2 hz] at hst
  cases hl : e.loc <;> simp [hl, locSt] at hst

/-- a `put` of an id the channel has never seen is accepted and records the fan-out -/
theorem put_nFanout (conf : Conf) {c : Chan} (hi : Inv 0 c) (id : Nat) (env : Env) (hnew : nFanout c.hist id = 0) (j : Nat) :
    nFanout (step conf c (.put id env)).1.hist j = nFanout c.hist j + (if id = j then 1 else 0) := by
  have hno : hasId c.msgs id = false := by
    cases hh : hasId c.msgs id
    · rfl
    · exact absurd hnew (hasId_imp_fanned hi hh)
  simp only [step, hnew, hno, bne_self_eq_false, Bool.or_self, Bool.false_eq_true, ↓reduceIte, nFanout_eq]
  rw [enqueue_count _ (fun _ => rfl)]
  simp [nEv, fanoutOf, List.countP_cons]

theorem putDeferred_nFanout (conf : Conf) {c : Chan} (hi : Inv 0 c) (id : Nat) (pri : Int) (env : Env) (hnew : nFanout c.hist id = 0) (j : Nat) :
    nFanout (step conf c (.putDeferred id pri env)).1.hist j = nFanout c.hist j + (if id = j then 1 else 0) := by
  have hno : hasId c.msgs id = false := by
    cases hh : hasId c.msgs id
    · rfl
    · exact absurd hnew (hasId_imp_fanned hi hh)
  simp only [step, hnew, hno, bne_self_eq_false, Bool.or_self, Bool.false_eq_true, ↓reduceIte, nFanout_eq]
  simp [nEv, fanoutOf, List.countP_cons]


end Nsq.Proofs.Chan
