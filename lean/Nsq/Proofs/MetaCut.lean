import Nsq.Proofs.MetaIdle
/-! Invariant C (C06): every snapshot is a cut of the history of the live maps, read after the lock was taken. -/
namespace Nsq.Proofs.Meta
open Nsq.Model.FS Nsq.Model.Meta

variable {β : Type}

/-- `e` is the persisted entry of a topic in the `i`-th live state, for some `i ≥ lo` -/
def EntryFrom (hist : List Mem) (lo : Nat) (e : TopicM) : Prop :=
  ∃ i M, lo ≤ i ∧ hist[i]? = some M ∧ e ∈ snap M

theorem EntryFrom.mono {hist : List Mem} {lo lo' : Nat} {e : TopicM} (m : Mem) (h : EntryFrom hist lo e)
    (hl : lo' ≤ lo) : EntryFrom (hist ++ [m]) lo' e := by
  obtain ⟨i, M, h1, h2, h3⟩ := h
  refine ⟨i, M, by omega, ?_, h3⟩
  have : i < hist.length := by
    rcases Nat.lt_or_ge i hist.length with h | h
    · exact h
    · rw [List.getElem?_eq_none h] at h2; simp at h2
  rw [List.getElem?_append_left this]; exact h2

theorem EntryFrom.weaken {hist : List Mem} {lo lo' : Nat} {e : TopicM} (h : EntryFrom hist lo e)
    (hl : lo' ≤ lo) : EntryFrom hist lo' e := by
  obtain ⟨i, M, h1, h2, h3⟩ := h
  exact ⟨i, M, by omega, h2, h3⟩

def names (d : Doc) : List String := d.map (fun e => e.name)

theorem names_snap (m : Mem) : names (snap m) = (m.filter (fun t => !t.eph)).map (fun t => t.name) := by
  simp [names, snap, snapTopic, Function.comp_def]

theorem names_modTopic (m : Mem) (t : String) (f : Topic → Topic)
    (hf : ∀ x, (f x).eph = x.eph ∧ (f x).name = x.name) :
    names (snap (modTopic m t f)) = names (snap m) := by
  rw [names_snap, names_snap]
  unfold modTopic
  exact filter_map_modFirst_same _ _ _ _ _ (fun x => by simp [(hf x).1, (hf x).2])

/-- operations that do not need the nsqd lock leave the persisted topic list unchanged -/
theorem memEffect_names (fix : Bool) (stamp : Nat) (m : Mem) (ms : MemStep) (r : Mem × Nat × List Handler)
    (hl : needsLock ms = false) (h : memEffect fix stamp m ms = some r) :
    names (snap r.1) = names (snap m) := by
  cases ms with
  | createTopic t eph => simp [needsLock] at hl
  | delTopicUnlink t => simp [needsLock] at hl
  | createChan t c eph =>
    simp only [memEffect] at h
    split at h; · simp at h
    split at h; · simp at h
    simp at h; subst h
    exact names_modTopic _ _ _ (fun x => by simp)
  | delTopicBegin t =>
    simp only [memEffect] at h
    split at h; · simp at h
    split at h; · simp at h
    simp at h; subst h
    exact names_modTopic _ _ _ (fun x => by simp)
  | delTopicChan t c =>
    simp only [memEffect] at h
    split at h; · simp at h
    split at h; · simp at h
    split at h; · simp at h
    simp at h; subst h
    exact names_modTopic _ _ _ (fun x => by simp [dropChan])
  | delChanBegin t c =>
    simp only [memEffect] at h
    split at h; · simp at h
    split at h; · simp at h
    split at h; · simp at h
    simp at h; subst h
    exact names_modTopic _ _ _ (fun x => by simp [modChan])
  | delChanUnlink t c =>
    simp only [memEffect] at h
    split at h; · simp at h
    split at h; · simp at h
    split at h; · simp at h
    simp at h; subst h
    exact names_modTopic _ _ _ (fun x => by simp [dropChan])
  | pauseTopic t flag =>
    simp only [memEffect] at h
    split at h; · simp at h
    simp at h; subst h
    exact names_modTopic _ _ _ (fun x => by simp)
  | pauseChan t c flag =>
    simp only [memEffect] at h
    split at h; · simp at h
    split at h; · simp at h
    simp at h; subst h
    exact names_modTopic _ _ _ (fun x => by simp [modChan])

theorem memEffect_stamp (fix : Bool) (stamp : Nat) (m : Mem) (ms : MemStep) (r : Mem × Nat × List Handler)
    (h : memEffect fix stamp m ms = some r) : ∀ x ∈ r.2.2, x.stamp = stamp := by
  cases ms <;> simp only [memEffect] at h <;> (repeat' split at h) <;> simp at h <;> subst h <;> simp

structure InvC (s : Sys β) : Prop where
  cur : s.alive = true → s.hist.getLast? = some s.mem
  dead : s.alive = false → s.persist = none
  hst : ∀ h ∈ s.handlers, h.stamp < s.hist.length
  psince : ∀ p, s.persist = some p → p.since < s.hist.length ∧ ∀ h, p.owner = some h → h.stamp ≤ p.since
  pdone : ∀ p, s.persist = some p → ∀ e ∈ p.done, EntryFrom s.hist p.since e
  pnames : ∀ p, s.persist = some p → names p.done <+: names (snap s.mem) ∧
    (p.phase ≠ .reading → names p.done = names (snap s.mem))
  tk : ∀ D ∈ s.taken, (∃ M ∈ s.hist, names D = names (snap M)) ∧ ∀ e ∈ D, EntryFrom s.hist 0 e
  ak : ∀ a ∈ s.acks, ∀ e ∈ a.doc, EntryFrom s.hist a.h.stamp e

theorem invC_init : InvC (Sys.init : Sys β) := by
  constructor <;> simp [Sys.init]

theorem hist_ne_nil {s : Sys β} (h : InvC s) (ha : s.alive = true) : 0 < s.hist.length := by
  have := h.cur ha
  cases hh : s.hist with
  | nil => simp [hh] at this
  | cons x xs => simp

theorem mem_in_hist {s : Sys β} (h : InvC s) (ha : s.alive = true) : s.mem ∈ s.hist :=
  List.mem_of_getLast? (h.cur ha)

theorem cur_index {s : Sys β} (h : InvC s) (ha : s.alive = true) :
    s.hist[s.hist.length - 1]? = some s.mem := by
  have := h.cur ha
  rw [List.getLast?_eq_getElem?] at this
  exact this

/-- steps that only advance the phase / the files of the running persist -/
theorem invC_keep {s : Sys β} (h : InvC s) (p p' : Persist) (fs' : FS β) (rn : List Doc)
    (hp : s.persist = some p) (hd : p'.done = p.done) (hs : p'.since = p.since) (ho : p'.owner = p.owner)
    (h1 : p.phase ≠ .reading) :
    InvC { s with persist := some p', fs := fs', renamed := rn } := by
  refine ⟨h.cur, fun hd' => by have := h.dead hd'; rw [hp] at this; simp at this, h.hst, ?_, ?_, ?_, h.tk, h.ak⟩
  · intro q hq; simp at hq; subst hq; rw [hs, ho]; exact h.psince p hp
  · intro q hq; simp at hq; subst hq; rw [hd, hs]; exact h.pdone p hp
  · intro q hq; simp at hq; subst hq; rw [hd]
    have := (h.pnames p hp).2 h1
    exact ⟨by rw [this]; exact List.prefix_refl _, fun _ => this⟩

theorem invC_pstep {cd : Codec β} {s s' : Sys β} {ps : PStep} (h : InvC s) (ha : s.alive = true)
    (hs : pstep cd s ps = some s') : InvC s' := by
  have hlen := hist_ne_nil h ha
  cases ps with
  | beginNotify =>
    simp only [pstep] at hs
    split at hs; · simp at hs
    split at hs; · simp at hs
    simp at hs; subst hs
    refine ⟨h.cur, fun hd => by simp [ha] at hd, h.hst, ?_, ?_, ?_, h.tk, h.ak⟩
    · intro q hq; simp at hq; subst hq; simp; omega
    · intro q hq; simp at hq; subst hq; simp
    · intro q hq; simp at hq; subst hq; simp [names]
  | beginHandler i =>
    simp only [pstep] at hs
    split at hs; · simp at hs
    split at hs; · simp at hs
    rename_i hh hget
    simp at hs; subst hs
    have hmem : hh ∈ s.handlers := List.mem_of_getElem? hget
    refine ⟨h.cur, fun hd => by simp [ha] at hd, ?_, ?_, ?_, ?_, h.tk, h.ak⟩
    · intro x hx; exact h.hst x (List.mem_of_mem_eraseIdx hx)
    · intro q hq; simp at hq; subst hq; simp
      have := h.hst hh hmem
      omega
    · intro q hq; simp at hq; subst hq; simp
    · intro q hq; simp at hq; subst hq; simp [names]
  | read =>
    simp only [pstep] at hs
    split at hs; · simp at hs
    rename_i p hp
    split at hs; · simp at hs
    rename_i hph
    simp at hph
    have hpn := h.pnames p hp
    have hlenmap : (names p.done).length = p.done.length := by simp [names]
    split at hs
    · rename_i e he
      simp at hs; subst hs
      have hen : (names (snap s.mem))[(names p.done).length]? = some e.name := by
        rw [hlenmap]; simp [names, he]
      refine ⟨h.cur, fun hd => by simp [ha] at hd, h.hst, ?_, ?_, ?_, h.tk, h.ak⟩
      · intro q hq; simp at hq; subst hq; exact h.psince p hp
      · intro q hq; simp at hq; subst hq
        intro x hx
        simp at hx
        rcases hx with hx | rfl
        · exact h.pdone p hp x hx
        · have hsl : p.since ≤ s.hist.length - 1 := by have := (h.psince p hp).1; omega
          exact ⟨s.hist.length - 1, s.mem, hsl, cur_index (s := s) h ha, List.mem_of_getElem? he⟩
      · intro q hq; simp at hq; subst hq
        refine ⟨?_, fun hn => absurd hph hn⟩
        have := prefix_snoc_getElem _ _ _ hpn.1 hen
        simpa [names] using this
    · rename_i he
      simp at hs; subst hs
      have hen : (names (snap s.mem))[(names p.done).length]? = none := by
        rw [hlenmap]; simp [names, he]
      have hfull := prefix_full _ _ hpn.1 hen
      refine ⟨h.cur, fun hd => by simp [ha] at hd, h.hst, ?_, ?_, ?_, ?_, h.ak⟩
      · intro q hq; simp at hq; subst hq; exact h.psince p hp
      · intro q hq; simp at hq; subst hq; exact h.pdone p hp
      · intro q hq; simp at hq; subst hq
        exact ⟨by rw [hfull]; exact List.prefix_refl _, fun _ => hfull⟩
      · intro D hD
        simp at hD
        rcases hD with hD | rfl
        · exact h.tk D hD
        · exact ⟨⟨s.mem, mem_in_hist (s := s) h ha, hfull⟩, fun e he' => (h.pdone p hp e he').weaken (Nat.zero_le _)⟩
  | openTmp r =>
    simp only [pstep] at hs
    split at hs; · simp at hs
    rename_i p hp
    split at hs; · simp at hs
    rename_i hph
    simp at hph
    simp at hs; subst hs
    exact invC_keep h p _ _ _ hp rfl rfl rfl (by simp [hph])
  | writePart k =>
    simp only [pstep] at hs
    split at hs; · simp at hs
    rename_i p hp
    split at hs; · simp at hs
    rename_i hph
    simp at hs; subst hs
    exact invC_keep h p _ _ _ hp rfl rfl rfl (by intro hr; simp [hr] at hph)
  | writeRest =>
    simp only [pstep] at hs
    split at hs; · simp at hs
    rename_i p hp
    split at hs; · simp at hs
    rename_i hph
    simp at hs; subst hs
    exact invC_keep h p _ _ _ hp rfl rfl rfl (by intro hr; simp [hr] at hph)
  | sync =>
    simp only [pstep] at hs
    split at hs; · simp at hs
    rename_i p hp
    split at hs; · simp at hs
    rename_i hph
    simp at hph
    simp at hs; subst hs
    exact invC_keep h p _ s.fs s.renamed hp rfl rfl rfl (by simp [hph])
  | rename =>
    simp only [pstep] at hs
    split at hs; · simp at hs
    rename_i p hp
    split at hs; · simp at hs
    rename_i hph
    simp at hph
    simp at hs; subst hs
    exact invC_keep h p _ _ _ hp rfl rfl rfl (by simp [hph])
  | finish =>
    simp only [pstep] at hs
    split at hs; · simp at hs
    rename_i p hp
    split at hs; · simp at hs
    simp at hs; subst hs
    refine ⟨h.cur, fun _ => rfl, h.hst, ?_, ?_, ?_, h.tk, ?_⟩
    · intro q hq; simp at hq
    · intro q hq; simp at hq
    · intro q hq; simp at hq
    · intro a ha'
      cases ho : p.owner with
      | none => simp [ho] at ha'; exact h.ak a ha'
      | some hh =>
        simp [ho] at ha'
        rcases ha' with ha' | rfl
        · exact h.ak a ha'
        · intro e he
          exact (h.pdone p hp e he).weaken ((h.psince p hp).2 hh ho)

theorem invC_step {cd : Codec β} {fix : Bool} {s s' : Sys β} {st : Step} (h : InvC s)
    (hs : step cd fix s st = some s') : InvC s' := by
  have boot_ok : ∀ m, s.alive = false → InvC (boot s m) := by
    intro m hal
    have hnp := h.dead hal
    refine ⟨fun _ => by simp [boot], fun hd => by simp [boot] at hd, ?_, ?_, ?_, ?_, ?_, ?_⟩
    · intro x hx; simp [boot] at hx; subst hx; simp [boot]
    · intro q hq; simp [boot] at hq
    · intro q hq; simp [boot] at hq
    · intro q hq; simp [boot] at hq
    · intro D hD
      obtain ⟨⟨M, hM, hn⟩, he⟩ := h.tk D hD
      exact ⟨⟨M, by simp [boot, hM], hn⟩, fun e he' => (he e he').mono m (Nat.le_refl _)⟩
    · intro a ha e he; exact (h.ak a ha e he).mono m (Nat.le_refl _)
  cases st with
  | start =>
    simp only [step] at hs
    split at hs
    · simp at hs; subst hs
      exact ⟨h.cur, h.dead, h.hst, h.psince, h.pdone, h.pnames, h.tk, h.ak⟩
    · rename_i hal
      simp at hal
      split at hs
      · simp at hs; subst hs; exact boot_ok _ hal
      · split at hs
        · simp at hs; subst hs; exact boot_ok _ hal
        · simp at hs; subst hs
          exact ⟨h.cur, h.dead, h.hst, h.psince, h.pdone, h.pnames, h.tk, h.ak⟩
  | kill =>
    simp only [step] at hs
    split at hs
    · simp at hs; subst hs
      refine ⟨fun hc => by simp at hc, fun _ => rfl, by simp, ?_, ?_, ?_, h.tk, h.ak⟩
      · intro q hq; simp at hq
      · intro q hq; simp at hq
      · intro q hq; simp at hq
    · simp at hs
  | exitBegin =>
    simp only [step] at hs
    split at hs; · simp at hs
    rename_i hal
    simp at hal
    simp at hs; subst hs
    have hlen := hist_ne_nil h hal.1
    refine ⟨h.cur, h.dead, ?_, h.psince, h.pdone, h.pnames, h.tk, h.ak⟩
    intro x hx
    simp at hx
    rcases hx with hx | rfl
    · exact h.hst x hx
    · show s.hist.length - 1 < s.hist.length; omega
  | exitEnd =>
    simp only [step] at hs
    split at hs
    · simp at hs; subst hs
      refine ⟨fun hc => by simp at hc, fun _ => rfl, by simp, ?_, ?_, ?_, h.tk, h.ak⟩
      · intro q hq; simp at hq
      · intro q hq; simp at hq
      · intro q hq; simp at hq
    · simp at hs
  | mem ms =>
    simp only [step] at hs
    split at hs; · simp at hs
    rename_i hal
    simp at hal
    split at hs; · simp at hs
    rename_i hlock
    split at hs; · simp at hs
    rename_i r hr
    simp at hs; subst hs
    refine ⟨fun _ => by simp, fun hd => by simp [hal] at hd, ?_, ?_, ?_, ?_, ?_, ?_⟩
    · intro x hx
      simp at hx
      rcases hx with hx | hx
      · have := h.hst x hx; simp; omega
      · have := memEffect_stamp _ _ _ _ _ hr x hx; simp; omega
    · intro q hq; simp at hq
      have := h.psince q hq
      exact ⟨by simp; omega, this.2⟩
    · intro q hq e he; simp at hq
      exact (h.pdone q hq e he).mono r.1 (Nat.le_refl _)
    · intro q hq; simp at hq
      have hnl : needsLock ms = false := by
        cases hn : needsLock ms
        · rfl
        · simp [hn, hq] at hlock
      have hnm := memEffect_names _ _ _ _ _ hnl hr
      simp only [hnm]
      exact h.pnames q hq
    · intro D hD
      obtain ⟨⟨M, hM, hn⟩, he⟩ := h.tk D hD
      exact ⟨⟨M, by simp [hM], hn⟩, fun e he' => (he e he').mono r.1 (Nat.le_refl _)⟩
    · intro a ha e he; exact (h.ak a ha e he).mono r.1 (Nat.le_refl _)
  | persist ps =>
    simp only [step] at hs
    split at hs; · simp at hs
    rename_i hal
    exact invC_pstep h (by simpa using hal) hs

theorem reach_invC {cd : Codec β} {fix : Bool} {s : Sys β} (h : Reach cd fix s) : InvC s :=
  reach_induct InvC invC_init (fun _ _ _ hi hs => invC_step hi hs) s h

end Nsq.Proofs.Meta
