import Nsq.Model.HttpApi
import Nsq.Proofs.ProtoV2
import Nsq.Proofs.Mpub
/-! Helper lemmas and statement predicates for the HTTP API model (`Nsq.Model.HttpApi`). -/
namespace Nsq.Proofs.HttpApi
open Nsq.Model.HttpApi Nsq.Model.ProtoV2 Nsq.Model.Names Nsq.Model.Base10 Nsq.Model
open Nsq.Proofs.ProtoV2

/-! ## Documented causes of each status -/

/-- The limited read of `/pub` and `PUT /config`: the first max-msg-size+1 bytes of the body. -/
def pubData (hc : HConf) (rq : Request) : Bytes := rq.body.take (hc.maxMsgSize + 1).toNat

/-- 413: something is too big (or, for a binary batch / a config value, malformed: those reuse 413). -/
def Oversize (hc : HConf) (rq : Request) : Prop :=
  rq.contentLength > hc.maxMsgSize ∨ rq.contentLength > hc.maxBodySize ∨
  ((pubData hc rq).length : Int) = hc.maxMsgSize + 1 ∨
  (∃ e, mpubText hc rq.body = .error e) ∨
  (∃ c, Mpub.readMPUB hc.maxMsgSize hc.maxBodySize (rq.body.take hc.maxBodySize.toNat) = .err c) ∨
  (rq.method = ascii "PUT" ∧ (pubData hc rq).isEmpty)

/-- 400: an argument is missing or invalid. -/
def BadArgs (hc : HConf) (rq : Request) : Prop :=
  parseQuery rq.rawQuery = none ∨
  (∃ kv, parseQuery rq.rawQuery = some kv ∧
    (qget kv kTopic = none ∨ (∃ t, qget kv kTopic = some t ∧ isValidName t = false) ∨
     qget kv kChannel = none ∨ (∃ c, qget kv kChannel = some c ∧ isValidName c = false) ∨
     deferArg hc kv = none)) ∨
  (pubData hc rq).isEmpty ∨
  (∃ opt, configOpt rq.path = some opt)

/-- 404 from a handler: the named topic or channel does not exist. -/
def UnknownObject (b : Broker) (rq : Request) : Prop :=
  ∃ kv t, parseQuery rq.rawQuery = some kv ∧ qget kv kTopic = some t ∧
    (hasTopic b t = false ∨ ∃ c, qget kv kChannel = some c ∧ chanExists b t c = false)

theorem topicFromQuery_error (q : Bytes) (e : String) (h : topicFromQuery q = .error e) :
    parseQuery q = none ∨ ∃ kv, parseQuery q = some kv ∧
      (qget kv kTopic = none ∨ ∃ t, qget kv kTopic = some t ∧ isValidName t = false) := by
  unfold topicFromQuery at h
  split at h
  · exact Or.inl ‹_›
  · rename_i kv hkv
    right
    refine ⟨kv, hkv, ?_⟩
    split at h
    · exact Or.inl ‹_›
    · rename_i t ht
      split at h
      · simp at h
      · rename_i hv
        exact Or.inr ⟨t, ht, by simpa using hv⟩

theorem topicChannelArgs_error (b : Broker) (rq : Request) (st : Status) (m : String)
    (h : topicChannelArgs b rq = .error (st, m)) :
    (st = .s400 ∧ (parseQuery rq.rawQuery = none ∨ ∃ kv, parseQuery rq.rawQuery = some kv ∧
      (qget kv kTopic = none ∨ (∃ t, qget kv kTopic = some t ∧ isValidName t = false) ∨
       qget kv kChannel = none ∨ (∃ c, qget kv kChannel = some c ∧ isValidName c = false)))) ∨
    (st = .s404 ∧ ∃ kv t, parseQuery rq.rawQuery = some kv ∧ qget kv kTopic = some t ∧ hasTopic b t = false) := by
  unfold topicChannelArgs at h
  split at h
  · simp at h; exact Or.inl ⟨h.1.symm, Or.inl ‹_›⟩
  · rename_i kv hkv
    split at h
    · simp at h; exact Or.inl ⟨h.1.symm, Or.inr ⟨kv, hkv, Or.inl ‹_›⟩⟩
    · rename_i t ht
      split at h
      · rename_i hv
        simp at h
        exact Or.inl ⟨h.1.symm, Or.inr ⟨kv, hkv, Or.inr (Or.inl ⟨t, ht, by simpa using hv⟩)⟩⟩
      · split at h
        · simp at h
          exact Or.inl ⟨h.1.symm, Or.inr ⟨kv, hkv, Or.inr (Or.inr (Or.inl ‹_›))⟩⟩
        · rename_i c hc
          split at h
          · rename_i hv
            simp at h
            exact Or.inl ⟨h.1.symm, Or.inr ⟨kv, hkv, Or.inr (Or.inr (Or.inr ⟨c, hc, by simpa using hv⟩))⟩⟩
          · split at h
            · rename_i ht'
              simp at h
              exact Or.inr ⟨h.1.symm, kv, t, hkv, ht, by simpa using ht'⟩
            · simp at h

theorem topicChannelArgs_ok (b : Broker) (rq : Request) (t c : Bytes)
    (h : topicChannelArgs b rq = .ok (t, c)) :
    ∃ kv, parseQuery rq.rawQuery = some kv ∧ qget kv kTopic = some t ∧ qget kv kChannel = some c ∧
      isValidName t = true ∧ isValidName c = true ∧ hasTopic b t = true := by
  unfold topicChannelArgs at h
  repeat' split at h
  all_goals first
    | (simp at h; done)
    | (simp at h
       obtain ⟨rfl, rfl⟩ := h
       exact ⟨_, ‹_›, ‹_›, ‹_›, by simp_all, by simp_all, by simp_all⟩)

/-- Status of every handler result is one of the seven documented ones, `notFoundOrRedirect`
(router) or `external`; and each error status has its documented cause. -/
structure Documented (hc : HConf) (healthy : Bool) (b : Broker) (rq : Request) (r : Response) : Prop where
  s413 : r.status = .s413 → Oversize hc rq
  s400 : r.status = .s400 → BadArgs hc rq
  s404 : r.status = .s404 → UnknownObject b rq
  s500 : r.status = .s500 → healthy = false ∧ rq.path = ascii "/ping"
  s403 : r.status = .s403 → hc.tlsRefuse = true
  s405 : r.status = .s405 → route rq.method rq.path = .methodNotAllowed

theorem doPUB_doc (hc : HConf) (healthy : Bool) (b : Broker) (rq : Request) :
    Documented hc healthy b rq (doPUB hc b rq).1 := by
  unfold doPUB
  split
  · exact ⟨fun _ => Or.inl ‹_›, by simp [resp], by simp [resp], by simp [resp], by simp [resp], by simp [resp]⟩
  · split
    · exact ⟨fun _ => Or.inr (Or.inr (Or.inl ‹_›)), by simp [resp], by simp [resp], by simp [resp],
        by simp [resp], by simp [resp]⟩
    · split
      · exact ⟨by simp [resp], fun _ => Or.inr (Or.inr (Or.inl ‹_›)), by simp [resp], by simp [resp],
          by simp [resp], by simp [resp]⟩
      · split
        · rename_i e he
          refine ⟨by simp [resp], fun _ => ?_, by simp [resp], by simp [resp], by simp [resp], by simp [resp]⟩
          rcases topicFromQuery_error _ _ he with h | ⟨kv, hkv, h⟩
          · exact Or.inl h
          · right; left
            refine ⟨kv, hkv, ?_⟩
            rcases h with h | h
            · exact Or.inl h
            · exact Or.inr (Or.inl h)
        · rename_i t ht
          split
          · rename_i hd
            refine ⟨by simp [resp], fun _ => ?_, by simp [resp], by simp [resp], by simp [resp], by simp [resp]⟩
            unfold topicFromQuery at ht
            split at ht
            · simp at ht
            · rename_i kv hkv
              right; left
              refine ⟨kv, hkv, Or.inr (Or.inr (Or.inr (Or.inr ?_)))⟩
              simpa [hkv] using hd
          · exact ⟨by simp [resp], by simp [resp], by simp [resp], by simp [resp], by simp [resp], by simp [resp]⟩

theorem doMPUB_doc (hc : HConf) (healthy : Bool) (b : Broker) (rq : Request) :
    Documented hc healthy b rq (doMPUB hc b rq).1 := by
  unfold doMPUB
  split
  · exact ⟨fun _ => Or.inr (Or.inl ‹_›), by simp [resp], by simp [resp], by simp [resp], by simp [resp], by simp [resp]⟩
  · split
    · rename_i e he
      refine ⟨by simp [resp], fun _ => ?_, by simp [resp], by simp [resp], by simp [resp], by simp [resp]⟩
      rcases topicFromQuery_error _ _ he with h | ⟨kv, hkv, h⟩
      · exact Or.inl h
      · right; left
        refine ⟨kv, hkv, ?_⟩
        rcases h with h | h
        · exact Or.inl h
        · exact Or.inr (Or.inl h)
    · split
      · split
        · exact ⟨fun _ => Or.inr (Or.inr (Or.inr (Or.inr (Or.inl ⟨_, ‹_›⟩)))), by simp [resp], by simp [resp],
            by simp [resp], by simp [resp], by simp [resp]⟩
        · rename_i hp
          exact absurd hp (readMPUB_ne_panic _ _ _)
        · exact ⟨by simp [resp], by simp [resp], by simp [resp], by simp [resp], by simp [resp], by simp [resp]⟩
      · split
        · exact ⟨fun _ => Or.inr (Or.inr (Or.inr (Or.inl ⟨_, ‹_›⟩))), by simp [resp], by simp [resp],
            by simp [resp], by simp [resp], by simp [resp]⟩
        · exact ⟨by simp [resp], by simp [resp], by simp [resp], by simp [resp], by simp [resp], by simp [resp]⟩


/-- Shared shape of the topic-argument handlers (empty / delete / pause topic). -/
theorem topicArg_doc (hc : HConf) (healthy : Bool) (b : Broker) (rq : Request) (validate : Bool)
    (act : Bytes → Broker) :
    Documented hc healthy b rq
      (match parseQuery rq.rawQuery with
       | none => resp .s400 "INVALID_REQUEST" b
       | some kv =>
         match qget kv kTopic with
         | none => resp .s400 "MISSING_ARG_TOPIC" b
         | some t =>
           if validate && !isValidName t then resp .s400 "INVALID_TOPIC" b
           else if !hasTopic b t then resp .s404 "TOPIC_NOT_FOUND" b
           else resp .s200 "" (act t)).1 := by
  split
  · exact ⟨by simp [resp], fun _ => Or.inl ‹_›, by simp [resp], by simp [resp], by simp [resp], by simp [resp]⟩
  · rename_i kv hkv
    split
    · exact ⟨by simp [resp], fun _ => Or.inr (Or.inl ⟨kv, hkv, Or.inl ‹_›⟩), by simp [resp], by simp [resp],
        by simp [resp], by simp [resp]⟩
    · rename_i t ht
      split
      · rename_i hv
        refine ⟨by simp [resp], fun _ => Or.inr (Or.inl ⟨kv, hkv, Or.inr (Or.inl ⟨t, ht, ?_⟩)⟩), by simp [resp],
          by simp [resp], by simp [resp], by simp [resp]⟩
        simp at hv; exact hv.2
      · split
        · rename_i hh
          refine ⟨by simp [resp], by simp [resp], fun _ => ⟨kv, t, hkv, ht, Or.inl ?_⟩, by simp [resp],
            by simp [resp], by simp [resp]⟩
          simpa using hh
        · exact ⟨by simp [resp], by simp [resp], by simp [resp], by simp [resp], by simp [resp], by simp [resp]⟩

theorem doEmptyTopic_doc (hc : HConf) (healthy : Bool) (b : Broker) (rq : Request) :
    Documented hc healthy b rq (doEmptyTopic b rq).1 := by
  have := topicArg_doc hc healthy b rq true (fun t => modifyTopic b t (fun x => { x with msgs := [] }))
  unfold doEmptyTopic
  exact this

theorem doDeleteTopic_doc (hc : HConf) (healthy : Bool) (b : Broker) (rq : Request) :
    Documented hc healthy b rq (doDeleteTopic b rq).1 := by
  have := topicArg_doc hc healthy b rq false (fun t => deleteTopic b t)
  unfold doDeleteTopic
  exact this

theorem doPauseTopic_doc (hc : HConf) (healthy : Bool) (b : Broker) (rq : Request) :
    Documented hc healthy b rq (doPauseTopic b rq).1 := by
  have := topicArg_doc hc healthy b rq false
    (fun t => modifyTopic b t (fun x => settle { x with paused := !isUnpause rq.path }))
  unfold doPauseTopic
  exact this

theorem doCreateTopic_doc (hc : HConf) (healthy : Bool) (b : Broker) (rq : Request) :
    Documented hc healthy b rq (doCreateTopic b rq).1 := by
  unfold doCreateTopic
  split
  · rename_i e he
    refine ⟨by simp [resp], fun _ => ?_, by simp [resp], by simp [resp], by simp [resp], by simp [resp]⟩
    rcases topicFromQuery_error _ _ he with h | ⟨kv, hkv, h⟩
    · exact Or.inl h
    · right; left
      refine ⟨kv, hkv, ?_⟩
      rcases h with h | h
      · exact Or.inl h
      · exact Or.inr (Or.inl h)
  · exact ⟨by simp [resp], by simp [resp], by simp [resp], by simp [resp], by simp [resp], by simp [resp]⟩

/-- Shared shape of the four channel handlers. -/
theorem chanArg_doc (hc : HConf) (healthy : Bool) (b : Broker) (rq : Request) (needChan : Bool)
    (act : Bytes → Bytes → Broker) :
    Documented hc healthy b rq
      (match topicChannelArgs b rq with
       | .error e => resp e.1 e.2 b
       | .ok tc =>
         if needChan && !chanExists b tc.1 tc.2 then resp .s404 "CHANNEL_NOT_FOUND" b
         else resp .s200 "" (act tc.1 tc.2)).1 := by
  split
  · rename_i e he
    obtain ⟨st, m⟩ := e
    rcases topicChannelArgs_error b rq st m he with ⟨rfl, h⟩ | ⟨rfl, kv, t, hkv, ht, hh⟩
    · refine ⟨by simp [resp], fun _ => ?_, by simp [resp], by simp [resp], by simp [resp], by simp [resp]⟩
      rcases h with h | ⟨kv, hkv, h⟩
      · exact Or.inl h
      · right; left
        refine ⟨kv, hkv, ?_⟩
        rcases h with h | h | h | h
        · exact Or.inl h
        · exact Or.inr (Or.inl h)
        · exact Or.inr (Or.inr (Or.inl h))
        · exact Or.inr (Or.inr (Or.inr (Or.inl h)))
    · exact ⟨by simp [resp], by simp [resp], fun _ => ⟨kv, t, hkv, ht, Or.inl hh⟩, by simp [resp], by simp [resp],
        by simp [resp]⟩
  · rename_i tc htc
    obtain ⟨t, c⟩ := tc
    obtain ⟨kv, hkv, ht, hc', _, _, _⟩ := topicChannelArgs_ok b rq t c htc
    split
    · rename_i hh
      refine ⟨by simp [resp], by simp [resp], fun _ => ⟨kv, t, hkv, ht, Or.inr ⟨c, hc', ?_⟩⟩, by simp [resp],
        by simp [resp], by simp [resp]⟩
      simp at hh; exact hh.2
    · exact ⟨by simp [resp], by simp [resp], by simp [resp], by simp [resp], by simp [resp], by simp [resp]⟩

theorem doCreateChannel_doc (hc : HConf) (healthy : Bool) (b : Broker) (rq : Request) :
    Documented hc healthy b rq (doCreateChannel b rq).1 := by
  have := chanArg_doc hc healthy b rq false (fun t c => getChannel b t c)
  unfold doCreateChannel
  exact this

theorem doEmptyChannel_doc (hc : HConf) (healthy : Bool) (b : Broker) (rq : Request) :
    Documented hc healthy b rq (doEmptyChannel b rq).1 := by
  have := chanArg_doc hc healthy b rq true (fun t c => modifyChan b t c (fun c => { c with msgs := [] }))
  unfold doEmptyChannel
  exact this

theorem doDeleteChannel_doc (hc : HConf) (healthy : Bool) (b : Broker) (rq : Request) :
    Documented hc healthy b rq (doDeleteChannel b rq).1 := by
  have := chanArg_doc hc healthy b rq true (fun t c => deleteChannel b t c)
  unfold doDeleteChannel
  exact this

theorem doPauseChannel_doc (hc : HConf) (healthy : Bool) (b : Broker) (rq : Request) :
    Documented hc healthy b rq (doPauseChannel b rq).1 := by
  have := chanArg_doc hc healthy b rq true
    (fun t c => modifyChan b t c (fun c => { c with paused := !isUnpause rq.path }))
  unfold doPauseChannel
  exact this

theorem doStats_doc (hc : HConf) (healthy : Bool) (b : Broker) (rq : Request) :
    Documented hc healthy b rq (doStats b rq).1 := by
  unfold doStats
  split
  · exact ⟨by simp [resp], fun _ => Or.inl ‹_›, by simp [resp], by simp [resp], by simp [resp], by simp [resp]⟩
  · exact ⟨by simp [resp], by simp [resp], by simp [resp], by simp [resp], by simp [resp], by simp [resp]⟩

theorem doConfig_doc (hc : HConf) (healthy : Bool) (b : Broker) (rq : Request) :
    Documented hc healthy b rq (doConfig hc b rq).1 := by
  unfold doConfig
  split
  · exact ⟨by simp [resp], by simp [resp], by simp [resp], by simp [resp], by simp [resp], by simp [resp]⟩
  · rename_i opt hopt
    have hbad : BadArgs hc rq := Or.inr (Or.inr (Or.inr ⟨opt, hopt⟩))
    split
    · rename_i hput
      split
      · rename_i hsz
        refine ⟨fun _ => ?_, by simp [resp], by simp [resp], by simp [resp], by simp [resp], by simp [resp]⟩
        simp only [Bool.or_eq_true, decide_eq_true_eq] at hsz
        rcases hsz with h | h
        · exact Or.inr (Or.inr (Or.inl h))
        · exact Or.inr (Or.inr (Or.inr (Or.inr (Or.inr ⟨hput, h⟩))))
      · repeat' split
        all_goals exact ⟨by simp [resp], fun _ => hbad, by simp [resp], by simp [resp], by simp [resp], by simp [resp]⟩
    · split
      · exact ⟨by simp [resp], by simp [resp], by simp [resp], by simp [resp], by simp [resp], by simp [resp]⟩
      · exact ⟨by simp [resp], fun _ => hbad, by simp [resp], by simp [resp], by simp [resp], by simp [resp]⟩

theorem ping_path (method path : Bytes) (h : route method path = .handler .ping) : path = ascii "/ping" := by
  unfold route at h
  split at h
  · rename_i r hr
    simp at h
    have hmem := List.mem_of_find?_eq_some hr
    have hp := List.find?_some hr
    simp only [routeTable, List.mem_cons, List.not_mem_nil, or_false] at hmem
    rcases hmem with rfl | rfl | rfl | rfl | rfl | rfl | rfl | rfl | rfl | rfl | rfl | rfl | rfl | rfl | rfl | rfl |
      rfl | rfl | rfl | rfl | rfl | rfl | rfl | rfl
    all_goals first
      | (simp at h; done)
      | (simp [pathMatches] at hp; exact hp.2.symm)
  · repeat' split at h
    all_goals cases h

/-- `httpServer.ServeHTTP`: each error status has its documented cause. -/
theorem handle_doc (hc : HConf) (healthy : Bool) (b : Broker) (rq : Request) :
    Documented hc healthy b rq (handle hc healthy b rq).1 := by
  unfold handle
  split
  · exact ⟨by simp [resp], by simp [resp], by simp [resp], by simp [resp], fun _ => ‹_›, by simp [resp]⟩
  · split
    · rename_i h hr
      cases h
      · -- ping
        simp only [runHandler]
        split
        · exact ⟨by simp [resp], by simp [resp], by simp [resp], by simp [resp], by simp [resp], by simp [resp]⟩
        · rename_i hh
          exact ⟨by simp [resp], by simp [resp], by simp [resp],
            fun _ => ⟨by simpa using hh, ping_path _ _ hr⟩, by simp [resp], by simp [resp]⟩
      · exact ⟨by simp [runHandler, resp], by simp [runHandler, resp], by simp [runHandler, resp],
          by simp [runHandler, resp], by simp [runHandler, resp], by simp [runHandler, resp]⟩
      · exact doPUB_doc hc healthy b rq
      · exact doMPUB_doc hc healthy b rq
      · exact doStats_doc hc healthy b rq
      · exact doCreateTopic_doc hc healthy b rq
      · exact doDeleteTopic_doc hc healthy b rq
      · exact doEmptyTopic_doc hc healthy b rq
      · exact doPauseTopic_doc hc healthy b rq
      · exact doCreateChannel_doc hc healthy b rq
      · exact doDeleteChannel_doc hc healthy b rq
      · exact doEmptyChannel_doc hc healthy b rq
      · exact doPauseChannel_doc hc healthy b rq
      · exact doConfig_doc hc healthy b rq
      · exact ⟨by simp [runHandler, resp], by simp [runHandler, resp], by simp [runHandler, resp],
          by simp [runHandler, resp], by simp [runHandler, resp], by simp [runHandler, resp]⟩
    · exact ⟨by simp [resp], by simp [resp], by simp [resp], by simp [resp], by simp [resp], by simp [resp]⟩
    · exact ⟨by simp [resp], by simp [resp], by simp [resp], by simp [resp], by simp [resp], fun _ => ‹_›⟩
    · exact ⟨by simp [resp], by simp [resp], by simp [resp], by simp [resp], by simp [resp], by simp [resp]⟩


/-! ## Frame lemmas: an operation on one topic leaves every other topic alone -/

/-- Every topic other than `t` is the same in `b'` as in `b` (present or absent, all fields). -/
def OnlyTopic (t : Bytes) (b b' : Broker) : Prop := ∀ t', t' ≠ t → findTopic b' t' = findTopic b t'

theorem beq_false_of_ne {a c : Bytes} (h : a ≠ c) : (a == c) = false := by
  simpa using h

theorem findTopic_modifyTopic_ne (b : Broker) (n t' : Bytes) (f : Topic → Topic)
    (hf : ∀ x, (f x).name = x.name) (h : t' ≠ n) :
    findTopic (modifyTopic b n f) t' = findTopic b t' := by
  unfold findTopic modifyTopic
  induction b with
  | nil => rfl
  | cons x xs ih =>
    simp only [List.map_cons, List.find?_cons]
    by_cases hx : x.name = n
    · have h1 : (x.name == n) = true := by simpa using hx
      have h2 : (x.name == t') = false := by
        rw [hx]; exact beq_false_of_ne (fun e => h e.symm)
      simp only [h1, if_true, hf, h2]
      exact ih
    · have h1 : (x.name == n) = false := by simpa using hx
      simp only [h1, Bool.false_eq_true, if_false]
      cases hxt : (x.name == t')
      · simpa using ih
      · rfl

theorem findTopic_modifyTopic_eq (b : Broker) (n : Bytes) (f : Topic → Topic)
    (hf : ∀ x, (f x).name = x.name) :
    findTopic (modifyTopic b n f) n = (findTopic b n).map f := by
  unfold findTopic modifyTopic
  induction b with
  | nil => rfl
  | cons x xs ih =>
    simp only [List.map_cons, List.find?_cons]
    by_cases hx : x.name = n
    · have h1 : (x.name == n) = true := by simpa using hx
      have h2 : ((f x).name == n) = true := by rw [hf]; exact h1
      simp [h1, h2]
    · have h1 : (x.name == n) = false := by simpa using hx
      simp only [h1, Bool.false_eq_true, if_false]
      simpa using ih

theorem findTopic_append_ne (b : Broker) (x : Topic) (t' : Bytes) (h : t' ≠ x.name) :
    findTopic (b ++ [x]) t' = findTopic b t' := by
  unfold findTopic
  rw [List.find?_append]
  have : (x.name == t') = false := beq_false_of_ne (fun e => h e.symm)
  cases List.find? (fun y => y.name == t') b <;> simp [this]

theorem onlyTopic_getTopic (b : Broker) (t : Bytes) : OnlyTopic t b (getTopic b t) := by
  intro t' h
  unfold getTopic
  split
  · rfl
  · exact findTopic_append_ne b _ t' h

theorem onlyTopic_modifyTopic (b : Broker) (t : Bytes) (f : Topic → Topic) (hf : ∀ x, (f x).name = x.name) :
    OnlyTopic t b (modifyTopic b t f) :=
  fun t' h => findTopic_modifyTopic_ne b t t' f hf h

theorem findTopic_deleteTopic_ne (b : Broker) (t t' : Bytes) (h : t' ≠ t) :
    findTopic (deleteTopic b t) t' = findTopic b t' := by
  unfold findTopic deleteTopic
  induction b with
  | nil => rfl
  | cons x xs ih =>
    simp only [List.filter_cons, List.find?_cons]
    by_cases hx : x.name = t
    · have h1 : (x.name == t) = true := by simpa using hx
      have h2 : (x.name == t') = false := by rw [hx]; exact beq_false_of_ne (fun e => h e.symm)
      simp only [h1, Bool.not_true, Bool.false_eq_true, if_false, h2]
      exact ih
    · have h1 : (x.name == t) = false := by simpa using hx
      simp only [h1, Bool.not_false, if_true, List.find?_cons]
      cases hxt : (x.name == t')
      · simpa using ih
      · rfl

theorem findTopic_deleteTopic_eq (b : Broker) (t : Bytes) : findTopic (deleteTopic b t) t = none := by
  unfold findTopic deleteTopic
  rw [List.find?_eq_none]
  intro x hx
  have := (List.mem_filter.mp hx).2
  simpa using this

theorem onlyTopic_deleteTopic (b : Broker) (t : Bytes) : OnlyTopic t b (deleteTopic b t) :=
  fun t' h => findTopic_deleteTopic_ne b t t' h

theorem onlyTopic_trans {t : Bytes} {b b' b'' : Broker} (h1 : OnlyTopic t b b') (h2 : OnlyTopic t b' b'') :
    OnlyTopic t b b'' := fun t' h => (h2 t' h).trans (h1 t' h)

theorem onlyTopic_refl (t : Bytes) (b : Broker) : OnlyTopic t b b := fun _ _ => rfl

theorem settle_name (x : Topic) : (settle x).name = x.name := by
  unfold settle; split <;> rfl

theorem onlyTopic_putMsgs (b : Broker) (t : Bytes) (ms : List Msg) : OnlyTopic t b (putMsgs b t ms) :=
  onlyTopic_modifyTopic b t _ (fun x => by simp [settle_name])

theorem onlyTopic_publish (b : Broker) (t : Bytes) (ms : List Msg) : OnlyTopic t b (publish b t ms) :=
  onlyTopic_trans (onlyTopic_getTopic b t) (onlyTopic_putMsgs _ t ms)

theorem onlyTopic_getChannel (b : Broker) (t c : Bytes) : OnlyTopic t b (getChannel b t c) :=
  onlyTopic_modifyTopic b t _ (fun x => by split <;> simp [settle_name])

theorem onlyTopic_modifyChan (b : Broker) (t c : Bytes) (f : Chan → Chan) : OnlyTopic t b (modifyChan b t c f) :=
  onlyTopic_modifyTopic b t _ (fun _ => rfl)

theorem onlyTopic_deleteChannel (b : Broker) (t c : Bytes) : OnlyTopic t b (deleteChannel b t c) := by
  unfold deleteChannel
  have h1 : OnlyTopic t b (modifyTopic b t (fun x => { x with chans := x.chans.filter (fun y => !(y.name == c)) })) :=
    onlyTopic_modifyTopic b t _ (fun _ => rfl)
  simp only
  split
  · split
    · exact onlyTopic_trans h1 (onlyTopic_deleteTopic _ t)
    · exact h1
  · exact h1

/-- Each of the ten admin endpoints changes the named topic only (everything else in the broker,
every other topic with all its channels and messages, is untouched), and changes nothing at all
when it does not answer 200. -/
theorem admin_frame (hc : HConf) (healthy : Bool) (b : Broker) (rq : Request) (h : Handler)
    (hadmin : h = .createTopic ∨ h = .deleteTopic ∨ h = .emptyTopic ∨ h = .pauseTopic ∨ h = .createChannel ∨
      h = .deleteChannel ∨ h = .emptyChannel ∨ h = .pauseChannel) :
    ((runHandler hc healthy b rq h).1.status ≠ .s200 → (runHandler hc healthy b rq h).2 = b) ∧
    ∀ kv t, parseQuery rq.rawQuery = some kv → qget kv kTopic = some t →
      OnlyTopic t b (runHandler hc healthy b rq h).2 := by
  rcases hadmin with rfl | rfl | rfl | rfl | rfl | rfl | rfl | rfl
  · -- create topic
    simp only [runHandler, doCreateTopic, topicFromQuery]
    constructor
    · repeat' split
      all_goals simp_all [resp]
    · intro kv t hkv ht
      simp only [hkv, ht]
      split
      · exact onlyTopic_refl t b
      · rename_i t2 heq
        split at heq
        · simp at heq; subst heq; exact onlyTopic_getTopic b t
        · simp at heq
  · -- delete topic
    simp only [runHandler, doDeleteTopic]
    constructor
    · repeat' split
      all_goals simp_all [resp]
    · intro kv t hkv ht
      simp only [hkv, ht]
      split
      · exact onlyTopic_refl t b
      · exact onlyTopic_deleteTopic b t
  · -- empty topic
    simp only [runHandler, doEmptyTopic]
    constructor
    · repeat' split
      all_goals simp_all [resp]
    · intro kv t hkv ht
      simp only [hkv, ht]
      repeat' split
      all_goals first
        | exact onlyTopic_refl t b
        | exact onlyTopic_modifyTopic b t _ (fun _ => rfl)
  · -- pause / unpause topic
    simp only [runHandler, doPauseTopic]
    constructor
    · repeat' split
      all_goals simp_all [resp]
    · intro kv t hkv ht
      simp only [hkv, ht]
      split
      · exact onlyTopic_refl t b
      · exact onlyTopic_modifyTopic b t _ (fun x => by simp [settle_name])
  all_goals
    simp only [runHandler, doCreateChannel, doDeleteChannel, doEmptyChannel, doPauseChannel]
    constructor
    · repeat' split
      all_goals simp_all [resp]
    · intro kv t hkv ht
      split
      · exact onlyTopic_refl t b
      · rename_i tc htc
        obtain ⟨t2, c⟩ := tc
        obtain ⟨kv', hkv', ht', _⟩ := topicChannelArgs_ok b rq t2 c htc
        rw [hkv] at hkv'
        simp at hkv'
        subst hkv'
        rw [ht] at ht'
        simp at ht'
        subst ht'
        first
          | exact onlyTopic_getChannel b t c
          | (split
             · exact onlyTopic_refl t b
             · first
               | exact onlyTopic_deleteChannel b t c
               | exact onlyTopic_modifyChan b t c _)


/-! ## max-body-size bounds every accepted /mpub -/

theorem textLoop_over (maxMsg : Int) : ∀ (blocks : List Bytes), blocks ≠ [] → ∀ r, textLoop maxMsg true blocks ≠ .ok r
  | [], h, _ => absurd rfl h
  | [blk], _, r => by simp [textLoop]
  | blk :: c :: rest, _, r => by
    unfold textLoop
    by_cases h1 : (true && ((c :: rest).isEmpty || (c :: rest) == [[]])) = true
    · rw [if_pos h1]; simp
    · rw [if_neg h1]
      have ih := textLoop_over maxMsg (c :: rest) (by simp)
      split
      · exact ih r
      · split
        · simp
        · split
          · simp
          · rename_i ms hms
            exact absurd hms (ih ms)

theorem splitNl_ne_nil : ∀ (b : Bytes), Mpub.splitNl b ≠ []
  | [] => by simp [Mpub.splitNl]
  | c :: cs => by
    unfold Mpub.splitNl
    split
    · simp
    · split <;> simp

/-- An accepted text `/mpub` body is at most max-body-size bytes long. -/
theorem mpubText_bounded (hc : HConf) (body : Bytes) (r : List Bytes) (h0 : 0 ≤ hc.maxBodySize)
    (h : mpubText hc body = .ok r) : (body.length : Int) ≤ hc.maxBodySize := by
  unfold mpubText at h
  by_cases hov : ((body.take (hc.maxBodySize + 1).toNat).length : Int) = hc.maxBodySize + 1
  · simp only [hov, decide_true] at h
    exact absurd h (textLoop_over _ _ (splitNl_ne_nil _) r)
  · rw [List.length_take] at hov
    omega

/-- An accepted binary `/mpub` enqueues a batch whose wire image lies within the first
max-body-size bytes of the body (whatever the declared length, chunked included). -/
theorem mpub_binary_bounded (hc : HConf) (b : Broker) (rq : Request) (kv : List (Bytes × Bytes))
    (hq : parseQuery rq.rawQuery = some kv) (hbin : binaryMode kv = true)
    (h : (doMPUB hc b rq).1.status = .s200) :
    ∃ t bodies r, Mpub.readMPUB hc.maxMsgSize hc.maxBodySize (rq.body.take hc.maxBodySize.toNat) = .ok bodies r ∧
      rq.body.take hc.maxBodySize.toNat = Mpub.encode bodies ++ r ∧
      ((Mpub.encode bodies).length : Int) ≤ hc.maxBodySize ∧
      (doMPUB hc b rq).2 = publish b t (toMsgs bodies) := by
  unfold doMPUB at h ⊢
  split at h
  · simp [resp] at h
  · split at h
    · simp [resp] at h
    · rename_i t ht
      simp only [hq, Option.getD_some, hbin, if_true] at h ⊢
      split at h
      · simp [resp] at h
      · simp [resp] at h
      · rename_i bodies r hm
        have hw := Nsq.Proofs.Mpub.readMPUB_wire _ _ _ _ _ hm
        rename_i hcl _ _
        refine ⟨t, bodies, r, hm, hw, ?_, by rw [if_neg hcl]; rfl⟩
        have hl : (rq.body.take hc.maxBodySize.toNat).length ≤ hc.maxBodySize.toNat := by
          rw [List.length_take]; omega
        rw [hw, List.length_append] at hl
        have hpos : 4 ≤ (Mpub.encode bodies).length := by
          simp [Mpub.encode, Nsq.Proofs.Mpub.be32_length]
        omega

/-! ## Concrete values for the non-vacuity examples -/
namespace Examples

/-- max-msg-size 8, max-body-size 20, max-req-timeout 90 s. -/
def hconf : HConf := { maxMsgSize := 8, maxBodySize := 20, maxReqTimeoutMs := 90000, tlsRefuse := false, cfgNames := [] }

def broker2 : Broker :=
  [{ name := ascii "a", paused := false, count := 1, msgs := [⟨[1], 0⟩], chans := [] },
   { name := ascii "b", paused := false, count := 0, msgs := [], chans := [] }]

end Examples

end Nsq.Proofs.HttpApi
