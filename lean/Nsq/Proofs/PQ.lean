import Nsq.Model.PQ
/-!
C04 (timing half): proofs about the two array heaps of `Nsq.Model.PQ`.

Both variants keep the min-heap order and the "every element knows its position" invariant
under `push`, `pop1`, `remove1`, `remove2`, `peekAndShift1/2`; the multiset of `(id, pri)` keys
changes exactly by the pushed / removed element; `peekAndShift` returns an element iff the root
is due, and that element's priority is `≤ max`.
-/
namespace Nsq.Proofs.PQ
open Nsq.Model.PQ

/-! ### the invariants as propositions -/

def HeapOrd (a : H) : Prop :=
  ∀ k (hk : k < a.size), 0 < k → (a[(k - 1) / 2]'(by omega)).pri ≤ a[k].pri

def IndexOK (a : H) : Prop := ∀ k (hk : k < a.size), a[k].index = (k : Int)

def Inv (a : H) : Prop := HeapOrd a ∧ IndexOK a

/-- (id, pri) of an element: what identifies a queued deadline -/
def key (e : E) : Nat × Int := (e.id, e.pri)

def keys (a : H) : List (Nat × Int) := a.toList.map key

theorem heapOrdOk_iff (a : H) : heapOrdOk a = true ↔ HeapOrd a := by
  unfold heapOrdOk HeapOrd
  simp only [List.all_eq_true, List.mem_range]
  constructor
  · intro h k hk h0
    have := h k hk
    simp only [hk, dite_true, Bool.or_eq_true, decide_eq_true_eq] at this
    rcases this with h1 | h1
    · omega
    · exact h1
  · intro h k hk
    simp only [hk, dite_true, Bool.or_eq_true, decide_eq_true_eq]
    by_cases h0 : k = 0
    · exact Or.inl h0
    · exact Or.inr (h k hk (by omega))

theorem indexOk_iff (a : H) : indexOk a = true ↔ IndexOK a := by
  unfold indexOk IndexOK
  simp only [List.all_eq_true, List.mem_range]
  constructor
  · intro h k hk
    have := h k hk
    simpa [hk] using this
  · intro h k hk
    simpa [hk] using h k hk

/-! ### non-vacuity -/

example : heapOrdOk #[⟨7, 1, 0⟩, ⟨8, 5, 1⟩, ⟨9, 3, 2⟩] = true := by decide
example : indexOk #[⟨7, 1, 0⟩, ⟨8, 5, 1⟩, ⟨9, 3, 2⟩] = true := by decide
example : heapOrdOk #[⟨7, 4, 0⟩, ⟨8, 5, 1⟩, ⟨9, 3, 2⟩] = false := by decide
example : indexOk #[⟨7, 1, 0⟩, ⟨8, 5, 2⟩, ⟨9, 3, 1⟩] = false := by decide

/-! ### total accessors -/

/-- priority at position `k` (0 outside the array) -/
def P (a : H) (k : Nat) : Int := if h : k < a.size then a[k].pri else 0

theorem P_eq (a : H) (k : Nat) (h : k < a.size) : P a k = a[k].pri := by simp [P, h]

theorem P_swp (a : H) (i j : Nat) (hi : i < a.size) (hj : j < a.size) (k : Nat) :
    P (swp a i j hi hj) k = if k = j then P a i else if k = i then P a j else P a k := by
  unfold P
  simp only [size_swp]
  by_cases hk : k < a.size
  · simp only [hk, dite_true, swp, Array.getElem_set]
    by_cases h1 : k = j
    · subst h1; simp [hi]
    · by_cases h2 : k = i
      · subst h2; simp [hj, Ne.symm h1, h1]
      · simp [Ne.symm h1, Ne.symm h2, h1, h2]
  · have h1 : k ≠ j := by omega
    have h2 : k ≠ i := by omega
    simp [hk, h1, h2]

theorem getElem?_swp (a : H) (i j : Nat) (hi : i < a.size) (hj : j < a.size) (k : Nat) :
    (swp a i j hi hj)[k]? =
      if k = j then some { a[i] with index := j }
      else if k = i then some { a[j] with index := i } else a[k]? := by
  simp only [swp, Array.getElem?_set]
  by_cases h1 : k = j
  · subst h1; simp
  · by_cases h2 : k = i
    · subst h2; simp [Ne.symm h1, h1]
    · simp [Ne.symm h1, Ne.symm h2, h1, h2]

/-- heap order on the prefix `[0, n)` -/
def HO (a : H) (n : Nat) : Prop := ∀ k, k < n → 0 < k → P a ((k - 1) / 2) ≤ P a k

theorem heapOrd_iff_HO (a : H) : HeapOrd a ↔ HO a a.size := by
  constructor
  · intro h k hk h0
    rw [P_eq a k hk, P_eq a _ (by omega)]
    exact h k hk h0
  · intro h k hk h0
    have := h k hk h0
    rwa [P_eq a k hk, P_eq a _ (by omega)] at this

theorem root_min' (a : H) (n : Nat) (h : HO a n) (k : Nat) (hk : k < n) : P a 0 ≤ P a k := by
  induction k using Nat.strongRecOn with
  | _ k ih =>
    by_cases h0 : k = 0
    · subst h0; exact Int.le_refl _
    · have h1 := ih ((k - 1) / 2) (by omega) (by omega)
      have h2 := h k hk (by omega)
      omega

theorem root_min (a : H) (h : HeapOrd a) (k : Nat) (hk : k < a.size) :
    (a[0]'(by omega)).pri ≤ a[k].pri := by
  have := root_min' a a.size ((heapOrd_iff_HO a).1 h) k hk
  rwa [P_eq a k hk, P_eq a 0 (by omega)] at this

/-! ### sift-up -/

/-- heap order on `[0, n)` except possibly between `j` and its parent; the children of `j`
are already above `j`'s parent -/
def UpInv (a : H) (n j : Nat) : Prop :=
  (∀ k, k < n → 0 < k → k ≠ j → P a ((k - 1) / 2) ≤ P a k) ∧
  (∀ k, k < n → 0 < k → (k - 1) / 2 = j → 0 < j → P a ((j - 1) / 2) ≤ P a k)

theorem HO.upInv {a : H} {n : Nat} (h : HO a n) (j : Nat) (hj : j < n) : UpInv a n j := by
  refine ⟨fun k hk h0 _ => h k hk h0, fun k hk h0 hp hj0 => ?_⟩
  have h1 := h k hk h0
  have h2 := h j hj hj0
  rw [hp] at h1
  omega

theorem up_HO (a : H) (j : Nat) (hj : j < a.size) (n : Nat) (hjn : j < n) (hn : n ≤ a.size)
    (h : UpInv a n j) : HO (up a j hj) n := by
  fun_induction up a j hj with
  | case1 a hj =>
    intro k hk h0
    exact h.1 k hk h0 (by omega)
  | case2 a j hj h0 hge =>
    intro k hk hk0
    by_cases hkj : k = j
    · subst hkj
      rw [P_eq a k hj, P_eq a _ (by omega)]
      exact hge
    · exact h.1 k hk hk0 hkj
  | case3 a j hj h0 hlt ih =>
    apply ih (by omega) (by simpa using hn)
    have hlt' : P a j < P a ((j - 1) / 2) := by
      rw [P_eq a j hj, P_eq a _ (by omega)]
      omega
    obtain ⟨h1, h2⟩ := h
    constructor
    · intro k hk hk0 hkp
      simp only [P_swp]
      by_cases hkj : k = j
      · subst hkj
        simp
        omega
      · have hq1 : (k - 1) / 2 ≠ k := by omega
        by_cases hqj : (k - 1) / 2 = j
        · have := h2 k hk hk0 hqj (by omega)
          simp [hkj, hkp, hqj]
          omega
        · by_cases hqp : (k - 1) / 2 = (j - 1) / 2
          · have := h1 k hk hk0 hkj
            simp [hkj, hkp, hqp]
            rw [hqp] at this
            omega
          · have := h1 k hk hk0 hkj
            simp [hkj, hkp, hqj, hqp]
            exact this
    · intro k hk hk0 hkp hp0
      simp only [P_swp]
      have e1 : ((j - 1) / 2 - 1) / 2 ≠ j := by omega
      have e2 : ((j - 1) / 2 - 1) / 2 ≠ (j - 1) / 2 := by omega
      have e3 : k ≠ (j - 1) / 2 := by omega
      have hpp := h1 ((j - 1) / 2) (by omega) hp0 (by omega)
      by_cases hkj : k = j
      · subst hkj
        simp [e1, e2]
        exact hpp
      · have := h1 k hk hk0 hkj
        rw [hkp] at this
        simp [e1, e2, e3, hkj]
        omega

theorem up_getElem?_gt (a : H) (j : Nat) (hj : j < a.size) (k : Nat) (hk : j < k) :
    (up a j hj)[k]? = a[k]? := by
  fun_induction up a j hj with
  | case1 => rfl
  | case2 => rfl
  | case3 a j hj h0 hlt ih =>
    rw [ih (by omega), getElem?_swp]
    have : k ≠ j := by omega
    have : k ≠ (j - 1) / 2 := by omega
    simp [*]

/-! ### sift-down -/

theorem child_min (tr : Bool) (a : H) (j1 n : Nat) (h1 : j1 < n) (hn : n ≤ a.size) :
    P a (child tr a j1 n h1 hn) ≤ P a j1 ∧
      (j1 + 1 < n → P a (child tr a j1 n h1 hn) ≤ P a (j1 + 1)) := by
  unfold child
  by_cases h2 : j1 + 1 < n
  · have e1 := P_eq a j1 (by omega)
    have e2 := P_eq a (j1 + 1) (by omega)
    simp only [h2, dite_true]
    cases tr
    · simp only [Bool.false_eq_true, if_false]
      split <;> (refine ⟨?_, fun _ => ?_⟩ <;> omega)
    · simp only [if_true]
      split <;> (refine ⟨?_, fun _ => ?_⟩ <;> omega)
  · simp [h2]

/-- heap order on `[0, n)` except possibly around `i`: pairs not touching `i` are ordered and
the children of `i` are above `i`'s parent (the state after `Swap(i, n)` in `Remove`) -/
def RemInv (a : H) (n i : Nat) : Prop :=
  (∀ k, k < n → 0 < k → k ≠ i → (k - 1) / 2 ≠ i → P a ((k - 1) / 2) ≤ P a k) ∧
  (∀ k, k < n → 0 < k → (k - 1) / 2 = i → 0 < i → P a ((i - 1) / 2) ≤ P a k)

/-- heap order on `[0, n)` except possibly between `i` and its children -/
def DownInv (a : H) (n i : Nat) : Prop :=
  (∀ k, k < n → 0 < k → (k - 1) / 2 ≠ i → P a ((k - 1) / 2) ≤ P a k) ∧
  (∀ k, k < n → 0 < k → (k - 1) / 2 = i → 0 < i → P a ((i - 1) / 2) ≤ P a k)

theorem DownInv.remInv {a : H} {n i : Nat} (h : DownInv a n i) : RemInv a n i :=
  ⟨fun k hk h0 _ hp => h.1 k hk h0 hp, h.2⟩

/-- one moving step of `down` -/
theorem down_step' (a : H) (i n c : Nat) (hn : n ≤ a.size) (h1 : 2 * i + 1 < n)
    (h : RemInv a n i) (hlt : P a c < P a i)
    (hc : c = 2 * i + 1 ∨ (c = 2 * i + 1 + 1 ∧ 2 * i + 1 + 1 < n))
    (hm : P a c ≤ P a (2 * i + 1) ∧ (2 * i + 1 + 1 < n → P a c ≤ P a (2 * i + 1 + 1))) :
    DownInv (swp a i c (by omega) (by omega)) n c := by
  obtain ⟨r1, r2⟩ := h
  have hci : c ≠ i := by omega
  have hcp : (c - 1) / 2 = i := by omega
  constructor
  · intro k hk hk0 hkp
    simp only [P_swp]
    have hq1 : (k - 1) / 2 ≠ k := by omega
    by_cases hkc : k = c
    · subst hkc
      simp [hcp]
      omega
    · by_cases hki : k = i
      · subst hki
        have := r2 c (by omega) (by omega) hcp hk0
        have e1 : (k - 1) / 2 ≠ c := by omega
        simp [hkc, e1, hq1]
        exact this
      · by_cases hqi : (k - 1) / 2 = i
        · have : P a c ≤ P a k := by
            rcases hc with hc | ⟨hc, hc2⟩
            · have : k = 2 * i + 1 + 1 := by omega
              subst this
              exact hc ▸ hm.2 (by omega)
            · have : k = 2 * i + 1 := by omega
              subst this
              exact hm.1
          simp [hkc, hki, hqi, Ne.symm hci]
          exact this
        · have := r1 k hk hk0 hki hqi
          simp [hkc, hki, hqi, hkp]
          exact this
  · intro k hk hk0 hkp hc0
    simp only [P_swp]
    have e1 : k ≠ c := by omega
    have e2 : k ≠ i := by omega
    have := r1 k hk hk0 e2 (by omega)
    rw [hkp] at this
    simp [hcp, e1, e2, Ne.symm hci]
    exact this

theorem down_step (tr : Bool) (a : H) (i n : Nat) (hn : n ≤ a.size) (h1 : 2 * i + 1 < n)
    (h : RemInv a n i)
    (hlt : P a (child tr a (2 * i + 1) n h1 hn) < P a i) :
    DownInv (swp a i (child tr a (2 * i + 1) n h1 hn) (by omega)
      (by have := child_lt tr a (2 * i + 1) n h1 hn; omega)) n
      (child tr a (2 * i + 1) n h1 hn) :=
  down_step' a i n _ hn h1 h hlt (child_cases tr a (2 * i + 1) n h1 hn)
    (child_min tr a (2 * i + 1) n h1 hn)

theorem down_HO (tr : Bool) (a : H) (i n : Nat) (hn : n ≤ a.size) (h : DownInv a n i) :
    HO (down tr a i n hn).1 n := by
  fun_induction down tr a i n hn with
  | case1 a i hn h1 hge =>
    intro k hk hk0
    by_cases hp : (k - 1) / 2 = i
    · have hc := child_cases tr a (2 * i + 1) n h1 hn
      have hm := child_min tr a (2 * i + 1) n h1 hn
      have hcl := child_lt tr a (2 * i + 1) n h1 hn
      have hge' : P a i ≤ P a (child tr a (2 * i + 1) n h1 hn) := by
        rw [P_eq a i (by omega), P_eq a _ (by omega)]
        exact hge
      rw [hp]
      rcases (show k = 2 * i + 1 ∨ k = 2 * i + 1 + 1 by omega) with e | e
      · subst e; exact Int.le_trans hge' hm.1
      · subst e; exact Int.le_trans hge' (hm.2 hk)
    · exact h.1 k hk hk0 hp
  | case2 a i hn h1 hlt ih =>
    apply ih
    apply down_step tr a i n hn h1 h.remInv
    have hcl := child_lt tr a (2 * i + 1) n h1 hn
    rw [P_eq a i (by omega), P_eq a _ (by omega)]
    omega
  | case3 a i hn h1 =>
    intro k hk hk0
    exact h.1 k hk hk0 (by omega)

theorem down_pos_ge (tr : Bool) (a : H) (i n : Nat) (hn : n ≤ a.size) :
    i ≤ (down tr a i n hn).2 := by
  fun_induction down tr a i n hn with
  | case1 => exact Nat.le_refl _
  | case2 a i hn h1 hlt ih =>
    have := child_cases tr a (2 * i + 1) n h1 hn
    omega
  | case3 => exact Nat.le_refl _

theorem down_getElem?_ge (tr : Bool) (a : H) (i n : Nat) (hn : n ≤ a.size) (hi : i < n)
    (k : Nat) (hk : n ≤ k) : (down tr a i n hn).1[k]? = a[k]? := by
  fun_induction down tr a i n hn with
  | case1 => rfl
  | case2 a i hn h1 hlt ih =>
    have hcl := child_lt tr a (2 * i + 1) n h1 hn
    rw [ih hcl, getElem?_swp]
    have : k ≠ i := by omega
    have : k ≠ child tr a (2 * i + 1) n h1 hn := by omega
    simp [*]
  | case3 => rfl

/-- `down` from the state after `Swap(i, n)`: either nothing moved and `up(i)` will repair the
order, or the element moved down and the prefix is a heap -/
theorem down_rem (tr : Bool) (a : H) (i n : Nat) (hn : n ≤ a.size) (h : RemInv a n i) :
    (down tr a i n hn = (a, i) ∧ UpInv a n i) ∨
      (i < (down tr a i n hn).2 ∧ HO (down tr a i n hn).1 n) := by
  unfold down
  by_cases h1 : 2 * i + 1 < n
  · have hc := child_cases tr a (2 * i + 1) n h1 hn
    have hm := child_min tr a (2 * i + 1) n h1 hn
    have hcl := child_lt tr a (2 * i + 1) n h1 hn
    simp only [h1, dite_true]
    split
    · rename_i hge
      left
      refine ⟨rfl, ?_, h.2⟩
      intro k hk hk0 hki
      by_cases hp : (k - 1) / 2 = i
      · have hge' : P a i ≤ P a (child tr a (2 * i + 1) n h1 hn) := by
          rw [P_eq a i (by omega), P_eq a _ (by omega)]
          exact hge
        rw [hp]
        rcases (show k = 2 * i + 1 ∨ k = 2 * i + 1 + 1 by omega) with e | e
        · subst e; exact Int.le_trans hge' hm.1
        · subst e; exact Int.le_trans hge' (hm.2 hk)
      · exact h.1 k hk hk0 hki hp
    · rename_i hlt
      right
      constructor
      · have := down_pos_ge tr (swp a i (child tr a (2 * i + 1) n h1 hn) (by omega) (by omega))
          (child tr a (2 * i + 1) n h1 hn) n (by simpa using hn)
        omega
      · apply down_HO
        apply down_step tr a i n hn h1 h
        rw [P_eq a i (by omega), P_eq a _ (by omega)]
        omega
  · left
    simp only [h1, dite_false, true_and]
    refine ⟨?_, h.2⟩
    intro k hk hk0 hki
    exact h.1 k hk hk0 hki (by omega)

/-! ### positions -/

theorem indexOK_iff' (a : H) : IndexOK a ↔ ∀ (k : Nat) (e : E), a[k]? = some e → e.index = (k : Int) := by
  constructor
  · intro h k e hke
    obtain ⟨hk, rfl⟩ := Array.getElem?_eq_some_iff.1 hke
    exact h k hk
  · intro h k hk
    exact h k a[k] (Array.getElem?_eq_getElem hk)

theorem swp_index (a : H) (i j : Nat) (hi : i < a.size) (hj : j < a.size) (h : IndexOK a) :
    IndexOK (swp a i j hi hj) := by
  rw [indexOK_iff'] at *
  intro k e
  rw [getElem?_swp]
  split
  · rintro ⟨⟩; simp [*]
  · split
    · rintro ⟨⟩; simp [*]
    · exact h k e

theorem up_index (a : H) (j : Nat) (hj : j < a.size) (h : IndexOK a) : IndexOK (up a j hj) := by
  fun_induction up a j hj with
  | case1 => exact h
  | case2 => exact h
  | case3 a j hj h0 hlt ih => exact ih (swp_index _ _ _ _ _ h)

theorem down_index (tr : Bool) (a : H) (i n : Nat) (hn : n ≤ a.size) (h : IndexOK a) :
    IndexOK (down tr a i n hn).1 := by
  fun_induction down tr a i n hn with
  | case1 => exact h
  | case2 a i hn h1 hlt ih => exact ih (swp_index _ _ _ _ _ h)
  | case3 => exact h

/-! ### keys -/

theorem swp_keys (a : H) (i j : Nat) (hi : i < a.size) (hj : j < a.size) :
    (keys (swp a i j hi hj)).Perm (keys a) := by
  have e : (swp a i j hi hj).map key = (a.map key).swap i j (by simpa) (by simpa) := by
    simp [swp, Array.swap, Array.map_set, key]
  have := Array.swap_perm (xs := a.map key) (i := i) (j := j) (by simpa) (by simpa)
  rw [← e, Array.perm_iff_toList_perm] at this
  simpa [keys] using this

theorem up_keys (a : H) (j : Nat) (hj : j < a.size) : (keys (up a j hj)).Perm (keys a) := by
  fun_induction up a j hj with
  | case1 => exact List.Perm.refl _
  | case2 => exact List.Perm.refl _
  | case3 a j hj h0 hlt ih => exact ih.trans (swp_keys _ _ _ _ _)

theorem down_keys (tr : Bool) (a : H) (i n : Nat) (hn : n ≤ a.size) :
    (keys (down tr a i n hn).1).Perm (keys a) := by
  fun_induction down tr a i n hn with
  | case1 => exact List.Perm.refl _
  | case2 a i hn h1 hlt ih => exact ih.trans (swp_keys _ _ _ _ _)
  | case3 => exact List.Perm.refl _

theorem keys_pop (c : H) (hc : 0 < c.size) :
    (key c[c.size - 1] :: keys c.pop).Perm (keys c) := by
  have hne : c.toList ≠ [] := by
    intro h
    have : c.toList.length = 0 := by rw [h]; rfl
    rw [Array.length_toList] at this
    omega
  have e := List.dropLast_concat_getLast hne
  have e2 : c.toList.getLast hne = c[c.size - 1] := by
    rw [List.getLast_eq_getElem]
    simp
  unfold keys
  rw [Array.toList_pop]
  conv => rhs; rw [← e]
  rw [List.map_append, e2]
  exact (List.perm_append_comm (l₁ := [key c[c.size - 1]])).trans (List.Perm.refl _)

/-! ### `Swap(i, n-1)`, sift, then take the last: the common core of `Pop` and `Remove` -/

/-- what the array `c` handed to `takeLast` satisfies, relative to the original `a` -/
structure Core (a : H) (i : Nat) (hi : i < a.size) (c : H) : Prop where
  size : c.size = a.size
  idx : IndexOK a → IndexOK c
  ord : HeapOrd a → HO c (a.size - 1)
  perm : (keys c).Perm (keys a)
  last : ∃ e', c[a.size - 1]? = some e' ∧ key e' = key a[i]

theorem takeLast_core {a c : H} {i : Nat} {hi : i < a.size} (h : Core a i hi c)
    (hc : 0 < c.size) :
    (Inv a → Inv (takeLast c hc).1) ∧
      (key (takeLast c hc).2 :: keys (takeLast c hc).1).Perm (keys a) ∧
      key (takeLast c hc).2 = key a[i] ∧ (takeLast c hc).2.index = -1 := by
  unfold takeLast
  refine ⟨?_, ?_, ?_, rfl⟩
  · rintro ⟨h1, h2⟩
    constructor
    · rw [heapOrd_iff_HO]
      have := h.ord h1
      intro k hk hk0
      simp only [Array.size_pop, h.size] at hk
      have := this k hk hk0
      unfold P at *
      simp only [Array.size_pop, Array.getElem_pop]
      have e1 : k < c.size - 1 := by rw [h.size]; exact hk
      have e2 : (k - 1) / 2 < c.size - 1 := by omega
      have e3 : k < c.size := by omega
      have e4 : (k - 1) / 2 < c.size := by omega
      simp only [e1, e2, e3, e4, dite_true] at this ⊢
      exact this
    · have := h.idx h2
      intro k hk
      simp only [Array.getElem_pop]
      exact this k (by simp at hk; omega)
  · exact (keys_pop c hc).trans h.perm
  · obtain ⟨e', he, hk⟩ := h.last
    rw [← h.size] at he
    obtain ⟨_, rfl⟩ := Array.getElem?_eq_some_iff.1 he
    simpa [key] using hk

theorem core_last (a : H) (i : Nat) (hi : i < a.size) (hl : a.size - 1 = i) : Core a i hi a where
  size := rfl
  idx := id
  ord := fun h k hk hk0 => (heapOrd_iff_HO a).1 h k (by omega) hk0
  perm := List.Perm.refl _
  last := ⟨a[i], by subst hl; simp, rfl⟩

/-- the state right after `Swap(i, n-1)` -/
theorem swp_remInv (a : H) (i : Nat) (hi : i < a.size) (h : HeapOrd a) :
    RemInv (swp a i (a.size - 1) hi (by omega)) (a.size - 1) i := by
  rw [heapOrd_iff_HO] at h
  constructor
  · intro k hk hk0 hki hpi
    simp only [P_swp]
    have e1 : k ≠ a.size - 1 := by omega
    have e2 : (k - 1) / 2 ≠ a.size - 1 := by omega
    simp only [e1, e2, hki, hpi, if_false]
    exact h k (by omega) hk0
  · intro k hk hk0 hpi hi0
    simp only [P_swp]
    have e1 : k ≠ a.size - 1 := by omega
    have e2 : (i - 1) / 2 ≠ a.size - 1 := by omega
    have e3 : k ≠ i := by omega
    have e4 : (i - 1) / 2 ≠ i := by omega
    simp only [e1, e2, e3, e4, if_false]
    have h1 := h k (by omega) hk0
    have h2 := h i hi hi0
    rw [hpi] at h1
    omega

theorem swp_last (a : H) (i : Nat) (hi : i < a.size) :
    ∃ e', (swp a i (a.size - 1) hi (by omega))[a.size - 1]? = some e' ∧ key e' = key a[i] := by
  refine ⟨{ a[i] with index := ((a.size - 1 : Nat) : Int) }, ?_, rfl⟩
  rw [getElem?_swp]
  simp

/-- `Swap(i, n-1); down(i, n-1)` keeping the sifted array when the element moved, else `up(i)`
(this covers `remove2`, and `remove1` because `up` on a heap is harmless) -/
theorem core_down_up (tr : Bool) (a : H) (i : Nat) (hi : i < a.size) (hl : ¬ a.size - 1 = i)
    (hb : i < (down tr (swp a i (a.size - 1) hi (by omega)) i (a.size - 1) (by simp)).1.size) :
    Core a i hi
      (up (down tr (swp a i (a.size - 1) hi (by omega)) i (a.size - 1) (by simp)).1 i hb) := by
  have hin : i < a.size - 1 := by omega
  refine ⟨?_, ?_, ?_, ?_, ?_⟩
  · rw [up_size, down_size, size_swp]
  · intro h
    exact up_index _ _ _ (down_index _ _ _ _ _ (swp_index _ _ _ _ _ h))
  · intro h
    have hsz := down_size tr (swp a i (a.size - 1) hi (by omega)) i (a.size - 1) (by simp)
    apply up_HO _ _ _ _ hin (by rw [hsz]; simp)
    rcases down_rem tr _ i (a.size - 1) (by simp) (swp_remInv a i hi h) with ⟨e, hu⟩ | ⟨_, ho⟩
    · rw [e]; exact hu
    · exact ho.upInv i hin
  · exact (up_keys _ _ _).trans ((down_keys _ _ _ _ _).trans (swp_keys _ _ _ _ _))
  · rw [up_getElem?_gt _ _ _ _ hin, down_getElem?_ge _ _ _ _ _ hin _ (Nat.le_refl _)]
    exact swp_last a i hi

/-- `Swap(i, n-1); down(i, n-1)` without `up`: fine when the element moved (`remove2`), and
for `i = 0` (`pop1`) -/
theorem core_down (tr : Bool) (a : H) (i : Nat) (hi : i < a.size)
    (hm : i = 0 ∨
      i < (down tr (swp a i (a.size - 1) hi (by omega)) i (a.size - 1) (by simp)).2) :
    Core a i hi (down tr (swp a i (a.size - 1) hi (by omega)) i (a.size - 1) (by simp)).1 := by
  refine ⟨?_, ?_, ?_, ?_, ?_⟩
  · rw [down_size, size_swp]
  · intro h
    exact down_index _ _ _ _ _ (swp_index _ _ _ _ _ h)
  · intro h
    have hr := swp_remInv a i hi h
    rcases hm with h0 | hm
    · subst h0
      apply down_HO
      exact ⟨fun k hk hk0 hp => hr.1 k hk hk0 (by omega) hp, hr.2⟩
    · rcases down_rem tr _ i (a.size - 1) (by simp) hr with ⟨e, _⟩ | ⟨_, ho⟩
      · rw [e] at hm; simp at hm
      · exact ho
  · exact (down_keys _ _ _ _ _).trans (swp_keys _ _ _ _ _)
  · by_cases hin : i < a.size - 1
    · rw [down_getElem?_ge _ _ _ _ _ hin _ (Nat.le_refl _)]
      exact swp_last a i hi
    · have : down tr (swp a i (a.size - 1) hi (by omega)) i (a.size - 1) (by simp) =
          (swp a i (a.size - 1) hi (by omega), i) := by
        unfold down
        have : ¬ 2 * i + 1 < a.size - 1 := by omega
        simp [this]
      rw [this]
      exact swp_last a i hi

/-! ### Push -/

theorem push_size (a : H) (id : Nat) (pri : Int) : (push a id pri).size = a.size + 1 := by
  unfold push
  rw [up_size]
  simp

theorem P_push_lt (a : H) (x : E) (k : Nat) (hk : k < a.size) : P (a.push x) k = P a k := by
  unfold P
  have : k < a.size + 1 := by omega
  simp [hk, this, Array.getElem_push]

theorem push_inv (a : H) (id : Nat) (pri : Int) (h : Inv a) : Inv (push a id pri) := by
  obtain ⟨h1, h2⟩ := h
  unfold push
  constructor
  · rw [heapOrd_iff_HO, up_size]
    apply up_HO _ _ _ _ (by simp) (Nat.le_refl _)
    rw [heapOrd_iff_HO] at h1
    constructor
    · intro k hk hk0 hka
      simp only [Array.size_push] at hk
      rw [P_push_lt _ _ _ (by omega), P_push_lt _ _ _ (by omega)]
      exact h1 k (by omega) hk0
    · intro k hk hk0 hp h0
      simp only [Array.size_push] at hk
      omega
  · apply up_index
    intro k hk
    simp only [Array.getElem_push]
    split
    · exact h2 k (by assumption)
    · simp only [Array.size_push] at hk
      have : k = a.size := by omega
      simp [this]

theorem push_keys (a : H) (id : Nat) (pri : Int) :
    (keys (push a id pri)).Perm ((id, pri) :: keys a) := by
  unfold push
  refine (up_keys _ _ _).trans ?_
  unfold keys
  simp only [Array.toList_push, List.map_append, List.map_cons, List.map_nil]
  exact List.perm_append_comm

/-! ### Pop / Remove -/

theorem pop1_eq (a : H) (h : 0 < a.size) :
    ∃ c hc, Core a 0 h c ∧ pop1 a = some (takeLast c hc) := by
  have hs := down_size true (swp a 0 (a.size - 1) h (by omega)) 0 (a.size - 1) (by simp)
  refine ⟨_, ?_, core_down true a 0 h (Or.inl rfl), ?_⟩
  · rw [hs]; simpa using h
  · simp [pop1, h]

theorem remove1_eq (a : H) (i : Nat) (h : i < a.size) :
    ∃ c hc, Core a i h c ∧ remove1 a i = some (takeLast c hc) := by
  by_cases hl : a.size - 1 = i
  · exact ⟨a, by omega, core_last a i h hl, by simp [remove1, h, hl]⟩
  · have hs := down_size true (swp a i (a.size - 1) h (by omega)) i (a.size - 1) (by simp)
    refine ⟨_, ?_, core_down_up true a i h hl (by rw [hs]; simpa using h), ?_⟩
    · rw [up_size, hs]; simp; omega
    · simp [remove1, h, hl]

theorem remove2_eq (a : H) (i : Nat) (h : i < a.size) :
    ∃ c hc, Core a i h c ∧ remove2 a i = some (takeLast c hc) := by
  by_cases hl : a.size - 1 = i
  · exact ⟨a, by omega, core_last a i h hl, by simp [remove2, h, hl]⟩
  · have hs := down_size false (swp a i (a.size - 1) h (by omega)) i (a.size - 1) (by simp)
    by_cases hm : i < (down false (swp a i (a.size - 1) h (by omega)) i (a.size - 1) (by simp)).2
    · refine ⟨_, ?_, core_down false a i h (Or.inr hm), ?_⟩
      · rw [hs]; simp; omega
      · simp [remove2, h, hl, hm]
    · refine ⟨_, ?_, core_down_up false a i h hl (by rw [hs]; simpa using h), ?_⟩
      · rw [up_size, hs]; simp; omega
      · simp [remove2, h, hl, hm]

theorem pop1_pos {a : H} {r : H × E} (hp : pop1 a = some r) : 0 < a.size := by
  unfold pop1 at hp
  split at hp
  · assumption
  · cases hp

theorem remove1_lt {a : H} {i : Nat} {r : H × E} (hp : remove1 a i = some r) : i < a.size := by
  unfold remove1 at hp
  split at hp
  · assumption
  · cases hp

theorem remove2_lt {a : H} {i : Nat} {r : H × E} (hp : remove2 a i = some r) : i < a.size := by
  unfold remove2 at hp
  split at hp
  · assumption
  · cases hp

theorem pop1_some (a : H) (h : 0 < a.size) : ∃ b e, pop1 a = some (b, e) := by
  obtain ⟨c, hc, _, e⟩ := pop1_eq a h
  exact ⟨_, _, e⟩

theorem remove1_some (a : H) (i : Nat) (h : i < a.size) : ∃ b e, remove1 a i = some (b, e) := by
  obtain ⟨c, hc, _, e⟩ := remove1_eq a i h
  exact ⟨_, _, e⟩

theorem remove2_some (a : H) (i : Nat) (h : i < a.size) : ∃ b e, remove2 a i = some (b, e) := by
  obtain ⟨c, hc, _, e⟩ := remove2_eq a i h
  exact ⟨_, _, e⟩

theorem pop1_inv {a b : H} {e : E} (h : Inv a) (hp : pop1 a = some (b, e)) : Inv b := by
  obtain ⟨c, hc, hcore, e'⟩ := pop1_eq a (pop1_pos hp)
  rw [e'] at hp
  have := (takeLast_core hcore hc).1 h
  simp only [Option.some.injEq] at hp
  rw [hp] at this
  exact this

theorem pop1_keys {a b : H} {e : E} (hp : pop1 a = some (b, e)) :
    (key e :: keys b).Perm (keys a) ∧ ∃ h0 : 0 < a.size, key e = key a[0] ∧ e.index = -1 := by
  have h0 := pop1_pos hp
  obtain ⟨c, hc, hcore, e'⟩ := pop1_eq a h0
  rw [e'] at hp
  have := (takeLast_core hcore hc).2
  simp only [Option.some.injEq] at hp
  rw [hp] at this
  exact ⟨this.1, h0, this.2⟩

theorem remove1_inv {a b : H} {e : E} {i : Nat} (h : Inv a) (hp : remove1 a i = some (b, e)) :
    Inv b := by
  obtain ⟨c, hc, hcore, e'⟩ := remove1_eq a i (remove1_lt hp)
  rw [e'] at hp
  have := (takeLast_core hcore hc).1 h
  simp only [Option.some.injEq] at hp
  rw [hp] at this
  exact this

theorem remove1_keys {a b : H} {e : E} {i : Nat} (hp : remove1 a i = some (b, e)) :
    (key e :: keys b).Perm (keys a) ∧ ∃ hi : i < a.size, key e = key a[i] ∧ e.index = -1 := by
  have hi := remove1_lt hp
  obtain ⟨c, hc, hcore, e'⟩ := remove1_eq a i hi
  rw [e'] at hp
  have := (takeLast_core hcore hc).2
  simp only [Option.some.injEq] at hp
  rw [hp] at this
  exact ⟨this.1, hi, this.2⟩

theorem remove2_inv {a b : H} {e : E} {i : Nat} (h : Inv a) (hp : remove2 a i = some (b, e)) :
    Inv b := by
  obtain ⟨c, hc, hcore, e'⟩ := remove2_eq a i (remove2_lt hp)
  rw [e'] at hp
  have := (takeLast_core hcore hc).1 h
  simp only [Option.some.injEq] at hp
  rw [hp] at this
  exact this

theorem remove2_keys {a b : H} {e : E} {i : Nat} (hp : remove2 a i = some (b, e)) :
    (key e :: keys b).Perm (keys a) ∧ ∃ hi : i < a.size, key e = key a[i] ∧ e.index = -1 := by
  have hi := remove2_lt hp
  obtain ⟨c, hc, hcore, e'⟩ := remove2_eq a i hi
  rw [e'] at hp
  have := (takeLast_core hcore hc).2
  simp only [Option.some.injEq] at hp
  rw [hp] at this
  exact ⟨this.1, hi, this.2⟩

/-- the popped element is the old root (no invariant needed) -/
theorem pop1_root {a b : H} {e : E} (hp : pop1 a = some (b, e)) :
    ∃ h0 : 0 < a.size, e.pri = a[0].pri ∧ e.id = a[0].id := by
  obtain ⟨_, h0, hk, _⟩ := pop1_keys hp
  simp only [key, Prod.mk.injEq] at hk
  exact ⟨h0, hk.2, hk.1⟩

/-! ### PeekAndShift -/

theorem peekAndShift1_eq {a b : H} {e : E} {t : Int} (hp : peekAndShift1 a t = some (b, e)) :
    ∃ h0 : 0 < a.size, a[0].pri ≤ t ∧ pop1 a = some (b, e) := by
  unfold peekAndShift1 at hp
  split at hp
  · rename_i h0
    split at hp
    · cases hp
    · exact ⟨h0, by omega, hp⟩
  · cases hp

theorem peekAndShift2_eq {a b : H} {e : E} {t : Int} (hp : peekAndShift2 a t = some (b, e)) :
    ∃ h0 : 0 < a.size, a[0].pri ≤ t ∧ remove2 a 0 = some (b, e) := by
  unfold peekAndShift2 at hp
  split at hp
  · rename_i h0
    split at hp
    · cases hp
    · exact ⟨h0, by omega, hp⟩
  · cases hp

theorem peekAndShift1_inv {a b : H} {e : E} {t : Int} (h : Inv a)
    (hp : peekAndShift1 a t = some (b, e)) : Inv b := by
  obtain ⟨_, _, hp'⟩ := peekAndShift1_eq hp
  exact pop1_inv h hp'

theorem peekAndShift2_inv {a b : H} {e : E} {t : Int} (h : Inv a)
    (hp : peekAndShift2 a t = some (b, e)) : Inv b := by
  obtain ⟨_, _, hp'⟩ := peekAndShift2_eq hp
  exact remove2_inv h hp'

theorem peekAndShift1_some_iff (a : H) (t : Int) :
    (∃ b e, peekAndShift1 a t = some (b, e)) ↔ ∃ h : 0 < a.size, a[0].pri ≤ t := by
  constructor
  · rintro ⟨b, e, hp⟩
    obtain ⟨h0, hle, _⟩ := peekAndShift1_eq hp
    exact ⟨h0, hle⟩
  · rintro ⟨h0, hle⟩
    have : ¬ a[0].pri > t := by omega
    simp only [peekAndShift1, h0, dite_true, this, if_false]
    exact pop1_some a h0

theorem peekAndShift2_some_iff (a : H) (t : Int) :
    (∃ b e, peekAndShift2 a t = some (b, e)) ↔ ∃ h : 0 < a.size, a[0].pri ≤ t := by
  constructor
  · rintro ⟨b, e, hp⟩
    obtain ⟨h0, hle, _⟩ := peekAndShift2_eq hp
    exact ⟨h0, hle⟩
  · rintro ⟨h0, hle⟩
    have : ¬ a[0].pri > t := by omega
    simp only [peekAndShift2, h0, dite_true, this, if_false]
    exact remove2_some a 0 h0

theorem peekAndShift1_le {a b : H} {e : E} {t : Int} (hp : peekAndShift1 a t = some (b, e)) :
    e.pri ≤ t := by
  obtain ⟨h0, hle, hp'⟩ := peekAndShift1_eq hp
  obtain ⟨_, _, hk, _⟩ := pop1_keys hp'
  simp only [key, Prod.mk.injEq] at hk
  omega

theorem peekAndShift2_le {a b : H} {e : E} {t : Int} (hp : peekAndShift2 a t = some (b, e)) :
    e.pri ≤ t := by
  obtain ⟨h0, hle, hp'⟩ := peekAndShift2_eq hp
  obtain ⟨_, _, hk, _⟩ := remove2_keys hp'
  simp only [key, Prod.mk.injEq] at hk
  omega

/-- the key multiset after a `peekAndShift` that fired: the old root is gone, nothing else -/
theorem peekAndShift1_keys {a b : H} {e : E} {t : Int} (hp : peekAndShift1 a t = some (b, e)) :
    (key e :: keys b).Perm (keys a) ∧ ∃ h0 : 0 < a.size, key e = key a[0] ∧ e.index = -1 := by
  obtain ⟨_, _, hp'⟩ := peekAndShift1_eq hp
  exact pop1_keys hp'

theorem peekAndShift2_keys {a b : H} {e : E} {t : Int} (hp : peekAndShift2 a t = some (b, e)) :
    (key e :: keys b).Perm (keys a) ∧ ∃ h0 : 0 < a.size, key e = key a[0] ∧ e.index = -1 := by
  obtain ⟨_, _, hp'⟩ := peekAndShift2_eq hp
  exact remove2_keys hp'

end Nsq.Proofs.PQ
