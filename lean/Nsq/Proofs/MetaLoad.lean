import Nsq.Model.MetaLoad
/-! Helper lemmas for `Props/C06Load.lean`: the `LoadMetadata` loop keeps the maps well-formed on every
document, and on a document with unique valid names it is the idealised loader of `Model.Meta`. -/
namespace Nsq.Proofs.MetaLoad
open Nsq.Model.FS Nsq.Model.Meta Nsq.Model.MetaLoad

/-! ### modFirst -/

theorem modFirst_map {α γ : Type} (p : α → Bool) (f : α → α) (g : α → γ) (hg : ∀ x, g (f x) = g x)
    (l : List α) : (modFirst p f l).map g = l.map g := by
  induction l with
  | nil => rfl
  | cons x xs ih =>
    simp only [modFirst]
    split
    · simp [hg]
    · simp [ih]

theorem modFirst_forall {α : Type} (P : α → Prop) (p : α → Bool) (f : α → α) (l : List α)
    (hl : ∀ x ∈ l, P x) (hf : ∀ x, P x → P (f x)) : ∀ x ∈ modFirst p f l, P x := by
  induction l with
  | nil => intro x hx; simp [modFirst] at hx
  | cons y ys ih =>
    intro x hx
    simp only [modFirst] at hx
    split at hx
    · rcases List.mem_cons.mp hx with h | h
      · subst h; exact hf y (hl y (List.mem_cons_self ..))
      · exact hl x (List.mem_cons_of_mem _ h)
    · rcases List.mem_cons.mp hx with h | h
      · subst h; exact hl _ (List.mem_cons_self ..)
      · exact ih (fun z hz => hl z (List.mem_cons_of_mem _ hz)) x h

theorem modFirst_append_new {α : Type} (p : α → Bool) (f : α → α) (acc : List α) (y : α)
    (hacc : ∀ x ∈ acc, p x = false) (hy : p y = true) : modFirst p f (acc ++ [y]) = acc ++ [f y] := by
  induction acc with
  | nil => simp [modFirst, hy]
  | cons x xs ih =>
    have hx : p x = false := hacc x (List.mem_cons_self ..)
    simp only [List.cons_append, modFirst, hx]
    simp [ih (fun z hz => hacc z (List.mem_cons_of_mem _ hz))]

theorem nodup_append_new {γ : Type} (l : List γ) (c : γ) (h : l.Nodup) (hc : c ∉ l) : (l ++ [c]).Nodup := by
  rw [List.nodup_append]
  refine ⟨h, by simp, ?_⟩
  intro a ha b hb
  simp at hb; subst hb
  intro hab; subst hab; exact hc ha

/-! ### the channel loop -/

theorem ensureChan_wf (cs : List Chan) (c : String) (h : chansWF cs) (hv : validName c = true) :
    chansWF (ensureChan cs c) := by
  unfold ensureChan
  split
  · exact h
  · rename_i hany
    refine ⟨?_, ?_⟩
    · rw [List.map_append]
      apply nodup_append_new _ _ h.1
      intro hm
      apply hany
      obtain ⟨x, hx, hxe⟩ := List.mem_map.mp hm
      exact List.any_eq_true.mpr ⟨x, hx, by simp [hxe]⟩
    · intro x hx
      rcases List.mem_append.mp hx with h1 | h1
      · exact h.2 x h1
      · simp at h1; subst h1; simp [chanOK, hv]

theorem pauseChanNamed_wf (cs : List Chan) (c : String) (h : chansWF cs) : chansWF (pauseChanNamed cs c) := by
  unfold pauseChanNamed
  refine ⟨?_, ?_⟩
  · rw [modFirst_map (fun x => x.name == c) (fun x : Chan => { x with paused := true }) (·.name) (fun _ => rfl)]
    exact h.1
  · exact modFirst_forall (fun x => chanOK x = true) _ _ _ h.2 (fun x hx => by simpa [chanOK] using hx)

theorem loadChanEntry_wf (cs : List Chan) (c : ChanM) (h : chansWF cs) : chansWF (loadChanEntry cs c) := by
  unfold loadChanEntry
  split
  · rename_i hv
    split
    · exact pauseChanNamed_wf _ _ (ensureChan_wf _ _ h hv)
    · exact ensureChan_wf _ _ h hv
  · exact h

theorem loadChans_wf (l : List ChanM) : ∀ cs, chansWF cs → chansWF (l.foldl loadChanEntry cs) := by
  induction l with
  | nil => intro cs h; exact h
  | cons c rest ih => intro cs h; exact ih _ (loadChanEntry_wf cs c h)

/-! ### the topic loop -/

theorem modTopic_wf (m : Mem) (t : String) (f : Topic → Topic) (h : WF m) (hn : ∀ x, (f x).name = x.name)
    (hf : ∀ x, topicOK x → topicOK (f x)) : WF (modTopic m t f) := by
  unfold modTopic
  refine ⟨?_, ?_⟩
  · rw [modFirst_map (fun x => x.name == t) f (·.name) hn]; exact h.1
  · exact modFirst_forall topicOK _ _ _ h.2 hf

theorem ensureTopic_wf (m : Mem) (t : String) (h : WF m) (hv : validName t = true) : WF (ensureTopic m t) := by
  unfold ensureTopic
  split
  · exact h
  · rename_i hany
    refine ⟨?_, ?_⟩
    · rw [List.map_append]
      apply nodup_append_new _ _ h.1
      intro hm
      apply hany
      obtain ⟨x, hx, hxe⟩ := List.mem_map.mp hm
      exact List.any_eq_true.mpr ⟨x, hx, by simp [hxe]⟩
    · intro x hx
      rcases List.mem_append.mp hx with h1 | h1
      · exact h.2 x h1
      · simp at h1; subst h1
        exact ⟨hv, rfl, rfl, by simp [chansWF]⟩

theorem loadTopicEntry_wf (m : Mem) (t : TopicM) (h : WF m) : WF (loadTopicEntry m t) := by
  unfold loadTopicEntry
  split
  · rename_i hv
    apply modTopic_wf
    · split
      · exact modTopic_wf _ _ _ (ensureTopic_wf _ _ h hv) (fun _ => rfl) (fun x hx => hx)
      · exact ensureTopic_wf _ _ h hv
    · intro x; rfl
    · intro x hx
      exact ⟨hx.1, hx.2.1, hx.2.2.1, loadChans_wf _ _ hx.2.2.2⟩
  · exact h

theorem foldl_wf (d : Doc) : ∀ m, WF m → WF (d.foldl loadTopicEntry m) := by
  induction d with
  | nil => intro m h; exact h
  | cons t rest ih => intro m h; exact ih _ (loadTopicEntry_wf m t h)

theorem wf_nil : WF [] := ⟨by simp, by simp⟩

/-! ### on a document with unique valid names the loop is the idealised loader -/

theorem loadChans_good (l : List ChanM) : ∀ acc : List Chan,
    (∀ c ∈ l, ∀ x ∈ acc, (x.name == c.name) = false) → chansGood l →
    l.foldl loadChanEntry acc = acc ++ l.map loadChanE := by
  induction l with
  | nil => intro acc _ _; simp
  | cons c rest ih =>
    intro acc hdis hg
    have hv : validName c.name = true := hg.2 c (List.mem_cons_self ..)
    have hnd := hg.1
    simp only [List.map_cons, List.nodup_cons] at hnd
    have hany : acc.any (fun x => x.name == c.name) = false := by
      rw [List.any_eq_false]
      intro x hx
      simpa using hdis c (List.mem_cons_self ..) x hx
    have hstep : loadChanEntry acc c = acc ++ [loadChanE c] := by
      unfold loadChanEntry
      simp only [hv, if_true]
      have he : ensureChan acc c.name = acc ++ [⟨c.name, false, ephName c.name, false⟩] := by
        simp [ensureChan, hany]
      rw [he]
      by_cases hp : c.paused = true
      · simp only [hp, if_true, pauseChanNamed]
        rw [modFirst_append_new _ _ _ _ (fun x hx => hdis c (List.mem_cons_self ..) x hx) (by simp)]
        simp [loadChanE, hp]
      · have hp' : c.paused = false := by simpa using hp
        simp [hp', loadChanE]
    simp only [List.foldl_cons, hstep]
    rw [ih (acc ++ [loadChanE c]) ?_ ⟨hnd.2, fun x hx => hg.2 x (List.mem_cons_of_mem _ hx)⟩]
    · simp
    · intro c' hc' x hx
      rcases List.mem_append.mp hx with h1 | h1
      · exact hdis c' (List.mem_cons_of_mem _ hc') x h1
      · simp at h1; subst h1
        simp only [loadChanE, beq_eq_false_iff_ne, ne_eq]
        intro heq
        exact hnd.1 (List.mem_map.mpr ⟨c', hc', heq.symm⟩)

theorem loadTopics_good (d : Doc) : ∀ acc : Mem,
    (∀ t ∈ d, ∀ x ∈ acc, (x.name == t.name) = false) → DocGood d →
    d.foldl loadTopicEntry acc = acc ++ d.map loadTopicE := by
  induction d with
  | nil => intro acc _ _; simp
  | cons t rest ih =>
    intro acc hdis hg
    have hv : validName t.name = true := (hg.2 t (List.mem_cons_self ..)).1
    have hcg : chansGood t.chans := (hg.2 t (List.mem_cons_self ..)).2
    have hnd := hg.1
    simp only [List.map_cons, List.nodup_cons] at hnd
    have hacc : ∀ x ∈ acc, (x.name == t.name) = false := fun x hx => hdis t (List.mem_cons_self ..) x hx
    have hany : hasTopic acc t.name = false := by
      unfold hasTopic
      rw [List.any_eq_false]
      intro x hx
      simpa using hacc x hx
    have hch : t.chans.foldl loadChanEntry [] = t.chans.map loadChanE := by
      simpa using loadChans_good t.chans [] (by simp) hcg
    have hstep : loadTopicEntry acc t = acc ++ [loadTopicE t] := by
      unfold loadTopicEntry
      simp only [hv, if_true]
      have he : ensureTopic acc t.name = acc ++ [⟨t.name, false, ephName t.name, false, []⟩] := by
        simp [ensureTopic, hany]
      rw [he]
      by_cases hp : t.paused = true
      · simp only [hp, if_true, modTopic]
        rw [modFirst_append_new _ _ _ _ hacc (by simp)]
        rw [modFirst_append_new _ _ _ _ hacc (by simp)]
        simp [loadTopicE, hp, hch]
      · have hp' : t.paused = false := by simpa using hp
        simp only [hp', modTopic]
        rw [show (if false = true then _ else acc ++ [(⟨t.name, false, ephName t.name, false, []⟩ : Topic)]) =
              acc ++ [⟨t.name, false, ephName t.name, false, []⟩] from by simp]
        rw [modFirst_append_new _ _ _ _ hacc (by simp)]
        simp [loadTopicE, hp', hch]
    simp only [List.foldl_cons, hstep]
    rw [ih (acc ++ [loadTopicE t]) ?_ ⟨hnd.2, fun x hx => hg.2 x (List.mem_cons_of_mem _ hx)⟩]
    · simp
    · intro t' ht' x hx
      rcases List.mem_append.mp hx with h1 | h1
      · exact hdis t' (List.mem_cons_of_mem _ ht') x h1
      · simp at h1; subst h1
        simp only [loadTopicE, beq_eq_false_iff_ne, ne_eq]
        intro heq
        exact hnd.1 (List.mem_map.mpr ⟨t', ht', heq.symm⟩)

theorem loadRaw_good (d : Doc) (h : DocGood d) : loadRaw d = d.map loadTopicE := by
  simpa [loadRaw] using loadTopics_good d [] (by simp) h

theorem loadE_eq_load (d : Doc) (h : ∀ t ∈ d, ephName t.name = false ∧ ∀ c ∈ t.chans, ephName c.name = false) :
    d.map loadTopicE = loadDoc d := by
  unfold loadDoc
  apply List.map_congr_left
  intro t ht
  obtain ⟨h1, h2⟩ := h t ht
  have : t.chans.map loadChanE = t.chans.map loadChan :=
    List.map_congr_left (fun c hc => by simp [loadChanE, loadChan, h2 c hc])
  simp [loadTopicE, loadTopic, h1, this]

/-! ### snapshots of well-formed maps -/

theorem snap_persist (m : Mem) (h : WF m) : DocPersist (snap m) := by
  have hsub : ∀ t : Topic, (((t.chans.filter (fun c => !c.eph)).map snapChan).map (·.name)).Sublist
      (t.chans.map (·.name)) := by
    intro t
    rw [List.map_map]
    exact (List.filter_sublist (l := t.chans)).map _
  refine ⟨⟨?_, ?_⟩, ?_⟩
  · have : (snap m).map (·.name) = (m.filter (fun t => !t.eph)).map (·.name) := by
      simp [snap, List.map_map, Function.comp_def, snapTopic]
    rw [this]
    exact List.Pairwise.sublist ((List.filter_sublist (l := m)).map _) h.1
  · intro e he
    simp only [snap, List.mem_map, List.mem_filter] at he
    obtain ⟨t, ⟨ht, _⟩, rfl⟩ := he
    have hok := h.2 t ht
    refine ⟨hok.1, ?_, ?_⟩
    · exact List.Pairwise.sublist (hsub t) hok.2.2.2.1
    · intro c hc
      simp only [snapTopic, List.mem_map, List.mem_filter] at hc
      obtain ⟨x, ⟨hx, _⟩, rfl⟩ := hc
      have := hok.2.2.2.2 x hx
      simp only [chanOK, Bool.and_eq_true] at this
      exact this.1.1
  · intro e he
    simp only [snap, List.mem_map, List.mem_filter] at he
    obtain ⟨t, ⟨ht, hne⟩, rfl⟩ := he
    have hok := h.2 t ht
    refine ⟨?_, ?_⟩
    · show ephName t.name = false
      rw [← hok.2.1]; simpa using hne
    · intro c hc
      simp only [snapTopic, List.mem_map, List.mem_filter] at hc
      obtain ⟨x, ⟨hx, hxe⟩, rfl⟩ := hc
      have := hok.2.2.2.2 x hx
      simp only [chanOK, Bool.and_eq_true, beq_iff_eq] at this
      show ephName x.name = false
      rw [← this.1.2]; simpa using hxe

theorem loadDoc_snap (m : Mem) (h : WF m) : loadDoc (snap m) = stripEph m := by
  unfold loadDoc snap stripEph
  rw [List.map_map]
  apply List.map_congr_left
  intro t ht
  simp only [List.mem_filter] at ht
  have hok := h.2 t ht.1
  have hch : ((t.chans.filter (fun c => !c.eph)).map snapChan).map loadChan = t.chans.filter (fun c => !c.eph) := by
    rw [List.map_map]
    conv => rhs; rw [← List.map_id (t.chans.filter (fun c => !c.eph))]
    apply List.map_congr_left
    intro c hc
    simp only [List.mem_filter] at hc
    have := hok.2.2.2.2 c hc.1
    simp only [chanOK, Bool.and_eq_true, beq_iff_eq] at this
    cases c with
    | mk n p e x =>
      simp only [Function.comp, loadChan, snapChan, id]
      have h1 : e = false := by simpa using hc.2
      have h2 : x = false := by simpa using this.2
      simp [h1, h2]
  cases t with
  | mk n p e x cs =>
    have h1 : e = false := by simpa using ht.2
    have h2 : x = false := hok.2.2.1
    simp only [Function.comp, loadTopic, snapTopic] at hch ⊢
    simp [h1, h2, hch]

/-! ### which topics exist after the load -/

theorem names_modTopic (m : Mem) (t : String) (f : Topic → Topic) (hn : ∀ x, (f x).name = x.name) :
    (modTopic m t f).map (·.name) = m.map (·.name) := by
  unfold modTopic
  exact modFirst_map (fun x => x.name == t) f (·.name) hn m

theorem mem_names_ensureTopic (m : Mem) (n t : String) :
    t ∈ (ensureTopic m n).map (·.name) ↔ t ∈ m.map (·.name) ∨ t = n := by
  unfold ensureTopic
  split
  · rename_i h
    constructor
    · intro ht; exact Or.inl ht
    · rintro (ht | ht)
      · exact ht
      · subst ht
        obtain ⟨x, hx, hxe⟩ := List.any_eq_true.mp h
        exact List.mem_map.mpr ⟨x, hx, by simpa using hxe⟩
  · simp

theorem names_loadTopicEntry (m : Mem) (e : TopicM) :
    (loadTopicEntry m e).map (·.name) = (if validName e.name then ensureTopic m e.name else m).map (·.name) := by
  unfold loadTopicEntry
  split
  · refine (names_modTopic _ _ _ (by intro x; rfl)).trans ?_
    split
    · exact names_modTopic _ _ _ (by intro x; rfl)
    · rfl
  · rfl

theorem mem_names_foldl (d : Doc) : ∀ (m : Mem) (t : String),
    t ∈ (d.foldl loadTopicEntry m).map (·.name) ↔
      t ∈ m.map (·.name) ∨ ∃ e ∈ d, e.name = t ∧ validName t = true := by
  induction d with
  | nil => intro m t; simp
  | cons e rest ih =>
    intro m t
    rw [List.foldl_cons, ih, names_loadTopicEntry]
    by_cases hv : validName e.name = true
    · simp only [hv, if_true, mem_names_ensureTopic]
      constructor
      · rintro ((h | h) | ⟨x, hx, hxe⟩)
        · exact Or.inl h
        · exact Or.inr ⟨e, List.mem_cons_self .., h.symm, h ▸ hv⟩
        · exact Or.inr ⟨x, List.mem_cons_of_mem _ hx, hxe⟩
      · rintro (h | ⟨x, hx, hxe⟩)
        · exact Or.inl (Or.inl h)
        · rcases List.mem_cons.mp hx with h1 | h1
          · subst h1; exact Or.inl (Or.inr hxe.1.symm)
          · exact Or.inr ⟨x, h1, hxe⟩
    · simp only [hv]
      constructor
      · rintro (h | ⟨x, hx, hxe⟩)
        · exact Or.inl h
        · exact Or.inr ⟨x, List.mem_cons_of_mem _ hx, hxe⟩
      · rintro (h | ⟨x, hx, hxe⟩)
        · exact Or.inl h
        · rcases List.mem_cons.mp hx with h1 | h1
          · subst h1; exact absurd (hxe.1 ▸ hxe.2) hv
          · exact Or.inr ⟨x, h1, hxe⟩

/-! ### a pause is never undone by a later entry -/

theorem modFirst_exists {α : Type} (P : α → Prop) (p : α → Bool) (f : α → α) (hf : ∀ x, P x → P (f x)) :
    ∀ l : List α, (∃ x ∈ l, P x) → ∃ x ∈ modFirst p f l, P x := by
  intro l
  induction l with
  | nil => intro h; simpa using h
  | cons y ys ih =>
    rintro ⟨x, hx, hP⟩
    simp only [modFirst]
    rcases List.mem_cons.mp hx with h | h
    · subst h
      split
      · exact ⟨f x, List.mem_cons_self .., hf x hP⟩
      · exact ⟨x, List.mem_cons_self .., hP⟩
    · split
      · exact ⟨x, List.mem_cons_of_mem _ h, hP⟩
      · obtain ⟨z, hz, hPz⟩ := ih ⟨x, h, hP⟩
        exact ⟨z, List.mem_cons_of_mem _ hz, hPz⟩

def PausedTopic (t : String) (x : Topic) : Prop := x.name = t ∧ x.paused = true

theorem loadTopicEntry_keeps_pause (m : Mem) (e : TopicM) (t : String) (h : ∃ x ∈ m, PausedTopic t x) :
    ∃ x ∈ loadTopicEntry m e, PausedTopic t x := by
  have he : ∃ x ∈ ensureTopic m e.name, PausedTopic t x := by
    obtain ⟨x, hx, hP⟩ := h
    unfold ensureTopic
    split
    · exact ⟨x, hx, hP⟩
    · exact ⟨x, List.mem_append_left _ hx, hP⟩
  unfold loadTopicEntry
  split
  · apply modFirst_exists (PausedTopic t) _ _ (by intro x hx; exact hx)
    split
    · exact modFirst_exists (PausedTopic t) _ _ (by intro x hx; exact ⟨hx.1, rfl⟩) _ he
    · exact he
  · exact h

theorem foldl_keeps_pause (d : Doc) (t : String) : ∀ m : Mem, (∃ x ∈ m, PausedTopic t x) →
    ∃ x ∈ d.foldl loadTopicEntry m, PausedTopic t x := by
  induction d with
  | nil => intro m h; exact h
  | cons e rest ih => intro m h; exact ih _ (loadTopicEntry_keeps_pause m e t h)

end Nsq.Proofs.MetaLoad
