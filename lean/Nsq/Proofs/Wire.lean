import Nsq.Model.Wire
/-! C07: machine-checked facts about the byte formats of `Nsq.Model.Wire`. -/
namespace Nsq.Proofs.Wire
open Nsq.Model.Wire

/-! ### 1. big endian -/

theorem beBytes_length (w v : Nat) : (beBytes w v).length = w := by
  induction w generalizing v with
  | zero => simp [beBytes]
  | succ w ih => simp [beBytes, ih]

theorem foldl_be (b : Bytes) (acc : Nat) :
    b.foldl (fun acc x => acc * 256 + x.toNat) acc = acc * 256 ^ b.length + beVal b := by
  induction b generalizing acc with
  | nil => simp [beVal]
  | cons x b ih =>
    simp only [List.foldl_cons, beVal, List.length_cons]
    rw [ih, ih (0 * 256 + x.toNat)]
    simp only [Nat.zero_mul, Nat.zero_add, Nat.pow_succ, Nat.add_mul]
    rw [Nat.mul_assoc, Nat.mul_comm (256 ^ b.length) 256]
    omega

theorem beVal_append (a b : Bytes) : beVal (a ++ b) = beVal a * 256 ^ b.length + beVal b := by
  show List.foldl _ 0 (a ++ b) = _
  rw [List.foldl_append, foldl_be]
  rfl

theorem beVal_nil : beVal [] = 0 := rfl

theorem beVal_singleton (x : UInt8) : beVal [x] = x.toNat := by simp [beVal]

theorem rev_induction {α : Type} {P : List α → Prop} (h0 : P [])
    (h1 : ∀ l x, P l → P (l ++ [x])) (l : List α) : P l := by
  have : ∀ n (l : List α), l.length = n → P l := by
    intro n
    induction n with
    | zero => intro l hl; rw [List.length_eq_zero_iff.mp hl]; exact h0
    | succ n ih =>
      intro l hl
      have hne : l ≠ [] := by intro h; simp [h] at hl
      rw [← List.dropLast_concat_getLast hne]
      apply h1
      apply ih
      simp [hl]
  exact this _ l rfl

theorem beVal_lt (b : Bytes) : beVal b < 256 ^ b.length := by
  induction b using rev_induction with
  | h0 => simp [beVal]
  | h1 b x ih =>
    rw [beVal_append, beVal_singleton]
    simp only [List.length_append, List.length_cons, List.length_nil, Nat.pow_succ, Nat.pow_zero]
    have := x.toNat_lt
    omega

theorem beVal_beBytes (w v : Nat) : beVal (beBytes w v) = v % 256 ^ w := by
  induction w generalizing v with
  | zero => simp [beBytes, beVal, Nat.mod_one]
  | succ w ih =>
    simp only [beBytes]
    rw [beVal_append, beVal_singleton, ih]
    simp only [List.length_cons, List.length_nil, Nat.pow_succ, Nat.pow_zero]
    have h1 : (v % 256).toUInt8.toNat = v % 256 := by
      simp [Nat.toUInt8]
    rw [h1, Nat.mul_comm (256 ^ w) 256, Nat.mod_mul]
    omega

theorem beBytes_beVal (b : Bytes) : beBytes b.length (beVal b) = b := by
  induction b using rev_induction with
  | h0 => simp [beBytes]
  | h1 b x ih =>
    have hx := x.toNat_lt
    simp only [List.length_append, List.length_cons, List.length_nil, beBytes]
    rw [beVal_append, beVal_singleton]
    simp only [List.length_cons, List.length_nil, Nat.pow_succ, Nat.pow_zero, Nat.one_mul]
    have h1 : (beVal b * 256 + x.toNat) / 256 = beVal b := by omega
    have h2 : (beVal b * 256 + x.toNat) % 256 = x.toNat := by omega
    rw [h1, h2, ih]
    simp [Nat.toUInt8]

/-! ### 2. message envelope -/

theorem take_app {α} (a r : List α) (n : Nat) (h : a.length = n) : (a ++ r).take n = a :=
  List.take_left' h

theorem drop_app {α} (a r : List α) (n : Nat) (h : a.length = n) : (a ++ r).drop n = r :=
  List.drop_left' h

theorem encode_length (m : Msg) (hid : m.id.length = 16) :
    (encode m).length = 26 + m.body.length := by
  simp only [encode, List.length_append, beBytes_length, hid]

theorem decode_encode (m : Msg) (hid : m.id.length = 16) : decode (encode m) = some m := by
  have hl := encode_length m hid
  unfold decode
  rw [if_neg (by omega)]
  have e1 : encode m = beBytes 8 m.ts.toNat ++ (beBytes 2 m.attempts.toNat ++ (m.id ++ m.body)) := by
    simp [encode]
  have e2 : encode m = (beBytes 8 m.ts.toNat ++ beBytes 2 m.attempts.toNat) ++ (m.id ++ m.body) := by
    simp [encode]
  have e3 : encode m = (beBytes 8 m.ts.toNat ++ beBytes 2 m.attempts.toNat ++ m.id) ++ m.body := by
    simp [encode]
  have t8 : (encode m).take 8 = beBytes 8 m.ts.toNat := by
    rw [e1]; exact take_app _ _ _ (beBytes_length _ _)
  have d8 : (encode m).drop 8 = beBytes 2 m.attempts.toNat ++ (m.id ++ m.body) := by
    rw [e1]; exact drop_app _ _ _ (beBytes_length _ _)
  have d10 : (encode m).drop 10 = m.id ++ m.body := by
    rw [e2]; exact drop_app _ _ _ (by simp [beBytes_length])
  have d26 : (encode m).drop 26 = m.body := by
    rw [e3]; exact drop_app _ _ _ (by simp [beBytes_length, hid])
  rw [t8, d8, d10, d26, take_app _ _ _ (beBytes_length _ _), take_app _ _ _ hid,
    beVal_beBytes, beVal_beBytes]
  cases m with
  | mk ts att id body =>
    simp only [Option.some.injEq, Msg.mk.injEq, and_true]
    constructor
    · apply BitVec.eq_of_toNat_eq
      simp only [BitVec.toNat_ofNat]
      have := ts.isLt
      omega
    · apply BitVec.eq_of_toNat_eq
      simp only [BitVec.toNat_ofNat]
      have := att.isLt
      omega

theorem decode_short (b : Bytes) (h : b.length < 26) : decode b = none := by
  simp [decode, h]

theorem encode_decode (b : Bytes) (m : Msg) (h : decode b = some m) :
    encode m = b ∧ m.id.length = 16 := by
  unfold decode at h
  split at h
  · contradiction
  · rename_i hl
    simp only [Option.some.injEq] at h
    subst h
    have h8 : (b.take 8).length = 8 := by simp; omega
    have h2 : ((b.drop 8).take 2).length = 2 := by simp; omega
    have h16 : ((b.drop 10).take 16).length = 16 := by simp; omega
    refine ⟨?_, h16⟩
    simp only [encode, BitVec.toNat_ofNat]
    have l8 := beVal_lt (b.take 8)
    have l2 := beVal_lt ((b.drop 8).take 2)
    rw [h8] at l8
    rw [h2] at l2
    rw [Nat.mod_eq_of_lt (by omega), Nat.mod_eq_of_lt (by omega)]
    have r8 := beBytes_beVal (b.take 8)
    have r2 := beBytes_beVal ((b.drop 8).take 2)
    rw [h8] at r8
    rw [h2] at r2
    rw [r8, r2]
    have s1 : b.drop 10 = (b.drop 8).drop 2 := by simp
    have s2 : b.drop 26 = (b.drop 10).drop 16 := by simp
    rw [s2, List.append_assoc, List.append_assoc, List.take_append_drop, s1,
      List.take_append_drop, List.take_append_drop]

theorem encode_injective (m₁ m₂ : Msg) (h1 : m₁.id.length = 16) (h2 : m₂.id.length = 16)
    (h : encode m₁ = encode m₂) : m₁ = m₂ := by
  have a := decode_encode m₁ h1
  have b := decode_encode m₂ h2
  rw [h, b] at a
  exact (Option.some.inj a).symm

/-! ### 3. frames -/

theorem int32Of_small (n : Nat) (h : n < 2147483648) : int32Of n = (n : Int) := by
  simp [int32Of, h]

theorem int32Of_nonneg_iff (n : Nat) (h : n < 4294967296) : ¬ int32Of n < 0 ↔ n < 2147483648 := by
  unfold int32Of
  split <;> omega

theorem beVal_beBytes4 (v : Nat) (h : v < 4294967296) : beVal (beBytes 4 v) = v := by
  rw [beVal_beBytes]; omega

theorem readFrame_encode (f : Frame) (rest : Bytes) (h : f.data.length + 4 < 2147483648) :
    readFrame (encodeFrame f ++ rest) = some (f, rest) := by
  have e1 : encodeFrame f ++ rest =
      beBytes 4 (f.data.length + 4) ++ (beBytes 4 f.ftype.toNat ++ (f.data ++ rest)) := by
    simp [encodeFrame]
  have e2 : encodeFrame f ++ rest =
      (beBytes 4 (f.data.length + 4) ++ beBytes 4 f.ftype.toNat) ++ (f.data ++ rest) := by
    simp [encodeFrame]
  have t4 : (encodeFrame f ++ rest).take 4 = beBytes 4 (f.data.length + 4) := by
    rw [e1]; exact take_app _ _ _ (beBytes_length _ _)
  have d4 : (encodeFrame f ++ rest).drop 4 = beBytes 4 f.ftype.toNat ++ (f.data ++ rest) := by
    rw [e1]; exact drop_app _ _ _ (beBytes_length _ _)
  have d8 : (encodeFrame f ++ rest).drop 8 = f.data ++ rest := by
    rw [e2]; exact drop_app _ _ _ (by simp [beBytes_length])
  have dn : (encodeFrame f ++ rest).drop (4 + (f.data.length + 4)) = rest := by
    exact drop_app _ _ _ (by simp only [encodeFrame, List.length_append, beBytes_length]; omega)
  have hl : (encodeFrame f ++ rest).length = 8 + f.data.length + rest.length := by
    simp only [encodeFrame, List.length_append, beBytes_length]
  unfold readFrame
  rw [t4, d4, d8, beVal_beBytes4 _ (by omega), dn, int32Of_small _ h,
    take_app _ _ _ (beBytes_length _ _), beVal_beBytes4 _ f.ftype.isLt,
    take_app _ _ _ (by omega)]
  rw [if_neg (by omega), if_neg (by omega),
    if_neg (by simp only [List.length_append, beBytes_length]; omega), if_neg (by omega)]
  cases f with
  | mk t d =>
    simp only [Option.some.injEq, Prod.mk.injEq, Frame.mk.injEq, and_true]
    apply BitVec.eq_of_toNat_eq
    simp

theorem parseFrames_nil : parseFrames [] = some [] := by
  rw [parseFrames]; simp

theorem encodeFrame_ne_nil (f : Frame) : encodeFrame f ≠ [] := by
  intro h
  have := congrArg List.length h
  simp only [encodeFrame, List.length_append, beBytes_length, List.length_nil] at this
  omega

theorem parseFrames_cons (f : Frame) (rest : Bytes) (h : f.data.length + 4 < 2147483648) :
    parseFrames (encodeFrame f ++ rest) = (parseFrames rest).map (f :: ·) := by
  rw [parseFrames]
  have hne : (encodeFrame f ++ rest).isEmpty = false := by
    have := encodeFrame_ne_nil f
    cases hh : encodeFrame f with
    | nil => contradiction
    | cons a b => rfl
  rw [if_neg (by simp [hne])]
  split
  · rename_i h2; rw [readFrame_encode f rest h] at h2; contradiction
  · rename_i f' r' h2
    rw [readFrame_encode f rest h] at h2
    simp only [Option.some.injEq, Prod.mk.injEq] at h2
    rw [h2.1, h2.2]

theorem frame_stream_roundtrip (fs : List Frame) (h : ∀ f ∈ fs, f.data.length + 4 < 2147483648) :
    parseFrames (fs.map encodeFrame).flatten = some fs := by
  induction fs with
  | nil => simpa using parseFrames_nil
  | cons f fs ih =>
    simp only [List.map_cons, List.flatten_cons]
    rw [parseFrames_cons f _ (h f (by simp)), ih (fun g hg => h g (by simp [hg]))]
    rfl

theorem readFrame_sound (s r : Bytes) (f : Frame) (h : readFrame s = some (f, r)) :
    s = encodeFrame f ++ r := by
  unfold readFrame at h
  split at h; · contradiction
  split at h; · contradiction
  split at h; · contradiction
  split at h; · contradiction
  rename_i h4 hneg hlen hge
  simp only [Option.some.injEq, Prod.mk.injEq] at h
  obtain ⟨hf, hr⟩ := h
  subst hf hr
  have h44 : (s.take 4).length = 4 := by simp; omega
  have lt := beVal_lt (s.take 4)
  rw [h44] at lt
  have hn := (int32Of_nonneg_iff _ (by omega)).mp hneg
  simp only [List.length_drop] at hlen
  have ht4 : ((s.drop 4).take 4).length = 4 := by simp; omega
  have lt2 := beVal_lt ((s.drop 4).take 4)
  rw [ht4] at lt2
  have hd : ((s.drop 8).take (beVal (s.take 4) - 4)).length + 4 = beVal (s.take 4) := by
    simp only [List.length_take, List.length_drop]; omega
  simp only [encodeFrame, BitVec.toNat_ofNat]
  rw [hd, Nat.mod_eq_of_lt (by omega)]
  have r1 := beBytes_beVal (s.take 4)
  have r2 := beBytes_beVal ((s.drop 4).take 4)
  rw [h44] at r1
  rw [ht4] at r2
  rw [r1, r2]
  have s1 : s.drop 8 = (s.drop 4).drop 4 := by simp
  have s2 : s.drop (4 + beVal (s.take 4)) = (s.drop 8).drop (beVal (s.take 4) - 4) := by
    simp only [List.drop_drop]; congr 1; omega
  rw [s2, List.append_assoc, List.append_assoc, List.take_append_drop, s1,
    List.take_append_drop, List.take_append_drop]

theorem parseFrames_sound (s : Bytes) (fs : List Frame) (h : parseFrames s = some fs) :
    (fs.map encodeFrame).flatten = s := by
  induction hn : s.length using Nat.strongRecOn generalizing s fs with
  | _ n ih =>
    rw [parseFrames] at h
    split at h
    · rename_i he
      simp only [Option.some.injEq] at h
      subst h
      simp only [List.isEmpty_iff] at he
      simp [he]
    · split at h
      · contradiction
      · rename_i f r hr
        cases hp : parseFrames r with
        | none => rw [hp] at h; contradiction
        | some fs' =>
          rw [hp] at h
          simp only [Option.map_some, Option.some.injEq] at h
          subst h
          have hlt := readFrame_shorter hr
          have := ih r.length (by omega) r fs' hp rfl
          simp only [List.map_cons, List.flatten_cons]
          rw [this]
          exact (readFrame_sound s r f hr).symm

theorem message_frame_size (m : Msg) (hid : m.id.length = 16) (maxMsgSize : Nat)
    (hb : m.body.length ≤ maxMsgSize) (hmax : maxMsgSize + 30 < 2147483648) :
    (encode m).length + 4 < 2147483648 := by
  rw [encode_length m hid]; omega

/-! ### 4. MPUB -/

theorem readLen_beBytes (n : Nat) (r : Bytes) (h : n < 2147483648) :
    readLen (beBytes 4 n ++ r) = some ((n : Int), r) := by
  unfold readLen
  rw [take_app _ _ _ (beBytes_length _ _), drop_app _ _ _ (beBytes_length _ _),
    beVal_beBytes4 _ (by omega), int32Of_small _ h, if_neg]
  simp only [List.length_append, beBytes_length]; omega

theorem readLen_pos (s r : Bytes) (n : Int) (h : readLen s = some (n, r)) (hp : 0 < n) :
    s = beBytes 4 n.toNat ++ r ∧ n.toNat < 2147483648 := by
  unfold readLen at h
  split at h; · contradiction
  rename_i h4
  simp only [Option.some.injEq, Prod.mk.injEq] at h
  obtain ⟨hn, hr⟩ := h
  have h44 : (s.take 4).length = 4 := by simp; omega
  have lt := beVal_lt (s.take 4)
  rw [h44] at lt
  have r1 := beBytes_beVal (s.take 4)
  rw [h44] at r1
  have hv : n.toNat = beVal (s.take 4) ∧ beVal (s.take 4) < 2147483648 := by
    unfold int32Of at hn
    split at hn <;> omega
  rw [hv.1, r1, ← hr, List.take_append_drop]
  exact ⟨rfl, hv.2⟩

theorem mpubLoop_roundtrip (maxMsg : Int) (bs : List Bytes) (rest : Bytes) (acc : List Bytes)
    (hb : ∀ b ∈ bs, 0 < b.length ∧ (b.length : Int) ≤ maxMsg ∧ b.length < 2147483648) :
    mpubLoop maxMsg bs.length ((bs.map lp).flatten ++ rest) acc = .ok (acc ++ bs, rest) := by
  induction bs generalizing acc with
  | nil => simp [mpubLoop]
  | cons b bs ih =>
    obtain ⟨h0, h1, h2⟩ := hb b (by simp)
    have e : ((b :: bs).map lp).flatten ++ rest =
        beBytes 4 b.length ++ (b ++ ((bs.map lp).flatten ++ rest)) := by
      simp [lp]
    simp only [List.length_cons, mpubLoop]
    rw [e, readLen_beBytes _ _ h2]
    simp only [Int.toNat_natCast]
    rw [if_neg (by omega), if_neg (by omega),
      if_neg (by simp only [List.length_append]; omega),
      take_app _ _ _ rfl, drop_app _ _ _ rfl, ih _ (fun c hc => hb c (by simp [hc]))]
    simp

theorem mpub_roundtrip (bs : List Bytes) (rest : Bytes) (maxMsg maxBody : Int) (hne : bs ≠ [])
    (hb : ∀ b ∈ bs, 0 < b.length ∧ (b.length : Int) ≤ maxMsg ∧ b.length < 2147483648)
    (hc : (bs.length : Int) ≤ (maxBody - 4).tdiv 5) (hc31 : bs.length < 2147483648) :
    readMPUB (mpubBody bs ++ rest) maxMsg maxBody = .ok (bs, rest) := by
  have hpos : 0 < bs.length := List.length_pos_iff.mpr hne
  unfold readMPUB mpubBody
  rw [List.append_assoc, readLen_beBytes _ _ hc31]
  simp only [Int.toNat_natCast]
  rw [if_neg (by simp only [Bool.or_eq_true, decide_eq_true_eq]; omega),
    mpubLoop_roundtrip maxMsg bs rest [] hb]
  simp

theorem mpubLoop_sound (maxMsg : Int) (k : Nat) (s : Bytes) (acc bs : List Bytes) (rest : Bytes)
    (h : mpubLoop maxMsg k s acc = .ok (bs, rest)) :
    ∃ new, bs = acc ++ new ∧ new.length = k ∧ s = (new.map lp).flatten ++ rest ∧
      ∀ b ∈ new, 0 < b.length ∧ (b.length : Int) ≤ maxMsg := by
  induction k generalizing s acc with
  | zero =>
    simp only [mpubLoop, Except.ok.injEq, Prod.mk.injEq] at h
    exact ⟨[], by simp [h.1, h.2]⟩
  | succ k ih =>
    simp only [mpubLoop] at h
    split at h; · contradiction
    rename_i sz r hrl
    split at h; · contradiction
    split at h; · contradiction
    split at h; · contradiction
    rename_i hsz hmax hlen
    obtain ⟨new, e1, e2, e3, e4⟩ := ih _ _ h
    obtain ⟨p1, p2⟩ := readLen_pos s r sz hrl (by omega)
    have hl : (r.take sz.toNat).length = sz.toNat := by
      simp only [List.length_take]; omega
    refine ⟨r.take sz.toNat :: new, ?_, by simp [e2], ?_, ?_⟩
    · rw [e1]; simp
    · simp only [List.map_cons, List.flatten_cons, lp, hl, List.append_assoc]
      rw [← e3, List.take_append_drop]
      exact p1
    · intro b hb
      simp only [List.mem_cons] at hb
      rcases hb with hb | hb
      · subst hb; rw [hl]; omega
      · exact e4 b hb

theorem mpub_sound (s : Bytes) (maxMsg maxBody : Int) (bs : List Bytes) (rest : Bytes)
    (h : readMPUB s maxMsg maxBody = .ok (bs, rest)) :
    s = mpubBody bs ++ rest ∧ bs ≠ [] ∧ (bs.length : Int) ≤ (maxBody - 4).tdiv 5 ∧
      ∀ b ∈ bs, 0 < b.length ∧ (b.length : Int) ≤ maxMsg := by
  unfold readMPUB at h
  split at h; · contradiction
  rename_i n r hrl
  split at h; · contradiction
  rename_i hn
  simp only [Bool.or_eq_true, decide_eq_true_eq, not_or] at hn
  obtain ⟨new, e1, e2, e3, e4⟩ := mpubLoop_sound _ _ _ _ _ _ h
  simp only [List.nil_append] at e1
  subst e1
  obtain ⟨p1, p2⟩ := readLen_pos s r n hrl (by omega)
  refine ⟨?_, ?_, ?_, e4⟩
  · rw [mpubBody, e2, List.append_assoc, ← e3]; exact p1
  · intro hnil; rw [hnil] at e2; simp only [List.length_nil] at e2; omega
  · rw [e2]; omega

theorem mpub_all_or_nothing (q : List Bytes) (s : Bytes) (maxMsg maxBody : Int) :
    ((mpubCmd q s maxMsg maxBody).2 ≠ none → (mpubCmd q s maxMsg maxBody).1 = q) ∧
    ((mpubCmd q s maxMsg maxBody).2 = none → ∃ bs rest,
      readMPUB s maxMsg maxBody = .ok (bs, rest) ∧ (mpubCmd q s maxMsg maxBody).1 = q ++ bs) := by
  unfold mpubCmd
  cases h : readMPUB s maxMsg maxBody with
  | error e => simp
  | ok v => exact ⟨by simp, fun _ => ⟨v.1, v.2, rfl, rfl⟩⟩

/-! ### 5. text /mpub -/

theorem splitNL_cons_nl (s : Bytes) : splitNL (10 :: s) = [] :: splitNL s := by
  simp [splitNL]

theorem splitNL_cons_ne (c : UInt8) (s hd : Bytes) (tl : List Bytes) (h : c ≠ 10)
    (e : splitNL s = hd :: tl) : splitNL (c :: s) = (c :: hd) :: tl := by
  simp [splitNL, h, e]

theorem splitNL_ne_nil (s : Bytes) : splitNL s ≠ [] := by
  induction s with
  | nil => simp [splitNL]
  | cons c s ih =>
    by_cases hc : c = 10
    · subst hc; simp [splitNL_cons_nl]
    · cases e : splitNL s with
      | nil => exact absurd e ih
      | cons hd tl => simp [splitNL_cons_ne c s hd tl hc e]

theorem intercalate_cons_cons {α} (sep : List α) (c : α) (hd : List α) (tl : List (List α)) :
    sep.intercalate ((c :: hd) :: tl) = c :: sep.intercalate (hd :: tl) := by
  cases tl <;> simp [List.intercalate, List.intersperse]

theorem splitNL_join (s : Bytes) : [10].intercalate (splitNL s) = s := by
  induction s with
  | nil => simp [splitNL, List.intercalate]
  | cons c s ih =>
    cases e : splitNL s with
    | nil => exact absurd e (splitNL_ne_nil s)
    | cons hd tl =>
      rw [e] at ih
      by_cases hc : c = 10
      · subst hc
        rw [splitNL_cons_nl, e, ← ih]
        simp [List.intercalate, List.intersperse]
      · rw [splitNL_cons_ne c s hd tl hc e, intercalate_cons_cons, ih]

theorem splitNL_no_newline (s : Bytes) : ∀ b ∈ splitNL s, (10 : UInt8) ∉ b := by
  induction s with
  | nil => simp [splitNL]
  | cons c s ih =>
    intro b hb
    by_cases hc : c = 10
    · subst hc
      rw [splitNL_cons_nl, List.mem_cons] at hb
      rcases hb with hb | hb
      · subst hb; simp
      · exact ih b hb
    · cases e : splitNL s with
      | nil => exact absurd e (splitNL_ne_nil s)
      | cons hd tl =>
        rw [splitNL_cons_ne c s hd tl hc e, List.mem_cons] at hb
        rw [e] at ih
        rcases hb with hb | hb
        · subst hb
          have := ih hd (by simp)
          simp only [List.mem_cons, not_or]
          exact ⟨fun h => hc h.symm, this⟩
        · exact ih b (by simp [hb])

/-- what `readBlock` returns, in terms of the reference splitter -/
theorem readBlock_spec (s : Bytes) :
    ((readBlock s).2.2 = true →
      (readBlock s).1 = s ∧ (readBlock s).2.1 = [] ∧ (10 : UInt8) ∉ s ∧ splitNL s = [s]) ∧
    ((readBlock s).2.2 = false → ∃ hd, (readBlock s).1 = hd ++ [10] ∧ (10 : UInt8) ∉ hd ∧
      s = hd ++ [10] ++ (readBlock s).2.1 ∧ splitNL s = hd :: splitNL (readBlock s).2.1) := by
  induction s with
  | nil => simp [readBlock, splitNL]
  | cons c s ih =>
    by_cases hc : c = 10
    · subst hc
      simp only [readBlock, if_true]
      refine ⟨fun h => by simp at h, fun _ => ⟨[], by simp [splitNL_cons_nl]⟩⟩
    · simp only [readBlock, if_neg hc]
      constructor
      · intro h
        obtain ⟨a1, a2, a3, a4⟩ := ih.1 h
        refine ⟨by rw [a1], a2, ?_, splitNL_cons_ne c s s [] hc a4⟩
        simp only [List.mem_cons, not_or]
        exact ⟨fun h => hc h.symm, a3⟩
      · intro h
        obtain ⟨hd, a1, a2, a3, a4⟩ := ih.2 h
        refine ⟨c :: hd, by rw [a1]; rfl, ?_, ?_, splitNL_cons_ne c s hd _ hc a4⟩
        · simp only [List.mem_cons, not_or]
          exact ⟨fun h => hc h.symm, a2⟩
        · simp only [List.cons_append, List.cons.injEq, true_and]
          simpa using a3

theorem stripNL_concat (hd : Bytes) : stripNL (hd ++ [10]) = hd := by
  simp [stripNL]

theorem stripNL_of_not_mem (b : Bytes) (h : (10 : UInt8) ∉ b) : stripNL b = b := by
  unfold stripNL
  rw [if_neg]
  intro hl
  exact h (List.mem_of_getLast? hl)

theorem isEmpty_false_of_ne {α} (l : List α) (h : l ≠ []) : l.isEmpty = false := by
  cases l with
  | nil => exact absurd rfl h
  | cons _ _ => rfl

theorem textLoop_split (maxMsg readMax : Nat) (s : Bytes) (total : Nat) (acc : List Bytes)
    (hlen : total + s.length < readMax) (hblk : ∀ b ∈ splitNL s, b.length ≤ maxMsg) :
    textLoop maxMsg readMax s total acc = .ok (acc ++ (splitNL s).filter (fun b => !b.isEmpty)) := by
  induction hn : s.length using Nat.strongRecOn generalizing s total acc with
  | _ n ih =>
    have spec := readBlock_spec s
    rw [textLoop]
    cases heof : (readBlock s).2.2 with
    | true =>
      obtain ⟨a1, a2, a3, a4⟩ := spec.1 heof
      rw [a1, stripNL_of_not_mem s a3, a4, if_neg (by omega)]
      have hs := hblk s (by simp [a4])
      by_cases he : s = []
      · subst he; simp
      · have : s.isEmpty = false := isEmpty_false_of_ne s he
        simp [this, Nat.not_lt.mpr hs]
    | false =>
      obtain ⟨hd, a1, a2, a3, a4⟩ := spec.2 heof
      have hl : s.length = hd.length + 1 + (readBlock s).2.1.length := by
        have := congrArg List.length a3
        simp only [List.length_append, List.length_cons, List.length_nil] at this
        omega
      have hblk' : ∀ b ∈ splitNL (readBlock s).2.1, b.length ≤ maxMsg :=
        fun b hb => hblk b (by rw [a4]; simp [hb])
      have hhd := hblk hd (by simp [a4])
      have hb : (hd ++ [10]).length = hd.length + 1 := by simp
      rw [a1, stripNL_concat, a4, hb, if_neg (by omega)]
      simp only [Bool.false_eq_true, dite_false]
      by_cases he : hd = []
      · subst he
        simp only [List.isEmpty_nil, if_true]
        rw [ih _ (by omega) _ _ _ (by simp only [List.length_nil] at hl ⊢; omega) hblk' rfl]
        simp
      · have : hd.isEmpty = false := isEmpty_false_of_ne hd he
        simp only [this, Bool.false_eq_true, if_false, if_neg (Nat.not_lt.mpr hhd)]
        rw [ih _ (by omega) _ _ _ (by omega) hblk' rfl]
        simp [this]

theorem textmpub_split (body : Bytes) (maxMsg maxBody : Nat) (hlen : body.length ≤ maxBody)
    (hblk : ∀ b ∈ splitNL body, b.length ≤ maxMsg) :
    textMpub body maxMsg maxBody = .ok ((splitNL body).filter (fun b => !b.isEmpty)) := by
  unfold textMpub
  rw [List.take_of_length_le (by omega), textLoop_split _ _ _ _ _ (by omega) hblk]
  simp

theorem textLoop_too_big (maxMsg readMax : Nat) (s : Bytes) (total : Nat) (acc : List Bytes)
    (hlen : total + s.length = readMax) : ∃ e, textLoop maxMsg readMax s total acc = .error e := by
  induction hn : s.length using Nat.strongRecOn generalizing s total acc with
  | _ n ih =>
    have spec := readBlock_spec s
    rw [textLoop]
    cases heof : (readBlock s).2.2 with
    | true =>
      obtain ⟨a1, a2, a3, a4⟩ := spec.1 heof
      rw [a1, if_pos hlen]
      exact ⟨_, rfl⟩
    | false =>
      obtain ⟨hd, a1, a2, a3, a4⟩ := spec.2 heof
      have hl : s.length = hd.length + 1 + (readBlock s).2.1.length := by
        have := congrArg List.length a3
        simp only [List.length_append, List.length_cons, List.length_nil] at this
        omega
      have hb : (readBlock s).1.length = hd.length + 1 := by rw [a1]; simp
      simp only [Bool.false_eq_true, dite_false]
      split
      · exact ⟨_, rfl⟩
      · split
        · exact ih _ (by omega) _ _ _ (by omega) rfl
        · split
          · exact ⟨_, rfl⟩
          · exact ih _ (by omega) _ _ _ (by omega) rfl

theorem textmpub_too_big (body : Bytes) (maxMsg maxBody : Nat) (hlen : maxBody < body.length) :
    ∃ e, textMpub body maxMsg maxBody = .error e := by
  unfold textMpub
  exact textLoop_too_big _ _ _ _ _ (by simp only [List.length_take]; omega)

/-- the HTTP wrapper (`Content-Length` check first) agrees with the loop on both sides of the limit -/
theorem textmpubHttp_split (k : Bool) (body : Bytes) (maxMsg maxBody : Nat)
    (hlen : body.length ≤ maxBody) (hblk : ∀ b ∈ splitNL body, b.length ≤ maxMsg) :
    textMpubHttp k body maxMsg maxBody = .ok ((splitNL body).filter (fun b => !b.isEmpty)) := by
  unfold textMpubHttp
  rw [if_neg (by simp only [Bool.and_eq_true, decide_eq_true_eq, not_and]; omega)]
  exact textmpub_split body maxMsg maxBody hlen hblk

theorem textmpubHttp_too_big (k : Bool) (body : Bytes) (maxMsg maxBody : Nat)
    (hlen : maxBody < body.length) : ∃ e, textMpubHttp k body maxMsg maxBody = .error e := by
  unfold textMpubHttp
  split
  · exact ⟨_, rfl⟩
  · exact textmpub_too_big body maxMsg maxBody hlen

/-! ### 6. diskqueue record -/

theorem dq_roundtrip (d rest : Bytes) (minSz maxSz : Nat) (h1 : minSz ≤ d.length)
    (h2 : d.length ≤ maxSz) (h3 : d.length < 2147483648) :
    dqRead minSz maxSz (dqRecord d ++ rest) = some (d, rest) := by
  have e : dqRecord d ++ rest = beBytes 4 d.length ++ (d ++ rest) := by simp [dqRecord, lp]
  have dn : (beBytes 4 d.length ++ (d ++ rest)).drop (4 + d.length) = rest := by
    rw [← List.append_assoc]
    exact drop_app _ _ _ (by simp only [List.length_append, beBytes_length])
  unfold dqRead
  rw [e, take_app _ _ _ (beBytes_length _ _), drop_app _ _ _ (beBytes_length _ _),
    beVal_beBytes4 _ (by omega), int32Of_small _ h3, take_app _ _ _ rfl, dn,
    if_neg (by simp only [List.length_append, beBytes_length]; omega),
    if_neg (by omega), if_neg (by simp only [List.length_append]; omega)]

/-! ### 7. bufio.Writer and the connection -/

theorem bufWriteLoop_stream (fuel : Nat) (w : BufW) (p : Bytes) :
    (bufWriteLoop fuel w p).sink ++ (bufWriteLoop fuel w p).buf = w.sink ++ w.buf ++ p ∧
      (bufWriteLoop fuel w p).cap = w.cap := by
  induction fuel generalizing w p with
  | zero => simp [bufWriteLoop]
  | succ fuel ih =>
    unfold bufWriteLoop
    split
    · split
      · rename_i he
        simp only [List.isEmpty_iff] at he
        simp [he]
      · have := ih { w with sink := w.sink ++ w.buf ++ p.take (w.cap - w.buf.length), buf := [] }
          (p.drop (w.cap - w.buf.length))
        simp only [List.append_nil, List.append_assoc, List.take_append_drop] at this
        simpa using this
    · simp

theorem bufWrite_stream (w : BufW) (p : Bytes) :
    (bufWrite w p).sink ++ (bufWrite w p).buf = w.sink ++ w.buf ++ p ∧ (bufWrite w p).cap = w.cap :=
  bufWriteLoop_stream 2 w p

theorem bufWrite_bounded (w : BufW) (p : Bytes) (h : w.buf.length ≤ w.cap) :
    (bufWrite w p).buf.length ≤ w.cap := by
  unfold bufWrite bufWriteLoop
  split
  · split
    · exact h
    · unfold bufWriteLoop
      split
      · simp
      · rename_i h2
        simp only [List.length_nil, Nat.sub_zero, Nat.not_lt] at h2
        simpa using h2
  · rename_i h1
    simp only [List.length_append]
    omega

theorem bufFlush_stream (w : BufW) : (bufFlush w).sink = w.sink ++ w.buf ∧ (bufFlush w).buf = [] := by
  simp [bufFlush]

theorem writeFrame_stream (w : BufW) (f : Frame) :
    (writeFrame w f).sink ++ (writeFrame w f).buf = w.sink ++ w.buf ++ encodeFrame f := by
  unfold writeFrame
  rw [(bufWrite_stream _ _).1, (bufWrite_stream _ _).1, (bufWrite_stream _ _).1]
  simp [encodeFrame]

/-- a fresh connection: state init, empty buffer -/
def conn0 (cap : Nat) : Conn := { w := { cap := cap } }

/-- the invariant of every reachable connection state -/
def ConnInv (c : Conn) : Prop :=
  c.stream = (c.sent.map encodeFrame).flatten ∧ (c.subscribed = false → c.w.buf = [])

theorem connInv_conn0 (cap : Nat) : ConnInv (conn0 cap) := by
  simp [ConnInv, conn0, Conn.stream]

theorem connInv_step (c : Conn) (op : ConnOp) (h : ConnInv c) : ConnInv (connStep c op) := by
  obtain ⟨hs, hb⟩ := h
  unfold Conn.stream at hs
  cases op with
  | sendResponse f =>
    refine ⟨?_, fun _ => by simp [connStep, bufFlush]⟩
    have := writeFrame_stream c.w f
    simp only [connStep, Conn.stream, bufFlush, List.append_nil, List.map_append, List.map_cons,
      List.map_nil, List.flatten_append, List.flatten_cons, List.flatten_nil, ← hs]
    simp only [List.append_assoc] at this ⊢
    rw [this]
  | sendMessage f =>
    simp only [connStep]
    split
    · rename_i hsub
      refine ⟨?_, fun h' => by simp [hsub] at h'⟩
      have := writeFrame_stream c.w f
      simp only [Conn.stream, List.map_append, List.map_cons,
        List.map_nil, List.flatten_append, List.flatten_cons, List.flatten_nil, ← hs]
      simp only [List.append_assoc, List.append_nil] at this ⊢
      rw [this]
    · exact ⟨hs, hb⟩
  | flush =>
    refine ⟨?_, fun _ => by simp [connStep, bufFlush]⟩
    simp only [connStep, Conn.stream, bufFlush, List.append_nil, ← hs, List.append_assoc]
  | setOutputBuffer size =>
    simp only [connStep]
    split
    · exact ⟨hs, hb⟩
    · refine ⟨?_, fun _ => rfl⟩
      simp only [Conn.stream, bufFlush, List.append_nil, ← hs, List.append_assoc]
  | upgrade size =>
    simp only [connStep]
    split
    · exact ⟨hs, hb⟩
    · rename_i hsub
      refine ⟨?_, fun _ => rfl⟩
      have hb' := hb (by simpa using hsub)
      simp only [Conn.stream, List.append_nil, ← hs, hb', List.flatten_append, List.flatten_cons,
        List.flatten_nil]
  | subscribe =>
    refine ⟨hs, fun h' => by simp [connStep] at h'⟩

theorem connInv_run (c : Conn) (ops : List ConnOp) (h : ConnInv c) : ConnInv (connRun c ops) := by
  induction ops generalizing c with
  | nil => exact h
  | cons op ops ih => exact ih (connStep c op) (connInv_step c op h)

/-- THE connection theorem: for every sequence of protocol actions (responses, messages, flushes,
output-buffer changes, TLS/snappy/deflate upgrades, SUB) from a fresh connection, the plaintext
handed to the successive transports, in order, plus what is still buffered, is exactly the
concatenation of the frames passed to Send: no byte lost, duplicated or reordered at any writer
replacement. -/
theorem conn_stream (cap : Nat) (ops : List ConnOp) :
    (connRun (conn0 cap) ops).stream = (((connRun (conn0 cap) ops).sent).map encodeFrame).flatten :=
  (connInv_run _ ops (connInv_conn0 cap)).1

/-- the reason: before SUB the buffer is empty after every action -/
theorem conn_init_buffer_empty (cap : Nat) (ops : List ConnOp) :
    (connRun (conn0 cap) ops).subscribed = false → (connRun (conn0 cap) ops).w.buf = [] :=
  (connInv_run _ ops (connInv_conn0 cap)).2

/-! ### 8. pooled buffers, fan-out -/

theorem poolRun_clean (pool : List Bytes) (hp : ∀ b ∈ pool, b = []) (reqs : List (Nat × Msg)) :
    (poolRun pool reqs).2 = reqs.map (fun r => encode r.2) ∧ ∀ b ∈ (poolRun pool reqs).1, b = [] := by
  induction reqs generalizing pool with
  | nil => exact ⟨rfl, hp⟩
  | cons r reqs ih =>
    obtain ⟨k, m⟩ := r
    have hp' : ∀ b ∈ ([] : Bytes) :: pool.eraseIdx k, b = [] := by
      intro b hb
      simp only [List.mem_cons] at hb
      rcases hb with hb | hb
      · exact hb
      · exact hp b (List.mem_of_mem_eraseIdx hb)
    obtain ⟨i1, i2⟩ := ih _ hp'
    simp only [poolRun, withPooledBuffer, List.map_cons]
    refine ⟨?_, i2⟩
    rw [i1]
    cases hk : pool[k]? with
    | none => rfl
    | some b => simp [hp b (List.mem_of_getElem? hk)]

theorem fanout_copies (m : Msg) (n : Nat) :
    (fanout m n).length = n ∧ ∀ x ∈ fanout m n, x.id = m.id ∧ x.body = m.body ∧ x.ts = m.ts := by
  refine ⟨by simp [fanout], ?_⟩
  intro x hx
  simp only [fanout, List.mem_map, List.mem_range] at hx
  obtain ⟨i, _, rfl⟩ := hx
  split <;> simp

/-! ### concrete instances (non-vacuity) -/

example : beBytes 4 258 = [0, 0, 1, 2] ∧ beVal [0, 0, 1, 2] = 258 := by decide

/-- high bits are dropped, exactly as `PutUint16` does -/
example : beBytes 2 65537 = [0, 1] := by decide

private def m1 : Msg :=
  { ts := 0x0102030405060708, attempts := 3,
    id := [48, 49, 50, 51, 52, 53, 54, 55, 56, 57, 97, 98, 99, 100, 101, 102], body := [104, 105] }

example : encode m1 = [1, 2, 3, 4, 5, 6, 7, 8, 0, 3, 48, 49, 50, 51, 52, 53, 54, 55, 56, 57, 97, 98,
    99, 100, 101, 102, 104, 105] := by decide

example : decode (encode m1) = some m1 := by decide

example : decode (List.replicate 25 0) = none := by decide

/-- a frame whose data looks like a frame header itself -/
example : readFrame [0, 0, 0, 12, 0, 0, 0, 2, 0, 0, 0, 8, 0, 0, 0, 0, 9] =
    some (⟨2, [0, 0, 0, 8, 0, 0, 0, 0]⟩, [9]) := by decide

/-- a negative int32 size is refused -/
example : readFrame [128, 0, 0, 4, 0, 0, 0, 0] = none := by decide

/-- two frames, the first with data that looks like a header, the second empty -/
example : parseFrames [0, 0, 0, 12, 0, 0, 0, 2, 0, 0, 0, 8, 0, 0, 0, 0, 0, 0, 0, 4, 0, 0, 0, 1] =
    some [⟨2, [0, 0, 0, 8, 0, 0, 0, 0]⟩, ⟨1, []⟩] := by
  rw [show [0, 0, 0, 12, 0, 0, 0, 2, 0, 0, 0, 8, 0, 0, 0, 0, 0, 0, 0, 4, 0, 0, 0, 1] =
    (([⟨2, [0, 0, 0, 8, 0, 0, 0, 0]⟩, ⟨1, []⟩] : List Frame).map encodeFrame).flatten from by decide]
  exact frame_stream_roundtrip _ (by decide)

/-- a truncated stream is an error, not a short list -/
example : parseFrames [0, 0, 0, 12, 0, 0, 0, 2, 0, 0, 0, 8] = none := by
  have hr : readFrame [0, 0, 0, 12, 0, 0, 0, 2, 0, 0, 0, 8] = none := by decide
  rw [parseFrames, if_neg (by decide)]
  split
  · rfl
  · rename_i h; rw [hr] at h; contradiction

example : readMPUB [0, 0, 0, 2, 0, 0, 0, 1, 97, 0, 0, 0, 2, 98, 99, 7] 10 100 =
    .ok ([[97], [98, 99]], [7]) := by
  rw [show [0, 0, 0, 2, 0, 0, 0, 1, 97, 0, 0, 0, 2, 98, 99, 7] =
    mpubBody [[97], [98, 99]] ++ [7] from by decide]
  exact mpub_roundtrip _ _ _ _ (by decide) (by decide) (by decide) (by decide)

/-- second body too big: error, and the queue is untouched -/
example : mpubCmd [[1]] [0, 0, 0, 2, 0, 0, 0, 1, 97, 0, 0, 0, 20, 98, 99] 10 100 =
    ([[1]], some .badMessage) := by decide

/-- "a\n\nb" -/
example : textMpub [97, 10, 10, 98] 10 100 = .ok [[97], [98]] := by
  rw [textmpub_split _ _ _ (by decide) (by decide)]
  exact congrArg _ (by decide)

example : splitNL [97, 10, 10, 98, 10] = [[97], [], [98], []] := by decide

example : ∃ e, textMpub [97, 10, 98, 99] 10 3 = .error e := textmpub_too_big _ _ _ (by decide)

example : dqRead 1 10 [0, 0, 0, 2, 5, 6, 0, 0] = some ([5, 6], [0, 0]) := by decide

/-- large write through a small non-empty buffer: fill, flush, then direct -/
example : bufWrite { cap := 4, buf := [1, 2], sink := [0] } [3, 4, 5, 6, 7, 8, 9] =
    { cap := 4, buf := [], sink := [0, 1, 2, 3, 4, 5, 6, 7, 8, 9] } := by decide

private def opsEx : List ConnOp :=
  [.sendResponse ⟨0, [79, 75]⟩, .sendMessage ⟨2, [1]⟩, .setOutputBuffer 64, .upgrade 8,
   .sendResponse ⟨0, [79, 75]⟩, .subscribe, .sendMessage ⟨2, [9, 9, 9]⟩, .upgrade 16,
   .sendMessage ⟨2, [7]⟩]

/-- responses before SUB, an upgrade in the middle (plain layer closed with the first OK in it,
the second OK on the new layer), a message refused before SUB, an upgrade refused after SUB,
messages buffered after SUB -/
example :
    (connRun (conn0 16) opsEx).closedLayers = [[0, 0, 0, 6, 0, 0, 0, 0, 79, 75]] ∧
    (connRun (conn0 16) opsEx).w.sink =
      [0, 0, 0, 6, 0, 0, 0, 0, 79, 75, 0, 0, 0, 7, 0, 0, 0, 2, 9, 9, 9, 0, 0, 0, 5, 0] ∧
    (connRun (conn0 16) opsEx).w.buf = [0, 0, 2, 7] ∧
    (connRun (conn0 16) opsEx).w.cap = 8 ∧
    (connRun (conn0 16) opsEx).sent = [⟨0, [79, 75]⟩, ⟨0, [79, 75]⟩, ⟨2, [9, 9, 9]⟩, ⟨2, [7]⟩] := by
  decide

example : (poolRun [[], []] [(0, m1), (5, m1)]).2 = [encode m1, encode m1] := by decide

example : (fanout m1 3).map (·.attempts) = [3, 0, 0] := by decide

end Nsq.Proofs.Wire
