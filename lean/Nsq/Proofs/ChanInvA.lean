/-
E2 — the invariant of the *atomic* model: on top of `Inv`, every connected client's
`InFlightCount` is exactly the number of messages it holds (so it is never negative), equals the
consumer-side bookkeeping `outstanding`, never exceeds the RDY value at its last delivery, and
every delivery in the history satisfied the guard.  Preserved by every atomic operation
(`Op.atomic`), i.e. as long as no FIN is split around a `Channel.Empty` (window F8).
-/
import Nsq.Proofs.ChanInv
namespace Nsq.Proofs.Chan
open Nsq.Model.Chan

def ClOkA (maxRdy : Int) (msgs : List Entry) (h : List Ev) (cl : Client) : Prop :=
  cl.inFlight = (heldBy msgs cl.conn : Int) ∧ cl.finCount = nFinBy h cl.conn ∧ cl.rdy ≤ maxRdy ∧
  cl.inFlight ≤ cl.lgr ∧ (cl.decr = false → cl.lgr ≤ cl.rdy)

structure InvA (conf : Conf) (c : Chan) : Prop where
  inv : Inv 0 c
  pend : c.pendingFin = []
  okh3 : okHist3 conf.maxRdy c.hist = true
  clA : ∀ cl ∈ c.clients, ClOkA conf.maxRdy c.msgs c.hist cl

theorem clA_frame {maxRdy : Int} {msgs msgs' : List Entry} {h h' : List Ev} {cls : List Client}
    (hh : ∀ k, heldBy msgs' k = heldBy msgs k) (hf : ∀ k, nFinBy h' k = nFinBy h k)
    (hc : ∀ cl ∈ cls, ClOkA maxRdy msgs h cl) : ∀ cl ∈ cls, ClOkA maxRdy msgs' h' cl := by
  intro cl hcl
  have := hc cl hcl
  simp only [ClOkA, hh, hf] at this ⊢
  exact this

theorem heldBy_removeE_queued {l : List Entry} (hn : (l.map (·.id)).Nodup) {e : Entry} (he : e ∈ l)
    (hq : e.loc = .queued) (k : Nat) : heldBy (removeE l e.id) k = heldBy l k := by
  have := heldBy_removeE hn he k
  simp [heldByE, hq] at this
  omega

theorem okHist3_cons_other {maxRdy : Int} {ev : Ev} {h : List Ev} (hev : okEv3 maxRdy h ev = true)
    (hh : okHist3 maxRdy h = true) : okHist3 maxRdy (ev :: h) = true := by
  simp [okHist3, hev, hh]

/-- `enqueue` keeps the atomic part -/
theorem invA_enqueue {conf : Conf} {c : Chan} {x : Nat} {e : Entry} (hn : (c.msgs.map (·.id)).Nodup) (he : e ∈ c.msgs)
    (hid : e.id = x) (hq : e.loc = .queued)
    (hp : c.pendingFin = []) (h3 : okHist3 conf.maxRdy c.hist = true)
    (hc : ∀ cl ∈ c.clients, ClOkA conf.maxRdy c.msgs c.hist cl) :
    (enqueue c x).pendingFin = [] ∧ okHist3 conf.maxRdy (enqueue c x).hist = true ∧
    ∀ cl ∈ (enqueue c x).clients, ClOkA conf.maxRdy (enqueue c x).msgs (enqueue c x).hist cl := by
  subst hid
  unfold enqueue
  by_cases h1 : c.memLen < c.memCap
  · rw [if_pos h1]; exact ⟨hp, h3, hc⟩
  · rw [if_neg h1]
    by_cases h2 : c.ephemeral = true
    · rw [if_pos h2]
      refine ⟨hp, okHist3_cons_other (by simp [okEv3]) h3, ?_⟩
      exact clA_frame (fun k => heldBy_removeE_queued hn he hq k) (fun k => by simp [nFinBy]) hc
    · rw [if_neg h2]; exact ⟨hp, h3, hc⟩

theorem ready_iff {p : Bool} {cl : Client} : ready p cl = true ↔ p = false ∧ 0 < cl.rdy ∧ cl.inFlight < cl.rdy := by
  unfold ready
  cases p <;> simp

theorem heldBy_nonneg (l : List Entry) (k : Nat) : (0 : Int) ≤ heldBy l k := Int.natCast_nonneg _


/-- the part of `InvA` beyond `Inv` -/
def AOnly (conf : Conf) (c : Chan) : Prop :=
  c.pendingFin = [] ∧ okHist3 conf.maxRdy c.hist = true ∧ ∀ cl ∈ c.clients, ClOkA conf.maxRdy c.msgs c.hist cl

theorem InvA.aonly {conf : Conf} {c : Chan} (h : InvA conf c) : AOnly conf c := ⟨h.pend, h.okh3, h.clA⟩

theorem InvA.of {conf : Conf} {c : Chan} (h : Inv 0 c) (a : AOnly conf c) : InvA conf c := ⟨h, a.1, a.2.1, a.2.2⟩

theorem aonly_removeC {conf : Conf} {c : Chan} (h : AOnly conf c) (k : Nat) :
    AOnly conf { c with clients := removeC c.clients k } :=
  ⟨h.1, h.2.1, fun cl hcl => h.2.2 cl (mem_removeC.1 hcl).1⟩

theorem aonly_put (conf : Conf) {c : Chan} (h : InvA conf c) (id : Nat) (env : Env) : AOnly conf (step conf c (.put id env)).1 := by
  simp only [step]
  split
  · exact h.aonly
  · rename_i hcond
    simp only [bne_iff_ne, ne_eq, Bool.or_eq_true, not_or, Decidable.not_not, Bool.not_eq_true] at hcond
    have hnone := status_none_of_nFanout_zero h.inv.okh hcond.1
    have hfresh := not_mem_of_status_none h.inv.core hnone
    refine invA_enqueue (e := { id := id, att := 0, loc := .queued, env := env }) ?_ ?_ rfl rfl ?_ ?_ ?_
    · simp only [List.map_cons, List.nodup_cons, List.mem_map, not_exists, not_and]
      exact ⟨fun e he hid => hfresh e he hid, h.inv.core.nodup⟩
    · exact List.mem_cons_self
    · exact h.pend
    · exact okHist3_cons_other (by simp [okEv3]) h.okh3
    · exact clA_frame (fun k => by simp [heldBy, List.countP_cons, heldByE]) (fun k => by simp [nFinBy]) h.clA

theorem aonly_putDeferred (conf : Conf) {c : Chan} (h : InvA conf c) (id : Nat) (pri : Int) (env : Env) :
    AOnly conf (step conf c (.putDeferred id pri env)).1 := by
  simp only [step]
  split
  · exact h.aonly
  · exact ⟨h.pend, okHist3_cons_other (by simp [okEv3]) h.okh3,
      clA_frame (fun k => by simp [heldBy, List.countP_cons, heldByE]) (fun k => by simp [nFinBy]) h.clA⟩

theorem aonly_addClient (conf : Conf) (hconf : 0 ≤ conf.maxRdy) {c : Chan} (h : InvA conf c) (k : Nat) (mt : Int) (sm : Nat) :
    AOnly conf (step conf c (.addClient k mt sm)).1 := by
  simp only [step]
  split
  · exact h.aonly
  · rename_i hcond
    simp only [Bool.or_eq_true, not_or, Bool.not_eq_true, bne_iff_ne, ne_eq, Decidable.not_not] at hcond
    have hfresh : ∀ cl ∈ c.clients, cl.conn ≠ k := by
      have := hcond.1.1
      unfold hasC at this
      simpa using this
    refine ⟨h.pend, okHist3_cons_other (by simp [okEv3]) h.okh3, ?_⟩
    intro cl hcl
    simp only [List.mem_cons] at hcl
    rcases hcl with rfl | hcl
    · simp [ClOkA, nFinBy, hcond.1.2, hconf]
    · have := h.clA cl hcl
      simp only [ClOkA, nFinBy, Ne.symm (hfresh cl hcl), ↓reduceIte] at this ⊢
      exact this

theorem aonly_rdy (conf : Conf) {c : Chan} (h : InvA conf c) (k : Nat) (n : Int) :
    AOnly conf (step conf c (.rdy k n)).1 := by
  simp only [step]
  split
  · exact h.aonly
  · rename_i cl hf
    obtain ⟨hmem, hconn⟩ := findC_some hf
    split
    · exact h.aonly
    · rename_i hclosing
      split
      · exact aonly_removeC h.aonly k
      · rename_i hrange
        simp only [Bool.or_eq_true, decide_eq_true_eq, not_or, Int.not_lt, Int.not_lt] at hrange
        have hcl := h.inv.cl cl hmem
        refine ⟨h.pend, okHist3_cons_other ?_ h.okh3, ?_⟩
        · simp only [okEv3, Bool.and_eq_true, Bool.not_eq_true', decide_eq_true_eq]
          refine ⟨⟨?_, hrange.1⟩, hrange.2⟩
          rw [← hconn, ← hcl.2.2.2.1]
          simpa using hclosing
        · intro cl' hcl'
          obtain ⟨cl0, hcl0, rfl⟩ := mem_updC.1 hcl'
          have h0 := h.clA cl0 hcl0
          by_cases hk : cl0.conn = k
          · simp only [hk, ↓reduceIte]
            simp only [ClOkA, nFinBy, hk] at h0 ⊢
            refine ⟨h0.1, h0.2.1, hrange.2, h0.2.2.2.1, ?_⟩
            intro hd
            simp only [Bool.or_eq_false_iff, decide_eq_false_iff_not, Int.not_lt] at hd
            have := h0.2.2.2.2 hd.1
            omega
          · simp only [hk, ↓reduceIte]
            simp only [ClOkA, nFinBy] at h0 ⊢
            exact h0

theorem aonly_cls (conf : Conf) (hconf : 0 ≤ conf.maxRdy) {c : Chan} (h : InvA conf c) (k : Nat) :
    AOnly conf (step conf c (.cls k)).1 := by
  simp only [step]
  split
  · exact h.aonly
  · split
    · exact aonly_removeC h.aonly k
    · refine ⟨h.pend, okHist3_cons_other (by simp [okEv3]) h.okh3, ?_⟩
      intro cl' hcl'
      obtain ⟨cl0, hcl0, rfl⟩ := mem_updC.1 hcl'
      have h0 := h.clA cl0 hcl0
      by_cases hk : cl0.conn = k
      · simp only [hk, ↓reduceIte]
        simp only [ClOkA, nFinBy, hk] at h0 ⊢
        refine ⟨h0.1, h0.2.1, hconf, h0.2.2.2.1, ?_⟩
        intro hd
        simp only [Bool.or_eq_false_iff, decide_eq_false_iff_not, Int.not_lt] at hd
        have := h0.2.2.2.2 hd.1
        omega
      · simp only [hk, ↓reduceIte]
        simp only [ClOkA, nFinBy] at h0 ⊢
        exact h0

theorem aonly_deliver (conf : Conf) {c : Chan} (h : InvA conf c) (k id : Nat) (now : Int) :
    AOnly conf (step conf c (.deliver k id now)).1 := by
  simp only [step, doDeliver]
  split
  · exact h.aonly
  · rename_i cl hf
    obtain ⟨hmem, hconn⟩ := findC_some hf
    split
    · exact h.aonly
    · rename_i hready
      simp only [Bool.not_eq_true, Bool.not_eq_false'] at hready
      obtain ⟨hp, hr0, hr1⟩ := ready_iff.1 hready
      split
      · exact h.aonly
      · rename_i e hfe
        obtain ⟨he, hid⟩ := findE_some hfe
        subst hid
        split
        · exact h.aonly
        · rename_i hq
          have hq' : e.loc = .queued := by
            cases hl : e.loc <;> simp [isQueued, hl] at hq ⊢
          have hcl := h.inv.cl cl hmem
          have hclA := h.clA cl hmem
          have hheld := h.inv.held k
          refine ⟨h.pend, okHist3_cons_other ?_ h.okh3, ?_⟩
          · simp only [okEv3, Bool.and_eq_true, decide_eq_true_eq, Bool.not_eq_true']
            rw [← hconn, ← hcl.2.2.1, h.inv.held, ← hclA.1, ← h.inv.paused]
            exact ⟨⟨hr0, hr1⟩, hp⟩
          · intro cl' hcl'
            obtain ⟨cl0, hcl0, rfl⟩ := mem_updC.1 hcl'
            have h0 := h.clA cl0 hcl0
            have h1 := heldBy_setE h.inv.core.nodup he (e.att + 1) (.inflight k (now + cl.msgTimeout) now) cl0.conn
            simp [heldByE, hq'] at h1
            by_cases hk : cl0.conn = k
            · have : cl0 = cl := eq_of_conn_eq h.inv.cnodup hcl0 hmem (hk.trans hconn.symm)
              subst this
              simp only [hk, ↓reduceIte]
              simp only [ClOkA, nFinBy, hk] at h0 ⊢
              simp [hk] at h1
              refine ⟨by omega, h0.2.1, h0.2.2.1, by omega, fun _ => Int.le_refl _⟩
            · simp only [hk, ↓reduceIte]
              simp only [ClOkA, nFinBy] at h0 ⊢
              simp [Ne.symm hk] at h1
              refine ⟨by omega, h0.2.1, h0.2.2.1, h0.2.2.2⟩

theorem aonly_sampleDrop (conf : Conf) {c : Chan} (h : InvA conf c) (k id : Nat) :
    AOnly conf (step conf c (.sampleDrop k id)).1 := by
  simp only [step]
  split
  · exact h.aonly
  · split
    · exact h.aonly
    · split
      · exact h.aonly
      · split
        · exact h.aonly
        · rename_i e hfe
          obtain ⟨he, hid⟩ := findE_some hfe
          subst hid
          split
          · exact h.aonly
          · rename_i hq
            have hq' : e.loc = .queued := by
              cases hl : e.loc <;> simp [isQueued, hl] at hq ⊢
            exact ⟨h.pend, okHist3_cons_other (by simp [okEv3]) h.okh3,
              clA_frame (fun k' => heldBy_removeE_queued h.inv.core.nodup he hq' k') (fun k' => by simp [nFinBy]) h.clA⟩

theorem aonly_fin (conf : Conf) {c : Chan} (h : InvA conf c) (k id : Nat) :
    AOnly conf (step conf c (.fin k id)).1 := by
  simp only [step]
  split
  · exact h.aonly
  · split
    · exact h.aonly
    · rename_i c' hfc
      unfold finChanPart at hfc
      split at hfc
      · rename_i e hfe
        obtain ⟨he, hid⟩ := findE_some hfe
        subst hid
        split at hfc
        · rename_i k' p dts hl
          split at hfc
          · rename_i hk
            subst hk
            cases hfc
            refine ⟨h.pend, okHist3_cons_other (by simp [okEv3]) h.okh3, ?_⟩
            intro cl' hcl'
            simp only [finClientPart] at hcl'
            obtain ⟨cl0, hcl0, rfl⟩ := mem_updC.1 hcl'
            have h0 := h.clA cl0 hcl0
            have h1 := heldBy_removeE h.inv.core.nodup he cl0.conn
            simp only [heldByE, hl, beq_iff_eq] at h1
            by_cases hk : cl0.conn = k'
            · simp only [hk, ↓reduceIte]
              simp only [ClOkA, nFinBy, hk, finClientPart] at h0 ⊢
              simp only [hk, ↓reduceIte] at h1
              refine ⟨by omega, by simp [h0.2.1], h0.2.2.1, by omega, h0.2.2.2.2⟩
            · simp only [hk, ↓reduceIte]
              simp only [ClOkA, nFinBy, finClientPart] at h0 ⊢
              simp only [Ne.symm hk, ↓reduceIte] at h1
              refine ⟨by simp_all, by simp [h0.2.1, Ne.symm hk], h0.2.2.1, h0.2.2.2⟩
          · cases hfc
        · cases hfc
      · cases hfc

theorem aonly_touch (conf : Conf) {c : Chan} (h : InvA conf c) (k id : Nat) (now : Int) :
    AOnly conf (step conf c (.touch k id now)).1 := by
  simp only [step]
  split
  · exact h.aonly
  · rename_i cl hf
    split
    · exact h.aonly
    · rename_i e hfe
      obtain ⟨he, hid⟩ := findE_some hfe
      subst hid
      split
      · rename_i k' p dts hl
        split
        · exact h.aonly
        · rename_i hk
          simp only [ne_eq, Decidable.not_not] at hk
          subst hk
          refine ⟨h.pend, okHist3_cons_other (by simp [okEv3]) h.okh3, ?_⟩
          refine clA_frame (fun k'' => ?_) (fun k'' => by simp [nFinBy]) h.clA
          have h1 := heldBy_setE h.inv.core.nodup he e.att (.inflight k' (touchPri conf now cl.msgTimeout dts) dts) k''
          simp only [heldByE, hl, beq_iff_eq] at h1
          show heldBy (setE c.msgs e.id e.att (.inflight k' (touchPri conf now cl.msgTimeout dts) dts)) k'' = heldBy c.msgs k''
          split at h1 <;> omega
      · exact h.aonly

theorem aonly_req (conf : Conf) {c : Chan} (h : InvA conf c) (k id delay : Nat) (now : Int) :
    AOnly conf (step conf c (.req k id delay now)).1 := by
  simp only [step]
  split
  · exact h.aonly
  · split
    · exact h.aonly
    · rename_i e hfe
      obtain ⟨he, hid⟩ := findE_some hfe
      subst hid
      split
      · rename_i k' p dts hl
        split
        · exact h.aonly
        · rename_i hk
          simp only [ne_eq, Decidable.not_not] at hk
          subst hk
          have clpart : ∀ (loc : Loc), (∀ k'', heldByE k'' { e with att := e.att, loc := loc } = false) →
              ∀ cl' ∈ updC c.clients k' (fun cl => { cl with reqCount := cl.reqCount + 1, inFlight := cl.inFlight - 1 }),
              ClOkA conf.maxRdy (setE c.msgs e.id e.att loc) (Ev.reqOk k' e.id delay :: c.hist) cl' := by
            intro loc hloc cl' hcl'
            obtain ⟨cl0, hcl0, rfl⟩ := mem_updC.1 hcl'
            have h0 := h.clA cl0 hcl0
            have h1 := heldBy_setE h.inv.core.nodup he e.att loc cl0.conn
            simp only [hloc, Bool.false_eq_true, ↓reduceIte] at h1
            simp only [heldByE, hl, beq_iff_eq] at h1
            by_cases hk : cl0.conn = k'
            · simp only [hk, ↓reduceIte]
              simp only [ClOkA, nFinBy, hk] at h0 ⊢
              simp only [hk, ↓reduceIte] at h1
              refine ⟨by omega, h0.2.1, h0.2.2.1, by omega, h0.2.2.2.2⟩
            · simp only [hk, ↓reduceIte]
              simp only [ClOkA, nFinBy] at h0 ⊢
              simp only [Ne.symm hk, ↓reduceIte] at h1
              refine ⟨by omega, h0.2.1, h0.2.2.1, h0.2.2.2⟩
          split
          · have hmem : ({ e with att := e.att, loc := Loc.queued } : Entry) ∈ setE c.msgs e.id e.att .queued :=
              mem_setE.2 ⟨e, he, by simp⟩
            refine invA_enqueue (e := { e with att := e.att, loc := Loc.queued }) ?_ hmem rfl rfl ?_ ?_ ?_
            · simp only [map_id_setE]; exact h.inv.core.nodup
            · exact h.pend
            · exact okHist3_cons_other (by simp [okEv3]) h.okh3
            · exact clpart .queued (fun _ => by simp [heldByE])
          · exact ⟨h.pend, okHist3_cons_other (by simp [okEv3]) h.okh3, clpart _ (fun _ => by simp [heldByE])⟩
      · exact h.aonly

theorem invA_timeoutOne {conf : Conf} {c : Chan} (h : InvA conf c) (id : Nat) : InvA conf (timeoutOne c id) := by
  refine InvA.of (inv_timeoutOne h.inv id) ?_
  unfold timeoutOne
  split
  · rename_i e hfe
    obtain ⟨he, hid⟩ := findE_some hfe
    subst hid
    split
    · rename_i k p dts hl
      have hmem : ({ e with att := e.att, loc := Loc.queued } : Entry) ∈ setE c.msgs e.id e.att .queued :=
        mem_setE.2 ⟨e, he, by simp⟩
      refine invA_enqueue (e := { e with att := e.att, loc := Loc.queued }) ?_ hmem rfl rfl ?_ ?_ ?_
      · simp only [map_id_setE]; exact h.inv.core.nodup
      · exact h.pend
      · exact okHist3_cons_other (by simp [okEv3]) h.okh3
      · intro cl' hcl'
        obtain ⟨cl0, hcl0, rfl⟩ := mem_updC.1 hcl'
        have h0 := h.clA cl0 hcl0
        have h1 := heldBy_setE h.inv.core.nodup he e.att .queued cl0.conn
        simp [heldByE, hl] at h1
        by_cases hk : cl0.conn = k
        · simp only [hk, ↓reduceIte]
          simp only [ClOkA, nFinBy, hk, decIn] at h0 ⊢
          simp [hk] at h1
          refine ⟨by omega, h0.2.1, h0.2.2.1, by omega, h0.2.2.2.2⟩
        · simp only [hk, ↓reduceIte]
          simp only [ClOkA, nFinBy] at h0 ⊢
          simp [Ne.symm hk] at h1
          refine ⟨by omega, h0.2.1, h0.2.2.1, h0.2.2.2⟩
    · exact h.aonly
  · exact h.aonly

theorem invA_deferDueOne {conf : Conf} {c : Chan} (h : InvA conf c) (id : Nat) : InvA conf (deferDueOne c id) := by
  refine InvA.of (inv_deferDueOne h.inv id) ?_
  unfold deferDueOne
  split
  · rename_i e hfe
    obtain ⟨he, hid⟩ := findE_some hfe
    subst hid
    split
    · rename_i p hl
      have hmem : ({ e with att := e.att, loc := Loc.queued } : Entry) ∈ setE c.msgs e.id e.att .queued :=
        mem_setE.2 ⟨e, he, by simp⟩
      refine invA_enqueue (e := { e with att := e.att, loc := Loc.queued }) ?_ hmem rfl rfl ?_ ?_ ?_
      · simp only [map_id_setE]; exact h.inv.core.nodup
      · exact h.pend
      · exact okHist3_cons_other (by simp [okEv3]) h.okh3
      · refine clA_frame (fun k'' => ?_) (fun k'' => by simp [nFinBy]) h.clA
        have h1 := heldBy_setE h.inv.core.nodup he e.att .queued k''
        simp [heldByE, hl] at h1
        show heldBy (setE c.msgs e.id e.att .queued) k'' = heldBy c.msgs k''
        omega
    · exact h.aonly
  · exact h.aonly

theorem invA_foldl {conf : Conf} {f : Chan → Nat → Chan} (hf : ∀ c id, InvA conf c → InvA conf (f c id)) (l : List Nat)
    {c : Chan} (hi : InvA conf c) : InvA conf (l.foldl f c) := by
  induction l generalizing c with
  | nil => exact hi
  | cons x l ih => exact ih (hf c x hi)

theorem aonly_empty (conf : Conf) {c : Chan} (h : InvA conf c) : AOnly conf (step conf c .empty).1 := by
  simp only [step]
  refine ⟨h.pend, okHist3_cons_other (by simp [okEv3]) h.okh3, ?_⟩
  intro cl hcl
  simp only [List.mem_map] at hcl
  obtain ⟨cl0, hcl0, rfl⟩ := hcl
  have h0 := h.clA cl0 hcl0
  have := heldBy_nonneg c.msgs cl0.conn
  simp only [ClOkA, nFinBy, heldBy, List.countP_nil] at h0 ⊢
  refine ⟨by have := h0.1; omega, h0.2.1, h0.2.2.1, by simp only [heldBy] at this; omega, h0.2.2.2.2⟩

/-- **one-step preservation of the atomic invariant** -/
theorem step_invA (conf : Conf) (hconf : 0 ≤ conf.maxRdy) {c : Chan} (h : InvA conf c) (op : Op)
    (hat : op.atomic = true) : InvA conf (step conf c op).1 := by
  cases op with
  | scanInFlight t => exact invA_foldl (fun c id h => invA_timeoutOne h id) _ h
  | scanDeferred t => exact invA_foldl (fun c id h => invA_deferDueOne h id) _ h
  | finChan k id => cases hat
  | finClient k => cases hat
  | guard k => cases hat
  | deliverArmed k id now => cases hat
  | put id env => exact InvA.of (step_inv conf h.inv _) (aonly_put conf h id env)
  | putDeferred id pri env => exact InvA.of (step_inv conf h.inv _) (aonly_putDeferred conf h id pri env)
  | addClient k mt sm => exact InvA.of (step_inv conf h.inv _) (aonly_addClient conf hconf h k mt sm)
  | removeClient k =>
    refine InvA.of (step_inv conf h.inv _) ?_
    simp only [step]
    split
    · exact h.aonly
    · exact aonly_removeC h.aonly k
  | rdy k n => exact InvA.of (step_inv conf h.inv _) (aonly_rdy conf h k n)
  | cls k => exact InvA.of (step_inv conf h.inv _) (aonly_cls conf hconf h k)
  | deliver k id now => exact InvA.of (step_inv conf h.inv _) (aonly_deliver conf h k id now)
  | sampleDrop k id => exact InvA.of (step_inv conf h.inv _) (aonly_sampleDrop conf h k id)
  | fin k id => exact InvA.of (step_inv conf h.inv _) (aonly_fin conf h k id)
  | req k id d now => exact InvA.of (step_inv conf h.inv _) (aonly_req conf h k id d now)
  | touch k id now => exact InvA.of (step_inv conf h.inv _) (aonly_touch conf h k id now)
  | pause =>
    exact InvA.of (step_inv conf h.inv _) ⟨h.pend, okHist3_cons_other (by simp [okEv3]) h.okh3,
      clA_frame (fun _ => rfl) (fun _ => rfl) h.clA⟩
  | unpause =>
    exact InvA.of (step_inv conf h.inv _) ⟨h.pend, okHist3_cons_other (by simp [okEv3]) h.okh3,
      clA_frame (fun _ => rfl) (fun _ => rfl) h.clA⟩
  | empty => exact InvA.of (step_inv conf h.inv _) (aonly_empty conf h)
  | resplit m d =>
    refine InvA.of (step_inv conf h.inv _) ?_
    simp only [step]
    split
    · exact h.aonly
    · exact h.aonly

theorem invA_init (conf : Conf) (eph : Bool) (cap : Nat) : InvA conf { ephemeral := eph, memCap := cap } :=
  ⟨inv_init eph cap, rfl, rfl, by simp⟩

theorem run_invA (conf : Conf) (hconf : 0 ≤ conf.maxRdy) (ops : List Op) (hat : ∀ op ∈ ops, op.atomic = true)
    {c : Chan} (hi : InvA conf c) : InvA conf (run conf c ops) := by
  induction ops generalizing c with
  | nil => exact hi
  | cons op ops ih =>
    exact ih (fun o ho => hat o (List.mem_cons_of_mem _ ho)) (step_invA conf hconf hi op (hat op List.mem_cons_self))

end Nsq.Proofs.Chan
