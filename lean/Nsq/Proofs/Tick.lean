import Nsq.Proofs.Timing
/-!
C04 (timing half), one tick of `queueScanLoop`: `scanChannel` (one worker pass over a channel, both
queues with one clock reading), `scanTick` / `queueScanTick` (the channels selected by `UniqRands`).

  * a worker pass keeps `ChanInv`, releases nothing early and leaves nothing due
  * with at most `selectionCount` channels every channel is scanned on every tick
  * in general the tick scans `min q n` distinct channels and leaves the others untouched
-/
namespace Nsq.Proofs.Tick
open Nsq.Model.PQ Nsq.Model.Timing Nsq.Proofs.PQ Nsq.Proofs.Timing

theorem scanChannel_chan (c : Chan) (t : Int) :
    (scanChannel c t).chan = (scanDeferred (scanInFlight c t).chan t).chan := rfl

theorem scanChannel_released (c : Chan) (t : Int) :
    (scanChannel c t).released =
      (scanInFlight c t).released ++ (scanDeferred (scanInFlight c t).chan t).released := rfl

/-- `nothingDue` in index form -/
theorem nothingDue_iff (c : Chan) (t : Int) :
    nothingDue c t = true ↔
      (∀ k (hk : k < c.ifpq.size), t < (c.ifpq[k]).pri) ∧
      (∀ k (hk : k < c.dpq.size), t < (c.dpq[k]).pri) := by
  simp [nothingDue, Array.all_eq_true]

/-- a worker pass never releases an entry whose deadline is later than its clock reading
(any state, no invariant needed) -/
theorem scanChannel_never_early (c : Chan) (t : Int) :
    ∀ e ∈ (scanChannel c t).released, e.pri ≤ t := by
  intro e he
  rw [scanChannel_released] at he
  rcases List.mem_append.1 he with h | h
  · exact scanInFlight_never_early c t e h
  · exact scanDeferred_never_early _ t e h

/-- one worker pass over a channel (both queues, one clock reading): keeps the invariant, releases
nothing early, leaves nothing due -/
theorem scanChannel_spec (c : Chan) (h : ChanInv c) (t : Int) :
    ChanInv (scanChannel c t).chan ∧ nothingDue (scanChannel c t).chan t = true ∧
      (∀ e ∈ (scanChannel c t).released, e.pri ≤ t) := by
  have h1 := scanInFlight_inv c t h
  have h2 := scanDeferred_inv _ t h1
  have hc1 := (scanInFlight_complete c t h).1
  have hc2 := (scanDeferred_complete _ t h1).1
  have hf := (scanDeferred_frame (scanInFlight c t).chan t).1
  have hc1' : ∀ k (hk : k < (scanDeferred (scanInFlight c t).chan t).chan.ifpq.size),
      t < ((scanDeferred (scanInFlight c t).chan t).chan.ifpq[k]).pri := by
    rw [hf]; exact hc1
  refine ⟨h2, ?_, scanChannel_never_early c t⟩
  rw [nothingDue_iff, scanChannel_chan]
  exact ⟨hc1', hc2⟩

/-! ### the tick -/

theorem scanTick_length (cs : List Chan) (sel : List Nat) (now : Nat → Int) :
    (scanTick cs sel now).length = cs.length := by
  simp [scanTick]

theorem scanTick_getElem (cs : List Chan) (sel : List Nat) (now : Nat → Int) (i : Nat)
    (hi : i < (scanTick cs sel now).length) (hi' : i < cs.length) :
    (scanTick cs sel now)[i] =
      if i ∈ sel then (scanChannel cs[i] (now i)).chan else cs[i] := by
  simp [scanTick, List.getElem_mapIdx]

/-- in general (any number of channels): the tick never panics, scans min(q, n) distinct channels,
leaves the others untouched -/
theorem tick_general (q : Nat) (cs : List Chan) (r : Nat → Nat) (now : Nat → Int) :
    ∃ sel cs', uniqRands (min q cs.length) cs.length r = some sel ∧
      queueScanTick q cs r now = some cs' ∧
      sel.length = min q cs.length ∧ sel.Nodup ∧ cs'.length = cs.length ∧
      ∀ i (hi : i < cs'.length) (hi' : i < cs.length),
        (i ∈ sel → cs'[i] = (scanChannel cs[i] (now i)).chan) ∧ (i ∉ sel → cs'[i] = cs[i]) := by
  obtain ⟨l, h1, h2, h3, _, _⟩ := uniqRands_perm (min q cs.length) cs.length r
  refine ⟨l, scanTick cs l now, h1, by simp [queueScanTick, h1], ?_, h3,
    scanTick_length cs l now, ?_⟩
  · rw [h2]; omega
  · intro i hi hi'
    rw [scanTick_getElem cs l now i hi hi']
    constructor
    · intro hm; rw [if_pos hm]
    · intro hm; rw [if_neg hm]

/-- with at most `selectionCount` channels EVERY channel is scanned on every tick: the tick never
panics, keeps the number of channels and their invariants, and afterwards no channel holds anything
due at the clock reading its worker took -/
theorem tick_scans_every_channel (q : Nat) (cs : List Chan) (r : Nat → Nat) (now : Nat → Int)
    (hn : cs.length ≤ q) (hinv : ∀ c ∈ cs, ChanInv c) :
    ∃ cs', queueScanTick q cs r now = some cs' ∧ cs'.length = cs.length ∧
      ∀ i (hi : i < cs'.length), ChanInv cs'[i] ∧ nothingDue cs'[i] (now i) = true := by
  obtain ⟨l, h1, _, _, _, h5⟩ := uniqRands_perm (min q cs.length) cs.length r
  have hperm : l.Perm (List.range cs.length) := h5 (by omega)
  refine ⟨scanTick cs l now, by simp [queueScanTick, h1], scanTick_length cs l now, ?_⟩
  intro i hi
  have hi' : i < cs.length := by rw [scanTick_length] at hi; exact hi
  have hm : i ∈ l := hperm.mem_iff.2 (List.mem_range.2 hi')
  rw [scanTick_getElem cs l now i hi hi', if_pos hm]
  have hs := scanChannel_spec cs[i] (hinv _ (List.getElem_mem hi')) (now i)
  exact ⟨hs.1, hs.2.1⟩

/-! ### non-vacuity -/

/-- two channels, each holding one deferred entry that is due at the reading its worker takes -/
def twoChans : List Chan :=
  [(startDeferred {} 0 7 5).1, (startDeferred {} 0 8 6).1]

theorem twoChans_inv : ∀ c ∈ twoChans, ChanInv c := by
  intro c hc
  simp only [twoChans, List.mem_cons, List.not_mem_nil, or_false] at hc
  rcases hc with rfl | rfl
  · exact (startDeferred_inv {} 0 7 5 inv_init).1
  · exact (startDeferred_inv {} 0 8 6 inv_init).1

/-- the tick with `q = 20` releases both (computed) -/
example :
    (queueScanTick 20 twoChans (fun i => 7 * i + 2) (fun _ => 10)).map
        (fun cs' => cs'.map fun c => (c.ready, keys c.dpq, nothingDue c 10)) =
      some [([7], [], true), ([8], [], true)] := by decide +kernel

/-- before the tick both hold something due -/
example : twoChans.map (fun c => nothingDue c 10) = [false, false] := by decide +kernel

/-- the theorem applies to that list -/
example : ∃ cs', queueScanTick 20 twoChans (fun i => 7 * i + 2) (fun _ => 10) = some cs' ∧
    cs'.length = 2 ∧
    ∀ i (hi : i < cs'.length), ChanInv cs'[i] ∧ nothingDue cs'[i] 10 = true :=
  tick_scans_every_channel 20 twoChans _ _ (by decide) twoChans_inv

end Nsq.Proofs.Tick
