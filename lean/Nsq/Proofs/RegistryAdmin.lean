import Nsq.Proofs.RegistryProto
import Nsq.Proofs.RegistryStar
/-! Which entries of the registry an accepted HTTP admin call of nsqlookupd touches (helpers of
`Nsq.Props.C15.admin_call_touches_only`, audit round 7 item C12). -/
namespace Nsq.Proofs.RegistryAdmin
open Nsq.Model.Registry Nsq.Model.Registry.AMap Nsq.Model.RegistryProto Nsq.Proofs.RegistryProto
open Nsq.Proofs.RegistryMap Nsq.Proofs.RegistryDB Nsq.Proofs.RegistryRefine Nsq.Spec.RegistrySpec Nsq.Proofs.RegistryStar

/-! ### What the admin calls touch -/

theorem delTouched_iff (t : Name) (k : Key) :
    (isMatch k .channel t star = true ∨ isMatch k .topic t [] = true) ↔ delTouched t k = true := by
  have hs : ([] : Name) ≠ star := by decide
  cases k with
  | mk cat key sub =>
    cases cat <;> simp [isMatch, delTouched, hs] <;> grind

theorem admin_peers (r : Registry) (a : HttpArgs) (now : Int) :
    (createTopic r a).1.peers = r.peers ∧ (deleteTopic r a).1.peers = r.peers ∧ (createChannel r a).1.peers = r.peers ∧
      (deleteChannel r a).1.peers = r.peers ∧ (tombstone r a now).1.peers = r.peers := by
  refine ⟨?_, ?_, ?_, ?_, ?_⟩
  · unfold createTopic; split <;> (try split) <;> (try split) <;> rfl
  · unfold deleteTopic; split <;> (try split) <;> rfl
  · unfold createChannel; split <;> (try split) <;> rfl
  · unfold deleteChannel; split <;> (try split) <;> (try split) <;> rfl
  · unfold tombstone; split <;> (try split) <;> (try split) <;> rfl

theorem getTopicChannelArgs_ok_eq (a : HttpArgs) (tc : TopicChan) (h : getTopicChannelArgs a = .ok tc) :
    a.topic = some tc.topic ∧ a.channel = some tc.chan := by
  unfold getTopicChannelArgs at h
  cases ht : a.topic with
  | none => simp [ht] at h
  | some t =>
    cases hc : a.channel with
    | none => simp only [ht, hc] at h; split at h <;> simp at h
    | some c =>
      simp only [ht, hc] at h
      split at h
      · simp at h
      · split at h
        · simp at h
        · simp only [Except.ok.injEq] at h
          subst h; exact ⟨rfl, rfl⟩

theorem create_getP (r : Registry) (a : HttpArgs) (k : Key) (q : Nat) :
    getP (createTopic r a).1.db k q = getP r.db k q ∧ getP (createChannel r a).1.db k q = getP r.db k q := by
  constructor
  · unfold createTopic; split <;> (try split) <;> (try split) <;> (try rfl)
    exact getP_addRegistration _ _ _ _
  · unfold createChannel; split <;> (try split) <;> (try rfl)
    simp only [getP_addRegistration]

theorem create_has (r : Registry) (a : HttpArgs) (k : Key) :
    (has r.db k = true → has (createTopic r a).1.db k = true ∧ has (createChannel r a).1.db k = true) ∧
    (has (createTopic r a).1.db k = true → has r.db k = true ∨ ∃ t, a.topic = some t ∧ k = topicKey t) ∧
    (has (createChannel r a).1.db k = true →
      has r.db k = true ∨ ∃ t c, a.topic = some t ∧ a.channel = some c ∧ (k = topicKey t ∨ k = chanKey t c)) := by
  refine ⟨?_, ?_, ?_⟩
  · intro h
    constructor
    · unfold createTopic; split <;> (try split) <;> (try split) <;> (try exact h)
      simp [has_addRegistration, h]
    · unfold createChannel; split <;> (try split) <;> (try exact h)
      simp [has_addRegistration, h]
  · unfold createTopic; split <;> (try split) <;> (try split) <;> (try exact fun h => Or.inl h)
    rename_i t ht _
    intro h
    simp only [has_addRegistration, Bool.or_eq_true, decide_eq_true_eq] at h
    cases h with
    | inl h => exact Or.inr ⟨t, ht, h.symm⟩
    | inr h => exact Or.inl h
  · unfold createChannel; split <;> (try split) <;> (try exact fun h => Or.inl h)
    rename_i tc hg
    obtain ⟨h1, h2⟩ := getTopicChannelArgs_ok_eq a tc hg
    intro h
    simp only [has_addRegistration, Bool.or_eq_true, decide_eq_true_eq] at h
    rcases h with h | h | h
    · exact Or.inr ⟨_, _, h1, h2, Or.inl h.symm⟩
    · exact Or.inr ⟨_, _, h1, h2, Or.inr h.symm⟩
    · exact Or.inl h

theorem deleteTopic_touches (r : Registry) (a : HttpArgs) (t : Name) (hok : (deleteTopic r a).2 = .ok)
    (ht : a.topic = some t) (k : Key) :
    (has (deleteTopic r a).1.db k = true ↔ has r.db k = true ∧ delTouched t k = false) ∧
    ∀ q, getP (deleteTopic r a).1.db k q = if delTouched t k then none else getP r.db k q := by
  unfold deleteTopic at hok ⊢
  by_cases hb : a.badQuery = true
  · simp [hb] at hok
  · simp only [hb, Bool.false_eq_true, if_false, ht]
    constructor
    · rw [has_deleteTopicDB]
      have := delTouched_iff t k
      grind
    · intro q
      rw [getP_deleteTopicDB]
      have := delTouched_iff t k
      by_cases hd : delTouched t k = true
      · simp [hd, this.mpr hd]
      · have hn : ¬ (isMatch k .channel t star = true ∨ isMatch k .topic t [] = true) := fun h => hd (this.mp h)
        simp [hd, hn]

theorem deleteChannel_touches (r : Registry) (a : HttpArgs) (t c : Name) (hok : (deleteChannel r a).2 = .ok)
    (ht : a.topic = some t) (hc : a.channel = some c) (k : Key) :
    has (deleteChannel r a).1.db k = (decide (k ≠ chanKey t c) && has r.db k) ∧
    ∀ q, getP (deleteChannel r a).1.db k q = if k = chanKey t c then none else getP r.db k q := by
  unfold deleteChannel at hok ⊢
  by_cases hb : a.badQuery = true
  · simp [hb] at hok
  · simp only [hb, Bool.false_eq_true, if_false] at hok ⊢
    cases hg : getTopicChannelArgs a with
    | error e =>
      simp only [hg] at hok
      unfold getTopicChannelArgs at hg
      simp only [ht, hc] at hg
      split at hg
      · simp only [Except.error.injEq] at hg; rw [← hg] at hok; simp at hok
      · split at hg
        · simp only [Except.error.injEq] at hg; rw [← hg] at hok; simp at hok
        · simp at hg
    | ok tc =>
      have hv := getTopicChannelArgs_ok a tc hg
      obtain ⟨e1, e2⟩ := getTopicChannelArgs_ok_eq a tc hg
      rw [ht] at e1; rw [hc] at e2
      simp only [Option.some.injEq] at e1 e2
      have hts := validName_ne_star _ hv.1
      have hcs := validName_ne_star _ hv.2
      rw [← e1] at hts; rw [← e2] at hcs
      have hm := fun k => isMatch_exactKey k t c hts hcs
      simp only [hg, ← e1, ← e2] at hok ⊢
      by_cases he : (findRegistrations r.db .channel t c).isEmpty = true
      · simp [he] at hok
      · simp only [he, Bool.false_eq_true, if_false]
        constructor
        · rw [has_removeRegistrations]
          by_cases hk : k = chanKey t c
          · subst hk
            cases hh : has r.db (chanKey t c) <;> simp [mem_findRegistrations, hm, hh]
          · simp [mem_findRegistrations, hm, hk]
        · intro q
          rw [getP_removeRegistrations]
          by_cases hk : k = chanKey t c
          · subst hk
            cases hh : has r.db (chanKey t c) with
            | true => simp [mem_findRegistrations, hm, hh]
            | false => simp [mem_findRegistrations, hm, hh, getP_none_of_not_has _ _ q hh]
          · simp [mem_findRegistrations, hm, hk]

theorem tombstone_touches (r : Registry) (a : HttpArgs) (now : Int) (t node : Name) (hok : (tombstone r a now).2 = .ok)
    (ht : a.topic = some t) (hn : a.node = some node) (k : Key) :
    has (tombstone r a now).1.db k = has r.db k ∧
    ∀ q, getP (tombstone r a now).1.db k q = getP r.db k q ∨
      (tombTouched r t node k q = true ∧ getP (tombstone r a now).1.db k q = (getP r.db k q).map (fun _ => ⟨true, now⟩)) := by
  have hs : ([] : Name) ≠ star := by decide
  unfold tombstone at hok ⊢
  by_cases hb : a.badQuery = true
  · simp [hb] at hok
  · simp only [hb, Bool.false_eq_true, if_false, ht, hn]
    by_cases hst : t = star
    · subst hst
      have e : tombstoneDB r star node now = tombstoneStarDB r (firstPick r.db) node now := by unfold tombstoneDB; simp
      rw [e]
      refine ⟨has_tombstoneStarDB r _ node now k, ?_⟩
      intro q
      rw [getP_tombstoneStarDB]
      by_cases hc : isMatch k .topic star [] = true ∧ firstPick r.db q = k.key ∧ nodeMatches r q node = true
      · right
        simp only [hc, and_self, if_true, and_true]
        obtain ⟨h1, _, h3⟩ := hc
        cases k with
        | mk cat key sub =>
          simp only [isMatch, Bool.and_eq_true, decide_eq_true_eq, Bool.or_eq_true, hs, false_or, true_or, and_true] at h1
          simp [tombTouched, h1.1.symm, h1.2, h3]
      · left; simp [hc]
    · refine ⟨has_tombstoneDB r t node now hst k, ?_⟩
      intro q
      rw [getP_tombstoneDB r t node now hst]
      by_cases hc : k = topicKey t ∧ nodeMatches r q node = true
      · right
        simp only [hc, and_self, if_true, and_true]
        simp [tombTouched, hc.1, topicKey, hc.2]
      · left; simp [hc]

end Nsq.Proofs.RegistryAdmin
