import Nsq.Model.RelayRedirect
/-!
Helper lemmas about `Nsq.Model.RelayRedirect.doReq` (the `http.Client.Do` model) for `Nsq.Props.C20Redirect`.
-/
namespace Nsq.Proofs.RelayRedirect
open Nsq.Model.Relay Nsq.Model.RelayRedirect

/-- the client of fix F45 makes exactly one request and reports its answer -/
theorem doReq_nofollow (w : World) (left ep : Nat) (post : Bool) (payload : Option Bytes) :
    doReq false w left ep post payload =
      ([⟨ep, post, payload, finalOf (w ep post payload)⟩], finalOf (w ep post payload)) := by
  cases left with
  | zero => unfold doReq; split <;> simp
  | succ n => unfold doReq; split <;> simp

theorem delivered_nofollow (post : Bool) (w : World) (a : Nat) (body : Bytes)
    (h : Http.accepts post (seenBy false post w body a) = true) : Delivered false post w a body := by
  unfold seenBy at h
  rw [doReq_nofollow] at h
  refine ⟨⟨a, post, some body, finalOf (w a post (some body))⟩, ?_, rfl, rfl, h⟩
  unfold wireOf
  rw [doReq_nofollow]
  simp

/-- no endpoint answers with a redirect that makes the following client drop the message:
redirects that are followed keep method and body (307/308) and occur only for POST -/
def NoLossyRedirect (post : Bool) (w : World) : Prop :=
  ∀ ep p pl nk, followUp (w ep p pl) = some nk → post = true ∧ nk.2 = true

/-- under `NoLossyRedirect` every request of a chain carries the message with the publisher's method, and the
status the publisher sees is the status of one of them (the last) -/
theorem doReq_keeps (post : Bool) (w : World) (body : Bytes) (h : NoLossyRedirect post w) (left ep : Nat) :
    (∀ x ∈ (doReq true w left ep post (some body)).1, x.payload = some body ∧ x.post = post) ∧
    (∀ s, (doReq true w left ep post (some body)).2 = some s →
      ∃ x ∈ (doReq true w left ep post (some body)).1, x.status = some s) := by
  induction left generalizing ep with
  | zero =>
    unfold doReq
    cases hf : followUp (w ep post (some body)) with
    | none =>
      simp only []
      exact ⟨fun x hx => by simp at hx; subst hx; exact ⟨rfl, rfl⟩,
             fun s hs => ⟨_, List.mem_singleton.mpr rfl, hs⟩⟩
    | some nk =>
      simp only [if_true]
      exact ⟨fun x hx => by simp at hx; subst hx; exact ⟨rfl, rfl⟩, fun s hs => by cases hs⟩
  | succ n ih =>
    unfold doReq
    cases hf : followUp (w ep post (some body)) with
    | none =>
      simp only []
      exact ⟨fun x hx => by simp at hx; subst hx; exact ⟨rfl, rfl⟩,
             fun s hs => ⟨_, List.mem_singleton.mpr rfl, hs⟩⟩
    | some nk =>
      simp only [if_true]
      obtain ⟨hp, hk⟩ := h ep post (some body) nk hf
      subst hp
      rw [hk]
      simp only [Bool.and_self, if_true]
      obtain ⟨ih1, ih2⟩ := ih nk.1
      refine ⟨fun x hx => ?_, fun s hs => ?_⟩
      · rcases List.mem_cons.mp hx with rfl | hx
        · exact ⟨rfl, rfl⟩
        · exact ih1 x hx
      · obtain ⟨x, hx, hst⟩ := ih2 s hs
        exact ⟨x, List.mem_cons_of_mem _ hx, hst⟩

theorem delivered_following (post : Bool) (w : World) (a : Nat) (body : Bytes) (h : NoLossyRedirect post w)
    (hacc : Http.accepts post (seenBy true post w body a) = true) : Delivered true post w a body := by
  unfold seenBy at hacc
  obtain ⟨h1, h2⟩ := doReq_keeps post w body h redirectLimit a
  cases hs : (doReq true w redirectLimit a post (some body)).2 with
  | none => rw [hs] at hacc; simp [Http.accepts] at hacc
  | some s =>
    obtain ⟨x, hx, hst⟩ := h2 s hs
    refine ⟨x, hx, (h1 x hx).1, (h1 x hx).2, ?_⟩
    rw [hst, ← hs]; exact hacc

end Nsq.Proofs.RelayRedirect
