import Nsq.Model.RelayRedirect
/-!
Helper lemmas about `Nsq.Model.RelayRedirect.doReq` (the `http.Client.Do` model) for `Nsq.Props.C20Redirect`.

What a `CheckRedirect` guarantees is stated on the `Check` (`MethodPreserving`, `Limited`, `NoError`) and proved for
the clients of fix F45 (`checkNever`) and fix F45b (`checkSameMethod`); what is needed from the destinations is
stated on the `World` (`KeepsQuery` — GET publisher only; `NoLossyRedirect` — for the client without `CheckRedirect`).
-/
namespace Nsq.Proofs.RelayRedirect
open Nsq.Model.Relay Nsq.Model.RelayRedirect

/-! ### properties of a `Check` -/

/-- the client follows only redirects for which net/http kept the method of the first request -/
def MethodPreserving (check : Check) : Prop := ∀ rp vp n, check rp vp n = .follow → rp = vp
/-- the client makes at most ten requests per `Do` -/
def Limited (check : Check) : Prop := ∀ rp vp n, check rp vp n = .follow → n < 10
/-- `CheckRedirect` never fails `Do`: the caller always gets the last answer -/
def NoError (check : Check) : Prop := ∀ rp vp n, check rp vp n ≠ .error

theorem methodPreserving_never : MethodPreserving checkNever := by
  intro rp vp n h; simp [checkNever] at h
theorem limited_never : Limited checkNever := by
  intro rp vp n h; simp [checkNever] at h
theorem noError_never : NoError checkNever := by
  intro rp vp n h; simp [checkNever] at h

theorem methodPreserving_sameMethod : MethodPreserving checkSameMethod := by
  intro rp vp n h
  unfold checkSameMethod at h
  by_cases hc : rp ≠ vp ∨ n ≥ 10
  · simp [hc] at h
  · simp only [not_or, ne_eq, Decidable.not_not] at hc; exact hc.1
theorem limited_sameMethod : Limited checkSameMethod := by
  intro rp vp n h
  unfold checkSameMethod at h
  by_cases hc : rp ≠ vp ∨ n ≥ 10
  · simp [hc] at h
  · simp only [not_or] at hc; omega
theorem noError_sameMethod : NoError checkSameMethod := by
  intro rp vp n h
  unfold checkSameMethod at h
  by_cases hc : rp ≠ vp ∨ n ≥ 10 <;> simp [hc] at h
/-- … and it follows EXACTLY those: a redirect that keeps the method is followed while fewer than ten requests were made -/
theorem sameMethod_follows_iff (rp vp : Bool) (n : Nat) :
    checkSameMethod rp vp n = .follow ↔ rp = vp ∧ n < 10 := by
  unfold checkSameMethod
  by_cases hc : rp ≠ vp ∨ n ≥ 10
  · simp only [hc, if_true]
    constructor
    · intro h; cases h
    · intro h; rcases hc with hc | hc
      · exact absurd h.1 hc
      · omega
  · simp only [hc, if_false, true_iff]
    simp only [not_or, ne_eq, Decidable.not_not] at hc
    exact ⟨hc.1, by omega⟩

theorem limited_default : Limited checkDefault := by
  intro rp vp n h
  unfold checkDefault at h
  by_cases hc : n ≥ 10
  · simp [hc] at h
  · omega

/-! ### the client of fix F45 -/

/-- the client of fix F45 makes exactly one request and reports its answer -/
theorem doReq_never (w : World) (post0 : Bool) (fuel nvia ep : Nat) (post : Bool) (payload : Option Bytes) :
    doReq checkNever w post0 (fuel + 1) nvia ep post payload =
      ([⟨ep, post, payload, finalOf (w ep post payload)⟩], finalOf (w ep post payload)) := by
  unfold doReq
  cases hf : followUp (w ep post payload) with
  | none => rfl
  | some lk => simp [checkNever]

theorem delivered_never (post : Bool) (w : World) (a : Nat) (body : Bytes)
    (h : Http.accepts post (seenBy checkNever post w body a) = true) : Delivered checkNever post w a body := by
  unfold seenBy redirectFuel at h
  rw [doReq_never] at h
  refine ⟨⟨a, post, some body, finalOf (w a post (some body))⟩, ?_, rfl, rfl, h⟩
  unfold wireOf redirectFuel
  rw [doReq_never]
  simp

/-! ### chains that keep the message -/

/-- every follow-up request that the client makes for an answer to a request carrying the message has the
publisher's method and carries the message again -/
def ChainKeeps (check : Check) (w : World) (post0 : Bool) (body : Bytes) : Prop :=
  ∀ ep lk n, followUp (w ep post0 (some body)) = some lk → check (post0 && lk.2) post0 n = .follow →
    (post0 && lk.2) = post0 ∧ nextPayload post0 lk (some body) = some body

/-- the destinations' `Location`s repeat the query of the GET they answer (GET publisher: the message is in the query) -/
def KeepsQuery (w : World) : Prop :=
  ∀ ep pl lk, followUp (w ep false pl) = some lk → lk.1.keepsQuery = true

/-- no endpoint answers with a redirect that makes the client without `CheckRedirect` drop the message:
redirects that are followed keep method and body (307/308) and occur only for POST -/
def NoLossyRedirect (post : Bool) (w : World) : Prop :=
  ∀ ep p pl lk, followUp (w ep p pl) = some lk → post = true ∧ lk.2 = true

/-- POST publisher: `MethodPreserving` alone is enough — net/http re-sends the body whenever it keeps the method -/
theorem chainKeeps_post (check : Check) (h : MethodPreserving check) (w : World) (body : Bytes) :
    ChainKeeps check w true body := by
  intro ep lk n _ hc
  have := h _ _ _ hc
  simp only [Bool.true_and] at this
  simp [nextPayload, this]

/-- GET publisher: the method never changes; the message survives iff the `Location` keeps the query -/
theorem chainKeeps_get (check : Check) (w : World) (hq : KeepsQuery w) (body : Bytes) :
    ChainKeeps check w false body := by
  intro ep lk n hf _
  simp [nextPayload, hq ep (some body) lk hf]

theorem chainKeeps_noLossy (check : Check) (post : Bool) (w : World) (h : NoLossyRedirect post w) (body : Bytes) :
    ChainKeeps check w post body := by
  intro ep lk n hf _
  obtain ⟨hp, hk⟩ := h ep post (some body) lk hf
  subst hp
  simp [nextPayload, hk]

/-- under `ChainKeeps` every request of a chain carries the message with the publisher's method, and the
status the publisher sees is the status of one of them (the last) -/
theorem doReq_keeps (check : Check) (post : Bool) (w : World) (body : Bytes) (h : ChainKeeps check w post body)
    (fuel nvia ep : Nat) :
    (∀ x ∈ (doReq check w post fuel nvia ep post (some body)).1, x.payload = some body ∧ x.post = post) ∧
    (∀ s, (doReq check w post fuel nvia ep post (some body)).2 = some s →
      ∃ x ∈ (doReq check w post fuel nvia ep post (some body)).1, x.status = some s) := by
  induction fuel generalizing nvia ep with
  | zero =>
    unfold doReq
    exact ⟨fun x hx => (by cases hx), fun s hs => (by cases hs)⟩
  | succ n ih =>
    unfold doReq
    cases hf : followUp (w ep post (some body)) with
    | none =>
      simp only []
      exact ⟨fun x hx => by simp at hx; subst hx; exact ⟨rfl, rfl⟩,
             fun s hs => ⟨_, List.mem_singleton.mpr rfl, hs⟩⟩
    | some lk =>
      simp only []
      cases hc : check (post && lk.2) post (nvia + 1) with
      | useLast =>
        simp only []
        exact ⟨fun x hx => by simp at hx; subst hx; exact ⟨rfl, rfl⟩,
               fun s hs => ⟨_, List.mem_singleton.mpr rfl, hs⟩⟩
      | error =>
        simp only []
        exact ⟨fun x hx => by simp at hx; subst hx; exact ⟨rfl, rfl⟩, fun s hs => by cases hs⟩
      | follow =>
        simp only []
        obtain ⟨hp, hpl⟩ := h ep lk (nvia + 1) hf hc
        rw [hp, hpl]
        obtain ⟨ih1, ih2⟩ := ih (nvia + 1) lk.1.ep
        refine ⟨fun x hx => ?_, fun s hs => ?_⟩
        · rcases List.mem_cons.mp hx with rfl | hx
          · exact ⟨rfl, rfl⟩
          · exact ih1 x hx
        · obtain ⟨x, hx, hst⟩ := ih2 s hs
          exact ⟨x, List.mem_cons_of_mem _ hx, hst⟩

theorem delivered_of_keeps (check : Check) (post : Bool) (w : World) (a : Nat) (body : Bytes)
    (h : ChainKeeps check w post body)
    (hacc : Http.accepts post (seenBy check post w body a) = true) : Delivered check post w a body := by
  unfold seenBy at hacc
  obtain ⟨h1, h2⟩ := doReq_keeps check post w body h redirectFuel 0 a
  cases hs : (doReq check w post redirectFuel 0 a post (some body)).2 with
  | none => rw [hs] at hacc; simp [Http.accepts] at hacc
  | some s =>
    obtain ⟨x, hx, hst⟩ := h2 s hs
    refine ⟨x, hx, (h1 x hx).1, (h1 x hx).2, ?_⟩
    rw [hst, ← hs]; exact hacc

/-! ### what holds for a method-preserving client whatever the `Location`s say -/

/-- every request of the chain has the publisher's method, and the status the publisher sees is the answer to the
last request of the chain -/
theorem doReq_chain (check : Check) (h : MethodPreserving check) (post : Bool) (w : World)
    (fuel nvia ep : Nat) (payload : Option Bytes) :
    (∀ x ∈ (doReq check w post fuel nvia ep post payload).1, x.post = post) ∧
    (∀ s, (doReq check w post fuel nvia ep post payload).2 = some s →
      ((doReq check w post fuel nvia ep post payload).1.getLast?.bind (·.status)) = some s) := by
  induction fuel generalizing nvia ep payload with
  | zero =>
    unfold doReq
    exact ⟨fun x hx => (by cases hx), fun s hs => (by cases hs)⟩
  | succ n ih =>
    unfold doReq
    cases hf : followUp (w ep post payload) with
    | none =>
      simp only []
      exact ⟨fun x hx => by simp at hx; subst hx; rfl, fun s hs => by simpa using hs⟩
    | some lk =>
      simp only []
      cases hc : check (post && lk.2) post (nvia + 1) with
      | useLast =>
        simp only []
        exact ⟨fun x hx => by simp at hx; subst hx; rfl, fun s hs => by simpa using hs⟩
      | error =>
        simp only []
        exact ⟨fun x hx => by simp at hx; subst hx; rfl, fun s hs => by cases hs⟩
      | follow =>
        simp only []
        rw [h _ _ _ hc]
        obtain ⟨ih1, ih2⟩ := ih (nvia + 1) lk.1.ep (nextPayload post lk payload)
        refine ⟨fun x hx => ?_, fun s hs => ?_⟩
        · rcases List.mem_cons.mp hx with rfl | hx
          · rfl
          · exact ih1 x hx
        · have hl := ih2 s hs
          cases hw : (doReq check w post n (nvia + 1) lk.1.ep post (nextPayload post lk payload)).1 with
          | nil => rw [hw] at hl; simp at hl
          | cons y ys => rw [hw] at hl; simpa [List.getLast?_cons_cons] using hl

/-- the first request of a chain is the publisher's own: to the configured address, carrying the message -/
theorem doReq_head (check : Check) (w : World) (post0 : Bool) (fuel nvia ep : Nat) (post : Bool) (payload : Option Bytes) :
    (doReq check w post0 (fuel + 1) nvia ep post payload).1.head? =
      some ⟨ep, post, payload, finalOf (w ep post payload)⟩ := by
  unfold doReq
  cases hf : followUp (w ep post payload) with
  | none => rfl
  | some lk =>
    simp only []
    cases hc : check (post && lk.2) post0 (nvia + 1) <;> rfl

/-! ### the ten-request limit -/

/-- a `Limited` client never makes more than ten requests -/
theorem doReq_length (check : Check) (h : Limited check) (w : World) (post0 : Bool) (fuel nvia ep : Nat) (post : Bool)
    (payload : Option Bytes) (hn : nvia < 10) :
    (doReq check w post0 fuel nvia ep post payload).1.length ≤ 10 - nvia := by
  induction fuel generalizing nvia ep post payload with
  | zero => unfold doReq; simp
  | succ n ih =>
    unfold doReq
    cases hf : followUp (w ep post payload) with
    | none => simp only [List.length_singleton]; omega
    | some lk =>
      simp only []
      cases hc : check (post && lk.2) post0 (nvia + 1) with
      | useLast => simp only [List.length_singleton]; omega
      | error => simp only [List.length_singleton]; omega
      | follow =>
        simp only [List.length_cons]
        have hlt := h _ _ _ hc
        have := ih (nvia + 1) lk.1.ep (post && lk.2) (nextPayload post lk payload) hlt
        omega

/-- … so the `fuel` of the model (the request timeout that would end an endless chain) is never what stops it:
any fuel ≥ 10 − `nvia` gives the same chain -/
theorem doReq_fuel_irrelevant (check : Check) (h : Limited check) (w : World) (post0 : Bool) (fuel nvia ep : Nat)
    (post : Bool) (payload : Option Bytes) (hn : nvia < 10) (hfuel : 10 - nvia ≤ fuel) :
    doReq check w post0 fuel nvia ep post payload = doReq check w post0 (10 - nvia) nvia ep post payload := by
  induction fuel generalizing nvia ep post payload with
  | zero => omega
  | succ n ih =>
    obtain ⟨k, hk⟩ : ∃ k, 10 - nvia = k + 1 := ⟨9 - nvia, by omega⟩
    rw [hk]
    unfold doReq
    cases hf : followUp (w ep post payload) with
    | none => rfl
    | some lk =>
      simp only []
      cases hc : check (post && lk.2) post0 (nvia + 1) with
      | useLast => rfl
      | error => rfl
      | follow =>
        simp only []
        have hlt := h _ _ _ hc
        have hk' : k = 10 - (nvia + 1) := by omega
        rw [ih (nvia + 1) lk.1.ep (post && lk.2) (nextPayload post lk payload) hlt (by omega), hk']

/-- a client whose `CheckRedirect` is `Limited` and never an error hands the caller the answer to the LAST request it
made — in particular the 3xx answer to its tenth request -/
theorem doReq_seen_is_last (check : Check) (hl : Limited check) (he : NoError check) (w : World) (post0 : Bool)
    (fuel nvia ep : Nat) (post : Bool) (payload : Option Bytes) (hn : nvia < 10) (hfuel : 10 - nvia ≤ fuel) :
    (doReq check w post0 fuel nvia ep post payload).2 =
      (doReq check w post0 fuel nvia ep post payload).1.getLast?.bind (·.status) := by
  induction fuel generalizing nvia ep post payload with
  | zero => omega
  | succ n ih =>
    unfold doReq
    cases hf : followUp (w ep post payload) with
    | none => simp
    | some lk =>
      simp only []
      cases hc : check (post && lk.2) post0 (nvia + 1) with
      | useLast => simp
      | error => exact absurd hc (he _ _ _)
      | follow =>
        simp only []
        have hlt := hl _ _ _ hc
        rw [ih (nvia + 1) lk.1.ep (post && lk.2) (nextPayload post lk payload) hlt (by omega)]
        obtain ⟨m, hm⟩ : ∃ m, n = m + 1 := ⟨n - 1, by omega⟩
        have hh := doReq_head check w post0 m (nvia + 1) lk.1.ep (post && lk.2) (nextPayload post lk payload)
        rw [← hm] at hh
        cases hw : (doReq check w post0 n (nvia + 1) lk.1.ep (post && lk.2) (nextPayload post lk payload)).1 with
        | nil => rw [hw] at hh; simp at hh
        | cons y ys => simp [List.getLast?_cons_cons]

end Nsq.Proofs.RelayRedirect
