/-
Order-theoretic facts about nsqadmin's comparators (`Nsq.Model.ViewOrder`).
-/
import Nsq.Model.ViewOrder

namespace Nsq.Proofs.ViewOrder
open Nsq.Model.ViewOrder

/-- What `sort.Sort` needs of `Less` to promise a sorted result: a strict weak order. -/
structure StrictWeakOrder {α : Type} (lt : α → α → Bool) : Prop where
  irrefl : ∀ a, lt a a = false
  trans : ∀ a b c, lt a b = true → lt b c = true → lt a c = true
  /-- incomparability is transitive (negative transitivity) -/
  negTrans : ∀ a b c, lt a b = false → lt b c = false → lt a c = false

theorem StrictWeakOrder.asymm {α : Type} {lt : α → α → Bool} (h : StrictWeakOrder lt) (a b : α)
    (hab : lt a b = true) : lt b a = false := by
  cases hba : lt b a with
  | false => rfl
  | true =>
    have := h.trans a b a hab hba
    rw [h.irrefl a] at this
    cases this

theorem hostLess_swo : StrictWeakOrder hostLess where
  irrefl a := by simp [hostLess, String.lt_irrefl]
  trans a b c h1 h2 := by
    simp only [hostLess, decide_eq_true_eq] at *
    exact String.lt_trans h1 h2
  negTrans a b c h1 h2 := by
    simp only [hostLess, decide_eq_false_iff_not, String.not_lt] at *
    exact String.le_trans h2 h1

/-- A strict weak order seen through a key (`x[i].Hostname`) is one. -/
theorem swo_on {α β : Type} {lt : β → β → Bool} (h : StrictWeakOrder lt) (f : α → β) :
    StrictWeakOrder (fun a b => lt (f a) (f b)) where
  irrefl a := h.irrefl (f a)
  trans a b c := h.trans (f a) (f b) (f c)
  negTrans a b c := h.negTrans (f a) (f b) (f c)

/-- Two clients of one node that are both in the node's own zone. -/
def k0 : ClientKey := ⟨"N0", "r", "z", "r", "z"⟩

theorem topoLess_not_irrefl : topoLess k0 k0 = true := by decide

theorem topoLess_not_swo : ¬ StrictWeakOrder topoLess := fun h => by
  have := h.irrefl k0
  rw [topoLess_not_irrefl] at this
  cases this

/-- Same node, same closeness class 0 or 1: each is "less" than the other. -/
theorem topoLess_both_of_close (a b : ClientKey) (hn : a.node = b.node)
    (hr : a.nodeRegion = b.nodeRegion) (hz : a.nodeZone = b.nodeZone)
    (hc : cls a = cls b) (h1 : cls a ≤ 1) : topoLess a b = true ∧ topoLess b a = true := by
  obtain ⟨an, ar, az, r1, z1⟩ := a
  obtain ⟨bn, br, bz, r2, z2⟩ := b
  simp only at hn hr hz
  subst hn hr hz
  unfold cls at hc h1
  unfold topoLess
  simp only [beq_self_eq_true, if_true] at *
  by_cases ha0 : (r1 == ar && z1 == az) = true <;> by_cases hb0 : (r2 == ar && z2 == az) = true <;>
    by_cases ha1 : (r1 == ar) = true <;> by_cases hb1 : (r2 == ar) = true <;>
    simp_all

/-- Different nodes: the comparator is the strict order on `Node`, asymmetric. -/
theorem topoLess_other_node (a b : ClientKey) (hn : a.node ≠ b.node) :
    topoLess a b = decide (a.node < b.node) := by
  unfold topoLess
  have : (a.node == b.node) = false := by simpa using hn
  simp [this]

/-- Clients of different nodes never stand in the symmetric relation: across nodes the order is well defined. -/
theorem topoLess_asymm_across_nodes (a b : ClientKey) (hn : a.node ≠ b.node)
    (h : topoLess a b = true) : topoLess b a = false := by
  rw [topoLess_other_node a b hn] at h
  rw [topoLess_other_node b a (fun e => hn e.symm)]
  simp only [decide_eq_true_eq] at h
  simp only [decide_eq_false_iff_not]
  exact String.lt_asymm h

/-- "Sorted" as `sort.Sort` promises it for a strict weak order: no later element is less than an earlier one. -/
def SortedBy {α : Type} (lt : α → α → Bool) (l : List α) : Prop := l.Pairwise (fun a b => lt b a = false)

/-- For the by-hostname comparators the sequence of hostnames of the sorted list is determined by its
contents: whatever (unstable) algorithm produced it, two sorted arrangements of the same reports show the
same hostnames at the same positions (reports with equal hostnames may be exchanged). -/
theorem sortedBy_host_determined {α : Type} (f : α → String) (l₁ l₂ : List α) (hp : l₁.Perm l₂)
    (h₁ : SortedBy (fun a b => hostLess (f a) (f b)) l₁)
    (h₂ : SortedBy (fun a b => hostLess (f a) (f b)) l₂) : l₁.map f = l₂.map f := by
  have conv : ∀ l : List α, SortedBy (fun a b => hostLess (f a) (f b)) l → (l.map f).Pairwise (· ≤ ·) := by
    intro l h
    rw [List.pairwise_map]
    refine h.imp ?_
    intro a b hab
    simp only [hostLess, decide_eq_false_iff_not, String.not_lt] at hab
    exact hab
  refine List.Perm.eq_of_pairwise (le := (· ≤ ·)) ?_ (conv l₁ h₁) (conv l₂ h₂) (hp.map f)
  intro a b _ _ hab hba
  exact String.le_antisymm hab hba

end Nsq.Proofs.ViewOrder
