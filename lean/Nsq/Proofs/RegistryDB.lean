import Nsq.Proofs.RegistryMap
import Nsq.Spec.RegistrySpec
/-! Effect of every `RegistrationDB` method of the model on the two observations
`has db k` (key exists) and `getP db k id` (producer entry). No well-formedness needed. -/
namespace Nsq.Proofs.RegistryDB
open Nsq.Model.Registry Nsq.Model.Registry.AMap Nsq.Proofs.RegistryMap Nsq.Spec.RegistrySpec

theorem has_addRegistration (db : DB) (k k' : Key) :
    has (addRegistration db k) k' = (decide (k = k') || has db k') := by
  unfold addRegistration has
  cases h : mget db k with
  | some pm =>
    by_cases hk : k = k'
    · subst hk; simp [h]
    · simp [hk]
  | none =>
    simp only [mget_mset]
    by_cases hk : k = k' <;> simp [hk]

theorem getP_addRegistration (db : DB) (k k' : Key) (id : Nat) :
    getP (addRegistration db k) k' id = getP db k' id := by
  unfold addRegistration getP
  cases h : mget db k with
  | some pm => rfl
  | none =>
    simp only [mget_mset]
    by_cases hk : k = k'
    · subst hk; simp [h]
    · simp [hk]

theorem has_addProducer (db : DB) (k k' : Key) (id : Nat) :
    has (addProducer db k id) k' = (decide (k = k') || has db k') := by
  unfold addProducer has
  cases h : mget db k with
  | none =>
    simp only [mget_mset]
    by_cases hk : k = k' <;> simp [hk]
  | some pm =>
    cases h2 : mget pm id with
    | some _ =>
      simp only [h2]
      by_cases hk : k = k'
      · subst hk; simp [h]
      · simp [hk]
    | none =>
      simp only [h2, mget_mset]
      by_cases hk : k = k' <;> simp [hk]

theorem getP_addProducer (db : DB) (k k' : Key) (id id' : Nat) :
    getP (addProducer db k id) k' id' =
      if k = k' ∧ id = id' ∧ getP db k id = none then some fresh else getP db k' id' := by
  unfold addProducer getP
  cases h : mget db k with
  | none =>
    simp only [mget_mset]
    by_cases hk : k = k'
    · subst hk
      by_cases hi : id = id'
      · subst hi; simp [h, mget]
      · simp [h, mget, hi]
    · simp [hk]
  | some pm =>
    cases h2 : mget pm id with
    | some tb =>
      simp only [h2]
      by_cases hk : k = k'
      · subst hk; simp [h, h2]
      · simp [hk]
    | none =>
      simp only [h2, mget_mset]
      by_cases hk : k = k'
      · subst hk
        by_cases hi : id = id'
        · subst hi; simp [h, h2, mget_mset]
        · simp [h, h2, mget_mset, hi]
      · simp [hk]

theorem has_removeProducer (db : DB) (k k' : Key) (id : Nat) :
    has (removeProducer db k id) k' = has db k' := by
  unfold removeProducer has
  cases h : mget db k with
  | none => rfl
  | some pm =>
    simp only [mget_mset]
    by_cases hk : k = k'
    · subst hk; simp [h]
    · simp [hk]

theorem getP_removeProducer (db : DB) (k k' : Key) (id id' : Nat) :
    getP (removeProducer db k id) k' id' = if k = k' ∧ id = id' then none else getP db k' id' := by
  unfold removeProducer getP
  cases h : mget db k with
  | none =>
    by_cases hk : k = k'
    · subst hk; simp [h]
    · simp [hk]
  | some pm =>
    simp only [mget_mset]
    by_cases hk : k = k'
    · subst hk
      by_cases hi : id = id'
      · subst hi; simp [mget_mdel]
      · simp [h, mget_mdel, hi]
    · simp [hk]

theorem has_removeRegistration (db : DB) (k k' : Key) :
    has (removeRegistration db k) k' = (!decide (k = k') && has db k') := by
  unfold removeRegistration has
  rw [mget_mdel]
  by_cases hk : k = k' <;> simp [hk]

theorem getP_removeRegistration (db : DB) (k k' : Key) (id : Nat) :
    getP (removeRegistration db k) k' id = if k = k' then none else getP db k' id := by
  unfold removeRegistration getP
  rw [mget_mdel]
  by_cases hk : k = k' <;> simp [hk]

theorem mget_eq_nil_iff {α β : Type} [DecidableEq α] (m : List (α × β)) :
    m.length = 0 ↔ ∀ q, mget m q = none := by
  cases m with
  | nil => simp
  | cons e m =>
    simp only [List.length_cons, Nat.add_eq_zero_iff, Nat.succ_ne_self, and_false, false_iff]
    intro h
    have := h e.1
    simp [mget] at this

/-- `left == 0` after `RemoveProducer(k, id)`: nobody but `id` was registered under `k` -/
theorem left_zero_iff (db : DB) (k : Key) (id : Nat) :
    leftAfterRemove db k id = 0 ↔ ∀ q, q ≠ id → getP db k q = none := by
  unfold leftAfterRemove getP
  cases h : mget db k with
  | none => simp
  | some pm =>
    simp only [Option.bind_some]
    rw [mget_eq_nil_iff]
    constructor
    · intro hq q hne
      have := hq q
      rw [mget_mdel] at this
      have hne' : ¬ id = q := fun x => hne x.symm
      simpa [hne'] using this
    · intro hq q
      rw [mget_mdel]
      by_cases hi : id = q
      · simp [hi]
      · simp only [hi, if_false]
        exact hq q (fun x => hi x.symm)

theorem has_removeProducerAll (db : DB) (ks : List Key) (id : Nat) (k' : Key) :
    has (removeProducerAll db ks id) k' = has db k' := by
  unfold removeProducerAll
  induction ks generalizing db with
  | nil => rfl
  | cons k ks ih => simp only [List.foldl_cons]; rw [ih, has_removeProducer]

theorem getP_removeProducerAll (db : DB) (ks : List Key) (id : Nat) (k' : Key) (id' : Nat) :
    getP (removeProducerAll db ks id) k' id' = if k' ∈ ks ∧ id = id' then none else getP db k' id' := by
  unfold removeProducerAll
  induction ks generalizing db with
  | nil => simp
  | cons k ks ih =>
    simp only [List.foldl_cons, List.mem_cons]
    rw [ih, getP_removeProducer]
    by_cases h1 : k' ∈ ks <;> by_cases h2 : id = id' <;> by_cases h3 : k = k' <;> simp [h1, h2, h3]
    all_goals (first | (intro h; exact absurd h.symm h3) | skip)

theorem has_removeRegistrations (db : DB) (ks : List Key) (k' : Key) :
    has (removeRegistrations db ks) k' = (!decide (k' ∈ ks) && has db k') := by
  unfold removeRegistrations
  induction ks generalizing db with
  | nil => simp
  | cons k ks ih =>
    simp only [List.foldl_cons, List.mem_cons]
    rw [ih, has_removeRegistration]
    by_cases h1 : k' ∈ ks <;> by_cases h3 : k = k' <;> simp [h1, h3]
    all_goals (first | (intro _ h; exact absurd h.symm h3) | (intro h; exact absurd h.symm h3) | skip)

theorem getP_removeRegistrations (db : DB) (ks : List Key) (k' : Key) (id : Nat) :
    getP (removeRegistrations db ks) k' id = if k' ∈ ks then none else getP db k' id := by
  unfold removeRegistrations
  induction ks generalizing db with
  | nil => simp
  | cons k ks ih =>
    simp only [List.foldl_cons, List.mem_cons]
    rw [ih, getP_removeRegistration]
    by_cases h1 : k' ∈ ks <;> by_cases h3 : k = k' <;> simp [h1, h3]
    all_goals (first | (intro h; exact absurd h.symm h3) | skip)

theorem isMatch_exact (k : Key) (cat : Cat) (key sub : Name) (h : needFilter key sub = false) :
    isMatch k cat key sub = true ↔ k = ⟨cat, key, sub⟩ := by
  unfold needFilter at h
  simp only [Bool.or_eq_false_iff, decide_eq_false_iff_not] at h
  unfold isMatch
  cases k with
  | mk c a b =>
    simp only [h.1, h.2, decide_false, Bool.false_or, Bool.and_eq_true, decide_eq_true_eq, Key.mk.injEq]
    constructor
    · intro ⟨⟨h1, h2⟩, h3⟩; exact ⟨h1.symm, h2, h3⟩
    · intro ⟨h1, h2, h3⟩; exact ⟨⟨h1.symm, h2⟩, h3⟩

/-- `FindRegistrations` returns exactly the existing keys that match (both code paths) -/
theorem mem_findRegistrations (db : DB) (cat : Cat) (key sub : Name) (k : Key) :
    k ∈ findRegistrations db cat key sub ↔ has db k = true ∧ isMatch k cat key sub = true := by
  unfold findRegistrations
  cases hf : needFilter key sub with
  | true =>
    simp only [if_true, List.mem_filter, mem_mkeys_iff, has]
  | false =>
    simp only [Bool.false_eq_true, if_false]
    rw [isMatch_exact k cat key sub hf]
    cases hg : mget db ⟨cat, key, sub⟩ with
    | some pm =>
      simp only [List.mem_singleton]
      constructor
      · intro h; subst h; simp [has, hg]
      · intro h; exact h.2
    | none =>
      simp only [List.not_mem_nil, false_iff, not_and]
      intro h1 h2
      subst h2
      simp [has, hg] at h1

/-- every key under which `id` is registered is found by `LookupRegistrations(id)` -/
theorem mem_lookupRegistrations_of (db : DB) (id : Nat) (k : Key) (h : (getP db k id).isSome = true) :
    k ∈ lookupRegistrations db id := by
  unfold lookupRegistrations
  unfold getP at h
  cases hg : mget db k with
  | none => simp [hg] at h
  | some pm =>
    simp only [hg, Option.bind_some] at h
    simp only [List.mem_map, List.mem_filter]
    exact ⟨(k, pm), ⟨mget_mem db k pm hg, h⟩, rfl⟩

/-- with unique keys the converse holds as well -/
theorem mem_lookupRegistrations_iff (db : DB) (id : Nat) (k : Key) (hn : (mkeys db).Nodup) :
    k ∈ lookupRegistrations db id ↔ (getP db k id).isSome = true := by
  constructor
  · intro h
    unfold lookupRegistrations at h
    simp only [List.mem_map, List.mem_filter] at h
    obtain ⟨e, ⟨he, hs⟩, hk⟩ := h
    have : mget db k = some e.2 := by
      apply mget_of_mem_nodup db k e.2 hn
      rw [← hk]; exact he
    simp [getP, this, hs]
  · exact mem_lookupRegistrations_of db id k

/-- mapping the values of a map keeps the keys -/
theorem mget_map_val {α β : Type} [DecidableEq α] (m : List (α × β)) (f : α → β → β) (k : α) :
    mget (m.map (fun e => (e.1, f e.1 e.2))) k = (mget m k).map (f k) := by
  induction m with
  | nil => rfl
  | cons e m ih =>
    simp only [List.map_cons, mget]
    by_cases h : e.1 = k
    · subst h; simp
    · simp [h, ih]

end Nsq.Proofs.RegistryDB
