import Nsq.Model.Aggregate
import Nsq.Proofs.AggregateDecode
/-!
With every guard of `Fixes.all` in place no function of the view model returns a `Fault`:
helper lemmas for `Nsq.Props.C18.view_no_panic`.
-/
namespace Nsq.Proofs.AggregateSafe
open Nsq.Model.Aggregate

@[simp] theorem all_tombBounds : Fixes.all.tombBounds = true := rfl
@[simp] theorem all_nilElems : Fixes.all.nilElems = true := rfl
@[simp] theorem all_nilE2e : Fixes.all.nilE2e = true := rfl
@[simp] theorem all_chanNotFound : Fixes.all.chanNotFound = true := rfl

theorem tombAt_ok (tombs : List Bool) (i : Nat) : ∃ b, tombAt Fixes.all tombs i = .ok b := by
  unfold tombAt
  cases h : tombs[i]? <;> simp

theorem zipTombs_ok (tombs : List Bool) (ts : List String) : ∀ i, ∃ r, zipTombs Fixes.all tombs ts i = .ok r := by
  induction ts with
  | nil => intro i; exact ⟨[], rfl⟩
  | cons t rest ih =>
    intro i
    obtain ⟨b, hb⟩ := tombAt_ok tombs i
    obtain ⟨r, hr⟩ := ih (i + 1)
    simp only [zipTombs, hb, hr]
    exact ⟨_, rfl⟩

theorem unmarshalProducer_ok (p : ProducerJSON) : ∃ q, unmarshalProducer Fixes.all p = .ok q := by
  obtain ⟨r, hr⟩ := zipTombs_ok p.tombstones p.topics 0
  simp only [unmarshalProducer, hr]
  exact ⟨_, rfl⟩

theorem unmarshalProducers_ok (ps : List (Option ProducerJSON)) : ∃ r, unmarshalProducers Fixes.all ps = .ok r := by
  induction ps with
  | nil => exact ⟨[], rfl⟩
  | cons p rest ih =>
    obtain ⟨r, hr⟩ := ih
    cases p with
    | none =>
      simp only [unmarshalProducers, hr]
      exact ⟨_, rfl⟩
    | some p =>
      obtain ⟨q, hq⟩ := unmarshalProducer_ok p
      simp only [unmarshalProducers, hq, hr]
      exact ⟨_, rfl⟩

theorem mergeProducers_ok (lk : String) (ps : List (Option Producer)) :
    ∀ acc, ∃ r, mergeProducers Fixes.all lk ps acc = .ok r := by
  induction ps with
  | nil => intro acc; exact ⟨acc, rfl⟩
  | cons p rest ih =>
    intro acc
    cases p with
    | none => simpa [mergeProducers] using ih acc
    | some p =>
      unfold mergeProducers
      simp only []
      split
      · exact ih _
      · exact ih _

theorem lookupdProducersGo_ok (ls : List Lookupd) :
    ∀ acc failed, ∃ r, lookupdProducersGo Fixes.all ls acc failed = .ok r := by
  induction ls with
  | nil => intro acc failed; exact ⟨(acc, failed), rfl⟩
  | cons l rest ih =>
    intro acc failed
    unfold lookupdProducersGo
    cases hn : l.nodes with
    | none => simpa using ih acc (failed + 1)
    | some ps =>
      obtain ⟨dec, hdec⟩ := unmarshalProducers_ok ps
      obtain ⟨acc', hacc⟩ := mergeProducers_ok l.addr dec acc
      simpa [hdec, hacc] using ih acc' failed

theorem lookupdProducers_ok (ls : List Lookupd) : ∃ r, lookupdProducers Fixes.all ls = .ok r := by
  obtain ⟨⟨ps, failed⟩, h⟩ := lookupdProducersGo_ok ls [] 0
  unfold lookupdProducers
  simp only [h]
  split <;> exact ⟨_, rfl⟩

theorem getProducers_ok (w : World) : ∃ r, getProducers Fixes.all w = .ok r := by
  unfold getProducers
  split
  · exact lookupdProducers_ok _
  · exact ⟨_, rfl⟩

theorem mergeTopicProducers_ok (ps : List (Option Producer)) :
    ∀ acc, ∃ r, mergeTopicProducers Fixes.all ps acc = .ok r := by
  induction ps with
  | nil => intro acc; exact ⟨acc, rfl⟩
  | cons p rest ih =>
    intro acc
    cases p with
    | none => simpa [mergeTopicProducers] using ih acc
    | some p =>
      unfold mergeTopicProducers
      split
      · exact ih _
      · exact ih _

theorem lookupdTopicProducersGo_ok (ls : List Lookupd) :
    ∀ acc failed, ∃ r, lookupdTopicProducersGo Fixes.all ls acc failed = .ok r := by
  induction ls with
  | nil => intro acc failed; exact ⟨(acc, failed), rfl⟩
  | cons l rest ih =>
    intro acc failed
    unfold lookupdTopicProducersGo
    cases hn : l.lookup with
    | none => simpa using ih acc (failed + 1)
    | some ps =>
      obtain ⟨dec, hdec⟩ := unmarshalProducers_ok ps
      obtain ⟨acc', hacc⟩ := mergeTopicProducers_ok dec acc
      simpa [hdec, hacc] using ih acc' failed

theorem getTopicProducers_ok (w : World) (topic : String) : ∃ r, getTopicProducers Fixes.all w topic = .ok r := by
  unfold getTopicProducers
  split
  · obtain ⟨⟨ps, failed⟩, h⟩ := lookupdTopicProducersGo_ok w.lookupds [] 0
    unfold lookupdTopicProducers
    simp only [h]
    split <;> exact ⟨_, rfl⟩
  · exact ⟨_, rfl⟩

theorem lookupdTopicProducers_ok (ls : List Lookupd) : ∃ r, lookupdTopicProducers Fixes.all ls = .ok r := by
  obtain ⟨⟨ps, failed⟩, h⟩ := lookupdTopicProducersGo_ok ls [] 0
  unfold lookupdTopicProducers
  simp only [h]
  split <;> exact ⟨_, rfl⟩

theorem inactiveStep_ok (w : World) (t : String) : ∃ r, inactiveStep Fixes.all w t = .ok r := by
  unfold inactiveStep
  obtain ⟨r, h⟩ := lookupdTopicProducers_ok (lookupdsFor w t)
  simp only [h]
  cases r with
  | allFailed => exact ⟨_, rfl⟩
  | got ps f1 =>
    simp only []
    split
    · exact ⟨_, rfl⟩
    · split <;> exact ⟨_, rfl⟩

theorem inactiveGo_ok (w : World) (ts : List String) : ∃ r, inactiveGo Fixes.all w ts = .ok r := by
  induction ts with
  | nil => exact ⟨_, rfl⟩
  | cons t rest ih =>
    unfold inactiveGo
    obtain ⟨r, h⟩ := inactiveStep_ok w t
    obtain ⟨r2, h2⟩ := ih
    simp only [h]
    cases r with
    | none => exact ⟨_, rfl⟩
    | some x =>
      obtain ⟨c, wn⟩ := x
      simp only [h2]
      cases r2 with
      | none => exact ⟨_, rfl⟩
      | some y => exact ⟨_, rfl⟩

theorem chanAgg_add_ok (c : ChanAgg) (a : ChanNode) : ∃ r, c.add Fixes.all a = .ok r := by
  unfold ChanAgg.add
  simp only [all_nilE2e, Bool.not_true, Bool.and_false, Bool.false_eq_true, if_false]
  exact ⟨_, rfl⟩

theorem clientsOf_ok (node : String) (cl : List (Option Client)) : ∃ r, clientsOf Fixes.all node cl = .ok r := by
  induction cl with
  | nil => exact ⟨[], rfl⟩
  | cons c rest ih =>
    obtain ⟨r, hr⟩ := ih
    cases c with
    | none =>
      simp only [clientsOf, all_nilElems, if_true, hr]
      exact ⟨_, rfl⟩
    | some c =>
      simp only [clientsOf, hr]
      exact ⟨_, rfl⟩

/-- Nothing in a report's `NodeStats` when it leaves GetNSQDStats (F54). -/
def CleanNodes (as : List ChanNode) : Prop := ∀ a ∈ as, a.upNodes = []
def CleanTs (ts : List TopicNode) : Prop := ∀ t ∈ ts, CleanNodes t.channels
def CleanAggs (cs : List ChanAgg) : Prop := ∀ c ∈ cs, c.junk = []

theorem cleanTs_append {a b : List TopicNode} (ha : CleanTs a) (hb : CleanTs b) : CleanTs (a ++ b) := by
  intro t ht
  rcases List.mem_append.mp ht with h | h
  · exact ha t h
  · exact hb t h

theorem chanNodeOf_ok (p : Producer) (topic : String) (c : Chan) :
    ∃ r, chanNodeOf Fixes.all p topic c = .ok r ∧ r.upNodes = [] := by
  obtain ⟨cl, h⟩ := clientsOf_ok p.addr c.clients
  simp only [chanNodeOf, h]
  exact ⟨_, rfl, rfl⟩

theorem addNode_go_ok (key : String) (a : ChanNode) (m : ChanMap) : ∃ r, ChanMap.addNode.go Fixes.all key a m = .ok r := by
  induction m with
  | nil => exact ⟨[], rfl⟩
  | cons kc rest ih =>
    obtain ⟨k, c⟩ := kc
    unfold ChanMap.addNode.go
    split
    · obtain ⟨c', hc⟩ := chanAgg_add_ok c a
      simp only [hc]
      exact ⟨_, rfl⟩
    · obtain ⟨r, hr⟩ := ih
      simp only [hr]
      exact ⟨_, rfl⟩

theorem addNode_ok (m : ChanMap) (key : String) (a : ChanNode) : ∃ r, ChanMap.addNode Fixes.all m key a = .ok r := by
  unfold ChanMap.addNode
  split
  · exact addNode_go_ok key a m
  · obtain ⟨c, hc⟩ := chanAgg_add_ok { node := a.node, topic := a.topic, name := a.name } a
    simp only [hc]
    exact ⟨_, rfl⟩

theorem chansOfTopic_ok (p : Producer) (sel topic : String) (cs : List (Option Chan)) :
    ∀ m, ∃ r, chansOfTopic Fixes.all p sel topic cs m = .ok r ∧ CleanNodes r.1 := by
  induction cs with
  | nil => intro m; exact ⟨([], m), rfl, by intro a ha; cases ha⟩
  | cons c rest ih =>
    intro m
    cases c with
    | none => simpa [chansOfTopic] using ih m
    | some c =>
      obtain ⟨cn, hcn, hclean⟩ := chanNodeOf_ok p topic c
      unfold chansOfTopic
      simp only [hcn]
      obtain ⟨m', hm⟩ := addNode_ok m (if sel == "" then topic ++ ":" ++ c.name else c.name) cn
      simp only [hm]
      obtain ⟨⟨cns, m''⟩, hr, hc⟩ := ih m'
      simp only [hr]
      refine ⟨_, rfl, ?_⟩
      intro a ha
      cases ha with
      | head => exact hclean
      | tail _ ha => exact hc a ha

theorem topicsOfNode_ok (p : Producer) (sel : String) (ts : List (Option Topic)) :
    ∀ m, ∃ r, topicsOfNode Fixes.all p sel ts m = .ok r ∧ CleanTs r.1 := by
  induction ts with
  | nil => intro m; exact ⟨([], m), rfl, by intro t ht; cases ht⟩
  | cons t rest ih =>
    intro m
    cases t with
    | none => simpa [topicsOfNode] using ih m
    | some t =>
      unfold topicsOfNode
      split
      · exact ih m
      · obtain ⟨⟨cns, m'⟩, hc, hcl⟩ := chansOfTopic_ok p sel t.name t.channels m
        simp only [hc]
        obtain ⟨⟨tns, m''⟩, hr, hcl2⟩ := ih m'
        simp only [hr]
        refine ⟨_, rfl, ?_⟩
        intro x hx
        cases hx with
        | head => exact hcl
        | tail _ hx => exact hcl2 x hx

theorem nsqdStatsGo_ok (w : World) (sel selc : String) (incl : Bool) (ps : List Producer) :
    ∀ ts m failed, CleanTs ts →
      ∃ r, nsqdStatsGo Fixes.all w sel selc incl ps ts m failed = .ok r ∧ CleanTs r.1 := by
  induction ps with
  | nil => intro ts m failed h; exact ⟨(ts, m, failed), rfl, h⟩
  | cons p rest ih =>
    intro ts m failed hts
    unfold nsqdStatsGo
    split
    · exact ih _ _ _ hts
    · rename_i ans _
      obtain ⟨⟨tns, m'⟩, h, hcl⟩ := topicsOfNode_ok p sel ans m
      simp only [AggregateDecode.nodeAnswer_all, h]
      exact ih _ _ _ (cleanTs_append hts hcl)

theorem nsqdStats_ok (w : World) (ps : List Producer) (sel selc : String) (incl : Bool) :
    ∃ r, nsqdStats Fixes.all w ps sel selc incl = .ok r := by
  obtain ⟨⟨ts, m, failed⟩, h, _⟩ := nsqdStatsGo_ok w sel selc incl ps [] [] 0 (by intro t ht; cases ht)
  unfold nsqdStats
  simp only [h]
  split <;> exact ⟨_, rfl⟩

/-- The per-node reports GetNSQDStats hands to the handlers carry nothing in `NodeStats` (F54). -/
theorem nsqdStats_clean (w : World) (ps : List Producer) (sel selc : String) (incl : Bool)
    (ts : List TopicNode) (m : ChanMap) (f : Nat)
    (h : nsqdStats Fixes.all w ps sel selc incl = .ok (.got (ts, m) f)) : CleanTs ts := by
  obtain ⟨⟨ts', m', failed⟩, hgo, hcl⟩ :=
    nsqdStatsGo_ok w sel selc incl ps [] [] 0 (by intro t ht; cases ht)
  unfold nsqdStats at h
  simp only [hgo] at h
  split at h
  · cases h
  · simp only [Except.ok.injEq, Fetched.got.injEq, Prod.mk.injEq] at h
    obtain ⟨⟨h1, _⟩, _⟩ := h
    subst h1
    exact hcl

theorem chanAgg_add_junk {fx : Fixes} {c r : ChanAgg} {a : ChanNode} (h : c.add fx a = .ok r) : r.junk = c.junk := by
  unfold ChanAgg.add at h
  split at h
  · cases h
  · simp only [Except.ok.injEq] at h
    subst h
    rfl

theorem mergeChan_go_ok (a : ChanNode) (cs : List ChanAgg) (hcs : CleanAggs cs) :
    ∃ r, mergeChan.go Fixes.all a cs = .ok r ∧ CleanAggs r := by
  induction cs with
  | nil => exact ⟨[], rfl, by intro c hc; cases hc⟩
  | cons c rest ih =>
    have hrest : CleanAggs rest := fun x hx => hcs x (List.mem_cons_of_mem _ hx)
    have hc0 : c.junk = [] := hcs c (by simp)
    obtain ⟨r, hr, hcl⟩ := ih hrest
    unfold mergeChan.go
    simp only [hr]
    split
    · obtain ⟨c', hc⟩ := chanAgg_add_ok c a
      simp only [hc0, List.any_nil, Bool.false_eq_true, if_false, hc]
      refine ⟨_, rfl, ?_⟩
      intro x hx
      cases hx with
      | head => rw [chanAgg_add_junk hc]; exact hc0
      | tail _ hx => exact hcl x hx
    · refine ⟨_, rfl, ?_⟩
      intro x hx
      cases hx with
      | head => exact hc0
      | tail _ hx => exact hcl x hx

theorem mergeChan_ok (cs : List ChanAgg) (a : ChanNode) (hcs : CleanAggs cs) (ha : a.upNodes = []) :
    ∃ r, mergeChan Fixes.all cs a = .ok r ∧ CleanAggs r := by
  unfold mergeChan
  split
  · exact mergeChan_go_ok a cs hcs
  · refine ⟨_, rfl, ?_⟩
    intro x hx
    rcases List.mem_append.mp hx with h | h
    · exact hcs x h
    · simp only [List.mem_singleton] at h
      subst h
      exact ha

theorem mergeChans_ok (as : List ChanNode) : ∀ cs, CleanAggs cs → CleanNodes as →
    ∃ r, mergeChans Fixes.all as cs = .ok r ∧ CleanAggs r := by
  induction as with
  | nil => intro cs h _; exact ⟨cs, rfl, h⟩
  | cons a rest ih =>
    intro cs hcs has
    obtain ⟨cs', h, hcl⟩ := mergeChan_ok cs a hcs (has a (by simp))
    simpa [mergeChans, h] using ih cs' hcl (fun x hx => has x (List.mem_cons_of_mem _ hx))

theorem topicAgg_add_ok (t : TopicAgg) (a : TopicNode) (ht : CleanAggs t.channels) (ha : CleanNodes a.channels) :
    ∃ r, t.add Fixes.all a = .ok r ∧ CleanAggs r.channels := by
  obtain ⟨cs, h, hcl⟩ := mergeChans_ok a.channels t.channels ht ha
  unfold TopicAgg.add
  simp only [h, all_nilE2e, Bool.not_true, Bool.and_false, Bool.false_eq_true, if_false]
  exact ⟨_, rfl, hcl⟩

theorem addAll_ok' (as : List TopicNode) : ∀ t, CleanAggs t.channels → CleanTs as →
    ∃ r, TopicAgg.addAll Fixes.all as t = .ok r := by
  induction as with
  | nil => intro t _ _; exact ⟨t, rfl⟩
  | cons a rest ih =>
    intro t ht has
    obtain ⟨t', h, hcl⟩ := topicAgg_add_ok t a ht (has a (by simp))
    simpa [TopicAgg.addAll, h] using ih t' hcl (fun x hx => has x (List.mem_cons_of_mem _ hx))

/-- The topic handler's fold over the reports of GetNSQDStats never panics on the guarded tree. -/
theorem addAll_ok (as : List TopicNode) (name : String) (has : CleanTs as) :
    ∃ r, TopicAgg.addAll Fixes.all as { name := name } = .ok r :=
  addAll_ok' as { name := name } (by intro c hc; cases hc) has

/-- Every view of the guarded tree completes, and never through the router's panic handler. -/
theorem view_ok (w : World) (req : Request) :
    ∃ v, view Fixes.all w req = .ok v ∧ v.status ≠ 500 := by
  cases req with
  | topics =>
    refine ⟨_, rfl, ?_⟩
    unfold topicsView
    split <;> simp
  | nodes =>
    simp only [view, nodesView]
    obtain ⟨r, h⟩ := getProducers_ok w
    simp only [h]
    cases r <;> exact ⟨_, rfl, by simp⟩
  | topic n =>
    simp only [view, topicView]
    obtain ⟨r, h⟩ := getTopicProducers_ok w n
    simp only [h]
    cases r with
    | allFailed => exact ⟨_, rfl, by simp⟩
    | got ps f1 =>
      obtain ⟨r2, h2⟩ := nsqdStats_ok w ps n "" false
      simp only [h2]
      cases r2 with
      | allFailed => exact ⟨_, rfl, by simp⟩
      | got tm f2 =>
        obtain ⟨ts, m⟩ := tm
        obtain ⟨t, ht⟩ := addAll_ok ts n (nsqdStats_clean w ps n "" false ts m f2 h2)
        simp only [ht]
        exact ⟨_, rfl, by simp⟩
  | channel t c =>
    simp only [view, channelView]
    obtain ⟨r, h⟩ := getTopicProducers_ok w t
    simp only [h]
    cases r with
    | allFailed => exact ⟨_, rfl, by simp⟩
    | got ps f1 =>
      obtain ⟨r2, h2⟩ := nsqdStats_ok w ps t c true
      simp only [h2]
      cases r2 with
      | allFailed => exact ⟨_, rfl, by simp⟩
      | got tm f2 =>
        obtain ⟨ts, m⟩ := tm
        simp only []
        cases hf : m.find? (·.1 == c) with
        | none => exact ⟨_, rfl, by simp⟩
        | some kc => exact ⟨_, rfl, by simp⟩
  | node a =>
    simp only [view, nodeView]
    obtain ⟨r, h⟩ := getProducers_ok w
    simp only [h]
    cases r with
    | allFailed => exact ⟨_, rfl, by simp⟩
    | got ps f =>
      simp only []
      cases hf : ps.find? (·.addr == a) with
      | none => exact ⟨_, rfl, by simp⟩
      | some p =>
        obtain ⟨r2, h2⟩ := nsqdStats_ok w [p] "" "" true
        simp only [h2]
        cases r2 with
        | allFailed => exact ⟨_, rfl, by simp⟩
        | got tm f2 =>
          obtain ⟨ts, m⟩ := tm
          exact ⟨_, rfl, by simp⟩
  | counter =>
    simp only [view, counterView]
    obtain ⟨r, h⟩ := getProducers_ok w
    simp only [h]
    cases r with
    | allFailed => exact ⟨_, rfl, by simp⟩
    | got ps f1 =>
      obtain ⟨r2, h2⟩ := nsqdStats_ok w ps "" "" false
      simp only [h2]
      cases r2 with
      | allFailed => exact ⟨_, rfl, by simp⟩
      | got tm f2 =>
        obtain ⟨ts, m⟩ := tm
        exact ⟨_, rfl, by simp⟩
  | topicsInactive =>
    simp only [view, topicsInactiveView]
    split
    · split <;> exact ⟨_, rfl, by simp⟩
    · split
      · exact ⟨_, rfl, by simp⟩
      · rename_i ts f _
        obtain ⟨r, h⟩ := inactiveGo_ok w ts
        simp only [h]
        cases r with
        | none => exact ⟨_, rfl, by simp⟩
        | some x => exact ⟨_, rfl, by simp⟩

end Nsq.Proofs.AggregateSafe
