import Nsq.Model.Aggregate
/-!
Field-wise sums: folding `TopicStats.Add` / `ChannelStats.Add` over node reports gives, for every
counter, the sum of the reports' counters, whatever the order of the reports.
-/
namespace Nsq.Proofs.AggregateSums
open Nsq.Model.Aggregate

/-- A fold with a right-commutative step does not depend on the order of the list. -/
theorem perm_foldl {α β : Type} (f : β → α → β) (comm : ∀ c a b, f (f c a) b = f (f c b) a)
    {l₁ l₂ : List α} (h : l₁.Perm l₂) : ∀ c, l₁.foldl f c = l₂.foldl f c := by
  induction h with
  | nil => intro c; rfl
  | cons x _ ih => intro c; simpa using ih (f c x)
  | swap x y l => intro c; simp [comm]
  | trans _ _ ih₁ ih₂ => intro c; rw [ih₁, ih₂]

theorem Counters.add_comm (a b : Counters) : a.add b = b.add a := by
  simp only [Counters.add, Counters.mk.injEq]
  refine ⟨?_, ?_, ?_, ?_, ?_, ?_, ?_, ?_, ?_, ?_, ?_, ?_, ?_⟩ <;> omega

theorem Counters.add_assoc (a b c : Counters) : (a.add b).add c = a.add (b.add c) := by
  simp only [Counters.add, Counters.mk.injEq]
  refine ⟨?_, ?_, ?_, ?_, ?_, ?_, ?_, ?_, ?_, ?_, ?_, ?_, ?_⟩ <;> omega

theorem Counters.add_right_comm (c a b : Counters) : (c.add a).add b = (c.add b).add a := by
  rw [Counters.add_assoc, Counters.add_comm a b, ← Counters.add_assoc]

/-- Sum of a list of counters, starting from `c0`. -/
def sumFrom (c0 : Counters) (l : List Counters) : Counters := l.foldl Counters.add c0

def isum (l : List Int) : Int := l.foldl (· + ·) 0

theorem isum_cons (x : Int) (l : List Int) : isum (x :: l) = x + isum l := by
  have h : ∀ (l : List Int) (a : Int), l.foldl (· + ·) a = a + l.foldl (· + ·) 0 := by
    intro l
    induction l with
    | nil => intro a; simp
    | cons y r ih => intro a; simp only [List.foldl_cons]; rw [ih (a + y), ih (0 + y)]; omega
  simp only [isum, List.foldl_cons]
  rw [h l (0 + x)]; omega

/-- Every additive projection of the fold is the start value plus the sum of the projections. -/
theorem sumFrom_proj (π : Counters → Int) (hadd : ∀ a b, π (a.add b) = π a + π b)
    (l : List Counters) : ∀ c0, π (sumFrom c0 l) = π c0 + isum (l.map π) := by
  induction l with
  | nil => intro c0; simp [sumFrom, isum]
  | cons x r ih =>
    intro c0
    have := ih (c0.add x)
    simp only [sumFrom, List.foldl_cons, List.map_cons] at *
    rw [this, hadd, isum_cons]; omega

theorem sumFrom_perm {l₁ l₂ : List Counters} (h : l₁.Perm l₂) (c0 : Counters) :
    sumFrom c0 l₁ = sumFrom c0 l₂ :=
  perm_foldl Counters.add Counters.add_right_comm h c0

/-- `TopicStats.Add` folded over node reports: counters are summed, `paused` is or-ed, the node
list is extended by the reports in order. (Holds for every `Fixes`; with `Fixes.all` the fold
always succeeds.) -/
theorem addAll_spec (fx : Fixes) (as : List TopicNode) :
    ∀ (t r : TopicAgg), TopicAgg.addAll fx as t = .ok r →
      r.cnt = sumFrom t.cnt (as.map (·.cnt)) ∧ r.nodes = t.nodes ++ as ∧
      r.paused = (t.paused || as.any (·.paused)) ∧ r.name = t.name := by
  induction as with
  | nil =>
    intro t r h
    simp only [TopicAgg.addAll, Except.ok.injEq] at h
    subst h
    simp [sumFrom]
  | cons a rest ih =>
    intro t r h
    unfold TopicAgg.addAll at h
    cases hadd : t.add fx a with
    | error e => simp [hadd] at h
    | ok t' =>
      simp only [hadd] at h
      obtain ⟨h1, h2, h3, h4⟩ := ih t' r h
      unfold TopicAgg.add at hadd
      cases hm : mergeChans fx a.channels t.channels with
      | error e => simp [hm] at hadd
      | ok cs =>
        simp only [hm] at hadd
        split at hadd
        · cases hadd
        · simp only [Except.ok.injEq] at hadd
          subst hadd
          refine ⟨?_, ?_, ?_, ?_⟩
          · simpa [sumFrom] using h1
          · simpa using h2
          · simp only [h3, List.any_cons, Bool.or_assoc]
          · simpa using h4

/-- `ChannelStats.Add`: one step. -/
theorem chanAdd_spec (fx : Fixes) (c r : ChanAgg) (a : ChanNode) (h : c.add fx a = .ok r) :
    r.cnt = c.cnt.add a.cnt ∧ r.clients = c.clients ++ a.clients ∧ r.nodes = c.nodes ++ [a] ∧
    r.paused = (c.paused || a.paused) ∧ r.node = "*" ∧ r.topic = c.topic ∧ r.name = c.name := by
  unfold ChanAgg.add at h
  split at h
  · cases h
  · simp only [Except.ok.injEq] at h
    subst h
    simp

end Nsq.Proofs.AggregateSums
