import Nsq.Model.InFlight
/-
C08 / audit B17, fixes/F27: what can still be delivered after `Channel.Empty` when REQ / TOUCH hold the channel's
read lock (`St.ansLock`).  Key notion: the *sources* of a state — the places from which an object can (re-)enter the
in-flight map without a new `put`: the queue, the in-flight map, the deferred map, and the hands of a REQ / TOUCH /
timeout scan in progress.  No step except `put` adds a source; after the three sections of `Empty` on a tree with
`ansLock` (no answer in progress can coexist with Empty) and with no scan holding a message, there is none.
-/
namespace Nsq.Proofs.InFlightEmpty
open Nsq.Model.InFlight

/-- the object an operation in progress will put back into a container -/
def srcCont : Cont → List Nat
  | .reqAfterPop o _ | .reqAfterRemove o _ | .touchAfterPop o | .touchAfterRemove o | .scanAfterPQPop o => [o]
  | _ => []

def srcs (cs : List Cont) : List Nat := (cs.map srcCont).flatten

def sources (s : St) : List Nat := s.queued ++ s.map ++ s.dmap ++ srcs s.conts

theorem mem_srcs {x : Nat} {cs : List Cont} : x ∈ srcs cs ↔ ∃ c ∈ cs, x ∈ srcCont c := by
  simp [srcs, List.mem_flatten, List.mem_map]
  constructor
  · rintro ⟨l, ⟨c, hc, rfl⟩, hx⟩; exact ⟨c, hc, hx⟩
  · rintro ⟨c, hc, hx⟩; exact ⟨_, ⟨c, hc, rfl⟩, hx⟩

theorem mem_srcs_erase {x : Nat} {cs : List Cont} {c : Cont} (h : x ∈ srcs (cs.erase c)) : x ∈ srcs cs := by
  rw [mem_srcs] at h ⊢
  obtain ⟨c', hc', hx⟩ := h
  exact ⟨c', List.mem_of_mem_erase hc', hx⟩

theorem mem_srcs_cons {x : Nat} {cs : List Cont} {c : Cont} : x ∈ srcs (c :: cs) ↔ x ∈ srcCont c ∨ x ∈ srcs cs := by
  simp [srcs]

theorem mem_sources {x : Nat} {s : St} : x ∈ sources s ↔ x ∈ s.queued ∨ x ∈ s.map ∨ x ∈ s.dmap ∨ x ∈ srcs s.conts := by
  simp [sources]

/-- the shape parameters are never changed by a step -/
theorem step_params (fixed : Bool) (s s' : St) (a : Step) (h : step fixed s a = Res.ok s') :
    s'.scanAtomic = s.scanAtomic ∧ s'.pushAtomic = s.pushAtomic ∧ s'.ansLock = s.ansLock := by
  cases a <;> simp only [step, okH] at h <;> (repeat' split at h) <;>
    first | (cases h; exact ⟨rfl, rfl, rfl⟩) | cases h

theorem run_params (fixed : Bool) : ∀ (sched : List Step) (s s' : St), run fixed s sched = Res.ok s' →
    s'.scanAtomic = s.scanAtomic ∧ s'.pushAtomic = s.pushAtomic ∧ s'.ansLock = s.ansLock := by
  intro sched
  induction sched with
  | nil => intro s s' h; simp only [run] at h; cases h; exact ⟨rfl, rfl, rfl⟩
  | cons a as ih =>
    intro s s' h
    simp only [run] at h
    cases hs : step fixed s a with
    | ok s1 =>
      rw [hs] at h
      obtain ⟨a1, a2, a3⟩ := step_params fixed s s1 a hs
      obtain ⟨b1, b2, b3⟩ := ih s1 s' h
      exact ⟨b1.trans a1, b2.trans a2, b3.trans a3⟩
    | panic => rw [hs] at h; cases h
    | disabled => rw [hs] at h; cases h

theorem find_req_pop {cs : List Cont} {o o' : Nat} {d : Int}
    (h : cs.find? (fun k => match k with | Cont.reqAfterPop o' _ => o' = o | _ => false) = some (Cont.reqAfterPop o' d)) :
    Cont.reqAfterPop o d ∈ cs := by
  have h1 := List.mem_of_find?_eq_some h
  have h2 := List.find?_some h
  simp at h2
  subst h2
  exact h1

theorem find_req_remove {cs : List Cont} {o o' : Nat} {d : Int}
    (h : cs.find? (fun k => match k with | Cont.reqAfterRemove o' _ => o' = o | _ => false) = some (Cont.reqAfterRemove o' d)) :
    Cont.reqAfterRemove o d ∈ cs := by
  have h1 := List.mem_of_find?_eq_some h
  have h2 := List.find?_some h
  simp at h2
  subst h2
  exact h1

theorem src_of_cont {x : Nat} {cs : List Cont} {c : Cont} (hc : c ∈ cs) (hx : x ∈ srcCont c) : x ∈ srcs cs :=
  mem_srcs.mpr ⟨c, hc, hx⟩

/-- no micro-step other than `put` creates a source (tree with the one-section scan, F16) -/
theorem step_sources (fixed : Bool) (s s' : St) (a : Step) (h : step fixed s a = Res.ok s')
    (hsa : s.scanAtomic = true) (hp : ∀ o, a ≠ Step.put o) : ∀ x ∈ sources s', x ∈ sources s := by
  intro x hx
  rw [mem_sources] at hx ⊢
  cases a with
  | finPop c o =>
    simp only [step] at h
    split at h <;> cases h
    · rcases hx with h1 | h1 | h1 | h1
      · exact Or.inl h1
      · exact Or.inr (Or.inl (List.mem_of_mem_erase h1))
      · exact Or.inr (Or.inr (Or.inl h1))
      · rw [mem_srcs_cons] at h1
        rcases h1 with h1 | h1
        · simp [srcCont] at h1
        · exact Or.inr (Or.inr (Or.inr h1))
    · exact hx
  | finRemove o =>
    simp only [step, okH] at h
    repeat' split at h
    all_goals first | (cases h; done) | skip
    cases h
    rcases hx with h1 | h1 | h1 | h1
    · exact Or.inl h1
    · exact Or.inr (Or.inl h1)
    · exact Or.inr (Or.inr (Or.inl h1))
    · exact Or.inr (Or.inr (Or.inr (mem_srcs_erase h1)))
  | reqPop c o d =>
    simp only [step] at h
    repeat' split at h
    all_goals first | (cases h; done) | skip
    · rename_i hm
      cases h
      rcases hx with h1 | h1 | h1 | h1
      · exact Or.inl h1
      · exact Or.inr (Or.inl (List.mem_of_mem_erase h1))
      · exact Or.inr (Or.inr (Or.inl h1))
      · rw [mem_srcs_cons] at h1
        rcases h1 with h1 | h1
        · simp [srcCont] at h1; subst h1; exact Or.inr (Or.inl hm.1)
        · exact Or.inr (Or.inr (Or.inr h1))
    · cases h; exact hx
  | reqRemove o =>
    simp only [step, okH] at h
    split at h
    · rename_i o' d hf
      have hm := find_req_pop hf
      split at h
      · cases h
      · cases h
        rcases hx with h1 | h1 | h1 | h1
        · exact Or.inl h1
        · exact Or.inr (Or.inl h1)
        · exact Or.inr (Or.inr (Or.inl h1))
        · rw [mem_srcs_cons] at h1
          rcases h1 with h1 | h1
          · simp [srcCont] at h1; subst h1
            exact Or.inr (Or.inr (Or.inr (src_of_cont hm (by simp [srcCont]))))
          · exact Or.inr (Or.inr (Or.inr (mem_srcs_erase h1)))
    · cases h
  | reqPut o =>
    simp only [step] at h
    split at h
    · rename_i o' d hf
      have hm := find_req_remove hf
      have ho : x = o → x ∈ srcs s.conts := fun e => e ▸ src_of_cont hm (by simp [srcCont])
      repeat' split at h
      all_goals cases h
      · rcases hx with h1 | h1 | h1 | h1
        · rcases List.mem_cons.mp h1 with h1 | h1
          · exact Or.inr (Or.inr (Or.inr (ho h1)))
          · exact Or.inl h1
        · exact Or.inr (Or.inl h1)
        · exact Or.inr (Or.inr (Or.inl h1))
        · exact Or.inr (Or.inr (Or.inr (mem_srcs_erase h1)))
      · rcases hx with h1 | h1 | h1 | h1
        · exact Or.inl h1
        · exact Or.inr (Or.inl h1)
        · exact Or.inr (Or.inr (Or.inl h1))
        · exact Or.inr (Or.inr (Or.inr (mem_srcs_erase h1)))
      · rcases hx with h1 | h1 | h1 | h1
        · exact Or.inl h1
        · exact Or.inr (Or.inl h1)
        · rcases List.mem_cons.mp h1 with h1 | h1
          · exact Or.inr (Or.inr (Or.inr (ho h1)))
          · exact Or.inr (Or.inr (Or.inl h1))
        · rw [mem_srcs_cons] at h1
          rcases h1 with h1 | h1
          · simp [srcCont] at h1
          · exact Or.inr (Or.inr (Or.inr (mem_srcs_erase h1)))
    · cases h
  | touchPop c o =>
    simp only [step] at h
    repeat' split at h
    all_goals first | (cases h; done) | skip
    · rename_i hm
      cases h
      rcases hx with h1 | h1 | h1 | h1
      · exact Or.inl h1
      · exact Or.inr (Or.inl (List.mem_of_mem_erase h1))
      · exact Or.inr (Or.inr (Or.inl h1))
      · rw [mem_srcs_cons] at h1
        rcases h1 with h1 | h1
        · simp [srcCont] at h1; subst h1; exact Or.inr (Or.inl hm.1)
        · exact Or.inr (Or.inr (Or.inr h1))
    · cases h; exact hx
  | touchRemove o =>
    simp only [step, okH] at h
    split at h
    · rename_i hm
      split at h
      · cases h
      · cases h
        rcases hx with h1 | h1 | h1 | h1
        · exact Or.inl h1
        · exact Or.inr (Or.inl h1)
        · exact Or.inr (Or.inr (Or.inl h1))
        · rw [mem_srcs_cons] at h1
          rcases h1 with h1 | h1
          · simp [srcCont] at h1; subst h1
            exact Or.inr (Or.inr (Or.inr (src_of_cont hm (by simp [srcCont]))))
          · exact Or.inr (Or.inr (Or.inr (mem_srcs_erase h1)))
    · cases h
  | touchMapPush o p =>
    simp only [step, okH] at h
    split at h
    · rename_i hm
      have ho : x = o → x ∈ srcs s.conts := fun e => e ▸ src_of_cont hm (by simp [srcCont])
      repeat' split at h
      all_goals first | (cases h; done) | skip
      all_goals
        cases h
        rcases hx with h1 | h1 | h1 | h1
        · exact Or.inl h1
        · first
            | exact Or.inr (Or.inl h1)
            | (rcases List.mem_cons.mp h1 with h1 | h1
               · exact Or.inr (Or.inr (Or.inr (ho h1)))
               · exact Or.inr (Or.inl h1))
        · exact Or.inr (Or.inr (Or.inl h1))
        · first
            | exact Or.inr (Or.inr (Or.inr (mem_srcs_erase h1)))
            | (rw [mem_srcs_cons] at h1
               rcases h1 with h1 | h1
               · simp [srcCont] at h1
               · exact Or.inr (Or.inr (Or.inr (mem_srcs_erase h1))))
    · cases h
  | touchPQPush o =>
    simp only [step, okH] at h
    repeat' split at h
    all_goals first | (cases h; done) | skip
    all_goals
      cases h
      rcases hx with h1 | h1 | h1 | h1
      · exact Or.inl h1
      · exact Or.inr (Or.inl h1)
      · exact Or.inr (Or.inr (Or.inl h1))
      · exact Or.inr (Or.inr (Or.inr (mem_srcs_erase h1)))
  | startMapPush c o p =>
    simp only [step, okH] at h
    split at h
    · rename_i hm
      repeat' split at h
      all_goals first | (cases h; done) | skip
      all_goals
        cases h
        rcases hx with h1 | h1 | h1 | h1
        · exact Or.inl (List.mem_of_mem_erase h1)
        · first
            | exact Or.inr (Or.inl h1)
            | (rcases List.mem_cons.mp h1 with h1 | h1
               · exact Or.inl (h1 ▸ hm)
               · exact Or.inr (Or.inl h1))
        · exact Or.inr (Or.inr (Or.inl h1))
        · first
            | exact Or.inr (Or.inr (Or.inr h1))
            | (rw [mem_srcs_cons] at h1
               rcases h1 with h1 | h1
               · simp [srcCont] at h1
               · exact Or.inr (Or.inr (Or.inr h1)))
    · cases h
  | startPQPush o =>
    simp only [step, okH] at h
    repeat' split at h
    all_goals first | (cases h; done) | skip
    all_goals
      cases h
      rcases hx with h1 | h1 | h1 | h1
      · exact Or.inl h1
      · exact Or.inr (Or.inl h1)
      · exact Or.inr (Or.inr (Or.inl h1))
      · exact Or.inr (Or.inr (Or.inr (mem_srcs_erase h1)))
  | scanPeek t =>
    simp only [step, hsa, if_true] at h
    repeat' split at h
    all_goals first | (cases h; done) | skip
    · cases h; exact hx
    · rename_i hm
      cases h
      rcases hx with h1 | h1 | h1 | h1
      · exact Or.inl h1
      · exact Or.inr (Or.inl (List.mem_of_mem_erase h1))
      · exact Or.inr (Or.inr (Or.inl h1))
      · rw [mem_srcs_cons] at h1
        rcases h1 with h1 | h1
        · simp [srcCont] at h1; subst h1; exact Or.inr (Or.inl hm)
        · exact Or.inr (Or.inr (Or.inr h1))
    · cases h; exact hx
  | scanPop o =>
    simp only [step, hsa, if_true] at h
    split at h
    · rename_i hm
      cases h
      rcases hx with h1 | h1 | h1 | h1
      · rcases List.mem_cons.mp h1 with h1 | h1
        · exact Or.inr (Or.inr (Or.inr (h1 ▸ src_of_cont hm.1 (by simp [srcCont]))))
        · exact Or.inl h1
      · exact Or.inr (Or.inl h1)
      · exact Or.inr (Or.inr (Or.inl h1))
      · exact Or.inr (Or.inr (Or.inr (mem_srcs_erase h1)))
    · cases h
  | emptyResetInflight =>
    simp only [step] at h
    repeat' split at h
    all_goals first | (cases h; done) | skip
    cases h
    rcases hx with h1 | h1 | h1 | h1
    · exact Or.inl h1
    · cases h1
    · exact Or.inr (Or.inr (Or.inl h1))
    · rw [mem_srcs_cons] at h1
      rcases h1 with h1 | h1
      · simp [srcCont] at h1
      · exact Or.inr (Or.inr (Or.inr h1))
  | emptyResetDeferred =>
    simp only [step] at h
    split at h
    · cases h
      rcases hx with h1 | h1 | h1 | h1
      · exact Or.inl h1
      · exact Or.inr (Or.inl h1)
      · cases h1
      · rw [mem_srcs_cons] at h1
        rcases h1 with h1 | h1
        · simp [srcCont] at h1
        · exact Or.inr (Or.inr (Or.inr (mem_srcs_erase h1)))
    · cases h
  | emptyRest =>
    simp only [step] at h
    split at h
    · cases h
      rcases hx with h1 | h1 | h1 | h1
      · cases h1
      · exact Or.inr (Or.inl h1)
      · exact Or.inr (Or.inr (Or.inl h1))
      · exact Or.inr (Or.inr (Or.inr (mem_srcs_erase h1)))
    · cases h
  | deferMapPush o =>
    simp only [step] at h
    split at h
    · rename_i hm
      split at h
      all_goals
        cases h
        rcases hx with h1 | h1 | h1 | h1
        · exact Or.inl (List.mem_of_mem_erase h1)
        · exact Or.inr (Or.inl h1)
        · first
            | exact Or.inr (Or.inr (Or.inl h1))
            | (rcases List.mem_cons.mp h1 with h1 | h1
               · exact Or.inl (h1 ▸ hm)
               · exact Or.inr (Or.inr (Or.inl h1)))
        · first
            | exact Or.inr (Or.inr (Or.inr h1))
            | (rw [mem_srcs_cons] at h1
               rcases h1 with h1 | h1
               · simp [srcCont] at h1
               · exact Or.inr (Or.inr (Or.inr h1)))
    · cases h
  | deferPQPush o p =>
    simp only [step] at h
    repeat' split at h
    all_goals first | (cases h; done) | skip
    all_goals
      cases h
      rcases hx with h1 | h1 | h1 | h1
      · exact Or.inl h1
      · exact Or.inr (Or.inl h1)
      · exact Or.inr (Or.inr (Or.inl h1))
      · exact Or.inr (Or.inr (Or.inr (mem_srcs_erase h1)))
  | dscanPeek t =>
    simp only [step] at h
    repeat' split at h
    all_goals first | (cases h; done) | skip
    · cases h; exact hx
    · cases h; exact hx
    · cases h
      rcases hx with h1 | h1 | h1 | h1
      · exact Or.inl h1
      · exact Or.inr (Or.inl h1)
      · exact Or.inr (Or.inr (Or.inl h1))
      · rw [mem_srcs_cons] at h1
        rcases h1 with h1 | h1
        · simp [srcCont] at h1
        · exact Or.inr (Or.inr (Or.inr h1))
  | dscanPop o =>
    simp only [step] at h
    split at h
    · split at h
      · rename_i hm
        cases h
        rcases hx with h1 | h1 | h1 | h1
        · rcases List.mem_cons.mp h1 with h1 | h1
          · exact Or.inr (Or.inr (Or.inl (h1 ▸ hm)))
          · exact Or.inl h1
        · exact Or.inr (Or.inl h1)
        · exact Or.inr (Or.inr (Or.inl (List.mem_of_mem_erase h1)))
        · exact Or.inr (Or.inr (Or.inr (mem_srcs_erase h1)))
      · cases h
        rcases hx with h1 | h1 | h1 | h1
        · exact Or.inl h1
        · exact Or.inr (Or.inl h1)
        · exact Or.inr (Or.inr (Or.inl h1))
        · exact Or.inr (Or.inr (Or.inr (mem_srcs_erase h1)))
    · cases h
  | reload o =>
    simp only [step] at h
    split at h
    · cases h; exact hx
    · cases h
  | put o => exact absurd rfl (hp o)

def noPut (l : List Step) : Bool := l.all (fun a => match a with | .put _ => false | _ => true)

theorem run_sources (fixed : Bool) : ∀ (sched : List Step) (s s' : St), run fixed s sched = Res.ok s' →
    s.scanAtomic = true → noPut sched = true → ∀ x ∈ sources s', x ∈ sources s := by
  intro sched
  induction sched with
  | nil => intro s s' h _ _ x hx; simp only [run] at h; cases h; exact hx
  | cons a as ih =>
    intro s s' h hsa hnp x hx
    simp only [run] at h
    simp only [noPut, List.all_cons, Bool.and_eq_true] at hnp
    cases hs : step fixed s a with
    | ok s1 =>
      rw [hs] at h
      have hpar := step_params fixed s s1 a hs
      have hna : ∀ o, a ≠ Step.put o := by
        intro o e; subst e; simp at hnp
      exact step_sources fixed s s1 a hs hsa hna x
        (ih s1 s' h (by rw [hpar.1]; exact hsa) (by simpa [noPut] using hnp.2) x hx)
    | panic => rw [hs] at h; cases h
    | disabled => rw [hs] at h; cases h

/-- no timeout scan holds a message (between its heap+map pop and its `put`) -/
def noScanHeld (cs : List Cont) : Bool :=
  cs.all (fun k => match k with | Cont.scanAfterPQPop _ => false | _ => true)

theorem srcs_nil_of (cs : List Cont) (ha : cs.any Cont.isAnswer = false) (hs : noScanHeld cs = true) : srcs cs = [] := by
  apply List.eq_nil_iff_forall_not_mem.mpr
  intro x hx
  obtain ⟨c, hc, hxc⟩ := mem_srcs.mp hx
  have h1 : c.isAnswer = false := by
    rw [List.any_eq_false] at ha
    simpa using ha c hc
  have h2 := List.all_eq_true.mp hs c hc
  cases c <;> simp [srcCont, Cont.isAnswer] at hxc h1 h2

/-- **fixes/F27** (`ansLock`): once `Empty`'s three critical sections have run — which they can only do when no REQ /
TOUCH is in progress — and no timeout scan held a message at that moment, nothing at all is in flight afterwards until
a new message is published, whatever runs after it (any schedule `post` without `put`) -/
theorem empty_then_nothing_in_flight (fixed : Bool) (s1 s2 : St) (hsa : s1.scanAtomic = true) (hal : s1.ansLock = true)
    (hns : noScanHeld s1.conts = true) (post : List Step) (hnp : noPut post = true)
    (h : run fixed s1 ([Step.emptyResetInflight, Step.emptyResetDeferred, Step.emptyRest] ++ post) = Res.ok s2) :
    s2.map = [] := by
  simp only [List.cons_append, List.nil_append, run] at h
  by_cases hne : Cont.emptyAfterInflightReset ∈ s1.conts ∨ Cont.emptyAfterInitPQ ∈ s1.conts
  · simp [step, hne] at h
  · by_cases hans : (s1.ansLock && s1.conts.any Cont.isAnswer) = true
    · simp [step, hne, hans] at h
    · have hans' : s1.conts.any Cont.isAnswer = false := by
        rw [hal] at hans; simpa using hans
      simp only [step, hne, hans, if_false, List.mem_cons, true_or, if_true, dropCont, List.erase_cons_head,
        Bool.false_eq_true] at h
      -- now `h` is the run of `post` from the emptied state
      have hsrc := run_sources fixed post _ s2 h hsa hnp
      apply List.eq_nil_iff_forall_not_mem.mpr
      intro x hx
      have := hsrc x (mem_sources.mpr (Or.inr (Or.inl hx)))
      rw [mem_sources] at this
      simp only [List.not_mem_nil, false_or] at this
      rw [srcs_nil_of s1.conts hans' hns] at this
      cases this

end Nsq.Proofs.InFlightEmpty
