import Nsq.Model.DiskQueue
import Nsq.Proofs.Wire
/-! Engine E9 — basic facts: record encoding, `writeAt`, the bufio stream, the ghost queue. -/
namespace Nsq.Proofs.DiskQueue
open Nsq.Model.Wire Nsq.Model.DiskQueue

/-- the bytes of a file holding exactly the records `l` -/
def enc (l : List Bytes) : Bytes := (l.map dqRecord).flatten

theorem enc_nil : enc [] = [] := rfl
theorem enc_cons (d : Bytes) (l : List Bytes) : enc (d :: l) = dqRecord d ++ enc l := by simp [enc]
theorem enc_append (a b : List Bytes) : enc (a ++ b) = enc a ++ enc b := by simp [enc]

theorem dqRecord_length (d : Bytes) : (dqRecord d).length = 4 + d.length := by
  simp [dqRecord, lp, Nsq.Proofs.Wire.beBytes_length]

theorem enc_eq_nil (l : List Bytes) (h : (enc l).length = 0) : l = [] := by
  cases l with
  | nil => rfl
  | cons d l => rw [enc_cons, List.length_append, dqRecord_length] at h; omega

theorem writeAt_append (c x : Bytes) : writeAt c c.length x = c ++ x := by
  simp [writeAt]

/-- the ghost queue: records of the files `i, i+1, …, i+n-1` -/
def qFrom (recs : Nat → List Bytes) : Nat → Nat → List Bytes
  | _, 0 => []
  | i, n + 1 => recs i ++ qFrom recs (i + 1) n

theorem qFrom_congr (r1 r2 : Nat → List Bytes) (i n : Nat) (h : ∀ j, i ≤ j → j < i + n → r1 j = r2 j) :
    qFrom r1 i n = qFrom r2 i n := by
  induction n generalizing i with
  | zero => rfl
  | succ n ih =>
    simp only [qFrom]
    rw [h i (Nat.le_refl _) (by omega), ih (i + 1) (fun j h1 h2 => h j (by omega) (by omega))]

theorem qFrom_snoc (r : Nat → List Bytes) (i n : Nat) : qFrom r i (n + 1) = qFrom r i n ++ r (i + n) := by
  induction n generalizing i with
  | zero => simp [qFrom]
  | succ n ih =>
    have e : i + 1 + n = i + (n + 1) := by omega
    rw [qFrom, ih (i + 1), qFrom, List.append_assoc, e]

/-- `consume` keeps the stream abstraction: what is seen next is the old stream minus `n` bytes -/
theorem consume_stream (rbuf : Bytes) (rfd : Nat) (content : Bytes) (n : Nat)
    (hfd : rfd ≤ content.length) (hn : n ≤ (rbuf ++ content.drop rfd).length) :
    (consume rbuf rfd content n).1 ++ content.drop (consume rbuf rfd content n).2 = (rbuf ++ content.drop rfd).drop n ∧
      (consume rbuf rfd content n).2 ≤ content.length := by
  unfold consume
  simp only [List.length_append, List.length_drop] at hn
  by_cases h1 : n ≤ rbuf.length
  · rw [if_pos h1]
    refine ⟨?_, hfd⟩
    simp only []
    rw [List.drop_append_of_le_length h1]
  · rw [if_neg h1]
    have hd : (rbuf ++ content.drop rfd).drop n = content.drop (rfd + (n - rbuf.length)) := by
      rw [List.drop_append, List.drop_eq_nil_of_le (by omega), List.nil_append, List.drop_drop]
    by_cases h2 : bufSize ≤ n - rbuf.length
    · rw [if_pos h2]
      simp only [List.nil_append]
      exact ⟨hd.symm, by omega⟩
    · rw [if_neg h2]
      have hk : n - rbuf.length ≤ ((content.drop rfd).take bufSize).length := by
        simp only [List.length_take, List.length_drop, Nat.le_min]; omega
      refine ⟨?_, by simp only [List.length_take, List.length_drop]; omega⟩
      have hd2 : (rbuf ++ content.drop rfd).drop n = (content.drop rfd).drop (n - rbuf.length) := by
        rw [hd, List.drop_drop]
      have hd3 : content.drop (rfd + ((content.drop rfd).take bufSize).length) =
          (content.drop rfd).drop ((content.drop rfd).take bufSize).length := by rw [List.drop_drop]
      rw [hd2, hd3]
      generalize content.drop rfd = t at hk ⊢
      have e2 : t.drop (t.take bufSize).length = t.drop bufSize := by
        by_cases hb : bufSize ≤ t.length
        · rw [List.length_take, Nat.min_eq_left hb]
        · rw [List.length_take, Nat.min_eq_right (by omega), List.drop_eq_nil_of_le (Nat.le_refl _),
            List.drop_eq_nil_of_le (by omega)]
      rw [e2]
      conv => rhs; rw [← List.take_append_drop bufSize t]
      rw [List.drop_append_of_le_length hk]

end Nsq.Proofs.DiskQueue
