import Nsq.Model.AdminGate
/-!
Interpreter lemmas for handler skeletons (helpers for `Nsq.Props.C17`).
-/
namespace Nsq.Proofs.AdminGate
open Nsq.Model.AdminGate

/-- The generic interpreter lemma: a skeleton in which the admin check comes before every effect
(on every path), with failure branch `return 403`, answers 403 and performs nothing when the
request does not carry an admin identity — whatever state it is started in. -/
theorem guarded_runSt (env : Env) (h : isAdmin env.conf env.req = false) :
    ∀ (sk : Skel) (st : St), guarded sk = true → runSt env sk st = (403, st.obs.reverse) := by
  intro sk
  induction sk with
  | ret code => intro st hg; simp [guarded] at hg
  | eff e k _ => intro st hg; simp [guarded] at hg
  | unknown w => intro st hg; simp [guarded] at hg
  | ite c t e iht ihe =>
    intro st hg
    by_cases hc : c = .notAdmin
    · subst hc
      cases t with
      | ret code =>
        by_cases h403 : code = 403
        · subst h403
          simp [runSt, evalCond, h]
        · simp [guarded, h403] at hg
      | eff _ _ => simp [guarded] at hg
      | ite _ _ _ => simp [guarded] at hg
      | unknown _ => simp [guarded] at hg
    · have hg' : guarded t = true ∧ guarded e = true := by
        cases c <;> simp_all [guarded]
      unfold runSt
      by_cases hev : evalCond env st c = true
      · simp [hev, iht st hg'.1]
      · simp [hev, ihe st hg'.2]

theorem guarded_run (env : Env) (sk : Skel) (hg : guarded sk = true)
    (h : isAdmin env.conf env.req = false) : run env sk = (403, []) := by
  have := guarded_runSt env h sk {} hg
  simpa [run] using this

/-- Replace everything the admin check reads (admin list, header name, request headers). -/
def withIdentity (env : Env) (users : List String) (hdr : String) (hs : List (String × String)) : Env :=
  { env with conf := { env.conf with adminUsers := users, aclHeader := hdr },
             req := { env.req with headers := hs } }

theorem evalCond_withIdentity (env : Env) (users : List String) (hdr : String)
    (hs : List (String × String)) (st : St) (c : Cond) (hc : c ≠ .notAdmin) :
    evalCond (withIdentity env users hdr hs) st c = evalCond env st c := by
  cases c <;> simp_all [evalCond, withIdentity]

theorem doEff_withIdentity (env : Env) (users : List String) (hdr : String)
    (hs : List (String × String)) (st : St) (e : Eff) :
    doEff (withIdentity env users hdr hs) st e = doEff env st e := by
  cases e <;> rfl

/-- A skeleton that never evaluates the admin check gives the same answer and performs the same
effects whatever the identity / admin configuration is. -/
theorem authFree_runSt (env : Env) (users : List String) (hdr : String) (hs : List (String × String)) :
    ∀ (sk : Skel) (st : St), authFree sk = true →
      runSt (withIdentity env users hdr hs) sk st = runSt env sk st := by
  intro sk
  induction sk with
  | ret code => intro st _; simp [runSt]
  | unknown w => intro st _; simp [runSt]
  | eff e k ih =>
    intro st ha
    simp only [authFree] at ha
    simp [runSt, doEff_withIdentity, ih _ ha]
  | ite c t e iht ihe =>
    intro st ha
    by_cases hc : c = .notAdmin
    · subst hc; simp [authFree] at ha
    · have ha' : authFree t = true ∧ authFree e = true := by
        cases c <;> simp_all [authFree]
      unfold runSt
      rw [evalCond_withIdentity env users hdr hs st c hc, iht st ha'.1, ihe st ha'.2]

/-- What an effect shows to the outside. -/
def obsOf : Eff → Option Obs
  | .decodeBody => some .bodyRead
  | .readBody => some .bodyRead
  | .upstream n => some (.upstream n)
  | .upstreamMany n => some (.upstream n)
  | .notify a => some (.notify a)
  | .configWrite => some .configWrite
  | .localCall _ => none
  | .pureCall _ => none

theorem doEff_obs (env : Env) (st : St) (e : Eff) :
    (doEff env st e).obs.reverse = st.obs.reverse ++ (obsOf e).toList := by
  cases e <;> simp [doEff, obsOf]

/-- Does the environment take exactly the branches recorded in a path? (Only the conditions that
do not depend on the running state are checked; enough for the fan-out statement.) -/
def pathHolds (env : Env) : List (Cond × Bool) → Bool
  | [] => true
  | (c, b) :: rest =>
    (match c with
     | .errNotNil => true
     | .errNotPartial => true
     | c => evalCond env {} c == b) && pathHolds env rest

theorem evalCond_state_free (env : Env) (st : St) (c : Cond) (h1 : c ≠ .errNotNil)
    (h2 : c ≠ .errNotPartial) : evalCond env st c = evalCond env {} c := by
  cases c <;> simp_all [evalCond]

/-- Every run follows one of the enumerated paths: same status, the path's observable effects
appended to what was observed before, and every state-independent condition on the path holds. -/
theorem run_follows_path (env : Env) :
    ∀ (sk : Skel) (st : St), ∃ p ∈ paths sk,
      (runSt env sk st).1 = p.2.2 ∧
      (runSt env sk st).2 = st.obs.reverse ++ p.2.1.filterMap obsOf ∧
      pathHolds env p.1 = true := by
  intro sk
  induction sk with
  | ret code => intro st; exact ⟨([], [], code), by simp [paths], by simp [runSt, pathHolds]⟩
  | unknown w => intro st; exact ⟨([], [], unknownStatus), by simp [paths], by simp [runSt, pathHolds]⟩
  | eff e k ih =>
    intro st
    obtain ⟨p, hp, h1, h2, h3⟩ := ih (doEff env st e)
    refine ⟨(p.1, e :: p.2.1, p.2.2), ?_, ?_, ?_, h3⟩
    · simp only [paths, List.mem_map]; exact ⟨p, hp, rfl⟩
    · simpa [runSt] using h1
    · simp only [runSt, h2, doEff_obs]
      cases h : obsOf e <;> simp [h]
  | ite c t e iht ihe =>
    intro st
    by_cases hev : evalCond env st c = true
    · obtain ⟨p, hp, h1, h2, h3⟩ := iht st
      refine ⟨((c, true) :: p.1, p.2.1, p.2.2), ?_, ?_, ?_, ?_⟩
      · simp only [paths, List.mem_append, List.mem_map]; exact Or.inl ⟨p, hp, rfl⟩
      · simpa [runSt, hev] using h1
      · simpa [runSt, hev] using h2
      · by_cases c1 : c = .errNotNil
        · subst c1; simpa [pathHolds] using h3
        · by_cases c2 : c = .errNotPartial
          · subst c2; simpa [pathHolds] using h3
          · have := evalCond_state_free env st c c1 c2
            cases c <;> simp_all [pathHolds]
    · obtain ⟨p, hp, h1, h2, h3⟩ := ihe st
      refine ⟨((c, false) :: p.1, p.2.1, p.2.2), ?_, ?_, ?_, ?_⟩
      · simp only [paths, List.mem_append, List.mem_map]; exact Or.inr ⟨p, hp, rfl⟩
      · simpa [runSt, hev] using h1
      · simpa [runSt, hev] using h2
      · by_cases c1 : c = .errNotNil
        · subst c1; simpa [pathHolds] using h3
        · by_cases c2 : c = .errNotPartial
          · subst c2; simpa [pathHolds] using h3
          · have := evalCond_state_free env st c c1 c2
            cases c <;> simp_all [pathHolds]

/-- The CIDR gate: below `if cidrSet`, a request from outside the network leaves with a 4xx and
no observable effect (no body read, no configuration write, no upstream call). -/
theorem netGuardedOrDeny_runSt (env : Env) (hout : env.inNet = false) :
    ∀ (sk : Skel) (st : St), netGuarded.netGuardedOrDeny sk = true →
      (400 ≤ (runSt env sk st).1 ∧ (runSt env sk st).1 < 500) ∧ (runSt env sk st).2 = st.obs.reverse := by
  intro sk
  induction sk with
  | ret code =>
    intro st hg
    simp [netGuarded.netGuardedOrDeny] at hg
    simp [runSt]; omega
  | unknown w => intro st hg; simp [netGuarded.netGuardedOrDeny] at hg
  | eff e k ih =>
    intro st hg
    simp only [netGuarded.netGuardedOrDeny, Bool.and_eq_true] at hg
    have := ih (doEff env st e) hg.2
    have hobs : (doEff env st e).obs = st.obs := by
      cases e <;> simp_all [Eff.isLocal, doEff]
    simpa [runSt, hobs] using this
  | ite c t e iht ihe =>
    intro st hg
    by_cases hc : c = .notInNet
    · subst hc
      cases t with
      | ret code =>
        by_cases h403 : code = 403
        · subst h403
          simp [runSt, evalCond, hout]
        · simp [netGuarded.netGuardedOrDeny, h403] at hg
      | eff _ _ => simp [netGuarded.netGuardedOrDeny] at hg
      | ite _ _ _ => simp [netGuarded.netGuardedOrDeny] at hg
      | unknown _ => simp [netGuarded.netGuardedOrDeny] at hg
    · have hg' : netGuarded.netGuardedOrDeny t = true ∧ netGuarded.netGuardedOrDeny e = true := by
        cases c <;> simp_all [netGuarded.netGuardedOrDeny]
      unfold runSt
      by_cases hev : evalCond env st c = true
      · simpa [hev] using iht st hg'.1
      · simpa [hev] using ihe st hg'.2

theorem cidrGuarded_run (env : Env) (sk : Skel) (hg : cidrGuarded sk = true)
    (hset : env.conf.cidrSet = true) (hout : env.inNet = false) :
    (400 ≤ (run env sk).1 ∧ (run env sk).1 < 500) ∧ (run env sk).2 = [] := by
  cases sk with
  | ret _ => simp [cidrGuarded] at hg
  | eff _ _ => simp [cidrGuarded] at hg
  | unknown _ => simp [cidrGuarded] at hg
  | ite c t e =>
    by_cases hc : c = .cidrSet
    · subst hc
      simp only [cidrGuarded] at hg
      have := netGuardedOrDeny_runSt env hout t {} hg
      simpa [run, runSt, evalCond, hset] using this
    · cases c <;> simp_all [cidrGuarded]

/-- `isAuthorizedAdminRequest` in closed form. -/
theorem isAdmin_iff (conf : Conf) (req : Req) :
    isAdmin conf req = true ↔
      conf.adminUsers = [] ∨ headerGet req.headers conf.aclHeader ∈ conf.adminUsers := by
  unfold isAdmin
  by_cases h : conf.adminUsers = []
  · simp [h]
  · have hl : ¬ conf.adminUsers.length = 0 := by simpa using h
    simp only [beq_iff_eq, hl, if_false, h, false_or, List.any_eq_true]
    constructor
    · rintro ⟨v, hv, he⟩; exact he ▸ hv
    · intro hm; exact ⟨_, hm, rfl⟩

end Nsq.Proofs.AdminGate
