/-
Lemmas about the shape model of the latency aggregate (`Nsq.Model.Latency`).
-/
import Nsq.Model.Latency

namespace Nsq.Proofs.Latency
open Nsq.Model.Latency

/-- No nil map in the slice. -/
def AllSome (p : List Pct) : Prop := ∀ x ∈ p, x ≠ none

theorem allSome_nil : AllSome [] := by intro x hx; cases hx

theorem allSome_tail {x : Pct} {xs : List Pct} (h : AllSome (x :: xs)) : AllSome xs :=
  fun y hy => h y (List.mem_cons_of_mem _ hy)

theorem allSome_cons_some (q : Nat) {xs : List Pct} (h : AllSome xs) : AllSome (some q :: xs) := by
  intro y hy
  cases hy with
  | head => simp
  | tail _ hy => exact h y hy

/-! ### UnmarshalJSON -/

theorem unmarshal_fixed (l : List Pct) : unmarshal true l = .ok (l.filter (·.isSome)) := by
  induction l with
  | nil => rfl
  | cons x xs ih =>
    cases x with
    | none => simp [unmarshal, ih]
    | some q => simp [unmarshal, ih]

theorem filter_allSome (l : List Pct) : AllSome (l.filter (·.isSome)) := by
  intro x hx
  have := (List.mem_filter.mp hx).2
  cases x with
  | none => simp at this
  | some q => simp

theorem unmarshal_unfixed_ok (l : List Pct) (h : AllSome l) : unmarshal false l = .ok l := by
  induction l with
  | nil => rfl
  | cons x xs ih =>
    cases x with
    | none => exact absurd rfl (h none (by simp))
    | some q => simp [unmarshal, ih (allSome_tail h)]

theorem unmarshal_unfixed_panics (l : List Pct) (h : none ∈ l) : ∃ e, unmarshal false l = .error e := by
  induction l with
  | nil => cases h
  | cons x xs ih =>
    cases x with
    | none => exact ⟨_, rfl⟩
    | some q =>
      have hx : none ∈ xs := by
        cases h with
        | tail _ h => exact h
      obtain ⟨e, he⟩ := ih hx
      exact ⟨e, by simp [unmarshal, he]⟩

/-! ### Add -/

theorem addOne_spec (p : List Pct) (k : Nat) (h : AllSome p) :
    ∃ r, addOne p k = .ok r ∧ AllSome r ∧
      r.map key = (if k ∈ p.map key then p.map key else p.map key ++ [k]) := by
  induction p with
  | nil => exact ⟨[some k], rfl, allSome_cons_some k allSome_nil, by simp [key]⟩
  | cons x xs ih =>
    cases x with
    | none => exact absurd rfl (h none (by simp))
    | some q =>
      obtain ⟨r, hr, hs, hk⟩ := ih (allSome_tail h)
      by_cases hq : q = k
      · subst hq
        exact ⟨some q :: xs, by simp [addOne], h, by simp [key]⟩
      · refine ⟨some q :: r, by simp [addOne, hq, hr], allSome_cons_some q hs, ?_⟩
        have hkq : ¬ k = q := fun e => hq e.symm
        by_cases hm : k ∈ xs.map key
        · simp [key, hk, hm]
        · simp only [List.map_cons, key, hk, hm, if_false, List.mem_cons, hkq, false_or,
            List.cons_append]

/-- `Add` never writes to a nil map when the aggregate holds none — whatever `e2` holds (its
entries are only read) — and the keys afterwards are the old keys followed by the new ones. -/
theorem add_spec (e2 : List Pct) : ∀ (p : List Pct), AllSome p →
    ∃ r, add p e2 = .ok r ∧ AllSome r ∧
      (∀ k, k ∈ r.map key ↔ k ∈ p.map key ∨ k ∈ e2.map key) ∧
      ((p.map key).Nodup → (r.map key).Nodup) ∧
      (∃ ext, r.map key = p.map key ++ ext) := by
  induction e2 with
  | nil =>
    intro p h
    exact ⟨p, rfl, h, by simp, id, ⟨[], by simp⟩⟩
  | cons v rest ih =>
    intro p h
    obtain ⟨p1, h1, hs1, hk1⟩ := addOne_spec p (key v) h
    obtain ⟨r, hr, hsr, hmem, hnd, ⟨ext, hext⟩⟩ := ih p1 hs1
    refine ⟨r, by simp [add, h1, hr], hsr, ?_, ?_, ?_⟩
    · intro k
      rw [hmem k, hk1]
      by_cases hm : key v ∈ p.map key
      · simp only [hm, if_true, List.map_cons, List.mem_cons]
        constructor
        · rintro (h | h)
          · exact Or.inl h
          · exact Or.inr (Or.inr h)
        · rintro (h | h | h)
          · exact Or.inl h
          · exact Or.inl (h ▸ hm)
          · exact Or.inr h
      · simp only [hm, if_false, List.mem_append, List.map_cons, List.mem_cons,
          List.not_mem_nil, or_false]
        constructor
        · rintro ((h | h) | h)
          · exact Or.inl h
          · exact Or.inr (Or.inl h)
          · exact Or.inr (Or.inr h)
        · rintro (h | h | h)
          · exact Or.inl (Or.inl h)
          · exact Or.inl (Or.inr h)
          · exact Or.inr h
    · intro hp
      apply hnd
      rw [hk1]
      by_cases hm : key v ∈ p.map key
      · simpa [hm] using hp
      · simp only [hm, if_false]
        rw [List.nodup_append]
        refine ⟨hp, by simp, ?_⟩
        intro a ha b hb
        simp only [List.mem_singleton] at hb
        subst hb
        intro e; subst e; exact hm ha
    · rw [hext, hk1]
      by_cases hm : key v ∈ p.map key
      · exact ⟨ext, by simp [hm]⟩
      · exact ⟨[key v] ++ ext, by simp [hm]⟩

theorem addAll_spec (ds : List (List Pct)) : ∀ (p : List Pct), AllSome p →
    ∃ r, addAll p ds = .ok r ∧ AllSome r ∧
      (∀ k, k ∈ r.map key ↔ k ∈ p.map key ∨ ∃ d ∈ ds, k ∈ d.map key) ∧
      ((p.map key).Nodup → (r.map key).Nodup) := by
  induction ds with
  | nil =>
    intro p h
    exact ⟨p, rfl, h, by simp, id⟩
  | cons d rest ih =>
    intro p h
    obtain ⟨p1, h1, hs1, hm1, hn1, _⟩ := add_spec d p h
    obtain ⟨r, hr, hsr, hmem, hnd⟩ := ih p1 hs1
    refine ⟨r, by simp [addAll, h1, hr], hsr, ?_, fun hp => hnd (hn1 hp)⟩
    intro k
    rw [hmem k, hm1 k]
    constructor
    · rintro ((h | h) | ⟨d', hd', h⟩)
      · exact Or.inl h
      · exact Or.inr ⟨d, by simp, h⟩
      · exact Or.inr ⟨d', by simp [hd'], h⟩
    · rintro (h | ⟨d', hd', h⟩)
      · exact Or.inl (Or.inl h)
      · cases hd' with
        | head => exact Or.inl (Or.inr h)
        | tail _ hd' => exact Or.inr ⟨d', hd', h⟩

theorem decodeAll_fixed (docs : List (List Pct)) :
    decodeAll true docs = .ok (docs.map (fun d => d.filter (·.isSome))) := by
  induction docs with
  | nil => rfl
  | cons d rest ih => simp [decodeAll, unmarshal_fixed, ih]

theorem decodeAll_unfixed_panics (docs : List (List Pct)) (h : ∃ d ∈ docs, none ∈ d) :
    ∃ e, decodeAll false docs = .error e := by
  induction docs with
  | nil => obtain ⟨d, hd, _⟩ := h; cases hd
  | cons d rest ih =>
    by_cases hd : none ∈ d
    · obtain ⟨e, he⟩ := unmarshal_unfixed_panics d hd
      exact ⟨e, by simp [decodeAll, he]⟩
    · have hr : ∃ d' ∈ rest, none ∈ d' := by
        obtain ⟨d', hd', hn⟩ := h
        cases hd' with
        | head => exact absurd hn hd
        | tail _ hd' => exact ⟨d', hd', hn⟩
      obtain ⟨e, he⟩ := ih hr
      cases hu : unmarshal false d with
      | error e' => exact ⟨e', by simp [decodeAll, hu]⟩
      | ok d' => exact ⟨e, by simp [decodeAll, hu, he]⟩

theorem mem_keys_filter (d : List Pct) (k : Nat) :
    k ∈ (d.filter (·.isSome)).map key ↔ some k ∈ d := by
  constructor
  · intro h
    obtain ⟨x, hx, hk⟩ := List.mem_map.mp h
    obtain ⟨hxd, hs⟩ := List.mem_filter.mp hx
    cases x with
    | none => simp at hs
    | some q => simp only [key] at hk; subst hk; exact hxd
  · intro h
    exact List.mem_map.mpr ⟨some k, List.mem_filter.mpr ⟨h, rfl⟩, rfl⟩

/-- With F53 the whole path — decode every node's document, aggregate from a fresh aggregate — never
faults; the aggregate has no nil map, one entry per distinct "quantile" that some node reported in a
non-null entry, and nothing else. -/
theorem aggregate_fixed (docs : List (List Pct)) :
    ∃ r, aggregate true docs = .ok r ∧ AllSome r ∧ (r.map key).Nodup ∧
      ∀ k, k ∈ r.map key ↔ ∃ d ∈ docs, some k ∈ d := by
  obtain ⟨r, hr, hs, hm, hn⟩ :=
    addAll_spec (docs.map (fun d => d.filter (·.isSome))) [] allSome_nil
  refine ⟨r, by simp [aggregate, decodeAll_fixed, hr], hs, hn (by simp), ?_⟩
  intro k
  rw [hm k]
  constructor
  · rintro (h | ⟨d', hd', hk⟩)
    · cases h
    · obtain ⟨d, hd, rfl⟩ := List.mem_map.mp hd'
      exact ⟨d, hd, (mem_keys_filter d k).mp hk⟩
  · rintro ⟨d, hd, hk⟩
    exact Or.inr ⟨_, List.mem_map.mpr ⟨d, hd, rfl⟩, (mem_keys_filter d k).mpr hk⟩

end Nsq.Proofs.Latency
