/-
E2 — lifting to the nsqd level (`Nsq.Model.ChanNsqd`): every channel of every topic satisfies the
channel invariant; acknowledged ids are in the topic queue or were fanned out; a fanned-out id has
a `fanout` event in every channel that existed when it was published.
-/
import Nsq.Proofs.ChanEnv
import Nsq.Model.ChanNsqd
namespace Nsq.Proofs.ChanNsqd
open Nsq.Model.Chan Nsq.Model.ChanNsqd Nsq.Proofs.Chan

/-! ### topic / state invariant -/

structure TInv (nextId : Nat) (t : Topic) : Prop where
  chans : ∀ nc ∈ t.chans, Inv 0 nc.ch
  cnodup : (t.chans.map (·.cid)).Nodup
  pfresh : t.pump = t.chans.map (·.cid)
  qnodup : (t.queue.map (·.id) ++ t.pumped).Nodup
  ackq : ∀ i, (i ∈ t.acked ∨ i ∈ t.unacked) ↔ (i ∈ t.queue.map (·.id) ∨ i ∈ t.pumped)
  anodup : (t.acked ++ t.unacked).Nodup
  count : t.msgCount = t.acked.length + t.unacked.length
  lt : ∀ i, (i ∈ t.acked ∨ i ∈ t.unacked) → i < nextId
  fan : ∀ nc ∈ t.chans, ∀ i ∈ t.pumped, nc.born ≤ i → nFanout nc.ch.hist i ≠ 0
  only : ∀ nc ∈ t.chans, ∀ i, nFanout nc.ch.hist i ≠ 0 → i ∈ t.pumped
  born : ∀ nc ∈ t.chans, nc.born ≤ nextId
  /- envelopes (C07.4) -/
  cenv : ∀ nc ∈ t.chans, EnvInv nc.ch
  cput : ∀ nc ∈ t.chans, ∀ id ev, EEv.put id ev ∈ nc.ch.elog → (id, ev) ∈ t.envlog
  qenv : ∀ m ∈ t.queue, (m.id, m.env) ∈ t.envlog
  elid : ∀ p ∈ t.envlog, p.1 ∈ t.acked ∨ p.1 ∈ t.unacked
  elnodup : (t.envlog.map (·.1)).Nodup

structure NInv (s : State) : Prop where
  topics : ∀ t ∈ s.topics, TInv s.nextId t
  tnodup : (s.topics.map (·.tid)).Nodup

theorem TInv.mono {n m : Nat} {t : Topic} (h : TInv n t) (hnm : n ≤ m) : TInv m t :=
  { h with lt := fun i hi => Nat.lt_of_lt_of_le (h.lt i hi) hnm
           born := fun nc hnc => Nat.le_trans (h.born nc hnc) hnm }

/-! ### list plumbing -/

theorem mem_updT {l : List Topic} {t : Nat} {f : Topic → Topic} {x : Topic} :
    x ∈ updT l t f ↔ ∃ y ∈ l, (if y.tid = t then f y else y) = x := by
  unfold updT; simp [List.mem_map]

theorem map_tid_updT (l : List Topic) (t : Nat) (f : Topic → Topic) (hf : ∀ y, (f y).tid = y.tid) :
    (updT l t f).map (·.tid) = l.map (·.tid) := by
  unfold updT
  induction l with
  | nil => rfl
  | cons y l ih => simp only [List.map_cons, ih]; split <;> simp_all

theorem mem_updN {l : List NChan} {c : Nat} {f : Chan → Chan} {x : NChan} :
    x ∈ updN l c f ↔ ∃ y ∈ l, (if y.cid = c then { y with ch := f y.ch } else y) = x := by
  unfold updN; simp [List.mem_map]

theorem map_cid_updN (l : List NChan) (c : Nat) (f : Chan → Chan) : (updN l c f).map (·.cid) = l.map (·.cid) := by
  unfold updN
  induction l with
  | nil => rfl
  | cons y l ih => simp only [List.map_cons, ih]; split <;> simp_all

theorem findT_some {l : List Topic} {t : Nat} {x : Topic} (h : findT l t = some x) : x ∈ l ∧ x.tid = t := by
  unfold findT at h
  have h1 := List.find?_some h
  have h2 := List.mem_of_find?_eq_some h
  simp_all

theorem findN_some {l : List NChan} {c : Nat} {x : NChan} (h : findN l c = some x) : x ∈ l ∧ x.cid = c := by
  unfold findN at h
  have h1 := List.find?_some h
  have h2 := List.mem_of_find?_eq_some h
  simp_all

theorem findN_none {l : List NChan} {c : Nat} (h : findN l c = none) : ∀ x ∈ l, x.cid ≠ c := by
  unfold findN at h
  simpa using h

theorem findT_none {l : List Topic} {t : Nat} (h : findT l t = none) : ∀ x ∈ l, x.tid ≠ t := by
  unfold findT at h
  simpa using h

theorem eq_of_tid_eq {l : List Topic} (h : (l.map (·.tid)).Nodup) {a b : Topic}
    (h1 : a ∈ l) (h2 : b ∈ l) (hid : a.tid = b.tid) : a = b := by
  induction l with
  | nil => cases h1
  | cons e l ih =>
    simp only [List.map_cons, List.nodup_cons, List.mem_map, not_exists, not_and] at h
    simp only [List.mem_cons] at h1 h2
    rcases h1 with rfl | h1 <;> rcases h2 with rfl | h2
    · rfl
    · exact absurd hid.symm (h.1 b h2)
    · exact absurd hid (h.1 a h1)
    · exact ih h.2 h1 h2

theorem eq_of_cid_eq {l : List NChan} (h : (l.map (·.cid)).Nodup) {a b : NChan}
    (h1 : a ∈ l) (h2 : b ∈ l) (hid : a.cid = b.cid) : a = b := by
  induction l with
  | nil => cases h1
  | cons e l ih =>
    simp only [List.map_cons, List.nodup_cons, List.mem_map, not_exists, not_and] at h
    simp only [List.mem_cons] at h1 h2
    rcases h1 with rfl | h1 <;> rcases h2 with rfl | h2
    · rfl
    · exact absurd hid.symm (h.1 b h2)
    · exact absurd hid (h.1 a h1)
    · exact ih h.2 h1 h2

/-- replacing the topics one by one with topics that satisfy `TInv` keeps `NInv` -/
theorem ninv_updT {s : State} (hi : NInv s) (t : Nat) (f : Topic → Topic) (n : Nat)
    (hn : s.nextId ≤ n) (hf : ∀ y ∈ s.topics, y.tid = t → (f y).tid = y.tid ∧ TInv n (f y)) (subs : List Sub) (ever : List Nat) :
    NInv { s with topics := updT s.topics t f, nextId := n, subs := subs, everSub := ever } := by
  refine ⟨?_, ?_⟩
  · intro x hx
    obtain ⟨y, hy, rfl⟩ := mem_updT.1 hx
    by_cases hk : y.tid = t
    · simp only [hk, ↓reduceIte]; exact (hf y hy hk).2
    · simp only [hk, ↓reduceIte]; exact (hi.topics y hy).mono hn
  · have : (updT s.topics t f).map (·.tid) = s.topics.map (·.tid) := by
      unfold updT
      rw [List.map_map]
      apply List.map_congr_left
      intro y hy
      simp only [Function.comp]
      by_cases hk : y.tid = t
      · simp only [hk, beq_self_eq_true, ↓reduceIte]; rw [← hk]; exact (hf y hy hk).1
      · simp [hk]
    show ((updT s.topics t f).map (·.tid)).Nodup
    rw [this]; exact hi.tnodup

/-- a channel-level step on one channel of a topic, for an operation that is not a fan-out -/
theorem tinv_updN {n : Nat} {t : Topic} (hi : TInv n t) (conf : Conf) (c : Nat) (op : Nsq.Model.Chan.Op)
    (hop : ∀ i e, op ≠ .put i e) (hop2 : ∀ i p e, op ≠ .putDeferred i p e) :
    TInv n { t with chans := updN t.chans c (fun ch => (Nsq.Model.Chan.step conf ch op).1) } := by
  have hmem : ∀ x ∈ updN t.chans c (fun ch => (Nsq.Model.Chan.step conf ch op).1), ∃ y ∈ t.chans, x.cid = y.cid ∧ x.born = y.born ∧
      Inv 0 x.ch ∧ (∀ i, nFanout x.ch.hist i = nFanout y.ch.hist i) ∧ EnvInv x.ch ∧
      ∀ id ev, EEv.put id ev ∈ x.ch.elog → EEv.put id ev ∈ y.ch.elog := by
    intro x hx
    obtain ⟨y, hy, rfl⟩ := mem_updN.1 hx
    refine ⟨y, hy, ?_⟩
    by_cases hk : y.cid = c
    · simp only [hk, ↓reduceIte]
      exact ⟨trivial, trivial, step_inv conf (hi.chans y hy) op, fun i => nonput_nFanout conf y.ch op i hop hop2,
        step_envInv conf (hi.chans y hy) (hi.cenv y hy) op, fun id ev h => nonput_puts conf y.ch op hop hop2 id ev h⟩
    · simp only [hk, ↓reduceIte]
      exact ⟨trivial, trivial, hi.chans y hy, fun _ => trivial, hi.cenv y hy, fun _ _ h => h⟩
  exact {
    cenv := fun x hx => let ⟨_, _, _, _, _, _, h, _⟩ := hmem x hx; h
    cput := by
      intro x hx id ev hp
      obtain ⟨y, hy, _, _, _, _, _, hsub⟩ := hmem x hx
      exact hi.cput y hy id ev (hsub id ev hp)
    qenv := hi.qenv, elid := hi.elid, elnodup := hi.elnodup
    chans := fun x hx => let ⟨_, _, _, _, h, _⟩ := hmem x hx; h
    cnodup := by simp only [map_cid_updN]; exact hi.cnodup
    pfresh := by simp only [map_cid_updN]; exact hi.pfresh
    qnodup := hi.qnodup, ackq := hi.ackq, anodup := hi.anodup, count := hi.count, lt := hi.lt
    fan := by
      intro x hx i hip hb
      obtain ⟨y, hy, _, hborn, _, hf, _⟩ := hmem x hx
      rw [hf i]; exact hi.fan y hy i hip (hborn ▸ hb)
    only := by
      intro x hx i hne
      obtain ⟨y, hy, _, _, _, hf, _⟩ := hmem x hx
      rw [hf i] at hne; exact hi.only y hy i hne
    born := by
      intro x hx
      obtain ⟨y, hy, _, hborn, _, _⟩ := hmem x hx
      rw [hborn]; exact hi.born y hy }


/-! ### the individual operations -/

theorem tinv_empty (n t memq : Nat) : TInv n { tid := t, memCap := memq } :=
  { chans := by simp, cnodup := by simp, pfresh := rfl, qnodup := by simp, ackq := by simp, anodup := by simp
    count := rfl, lt := by simp, fan := by simp, only := by simp, born := by simp
    cenv := by simp, cput := by simp, qenv := by simp, elid := by simp, elnodup := by simp }

theorem ninv_ensureTopic {s : State} (hi : NInv s) (t : Nat) : NInv (ensureTopic s t) := by
  unfold ensureTopic
  split
  · exact hi
  · rename_i hf
    have hfresh := findT_none hf
    refine ⟨?_, ?_⟩
    · intro x hx
      simp only [List.mem_append, List.mem_singleton] at hx
      rcases hx with hx | rfl
      · exact hi.topics x hx
      · exact tinv_empty _ _ _
    · simp only [List.map_append, List.map_cons, List.map_nil]
      rw [List.nodup_append]
      refine ⟨hi.tnodup, by simp, ?_⟩
      intro a ha b hb
      simp only [List.mem_singleton] at hb
      subst hb
      simp only [List.mem_map] at ha
      obtain ⟨y, hy, rfl⟩ := ha
      exact hfresh y hy

theorem ensureTopic_nextId (s : State) (t : Nat) : (ensureTopic s t).nextId = s.nextId ∧ (ensureTopic s t).conf = s.conf := by
  unfold ensureTopic; split <;> exact ⟨rfl, rfl⟩

theorem pumped_lt {n : Nat} {t : Topic} (hi : TInv n t) {i : Nat} (h : i ∈ t.pumped) : i < n :=
  hi.lt i ((hi.ackq i).2 (Or.inr h))

theorem queued_lt {n : Nat} {t : Topic} (hi : TInv n t) {i : Nat} (h : i ∈ t.queue.map (·.id)) : i < n :=
  hi.lt i ((hi.ackq i).2 (Or.inl h))

theorem ninv_doCreateChan {s : State} (hi : NInv s) (t c : Nat) (eph : Bool) : NInv (doCreateChan s t c eph).1 := by
  unfold doCreateChan
  have h1 := ninv_ensureTopic hi t
  simp only
  split
  · exact h1
  · rename_i tp hft
    split
    · exact h1
    · rename_i hfn
      have hfresh := findN_none hfn
      refine ninv_updT h1 t _ _ (Nat.le_refl _) ?_ _ _
      intro y hy hyt
      obtain ⟨htp, htt⟩ := findT_some hft
      have : y = tp := eq_of_tid_eq h1.tnodup hy htp (hyt.trans htt.symm)
      subst this
      have hy' := h1.topics y hy
      refine ⟨rfl, ?_⟩
      have hn := (ensureTopic_nextId s t).1
      exact {
        chans := by
          intro nc hnc
          simp only [List.mem_append, List.mem_singleton] at hnc
          rcases hnc with hnc | rfl
          · exact hy'.chans nc hnc
          · exact inv_init _ _
        cnodup := by
          simp only [List.map_append, List.map_cons, List.map_nil]
          rw [List.nodup_append]
          refine ⟨hy'.cnodup, by simp, ?_⟩
          intro a ha b hb
          simp only [List.mem_singleton] at hb
          subst hb
          simp only [List.mem_map] at ha
          obtain ⟨z, hz, rfl⟩ := ha
          exact hfresh z hz
        pfresh := rfl
        qnodup := hy'.qnodup, ackq := hy'.ackq, anodup := hy'.anodup, count := hy'.count, lt := hy'.lt
        fan := by
          intro nc hnc i hip hb
          simp only [List.mem_append, List.mem_singleton] at hnc
          rcases hnc with hnc | rfl
          · exact hy'.fan nc hnc i hip hb
          · have := pumped_lt hy' hip
            simp only at hb
            omega
        only := by
          intro nc hnc i hne
          simp only [List.mem_append, List.mem_singleton] at hnc
          rcases hnc with hnc | rfl
          · exact hy'.only nc hnc i hne
          · simp [newChan, nFanout] at hne
        born := by
          intro nc hnc
          simp only [List.mem_append, List.mem_singleton] at hnc
          rcases hnc with hnc | rfl
          · exact hy'.born nc hnc
          · exact Nat.le_refl _
        cenv := by
          intro nc hnc
          simp only [List.mem_append, List.mem_singleton] at hnc
          rcases hnc with hnc | rfl
          · exact hy'.cenv nc hnc
          · exact envInv_init _ _
        cput := by
          intro nc hnc id ev hp
          simp only [List.mem_append, List.mem_singleton] at hnc
          rcases hnc with hnc | rfl
          · exact hy'.cput nc hnc id ev hp
          · simp [newChan] at hp
        qenv := hy'.qenv, elid := hy'.elid, elnodup := hy'.elnodup }


/-- a channel-level step applied through `chanStep` (not a fan-out) keeps `NInv` -/
theorem ninv_chanStep {s : State} (hi : NInv s) (t c : Nat) (op : Nsq.Model.Chan.Op)
    (hop : ∀ i e, op ≠ .put i e) (hop2 : ∀ i p e, op ≠ .putDeferred i p e) : NInv (chanStep s t c op).1 := by
  unfold chanStep
  split
  · exact hi
  · rename_i tp hft
    split
    · exact hi
    · rename_i nc hfn
      obtain ⟨htp, htt⟩ := findT_some hft
      obtain ⟨hnc, hcc⟩ := findN_some hfn
      have h0 := ninv_updT hi t (fun tp => { tp with chans := updN tp.chans c (fun ch => (Nsq.Model.Chan.step s.conf.chan ch op).1) })
        s.nextId (Nat.le_refl _) (fun y hy _ => ⟨rfl, tinv_updN (hi.topics y hy) s.conf.chan c op hop hop2⟩) s.subs s.everSub
      -- `chanStep` stores the result computed for the channel found; with distinct ids that is the same update
      have heq : updT s.topics t (fun tp => { tp with chans := updN tp.chans c (fun _ => (Nsq.Model.Chan.step s.conf.chan nc.ch op).1) })
          = updT s.topics t (fun tp => { tp with chans := updN tp.chans c (fun ch => (Nsq.Model.Chan.step s.conf.chan ch op).1) }) := by
        unfold updT
        apply List.map_congr_left
        intro y hy
        by_cases hk : y.tid = t
        · have : y = tp := eq_of_tid_eq hi.tnodup hy htp (hk.trans htt.symm)
          subst this
          simp only [hk, beq_self_eq_true, ↓reduceIte]
          congr 1
          unfold updN
          apply List.map_congr_left
          intro z hz
          by_cases hz' : z.cid = c
          · have : z = nc := eq_of_cid_eq (hi.topics y hy).cnodup hz hnc (hz'.trans hcc.symm)
            subst this
            rfl
          · simp [hz']
        · simp [hk]
      simp only
      rw [heq]
      exact h0

theorem ninv_subs {s : State} (hi : NInv s) (subs : List Sub) (ever : List Nat) :
    NInv { s with subs := subs, everSub := ever } := ⟨hi.topics, hi.tnodup⟩

theorem tinv_reap {n : Nat} {t : Topic} (hi : TInv n t) (c : Nat) : TInv n (reapEphemeral t c) := by
  unfold reapEphemeral
  split
  · split
    · exact {
        chans := fun nc hnc => hi.chans nc (List.mem_filter.1 hnc).1
        cnodup := by
          have := hi.cnodup
          rw [List.Nodup] at this ⊢
          rw [List.pairwise_map] at this ⊢
          exact this.filter _
        pfresh := by
          simp only [hi.pfresh, List.filter_map]
          congr 1
        qnodup := hi.qnodup, ackq := hi.ackq, anodup := hi.anodup, count := hi.count, lt := hi.lt
        fan := fun nc hnc => hi.fan nc (List.mem_filter.1 hnc).1
        only := fun nc hnc => hi.only nc (List.mem_filter.1 hnc).1
        born := fun nc hnc => hi.born nc (List.mem_filter.1 hnc).1
        cenv := fun nc hnc => hi.cenv nc (List.mem_filter.1 hnc).1
        cput := fun nc hnc => hi.cput nc (List.mem_filter.1 hnc).1
        qenv := hi.qenv, elid := hi.elid, elnodup := hi.elnodup }
    · exact hi
  · exact hi

theorem ninv_reap {s : State} (hi : NInv s) (t c : Nat) (subs : List Sub) :
    NInv { s with topics := updT s.topics t (fun tp => reapEphemeral tp c), subs := subs } := by
  have := ninv_updT hi t (fun tp => reapEphemeral tp c) s.nextId (Nat.le_refl _)
    (fun y hy _ => ⟨by unfold reapEphemeral; split <;> (try split) <;> rfl, tinv_reap (hi.topics y hy) c⟩) subs s.everSub
  exact this

theorem ninv_connStep {s : State} (hi : NInv s) (k : Nat) (op : Nsq.Model.Chan.Op)
    (hop : ∀ i e, op ≠ .put i e) (hop2 : ∀ i p e, op ≠ .putDeferred i p e) : NInv (connStep s k op).1 := by
  unfold connStep
  split
  · exact hi
  · rename_i sb _
    have h1 := ninv_chanStep hi sb.tid sb.cid op hop hop2
    simp only
    split
    · exact ninv_reap h1 _ _ _
    · exact h1


/-! ### publishing -/

theorem mem_idsFrom {a n i : Nat} : i ∈ idsFrom a n ↔ a ≤ i ∧ i < a + n := by
  induction n generalizing a with
  | zero => simp [idsFrom]
  | succ n ih => simp only [idsFrom, List.mem_cons, ih]; omega

theorem idsFrom_nodup (a n : Nat) : (idsFrom a n).Nodup := by
  induction n generalizing a with
  | zero => simp [idsFrom]
  | succ n ih =>
    simp only [idsFrom, List.nodup_cons, mem_idsFrom]
    exact ⟨by omega, ih _⟩

theorem length_idsFrom (a n : Nat) : (idsFrom a n).length = n := by
  induction n generalizing a with
  | zero => rfl
  | succ n ih => simp [idsFrom, ih]

theorem putT_spec (t : Topic) (id sz d : Nat) (env : Env) :
    ∃ q, putT t id sz d env = { t with queue := q, envlog := (id, env) :: t.envlog } ∧
      q.map (·.id) = id :: t.queue.map (·.id) ∧ ∀ m ∈ q, m ∈ t.queue ∨ (m.id = id ∧ m.env = env) := by
  unfold putT
  refine ⟨_, rfl, by simp, ?_⟩
  intro m hm
  simp only [List.mem_cons] at hm
  rcases hm with rfl | hm
  · exact Or.inr ⟨rfl, rfl⟩
  · exact Or.inl hm

theorem putMany_spec (t : Topic) (id : Nat) (sizes : List Nat) (envs : List Env) :
    ∃ q el, putMany t id sizes envs = { t with queue := q, envlog := el } ∧
      q.map (·.id) = (idsFrom id sizes.length).reverse ++ t.queue.map (·.id) ∧
      el.map (·.1) = (idsFrom id sizes.length).reverse ++ t.envlog.map (·.1) ∧
      (∀ p ∈ t.envlog, p ∈ el) ∧ (∀ m ∈ q, m ∈ t.queue ∨ (m.id, m.env) ∈ el) := by
  induction sizes generalizing t id envs with
  | nil => exact ⟨t.queue, t.envlog, rfl, by simp [idsFrom], by simp [idsFrom], fun _ h => h, fun _ h => Or.inl h⟩
  | cons sz rest ih =>
    obtain ⟨q1, h1, hq1, hm1⟩ := putT_spec t id sz 0 (envs.headD {})
    obtain ⟨q2, el2, h2, hq2, hel2, hold2, hm2⟩ := ih (putT t id sz 0 (envs.headD {})) (id + 1) envs.tail
    refine ⟨q2, el2, ?_, ?_, ?_, ?_, ?_⟩
    · simp only [putMany]; rw [h2, h1]
    · rw [hq2, h1]; simp [idsFrom, hq1]
    · rw [hel2, h1]; simp [idsFrom]
    · intro p hp
      apply hold2
      rw [h1]
      exact List.mem_cons_of_mem _ hp
    · intro m hm
      rcases hm2 m hm with h | h
      · rw [h1] at h
        rcases hm1 m h with h' | ⟨h', h''⟩
        · exact Or.inl h'
        · right
          apply hold2
          rw [h1, ← h', ← h'']
          exact List.mem_cons_self
      · exact Or.inr h

/-- new ids (all ≥ the old id counter) enter the topic queue and the acknowledged (or, for a
failed MPUB, the enqueued-but-unacknowledged) list -/
theorem tinv_publish {n m : Nat} {t : Topic} (hi : TInv n t) (ids : List Nat) (hnd : ids.Nodup)
    (hr : ∀ i ∈ ids, n ≤ i ∧ i < m) (hnm : n ≤ m) (q' : List TMsg)
    (hq : q'.map (·.id) = ids ++ t.queue.map (·.id)) (el' : List (Nat × Env))
    (hel : el'.map (·.1) = ids ++ t.envlog.map (·.1)) (hold' : ∀ p ∈ t.envlog, p ∈ el')
    (hqe : ∀ m ∈ q', m ∈ t.queue ∨ (m.id, m.env) ∈ el') (acked' unacked' : List Nat) (mc mb : Nat)
    (hau : (acked' = ids ++ t.acked ∧ unacked' = t.unacked) ∨ (acked' = t.acked ∧ unacked' = ids ++ t.unacked))
    (hmc : mc = t.msgCount + ids.length) :
    TInv m { t with queue := q', msgCount := mc, msgBytes := mb, acked := acked', unacked := unacked', envlog := el' } := by
  have hold : ∀ i, (i ∈ t.acked ∨ i ∈ t.unacked) → i < n := hi.lt
  have hmemau : ∀ i, (i ∈ acked' ∨ i ∈ unacked') ↔ (i ∈ ids ∨ i ∈ t.acked ∨ i ∈ t.unacked) := by
    intro i
    rcases hau with ⟨h1, h2⟩ | ⟨h1, h2⟩ <;> subst h1 <;> subst h2 <;> simp only [List.mem_append]
    · constructor
      · rintro ((h | h) | h) <;> simp [h]
      · rintro (h | h | h) <;> simp [h]
    · constructor
      · rintro (h | h | h) <;> simp [h]
      · rintro (h | h | h) <;> simp [h]
  exact {
    chans := hi.chans, cnodup := hi.cnodup, pfresh := hi.pfresh
    qnodup := by
      simp only [hq, List.append_assoc]
      rw [List.nodup_append]
      refine ⟨hnd, hi.qnodup, ?_⟩
      intro a ha b hb hab
      subst hab
      have h1 := (hr a ha).1
      have h2 : a < n := by
        simp only [List.mem_append] at hb
        rcases hb with hb | hb
        · exact queued_lt hi hb
        · exact pumped_lt hi hb
      omega
    ackq := by
      intro i
      simp only [hmemau, hq, List.mem_append]
      have := hi.ackq i
      constructor
      · rintro (h | h)
        · exact Or.inl (Or.inl h)
        · rcases this.1 h with h' | h'
          · exact Or.inl (Or.inr h')
          · exact Or.inr h'
      · rintro ((h | h) | h)
        · exact Or.inl h
        · exact Or.inr (this.2 (Or.inl h))
        · exact Or.inr (this.2 (Or.inr h))
    anodup := by
      have hdis : ∀ a ∈ ids, ∀ b ∈ t.acked ++ t.unacked, a ≠ b := by
        intro a ha b hb hab
        subst hab
        have h1 := (hr a ha).1
        have h2 := hold a (by simpa [List.mem_append] using hb)
        omega
      rcases hau with ⟨h1, h2⟩ | ⟨h1, h2⟩ <;> subst h1 <;> subst h2
      · simp only [List.append_assoc]
        rw [List.nodup_append]
        exact ⟨hnd, hi.anodup, hdis⟩
      · have h0 := hi.anodup
        rw [List.nodup_append] at h0 ⊢
        refine ⟨h0.1, ?_, ?_⟩
        · rw [List.nodup_append]
          exact ⟨hnd, h0.2.1, fun a ha b hb => hdis a ha b (List.mem_append_right _ hb)⟩
        · intro a ha b hb
          simp only [List.mem_append] at hb
          rcases hb with hb | hb
          · exact fun hab => hdis b hb a (List.mem_append_left _ ha) hab.symm
          · exact h0.2.2 a ha b hb
    count := by
      have := hi.count
      rcases hau with ⟨h1, h2⟩ | ⟨h1, h2⟩ <;> subst h1 <;> subst h2 <;> simp only [List.length_append] <;> omega
    lt := by
      intro i h
      rcases (hmemau i).1 h with h | h
      · exact (hr i h).2
      · exact Nat.lt_of_lt_of_le (hold i h) hnm
    fan := hi.fan, only := hi.only
    born := fun nc hnc => Nat.le_trans (hi.born nc hnc) hnm
    cenv := hi.cenv
    cput := fun nc hnc id ev hp => hold' _ (hi.cput nc hnc id ev hp)
    qenv := by
      intro x hx
      rcases hqe x hx with h | h
      · exact hold' _ (hi.qenv x h)
      · exact h
    elid := by
      intro p hp
      have : p.1 ∈ el'.map (·.1) := List.mem_map.2 ⟨p, hp, rfl⟩
      rw [hel, List.mem_append] at this
      apply (hmemau p.1).2
      rcases this with h | h
      · exact Or.inl h
      · obtain ⟨p0, hp0, he0⟩ := List.mem_map.1 h
        rw [← he0]
        exact Or.inr (hi.elid p0 hp0)
    elnodup := by
      rw [hel, List.nodup_append]
      refine ⟨hnd, hi.elnodup, ?_⟩
      intro a ha b hb hab
      subst hab
      obtain ⟨p0, hp0, he0⟩ := List.mem_map.1 hb
      have h1 := (hr a ha).1
      have h2 := hold p0.1 (hi.elid p0 hp0)
      rw [he0] at h2
      omega }


/-! ### fan-out -/

/-- what `fanOne` does to one channel of the topic, given that the id is new to it -/
theorem fanOne_spec (conf : NConf) (pump : List Nat) (m : TMsg) (kept : Bool) (pris : List (Nat × Int)) {nc : NChan}
    (hi : Inv 0 nc.ch) (hnew : nFanout nc.ch.hist m.id = 0) (he : EnvInv nc.ch) :
    (fanOne conf pump m kept pris nc).cid = nc.cid ∧ (fanOne conf pump m kept pris nc).born = nc.born ∧
    Inv 0 (fanOne conf pump m kept pris nc).ch ∧
    (∀ j, nFanout (fanOne conf pump m kept pris nc).ch.hist j
      = nFanout nc.ch.hist j + (if pump.contains nc.cid ∧ m.id = j then 1 else 0)) ∧
    EnvInv (fanOne conf pump m kept pris nc).ch ∧
    ∀ i ev, EEv.put i ev ∈ (fanOne conf pump m kept pris nc).ch.elog → EEv.put i ev ∈ nc.ch.elog ∨ (i = m.id ∧ ev = m.env) := by
  unfold fanOne
  by_cases hp : pump.contains nc.cid = true
  · simp only [hp, Bool.not_true, Bool.false_eq_true, ↓reduceIte, true_and]
    split
    · split
      · exact ⟨rfl, rfl, step_inv _ hi _, fun j => putDeferred_nFanout _ hi _ _ _ hnew j, step_envInv _ hi he _,
          fun i ev h => putDeferred_puts _ _ _ _ _ i ev h⟩
      · exact ⟨rfl, rfl, step_inv _ hi _, fun j => putDeferred_nFanout _ hi _ _ _ hnew j, step_envInv _ hi he _,
          fun i ev h => putDeferred_puts _ _ _ _ _ i ev h⟩
    · exact ⟨rfl, rfl, step_inv _ hi _, fun j => put_nFanout _ hi _ _ hnew j, step_envInv _ hi he _,
        fun i ev h => put_puts _ _ _ _ i ev h⟩
  · have hp' : pump.contains nc.cid = false := by simpa using hp
    simp only [hp', Bool.not_false, ↓reduceIte]
    exact ⟨trivial, trivial, hi, fun _ => by simp, he, fun _ _ h => Or.inl h⟩

theorem mem_filter_ne_id {q : List TMsg} {id i : Nat} :
    i ∈ (q.filter (fun x => x.id != id)).map (·.id) ↔ i ∈ q.map (·.id) ∧ i ≠ id := by
  simp only [List.mem_map, List.mem_filter, bne_iff_ne, ne_eq]
  constructor
  · rintro ⟨x, ⟨hx, hne⟩, rfl⟩; exact ⟨⟨x, hx, rfl⟩, hne⟩
  · rintro ⟨⟨x, hx, rfl⟩, hne⟩; exact ⟨x, ⟨hx, hne⟩, rfl⟩

theorem tinv_pump {n : Nat} {t : Topic} (hi : TInv n t) (conf : NConf) {m : TMsg} (hm : m ∈ t.queue)
    (kept : Bool) (pris : List (Nat × Int)) :
    TInv n { t with queue := t.queue.filter (fun x => x.id != m.id),
                    chans := t.chans.map (fanOne conf t.pump m kept pris),
                    pumped := m.id :: t.pumped } := by
  have hmq : m.id ∈ t.queue.map (·.id) := List.mem_map.2 ⟨m, hm, rfl⟩
  have hqn := hi.qnodup
  rw [List.nodup_append] at hqn
  have hnotp : m.id ∉ t.pumped := fun h => hqn.2.2 m.id hmq m.id h rfl
  have hnew : ∀ nc ∈ t.chans, nFanout nc.ch.hist m.id = 0 := by
    intro nc hnc
    apply Classical.byContradiction
    intro hne
    exact hnotp (hi.only nc hnc m.id hne)
  have hspec := fun nc (hnc : nc ∈ t.chans) => fanOne_spec conf t.pump m kept pris (hi.chans nc hnc) (hnew nc hnc) (hi.cenv nc hnc)
  have hcids : (t.chans.map (fanOne conf t.pump m kept pris)).map (·.cid) = t.chans.map (·.cid) := by
    rw [List.map_map]
    apply List.map_congr_left
    intro nc hnc
    exact (hspec nc hnc).1
  exact {
    chans := by
      intro x hx
      obtain ⟨nc, hnc, rfl⟩ := List.mem_map.1 hx
      exact (hspec nc hnc).2.2.1
    cnodup := by simp only [hcids]; exact hi.cnodup
    pfresh := by simp only [hcids]; exact hi.pfresh
    qnodup := by
      rw [List.nodup_append]
      refine ⟨?_, ?_, ?_⟩
      · have := hqn.1
        rw [List.Nodup, List.pairwise_map] at this ⊢
        exact this.filter _
      · exact List.nodup_cons.2 ⟨hnotp, hqn.2.1⟩
      · intro a ha b hb hab
        subst hab
        obtain ⟨ha1, ha2⟩ := mem_filter_ne_id.1 ha
        simp only [List.mem_cons] at hb
        rcases hb with hb | hb
        · exact ha2 hb
        · exact hqn.2.2 a ha1 a hb rfl
    ackq := by
      intro i
      rw [hi.ackq i, mem_filter_ne_id]
      simp only [List.mem_cons]
      constructor
      · rintro (h | h)
        · by_cases he : i = m.id
          · exact Or.inr (Or.inl he)
          · exact Or.inl ⟨h, he⟩
        · exact Or.inr (Or.inr h)
      · rintro (⟨h, _⟩ | h | h)
        · exact Or.inl h
        · exact Or.inl (h ▸ hmq)
        · exact Or.inr h
    anodup := hi.anodup, count := hi.count, lt := hi.lt
    fan := by
      intro x hx i hip hb
      obtain ⟨nc, hnc, rfl⟩ := List.mem_map.1 hx
      obtain ⟨_, hborn, _, hf, _⟩ := hspec nc hnc
      rw [hf i]
      simp only [List.mem_cons] at hip
      rcases hip with rfl | hip
      · have : t.pump.contains nc.cid = true := by
          rw [hi.pfresh]; simp only [List.contains_eq_mem, List.mem_map, decide_eq_true_eq]; exact ⟨nc, hnc, rfl⟩
        rw [if_pos ⟨this, rfl⟩]
        omega
      · have := hi.fan nc hnc i hip (hborn ▸ hb)
        omega
    only := by
      intro x hx i hne
      obtain ⟨nc, hnc, rfl⟩ := List.mem_map.1 hx
      obtain ⟨_, _, _, hf, _⟩ := hspec nc hnc
      rw [hf i] at hne
      simp only [List.mem_cons]
      by_cases he : m.id = i
      · exact Or.inl he.symm
      · right
        apply hi.only nc hnc i
        simp only [he, and_false, ↓reduceIte, Nat.add_zero] at hne
        exact hne
    born := by
      intro x hx
      obtain ⟨nc, hnc, rfl⟩ := List.mem_map.1 hx
      rw [(hspec nc hnc).2.1]
      exact hi.born nc hnc
    cenv := by
      intro x hx
      obtain ⟨nc, hnc, rfl⟩ := List.mem_map.1 hx
      exact (hspec nc hnc).2.2.2.2.1
    cput := by
      intro x hx i ev hp
      obtain ⟨nc, hnc, rfl⟩ := List.mem_map.1 hx
      rcases (hspec nc hnc).2.2.2.2.2 i ev hp with h | ⟨h1, h2⟩
      · exact hi.cput nc hnc i ev h
      · rw [h1, h2]; exact hi.qenv m hm
    qenv := fun x hx => hi.qenv x (List.mem_filter.1 hx).1
    elid := hi.elid, elnodup := hi.elnodup }

/-- the API-level operations: everything except the two halves of a split channel creation -/
def Op.api : Nsq.Model.ChanNsqd.Op → Bool
  | .createChanRaw .. => false
  | .refreshPump .. => false
  | _ => true

theorem ninv_topicField {s : State} (hi : NInv s) (t : Nat) (f : Topic → Topic)
    (hf : ∀ y n, TInv n y → (f y).tid = y.tid ∧ TInv n (f y)) :
    NInv { s with topics := updT s.topics t f } :=
  ninv_updT hi t f s.nextId (Nat.le_refl _) (fun y hy _ => hf y _ (hi.topics y hy)) s.subs s.everSub

theorem ninv_ite (b : Bool) {x y : State × Out} (hx : NInv x.1) (hy : NInv y.1) :
    NInv (if b = true then x else y).1 := by
  cases b <;> simpa

/-- **one-step preservation at the nsqd level** -/
theorem nstep_inv {s : State} (hi : NInv s) (op : Nsq.Model.ChanNsqd.Op) (hapi : Op.api op = true) :
    NInv (Nsq.Model.ChanNsqd.step s op).1 := by
  cases op with
  | createChanRaw t c e => cases hapi
  | refreshPump t => cases hapi
  | createTopic t => exact ninv_ensureTopic hi t
  | createChan t c e => exact ninv_doCreateChan hi t c e
  | sub k t c e mt sm =>
    simp only [Nsq.Model.ChanNsqd.step]
    split
    · exact hi
    · have h1 := ninv_doCreateChan hi t c e
      have h2 := ninv_chanStep h1 t c (.addClient k mt sm) (fun _ _ h => by cases h) (fun _ _ _ h => by cases h)
      split
      · exact ninv_subs h2 _ _
      · exact h1
  | disconnect k =>
    simp only [Nsq.Model.ChanNsqd.step]
    split
    · exact hi
    · rename_i sb _
      have h1 := ninv_chanStep hi sb.tid sb.cid (.removeClient k) (fun _ _ h => by cases h) (fun _ _ _ h => by cases h)
      exact ninv_reap h1 _ _ _
  | rdy k n =>
    simp only [Nsq.Model.ChanNsqd.step]
    split
    · exact ninv_connStep hi k _ (fun _ _ h => by cases h) (fun _ _ _ h => by cases h)
    · split
      · exact hi
      · exact ninv_ite _ hi (ninv_connStep hi k _ (fun _ _ h => by cases h) (fun _ _ _ h => by cases h))
  | cls k => exact ninv_connStep hi k _ (fun _ _ h => by cases h) (fun _ _ _ h => by cases h)
  | deliver k id now => exact ninv_connStep hi k _ (fun _ _ h => by cases h) (fun _ _ _ h => by cases h)
  | sampleDrop k id => exact ninv_connStep hi k _ (fun _ _ h => by cases h) (fun _ _ _ h => by cases h)
  | fin k id => exact ninv_connStep hi k _ (fun _ _ h => by cases h) (fun _ _ _ h => by cases h)
  | finChan k id => exact ninv_connStep hi k _ (fun _ _ h => by cases h) (fun _ _ _ h => by cases h)
  | finClient k => exact ninv_connStep hi k _ (fun _ _ h => by cases h) (fun _ _ _ h => by cases h)
  | guard k => exact ninv_connStep hi k _ (fun _ _ h => by cases h) (fun _ _ _ h => by cases h)
  | deliverArmed k id now => exact ninv_connStep hi k _ (fun _ _ h => by cases h) (fun _ _ _ h => by cases h)
  | req k id d now => exact ninv_connStep hi k _ (fun _ _ h => by cases h) (fun _ _ _ h => by cases h)
  | touch k id now => exact ninv_connStep hi k _ (fun _ _ h => by cases h) (fun _ _ _ h => by cases h)
  | scanInFlight t c tm => exact ninv_chanStep hi t c _ (fun _ _ h => by cases h) (fun _ _ _ h => by cases h)
  | scanDeferred t c tm => exact ninv_chanStep hi t c _ (fun _ _ h => by cases h) (fun _ _ _ h => by cases h)
  | pauseChan t c => exact ninv_chanStep hi t c _ (fun _ _ h => by cases h) (fun _ _ _ h => by cases h)
  | unpauseChan t c => exact ninv_chanStep hi t c _ (fun _ _ h => by cases h) (fun _ _ _ h => by cases h)
  | emptyChan t c => exact ninv_chanStep hi t c _ (fun _ _ h => by cases h) (fun _ _ _ h => by cases h)
  | resplit t c m d => exact ninv_chanStep hi t c _ (fun _ _ h => by cases h) (fun _ _ _ h => by cases h)
  | pauseTopic t =>
    simp only [Nsq.Model.ChanNsqd.step]
    split
    · exact hi
    · exact ninv_topicField hi t _ (fun y n h => ⟨rfl, { h with }⟩)
  | unpauseTopic t =>
    simp only [Nsq.Model.ChanNsqd.step]
    split
    · exact hi
    · exact ninv_topicField hi t _ (fun y n h => ⟨rfl, { h with }⟩)
  | pumpTopic t id kept pris =>
    simp only [Nsq.Model.ChanNsqd.step]
    split
    · exact hi
    · split
      · exact hi
      · split
        · exact hi
        · rename_i _ tp hft _ _ m hfm
          split
          · exact hi
          · have hm1 := List.mem_of_find?_eq_some hfm
            have hm2 : m.id = id := by simpa using List.find?_some hfm
            subst hm2
            obtain ⟨htp, htt⟩ := findT_some hft
            refine ninv_updT hi t _ s.nextId (Nat.le_refl _) ?_ s.subs s.everSub
            intro y hy hyt
            have : y = tp := eq_of_tid_eq hi.tnodup hy htp (hyt.trans htt.symm)
            subst this
            exact ⟨rfl, tinv_pump (hi.topics y hy) s.conf hm1 kept pris⟩
  | pub t sz env =>
    simp only [Nsq.Model.ChanNsqd.step]
    have h1 := ninv_ensureTopic hi t
    have hn := (ensureTopic_nextId s t).1
    refine ninv_updT h1 t _ _ (Nat.le_succ _) ?_ _ _
    intro y hy _
    obtain ⟨q, hq1, hq2, hq3⟩ := putT_spec y (ensureTopic s t).nextId sz 0 env
    refine ⟨by rw [hq1], ?_⟩
    rw [hq1]
    exact tinv_publish (h1.topics y hy) [(ensureTopic s t).nextId] (by simp) (by simp) (Nat.le_succ _) q (by simpa using hq2)
      _ (by simp) (fun p hp => List.mem_cons_of_mem _ hp)
      (fun x hx => by
        rcases hq3 x hx with h | ⟨h, h'⟩
        · exact Or.inl h
        · right; rw [h, h']; exact List.mem_cons_self)
      _ _ _ _ (Or.inl ⟨rfl, rfl⟩) (by simp)
  | dpub t sz d env =>
    simp only [Nsq.Model.ChanNsqd.step]
    have h1 := ninv_ensureTopic hi t
    refine ninv_updT h1 t _ _ (Nat.le_succ _) ?_ _ _
    intro y hy _
    obtain ⟨q, hq1, hq2, hq3⟩ := putT_spec y (ensureTopic s t).nextId sz d env
    refine ⟨by rw [hq1], ?_⟩
    rw [hq1]
    exact tinv_publish (h1.topics y hy) [(ensureTopic s t).nextId] (by simp) (by simp) (Nat.le_succ _) q (by simpa using hq2)
      _ (by simp) (fun p hp => List.mem_cons_of_mem _ hp)
      (fun x hx => by
        rcases hq3 x hx with h | ⟨h, h'⟩
        · exact Or.inl h
        · right; rw [h, h']; exact List.mem_cons_self)
      _ _ _ _ (Or.inl ⟨rfl, rfl⟩) (by simp)
  | mpub t sizes envs =>
    simp only [Nsq.Model.ChanNsqd.step]
    have h1 := ninv_ensureTopic hi t
    refine ninv_updT h1 t _ _ (Nat.le_add_right _ _) ?_ _ _
    intro y hy _
    obtain ⟨q, el, hq1, hq2, hel, hold, hqe⟩ := putMany_spec y (ensureTopic s t).nextId sizes envs
    refine ⟨by rw [hq1], ?_⟩
    rw [hq1]
    refine tinv_publish (h1.topics y hy) (idsFrom (ensureTopic s t).nextId sizes.length).reverse
      ((List.reverse_perm _).nodup_iff.2 (idsFrom_nodup _ _)) ?_ (Nat.le_add_right _ _) q hq2 el hel hold hqe _ _ _ _ (Or.inl ⟨rfl, rfl⟩)
      (by simp [length_idsFrom])
    intro i hi'
    exact mem_idsFrom.1 (List.mem_reverse.1 hi')
  | mpubFail t sizes j envs =>
    simp only [Nsq.Model.ChanNsqd.step]
    have h1 := ninv_ensureTopic hi t
    split
    · exact h1
    · rename_i hj
      refine ninv_updT h1 t _ _ (Nat.le_add_right _ _) ?_ _ _
      intro y hy _
      obtain ⟨q, el, hq1, hq2, hel, hold, hqe⟩ := putMany_spec y (ensureTopic s t).nextId (sizes.take j) envs
      have hlen : (sizes.take j).length = j := by simp; omega
      refine ⟨by rw [hq1], ?_⟩
      rw [hq1]
      refine tinv_publish (h1.topics y hy) (idsFrom (ensureTopic s t).nextId j).reverse
        ((List.reverse_perm _).nodup_iff.2 (idsFrom_nodup _ _)) ?_ (Nat.le_add_right _ _) q (by rw [hq2, hlen]) el (by rw [hel, hlen]) hold hqe
        _ _ _ _ (Or.inr ⟨rfl, rfl⟩) (by simp [length_idsFrom])
      intro i hi'
      have := mem_idsFrom.1 (List.mem_reverse.1 hi')
      omega

theorem ninv_init (conf : NConf) : NInv { conf := conf } := ⟨by simp, by simp⟩

theorem nrun_inv {s : State} (hi : NInv s) (ops : List Nsq.Model.ChanNsqd.Op) (hapi : ∀ op ∈ ops, Op.api op = true) :
    NInv (Nsq.Model.ChanNsqd.run s ops) := by
  induction ops generalizing s with
  | nil => exact hi
  | cons op ops ih =>
    exact ih (nstep_inv hi op (hapi op List.mem_cons_self)) (fun o ho => hapi o (List.mem_cons_of_mem _ ho))

theorem ensureTopic_has (s : State) (t : Nat) : ∃ y ∈ (ensureTopic s t).topics, y.tid = t := by
  unfold ensureTopic
  split
  · rename_i tp hf
    exact ⟨tp, (findT_some hf).1, (findT_some hf).2⟩
  · exact ⟨{ tid := t, memCap := s.conf.memq }, by simp, rfl⟩


theorem envlog_functional {l : List (Nat × Env)} (hn : (l.map (·.1)).Nodup) {id : Nat} {e1 e2 : Env}
    (h1 : (id, e1) ∈ l) (h2 : (id, e2) ∈ l) : e1 = e2 := by
  induction l with
  | nil => cases h1
  | cons p l ih =>
    simp only [List.map_cons, List.nodup_cons, List.mem_map, not_exists, not_and] at hn
    simp only [List.mem_cons] at h1 h2
    rcases h1 with h1 | h1 <;> rcases h2 with h2 | h2
    · rw [← h1] at h2; exact (Prod.mk.inj h2).2.symm
    · exact absurd (by rw [← h1]) (hn.1 (id, e2) h2)
    · exact absurd (by rw [← h2]) (hn.1 (id, e1) h1)
    · exact ih hn.2 h1 h2

end Nsq.Proofs.ChanNsqd
