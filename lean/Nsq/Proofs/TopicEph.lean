/-
E2 / C01 — helper lemmas for `Nsq.Model.TopicEph` (`#ephemeral` topics, audit A5).
-/
import Nsq.Model.TopicEph
namespace Nsq.Proofs.TopicEph
open Nsq.Model.Chan (Env Out)
open Nsq.Model.ChanNsqd Nsq.Model.TopicEph

/-- the memory queue has no room for one more message (`taken`: with `mem-queue-size 0`, is the pump receiving?) -/
def NoRoom (t : Topic) (taken : Bool) : Prop :=
  (0 < t.memCap ∧ t.memCap ≤ memLenT t) ∨ (t.memCap = 0 ∧ taken = false)

theorem roomTE_false {t : Topic} {taken : Bool} : roomTE t taken = false ↔ NoRoom t taken := by
  unfold roomTE NoRoom
  by_cases h : 0 < t.memCap
  · simp [h]; omega
  · have h0 : t.memCap = 0 := by omega
    simp [h0]

theorem findT_tid {l : List Topic} {t : Nat} {tp : Topic} (h : findT l t = some tp) : tp.tid = t := by
  unfold findT at h
  have := List.find?_some h
  simpa using this

theorem findT_updT_const {l : List Topic} {t : Nat} {tp c : Topic} (h : findT l t = some tp) (hc : c.tid = t) :
    findT (updT l t (fun _ => c)) t = some c := by
  induction l with
  | nil => simp [findT] at h
  | cons x xs ih =>
    unfold findT updT at *
    simp only [List.map_cons, List.find?_cons] at *
    by_cases hx : x.tid = t
    · simp [hx, hc]
    · have hb : (x.tid == t) = false := by simp [hx]
      simp only [hb] at h ⊢
      simp only [Bool.false_eq_true, ↓reduceIte, hb]
      exact ih h

/-! ### `putTE` -/

theorem putTE_kept {t : Topic} {id size d : Nat} {env : Env} {taken : Bool} (h : roomTE t taken = true) :
    putTE t id size d env taken =
      ({ t with queue := ⟨id, size, d, .mem, env⟩ :: t.queue, envlog := (id, env) :: t.envlog }, false) := by
  simp [putTE, h]

theorem putTE_dropped {t : Topic} {id size d : Nat} {env : Env} {taken : Bool} (h : roomTE t taken = false) :
    putTE t id size d env taken = (t, true) := by
  simp [putTE, h]

theorem putTE_tid (t : Topic) (id size d : Nat) (env : Env) (taken : Bool) :
    (putTE t id size d env taken).1.tid = t.tid ∧ (putTE t id size d env taken).1.memCap = t.memCap := by
  unfold putTE; split <;> simp

/-- kept XOR dropped, and what each does to the queue -/
theorem putTE_cases (t : Topic) (id size d : Nat) (env : Env) (taken : Bool) :
    (roomTE t taken = true ∧ (putTE t id size d env taken).2 = false ∧
      (putTE t id size d env taken).1.queue = ⟨id, size, d, .mem, env⟩ :: t.queue) ∨
    (roomTE t taken = false ∧ (putTE t id size d env taken).2 = true ∧ (putTE t id size d env taken).1 = t) := by
  cases h : roomTE t taken
  · right; simp [putTE, h]
  · left; simp [putTE, h]

theorem memLenT_cons_mem (t : Topic) (m : TMsg) (hm : m.place = .mem) (el : List (Nat × Env)) :
    memLenT { t with queue := m :: t.queue, envlog := el } = memLenT t + 1 := by
  simp [memLenT, hm]

/-! ### `putManyTE` -/

theorem putManyTE_tid (t : Topic) (id : Nat) (szs : List Nat) (envs : List Env) (tks : List Bool) :
    (putManyTE t id szs envs tks).1.tid = t.tid ∧ (putManyTE t id szs envs tks).1.memCap = t.memCap := by
  induction szs generalizing t id envs tks with
  | nil => simp [putManyTE]
  | cons sz rest ih =>
    simp only [putManyTE]
    have h1 := putTE_tid t id sz 0 (envs.headD {}) (tks.headD false)
    have h2 := ih (putTE t id sz 0 (envs.headD {}) (tks.headD false)).1 (id + 1) envs.tail tks.tail
    exact ⟨h2.1.trans h1.1, h2.2.trans h1.2⟩

/-- kept + dropped = published -/
theorem putManyTE_count (t : Topic) (id : Nat) (szs : List Nat) (envs : List Env) (tks : List Bool) :
    (putManyTE t id szs envs tks).1.queue.length + (putManyTE t id szs envs tks).2.length =
      t.queue.length + szs.length := by
  induction szs generalizing t id envs tks with
  | nil => simp [putManyTE]
  | cons sz rest ih =>
    simp only [putManyTE, List.length_append, List.length_cons]
    have h2 := ih (putTE t id sz 0 (envs.headD {}) (tks.headD false)).1 (id + 1) envs.tail tks.tail
    rcases putTE_cases t id sz 0 (envs.headD {}) (tks.headD false) with ⟨_, hd, hq⟩ | ⟨_, hd, hq⟩
    · rw [hd]; rw [hq] at h2; simp at h2 ⊢; omega
    · rw [hd]; rw [hq] at h2 ⊢; simp; omega

/-- every drop of a multi-publish is message `j` of it, and the queue had no room when message `j` was put -/
theorem putManyTE_dropped (t : Topic) (id : Nat) (szs : List Nat) (envs : List Env) (tks : List Bool)
    (p : Nat × Nat) (hp : p ∈ (putManyTE t id szs envs tks).2) :
    ∃ j, j < szs.length ∧ p = (t.tid, id + j) ∧
      NoRoom (putManyTE t id (szs.take j) envs tks).1 ((tks.drop j).headD false) := by
  induction szs generalizing t id envs tks with
  | nil => simp [putManyTE] at hp
  | cons sz rest ih =>
    simp only [putManyTE, List.mem_append] at hp
    rcases hp with hp | hp
    · obtain ⟨j, hj, hpj, hn⟩ := ih _ _ _ _ hp
      refine ⟨j + 1, by simp [hj], ?_, ?_⟩
      · rw [hpj, (putTE_tid t id sz 0 (envs.headD {}) (tks.headD false)).1]
        simp; omega
      · simp only [List.take_succ_cons, putManyTE]
        have : (tks.drop (j + 1)) = tks.tail.drop j := by
          cases tks <;> simp
        rw [this]; exact hn
    · refine ⟨0, by simp, ?_, ?_⟩
      · split at hp
        · simpa using hp
        · simp at hp
      · simp only [List.take_zero, putManyTE, List.drop_zero]
        apply roomTE_false.1
        rcases putTE_cases t id sz 0 (envs.headD {}) (tks.headD false) with ⟨_, hd, _⟩ | ⟨hr, _, _⟩
        · rw [hd] at hp; simp at hp
        · exact hr

/-! ### `stepE` -/

theorem pubE_accepted {es : ES} {t size delay : Nat} {env : Env} {taken : Bool} {l : List Nat}
    (h : (stepE es (.pubE t size delay env taken)).2 = .ids l) :
    t ∈ es.eph ∧ ∃ tp, findT es.s.topics t = some tp := by
  by_cases he : t ∈ es.eph
  · cases hf : findT es.s.topics t with
    | none => simp [stepE, he, hf] at h
    | some tp => exact ⟨he, tp, rfl⟩
  · simp [stepE, he] at h

theorem mpubE_accepted {es : ES} {t : Nat} {sizes : List Nat} {envs : List Env} {tks : List Bool} {l : List Nat}
    (h : (stepE es (.mpubE t sizes envs tks)).2 = .ids l) :
    t ∈ es.eph ∧ ∃ tp, findT es.s.topics t = some tp := by
  by_cases he : t ∈ es.eph
  · cases hf : findT es.s.topics t with
    | none => simp [stepE, he, hf] at h
    | some tp => exact ⟨he, tp, rfl⟩
  · simp [stepE, he] at h

/-- the accepted `pubE` step, spelled out -/
theorem pubE_eq {es : ES} {t : Nat} {tp : Topic} (he : t ∈ es.eph) (hf : findT es.s.topics t = some tp)
    (size delay : Nat) (env : Env) (taken : Bool) :
    stepE es (.pubE t size delay env taken) =
      ({ es with s := { es.s with topics := updT es.s.topics t (fun _ =>
                          { (putTE tp es.s.nextId size delay env taken).1 with
                              msgCount := tp.msgCount + 1, msgBytes := tp.msgBytes + size, acked := es.s.nextId :: tp.acked }),
                                  nextId := es.s.nextId + 1 },
                 dropped := if (putTE tp es.s.nextId size delay env taken).2 then (t, es.s.nextId) :: es.dropped
                            else es.dropped }, .ids [es.s.nextId]) := by
  simp [stepE, he, hf]

theorem mpubE_eq {es : ES} {t : Nat} {tp : Topic} (he : t ∈ es.eph) (hf : findT es.s.topics t = some tp)
    (sizes : List Nat) (envs : List Env) (tks : List Bool) :
    stepE es (.mpubE t sizes envs tks) =
      ({ es with s := { es.s with topics := updT es.s.topics t (fun _ =>
                          { (putManyTE tp es.s.nextId sizes envs tks).1 with
                              msgCount := tp.msgCount + sizes.length, msgBytes := tp.msgBytes + sizes.sum,
                              acked := (idsFrom es.s.nextId sizes.length).reverse ++ tp.acked }),
                                  nextId := es.s.nextId + sizes.length },
                 dropped := (putManyTE tp es.s.nextId sizes envs tks).2 ++ es.dropped },
       .ids (idsFrom es.s.nextId sizes.length)) := by
  simp [stepE, he, hf]

/-- `.base op` and `createEphTopic` never touch the ghost list of drops -/
theorem base_dropped (es : ES) (op : Nsq.Model.ChanNsqd.Op) : (stepE es (.base op)).1.dropped = es.dropped := by
  simp only [stepE]; split <;> rfl

theorem create_dropped (es : ES) (t : Nat) : (stepE es (.createEphTopic t)).1.dropped = es.dropped := by
  simp only [stepE]
  split
  · split <;> rfl
  · rfl

/-- ONE accepted `pubE`: acknowledged and counted; the queue grows by the message (room) XOR the ghost list of
drops grows by `(t, id)` (no room) -/
theorem pubE_step {es : ES} {t : Nat} {tp : Topic} (he : t ∈ es.eph) (hf : findT es.s.topics t = some tp)
    (size delay : Nat) (env : Env) (taken : Bool) :
    (stepE es (.pubE t size delay env taken)).2 = .ids [es.s.nextId] ∧
    t ∈ (stepE es (.pubE t size delay env taken)).1.eph ∧
    (stepE es (.pubE t size delay env taken)).1.s.nextId = es.s.nextId + 1 ∧
    ∃ tp1, findT (stepE es (.pubE t size delay env taken)).1.s.topics t = some tp1 ∧
      tp1.msgCount = tp.msgCount + 1 ∧ tp1.msgBytes = tp.msgBytes + size ∧ tp1.memCap = tp.memCap ∧
      tp1.acked = es.s.nextId :: tp.acked ∧
      ((roomTE tp taken = true ∧ tp1.queue = ⟨es.s.nextId, size, delay, .mem, env⟩ :: tp.queue ∧
          (stepE es (.pubE t size delay env taken)).1.dropped = es.dropped) ∨
       (roomTE tp taken = false ∧ tp1.queue = tp.queue ∧
          (stepE es (.pubE t size delay env taken)).1.dropped = (t, es.s.nextId) :: es.dropped)) := by
  have htid := findT_tid hf
  have hc := putTE_tid tp es.s.nextId size delay env taken
  rw [pubE_eq he hf]
  refine ⟨rfl, he, rfl, _, findT_updT_const hf (by simpa [htid] using hc.1), rfl, rfl, hc.2, rfl, ?_⟩
  cases hr : roomTE tp taken
  · right; simp [putTE_dropped hr]
  · left; simp [putTE_kept hr]

/-- ONE accepted `mpubE` -/
theorem mpubE_step {es : ES} {t : Nat} {tp : Topic} (he : t ∈ es.eph) (hf : findT es.s.topics t = some tp)
    (sizes : List Nat) (envs : List Env) (tks : List Bool) :
    (stepE es (.mpubE t sizes envs tks)).2 = .ids (idsFrom es.s.nextId sizes.length) ∧
    (stepE es (.mpubE t sizes envs tks)).1.dropped = (putManyTE tp es.s.nextId sizes envs tks).2 ++ es.dropped ∧
    ∃ tp1, findT (stepE es (.mpubE t sizes envs tks)).1.s.topics t = some tp1 ∧
      tp1.msgCount = tp.msgCount + sizes.length ∧ tp1.msgBytes = tp.msgBytes + sizes.sum ∧
      tp1.acked = (idsFrom es.s.nextId sizes.length).reverse ++ tp.acked ∧
      tp1.queue = (putManyTE tp es.s.nextId sizes envs tks).1.queue := by
  have htid := findT_tid hf
  have hc := putManyTE_tid tp es.s.nextId sizes envs tks
  rw [mpubE_eq he hf]
  exact ⟨rfl, rfl, _, findT_updT_const hf (by simpa [htid] using hc.1), rfl, rfl, rfl, rfl⟩

/-! ### a run of publishes to one ephemeral topic -/

theorem run_pubE (es : ES) (t : Nat) (tp : Topic) (he : t ∈ es.eph) (hf : findT es.s.topics t = some tp)
    (ps : List PubArg) :
    ∃ tp', findT (runE es (pubOps t ps)).s.topics t = some tp' ∧
      tp'.msgCount = tp.msgCount + ps.length ∧
      tp'.msgBytes = tp.msgBytes + (ps.map (·.1)).sum ∧
      tp'.queue.length + nDropped (runE es (pubOps t ps)) t = tp.queue.length + nDropped es t + ps.length ∧
      tp'.memCap = tp.memCap := by
  induction ps generalizing es tp with
  | nil => exact ⟨tp, hf, by simp, by simp, by simp [pubOps, runE], rfl⟩
  | cons p rest ih =>
    obtain ⟨_, he1, _, tp1, hf1, hmc, hmb, hcap, _, hq⟩ := pubE_step he hf p.1 p.2.1 p.2.2.1 p.2.2.2
    obtain ⟨tp', h1, h2, h3, h4, h5⟩ := ih _ tp1 he1 hf1
    refine ⟨tp', h1, ?_, ?_, ?_, ?_⟩
    · rw [h2, hmc]; simp; omega
    · rw [h3, hmb]; simp; omega
    · simp only [pubOps, List.map_cons, runE] at h4 ⊢
      rw [h4]
      rcases hq with ⟨_, hq, hd⟩ | ⟨_, hq, hd⟩
      · simp [hd, hq, nDropped]; omega
      · simp [hd, hq, nDropped]; omega
    · rw [h5, hcap]

/-- with `mem-queue-size > 0` and nothing pumped: the queue fills up to the capacity and stays there -/
theorem run_pubE_fill (es : ES) (t : Nat) (tp : Topic) (he : t ∈ es.eph) (hf : findT es.s.topics t = some tp)
    (hcap : 0 < tp.memCap) (hm : memLenT tp = tp.queue.length) (hle : tp.queue.length ≤ tp.memCap) (ps : List PubArg) :
    ∃ tp', findT (runE es (pubOps t ps)).s.topics t = some tp' ∧
      tp'.queue.length = min (tp.queue.length + ps.length) tp.memCap := by
  induction ps generalizing es tp with
  | nil => exact ⟨tp, hf, by simp [Nat.min_eq_left hle]⟩
  | cons p rest ih =>
    obtain ⟨_, he1, _, tp1, hf1, _, _, hc1, _, hq⟩ := pubE_step he hf p.1 p.2.1 p.2.2.1 p.2.2.2
    rcases hq with ⟨hr, hq, _⟩ | ⟨hr, hq, _⟩
    · have hlt : tp.queue.length < tp.memCap := by
        simp only [roomTE, hcap, ↓reduceIte, decide_eq_true_eq] at hr; omega
      obtain ⟨tp', h1, h2⟩ := ih _ tp1 he1 hf1 (by omega)
        (by have : memLenT tp1 = memLenT tp + 1 := by simp [memLenT, hq]
            rw [this, hm, hq]; simp)
        (by rw [hq, hc1]; simp; omega)
      refine ⟨tp', h1, ?_⟩
      rw [h2, hq, hc1]; simp; omega
    · have hfull : tp.queue.length = tp.memCap := by
        simp only [roomTE, hcap, ↓reduceIte, decide_eq_false_iff_not] at hr; omega
      obtain ⟨tp', h1, h2⟩ := ih _ tp1 he1 hf1 (by omega)
        (by simp only [memLenT, hq] at hm ⊢; exact hm) (by rw [hq, hc1]; omega)
      refine ⟨tp', h1, ?_⟩
      rw [h2, hq, hc1]; simp; omega

theorem freshE_spec (memq t : Nat) :
    t ∈ (freshE memq t).eph ∧ findT (freshE memq t).s.topics t = some { tid := t, memCap := memq } ∧
    (freshE memq t).dropped = [] := by
  simp [freshE, stepE, findT, ensureTopic]

end Nsq.Proofs.TopicEph
