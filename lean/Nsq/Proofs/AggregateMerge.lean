import Nsq.Model.Aggregate
import Nsq.Proofs.AggregateSums
import Nsq.Proofs.AggregateDecode
/-!
The channel map GetNSQDStats builds is exactly the per-node channel reports it returns, grouped by
key (channel name, or "topic:channel" when no topic is selected): one entry per key, made by
folding `ChannelStats.Add` over the reports with that key in order.
-/
namespace Nsq.Proofs.AggregateMerge
open Nsq.Model.Aggregate Nsq.Proofs.AggregateSums

def lookup (m : ChanMap) (k : String) : Option ChanAgg :=
  match m.find? (·.1 == k) with
  | some kc => some kc.2
  | none => none

/-- `ChannelStats.Add` without the fault. -/
def addPure (c : ChanAgg) (a : ChanNode) : ChanAgg :=
  { c with node := "*", cnt := c.cnt.add a.cnt, paused := c.paused || a.paused,
           nodes := c.nodes ++ [a], clients := c.clients ++ a.clients }

def fresh (a : ChanNode) : ChanAgg := { node := a.node, topic := a.topic, name := a.name }

def chanKey (sel : String) (cn : ChanNode) : String :=
  if sel == "" then cn.topic ++ ":" ++ cn.name else cn.name

/-- The aggregate of the reports with key `k`. -/
def groupOf (sel k : String) (cs : List ChanNode) : Option ChanAgg :=
  match cs.filter (fun c => chanKey sel c == k) with
  | [] => none
  | a :: rest => some ((a :: rest).foldl addPure (fresh a))

def Grouped (sel : String) (m : ChanMap) (cs : List ChanNode) : Prop :=
  ∀ k, lookup m k = groupOf sel k cs

theorem add_eq_addPure (fx : Fixes) (c r : ChanAgg) (a : ChanNode) (h : c.add fx a = .ok r) :
    r = addPure c a := by
  unfold ChanAgg.add at h
  split at h
  · cases h
  · simp only [Except.ok.injEq] at h
    exact h.symm

theorem lookup_none_iff (m : ChanMap) (k : String) : lookup m k = none ↔ m.any (·.1 == k) = false := by
  induction m with
  | nil => simp [lookup]
  | cons kc rest ih =>
    unfold lookup at *
    simp only [List.find?_cons, List.any_cons]
    cases hk : (kc.1 == k) <;> simp_all

theorem lookup_append_new (m : ChanMap) (key : String) (c : ChanAgg)
    (hnew : m.any (·.1 == key) = false) (k : String) :
    lookup (m ++ [(key, c)]) k = if key = k then some c else lookup m k := by
  induction m with
  | nil =>
    by_cases hk : key = k <;> simp [lookup, hk]
  | cons kc rest ih =>
    simp only [List.any_cons, Bool.or_eq_false_iff] at hnew
    have ih' := ih hnew.2
    unfold lookup at *
    simp only [List.cons_append, List.find?_cons]
    cases hkc : (kc.1 == k)
    · simpa using ih'
    · have h1 : kc.1 = k := by simpa using hkc
      have h2 : ¬ kc.1 = key := by simpa using hnew.1
      have : ¬ key = k := fun h => h2 (h1.trans h.symm)
      simp [this]

theorem go_spec (fx : Fixes) (key : String) (a : ChanNode) (m m' : ChanMap)
    (h : ChanMap.addNode.go fx key a m = .ok m') (hany : m.any (·.1 == key) = true) (k : String) :
    lookup m' k = if key = k then (lookup m key).map (fun c => addPure c a) else lookup m k := by
  induction m generalizing m' with
  | nil => simp at hany
  | cons kc rest ih =>
    obtain ⟨k0, c0⟩ := kc
    unfold ChanMap.addNode.go at h
    by_cases hk0 : (k0 == key) = true
    · simp only [hk0, if_true] at h
      cases hadd : c0.add fx a with
      | error e => simp [hadd] at h
      | ok c' =>
        simp only [hadd, Except.ok.injEq] at h
        subst h
        have hc' := add_eq_addPure fx c0 c' a hadd
        have hk0' : k0 = key := by simpa using hk0
        subst hk0'
        by_cases hk : k0 = k
        · subst hk
          simp [lookup, hc']
        · have : (k0 == k) = false := by simpa using hk
          simp [lookup, List.find?_cons, this, hk]
    · have hk0f : (k0 == key) = false := by simpa using hk0
      simp only [hk0f, Bool.false_eq_true, if_false] at h
      cases hgo : ChanMap.addNode.go fx key a rest with
      | error e => simp [hgo] at h
      | ok r =>
        simp only [hgo, Except.ok.injEq] at h
        subst h
        have hany' : rest.any (·.1 == key) = true := by
          simpa [List.any_cons, hk0f] using hany
        have ih' := ih r hgo hany'
        have hne : ¬ k0 = key := by simpa using hk0f
        by_cases hk : key = k
        · subst hk
          have : (k0 == key) = false := hk0f
          simp only [lookup, List.find?_cons, this] at ih' ⊢
          simpa using ih'
        · simp only [hk, if_false] at ih' ⊢
          cases hkk : (k0 == k)
          · simpa [lookup, List.find?_cons, hkk] using ih'
          · simp [lookup, List.find?_cons, hkk]

theorem foldl_addPure_append (c : ChanAgg) (l : List ChanNode) (a : ChanNode) :
    (l ++ [a]).foldl addPure c = addPure (l.foldl addPure c) a := by
  simp [List.foldl_append]

/-- One report added to the map keeps it grouped. -/
theorem addNode_grouped (fx : Fixes) (sel : String) (m m' : ChanMap) (cs : List ChanNode) (a : ChanNode)
    (hg : Grouped sel m cs) (h : ChanMap.addNode fx m (chanKey sel a) a = .ok m') :
    Grouped sel m' (cs ++ [a]) := by
  intro k
  unfold ChanMap.addNode at h
  by_cases hany : m.any (·.1 == chanKey sel a) = true
  · simp only [hany, if_true] at h
    rw [go_spec fx _ a m m' h hany k]
    by_cases hk : chanKey sel a = k
    · subst hk
      simp only [if_true]
      have hl := hg (chanKey sel a)
      unfold groupOf at hl ⊢
      simp only [List.filter_append, List.filter_cons, List.filter_nil, beq_self_eq_true, if_true]
      cases hf : cs.filter (fun c => chanKey sel c == chanKey sel a) with
      | nil =>
        simp only [hf] at hl
        have := (lookup_none_iff m _).1 hl
        simp [this] at hany
      | cons b rest =>
        simp only [hf] at hl
        simp only [hl, Option.map_some, List.cons_append]
        congr 1
        exact (foldl_addPure_append (fresh b) (b :: rest) a).symm
    · simp only [hk, if_false]
      rw [hg k]
      unfold groupOf
      have : (chanKey sel a == k) = false := by simpa using hk
      simp [List.filter_append, List.filter_cons, this]
  · have hanyf : m.any (·.1 == chanKey sel a) = false := by
      rw [← Bool.not_eq_true]; exact hany
    simp only [hanyf] at h
    cases hadd : (fresh a).add fx a with
    | error e =>
      simp only [fresh] at hadd
      simp [hadd] at h
    | ok c =>
      simp only [fresh] at hadd
      simp only [Bool.false_eq_true, if_false, hadd, Except.ok.injEq] at h
      subst h
      have hc := add_eq_addPure fx _ c a hadd
      rw [lookup_append_new m _ c hanyf k]
      by_cases hk : chanKey sel a = k
      · subst hk
        simp only [if_true]
        have hl := hg (chanKey sel a)
        have hnone : lookup m (chanKey sel a) = none := (lookup_none_iff m _).2 hanyf
        unfold groupOf at hl ⊢
        simp only [List.filter_append, List.filter_cons, List.filter_nil, beq_self_eq_true, if_true]
        cases hf : cs.filter (fun c => chanKey sel c == chanKey sel a) with
        | nil => simp [hc, fresh]
        | cons b rest => simp [hf, hnone] at hl
      · simp only [hk, if_false]
        rw [hg k]
        unfold groupOf
        have : (chanKey sel a == k) = false := by simpa using hk
        simp [List.filter_append, List.filter_cons, this]

theorem chanNodeOf_key (fx : Fixes) (p : Producer) (sel topic : String) (c : Chan) (cn : ChanNode)
    (h : chanNodeOf fx p topic c = .ok cn) :
    chanKey sel cn = (if sel == "" then topic ++ ":" ++ c.name else c.name) := by
  unfold chanNodeOf at h
  cases hc : clientsOf fx p.addr c.clients with
  | error e => simp [hc] at h
  | ok cl =>
    simp only [hc, Except.ok.injEq] at h
    subst h
    rfl

theorem chansOfTopic_grouped (fx : Fixes) (p : Producer) (sel topic : String) (chans : List (Option Chan)) :
    ∀ (m m' : ChanMap) (cs cns : List ChanNode), Grouped sel m cs →
      chansOfTopic fx p sel topic chans m = .ok (cns, m') → Grouped sel m' (cs ++ cns) := by
  induction chans with
  | nil =>
    intro m m' cs cns hg h
    simp only [chansOfTopic, Except.ok.injEq, Prod.mk.injEq] at h
    obtain ⟨h1, h2⟩ := h
    subst h1 h2
    simpa using hg
  | cons c rest ih =>
    intro m m' cs cns hg h
    cases c with
    | none =>
      unfold chansOfTopic at h
      split at h
      · exact ih m m' cs cns hg h
      · cases h
    | some c =>
      unfold chansOfTopic at h
      cases hcn : chanNodeOf fx p topic c with
      | error e => simp [hcn] at h
      | ok cn =>
        rw [hcn] at h
        dsimp only at h
        have hkey := chanNodeOf_key fx p sel topic c cn hcn
        rw [← hkey] at h
        cases hadd : ChanMap.addNode fx m (chanKey sel cn) cn with
        | error e => simp [hadd] at h
        | ok m1 =>
          simp only [hadd] at h
          cases hrest : chansOfTopic fx p sel topic rest m1 with
          | error e => simp [hrest] at h
          | ok r =>
            obtain ⟨cns', m''⟩ := r
            simp only [hrest, Except.ok.injEq, Prod.mk.injEq] at h
            obtain ⟨h1, h2⟩ := h
            subst h1 h2
            have hg1 := addNode_grouped fx sel m m1 cs cn hg hadd
            have := ih m1 m'' (cs ++ [cn]) cns' hg1 hrest
            simpa [List.append_assoc] using this

def chansOfTopics (ts : List TopicNode) : List ChanNode := ts.flatMap (·.channels)

theorem topicsOfNode_grouped (fx : Fixes) (p : Producer) (sel : String) (topics : List (Option Topic)) :
    ∀ (m m' : ChanMap) (cs : List ChanNode) (tns : List TopicNode), Grouped sel m cs →
      topicsOfNode fx p sel topics m = .ok (tns, m') → Grouped sel m' (cs ++ chansOfTopics tns) := by
  induction topics with
  | nil =>
    intro m m' cs tns hg h
    simp only [topicsOfNode, Except.ok.injEq, Prod.mk.injEq] at h
    obtain ⟨h1, h2⟩ := h
    subst h1 h2
    simpa [chansOfTopics] using hg
  | cons t rest ih =>
    intro m m' cs tns hg h
    cases t with
    | none =>
      unfold topicsOfNode at h
      split at h
      · exact ih m m' cs tns hg h
      · cases h
    | some t =>
      unfold topicsOfNode at h
      split at h
      · exact ih m m' cs tns hg h
      · cases hc : chansOfTopic fx p sel t.name t.channels m with
        | error e => simp [hc] at h
        | ok r =>
          obtain ⟨cns, m1⟩ := r
          simp only [hc] at h
          cases hr : topicsOfNode fx p sel rest m1 with
          | error e => simp [hr] at h
          | ok r2 =>
            obtain ⟨tns', m''⟩ := r2
            simp only [hr, Except.ok.injEq, Prod.mk.injEq] at h
            obtain ⟨h1, h2⟩ := h
            subst h1 h2
            have hg1 := chansOfTopic_grouped fx p sel t.name t.channels m m1 cs cns hg hc
            have := ih m1 m'' (cs ++ cns) tns' hg1 hr
            simpa [chansOfTopics, List.append_assoc] using this

theorem nsqdStatsGo_grouped (fx : Fixes) (w : World) (sel selc : String) (incl : Bool) (ps : List Producer) :
    ∀ (ts ts' : List TopicNode) (m m' : ChanMap) (f f' : Nat), Grouped sel m (chansOfTopics ts) →
      nsqdStatsGo fx w sel selc incl ps ts m f = .ok (ts', m', f') → Grouped sel m' (chansOfTopics ts') := by
  induction ps with
  | nil =>
    intro ts ts' m m' f f' hg h
    simp only [nsqdStatsGo, Except.ok.injEq, Prod.mk.injEq] at h
    obtain ⟨h1, h2, _⟩ := h
    subst h1 h2
    exact hg
  | cons p rest ih =>
    intro ts ts' m m' f f' hg h
    unfold nsqdStatsGo at h
    split at h
    · exact ih ts ts' m m' (f + 1) f' hg h
    · rename_i ans _
      cases ht : nodeAnswer fx p sel ans m with
      | error e => simp [ht] at h
      | ok r =>
        obtain ⟨tns, m1⟩ := r
        simp only [ht] at h
        have ht := AggregateDecode.nodeAnswer_ok ht
        have hg1 := topicsOfNode_grouped fx p sel ans m m1 (chansOfTopics ts) tns hg ht
        have hg2 : Grouped sel m1 (chansOfTopics (ts ++ tns)) := by
          simpa [chansOfTopics, List.flatMap_append] using hg1
        exact ih (ts ++ tns) ts' m1 m' f f' hg2 h

/-- GetNSQDStats: the channel map is the returned per-node channel reports grouped by key. -/
theorem nsqdStats_grouped (fx : Fixes) (w : World) (ps : List Producer) (sel selc : String) (incl : Bool)
    (ts : List TopicNode) (m : ChanMap) (f : Nat)
    (h : nsqdStats fx w ps sel selc incl = .ok (.got (ts, m) f)) : Grouped sel m (chansOfTopics ts) := by
  unfold nsqdStats at h
  cases hgo : nsqdStatsGo fx w sel selc incl ps [] [] 0 with
  | error e => simp [hgo] at h
  | ok r =>
    obtain ⟨ts', m', f'⟩ := r
    simp only [hgo] at h
    split at h
    · cases h
    · simp only [Except.ok.injEq, Fetched.got.injEq, Prod.mk.injEq] at h
      obtain ⟨⟨h1, h2⟩, _⟩ := h
      subst h1 h2
      refine nsqdStatsGo_grouped fx w sel selc incl ps [] ts' [] m' 0 f' ?_ hgo
      intro k
      simp [lookup, groupOf, chansOfTopics]

/-- What a group is made of: counters summed, clients concatenated, node reports listed. -/
theorem fold_addPure_spec (l : List ChanNode) : ∀ (c : ChanAgg),
    (l.foldl addPure c).cnt = sumFrom c.cnt (l.map (·.cnt)) ∧
    (l.foldl addPure c).clients = c.clients ++ l.flatMap (·.clients) ∧
    (l.foldl addPure c).nodes = c.nodes ++ l ∧
    (l.foldl addPure c).paused = (c.paused || l.any (·.paused)) ∧
    (l.foldl addPure c).name = c.name ∧ (l.foldl addPure c).topic = c.topic := by
  induction l with
  | nil => intro c; simp [sumFrom]
  | cons a rest ih =>
    intro c
    obtain ⟨h1, h2, h3, h4, h5, h6⟩ := ih (addPure c a)
    simp only [List.foldl_cons]
    refine ⟨?_, ?_, ?_, ?_, ?_, ?_⟩
    · simpa [sumFrom, addPure] using h1
    · simpa [addPure, List.append_assoc] using h2
    · simpa [addPure, List.append_assoc] using h3
    · rw [h4]; simp [addPure, Bool.or_assoc]
    · simpa [addPure] using h5
    · simpa [addPure] using h6

end Nsq.Proofs.AggregateMerge
