import Nsq.Proofs.HttpApiEquiv
/-! Text `/mpub` (newline-separated blocks) against TCP `MPUB` of the same list of bodies. -/
namespace Nsq.Proofs.HttpApiText
open Nsq.Model.HttpApi Nsq.Model.ProtoV2 Nsq.Model.Names Nsq.Model.Base10 Nsq.Model
open Nsq.Proofs.ProtoV2 Nsq.Proofs.HttpApi Nsq.Proofs.HttpApiEquiv Nsq.Proofs.Mpub

/-- Blocks joined by single `\n` (no trailing newline). -/
def joinNl : List Bytes → Bytes
  | [] => []
  | [b] => b
  | b :: c :: rest => b ++ 10 :: joinNl (c :: rest)

/-- A list of message bodies that both interfaces can carry: at least one; each non-empty, without
`\n` and within max-msg-size; count within (max-body-size − 4)/5; representable on the wire. -/
structure GoodBlocks (conf : Conf) (blocks : List Bytes) : Prop where
  nonempty : blocks ≠ []
  each : ∀ blk ∈ blocks, blk ≠ [] ∧ (10 : UInt8) ∉ blk ∧ (blk.length : Int) ≤ conf.maxMsgSize
  count : (blocks.length : Int) ≤ Mpub.maxMessages conf.maxBodySize
  wire : (Mpub.encode blocks).length < 2147483648

theorem splitNl_no_nl : ∀ (b : Bytes), (10 : UInt8) ∉ b → Mpub.splitNl b = [b]
  | [], _ => rfl
  | c :: cs, h => by
    have hc : c ≠ 10 := fun e => h (by rw [e]; exact List.mem_cons_self)
    have hcs : (10 : UInt8) ∉ cs := fun e => h (List.mem_cons_of_mem _ e)
    unfold Mpub.splitNl
    rw [if_neg hc, splitNl_no_nl cs hcs]

theorem splitNl_append_nl : ∀ (b rest : Bytes), (10 : UInt8) ∉ b →
    Mpub.splitNl (b ++ 10 :: rest) = b :: Mpub.splitNl rest
  | [], rest, _ => by simp [Mpub.splitNl]
  | c :: cs, rest, h => by
    have hc : c ≠ 10 := fun e => h (by rw [e]; exact List.mem_cons_self)
    have hcs : (10 : UInt8) ∉ cs := fun e => h (List.mem_cons_of_mem _ e)
    rw [List.cons_append, Mpub.splitNl, if_neg hc, splitNl_append_nl cs rest hcs]

theorem splitNl_joinNl : ∀ (blocks : List Bytes), blocks ≠ [] → (∀ blk ∈ blocks, (10 : UInt8) ∉ blk) →
    Mpub.splitNl (joinNl blocks) = blocks
  | [], h, _ => absurd rfl h
  | [b], _, h => splitNl_no_nl b (h b (List.mem_cons_self))
  | b :: c :: rest, _, h => by
    rw [joinNl, splitNl_append_nl b _ (h b (List.mem_cons_self)),
      splitNl_joinNl (c :: rest) (by simp) (fun x hx => h x (List.mem_cons_of_mem _ hx))]

theorem splitNl_joinNl_trailing : ∀ (blocks : List Bytes), blocks ≠ [] → (∀ blk ∈ blocks, (10 : UInt8) ∉ blk) →
    Mpub.splitNl (joinNl blocks ++ [10]) = blocks ++ [[]]
  | [], h, _ => absurd rfl h
  | [b], _, h => by
    rw [joinNl, splitNl_append_nl b [] (h b (List.mem_cons_self))]
    rfl
  | b :: c :: rest, _, h => by
    rw [joinNl, List.append_assoc, List.cons_append, splitNl_append_nl b _ (h b (List.mem_cons_self)),
      splitNl_joinNl_trailing (c :: rest) (by simp) (fun x hx => h x (List.mem_cons_of_mem _ hx))]
    rfl

theorem textLoop_good (maxMsg : Int) : ∀ (blocks : List Bytes) (tail : List Bytes),
    (∀ blk ∈ blocks, blk ≠ [] ∧ (blk.length : Int) ≤ maxMsg) → (tail = [] ∨ tail = [[]]) →
    textLoop maxMsg false (blocks ++ tail) = .ok blocks
  | [], tail, _, ht => by
    rcases ht with rfl | rfl
    · rfl
    · simp [textLoop]
  | b :: bs, tail, h, ht => by
    obtain ⟨hne, hle⟩ := h b (List.mem_cons_self)
    have hemp : b.isEmpty = false := by
      cases b with
      | nil => exact absurd rfl hne
      | cons x xs => rfl
    have hgt : ¬ ((b.length : Int) > maxMsg) := by omega
    rw [List.cons_append, textLoop]
    simp only [Bool.false_and, Bool.false_eq_true, if_false, hemp, hgt]
    rw [textLoop_good maxMsg bs tail (fun x hx => h x (List.mem_cons_of_mem _ hx)) ht]

theorem mpubText_good (conf : Conf) (hc : HConf) (hl : Linked conf hc) (body : Bytes) (blocks : List Bytes)
    (hg : GoodBlocks conf blocks) (hbody : body = joinNl blocks ∨ body = joinNl blocks ++ [10])
    (hsize : (body.length : Int) ≤ hc.maxBodySize) : mpubText hc body = .ok blocks := by
  have hnl : ∀ blk ∈ blocks, (10 : UInt8) ∉ blk := fun x hx => (hg.each x hx).2.1
  have hok : ∀ blk ∈ blocks, blk ≠ [] ∧ (blk.length : Int) ≤ hc.maxMsgSize := by
    intro x hx
    rw [hl.msg]
    exact ⟨(hg.each x hx).1, (hg.each x hx).2.2⟩
  have htake : body.take (hc.maxBodySize + 1).toNat = body := by
    apply List.take_of_length_le
    omega
  have hover : ¬ ((body.length : Int) = hc.maxBodySize + 1) := by omega
  unfold mpubText
  rw [htake]
  simp only [hover, decide_false]
  rcases hbody with rfl | rfl
  · rw [splitNl_joinNl blocks hg.nonempty hnl]
    have := textLoop_good hc.maxMsgSize blocks [] hok (Or.inl rfl)
    simpa using this
  · rw [splitNl_joinNl_trailing blocks hg.nonempty hnl]
    exact textLoop_good hc.maxMsgSize blocks [[]] hok (Or.inr rfl)

/-! ## `readMPUB` reads back what `encode` wrote -/

theorem encodeMsgs_length_ge (ms : List Bytes) : ∀ m ∈ ms, m.length ≤ (Mpub.encodeMsgs ms).length := by
  induction ms with
  | nil => intro m hm; cases hm
  | cons x xs ih =>
    intro m hm
    simp only [Mpub.encodeMsgs, List.length_append, be32_length]
    rcases List.mem_cons.mp hm with rfl | hm
    · omega
    · have := ih m hm; omega

theorem readMsgs_encode (maxMsg : Int) : ∀ (ms : List Bytes) (rest : Bytes) (acc : List Bytes),
    (∀ m ∈ ms, BodyOk maxMsg m) → (Mpub.encodeMsgs ms).length < 2147483648 →
    Mpub.readMsgs maxMsg ms.length (Mpub.encodeMsgs ms ++ rest) acc = .ok (acc.reverse ++ ms) rest
  | [], rest, acc, _, _ => by simp [Mpub.readMsgs, Mpub.encodeMsgs]
  | m :: ms, rest, acc, h, hlen => by
    obtain ⟨h1, h2⟩ := h m (List.mem_cons_self)
    have hml : m.length < 2147483648 := by
      have := encodeMsgs_length_ge (m :: ms) m (List.mem_cons_self); omega
    have hrest : (Mpub.encodeMsgs ms).length < 2147483648 := by
      simp only [Mpub.encodeMsgs, List.length_append, be32_length] at hlen; omega
    rw [List.length_cons, Mpub.readMsgs, Mpub.encodeMsgs, List.append_assoc, List.append_assoc,
      readLen_be32 _ _ hml]
    have c1 : ¬ ((m.length : Int) ≤ 0) := by omega
    have c2 : ¬ ((m.length : Int) > maxMsg) := by omega
    have c3 : ¬ ((m.length : Int) < 0) := by omega
    have c4 : ¬ ((m ++ (Mpub.encodeMsgs ms ++ rest)).length < (m.length : Int).toNat) := by
      simp
    simp only [c1, c2, c3, c4, if_false, Int.toNat_natCast]
    rw [List.take_left', List.drop_left']
    · rw [readMsgs_encode maxMsg ms rest (m :: acc) (fun x hx => h x (List.mem_cons_of_mem _ hx)) hrest]
      simp
    · rfl
    · rfl

theorem readMPUB_encode (maxMsg maxBody : Int) (ms : List Bytes)
    (hne : ms ≠ []) (h : ∀ m ∈ ms, BodyOk maxMsg m) (hcount : (ms.length : Int) ≤ Mpub.maxMessages maxBody)
    (hlen : (Mpub.encode ms).length < 2147483648) :
    Mpub.readMPUB maxMsg maxBody (Mpub.encode ms) = .ok ms [] := by
  have hl : (Mpub.encodeMsgs ms).length < 2147483648 := by
    simp only [Mpub.encode, List.length_append, be32_length] at hlen; omega
  have hcnt : ms.length < 2147483648 := by
    have : ∀ (l : List Bytes), l.length ≤ (Mpub.encodeMsgs l).length := by
      intro l
      induction l with
      | nil => simp
      | cons x xs ih => simp only [Mpub.encodeMsgs, List.length_append, be32_length, List.length_cons]; omega
    have := this ms; omega
  have hpos : 1 ≤ ms.length := by
    cases ms with
    | nil => exact absurd rfl hne
    | cons x xs => simp
  rw [Mpub.readMPUB, Mpub.encode, readLen_be32 _ _ hcnt]
  have c1 : ¬ ((ms.length : Int) ≤ 0 ∨ (ms.length : Int) > Mpub.maxMessages maxBody) := by omega
  have c2 : ¬ ((ms.length : Int) < 0) := by omega
  simp only [c1, c2, if_false, Int.toNat_natCast]
  have := readMsgs_encode maxMsg ms [] [] h hl
  simpa using this

/-- Text `/mpub` of the joined blocks ≡ `MPUB` of the list. -/
theorem text_equiv (conf : Conf) (hc : HConf) (hl : Linked conf hc) (s : ConnState) (b : Broker)
    (rq : Request) (kv : List (Bytes × Bytes)) (cmd t : Bytes) (tl : List Bytes) (blocks : List Bytes)
    (hq : parseQuery rq.rawQuery = some kv) (ht : qget kv kTopic = some t) (htext : binaryMode kv = false)
    (hv : isValidName t = true)
    (hblocks : GoodBlocks conf blocks)
    (hbody : rq.body = joinNl blocks ∨ rq.body = joinNl blocks ++ [10])
    (hsize : (rq.body.length : Int) ≤ hc.maxBodySize) (hcl : ¬ rq.contentLength > hc.maxBodySize)
    (hwire : ((Mpub.encode blocks).length : Int) ≤ conf.maxBodySize) :
    doMPUB hc b rq = (⟨.s200, "OK"⟩, publish b t (toMsgs blocks)) ∧
    (mpub conf s b (cmd :: t :: tl) (mwire (Mpub.encode blocks))).reply = some .ok ∧
    (mpub conf s b (cmd :: t :: tl) (mwire (Mpub.encode blocks))).broker = publish b t (toMsgs blocks) := by
  have hbodyok : ∀ m ∈ blocks, BodyOk conf.maxMsgSize m := by
    intro m hm
    obtain ⟨h1, _, h3⟩ := hblocks.each m hm
    refine ⟨?_, h3⟩
    cases m with
    | nil => exact absurd rfl h1
    | cons x xs => simp
  have hrm := readMPUB_encode conf.maxMsgSize conf.maxBodySize blocks hblocks.nonempty hbodyok hblocks.count
    hblocks.wire
  have hpos : ¬ (((Mpub.encode blocks).length : Int) ≤ 0) := by
    simp only [Mpub.encode, List.length_append, be32_length]; omega
  have hle : ¬ (((Mpub.encode blocks).length : Int) > conf.maxBodySize) := by omega
  have htcp := mpub_mwire conf s b cmd t tl (Mpub.encode blocks) hl.auth hv hblocks.wire
  rw [if_neg hpos, if_neg hle, hrm] at htcp
  refine ⟨?_, by rw [htcp]; rfl, by rw [htcp]; rfl⟩
  rw [doMPUB, if_neg hcl, topicFromQuery_of _ _ _ hq ht, if_pos hv]
  simp only [hq, Option.getD_some, htext, Bool.false_eq_true, if_false,
    mpubText_good conf hc hl rq.body blocks hblocks hbody hsize]
  rfl

end Nsq.Proofs.HttpApiText
