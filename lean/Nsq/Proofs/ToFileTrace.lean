import Nsq.Model.ToFileTrace
/-! Soundness of the syscall-trace checker used by the syscall leg of C19. -/
namespace Nsq.Proofs.ToFileTrace
open Nsq.Model.ToFileTrace

theorem checkFrom_sound (dirty : List Nat) (tr a b : List Sys) (id : Nat)
    (h : checkFrom dirty tr = true) (hs : tr = a ++ Sys.fin id :: b) :
    (∀ f ∈ dirty, Sys.fsync f ∈ a) ∧ (∀ a1 a2 f, a = a1 ++ Sys.write f :: a2 → Sys.fsync f ∈ a2) := by
  induction tr generalizing dirty a with
  | nil => cases a <;> simp at hs
  | cons x r ih =>
    cases a with
    | nil =>
      simp at hs
      obtain ⟨rfl, rfl⟩ := hs
      simp [checkFrom] at h
      refine ⟨fun f hf => ?_, fun a1 a2 f e => ?_⟩
      · rw [h.1] at hf; cases hf
      · cases a1 <;> simp at e
    | cons y a' =>
      simp at hs
      obtain ⟨rfl, hr⟩ := hs
      cases x with
      | write g =>
        simp [checkFrom] at h
        have := ih (g :: dirty) a' h hr
        refine ⟨fun f hf => List.mem_cons_of_mem _ (this.1 f (List.mem_cons_of_mem _ hf)), fun a1 a2 f e => ?_⟩
        cases a1 with
        | nil => simp at e; obtain ⟨rfl, rfl⟩ := e; exact this.1 g (List.mem_cons_self ..)
        | cons z a1' => simp at e; exact this.2 a1' a2 f e.2
      | fsync g =>
        simp [checkFrom] at h
        have := ih _ a' h hr
        refine ⟨fun f hf => ?_, fun a1 a2 f e => ?_⟩
        · by_cases e : f = g
          · subst e; exact List.mem_cons_self ..
          · exact List.mem_cons_of_mem _ (this.1 f (by simp [List.mem_filter, hf, e]))
        · cases a1 with
          | nil => simp at e
          | cons z a1' => simp at e; exact this.2 a1' a2 f e.2
      | fin k =>
        simp [checkFrom] at h
        have := ih dirty a' h.2 hr
        refine ⟨fun f hf => ?_, fun a1 a2 f e => ?_⟩
        · rw [h.1] at hf; cases hf
        · cases a1 with
          | nil => simp at e
          | cons z a1' => simp at e; exact this.2 a1' a2 f e.2

/-- **an accepted trace sends no FIN while a written file is un-synced:** between any write to an
output file and any later FIN there is an fsync of that file -/
theorem checkTrace_sound (tr pre mid post : List Sys) (f id : Nat) (h : checkTrace tr = true)
    (hs : tr = pre ++ Sys.write f :: mid ++ Sys.fin id :: post) : Sys.fsync f ∈ mid := by
  have := checkFrom_sound [] tr (pre ++ Sys.write f :: mid) post id h (by rw [hs])
  exact this.2 pre mid f rfl

example : checkTrace [.write 0, .write 0, .fsync 0, .fin 1] = true := by decide
example : checkTrace [.write 0, .fsync 0, .write 1, .fin 1] = false := by decide

end Nsq.Proofs.ToFileTrace
