import Nsq.Model.ToFileTrace
/-! Soundness of the syscall-trace checker used by the syscall leg of C19. -/
namespace Nsq.Proofs.ToFileTrace
open Nsq.Model.ToFileTrace

theorem checkFrom_sound (dirty : List Nat) (tr a b : List Sys) (id : Nat)
    (h : checkFrom dirty tr = true) (hs : tr = a ++ Sys.fin id :: b) :
    (∀ f ∈ dirty, Sys.fsync f ∈ a) ∧ (∀ a1 a2 f, a = a1 ++ Sys.write f :: a2 → Sys.fsync f ∈ a2) := by
  induction tr generalizing dirty a with
  | nil => cases a <;> simp at hs
  | cons x r ih =>
    cases a with
    | nil =>
      simp at hs
      obtain ⟨rfl, rfl⟩ := hs
      simp [checkFrom] at h
      refine ⟨fun f hf => ?_, fun a1 a2 f e => ?_⟩
      · rw [h.1] at hf; cases hf
      · cases a1 <;> simp at e
    | cons y a' =>
      simp at hs
      obtain ⟨rfl, hr⟩ := hs
      cases x with
      | write g =>
        simp [checkFrom] at h
        have := ih (g :: dirty) a' h hr
        refine ⟨fun f hf => List.mem_cons_of_mem _ (this.1 f (List.mem_cons_of_mem _ hf)), fun a1 a2 f e => ?_⟩
        cases a1 with
        | nil => simp at e; obtain ⟨rfl, rfl⟩ := e; exact this.1 g (List.mem_cons_self ..)
        | cons z a1' => simp at e; exact this.2 a1' a2 f e.2
      | fsync g =>
        simp [checkFrom] at h
        have := ih _ a' h hr
        refine ⟨fun f hf => ?_, fun a1 a2 f e => ?_⟩
        · by_cases e : f = g
          · subst e; exact List.mem_cons_self ..
          · exact List.mem_cons_of_mem _ (this.1 f (by simp [List.mem_filter, hf, e]))
        · cases a1 with
          | nil => simp at e
          | cons z a1' => simp at e; exact this.2 a1' a2 f e.2
      | fin k =>
        simp [checkFrom] at h
        have := ih dirty a' h.2 hr
        refine ⟨fun f hf => ?_, fun a1 a2 f e => ?_⟩
        · rw [h.1] at hf; cases hf
        · cases a1 with
          | nil => simp at e
          | cons z a1' => simp at e; exact this.2 a1' a2 f e.2

/-- **an accepted trace sends no FIN while a written file is un-synced:** between any write to an
output file and any later FIN there is an fsync of that file -/
theorem checkTrace_sound (tr pre mid post : List Sys) (f id : Nat) (h : checkTrace tr = true)
    (hs : tr = pre ++ Sys.write f :: mid ++ Sys.fin id :: post) : Sys.fsync f ∈ mid := by
  have := checkFrom_sound [] tr (pre ++ Sys.write f :: mid) post id h (by rw [hs])
  exact this.2 pre mid f rfl

example : checkTrace [.write 0, .write 0, .fsync 0, .fin 1] = true := by decide
example : checkTrace [.write 0, .fsync 0, .write 1, .fin 1] = false := by decide

/-- what the per-message checker certifies for message `id` and the trace prefix `a` before its FIN -/
def Covered (id : Nat) (a : List MSys) : Prop :=
  ∃ a1 a2 a3 f, a = a1 ++ MSys.wmsg f id :: a2 ++ MSys.fsync f :: a3

theorem Covered_cons {id : Nat} {a : List MSys} (x : MSys) (h : Covered id a) : Covered id (x :: a) := by
  obtain ⟨a1, a2, a3, f, e⟩ := h
  exact ⟨x :: a1, a2, a3, f, by rw [e]; simp⟩

theorem checkMsgFrom_sound (dirty : List (Nat × Nat)) (clean : List Nat) (tr a b : List MSys) (id : Nat)
    (h : checkMsgFrom dirty clean tr = true) (hs : tr = a ++ MSys.fin id :: b) :
    id ∈ clean ∨ (∃ f a2 a3, (f, id) ∈ dirty ∧ a = a2 ++ MSys.fsync f :: a3) ∨ Covered id a := by
  induction tr generalizing dirty clean a with
  | nil => cases a <;> simp at hs
  | cons x r ih =>
    cases a with
    | nil =>
      simp at hs
      obtain ⟨rfl, rfl⟩ := hs
      simp [checkMsgFrom] at h
      exact Or.inl h.1
    | cons y a' =>
      simp at hs
      obtain ⟨rfl, hr⟩ := hs
      cases x with
      | wmsg g k =>
        simp [checkMsgFrom] at h
        cases ih _ _ a' h hr with
        | inl hc => exact Or.inl hc
        | inr hrest =>
          cases hrest with
          | inl hd =>
            obtain ⟨f, a2, a3, hmem, e⟩ := hd
            cases hmem with
            | head => exact Or.inr (Or.inr ⟨[], a2, a3, g, by rw [e]; simp⟩)
            | tail _ hmem => exact Or.inr (Or.inl ⟨f, MSys.wmsg g k :: a2, a3, hmem, by rw [e]; simp⟩)
          | inr hc => exact Or.inr (Or.inr (Covered_cons _ hc))
      | fsync g =>
        simp [checkMsgFrom] at h
        cases ih _ _ a' h hr with
        | inl hc =>
          rw [List.mem_append] at hc
          cases hc with
          | inl hc =>
            rw [List.mem_map] at hc
            obtain ⟨p, hp, e⟩ := hc
            rw [List.mem_filter] at hp
            have hg : p.1 = g := by simpa using hp.2
            have : p = (g, id) := by cases p; simp_all
            rw [this] at hp
            exact Or.inr (Or.inl ⟨g, [], a', hp.1, by simp⟩)
          | inr hc => exact Or.inl hc
        | inr hrest =>
          cases hrest with
          | inl hd =>
            obtain ⟨f, a2, a3, hmem, e⟩ := hd
            rw [List.mem_filter] at hmem
            exact Or.inr (Or.inl ⟨f, MSys.fsync g :: a2, a3, hmem.1, by rw [e]; simp⟩)
          | inr hc => exact Or.inr (Or.inr (Covered_cons _ hc))
      | fin k =>
        simp [checkMsgFrom] at h
        cases ih _ _ a' h.2 hr with
        | inl hc => exact Or.inl hc
        | inr hrest =>
          cases hrest with
          | inl hd =>
            obtain ⟨f, a2, a3, hmem, e⟩ := hd
            exact Or.inr (Or.inl ⟨f, MSys.fin k :: a2, a3, hmem, by rw [e]; simp⟩)
          | inr hc => exact Or.inr (Or.inr (Covered_cons _ hc))

/-- **an accepted end-to-end trace:** before every `FIN id` the record of message `id` was written to
some file and that file was fsynced afterwards -/
theorem checkMsgTrace_sound (tr pre post : List MSys) (id : Nat) (h : checkMsgTrace tr = true)
    (hs : tr = pre ++ MSys.fin id :: post) : Covered id pre := by
  cases checkMsgFrom_sound [] [] tr pre post id h hs with
  | inl hc => cases hc
  | inr hrest =>
    cases hrest with
    | inl hd => obtain ⟨_, _, _, hmem, _⟩ := hd; cases hmem
    | inr hc => exact hc

example : checkMsgTrace [.wmsg 0 1, .wmsg 0 2, .fsync 0, .wmsg 0 3, .fin 2, .fin 1] = true := by decide
example : checkMsgTrace [.wmsg 0 1, .fin 1, .fsync 0] = false := by decide

end Nsq.Proofs.ToFileTrace
