/-
E2 / C03 — the in-flight BOUND at micro-step granularity (audit A8 remainder).

Ghost instrumentation of `Nsq.Model.Chan.step` (the channel component of `grun` IS `run`: `grun_fst`):
* `gr k`   — `rdy` of connection `k` at its last SUCCESSFUL guard evaluation (`guard k` answered `ok`, or the guard
             inside an atomic `deliver k` that sent); 0 at SUB;
* `base k` — `inFlight` of `k` at its last accepted `RDY` / `CLS` command (0 at SUB).
`BInv`: for every connected consumer `inFlight ≤ gr`, `armed → inFlight < gr`, `inFlight ≤ rdy ∨ inFlight ≤ base + 1`,
`armed → inFlight ≤ base ∨ inFlight < rdy`.  Preserved by EVERY op (`gstep_binv`), atomic `deliver` included.
-/
import Nsq.Proofs.ChanGuard
namespace Nsq.Proofs.ChanBound
open Nsq.Model.Chan Nsq.Proofs.Chan Nsq.Proofs.ChanGuard

def rdyOf (c : Chan) (k : Nat) : Int := match findC c.clients k with | some cl => cl.rdy | none => 0
def inFlightOf (c : Chan) (k : Nat) : Int := match findC c.clients k with | some cl => cl.inFlight | none => 0

structure Gh where
  gr   : Nat → Int := fun _ => 0
  base : Nat → Int := fun _ => 0

def upd (f : Nat → Int) (k : Nat) (v : Int) : Nat → Int := fun j => if j = k then v else f j

/-- the ghost update that accompanies one step (reads only the state before the step and the step's answer) -/
def gnext (conf : Conf) (c : Chan) (g : Gh) (op : Op) : Gh :=
  match op with
  | .guard k => if (step conf c op).2 = .ok then { g with gr := upd g.gr k (rdyOf c k) } else g
  | .deliver k _ _ =>
    match (step conf c op).2 with
    | .msg _ => { g with gr := upd g.gr k (rdyOf c k) }
    | _ => g
  | .rdy k _ => if (step conf c op).2 = .ok then { g with base := upd g.base k (inFlightOf c k) } else g
  | .cls k => if (step conf c op).2 = .ok then { g with base := upd g.base k (inFlightOf c k) } else g
  | .addClient k _ _ => if (step conf c op).2 = .ok then { gr := upd g.gr k 0, base := upd g.base k 0 } else g
  | _ => g

def gstep (conf : Conf) (s : Chan × Gh) (op : Op) : Chan × Gh := ((step conf s.1 op).1, gnext conf s.1 s.2 op)

def grun (conf : Conf) (s : Chan × Gh) : List Op → Chan × Gh
  | [] => s
  | op :: ops => grun conf (gstep conf s op) ops

theorem grun_fst (conf : Conf) (s : Chan × Gh) (ops : List Op) : (grun conf s ops).1 = run conf s.1 ops := by
  induction ops generalizing s with
  | nil => rfl
  | cons op ops ih => simp only [grun, run]; rw [ih]; rfl

/-! ### `findC` through the list updates -/

theorem findC_updC (l : List Client) (k j : Nat) (f : Client → Client) (hf : ∀ c, (f c).conn = c.conn) :
    findC (updC l k f) j = (findC l j).map (fun c => if c.conn == k then f c else c) := by
  induction l with
  | nil => rfl
  | cons x l ih =>
    simp only [findC, updC] at ih
    have hcx : (if (x.conn == k) = true then f x else x).conn = x.conn := by split <;> simp [hf]
    simp only [findC, updC, List.map_cons, List.find?_cons, hcx]
    cases hj : (x.conn == j)
    · exact ih
    · rfl

/-- the reading used below -/
theorem findC_updC_some {cs : List Client} {k j : Nat} {f : Client → Client} {cl' : Client}
    (h : findC (updC cs k f) j = some cl') (hf : ∀ c, (f c).conn = c.conn) :
    ∃ cl, findC cs j = some cl ∧ ((j = k ∧ cl' = f cl) ∨ (j ≠ k ∧ cl' = cl)) := by
  rw [findC_updC _ _ _ _ hf] at h
  cases hc : findC cs j with
  | none => simp [hc] at h
  | some cl =>
    simp only [hc, Option.map_some, Option.some.injEq] at h
    refine ⟨cl, rfl, ?_⟩
    have hcj := (findC_some hc).2
    by_cases hk : j = k
    · left
      have : (cl.conn == k) = true := by simp [hcj, hk]
      simp only [this, if_true] at h
      exact ⟨hk, h.symm⟩
    · right
      have : (cl.conn == k) = false := by simp [hcj, hk]
      simp only [this] at h
      exact ⟨hk, h.symm⟩

theorem findC_map (l : List Client) (j : Nat) (f : Client → Client) (hf : ∀ c, (f c).conn = c.conn) :
    findC (l.map f) j = (findC l j).map f := by
  induction l with
  | nil => rfl
  | cons x l ih =>
    simp only [findC] at ih
    simp only [findC, List.map_cons, List.find?_cons, hf]
    cases hj : (x.conn == j)
    · exact ih
    · rfl

theorem findC_removeC (l : List Client) (k j : Nat) :
    findC (removeC l k) j = if j = k then none else findC l j := by
  induction l with
  | nil => simp [findC, removeC]
  | cons x l ih =>
    simp only [findC, removeC, List.filter_cons, List.find?_cons] at ih ⊢
    by_cases hx : x.conn = k
    · subst hx
      by_cases hj : j = x.conn
      · subst hj; simp [ih]
      · have : (x.conn == j) = false := by simpa using fun e => hj e.symm
        simp [this, ih, hj]
    · by_cases hj : x.conn = j
      · subst hj; simp [hx]
      · have h2 : (x.conn == j) = false := by simpa using hj
        simp [hx, h2, ih]

/-! ### what the non-pump, non-RDY ops do to a consumer: in-flight does not grow, `rdy` stays, nobody is armed -/

def CMono (cs' cs : List Client) : Prop :=
  ∀ j cl', findC cs' j = some cl' →
    ∃ cl, findC cs j = some cl ∧ cl'.inFlight ≤ cl.inFlight ∧ cl'.rdy = cl.rdy ∧ (cl'.armed = true → cl.armed = true)

theorem cmono_refl (cs : List Client) : CMono cs cs := fun _ cl h => ⟨cl, h, Int.le_refl _, rfl, fun a => a⟩

theorem cmono_trans {a b c : List Client} (h1 : CMono a b) (h2 : CMono b c) : CMono a c := by
  intro j cl hf
  obtain ⟨c1, f1, l1, r1, a1⟩ := h1 j cl hf
  obtain ⟨c2, f2, l2, r2, a2⟩ := h2 j c1 f1
  exact ⟨c2, f2, Int.le_trans l1 l2, r1.trans r2, fun a => a2 (a1 a)⟩

theorem cmono_updC (cs : List Client) (k : Nat) (f : Client → Client)
    (hf : ∀ c, (f c).conn = c.conn ∧ (f c).inFlight ≤ c.inFlight ∧ (f c).rdy = c.rdy ∧ ((f c).armed = true → c.armed = true)) :
    CMono (updC cs k f) cs := by
  intro j cl' h
  rw [findC_updC _ _ _ _ (fun c => (hf c).1)] at h
  cases hc : findC cs j with
  | none => simp [hc] at h
  | some cl =>
    simp only [hc, Option.map_some, Option.some.injEq] at h
    refine ⟨cl, rfl, ?_⟩
    subst h
    by_cases hk : (cl.conn == k) = true
    · simp only [hk, if_true]; exact (hf cl).2
    · simp only [hk]; exact ⟨Int.le_refl _, rfl, fun a => a⟩

theorem cmono_map (cs : List Client) (f : Client → Client)
    (hf : ∀ c, (f c).conn = c.conn ∧ (f c).inFlight ≤ c.inFlight ∧ (f c).rdy = c.rdy ∧ ((f c).armed = true → c.armed = true)) :
    CMono (cs.map f) cs := by
  intro j cl' h
  rw [findC_map _ _ _ (fun c => (hf c).1)] at h
  cases hc : findC cs j with
  | none => simp [hc] at h
  | some cl =>
    simp only [hc, Option.map_some, Option.some.injEq] at h
    subst h
    exact ⟨cl, rfl, (hf cl).2⟩

theorem cmono_removeC (cs : List Client) (k : Nat) : CMono (removeC cs k) cs := by
  intro j cl' h
  rw [findC_removeC] at h
  by_cases hj : j = k
  · simp [hj] at h
  · simp only [hj, if_false] at h
    exact ⟨cl', h, Int.le_refl _, rfl, fun a => a⟩

@[simp] theorem enqueue_clients (c : Chan) (id : Nat) : (enqueue c id).clients = c.clients := by
  unfold enqueue; split
  · rfl
  · split <;> rfl

theorem decIn_ok : ∀ c : Client, (decIn c).conn = c.conn ∧ (decIn c).inFlight ≤ c.inFlight ∧ (decIn c).rdy = c.rdy ∧
    ((decIn c).armed = true → c.armed = true) := by
  intro c; exact ⟨rfl, by simp only [decIn]; omega, rfl, fun a => a⟩

theorem cmono_timeoutOne (c : Chan) (id : Nat) : CMono (timeoutOne c id).clients c.clients := by
  unfold timeoutOne
  split
  · split
    · rw [enqueue_clients]; exact cmono_updC _ _ _ decIn_ok
    · exact cmono_refl _
  · exact cmono_refl _

theorem cmono_deferDueOne (c : Chan) (id : Nat) : CMono (deferDueOne c id).clients c.clients := by
  unfold deferDueOne
  split
  · split
    · rw [enqueue_clients]; exact cmono_refl _
    · exact cmono_refl _
  · exact cmono_refl _

theorem cmono_foldl (f : Chan → Nat → Chan) (hf : ∀ c x, CMono (f c x).clients c.clients) (l : List Nat) (c : Chan) :
    CMono (l.foldl f c).clients c.clients := by
  induction l generalizing c with
  | nil => exact cmono_refl _
  | cons x l ih => simp only [List.foldl_cons]; exact cmono_trans (ih _) (hf c x)

theorem finChanPart_clients {c c' : Chan} {k id : Nat} (h : finChanPart c k id = some c') : c'.clients = c.clients := by
  unfold finChanPart at h
  split at h
  · split at h
    · split at h
      · cases h; rfl
      · cases h
    · cases h
  · cases h

theorem finDec_ok : ∀ c : Client,
    ({ c with finCount := c.finCount + 1, inFlight := c.inFlight - 1 } : Client).conn = c.conn ∧
    ({ c with finCount := c.finCount + 1, inFlight := c.inFlight - 1 } : Client).inFlight ≤ c.inFlight ∧
    ({ c with finCount := c.finCount + 1, inFlight := c.inFlight - 1 } : Client).rdy = c.rdy ∧
    (({ c with finCount := c.finCount + 1, inFlight := c.inFlight - 1 } : Client).armed = true → c.armed = true) := by
  intro c; exact ⟨rfl, by simp only []; omega, rfl, fun a => a⟩

theorem reqDec_ok : ∀ c : Client,
    ({ c with reqCount := c.reqCount + 1, inFlight := c.inFlight - 1 } : Client).conn = c.conn ∧
    ({ c with reqCount := c.reqCount + 1, inFlight := c.inFlight - 1 } : Client).inFlight ≤ c.inFlight ∧
    ({ c with reqCount := c.reqCount + 1, inFlight := c.inFlight - 1 } : Client).rdy = c.rdy ∧
    (({ c with reqCount := c.reqCount + 1, inFlight := c.inFlight - 1 } : Client).armed = true → c.armed = true) := by
  intro c; exact ⟨rfl, by simp only []; omega, rfl, fun a => a⟩

/-- the ops with a special treatment below -/
def special : Op → Bool
  | .guard _ => true
  | .deliver .. => true
  | .deliverArmed .. => true
  | .rdy .. => true
  | .cls _ => true
  | .addClient .. => true
  | _ => false

theorem step_cmono (conf : Conf) (c : Chan) (op : Op) (hop : special op = false) :
    CMono (step conf c op).1.clients c.clients := by
  cases op with
  | guard k => cases hop
  | deliver k id now => cases hop
  | deliverArmed k id now => cases hop
  | rdy k n => cases hop
  | cls k => cases hop
  | addClient k mt s => cases hop
  | scanInFlight t => exact cmono_foldl _ cmono_timeoutOne _ _
  | scanDeferred t => exact cmono_foldl _ cmono_deferDueOne _ _
  | fin k id =>
    simp only [step]
    split
    · exact cmono_refl _
    · split
      · exact cmono_refl _
      · rename_i c' hfc
        simp only [finClientPart, finChanPart_clients hfc]
        exact cmono_updC _ _ _ finDec_ok
  | finChan k id =>
    simp only [step]
    split
    · exact cmono_refl _
    · split
      · exact cmono_refl _
      · rename_i c' hfc
        simp only [finChanPart_clients hfc]
        exact cmono_refl _
  | finClient k =>
    simp only [step]
    split
    · exact cmono_refl _
    · simp only [finClientPart]; exact cmono_updC _ _ _ finDec_ok
  | req k id delay now =>
    simp only [step]
    repeat' split
    all_goals first
      | exact cmono_refl _
      | (rw [enqueue_clients]; exact cmono_updC _ _ _ reqDec_ok)
      | exact cmono_updC _ _ _ reqDec_ok
  | put id env =>
    simp only [step]
    split
    · exact cmono_refl _
    · rw [enqueue_clients]; exact cmono_refl _
  | empty =>
    simp only [step]
    refine cmono_map _ _ (fun cl => ⟨rfl, ?_, rfl, fun a => a⟩)
    simp only []; omega
  | _ =>
    simp only [step]
    repeat' split
    all_goals first
      | exact cmono_refl _
      | exact cmono_removeC _ _

/-! ### the invariant -/

structure Bd (cl : Client) (gr base : Int) : Prop where
  le_gr    : cl.inFlight ≤ gr
  armed_lt : cl.armed = true → cl.inFlight < gr
  le_base  : cl.inFlight ≤ cl.rdy ∨ cl.inFlight ≤ base + 1
  armed_or : cl.armed = true → cl.inFlight ≤ base ∨ cl.inFlight < cl.rdy

def BInv (s : Chan × Gh) : Prop := ∀ j cl, findC s.1.clients j = some cl → Bd cl (s.2.gr j) (s.2.base j)

theorem bd_mono {cl cl' : Client} {g b : Int} (h : Bd cl g b) (hi : cl'.inFlight ≤ cl.inFlight) (hr : cl'.rdy = cl.rdy)
    (ha : cl'.armed = true → cl.armed = true) : Bd cl' g b := by
  refine ⟨Int.le_trans hi h.le_gr, fun a => ?_, ?_, fun a => ?_⟩
  · have := h.armed_lt (ha a); omega
  · rcases h.le_base with h1 | h1
    · left; omega
    · right; omega
  · rcases h.armed_or (ha a) with h1 | h1
    · left; omega
    · right; omega

theorem binv_init (eph : Bool) (cap : Nat) : BInv ({ ephemeral := eph, memCap := cap }, {}) := by
  intro j cl h; simp [findC] at h

/-- the clients after a `doDeliver`: unchanged (rejected), or connection `k` got one more in flight and is disarmed -/
theorem doDeliver_clients (c : Chan) (cl0 : Client) (k id : Nat) (now : Int) :
    ((doDeliver c cl0 k id now).1.clients = c.clients ∧ ∀ a, (doDeliver c cl0 k id now).2 ≠ .msg a) ∨
    ((doDeliver c cl0 k id now).1.clients =
        updC c.clients k (fun cl => { cl with inFlight := cl.inFlight + 1, msgCount := cl.msgCount + 1, lgr := cl.rdy, decr := false, armed := false }) ∧
      ∃ a, (doDeliver c cl0 k id now).2 = .msg a) := by
  unfold doDeliver
  split
  · left; exact ⟨rfl, fun a h => by cases h⟩
  · split
    · left; exact ⟨rfl, fun a h => by cases h⟩
    · right; exact ⟨rfl, _, rfl⟩

theorem findC_delivered {cs : List Client} {k j : Nat} {cl' : Client}
    (h : findC (updC cs k (fun cl => { cl with inFlight := cl.inFlight + 1, msgCount := cl.msgCount + 1, lgr := cl.rdy, decr := false, armed := false })) j = some cl') :
    ∃ cl, findC cs j = some cl ∧
      ((j = k ∧ cl'.inFlight = cl.inFlight + 1 ∧ cl'.rdy = cl.rdy ∧ cl'.armed = false) ∨ (j ≠ k ∧ cl' = cl)) := by
  obtain ⟨cl, hc, hh⟩ := findC_updC_some h (fun _ => rfl)
  refine ⟨cl, hc, ?_⟩
  rcases hh with ⟨hk, he⟩ | ⟨hk, he⟩
  · left; subst he; exact ⟨hk, rfl, rfl, rfl⟩
  · right; exact ⟨hk, he⟩

theorem out_ne1 : (Out.reject "guard" = Out.ok) = False := by simp
theorem out_ne2 : (Out.reject "no-client" = Out.ok) = False := by simp
theorem out_ne3 : (Out.err "E_INVALID" true = Out.ok) = False := by simp
theorem out_ne4 : (Out.reject "conn-reused" = Out.ok) = False := by simp

theorem gstep_binv (conf : Conf) {s : Chan × Gh} (h : BInv s) (op : Op) : BInv (gstep conf s op) := by
  obtain ⟨c, g⟩ := s
  by_cases hsp : special op = false
  · -- the ghosts do not move, the clients only shrink
    have hg : gnext conf c g op = g := by cases op <;> first | rfl | cases hsp
    intro j cl' hf
    simp only [gstep, hg] at hf ⊢
    obtain ⟨cl, hcf, hi, hr, ha⟩ := step_cmono conf c op hsp j cl' hf
    exact bd_mono (h j cl hcf) hi hr ha
  · cases op with
    | guard k =>
      intro j cl' hf
      simp only [gstep, gnext, step] at hf ⊢
      cases hc : findC c.clients k with
      | none => simp only [hc] at hf ⊢; simp only [out_ne2, if_false]; exact h j cl' hf
      | some cl0 =>
        simp only [hc] at hf ⊢
        by_cases hr : ready c.paused cl0 = true
        · simp only [hr, if_true] at hf ⊢
          obtain ⟨cl, hcj, hh⟩ := findC_updC_some hf (fun _ => rfl)
          rcases hh with ⟨hk, he⟩ | ⟨hk, he⟩
          · subst hk
            rw [hc] at hcj; cases hcj
            subst he
            simp only [ready, Bool.and_eq_true, decide_eq_true_eq] at hr
            simp only [upd, if_true, rdyOf, hc]
            have hb : Bd cl0 (g.gr j) (g.base j) := h j cl0 hc
            exact ⟨by simp only []; omega, fun _ => by simp only []; omega, hb.le_base, fun _ => Or.inr hr.2⟩
          · subst he
            simp only [upd, hk, if_false]
            exact h j cl' hcj
        · simp only [hr] at hf ⊢
          simp only [Bool.false_eq_true, if_false, out_ne1] at hf ⊢
          obtain ⟨cl, hcj, hh⟩ := findC_updC_some hf (fun _ => rfl)
          rcases hh with ⟨hk, he⟩ | ⟨hk, he⟩
          · subst he
            exact bd_mono (h j cl hcj) (Int.le_refl _) rfl (fun a => by cases a)
          · subst he; exact h j cl' hcj
    | deliver k id now =>
      intro j cl' hf
      simp only [gstep, gnext, step] at hf ⊢
      cases hc : findC c.clients k with
      | none => simp only [hc] at hf ⊢; exact h j cl' hf
      | some cl0 =>
        simp only [hc] at hf ⊢
        by_cases hr : ready c.paused cl0 = true
        · simp only [hr, Bool.not_true, Bool.false_eq_true, if_false] at hf ⊢
          rcases doDeliver_clients c cl0 k id now with ⟨he, hn⟩ | ⟨he, a, ha⟩
          · rw [he] at hf
            have : (match (doDeliver c cl0 k id now).2 with
                    | .msg _ => ({ g with gr := upd g.gr k (rdyOf c k) } : Gh)
                    | _ => g) = g := by
              split
              · rename_i a heq; exact absurd heq (hn a)
              · rfl
            rw [this]; exact h j cl' hf
          · rw [he] at hf
            rw [ha]
            simp only []
            obtain ⟨cl, hcj, hh⟩ := findC_delivered hf
            simp only [ready, Bool.and_eq_true, decide_eq_true_eq] at hr
            rcases hh with ⟨hk, hi, hrd, har⟩ | ⟨hk, he2⟩
            · subst hk
              rw [hc] at hcj; cases hcj
              simp only [upd, if_true, rdyOf, hc]
              have hna : cl'.armed = true → False := fun a => by rw [har] at a; cases a
              exact ⟨by omega, fun a => (hna a).elim, Or.inl (by omega), fun a => (hna a).elim⟩
            · subst he2
              simp only [upd, hk, if_false]
              exact h j cl' hcj
        · simp only [hr] at hf ⊢
          simp only [Bool.not_false, if_true] at hf ⊢
          exact h j cl' hf
    | deliverArmed k id now =>
      intro j cl' hf
      simp only [gstep, gnext, step] at hf ⊢
      cases hc : findC c.clients k with
      | none => simp only [hc] at hf ⊢; exact h j cl' hf
      | some cl0 =>
        simp only [hc] at hf ⊢
        by_cases har0 : cl0.armed = true
        · simp only [har0, Bool.not_true, Bool.false_eq_true, if_false] at hf ⊢
          rcases doDeliver_clients c cl0 k id now with ⟨he, _⟩ | ⟨he, _⟩
          · rw [he] at hf; exact h j cl' hf
          · rw [he] at hf
            obtain ⟨cl, hcj, hh⟩ := findC_delivered hf
            rcases hh with ⟨hk, hi, hrd, har⟩ | ⟨hk, he2⟩
            · subst hk
              rw [hc] at hcj; cases hcj
              have hb : Bd cl0 (g.gr j) (g.base j) := h j cl0 hc
              have h1 := hb.armed_lt har0
              have hna : cl'.armed = true → False := fun a => by rw [har] at a; cases a
              refine ⟨by omega, fun a => (hna a).elim, ?_, fun a => (hna a).elim⟩
              rcases hb.armed_or har0 with h2 | h2
              · right; omega
              · left; omega
            · subst he2; exact h j cl' hcj
        · simp only [har0] at hf ⊢
          simp only [Bool.not_false, if_true] at hf ⊢
          exact h j cl' hf
    | rdy k n =>
      intro j cl' hf
      simp only [gstep, gnext, step] at hf ⊢
      cases hc : findC c.clients k with
      | none =>
        simp only [hc] at hf ⊢
        simp only [out_ne2, if_false]; exact h j cl' hf
      | some cl0 =>
        simp only [hc] at hf ⊢
        by_cases hcl : cl0.closing = true
        · -- ignored: nothing changes but `base k := inFlight`
          simp only [hcl, if_true] at hf ⊢
          by_cases hk : j = k
          · subst hk
            have e : cl0 = cl' := by rw [hc] at hf; exact Option.some.inj hf
            subst e
            simp only [upd, if_true, inFlightOf, hc]
            have hb : Bd cl0 (g.gr j) (g.base j) := h j cl0 hc
            exact ⟨hb.le_gr, hb.armed_lt, Or.inr (by omega), fun _ => Or.inl (Int.le_refl _)⟩
          · simp only [upd, hk, if_false]; exact h j cl' hf
        · simp only [hcl, Bool.false_eq_true, if_false] at hf ⊢
          by_cases hbad : (decide (n < 0) || decide (n > conf.maxRdy)) = true
          · simp only [hbad, if_true] at hf ⊢
            simp only [out_ne3, if_false]
            obtain ⟨cl, hcf, hi, hr, ha⟩ := cmono_removeC c.clients k j cl' hf
            exact bd_mono (h j cl hcf) hi hr ha
          · simp only [hbad, Bool.false_eq_true, if_false] at hf ⊢
            obtain ⟨cl, hcj, hh⟩ := findC_updC_some hf (fun _ => rfl)
            rcases hh with ⟨hk, he⟩ | ⟨hk, he⟩
            · subst hk
              rw [hc] at hcj; cases hcj
              subst he
              simp only [upd, if_true, inFlightOf, hc]
              have hb : Bd cl0 (g.gr j) (g.base j) := h j cl0 hc
              exact ⟨hb.le_gr, hb.armed_lt, Or.inr (by simp only []; omega), fun _ => Or.inl (Int.le_refl _)⟩
            · subst he
              simp only [upd, hk, if_true, if_false]
              exact h j cl' hcj
    | cls k =>
      intro j cl' hf
      simp only [gstep, gnext, step] at hf ⊢
      cases hc : findC c.clients k with
      | none =>
        simp only [hc] at hf ⊢
        simp only [out_ne2, if_false]; exact h j cl' hf
      | some cl0 =>
        simp only [hc] at hf ⊢
        by_cases hcl : cl0.closing = true
        · simp only [hcl, if_true] at hf ⊢
          simp only [out_ne3, if_false]
          obtain ⟨cl, hcf, hi, hr, ha⟩ := cmono_removeC c.clients k j cl' hf
          exact bd_mono (h j cl hcf) hi hr ha
        · simp only [hcl, Bool.false_eq_true, if_false] at hf ⊢
          obtain ⟨cl, hcj, hh⟩ := findC_updC_some hf (fun _ => rfl)
          rcases hh with ⟨hk, he⟩ | ⟨hk, he⟩
          · subst hk
            rw [hc] at hcj; cases hcj
            subst he
            simp only [upd, if_true, inFlightOf, hc]
            have hb : Bd cl0 (g.gr j) (g.base j) := h j cl0 hc
            exact ⟨hb.le_gr, hb.armed_lt, Or.inr (by simp only []; omega), fun _ => Or.inl (Int.le_refl _)⟩
          · subst he
            simp only [upd, hk, if_true, if_false]
            exact h j cl' hcj
    | addClient k mt sm =>
      intro j cl' hf
      simp only [gstep, gnext, step] at hf ⊢
      by_cases hrej : (hasC c.clients k || heldBy c.msgs k != 0 || c.pendingFin.contains k) = true
      · simp only [hrej, if_true] at hf ⊢
        simp only [out_ne4, if_false]; exact h j cl' hf
      · simp only [hrej, Bool.false_eq_true, if_false] at hf ⊢
        simp only [findC, List.find?_cons] at hf
        by_cases hk : j = k
        · subst hk
          simp only [beq_self_eq_true, Option.some.injEq] at hf
          subst hf
          simp only [upd, if_true]
          exact ⟨Int.le_refl _, fun a => (by cases a), Or.inl (Int.le_refl _), fun a => (by cases a)⟩
        · have : (k == j) = false := by simpa using fun e => hk e.symm
          simp only [this] at hf
          simp only [upd, hk, if_true, if_false]
          exact h j cl' hf
    | _ => exact absurd rfl hsp

theorem grun_binv (conf : Conf) {s : Chan × Gh} (h : BInv s) (ops : List Op) : BInv (grun conf s ops) := by
  induction ops generalizing s with
  | nil => exact h
  | cons op ops ih => exact ih (gstep_binv conf h op)

end Nsq.Proofs.ChanBound
