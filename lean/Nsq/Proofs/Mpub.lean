import Nsq.Model.Mpub
/-! Helper lemmas about `readLen`, `readMPUB` and the wire encoding of a batch. -/
namespace Nsq.Proofs.Mpub
open Nsq.Model.ProtoV2 Nsq.Model.Mpub Nsq.Model

/-- Size bounds of one accepted message body. -/
def BodyOk (maxMsg : Int) (b : Bytes) : Prop := 1 ≤ b.length ∧ (b.length : Int) ≤ maxMsg

theorem be32_length (n : Nat) : (be32 n).length = 4 := by simp [be32]

theorem int32OfBE_be32 (n : Nat) (h : n < 2147483648) :
    int32OfBE (n / 16777216 % 256).toUInt8 (n / 65536 % 256).toUInt8 (n / 256 % 256).toUInt8
      (n % 256).toUInt8 = (n : Int) := by
  unfold int32OfBE
  have e0 : (n / 16777216 % 256).toUInt8.toNat = n / 16777216 % 256 := by
    simp [Nat.toUInt8, UInt8.toNat_ofNat']
  have e1 : (n / 65536 % 256).toUInt8.toNat = n / 65536 % 256 := by
    simp [Nat.toUInt8, UInt8.toNat_ofNat']
  have e2 : (n / 256 % 256).toUInt8.toNat = n / 256 % 256 := by
    simp [Nat.toUInt8, UInt8.toNat_ofNat']
  have e3 : (n % 256).toUInt8.toNat = n % 256 := by
    simp [Nat.toUInt8, UInt8.toNat_ofNat']
  simp only [e0, e1, e2, e3]
  have : n / 16777216 % 256 * 16777216 + n / 65536 % 256 * 65536 + n / 256 % 256 * 256 + n % 256 = n := by
    omega
  rw [this]
  split
  · omega
  · rfl

/-- Reading back a length prefix written by a client. -/
theorem readLen_be32 (n : Nat) (rest : Bytes) (h : n < 2147483648) :
    readLen (be32 n ++ rest) = some ((n : Int), rest) := by
  simp [be32, readLen, int32OfBE_be32 n h]

/-- Facts about an accepted run of `readMsgs`: count, sizes, and exactly which bytes were eaten. -/
theorem readMsgs_ok (maxMsg : Int) : ∀ (k : Nat) (bs : Bytes) (acc bodies : List Bytes) (r : Bytes),
    readMsgs maxMsg k bs acc = .ok bodies r →
    ∃ new : List Bytes, bodies = acc.reverse ++ new ∧ new.length = k ∧ (∀ b ∈ new, BodyOk maxMsg b) ∧
      bs.length = (new.map (fun b => b.length + 4)).sum + r.length
  | 0, bs, acc, bodies, r, h => by
    simp [readMsgs] at h
    obtain ⟨rfl, rfl⟩ := h
    exact ⟨[], by simp⟩
  | k + 1, bs, acc, bodies, r, h => by
    unfold readMsgs at h
    split at h
    · simp at h
    · rename_i sz r' heq
      split at h
      · simp at h
      · split at h
        · simp at h
        · split at h
          · simp at h
          · split at h
            · simp at h
            · rename_i h1 h2 h3 h4
              obtain ⟨new, hb, hl, hok, hlen⟩ := readMsgs_ok maxMsg k _ _ _ _ h
              refine ⟨r'.take sz.toNat :: new, ?_, ?_, ?_, ?_⟩
              · simp [hb]
              · simp [hl]
              · intro b hb'
                rcases List.mem_cons.mp hb' with rfl | hb'
                · constructor
                  · simp [List.length_take]; omega
                  · simp [List.length_take]; omega
                · exact hok b hb'
              · have hbs : bs.length = r'.length + 4 := by
                  unfold readLen at heq
                  split at heq
                  · simp at heq; obtain ⟨_, rfl⟩ := heq; simp
                  · simp at heq
                simp [List.length_take, List.length_drop] at hlen ⊢
                omega

theorem readMPUB_ok (maxMsg maxBody : Int) (bs : Bytes) (bodies : List Bytes) (r : Bytes)
    (h : readMPUB maxMsg maxBody bs = .ok bodies r) :
    1 ≤ bodies.length ∧ (bodies.length : Int) ≤ maxMessages maxBody ∧ (∀ b ∈ bodies, BodyOk maxMsg b) ∧
      bs.length = 4 + (bodies.map (fun b => b.length + 4)).sum + r.length := by
  unfold readMPUB at h
  split at h
  · simp at h
  · rename_i n r' heq
    split at h
    · simp at h
    · split at h
      · simp at h
      · rename_i h1 h2
        obtain ⟨new, hb, hl, hok, hlen⟩ := readMsgs_ok maxMsg _ _ _ _ _ h
        simp at hb
        subst hb
        have hbs : bs.length = r'.length + 4 := by
          unfold readLen at heq
          split at heq
          · simp at heq; obtain ⟨_, rfl⟩ := heq; simp
          · simp at heq
        refine ⟨by omega, by omega, hok, by omega⟩


/-! ## An accepted batch is exactly the bytes on the wire -/

theorem toUInt8_toNat (b : UInt8) : b.toNat.toUInt8 = b := by
  cases b with
  | ofBitVec v => simp [Nat.toUInt8, UInt8.ofNat, UInt8.toNat]

theorem readLen_wire (bs : Bytes) (n : Int) (r : Bytes) (h : readLen bs = some (n, r)) (hn : 0 ≤ n) :
    bs = be32 n.toNat ++ r := by
  unfold readLen at h
  split at h
  · rename_i b0 b1 b2 b3 rest
    simp at h
    obtain ⟨rfl, rfl⟩ := h
    unfold int32OfBE at hn ⊢
    have h0 := b0.toNat_lt
    have h1 := b1.toNat_lt
    have h2 := b2.toNat_lt
    have h3 := b3.toNat_lt
    simp only at hn ⊢
    split at hn
    · omega
    · rename_i hv
      simp only [hv, if_false, Int.toNat_natCast, be32, List.cons_append, List.nil_append]
      have e0 : (b0.toNat * 16777216 + b1.toNat * 65536 + b2.toNat * 256 + b3.toNat) / 16777216 % 256 = b0.toNat := by omega
      have e1 : (b0.toNat * 16777216 + b1.toNat * 65536 + b2.toNat * 256 + b3.toNat) / 65536 % 256 = b1.toNat := by omega
      have e2 : (b0.toNat * 16777216 + b1.toNat * 65536 + b2.toNat * 256 + b3.toNat) / 256 % 256 = b2.toNat := by omega
      have e3 : (b0.toNat * 16777216 + b1.toNat * 65536 + b2.toNat * 256 + b3.toNat) % 256 = b3.toNat := by omega
      rw [e0, e1, e2, e3]
      simp [toUInt8_toNat]
  · simp at h

theorem readMsgs_wire (maxMsg : Int) : ∀ (k : Nat) (bs : Bytes) (acc bodies : List Bytes) (r : Bytes),
    readMsgs maxMsg k bs acc = .ok bodies r →
    ∃ new : List Bytes, bodies = acc.reverse ++ new ∧ bs = encodeMsgs new ++ r
  | 0, bs, acc, bodies, r, h => by
    simp [readMsgs] at h
    obtain ⟨rfl, rfl⟩ := h
    exact ⟨[], by simp [encodeMsgs]⟩
  | k + 1, bs, acc, bodies, r, h => by
    unfold readMsgs at h
    split at h
    · simp at h
    · rename_i sz r' heq
      split at h
      · simp at h
      · split at h
        · simp at h
        · split at h
          · simp at h
          · split at h
            · simp at h
            · rename_i h1 h2 h3 h4
              obtain ⟨new, hb, hw⟩ := readMsgs_wire maxMsg k _ _ _ _ h
              refine ⟨r'.take sz.toNat :: new, by simp [hb], ?_⟩
              have hbs := readLen_wire bs sz r' heq (by omega)
              have hlen : (r'.take sz.toNat).length = sz.toNat := by
                simp [List.length_take]; omega
              rw [hbs, encodeMsgs, hlen]
              have : r' = r'.take sz.toNat ++ r'.drop sz.toNat := (List.take_append_drop _ _).symm
              rw [hw] at this
              rw [List.append_assoc, List.append_assoc, ← this]

theorem readMPUB_wire (maxMsg maxBody : Int) (bs : Bytes) (bodies : List Bytes) (r : Bytes)
    (h : readMPUB maxMsg maxBody bs = .ok bodies r) : bs = encode bodies ++ r := by
  have hok := readMPUB_ok maxMsg maxBody bs bodies r h
  unfold readMPUB at h
  split at h
  · simp at h
  · rename_i n r' heq
    split at h
    · simp at h
    · split at h
      · simp at h
      · rename_i h1 h2
        obtain ⟨new, hb, hw⟩ := readMsgs_wire maxMsg _ _ _ _ _ h
        simp at hb
        subst hb
        obtain ⟨new', hb', hl, _, _⟩ := readMsgs_ok maxMsg _ _ _ _ _ h
        simp at hb'
        subst hb'
        have hbs := readLen_wire bs n r' heq (by omega)
        rw [hbs, hw, encode, hl, List.append_assoc]

/-- The bytes an accepted batch occupies are bounded by the two limits alone. -/
theorem readMPUB_consumed (maxMsg maxBody : Int) (bs : Bytes) (bodies : List Bytes) (r : Bytes)
    (h : readMPUB maxMsg maxBody bs = .ok bodies r) :
    (bs.length - r.length : Int) ≤ 4 + maxMessages maxBody * (4 + maxMsg) := by
  obtain ⟨h1, h2, h3, h4⟩ := readMPUB_ok maxMsg maxBody bs bodies r h
  have hsum : ∀ (l : List Bytes), (∀ b ∈ l, BodyOk maxMsg b) →
      (((l.map (fun b => b.length + 4)).sum : Nat) : Int) ≤ (l.length : Int) * (4 + maxMsg) := by
    intro l
    induction l with
    | nil => simp
    | cons x xs ih =>
      intro hx
      have hxs := ih (fun b hb => hx b (List.mem_cons_of_mem _ hb))
      have hx0 := hx x (List.mem_cons_self)
      unfold BodyOk at hx0
      simp only [List.map_cons, List.sum_cons, List.length_cons]
      push_cast
      rw [Int.add_mul, Int.one_mul]
      omega
  have hs := hsum bodies h3
  have hmsg : (0 : Int) ≤ 4 + maxMsg := by
    cases bodies with
    | nil => simp at h1
    | cons x xs =>
      have := h3 x (List.mem_cons_self)
      unfold BodyOk at this
      omega
  have hmul : (bodies.length : Int) * (4 + maxMsg) ≤ maxMessages maxBody * (4 + maxMsg) :=
    Int.mul_le_mul_of_nonneg_right h2 hmsg
  have h4' : (bs.length : Int) = 4 + (((bodies.map (fun b => b.length + 4)).sum : Nat) : Int) + (r.length : Int) := by
    rw [h4]; push_cast; rfl
  omega

end Nsq.Proofs.Mpub
