import Nsq.Model.Registry
/-! Go-map laws for the association-list maps of `Nsq.Model.Registry.AMap`. -/
namespace Nsq.Proofs.RegistryMap
open Nsq.Model.Registry Nsq.Model.Registry.AMap

variable {α : Type} {β : Type} [DecidableEq α]

@[simp] theorem mget_nil (k : α) : mget ([] : List (α × β)) k = none := rfl

theorem mget_mset (m : List (α × β)) (k k' : α) (v : β) :
    mget (mset m k v) k' = if k = k' then some v else mget m k' := by
  induction m with
  | nil => simp [mset, mget]
  | cons e m ih =>
    unfold mset
    by_cases h : e.1 = k
    · simp only [h, if_true, mget]
      by_cases h2 : k = k'
      · simp [h2]
      · simp [h2, h]
    · simp only [h, if_false, mget, ih]
      by_cases h2 : k = k'
      · subst h2; simp [h]
      · simp [h2]

theorem mget_mdel (m : List (α × β)) (k k' : α) :
    mget (mdel m k) k' = if k = k' then none else mget m k' := by
  induction m with
  | nil => simp [mdel, mget]
  | cons e m ih =>
    unfold mdel
    by_cases h : e.1 = k
    · simp only [h, if_true, ih, mget]
      by_cases h2 : k = k'
      · simp [h2]
      · simp [h2]
    · simp only [h, if_false, mget, ih]
      by_cases h2 : k = k'
      · subst h2; simp [h]
      · simp [h2]

theorem mem_mkeys_iff (m : List (α × β)) (k : α) : k ∈ mkeys m ↔ (mget m k).isSome = true := by
  induction m with
  | nil => simp [mkeys, mget]
  | cons e m ih =>
    simp only [mkeys, List.map_cons, List.mem_cons, mget]
    by_cases h : e.1 = k
    · simp [h]
    · have h' : ¬ k = e.1 := fun x => h x.symm
      simp only [h, h', if_false, false_or]
      exact ih

theorem mget_none_iff (m : List (α × β)) (k : α) : mget m k = none ↔ k ∉ mkeys m := by
  rw [mem_mkeys_iff]
  cases mget m k <;> simp

theorem mget_mem (m : List (α × β)) (k : α) (v : β) (h : mget m k = some v) : (k, v) ∈ m := by
  induction m with
  | nil => simp [mget] at h
  | cons e m ih =>
    simp only [mget] at h
    by_cases h1 : e.1 = k
    · simp only [h1, if_true, Option.some.injEq] at h
      have : e = (k, v) := by cases e; simp_all
      simp [this]
    · simp only [h1, if_false] at h
      exact List.mem_cons_of_mem _ (ih h)

theorem mget_of_mem_nodup (m : List (α × β)) (k : α) (v : β) (hn : (mkeys m).Nodup) (h : (k, v) ∈ m) :
    mget m k = some v := by
  induction m with
  | nil => simp at h
  | cons e m ih =>
    simp only [mkeys, List.map_cons, List.nodup_cons] at hn
    simp only [List.mem_cons] at h
    simp only [mget]
    cases h with
    | inl h => subst h; simp
    | inr h =>
      have hk : k ∈ mkeys m := by
        simp only [mkeys, List.mem_map]; exact ⟨(k, v), h, rfl⟩
      have hne : ¬ e.1 = k := by
        intro he; apply hn.1; rw [he]; exact hk
      simp only [hne, if_false]
      exact ih hn.2 h

theorem mkeys_mset (m : List (α × β)) (k : α) (v : β) :
    mkeys (mset m k v) = if k ∈ mkeys m then mkeys m else mkeys m ++ [k] := by
  induction m with
  | nil => simp [mset, mkeys]
  | cons e m ih =>
    unfold mset
    by_cases h : e.1 = k
    · simp [h, mkeys]
    · have h' : ¬ k = e.1 := fun x => h x.symm
      simp only [h, if_false, mkeys, List.map_cons, List.mem_cons, h', false_or]
      simp only [mkeys] at ih
      rw [ih]
      split <;> simp [*]

theorem nodup_mkeys_mset (m : List (α × β)) (k : α) (v : β) (h : (mkeys m).Nodup) :
    (mkeys (mset m k v)).Nodup := by
  rw [mkeys_mset]
  split
  · exact h
  · rename_i hk
    rw [List.nodup_append]
    refine ⟨h, by simp, ?_⟩
    intro a ha b hb
    simp at hb
    subst hb
    intro hab; subst hab; exact hk ha

theorem mkeys_mdel (m : List (α × β)) (k : α) : mkeys (mdel m k) = (mkeys m).filter (fun x => x ≠ k) := by
  induction m with
  | nil => simp [mdel, mkeys]
  | cons e m ih =>
    unfold mdel
    by_cases h : e.1 = k
    · simp only [h, if_true, mkeys, List.map_cons] at ih ⊢
      rw [ih]; simp
    · simp only [h, if_false, mkeys, List.map_cons] at ih ⊢
      rw [ih]; simp [h]

theorem nodup_mkeys_mdel (m : List (α × β)) (k : α) (h : (mkeys m).Nodup) : (mkeys (mdel m k)).Nodup := by
  rw [mkeys_mdel]; exact List.Pairwise.filter _ h

theorem mem_mdel (m : List (α × β)) (k : α) (e : α × β) : e ∈ mdel m k ↔ e ∈ m ∧ e.1 ≠ k := by
  induction m with
  | nil => simp [mdel]
  | cons x m ih =>
    unfold mdel
    by_cases h : x.1 = k
    · simp only [h, if_true, ih, List.mem_cons]
      constructor
      · intro ⟨h1, h2⟩; exact ⟨Or.inr h1, h2⟩
      · intro ⟨h1, h2⟩
        cases h1 with
        | inl h1 => subst h1; exact absurd h h2
        | inr h1 => exact ⟨h1, h2⟩
    · simp only [h, if_false, List.mem_cons, ih]
      constructor
      · intro h1
        cases h1 with
        | inl h1 => subst h1; exact ⟨Or.inl rfl, h⟩
        | inr h1 => exact ⟨Or.inr h1.1, h1.2⟩
      · intro ⟨h1, h2⟩
        cases h1 with
        | inl h1 => exact Or.inl h1
        | inr h1 => exact Or.inr ⟨h1, h2⟩

end Nsq.Proofs.RegistryMap
