/-
E2 — liveness toolkit for the nsqd-level model (`Nsq.Model.ChanNsqd`), round 7:

* how ANY nsqd-level step acts on the topic queue of one topic (`tq_unless`: a message leaves the
  topic queue only through an accepted `pumpTopic` of that very message) and on one channel
  `(t, c)` (`nstep_move`: its location on the channel moves along the graph of
  `Nsq.Proofs.ChanLive.trans`; the channel may be created, or reaped — then it owns nothing);
* what the accepted `pumpTopic` does (`pump_fans_out`: every channel of the topic gets the message);
* an abstract leads-to argument over a *trace of locations* (`trace_eventually_delivered`), which is
  the proof of `Nsq.Props.C01Live.eventually_delivered` with the model factored out, so that it can
  be instantiated at the nsqd level.
Used by `Nsq.Props.C01Topic`.
-/
import Nsq.Proofs.ChanLive
import Nsq.Proofs.ChanNsqd
namespace Nsq.Proofs.TopicLive
open Nsq.Model.Chan Nsq.Model.ChanNsqd Nsq.Proofs.Chan Nsq.Proofs.ChanLive Nsq.Proofs.ChanNsqd

macro "inl_rfl" : tactic => `(tactic| first | exact Or.inl rfl | exact Or.inl trivial)

/-! ### projections -/

/-- channel `c` of topic `t` (none: no such topic / channel) -/
def chanAtL (l : List Topic) (t c : Nat) : Option Chan :=
  (findT l t).bind (fun tp => (findN tp.chans c).map (·.ch))

def chanAt (s : State) (t c : Nat) : Option Chan := chanAtL s.topics t c

/-- where message `id` is on channel `(t, c)`; `none` = the channel does not own it (or does not exist) -/
def nloc (s : State) (t c id : Nat) : Option Loc :=
  (chanAt s t c).bind (fun ch => locOf ch id)

/-- message `id` sits in the queue of topic `t` (memory or disk) -/
def inTQ (s : State) (t id : Nat) : Prop :=
  ∃ tp, findT s.topics t = some tp ∧ id ∈ tp.queue.map (·.id)

/-! ### `find?` plumbing -/

theorem findT_updT (l : List Topic) (t' t : Nat) (f : Topic → Topic) (hf : ∀ y, (f y).tid = y.tid) :
    findT (updT l t' f) t = (findT l t).map (fun y => if y.tid == t' then f y else y) := by
  unfold findT updT
  induction l with
  | nil => rfl
  | cons y l ih =>
    have hk : ((if (y.tid == t') = true then f y else y).tid == t) = (y.tid == t) := by
      by_cases h : (y.tid == t') = true <;> simp [h, hf]
    simp only [List.map_cons, List.find?_cons, hk]
    cases h : (y.tid == t) with
    | true => rfl
    | false => exact ih

theorem findN_map (l : List NChan) (c : Nat) (g : NChan → NChan) (hg : ∀ x, (g x).cid = x.cid) :
    findN (l.map g) c = (findN l c).map g := by
  unfold findN
  induction l with
  | nil => rfl
  | cons y l ih =>
    simp only [List.map_cons, List.find?_cons, hg]
    cases h : (y.cid == c) with
    | true => rfl
    | false => exact ih

theorem findN_updN (l : List NChan) (c' c : Nat) (g : Chan → Chan) :
    findN (updN l c' g) c = (findN l c).map (fun x => if x.cid == c' then { x with ch := g x.ch } else x) := by
  unfold updN
  apply findN_map
  intro x; split <;> rfl

theorem findN_filter_ne (l : List NChan) {c' c : Nat} (h : c ≠ c') :
    findN (l.filter (fun x => x.cid != c')) c = findN l c := by
  unfold findN
  induction l with
  | nil => rfl
  | cons y l ih =>
    by_cases hy : y.cid = c'
    · have h1 : (y.cid != c') = false := by simp [hy]
      have h2 : (y.cid == c) = false := by simp [hy]; omega
      simp only [List.filter_cons, h1, Bool.false_eq_true, ↓reduceIte, List.find?_cons, h2]
      exact ih
    · have h1 : (y.cid != c') = true := by simp [hy]
      simp only [List.filter_cons, h1, ↓reduceIte, List.find?_cons]
      cases h : (y.cid == c) with
      | true => rfl
      | false => exact ih

theorem findN_filter_eq (l : List NChan) (c : Nat) :
    findN (l.filter (fun x => x.cid != c)) c = none := by
  unfold findN
  simp [List.find?_eq_none]

theorem findN_append_none {l : List NChan} {c : Nat} (nc : NChan) (h : findN l c = none) :
    findN (l ++ [nc]) c = if nc.cid == c then some nc else none := by
  unfold findN at h ⊢
  rw [List.find?_append, h]
  cases hh : (nc.cid == c) <;> simp [List.find?_cons, hh]

theorem findN_append_some {l : List NChan} {c : Nat} {x : NChan} (nc : NChan) (h : findN l c = some x) :
    findN (l ++ [nc]) c = some x := by
  unfold findN at h ⊢
  rw [List.find?_append, h]; rfl

theorem findT_ensure_some {s : State} {t : Nat} {x : Topic} (t' : Nat) (h : findT s.topics t = some x) :
    findT (ensureTopic s t').topics t = some x := by
  unfold ensureTopic
  cases h' : findT s.topics t' with
  | some _ => exact h
  | none =>
    show findT (s.topics ++ [_]) t = some x
    unfold findT at h ⊢
    rw [List.find?_append, h]; rfl

/-- `ensureTopic` adds at most an empty topic: no channel appears or disappears -/
theorem chanAt_ensure (s : State) (t' t c : Nat) : chanAt (ensureTopic s t') t c = chanAt s t c := by
  unfold chanAt chanAtL
  cases h : findT s.topics t with
  | some x => rw [findT_ensure_some t' h]
  | none =>
    unfold ensureTopic
    cases h' : findT s.topics t' with
    | some _ => simp only [h]
    | none =>
      show (findT (s.topics ++ [_]) t).bind _ = _
      unfold findT at h ⊢
      rw [List.find?_append, h]
      simp only [Option.none_or, List.find?_cons]
      split
      · rfl
      · rfl

theorem ensure_conf (s : State) (t : Nat) : (ensureTopic s t).conf = s.conf := (ensureTopic_nextId s t).2

/-- the channel `(t, c)` after the topic list became `updT l t' f` -/
theorem chanAtL_updT (l : List Topic) (t' : Nat) (f : Topic → Topic) (t c : Nat) (hf : ∀ y, (f y).tid = y.tid) :
    chanAtL (updT l t' f) t c = (findT l t).bind (fun y =>
      if t = t' then (findN (f y).chans c).map (·.ch) else (findN y.chans c).map (·.ch)) := by
  unfold chanAtL
  rw [findT_updT _ _ _ _ hf]
  cases h : findT l t with
  | none => rfl
  | some y =>
    have hy := (findT_some h).2
    simp only [Option.map_some, Option.bind_some]
    by_cases ht : t = t'
    · subst ht; simp [hy]
    · have : (y.tid == t') = false := by simp [hy]; exact ht
      simp [this, ht]

theorem chanAt_updT {s s' : State} {t' : Nat} {f : Topic → Topic} (hf : ∀ y, (f y).tid = y.tid)
    (hs : s'.topics = updT s.topics t' f) (t c : Nat) :
    chanAt s' t c = (findT s.topics t).bind (fun y =>
      if t = t' then (findN (f y).chans c).map (·.ch) else (findN y.chans c).map (·.ch)) := by
  unfold chanAt
  rw [hs]; exact chanAtL_updT _ _ _ _ _ hf

/-- a topic update that does not touch the channel list leaves every channel as it is -/
theorem chanAt_updT_same {s s' : State} {t' : Nat} {f : Topic → Topic} (hf : ∀ y, (f y).tid = y.tid)
    (hc : ∀ y, (f y).chans = y.chans) (hs : s'.topics = updT s.topics t' f) (t c : Nat) :
    chanAt s' t c = chanAt s t c := by
  rw [chanAt_updT hf hs]
  unfold chanAt chanAtL
  cases h : findT s.topics t with
  | none => rfl
  | some y => simp only [Option.bind_some, hc]; split <;> rfl


/-! ### the topic transformers of the steps that are not channel-level -/

def pumpF (conf : NConf) (id : Nat) (m : TMsg) (kept : Bool) (pris : List (Nat × Int)) (tp : Topic) : Topic :=
  { tp with queue := tp.queue.filter (fun x => x.id != id),
            chans := tp.chans.map (fanOne conf tp.pump m kept pris),
            pumped := id :: tp.pumped }

def pubF (id size delay : Nat) (env : Env) (tp : Topic) : Topic :=
  { putT tp id size delay env with msgCount := tp.msgCount + 1, msgBytes := tp.msgBytes + size, acked := id :: tp.acked }

def mpubF (id : Nat) (sizes : List Nat) (envs : List Env) (tp : Topic) : Topic :=
  { putMany tp id sizes envs with msgCount := tp.msgCount + sizes.length, msgBytes := tp.msgBytes + sizes.sum,
                                    acked := (idsFrom id sizes.length).reverse ++ tp.acked }

def mpubFailF (id : Nat) (sizes : List Nat) (j : Nat) (envs : List Env) (tp : Topic) : Topic :=
  { putMany tp id (sizes.take j) envs with msgCount := tp.msgCount + j, msgBytes := tp.msgBytes + (sizes.take j).sum,
                                             unacked := (idsFrom id j).reverse ++ tp.unacked }

theorem putMany_tid_chans (t : Topic) (id : Nat) (sizes : List Nat) (envs : List Env) :
    (putMany t id sizes envs).tid = t.tid ∧ (putMany t id sizes envs).chans = t.chans := by
  obtain ⟨q, el, h, _⟩ := putMany_spec t id sizes envs
  rw [h]; exact ⟨rfl, rfl⟩

/-! ### what a channel-level step, wrapped at the nsqd level, does to channel `(t, c)` -/

/-- one nsqd-level step's effect on a channel: nothing, one channel-model step, or the channel is gone -/
inductive CEff (conf : Conf) : Option Chan → Option Chan → Prop where
  | same (a : Option Chan) : CEff conf a a
  | stepped (ch : Chan) (op : Nsq.Model.Chan.Op) : CEff conf (some ch) (some (Nsq.Model.Chan.step conf ch op).1)
  | gone (a : Option Chan) : CEff conf a none
  | created (ch : Chan) (h : ch.msgs = []) : CEff conf none (some ch)

theorem chanAt_chanStep' (s : State) (t' c' : Nat) (op : Nsq.Model.Chan.Op) (t c : Nat) :
    chanAt (chanStep s t' c' op).1 t c = chanAt s t c ∨
    ∃ ch, chanAt s t c = some ch ∧ chanAt (chanStep s t' c' op).1 t c = some (Nsq.Model.Chan.step s.conf.chan ch op).1 := by
  unfold chanStep
  cases h1 : findT s.topics t' with
  | none => inl_rfl
  | some tp =>
    dsimp only
    cases h2 : findN tp.chans c' with
    | none => inl_rfl
    | some nc =>
      dsimp only
      unfold chanAt; dsimp only
      rw [chanAtL_updT]
      rotate_left
      · intro _; rfl
      unfold chanAtL
      cases h3 : findT s.topics t with
      | none => inl_rfl
      | some y =>
        simp only [Option.bind_some]
        by_cases ht : t = t'
        · subst ht
          rw [h1] at h3; cases h3
          simp only [↓reduceIte, findN_updN]
          by_cases hc : c = c'
          · subst hc
            rw [h2]
            have := (findN_some h2).2
            simp only [Option.map_some, this, beq_self_eq_true, ↓reduceIte]
            exact Or.inr ⟨nc.ch, rfl, rfl⟩
          · cases h4 : findN tp.chans c with
            | none => inl_rfl
            | some x =>
              have hx := (findN_some h4).2
              have : (x.cid == c') = false := by simp [hx]; exact hc
              simp only [Option.map_some, this, Bool.false_eq_true, ↓reduceIte]
              inl_rfl
        · simp only [ht, ↓reduceIte]; inl_rfl

theorem chanAt_chanStep (s : State) (t' c' : Nat) (op : Nsq.Model.Chan.Op) (t c : Nat) :
    CEff s.conf.chan (chanAt s t c) (chanAt (chanStep s t' c' op).1 t c) := by
  rcases chanAt_chanStep' s t' c' op t c with h | ⟨ch, h1, h2⟩
  · rw [h]; exact .same _
  · rw [h1, h2]; exact .stepped _ _

theorem chanAt_reap {s s' : State} {t' c' : Nat}
    (hs : s'.topics = updT s.topics t' (fun tp => reapEphemeral tp c')) (t c : Nat) :
    chanAt s' t c = chanAt s t c ∨ chanAt s' t c = none := by
  have hf : ∀ y : Topic, (reapEphemeral y c').tid = y.tid := by
    intro y; unfold reapEphemeral; split
    · split <;> rfl
    · rfl
  rw [chanAt_updT (f := fun tp => reapEphemeral tp c') hf hs]
  unfold chanAt chanAtL
  cases h3 : findT s.topics t with
  | none => inl_rfl
  | some y =>
    simp only [Option.bind_some]
    by_cases ht : t = t'
    · simp only [ht, ↓reduceIte]
      unfold reapEphemeral
      split
      · split
        · by_cases hc : c = c'
          · right; subst hc; simp only [findN_filter_eq, Option.map_none]
          · left; simp only [findN_filter_ne _ hc]
        · inl_rfl
      · inl_rfl
    · simp only [ht, ↓reduceIte]; inl_rfl

theorem CEff.to_gone_or {conf : Conf} {a b b' : Option Chan} (h : CEff conf a b) (h' : b' = b ∨ b' = none) :
    CEff conf a b' := by
  rcases h' with rfl | rfl
  · exact h
  · exact .gone _

theorem chanAt_connStep (s : State) (k : Nat) (op : Nsq.Model.Chan.Op) (t c : Nat) :
    CEff s.conf.chan (chanAt s t c) (chanAt (connStep s k op).1 t c) := by
  unfold connStep
  cases h1 : findS s.subs k with
  | none => exact .same _
  | some sb =>
    simp only []
    have hc := chanAt_chanStep s sb.tid sb.cid op t c
    split
    · apply hc.to_gone_or
      exact chanAt_reap (s := removeSub (chanStep s sb.tid sb.cid op).1 k) (t' := sb.tid) (c' := sb.cid) rfl t c
    · exact hc

theorem ceff_ite {conf : Conf} {a : Option Chan} (t c : Nat) (b : Bool) {x y : State × Out}
    (hx : CEff conf a (chanAt x.1 t c)) (hy : CEff conf a (chanAt y.1 t c)) :
    CEff conf a (chanAt (if b = true then x else y).1 t c) := by
  cases b <;> simpa

theorem newChan_msgs (conf : NConf) (eph : Bool) : (newChan conf eph).msgs = [] := rfl

theorem chanAt_doCreateChan' (s : State) (t' c' : Nat) (eph : Bool) (t c : Nat) :
    chanAt (doCreateChan s t' c' eph).1 t c = chanAt s t c ∨
    (chanAt s t c = none ∧ ∃ ch, chanAt (doCreateChan s t' c' eph).1 t c = some ch ∧ ch.msgs = []) := by
  unfold doCreateChan
  simp only []
  rw [← chanAt_ensure s t' t c]
  generalize ensureTopic s t' = s1
  cases h1 : findT s1.topics t' with
  | none => inl_rfl
  | some tp =>
    dsimp only
    cases h2 : findN tp.chans c' with
    | some _ => inl_rfl
    | none =>
      dsimp only
      unfold chanAt; dsimp only
      rw [chanAtL_updT]
      rotate_left
      · intro _; rfl
      unfold chanAtL
      cases h3 : findT s1.topics t with
      | none => inl_rfl
      | some y =>
        simp only [Option.bind_some]
        by_cases ht : t = t'
        · subst ht
          rw [h1] at h3; cases h3
          simp only [↓reduceIte]
          cases h4 : findN tp.chans c with
          | some x => rw [findN_append_some _ h4]; inl_rfl
          | none =>
            rw [findN_append_none _ h4]
            dsimp only
            split
            · exact Or.inr ⟨rfl, _, rfl, newChan_msgs _ _⟩
            · inl_rfl
        · simp only [ht, ↓reduceIte]; inl_rfl

theorem chanAt_doCreateChan (s : State) (t' c' : Nat) (eph : Bool) (t c : Nat) :
    CEff s.conf.chan (chanAt s t c) (chanAt (doCreateChan s t' c' eph).1 t c) := by
  rcases chanAt_doCreateChan' s t' c' eph t c with h | ⟨h1, ch, h2, h3⟩
  · rw [h]; exact .same _
  · rw [h1, h2]; exact .created _ h3

theorem addClient_msgs (conf : Conf) (ch : Chan) (k : Nat) (mt : Int) (sample : Nat) :
    (Nsq.Model.Chan.step conf ch (.addClient k mt sample)).1.msgs = ch.msgs := by
  simp only [Nsq.Model.Chan.step]
  split <;> rfl

theorem fanOne_cid (conf : NConf) (pump : List Nat) (m : TMsg) (kept : Bool) (pris : List (Nat × Int)) (nc : NChan) :
    (fanOne conf pump m kept pris nc).cid = nc.cid := by
  unfold fanOne
  split
  · rfl
  · split
    · split <;> rfl
    · rfl

/-- the fan-out acts on each channel as `put` / `putDeferred` of the channel model, or not at all -/
theorem fanOne_ch (conf : NConf) (pump : List Nat) (m : TMsg) (kept : Bool) (pris : List (Nat × Int)) (nc : NChan) :
    (fanOne conf pump m kept pris nc).ch = nc.ch ∨
    ∃ op, (fanOne conf pump m kept pris nc).ch = (Nsq.Model.Chan.step conf.chan nc.ch op).1 := by
  unfold fanOne
  split
  · inl_rfl
  · split
    · split
      · exact Or.inr ⟨_, rfl⟩
      · exact Or.inr ⟨_, rfl⟩
    · exact Or.inr ⟨_, rfl⟩

/-! ### every nsqd-level step, seen from one channel -/

/-- **the effect of ANY nsqd-level step on ANY channel** is: nothing, one step of the channel model,
the channel disappears (an `#ephemeral` channel without consumers deletes itself), or it is created empty
(possibly followed by the `addClient` of the subscribing connection — which leaves it without messages) -/
theorem chanAt_step (s : State) (op : Nsq.Model.ChanNsqd.Op) (t c : Nat) :
    CEff s.conf.chan (chanAt s t c) (chanAt (Nsq.Model.ChanNsqd.step s op).1 t c) := by
  have hpub : ∀ (t' : Nat) (f : Topic → Topic) (s' : State), (∀ y, (f y).tid = y.tid) → (∀ y, (f y).chans = y.chans) →
      s'.topics = updT (ensureTopic s t').topics t' f → CEff s.conf.chan (chanAt s t c) (chanAt s' t c) := by
    intro t' f s' h1 h2 h3
    rw [chanAt_updT_same h1 h2 h3, chanAt_ensure]
    exact .same _
  have hfld : ∀ (t' : Nat) (f : Topic → Topic) (s' : State), (∀ y, (f y).tid = y.tid) → (∀ y, (f y).chans = y.chans) →
      s'.topics = updT s.topics t' f → CEff s.conf.chan (chanAt s t c) (chanAt s' t c) := by
    intro t' f s' h1 h2 h3
    rw [chanAt_updT_same h1 h2 h3]
    exact .same _
  cases op with
  | createTopic t' => simp only [Nsq.Model.ChanNsqd.step]; rw [chanAt_ensure]; exact .same _
  | createChanRaw t' c' eph =>
    -- same as `doCreateChan` without the snapshot refresh
    simp only [Nsq.Model.ChanNsqd.step]
    rw [← chanAt_ensure s t' t c]
    generalize ensureTopic s t' = s1
    cases h1 : findT s1.topics t' with
    | none => exact .same _
    | some tp =>
      dsimp only
      cases h2 : findN tp.chans c' with
      | some _ => exact .same _
      | none =>
        dsimp only
        unfold chanAt; dsimp only
        rw [chanAtL_updT]
        rotate_left
        · intro _; rfl
        unfold chanAtL
        cases h3 : findT s1.topics t with
        | none => exact .same _
        | some y =>
          simp only [Option.bind_some]
          by_cases ht : t = t'
          · subst ht
            rw [h1] at h3; cases h3
            simp only [↓reduceIte]
            cases h4 : findN tp.chans c with
            | some x => rw [findN_append_some _ h4]; exact .same _
            | none =>
              rw [findN_append_none _ h4]
              dsimp only
              split
              · exact .created _ (newChan_msgs _ _)
              · exact .same _
          · simp only [ht, ↓reduceIte]; exact .same _
  | refreshPump t' => exact hfld t' (fun tp => { tp with pump := tp.chans.map (·.cid) }) _ (fun _ => rfl) (fun _ => rfl) rfl
  | createChan t' c' eph => exact chanAt_doCreateChan s t' c' eph t c
  | sub k t' c' eph mt sample =>
    simp only [Nsq.Model.ChanNsqd.step]
    split
    · exact .same _
    · have hconf : (doCreateChan s t' c' eph).1.conf = s.conf := by
        unfold doCreateChan
        dsimp only
        split
        · exact ensure_conf s t'
        · split
          · exact ensure_conf s t'
          · exact ensure_conf s t'
      have key : CEff s.conf.chan (chanAt s t c)
          (chanAt (chanStep (doCreateChan s t' c' eph).1 t' c' (.addClient k mt sample)).1 t c) := by
        rcases chanAt_chanStep' (doCreateChan s t' c' eph).1 t' c' (.addClient k mt sample) t c with h2 | ⟨ch, h2, h3⟩
        · rw [h2]; exact chanAt_doCreateChan s t' c' eph t c
        · rw [h3, hconf]
          rcases chanAt_doCreateChan' s t' c' eph t c with h1 | ⟨h1, ch0, h4, h5⟩
          · rw [← h1, h2]; exact .stepped _ _
          · rw [h1]
            rw [h4] at h2; cases h2
            exact .created _ (by rw [addClient_msgs]; exact h5)
      split
      · exact key
      · exact chanAt_doCreateChan s t' c' eph t c
  | disconnect k =>
    simp only [Nsq.Model.ChanNsqd.step]
    cases h1 : findS s.subs k with
    | none => exact .same _
    | some sb =>
      dsimp only
      have hc := chanAt_chanStep s sb.tid sb.cid (.removeClient k) t c
      apply hc.to_gone_or
      exact chanAt_reap (s := removeSub (chanStep s sb.tid sb.cid (.removeClient k)).1 k) (t' := sb.tid) (c' := sb.cid) rfl t c
  | rdy k n =>
    cases n with
    | some v => exact chanAt_connStep s k _ t c
    | none =>
      simp only [Nsq.Model.ChanNsqd.step]
      cases h1 : findS s.subs k with
      | none => exact .same _
      | some sb =>
        dsimp only
        exact ceff_ite t c _ (.same _) (chanAt_connStep s k _ t c)
  | cls k => exact chanAt_connStep s k _ t c
  | pub t' size env =>
    exact hpub t' (pubF (ensureTopic s t').nextId size 0 env) _ (fun _ => rfl) (fun _ => rfl) rfl
  | dpub t' size delay env =>
    exact hpub t' (pubF (ensureTopic s t').nextId size delay env) _ (fun _ => rfl) (fun _ => rfl) rfl
  | mpub t' sizes envs =>
    exact hpub t' (mpubF (ensureTopic s t').nextId sizes envs) _
      (fun y => (putMany_tid_chans y _ sizes envs).1) (fun y => (putMany_tid_chans y _ sizes envs).2) rfl
  | mpubFail t' sizes j envs =>
    simp only [Nsq.Model.ChanNsqd.step]
    split
    · rw [chanAt_ensure]; exact .same _
    · exact hpub t' (mpubFailF (ensureTopic s t').nextId sizes j envs) _
        (fun y => (putMany_tid_chans y _ _ envs).1) (fun y => (putMany_tid_chans y _ _ envs).2) rfl
  | pumpTopic t' id kept pris =>
    simp only [Nsq.Model.ChanNsqd.step]
    cases h1 : findT s.topics t' with
    | none => exact .same _
    | some tp =>
      dsimp only
      split
      · exact .same _
      · cases h2 : tp.queue.find? (fun m => m.id == id) with
        | none => exact .same _
        | some m =>
          dsimp only
          split
          · exact .same _
          · unfold chanAt; dsimp only
            rw [chanAtL_updT]
            rotate_left
            · intro _; rfl
            unfold chanAtL
            cases h3 : findT s.topics t with
            | none => exact .same _
            | some y =>
              simp only [Option.bind_some]
              by_cases ht : t = t'
              · simp only [ht, ↓reduceIte, pumpF]
                rw [findN_map _ _ _ (fanOne_cid _ _ _ _ _)]
                cases h4 : findN y.chans c with
                | none => exact .same _
                | some x =>
                  simp only [Option.map_some]
                  rcases fanOne_ch s.conf y.pump m kept pris x with h | ⟨op, h⟩
                  · rw [h]; exact .same _
                  · rw [h]; exact .stepped _ _
              · simp only [ht, ↓reduceIte]; exact .same _
  | deliver k id now => exact chanAt_connStep s k _ t c
  | sampleDrop k id => exact chanAt_connStep s k _ t c
  | fin k id => exact chanAt_connStep s k _ t c
  | finChan k id => exact chanAt_connStep s k _ t c
  | finClient k => exact chanAt_connStep s k _ t c
  | guard k => exact chanAt_connStep s k _ t c
  | deliverArmed k id now => exact chanAt_connStep s k _ t c
  | req k id delay now => exact chanAt_connStep s k _ t c
  | touch k id now => exact chanAt_connStep s k _ t c
  | scanInFlight t' c' time => exact chanAt_chanStep s t' c' _ t c
  | scanDeferred t' c' time => exact chanAt_chanStep s t' c' _ t c
  | pauseChan t' c' => exact chanAt_chanStep s t' c' _ t c
  | unpauseChan t' c' => exact chanAt_chanStep s t' c' _ t c
  | emptyChan t' c' => exact chanAt_chanStep s t' c' _ t c
  | resplit t' c' m d => exact chanAt_chanStep s t' c' _ t c
  | pauseTopic t' =>
    simp only [Nsq.Model.ChanNsqd.step]
    split
    · exact .same _
    · exact hfld t' (fun tp => { tp with paused := true }) _ (fun _ => rfl) (fun _ => rfl) rfl
  | unpauseTopic t' =>
    simp only [Nsq.Model.ChanNsqd.step]
    split
    · exact .same _
    · exact hfld t' (fun tp => { tp with paused := false }) _ (fun _ => rfl) (fun _ => rfl) rfl

/-! ### the location of one message on one channel under any nsqd-level step -/

/-- the step recorded a delivery of `id` on channel `(t, c)` -/
def NDeliv (s s' : State) (t c id : Nat) : Prop :=
  ∃ ch ch' k att, chanAt s t c = some ch ∧ chanAt s' t c = some ch' ∧ ch'.hist = Ev.deliver k id att :: ch.hist

theorem move_of_ceff {conf : Conf} {a b : Option Chan} (h : CEff conf a b) (id : Nat) :
    Move (∃ ch ch' k att, a = some ch ∧ b = some ch' ∧ ch'.hist = Ev.deliver k id att :: ch.hist)
      (a.bind (fun ch => locOf ch id)) (b.bind (fun ch => locOf ch id)) := by
  cases h with
  | same => inl_rfl
  | stepped ch op =>
    simp only [Option.bind_some]
    exact (step_move conf ch op id).mono (fun ⟨k, att, h⟩ => ⟨ch, _, k, att, rfl, rfl, h⟩)
  | gone => exact move_none _
  | created ch hm =>
    left
    simp only [Option.bind_some, Option.bind_none, locOf, findE, hm, List.find?_nil, Option.map_none]

/-- ANY nsqd-level step moves the location of ANY message on ANY channel along the graph `trans`
(a channel that is reaped owns nothing any more; a channel that is created owns nothing yet), and
`queued → in flight` happens only in a step that records the delivery on that channel -/
theorem nstep_move (s : State) (op : Nsq.Model.ChanNsqd.Op) (t c id : Nat) :
    Move (NDeliv s (Nsq.Model.ChanNsqd.step s op).1 t c id) (nloc s t c id) (nloc (Nsq.Model.ChanNsqd.step s op).1 t c id) :=
  move_of_ceff (chanAt_step s op t c) id

/-! ### scans at the nsqd level -/

theorem chanAt_chanStep_self {s : State} {t c : Nat} {ch : Chan} (op : Nsq.Model.Chan.Op) (h : chanAt s t c = some ch) :
    chanAt (chanStep s t c op).1 t c = some (Nsq.Model.Chan.step s.conf.chan ch op).1 := by
  rcases chanAt_chanStep' s t c op t c with h' | ⟨ch', h1, h2⟩
  · -- impossible unless the step is the identity on the channel: re-derive from the definition
    unfold chanAt chanAtL at h
    cases h1 : findT s.topics t with
    | none => simp [h1] at h
    | some tp =>
      simp only [h1, Option.bind_some] at h
      cases h2 : findN tp.chans c with
      | none => simp [h2] at h
      | some nc =>
        simp only [h2, Option.map_some, Option.some.injEq] at h
        subst h
        have hy := (findT_some h1).2
        have hx := (findN_some h2).2
        unfold chanStep
        simp only [h1, h2]
        unfold chanAt; dsimp only
        rw [chanAtL_updT]
        rotate_left
        · intro _; rfl
        simp only [h1, Option.bind_some, ↓reduceIte, findN_updN, h2, Option.map_some, hx, beq_self_eq_true]
  · rw [h] at h1; cases h1; exact h2

theorem scanInFlight_releases_state (conf : Conf) (ch : Chan) (id : Nat) {t : Int} {k : Nat} {p d : Int}
    (hl : locOf ch id = some (.inflight k p d)) (hp : p ≤ t) :
    locOf (Nsq.Model.Chan.step conf ch (.scanInFlight t)).1 id = some .queued ∨
    locOf (Nsq.Model.Chan.step conf ch (.scanInFlight t)).1 id = none := by
  simp only [Nsq.Model.Chan.step]
  apply foldl_timeoutOne_releases _ _ _ _ ⟨k, p, d, hl⟩
  simp only [locOf] at hl
  cases hf : findE ch.msgs id with
  | none => simp [hf] at hl
  | some e =>
    obtain ⟨he, hid⟩ := findE_some hf
    have hl' : e.loc = .inflight k p d := by simpa [hf] using hl
    rw [← hid]
    unfold dueInflight
    simp only [List.mem_map]
    refine ⟨e, mem_sortByPri.2 (List.mem_filter.2 ⟨he, ?_⟩), rfl⟩
    simp [isInflight, priOf, hl', hp]

theorem scanDeferred_releases_state (conf : Conf) (ch : Chan) (id : Nat) {t : Int} {p : Int}
    (hl : locOf ch id = some (.deferred p)) (hp : p ≤ t) :
    locOf (Nsq.Model.Chan.step conf ch (.scanDeferred t)).1 id = some .queued ∨
    locOf (Nsq.Model.Chan.step conf ch (.scanDeferred t)).1 id = none := by
  simp only [Nsq.Model.Chan.step]
  apply foldl_deferDueOne_releases _ _ _ _ ⟨p, hl⟩
  simp only [locOf] at hl
  cases hf : findE ch.msgs id with
  | none => simp [hf] at hl
  | some e =>
    obtain ⟨he, hid⟩ := findE_some hf
    have hl' : e.loc = .deferred p := by simpa [hf] using hl
    rw [← hid]
    unfold dueDeferred
    simp only [List.mem_map]
    refine ⟨e, mem_sortByPri.2 (List.mem_filter.2 ⟨he, ?_⟩), rfl⟩
    simp [isDeferred, priOf, hl', hp]

theorem nloc_some {s : State} {t c id : Nat} {l : Loc} (h : nloc s t c id = some l) :
    ∃ ch, chanAt s t c = some ch ∧ locOf ch id = some l := by
  unfold nloc at h
  cases hc : chanAt s t c with
  | none => simp [hc] at h
  | some ch => exact ⟨ch, rfl, by simpa [hc] using h⟩

theorem nscanInFlight_releases (s : State) (t c id : Nat) {time : Int} {k : Nat} {p d : Int}
    (hl : nloc s t c id = some (.inflight k p d)) (hp : p ≤ time) :
    nloc (Nsq.Model.ChanNsqd.step s (.scanInFlight t c time)).1 t c id = some .queued ∨
    nloc (Nsq.Model.ChanNsqd.step s (.scanInFlight t c time)).1 t c id = none := by
  obtain ⟨ch, hc, hl'⟩ := nloc_some hl
  simp only [Nsq.Model.ChanNsqd.step]
  unfold nloc
  rw [chanAt_chanStep_self _ hc]
  exact scanInFlight_releases_state s.conf.chan ch id hl' hp

theorem nscanDeferred_releases (s : State) (t c id : Nat) {time : Int} {p : Int}
    (hl : nloc s t c id = some (.deferred p)) (hp : p ≤ time) :
    nloc (Nsq.Model.ChanNsqd.step s (.scanDeferred t c time)).1 t c id = some .queued ∨
    nloc (Nsq.Model.ChanNsqd.step s (.scanDeferred t c time)).1 t c id = none := by
  obtain ⟨ch, hc, hl'⟩ := nloc_some hl
  simp only [Nsq.Model.ChanNsqd.step]
  unfold nloc
  rw [chanAt_chanStep_self _ hc]
  exact scanDeferred_releases_state s.conf.chan ch id hl' hp

/-! ### the topic queue: a message leaves it only through its own fan-out -/

/-- everything queued on any topic stays queued -/
def QKeepL (l l' : List Topic) : Prop :=
  ∀ t tp, findT l t = some tp → ∃ tp', findT l' t = some tp' ∧ ∀ m ∈ tp.queue, m ∈ tp'.queue

def QKeep (s s' : State) : Prop := QKeepL s.topics s'.topics

theorem qkeep_refl (s : State) : QKeep s s := fun _ tp h => ⟨tp, h, fun _ hm => hm⟩

theorem qkeep_trans {a b c : State} (h1 : QKeep a b) (h2 : QKeep b c) : QKeep a c := by
  intro t tp h
  obtain ⟨tp1, h3, h4⟩ := h1 t tp h
  obtain ⟨tp2, h5, h6⟩ := h2 t tp1 h3
  exact ⟨tp2, h5, fun m hm => h6 m (h4 m hm)⟩

theorem qkeepL_updT (l : List Topic) (t' : Nat) (f : Topic → Topic) (hf : ∀ y, (f y).tid = y.tid)
    (hq : ∀ y, ∀ m ∈ y.queue, m ∈ (f y).queue) : QKeepL l (updT l t' f) := by
  intro t tp h
  rw [findT_updT _ _ _ _ hf, h]
  simp only [Option.map_some]
  refine ⟨_, rfl, ?_⟩
  split
  · exact hq tp
  · exact fun m hm => hm

/-- close `QKeep s s'` when `s'.topics` reduces to `updT s.topics t' f` for a record update `f` that keeps the queue -/
macro "qk_updT" : tactic =>
  `(tactic| (unfold QKeep; dsimp only; exact qkeepL_updT _ _ _ (fun _ => rfl) (fun _ _ hm => hm)))

theorem qkeep_ensure (s : State) (t' : Nat) : QKeep s (ensureTopic s t') :=
  fun _ tp h => ⟨tp, findT_ensure_some t' h, fun _ hm => hm⟩

theorem qkeep_chanStep (s : State) (t' c' : Nat) (op : Nsq.Model.Chan.Op) : QKeep s (chanStep s t' c' op).1 := by
  unfold chanStep
  split
  · exact qkeep_refl s
  · split
    · exact qkeep_refl s
    · qk_updT

theorem reap_tid (y : Topic) (c : Nat) : (reapEphemeral y c).tid = y.tid := by
  unfold reapEphemeral; split
  · split <;> rfl
  · rfl

theorem reap_queue (y : Topic) (c : Nat) : (reapEphemeral y c).queue = y.queue := by
  unfold reapEphemeral; split
  · split <;> rfl
  · rfl

theorem qkeep_reap (s : State) (t' c' : Nat) (subs : List Sub) :
    QKeep s { s with subs := subs, topics := updT s.topics t' (fun tp => reapEphemeral tp c') } := by
  unfold QKeep; dsimp only
  exact qkeepL_updT _ _ _ (fun y => reap_tid y _) (fun y m hm => by rw [reap_queue]; exact hm)

theorem qkeep_connStep (s : State) (k : Nat) (op : Nsq.Model.Chan.Op) : QKeep s (connStep s k op).1 := by
  unfold connStep
  split
  · exact qkeep_refl s
  · dsimp only
    split
    · apply qkeep_trans (qkeep_chanStep s _ _ op)
      unfold QKeep; dsimp only [removeSub]
      exact qkeepL_updT _ _ _ (fun y => reap_tid y _) (fun y m hm => by rw [reap_queue]; exact hm)
    · exact qkeep_chanStep s _ _ op

theorem qkeep_doCreateChan (s : State) (t' c' : Nat) (eph : Bool) : QKeep s (doCreateChan s t' c' eph).1 := by
  unfold doCreateChan
  dsimp only
  apply qkeep_trans (qkeep_ensure s t')
  split
  · exact qkeep_refl _
  · split
    · exact qkeep_refl _
    · qk_updT

theorem putT_queue (t : Topic) (id sz d : Nat) (env : Env) : ∀ m ∈ t.queue, m ∈ (putT t id sz d env).queue := by
  intro m hm; unfold putT; exact List.mem_cons_of_mem _ hm

theorem putMany_queue (t : Topic) (id : Nat) (sizes : List Nat) (envs : List Env) :
    ∀ m ∈ t.queue, m ∈ (putMany t id sizes envs).queue := by
  induction sizes generalizing t id envs with
  | nil => intro m hm; exact hm
  | cons sz rest ih =>
    intro m hm
    unfold putMany
    exact ih _ _ _ m (putT_queue t id sz 0 _ m hm)

theorem qkeep_ite (s : State) (b : Bool) {x y : State × Out} (hx : QKeep s x.1) (hy : QKeep s y.1) :
    QKeep s (if b = true then x else y).1 := by
  cases b <;> simpa

/-- every step other than a fan-out keeps every topic queue (it may add to it) -/
theorem qkeep_step (s : State) (op : Nsq.Model.ChanNsqd.Op) (hop : ∀ t id kept pris, op ≠ .pumpTopic t id kept pris) :
    QKeep s (Nsq.Model.ChanNsqd.step s op).1 := by
  have hpub : ∀ (t' : Nat) (f : Topic → Topic) (s' : State), (∀ y, (f y).tid = y.tid) →
      (∀ y, ∀ m ∈ y.queue, m ∈ (f y).queue) → s'.topics = updT (ensureTopic s t').topics t' f → QKeep s s' := by
    intro t' f s' h1 h2 h3
    apply qkeep_trans (qkeep_ensure s t')
    unfold QKeep
    rw [h3]
    exact qkeepL_updT _ _ _ h1 h2
  cases op with
  | pumpTopic t id kept pris => exact absurd rfl (hop t id kept pris)
  | createTopic t' => exact qkeep_ensure s t'
  | createChanRaw t' c' eph =>
    simp only [Nsq.Model.ChanNsqd.step]
    apply qkeep_trans (qkeep_ensure s t')
    split
    · exact qkeep_refl _
    · split
      · exact qkeep_refl _
      · qk_updT
  | refreshPump t' => simp only [Nsq.Model.ChanNsqd.step]; qk_updT
  | createChan t' c' eph => exact qkeep_doCreateChan s t' c' eph
  | sub k t' c' eph mt sample =>
    simp only [Nsq.Model.ChanNsqd.step]
    split
    · exact qkeep_refl s
    · split
      · exact qkeep_trans (qkeep_doCreateChan s t' c' eph) (qkeep_trans (qkeep_chanStep _ t' c' _) (fun t tp h => ⟨tp, h, fun _ hm => hm⟩))
      · exact qkeep_doCreateChan s t' c' eph
  | disconnect k =>
    simp only [Nsq.Model.ChanNsqd.step]
    split
    · exact qkeep_refl s
    · dsimp only
      apply qkeep_trans (qkeep_chanStep s _ _ _)
      unfold QKeep; dsimp only [removeSub]
      exact qkeepL_updT _ _ _ (fun y => reap_tid y _) (fun y m hm => by rw [reap_queue]; exact hm)
  | rdy k n =>
    cases n with
    | some v => exact qkeep_connStep s k _
    | none =>
      simp only [Nsq.Model.ChanNsqd.step]
      split
      · exact qkeep_refl s
      · exact qkeep_ite s _ (qkeep_refl s) (qkeep_connStep s k _)
  | cls k => exact qkeep_connStep s k _
  | pub t' size env =>
    exact hpub t' (pubF (ensureTopic s t').nextId size 0 env) _ (fun _ => rfl)
      (fun y m hm => putT_queue y (ensureTopic s t').nextId size 0 env m hm) rfl
  | dpub t' size delay env =>
    exact hpub t' (pubF (ensureTopic s t').nextId size delay env) _ (fun _ => rfl)
      (fun y m hm => putT_queue y (ensureTopic s t').nextId size delay env m hm) rfl
  | mpub t' sizes envs =>
    exact hpub t' (mpubF (ensureTopic s t').nextId sizes envs) _
      (fun y => (putMany_tid_chans y _ sizes envs).1) (fun y m hm => putMany_queue y _ sizes envs m hm) rfl
  | mpubFail t' sizes j envs =>
    simp only [Nsq.Model.ChanNsqd.step]
    split
    · exact qkeep_ensure s t'
    · exact hpub t' (mpubFailF (ensureTopic s t').nextId sizes j envs) _
        (fun y => (putMany_tid_chans y _ _ envs).1) (fun y m hm => putMany_queue y _ _ envs m hm) rfl
  | deliver k id now => exact qkeep_connStep s k _
  | sampleDrop k id => exact qkeep_connStep s k _
  | fin k id => exact qkeep_connStep s k _
  | finChan k id => exact qkeep_connStep s k _
  | finClient k => exact qkeep_connStep s k _
  | guard k => exact qkeep_connStep s k _
  | deliverArmed k id now => exact qkeep_connStep s k _
  | req k id delay now => exact qkeep_connStep s k _
  | touch k id now => exact qkeep_connStep s k _
  | scanInFlight t' c' time => exact qkeep_chanStep s t' c' _
  | scanDeferred t' c' time => exact qkeep_chanStep s t' c' _
  | pauseChan t' c' => exact qkeep_chanStep s t' c' _
  | unpauseChan t' c' => exact qkeep_chanStep s t' c' _
  | emptyChan t' c' => exact qkeep_chanStep s t' c' _
  | resplit t' c' m d => exact qkeep_chanStep s t' c' _
  | pauseTopic t' =>
    simp only [Nsq.Model.ChanNsqd.step]
    split
    · exact qkeep_refl s
    · qk_updT
  | unpauseTopic t' =>
    simp only [Nsq.Model.ChanNsqd.step]
    split
    · exact qkeep_refl s
    · qk_updT

theorem inTQ_of_qkeep {s s' : State} (h : QKeep s s') {t id : Nat} (hq : inTQ s t id) : inTQ s' t id := by
  obtain ⟨tp, h1, h2⟩ := hq
  obtain ⟨tp', h3, h4⟩ := h t tp h1
  obtain ⟨m, hm, rfl⟩ := List.mem_map.1 h2
  exact ⟨tp', h3, List.mem_map.2 ⟨m, h4 m hm, rfl⟩⟩

/-- the accepted fan-out of message `id` of topic `t`: the pump is enabled, the message is in the
queue, and the step is the one that hands it to the channels -/
def PumpAccepted (s : State) (op : Nsq.Model.ChanNsqd.Op) (t id : Nat) : Prop :=
  ∃ kept pris tp m, op = .pumpTopic t id kept pris ∧ findT s.topics t = some tp ∧ pumpEnabled tp = true ∧
    m ∈ tp.queue ∧ m.id = id ∧
    (Nsq.Model.ChanNsqd.step s op).1.topics = updT s.topics t (pumpF s.conf id m kept pris)

/-- **a message leaves the topic queue only through its own accepted fan-out step** -/
theorem tq_unless (s : State) (op : Nsq.Model.ChanNsqd.Op) (t id : Nat) (h : inTQ s t id) :
    inTQ (Nsq.Model.ChanNsqd.step s op).1 t id ∨ PumpAccepted s op t id := by
  by_cases hop : ∀ t' id' kept pris, op ≠ .pumpTopic t' id' kept pris
  · exact Or.inl (inTQ_of_qkeep (qkeep_step s op hop) h)
  · have : ∃ t' id' kept pris, op = .pumpTopic t' id' kept pris := by
      apply Classical.byContradiction
      intro hn
      apply hop
      intro t' id' kept pris he
      exact hn ⟨t', id', kept, pris, he⟩
    obtain ⟨t', id', kept, pris, rfl⟩ := this
    obtain ⟨tp, h1, h2⟩ := h
    simp only [Nsq.Model.ChanNsqd.step]
    cases h3 : findT s.topics t' with
    | none => exact Or.inl ⟨tp, h1, h2⟩
    | some tp' =>
      simp only []
      by_cases hpe : pumpEnabled tp' = true
      · simp only [hpe, Bool.not_true, Bool.false_eq_true, ↓reduceIte]
        cases h4 : tp'.queue.find? (fun m => m.id == id') with
        | none => exact Or.inl ⟨tp, h1, h2⟩
        | some m =>
          simp only []
          by_cases hk : keptAllowed m kept = true
          · simp only [hk, Bool.not_true, Bool.false_eq_true, ↓reduceIte]
            by_cases hsame : t' = t ∧ id' = id
            · obtain ⟨rfl, rfl⟩ := hsame
              right
              rw [h1] at h3; cases h3
              have hm := List.mem_of_find?_eq_some h4
              have hid : m.id = id' := by have := List.find?_some h4; simpa using this
              refine ⟨kept, pris, tp, m, rfl, h1, hpe, hm, hid, ?_⟩
              simp only [Nsq.Model.ChanNsqd.step, h1, hpe, h4, hk, Bool.not_true, Bool.false_eq_true, ↓reduceIte]
              rfl
            · left
              unfold inTQ
              show ∃ tp0, findT (updT s.topics t' _) t = some tp0 ∧ _
              rw [findT_updT, h1]
              rotate_left
              · intro _; rfl
              simp only [Option.map_some]
              refine ⟨_, rfl, ?_⟩
              have htid := (findT_some h1).2
              by_cases ht : t' = t
              · subst ht
                have hne : id' ≠ id := fun he => hsame ⟨rfl, he⟩
                simp only [htid, beq_self_eq_true, ↓reduceIte]
                rw [mem_filter_ne_id]
                exact ⟨h2, fun he => hne he.symm⟩
              · have : (tp.tid == t') = false := by simp [htid]; exact fun he => ht he.symm
                simp only [this, Bool.false_eq_true, ↓reduceIte]
                exact h2
          · simp only [hk, Bool.not_false, ↓reduceIte]; exact Or.inl ⟨tp, h1, h2⟩
      · simp only [hpe, Bool.not_false, ↓reduceIte]; exact Or.inl ⟨tp, h1, h2⟩

/-- what the accepted fan-out does (in a state satisfying the nsqd invariant): EVERY channel of the
topic — the pump's snapshot is the channel map — has the `fanout` event afterwards, and the message
is out of the topic queue -/
theorem pump_fans_out {s : State} (hi : NInv s) {op : Nsq.Model.ChanNsqd.Op} {t id : Nat} (h : PumpAccepted s op t id)
    {c : Nat} {ch : Chan} (hc : chanAt s t c = some ch) :
    ∃ ch', chanAt (Nsq.Model.ChanNsqd.step s op).1 t c = some ch' ∧ nFanout ch'.hist id = nFanout ch.hist id + 1 ∧
      nFanout ch.hist id = 0 := by
  obtain ⟨kept, pris, tp, m, rfl, h1, _, hm, hid, hs⟩ := h
  have htp := (findT_some h1).1
  have hti := hi.topics tp htp
  rw [chanAt_updT (f := pumpF s.conf id m kept pris) (fun _ => rfl) hs]
  unfold chanAt chanAtL at hc
  simp only [h1, Option.bind_some, ↓reduceIte] at hc ⊢
  show ∃ ch', Option.map (fun x => x.ch) (findN (tp.chans.map (fanOne s.conf tp.pump m kept pris)) c) = some ch' ∧ _
  rw [findN_map _ _ _ (fanOne_cid _ _ _ _ _)]
  cases h4 : findN tp.chans c with
  | none => simp [h4] at hc
  | some nc =>
    simp only [h4, Option.map_some, Option.some.injEq] at hc
    subst hc
    obtain ⟨hnc, hcid⟩ := findN_some h4
    have hmq : m.id ∈ tp.queue.map (·.id) := List.mem_map.2 ⟨m, hm, rfl⟩
    have hqn := hti.qnodup
    rw [List.nodup_append] at hqn
    have hnotp : m.id ∉ tp.pumped := fun h => hqn.2.2 m.id hmq m.id h rfl
    have hnew : nFanout nc.ch.hist m.id = 0 := by
      apply Classical.byContradiction
      intro hne
      exact hnotp (hti.only nc hnc m.id hne)
    obtain ⟨_, _, _, hf, _⟩ := fanOne_spec s.conf tp.pump m kept pris (hti.chans nc hnc) hnew (hti.cenv nc hnc)
    refine ⟨_, rfl, ?_, hid ▸ hnew⟩
    rw [hf id]
    have : tp.pump.contains nc.cid = true := by
      rw [hti.pfresh]; simp only [List.contains_eq_mem, List.mem_map, decide_eq_true_eq]; exact ⟨nc, hnc, rfl⟩
    rw [if_pos ⟨this, hid⟩]

/-! ### the abstract leads-to argument over a trace of locations -/

section Trace
variable {loc : Nat → Option Loc} {D : Nat → Prop} {R : Nat → Prop}

/-- `Nsq.Props.C01Live.eventually_delivered` with the model factored out: a trace of locations that
moves along `trans` (deliveries marked by `D`), release of an in-flight / deferred message infinitely
often attempted, strong fairness of "taken off the queue" w.r.t. "queued while `R`" and `R` infinitely
often give: located at `n` ⇒ delivered at some `j ≥ n`, or not located at `j + 1`. -/
theorem trace_eventually_delivered
    (hmove : ∀ n, Move (D n) (loc n) (loc (n + 1)))
    (hI : ∀ n, ∃ m, n ≤ m ∧ ((¬ ∃ k p d, loc m = some (.inflight k p d)) ∨ (loc (m + 1) = some .queued ∨ loc (m + 1) = none)))
    (hD : ∀ n, ∃ m, n ≤ m ∧ ((¬ ∃ p, loc m = some (.deferred p)) ∨ (loc (m + 1) = some .queued ∨ loc (m + 1) = none)))
    (hT : (∀ n, ∃ m, n ≤ m ∧ loc m = some .queued ∧ R m) → ∀ n, ∃ m, n ≤ m ∧ loc m = some .queued ∧ loc (m + 1) ≠ some .queued)
    (hR : ∀ n, ∃ m, n ≤ m ∧ R m)
    {n : Nat} (h : loc n ≠ none) : ∃ j, n ≤ j ∧ (D j ∨ loc (j + 1) = none) := by
  -- queued unless delivered / gone
  have qun : ∀ m, loc m = some .queued → loc (m + 1) = some .queued ∨ (D m ∨ loc (m + 1) = none) := by
    intro m hq
    by_cases hq' : loc (m + 1) = some .queued
    · exact Or.inl hq'
    · right
      rcases hmove m with h1 | ⟨_, h2⟩
      · exact absurd (h1.trans hq) hq'
      · by_cases hg : loc (m + 1) = none
        · exact Or.inr hg
        · exact Or.inl (h2 hq hg)
  have fromQ : ∀ m, n ≤ m → loc m = some .queued → ∃ j, n ≤ j ∧ (D j ∨ loc (j + 1) = none) := by
    intro m hm hq
    have key : ∃ m', m < m' ∧ ∃ j, j + 1 = m' ∧ (D j ∨ loc (j + 1) = none) := by
      apply leadsto (P := fun m => loc m = some .queued)
        (Q := fun m => ∃ j, j + 1 = m ∧ (D j ∨ loc (j + 1) = none)) _ _ hq
      · intro m' hm'
        rcases qun m' hm' with h' | h'
        · exact Or.inl h'
        · exact Or.inr ⟨m', rfl, h'⟩
      · intro n'
        by_cases hex : ∃ m', n' ≤ m' ∧ ¬ loc m' = some .queued
        · obtain ⟨m', hm', hq'⟩ := hex
          exact ⟨m', hm', Or.inl hq'⟩
        · exfalso
          have hall : ∀ m', n' ≤ m' → loc m' = some .queued := by
            intro m' hm'
            apply Classical.byContradiction
            intro hq'; exact hex ⟨m', hm', hq'⟩
          have hen : ∀ n2, ∃ m', n2 ≤ m' ∧ loc m' = some .queued ∧ R m' := by
            intro n2
            obtain ⟨m', hm', hr⟩ := hR (max n2 n')
            exact ⟨m', by omega, hall m' (by omega), hr⟩
          obtain ⟨m', hm', _, hq2⟩ := hT hen n'
          exact hq2 (hall (m' + 1) (by omega))
    obtain ⟨m', _, j, hj, hq'⟩ := key
    exact ⟨j, by omega, hq'⟩
  have fromG : ∀ m, n < m → loc m = none → ∃ j, n ≤ j ∧ (D j ∨ loc (j + 1) = none) := by
    intro m hm hg
    obtain ⟨j, rfl⟩ : ∃ j, m = j + 1 := ⟨m - 1, by omega⟩
    exact ⟨j, by omega, Or.inr hg⟩
  have fromD : ∀ m, n ≤ m → (∃ p, loc m = some (.deferred p)) → ∃ j, n ≤ j ∧ (D j ∨ loc (j + 1) = none) := by
    intro m hm hd
    have : ∃ m', m < m' ∧ (loc m' = some .queued ∨ loc m' = none) := by
      apply leadsto (P := fun m => ∃ p, loc m = some (.deferred p)) _ _ hd
      · intro m' ⟨p, hp⟩
        rcases hmove m' with h1 | ⟨h1, _⟩
        · exact Or.inl ⟨p, h1.trans hp⟩
        · rw [hp] at h1
          cases hb : loc (m' + 1) with
          | none => exact Or.inr (Or.inr rfl)
          | some l =>
            cases l with
            | queued => exact Or.inr (Or.inl rfl)
            | inflight k p' d => rw [hb] at h1; simp [Nsq.Proofs.ChanLive.trans] at h1
            | deferred p' => rw [hb] at h1; simp [Nsq.Proofs.ChanLive.trans] at h1
      · intro n'
        obtain ⟨m', hm', hc⟩ := hD n'
        exact ⟨m', hm', hc⟩
    obtain ⟨m', hm', h'⟩ := this
    rcases h' with h' | h'
    · exact fromQ m' (by omega) h'
    · exact fromG m' (by omega) h'
  cases hl : loc n with
  | none => exact absurd hl h
  | some l =>
    cases l with
    | queued => exact fromQ n (Nat.le_refl n) hl
    | deferred p => exact fromD n (Nat.le_refl n) ⟨p, hl⟩
    | inflight k p d =>
      have : ∃ m', n < m' ∧ (loc m' = some .queued ∨ (∃ p, loc m' = some (.deferred p)) ∨ loc m' = none) := by
        apply leadsto (P := fun m => ∃ k p d, loc m = some (.inflight k p d)) _ _ ⟨k, p, d, hl⟩
        · intro m' _
          cases hb : loc (m' + 1) with
          | none => exact Or.inr (Or.inr (Or.inr rfl))
          | some l =>
            cases l with
            | queued => exact Or.inr (Or.inl rfl)
            | inflight k p d => exact Or.inl ⟨k, p, d, rfl⟩
            | deferred p => exact Or.inr (Or.inr (Or.inl ⟨p, rfl⟩))
        · intro n'
          obtain ⟨m', hm', hc⟩ := hI n'
          refine ⟨m', hm', ?_⟩
          rcases hc with hc | hc | hc
          · exact Or.inl hc
          · exact Or.inr (Or.inl hc)
          · exact Or.inr (Or.inr (Or.inr hc))
      obtain ⟨m', hm', h'⟩ := this
      rcases h' with h' | h' | h'
      · exact fromQ m' (by omega) h'
      · exact fromD m' (by omega) h'
      · exact fromG m' hm' h'

end Trace

/-- from the channel invariant: a fanned-out message the channel no longer owns was removed by one of
the four removal events (`finOk`, `emptied`, `sampledOut`, `ephDrop`) -/
theorem gone_removed_of_inv {ch : Chan} (hi : Inv 0 ch) {id : Nat} (hf : nFanout ch.hist id ≠ 0)
    (hg : locOf ch id = none) : ∃ ev ∈ ch.hist, removedIn ev id = true := by
  have hr : removed ch.hist id = true := by
    cases hr : removed ch.hist id
    · exfalso
      have h1 : status ch.hist id ≠ .none := fun h' => hf ((status_none_iff hi.okh).1 h')
      have h2 : status ch.hist id ≠ .gone := by
        intro h'
        rw [(status_gone_iff hi.okh).1 h'] at hr
        cases hr
      have hex : ∃ e ∈ ch.msgs, e.id = id := by
        apply hi.core.absent
        cases hs : status ch.hist id <;> simp_all [St.located]
      obtain ⟨e, he, hid⟩ := hex
      unfold locOf at hg
      cases hfe : findE ch.msgs id with
      | none => exact findE_none hfe e he hid
      | some e' => simp [hfe] at hg
    · rfl
  simpa [removed] using hr

/-! ### infinite nsqd-level schedules -/

/-- an infinite run of the nsqd-level model: any API-level operation at any time -/
structure NExec where
  ops  : Nat → Nsq.Model.ChanNsqd.Op
  st   : Nat → State
  next : ∀ n, st (n + 1) = (Nsq.Model.ChanNsqd.step (st n) (ops n)).1
  api  : ∀ n, Op.api (ops n) = true
  inv0 : NInv (st 0)

theorem NExec.inv (ex : NExec) (n : Nat) : NInv (ex.st n) := by
  induction n with
  | zero => exact ex.inv0
  | succ n ih => rw [ex.next n]; exact nstep_inv ih _ (ex.api n)

end Nsq.Proofs.TopicLive
