import Nsq.Proofs.AdminFanout
/-!
Notifications (`notifyAdminAction`) in the handler skeletons: the decidable judgements on the regenerated
skeletons and their lifting to every run. Used by `Props.C17.notify_exact`.
-/
namespace Nsq.Proofs.AdminNotify
open Nsq.Model.AdminGate Nsq.Proofs.AdminGate Nsq.Tie.AdminGate Nsq.Proofs.AdminFanout

def notifyObs (obs : List Obs) : List String :=
  obs.filterMap (fun o => match o with | .notify a => some a | _ => none)

def notesOf (effs : List Eff) : List String :=
  effs.filterMap (fun e => match e with | .notify a => some a | _ => none)

theorem notifyObs_filterMap (effs : List Eff) : notifyObs (effs.filterMap obsOf) = notesOf effs := by
  induction effs with
  | nil => rfl
  | cons e rest ih => cases e <;> simp_all [notifyObs, notesOf, obsOf, List.filterMap_cons]

/-- The notifications a `ClusterInfo` action is announced with. -/
def noteOf (chanBody : Bool) (up : String) : List String :=
  if up == "CreateTopicChannel" then (if chanBody then ["create_topic", "create_channel"] else ["create_topic"])
  else if up == "DeleteTopic" then ["delete_topic"]
  else if up == "DeleteChannel" then ["delete_channel"]
  else if up == "TombstoneNodeForTopic" then ["tombstone_topic_producer"]
  else if up == "PauseTopic" then ["pause_topic"]
  else if up == "UnPauseTopic" then ["unpause_topic"]
  else if up == "EmptyTopic" then ["empty_topic"]
  else if up == "PauseChannel" then ["pause_channel"]
  else if up == "UnPauseChannel" then ["unpause_channel"]
  else if up == "EmptyChannel" then ["empty_channel"]
  else []

/-- When does a handler announce what it did: on success; the pause / unpause / empty handlers also when the
action ended in a non-partial error (they notify before they look at the error — what the code does). -/
def announces (handler : String) (status : Nat) : Bool :=
  status == 200 || (status == 502 && isActionHandler handler)

def notesFor (handler : String) (ups : List String) (chanBody : Bool) (status : Nat) : List String :=
  if announces handler status then ups.flatMap (noteOf chanBody) else []

def stateDep : Cond → Bool
  | .errNotNil => true
  | .errNotPartial => true
  | _ => false

def consistent (cs : List (Cond × Bool)) : Bool :=
  cs.all (fun cb => stateDep cb.1 || !cs.contains (cb.1, !cb.2))

def chanBodyOf (cs : List (Cond × Bool)) : Bool := cs.contains (.bodyFieldNonEmpty "Channel", true)
def chanBodyTested (cs : List (Cond × Bool)) : Bool :=
  cs.contains (.bodyFieldNonEmpty "Channel", true) || cs.contains (.bodyFieldNonEmpty "Channel", false)

/-- On every feasible path on which the endpoint test never fails: the notifications are exactly the ones of
the actions performed, and the path has tested what that depends on. -/
def notifyOk (handler : String) (sk : Skel) : Bool :=
  (paths sk).all (fun p =>
    !consistent p.1 || p.1.contains (.notifyOn, false) ||
      (notesOf p.2.1 == notesFor handler (upstreamsOf p.2.1) (chanBodyOf p.1) p.2.2 &&
       (!(upstreamsOf p.2.1).contains "CreateTopicChannel" || !announces handler p.2.2 || chanBodyTested p.1)))

/-- Every `notify` effect sits in the true branch of an endpoint test (`g` = inside such a branch). -/
def notifyGated : Bool → Skel → Bool
  | _, .ret _ => true
  | _, .unknown _ => true
  | g, .eff (.notify _) k => g && notifyGated false k
  | g, .eff _ k => notifyGated g k
  | _, .ite .notifyOn t e => notifyGated true t && notifyGated false e
  | g, .ite _ t e => notifyGated g t && notifyGated g e

theorem notifyGated_mono (sk : Skel) : notifyGated false sk = true → notifyGated true sk = true := by
  induction sk with
  | ret _ => intro _; rfl
  | unknown _ => intro _; rfl
  | eff e k ih => cases e <;> simp_all [notifyGated]
  | ite c t e iht ihe =>
    cases c <;> simp_all [notifyGated]

theorem notifyObs_append (a b : List Obs) : notifyObs (a ++ b) = notifyObs a ++ notifyObs b := by
  simp [notifyObs, List.filterMap_append]

/-- No endpoint configured ⇒ no notification, whatever else happens. -/
theorem notifyGated_runSt (env : Env) (hoff : env.conf.notifyOn = false) :
    ∀ (sk : Skel) (st : St), notifyGated false sk = true →
      notifyObs (runSt env sk st).2 = notifyObs st.obs.reverse := by
  intro sk
  induction sk with
  | ret _ => intro st _; rfl
  | unknown _ => intro st _; rfl
  | eff e k ih =>
    intro st hg
    cases e with
    | notify a => simp [notifyGated] at hg
    | decodeBody => simpa [runSt, doEff, notifyObs_append, notifyObs] using ih (doEff env st .decodeBody) (by simpa [notifyGated] using hg)
    | readBody => simpa [runSt, doEff, notifyObs_append, notifyObs] using ih (doEff env st .readBody) (by simpa [notifyGated] using hg)
    | upstream n => simpa [runSt, doEff, notifyObs_append, notifyObs] using ih (doEff env st (.upstream n)) (by simpa [notifyGated] using hg)
    | upstreamMany n => simpa [runSt, doEff, notifyObs_append, notifyObs] using ih (doEff env st (.upstreamMany n)) (by simpa [notifyGated] using hg)
    | configWrite => simpa [runSt, doEff, notifyObs_append, notifyObs] using ih (doEff env st .configWrite) (by simpa [notifyGated] using hg)
    | localCall n => simpa [runSt, doEff] using ih (doEff env st (.localCall n)) (by simpa [notifyGated] using hg)
    | pureCall n => simpa [runSt, doEff] using ih (doEff env st (.pureCall n)) (by simpa [notifyGated] using hg)
  | ite c t e iht ihe =>
    intro st hg
    by_cases hc : c = .notifyOn
    · subst hc
      simp only [notifyGated, Bool.and_eq_true] at hg
      simpa [runSt, evalCond, hoff] using ihe st hg.2
    · have hg' : notifyGated false t = true ∧ notifyGated false e = true := by
        cases c <;> simp_all [notifyGated]
      unfold runSt
      by_cases hev : evalCond env st c = true
      · simpa [hev] using iht st hg'.1
      · simpa [hev] using ihe st hg'.2

theorem pathHolds_consistent (env : Env) (cs : List (Cond × Bool)) (h : pathHolds env cs = true) :
    consistent cs = true := by
  simp only [consistent, List.all_eq_true, Bool.or_eq_true, Bool.not_eq_true', Prod.forall]
  intro c b hm
  by_cases hsd : stateDep c = true
  · exact Or.inl hsd
  · right
    have h1 : c ≠ .errNotNil := by intro hc; subst hc; simp [stateDep] at hsd
    have h2 : c ≠ .errNotPartial := by intro hc; subst hc; simp [stateDep] at hsd
    cases hcon : cs.contains (c, !b) with
    | false => rfl
    | true =>
      have hm2 : (c, !b) ∈ cs := by simpa using hcon
      have e1 := pathHolds_mem env cs h c b hm h1 h2
      have e2 := pathHolds_mem env cs h c (!b) hm2 h1 h2
      rw [e1] at e2
      cases b <;> simp at e2

theorem noteOf_indep (up : String) (h : up ≠ "CreateTopicChannel") (b b' : Bool) : noteOf b up = noteOf b' up := by
  unfold noteOf
  simp [h]

theorem notes_indep (ups : List String) (h : ups.contains "CreateTopicChannel" = false) (b b' : Bool) :
    ups.flatMap (noteOf b) = ups.flatMap (noteOf b') := by
  induction ups with
  | nil => rfl
  | cons u rest ih =>
    simp only [List.contains_cons, Bool.or_eq_false_iff, beq_eq_false_iff_ne, ne_eq] at h
    simp only [List.flatMap_cons]
    rw [noteOf_indep u (fun hh => h.1 hh.symm) b b', ih h.2]

/-- From the decidable path table to every run with an endpoint configured. -/
theorem notify_lift (handler : String) (sk : Skel) (hok : notifyOk handler sk = true) (env : Env)
    (hon : env.conf.notifyOn = true) :
    notifyObs (run env sk).2 =
      notesFor handler (upstreamObs (run env sk).2) (env.req.nonEmptyBody.contains "Channel") (run env sk).1 := by
  obtain ⟨p, hp, h1, h2, h3⟩ := run_follows_path env sk {}
  simp only [notifyOk, List.all_eq_true] at hok
  have hp' := hok p hp
  have hcons := pathHolds_consistent env p.1 h3
  have hnof : p.1.contains (Cond.notifyOn, false) = false := by
    cases hc : p.1.contains (Cond.notifyOn, false) with
    | false => rfl
    | true =>
      have hm : (Cond.notifyOn, false) ∈ p.1 := by simpa using hc
      have := pathHolds_mem env p.1 h3 _ _ hm (by simp) (by simp)
      simp [evalCond, hon] at this
  simp only [hcons, hnof, Bool.not_true, Bool.false_or, Bool.and_eq_true, beq_iff_eq, Bool.or_eq_true,
    Bool.not_eq_true'] at hp'
  obtain ⟨hnotes, htested⟩ := hp'
  have hobs : (run env sk).2 = p.2.1.filterMap obsOf := by simpa [run] using h2
  have hst : (run env sk).1 = p.2.2 := by simpa [run] using h1
  rw [hobs, notifyObs_filterMap, upstreamObs_filterMap, hst, hnotes]
  unfold notesFor
  by_cases hann : announces handler p.2.2 = true
  · simp only [hann, if_true]
    by_cases hcr : (upstreamsOf p.2.1).contains "CreateTopicChannel" = true
    · have ht : chanBodyTested p.1 = true := by
        rcases htested with (h | h) | h
        · rw [h] at hcr; cases hcr
        · rw [h] at hann; cases hann
        · exact h
      simp only [chanBodyTested, Bool.or_eq_true, List.contains_iff_mem] at ht
      have heq : chanBodyOf p.1 = env.req.nonEmptyBody.contains "Channel" := by
        rcases ht with ht | ht
        · have hev := pathHolds_mem env p.1 h3 _ _ ht (by simp) (by simp)
          simp only [evalCond] at hev
          have : chanBodyOf p.1 = true := by simpa [chanBodyOf] using ht
          rw [this, hev]
        · have hev := pathHolds_mem env p.1 h3 _ _ ht (by simp) (by simp)
          simp only [evalCond] at hev
          have hno : chanBodyOf p.1 = false := by
            simp only [consistent, List.all_eq_true] at hcons
            have := hcons _ ht
            simpa [stateDep, chanBodyOf] using this
          rw [hno, hev]
      rw [heq]
    · simp only [Bool.not_eq_true] at hcr
      exact notes_indep _ hcr _ _
  · simp [hann]

end Nsq.Proofs.AdminNotify
