import Nsq.Model.Gate
set_option linter.unusedSimpArgs false
namespace Nsq.Proofs.Gate
open Nsq.Model.Gate

theorem hasPermission_iff (perm : String) (ps : List String) :
    hasPermission perm ps = true ↔ perm ∈ ps := by
  induction ps with
  | nil => simp [hasPermission]
  | cons p ps ih =>
    unfold hasPermission
    by_cases h : perm = p
    · simp [h]
    · simp [h, ih]

theorem anyChannelMatches_iff (M : Matcher) (ch : String) (cs : List String) :
    anyChannelMatches M ch cs = true ↔ ∃ p ∈ cs, M.isMatch p ch = true := by
  induction cs with
  | nil => simp [anyChannelMatches]
  | cons c cs ih =>
    unfold anyChannelMatches
    by_cases h : M.isMatch c ch = true
    · simp [h]
    · simp [h, ih]

/-- the permission a command needs -/
def neededPerm (channel : String) : String := if channel ≠ "" then "subscribe" else "publish"

theorem grantAllowed_iff (M : Matcher) (g : Grant) (t ch : String) :
    grantAllowed M g t ch = true ↔
      neededPerm ch ∈ g.perms ∧ M.isMatch g.topic t = true ∧ ∃ p ∈ g.channels, M.isMatch p ch = true := by
  unfold grantAllowed neededPerm
  by_cases hc : ch = ""
  · by_cases hp : hasPermission "publish" g.perms = true
    · by_cases ht : M.isMatch g.topic t = true
      · simp [hc, hp, ht, anyChannelMatches_iff, (hasPermission_iff _ _).1 hp]
      · simp [hc, hp, ht]
    · have : ¬ "publish" ∈ g.perms := fun h => hp ((hasPermission_iff _ _).2 h)
      simp [hc, hp, this]
  · by_cases hp : hasPermission "subscribe" g.perms = true
    · by_cases ht : M.isMatch g.topic t = true
      · simp [hc, hp, ht, anyChannelMatches_iff, (hasPermission_iff _ _).1 hp]
      · simp [hc, hp, ht]
    · have : ¬ "subscribe" ∈ g.perms := fun h => hp ((hasPermission_iff _ _).2 h)
      simp [hc, hp, this]

theorem isAllowed_iff (M : Matcher) (t ch : String) (gs : List Grant) :
    isAllowed M t ch gs = true ↔
      ∃ g ∈ gs, neededPerm ch ∈ g.perms ∧ M.isMatch g.topic t = true ∧ ∃ p ∈ g.channels, M.isMatch p ch = true := by
  induction gs with
  | nil => simp [isAllowed]
  | cons g gs ih =>
    unfold isAllowed
    by_cases h : grantAllowed M g t ch = true
    · simp only [h, if_true, true_iff]
      exact ⟨g, List.mem_cons_self, (grantAllowed_iff M g t ch).1 h⟩
    · simp only [h, Bool.false_eq_true, if_false, ih, List.mem_cons, exists_eq_or_imp]
      constructor
      · intro hh; exact Or.inr hh
      · intro hh
        rcases hh with hh | hh
        · exact absurd ((grantAllowed_iff M g t ch).2 hh) h
        · exact hh


/-! ## the auth gate -/

/-- The grants in force for a command issued at `now`: the cached answer while it has not
expired, otherwise the (validated) answer the auth server gives to the re-query made right now;
`none` when there is no cached answer or the re-query fails. -/
def inForce (M : Matcher) (ans : Request → Option Resp) (now : Int) (c : Conn) : Option (List Grant) :=
  match c.auth with
  | none => none
  | some a =>
    if a.expires < now then
      (match validate M now (ans (requestOf c)) with
       | none => none
       | some a' => some a'.grants)
    else some a.grants

theorem checkAuth_disabled (cfg : Config) (M : Matcher) (ans : Request → Option Resp) (now : Int)
    (c : Conn) (t ch : String) (h : cfg.authEnabled = false) :
    checkAuth cfg M ans now c t ch = { conn := c, query := none, deny := none } := by
  simp [checkAuth, h]

/-- Complete characterisation of the decision of `CheckAuth` when auth is enabled. -/
theorem checkAuth_deny (cfg : Config) (M : Matcher) (ans : Request → Option Resp) (now : Int)
    (c : Conn) (t ch : String) (h : cfg.authEnabled = true) :
    (checkAuth cfg M ans now c t ch).deny =
      if hasAuthorizations c = false then some "E_AUTH_FIRST"
      else match inForce M ans now c with
        | none => some "E_AUTH_FAILED"
        | some g => if isAllowed M t ch g then none else some "E_UNAUTHORIZED" := by
  cases hca : c.auth with
  | none => simp [checkAuth, h, hca, hasAuthorizations]
  | some a =>
    by_cases hl : a.grants.length = 0
    · simp [checkAuth, h, hca, hasAuthorizations, hl]
    · by_cases he : a.expires < now
      · cases hv : validate M now (ans (requestOf c)) with
        | none => simp [checkAuth, h, hca, hasAuthorizations, hl, isExpired, he, hv, inForce]
        | some a' =>
          by_cases hal : isAllowed M t ch a'.grants = true
          · simp [checkAuth, h, hca, hasAuthorizations, hl, isExpired, he, hv, inForce, hal]
          · simp [checkAuth, h, hca, hasAuthorizations, hl, isExpired, he, hv, inForce, hal]
      · by_cases hal : isAllowed M t ch a.grants = true
        · simp [checkAuth, h, hca, hasAuthorizations, hl, isExpired, he, inForce, hal]
        · simp [checkAuth, h, hca, hasAuthorizations, hl, isExpired, he, inForce, hal]

/-- When (and with what) `CheckAuth` contacts the auth server. -/
theorem checkAuth_query (cfg : Config) (M : Matcher) (ans : Request → Option Resp) (now : Int)
    (c : Conn) (t ch : String) :
    (checkAuth cfg M ans now c t ch).query =
      if cfg.authEnabled = true ∧ hasAuthorizations c = true ∧ (∃ a, c.auth = some a ∧ a.expires < now)
      then some (requestOf c) else none := by
  by_cases h : cfg.authEnabled = true
  · cases hca : c.auth with
    | none => simp [checkAuth, h, hca, hasAuthorizations]
    | some a =>
      by_cases hl : a.grants.length = 0
      · simp [checkAuth, h, hca, hasAuthorizations, hl]
      · by_cases he : a.expires < now
        · cases hv : validate M now (ans (requestOf c)) with
          | none => simp [checkAuth, h, hca, hasAuthorizations, hl, isExpired, he, hv]
          | some a' =>
            by_cases hal : isAllowed M t ch a'.grants = true
            · simp [checkAuth, h, hca, hasAuthorizations, hl, isExpired, he, hv, hal]
            · simp [checkAuth, h, hca, hasAuthorizations, hl, isExpired, he, hv, hal]
        · by_cases hal : isAllowed M t ch a.grants = true
          · simp [checkAuth, h, hca, hasAuthorizations, hl, isExpired, he, hal]
          · simp [checkAuth, h, hca, hasAuthorizations, hl, isExpired, he, hal]
  · have h' : cfg.authEnabled = false := by simpa using h
    simp [checkAuth, h']

/-- The connection after `CheckAuth`: only `AuthState` can differ, and it differs exactly when a
re-query succeeded (then it is the fresh answer). -/
theorem checkAuth_conn (cfg : Config) (M : Matcher) (ans : Request → Option Resp) (now : Int)
    (c : Conn) (t ch : String) :
    (checkAuth cfg M ans now c t ch).conn = c ∨
    (∃ a a', c.auth = some a ∧ a.grants.length ≠ 0 ∧ a.expires < now ∧ cfg.authEnabled = true ∧
        validate M now (ans (requestOf c)) = some a' ∧
        (checkAuth cfg M ans now c t ch).conn = { c with auth := some a' }) := by
  by_cases h : cfg.authEnabled = true
  · cases hca : c.auth with
    | none => simp [checkAuth, h, hca]
    | some a =>
      by_cases hl : a.grants.length = 0
      · simp [checkAuth, h, hca, hl]
      · by_cases he : a.expires < now
        · cases hv : validate M now (ans (requestOf c)) with
          | none => simp [checkAuth, h, hca, hl, isExpired, he, hv]
          | some a' =>
            right
            refine ⟨a, a', rfl, hl, he, h, rfl, ?_⟩
            by_cases hal : isAllowed M t ch a'.grants = true
            · simp [checkAuth, h, hca, hl, isExpired, he, hv, hal]
            · simp [checkAuth, h, hca, hl, isExpired, he, hv, hal]
        · by_cases hal : isAllowed M t ch a.grants = true
          · simp [checkAuth, h, hca, hl, isExpired, he, hal]
          · simp [checkAuth, h, hca, hl, isExpired, he, hal]
  · have h' : cfg.authEnabled = false := by simpa using h
    simp [checkAuth, h']


/-! ## the four gated handlers: argument error / denied / passed -/

/-- the error codes with which `CheckAuth` denies -/
def authCode (code : String) : Prop :=
  code = "E_AUTH_FIRST" ∨ code = "E_AUTH_FAILED" ∨ code = "E_UNAUTHORIZED"

instance (code : String) : Decidable (authCode code) := by unfold authCode; infer_instance

/-- the handler got past `CheckAuth` -/
def Passed (r : Res) (k : AuthCheck) : Prop :=
  k.deny = none ∧ r.query = k.query ∧ r.conn.auth = k.conn.auth ∧
    (r.replies = [.ok] ∨ ∃ code, ¬ authCode code ∧ r.replies = [.err code true])

/-- the three ways a gated handler can end -/
def GateCases (r : Res) (k : AuthCheck) (c : Conn) (b : Broker) : Prop :=
  (∃ code, ¬ authCode code ∧ r = fatalRes c b code) ∨
  (∃ code, k.deny = some code ∧ r = deniedRes k b code) ∨
  Passed r k

theorem mpubSizesErr_code (maxMsg : Int) (ss : List Int) (code : String)
    (h : mpubSizesErr maxMsg ss = some code) : code = "E_BAD_MESSAGE" := by
  induction ss with
  | nil => simp [mpubSizesErr] at h
  | cons x xs ih =>
    unfold mpubSizesErr at h
    by_cases h1 : x ≤ 0
    · simp [h1] at h; exact h.symm
    · by_cases h2 : x > maxMsg
      · simp [h1, h2] at h; exact h.symm
      · simp [h1, h2] at h; exact ih h

theorem execPub_cases (cfg : Config) (M : Matcher) (ans : Request → Option Resp) (now : Int)
    (c : Conn) (b : Broker) (args : List String) (size : Int) :
    GateCases (execPub cfg M ans now c b args size) (checkAuth cfg M ans now c (argAt args 0) "") c b := by
  unfold execPub GateCases
  by_cases h1 : args.length < 1
  · left; exact ⟨"E_INVALID", by decide, by simp [h1]⟩
  by_cases h2 : validName (argAt args 0) = false
  · left; exact ⟨"E_BAD_TOPIC", by decide, by simp [h1, h2]⟩
  by_cases h3 : size ≤ 0
  · left; exact ⟨"E_BAD_MESSAGE", by decide, by simp [h1, h2, h3]⟩
  by_cases h4 : size > cfg.maxMsgSize
  · left; exact ⟨"E_BAD_MESSAGE", by decide, by simp [h1, h2, h3, h4]⟩
  right
  cases hd : (checkAuth cfg M ans now c (argAt args 0) "").deny with
  | some code => left; exact ⟨code, rfl, by simp [h1, h2, h3, h4, hd]⟩
  | none => right; simp [h1, h2, h3, h4, hd, Passed]

theorem execDpub_cases (cfg : Config) (M : Matcher) (ans : Request → Option Resp) (now : Int)
    (c : Conn) (b : Broker) (args : List String) (size : Int) :
    GateCases (execDpub cfg M ans now c b args size) (checkAuth cfg M ans now c (argAt args 0) "") c b := by
  unfold execDpub GateCases
  by_cases h1 : args.length < 2
  · left; exact ⟨"E_INVALID", by decide, by simp [h1]⟩
  by_cases h2 : validName (argAt args 0) = false
  · left; exact ⟨"E_BAD_TOPIC", by decide, by simp [h1, h2]⟩
  cases hb : base10 (argAt args 1) with
  | none => left; exact ⟨"E_INVALID", by decide, by simp [h1, h2, hb]⟩
  | some ms =>
    by_cases h5 : msToNs ms < 0 ∨ msToNs ms > cfg.maxReqTimeoutNs
    · left; exact ⟨"E_INVALID", by decide, by simp [h1, h2, hb, h5]⟩
    by_cases h3 : size ≤ 0
    · left; exact ⟨"E_BAD_MESSAGE", by decide, by simp [h1, h2, hb, h5, h3]⟩
    by_cases h4 : size > cfg.maxMsgSize
    · left; exact ⟨"E_BAD_MESSAGE", by decide, by simp [h1, h2, hb, h5, h3, h4]⟩
    right
    cases hd : (checkAuth cfg M ans now c (argAt args 0) "").deny with
    | some code => left; exact ⟨code, rfl, by simp [h1, h2, hb, h5, h3, h4, hd]⟩
    | none => right; simp [h1, h2, hb, h5, h3, h4, hd, Passed]

theorem execMpub_cases (cfg : Config) (M : Matcher) (ans : Request → Option Resp) (now : Int)
    (c : Conn) (b : Broker) (args : List String) (size count : Int) (sizes : List Int) :
    GateCases (execMpub cfg M ans now c b args size count sizes)
      (checkAuth cfg M ans now c (argAt args 0) "") c b := by
  unfold execMpub GateCases
  by_cases h1 : args.length < 1
  · left; exact ⟨"E_INVALID", by decide, by simp [h1]⟩
  by_cases h2 : validName (argAt args 0) = false
  · left; exact ⟨"E_BAD_TOPIC", by decide, by simp [h1, h2]⟩
  right
  cases hd : (checkAuth cfg M ans now c (argAt args 0) "").deny with
  | some code => left; exact ⟨code, rfl, by simp [h1, h2, hd]⟩
  | none =>
    right
    by_cases h3 : size ≤ 0 ∨ size > cfg.maxBodySize ∨ count ≤ 0 ∨ count > (cfg.maxBodySize - 4) / 5
    · refine ⟨hd, by simp [h1, h2, hd, h3], by simp [h1, h2, hd, h3], Or.inr ⟨"E_BAD_BODY", by decide, by simp [h1, h2, hd, h3]⟩⟩
    by_cases h4 : (sizes.length : Int) ≠ count
    · refine ⟨hd, by simp [h1, h2, hd, h3, h4], by simp [h1, h2, hd, h3, h4], Or.inr ⟨"E_BAD_MESSAGE", by decide, by simp [h1, h2, hd, h3, h4]⟩⟩
    cases hm : mpubSizesErr cfg.maxMsgSize sizes with
    | some code =>
      have hc := mpubSizesErr_code _ _ _ hm
      subst hc
      refine ⟨hd, by simp [h1, h2, hd, h3, h4, hm], by simp [h1, h2, hd, h3, h4, hm], Or.inr ⟨"E_BAD_MESSAGE", by decide, by simp [h1, h2, hd, h3, h4, hm]⟩⟩
    | none =>
      refine ⟨hd, by simp [h1, h2, hd, h3, h4, hm], by simp [h1, h2, hd, h3, h4, hm], Or.inl (by simp [h1, h2, hd, h3, h4, hm])⟩

theorem execSub_cases (cfg : Config) (M : Matcher) (ans : Request → Option Resp) (now : Int)
    (c : Conn) (b : Broker) (args : List String) :
    GateCases (execSub cfg M ans now c b args)
      (checkAuth cfg M ans now c (argAt args 0) (argAt args 1)) c b := by
  unfold execSub GateCases
  by_cases h0 : c.state ≠ .init
  · left; exact ⟨"E_INVALID", by decide, by simp [h0]⟩
  by_cases h00 : c.hbOff = true
  · left; exact ⟨"E_INVALID", by decide, by simp [h0, h00]⟩
  by_cases h1 : args.length < 2
  · left; exact ⟨"E_INVALID", by decide, by simp [h0, h00, h1]⟩
  by_cases h2 : validName (argAt args 0) = false
  · left; exact ⟨"E_BAD_TOPIC", by decide, by simp [h0, h00, h1, h2]⟩
  by_cases h3 : validName (argAt args 1) = false
  · left; exact ⟨"E_BAD_CHANNEL", by decide, by simp [h0, h00, h1, h2, h3]⟩
  right
  cases hd : (checkAuth cfg M ans now c (argAt args 0) (argAt args 1)).deny with
  | some code => left; exact ⟨code, rfl, by simp [h0, h00, h1, h2, h3, hd]⟩
  | none => right; simp [h0, h00, h1, h2, h3, hd, Passed]


/-- topic and channel a gated command is about (channel "" = publish) -/
def subject : Cmd → String × String
  | .pub args _ => (argAt args 0, "")
  | .mpub args _ _ _ => (argAt args 0, "")
  | .dpub args _ => (argAt args 0, "")
  | .sub args => (argAt args 0, argAt args 1)
  | _ => ("", "")

theorem dispatch_gated_cases (E : Ext) (cfg : Config) (M : Matcher) (ans : Request → Option Resp)
    (now : Int) (c : Conn) (b : Broker) (cmd : Cmd) (hg : cmd.isGated = true) :
    GateCases (dispatch E cfg M ans now c b cmd)
      (checkAuth cfg M ans now c (subject cmd).1 (subject cmd).2) c b := by
  cases cmd <;> simp [Cmd.isGated] at hg
  · exact execPub_cases ..
  · exact execMpub_cases ..
  · exact execDpub_cases ..
  · exact execSub_cases ..

/-! ## what a command can change on the connection -/

theorem checkAuth_conn_tls (cfg : Config) (M : Matcher) (ans : Request → Option Resp) (now : Int)
    (c : Conn) (t ch : String) : (checkAuth cfg M ans now c t ch).conn.tls = c.tls := by
  rcases checkAuth_conn cfg M ans now c t ch with h | ⟨a, a', _, _, _, _, _, h⟩ <;> simp [h]

theorem checkAuth_hasAuth (cfg : Config) (M : Matcher) (ans : Request → Option Resp) (now : Int)
    (c : Conn) (t ch : String) (h : hasAuthorizations (checkAuth cfg M ans now c t ch).conn = true) :
    hasAuthorizations c = true := by
  rcases checkAuth_conn cfg M ans now c t ch with h' | ⟨a, a', hca, hl, _, _, _, _⟩
  · rw [h'] at h; exact h
  · simp [hasAuthorizations, hca, hl]

theorem gateCases_tls {r : Res} {k : AuthCheck} {c : Conn} {b : Broker}
    (h : (∃ code, ¬ authCode code ∧ r = fatalRes c b code) ∨ (∃ code, k.deny = some code ∧ r = deniedRes k b code))
    (hk : k.conn.tls = c.tls) : r.conn.tls = c.tls := by
  rcases h with ⟨code, _, h⟩ | ⟨code, _, h⟩
  · simp [h, fatalRes]
  · simp [h, deniedRes, hk]

/-- No handler behind the dispatch switch touches the TLS flag. -/
theorem dispatch_tls (E : Ext) (cfg : Config) (M : Matcher) (ans : Request → Option Resp)
    (now : Int) (c : Conn) (b : Broker) (cmd : Cmd) :
    (dispatch E cfg M ans now c b cmd).conn.tls = c.tls := by
  cases cmd with
  | identify d => simp [dispatch, fatalRes]
  | auth args size secret =>
    simp only [dispatch]; unfold execAuth
    repeat' split
    all_goals simp [fatalRes]
  | pub args size =>
    simp only [dispatch]; unfold execPub
    repeat' split
    all_goals simp [fatalRes, deniedRes, checkAuth_conn_tls]
  | mpub args size count sizes =>
    simp only [dispatch]; unfold execMpub
    repeat' split
    all_goals simp [fatalRes, deniedRes, checkAuth_conn_tls]
  | dpub args size =>
    simp only [dispatch]; unfold execDpub
    repeat' split
    all_goals simp [fatalRes, deniedRes, checkAuth_conn_tls]
  | sub args =>
    simp only [dispatch]; unfold execSub
    repeat' split
    all_goals simp [fatalRes, deniedRes, checkAuth_conn_tls]
  | rdy args =>
    simp only [dispatch]; unfold execRdy
    repeat' split
    all_goals simp [fatalRes, okRes]
  | fin args =>
    simp only [dispatch]; unfold execChanCmd
    repeat' split
    all_goals simp [fatalRes, okRes]
  | req args =>
    simp only [dispatch]; unfold execChanCmd
    repeat' split
    all_goals simp [fatalRes, okRes]
  | touch args =>
    simp only [dispatch]; unfold execChanCmd
    repeat' split
    all_goals simp [fatalRes, okRes]
  | cls =>
    simp only [dispatch]; unfold execCls
    repeat' split
    all_goals simp [fatalRes, okRes]
  | nop => simp [dispatch, okRes]
  | unknown n => simp [dispatch, fatalRes]


/-! ## the TLS gate -/

theorem exec_tls_blocked (E : Ext) (cfg : Config) (M : Matcher) (ans : Request → Option Resp)
    (now : Int) (c : Conn) (b : Broker) (cmd : Cmd)
    (hb : tlsBlocked cfg c = true) (hi : cmd.isIdentify = false) :
    exec E cfg M ans now c b cmd = fatalRes c b "E_INVALID" := by
  cases cmd <;> simp [Cmd.isIdentify] at hi <;> simp [exec, hb]

/-- the reply sequence of an IDENTIFY that completed a TLS handshake -/
def upgradedReplies (cfg : Config) : List Reply := [.identify true cfg.authEnabled, .ok]

theorem execIdentify_broker (cfg : Config) (c : Conn) (b : Broker) (d : IdentifyData) :
    (execIdentify cfg c b d).broker = b := by
  unfold execIdentify
  repeat' split
  all_goals simp [fatalRes, okRes]

theorem execIdentify_auth (cfg : Config) (c : Conn) (b : Broker) (d : IdentifyData) :
    (execIdentify cfg c b d).conn.auth = c.auth := by
  unfold execIdentify
  repeat' split
  all_goals simp [fatalRes, okRes]

theorem execIdentify_tls (cfg : Config) (c : Conn) (b : Broker) (d : IdentifyData)
    (h : (execIdentify cfg c b d).conn.tls = true) (hc : c.tls = false) :
    c.state = .init ∧ d.bodyOk = true ∧ d.featureNegotiation = true ∧ cfg.hasTls = true ∧ d.tlsv1 = true ∧
    (∃ cn, handshake cfg.certPolicy d.cert = some cn ∧ (execIdentify cfg c b d).conn.cn = cn) ∧
    (execIdentify cfg c b d).replies = upgradedReplies cfg ∧ (execIdentify cfg c b d).close = false := by
  unfold execIdentify at h ⊢
  by_cases h1 : c.state ≠ .init
  · simp [h1, fatalRes, hc] at h
  by_cases h2 : d.bodyOk = false
  · simp [h1, h2, fatalRes, hc] at h
  by_cases h3 : d.featureNegotiation = false
  · simp [h1, h2, h3, okRes, hc] at h
  by_cases h4 : (cfg.hasTls && d.tlsv1) = false
  · simp [h1, h2, h3, h4, okRes, hc] at h
  cases hh : handshake cfg.certPolicy d.cert with
  | none => simp [h1, h2, h3, h4, hh, hc] at h
  | some cn =>
    have h1' : c.state = .init := by simpa using h1
    have h4' : cfg.hasTls = true ∧ d.tlsv1 = true := by simpa using h4
    simp [h1', h2, h3, h4'.1, h4'.2, hh, okRes, upgradedReplies]

theorem exec_tls (E : Ext) (cfg : Config) (M : Matcher) (ans : Request → Option Resp)
    (now : Int) (c : Conn) (b : Broker) (cmd : Cmd)
    (h : (exec E cfg M ans now c b cmd).conn.tls = true) (hc : c.tls = false) :
    ∃ d, cmd = .identify d ∧ c.state = .init ∧ d.bodyOk = true ∧ d.featureNegotiation = true ∧
      cfg.hasTls = true ∧ d.tlsv1 = true ∧
      (∃ cn, handshake cfg.certPolicy d.cert = some cn) ∧
      (exec E cfg M ans now c b cmd).replies = upgradedReplies cfg ∧
      (exec E cfg M ans now c b cmd).close = false := by
  cases cmd with
  | identify d =>
    simp only [exec] at h ⊢
    have := execIdentify_tls cfg c b d h hc
    obtain ⟨a1, a2, a3, a4, a5, ⟨cn, a6, _⟩, a7, a8⟩ := this
    exact ⟨d, rfl, a1, a2, a3, a4, a5, ⟨cn, a6⟩, a7, a8⟩
  | _ =>
    exfalso
    simp only [exec] at h
    split at h
    · simp [fatalRes, hc] at h
    · rw [dispatch_tls] at h; simp [hc] at h

/-! ## who can make `HasAuthorizations` true -/

theorem hasAuthorizations_congr {x y : Conn} (h : x.auth = y.auth) :
    hasAuthorizations x = hasAuthorizations y := by
  unfold hasAuthorizations; rw [h]

/-- the reply of a successful AUTH -/
def isAuthOk (rs : List Reply) : Prop := ∃ i u n, rs = [.auth i u n]

theorem execAuth_hasAuth (cfg : Config) (M : Matcher) (ans : Request → Option Resp) (now : Int)
    (c : Conn) (b : Broker) (args : List String) (size : Int) (secret : String)
    (h : hasAuthorizations (execAuth cfg M ans now c b args size secret).conn = true) :
    hasAuthorizations c = true ∨ isAuthOk (execAuth cfg M ans now c b args size secret).replies := by
  unfold execAuth at h ⊢
  by_cases h1 : c.state ≠ .init
  · rw [if_pos h1] at h; exact Or.inl h
  rw [if_neg h1] at h ⊢
  by_cases h2 : args.length ≠ 0
  · rw [if_pos h2] at h; exact Or.inl h
  rw [if_neg h2] at h ⊢
  by_cases h3 : size > cfg.maxBodySize
  · rw [if_pos h3] at h; exact Or.inl h
  rw [if_neg h3] at h ⊢
  by_cases h4 : size ≤ 0
  · rw [if_pos h4] at h; exact Or.inl h
  rw [if_neg h4] at h ⊢
  by_cases h5 : hasAuthorizations c = true
  · exact Or.inl h5
  rw [if_neg h5] at h ⊢
  by_cases h6 : cfg.authEnabled = false
  · rw [if_pos h6] at h; exact Or.inl h
  rw [if_neg h6] at h ⊢
  cases hv : validate M now (ans (requestOf { c with secret := secret })) with
  | none =>
    try rw [hv] at h
    exact Or.inl h
  | some a =>
    try rw [hv] at h
    try rw [hv]
    simp only [] at h ⊢
    by_cases h7 : a.grants.length = 0
    · rw [if_pos h7] at h
      simp [hasAuthorizations, h7] at h
    · rw [if_neg h7]
      exact Or.inr ⟨_, _, _, rfl⟩

theorem dispatch_hasAuth (E : Ext) (cfg : Config) (M : Matcher) (ans : Request → Option Resp)
    (now : Int) (c : Conn) (b : Broker) (cmd : Cmd)
    (h : hasAuthorizations (dispatch E cfg M ans now c b cmd).conn = true) :
    hasAuthorizations c = true ∨
      ((∃ args size secret, cmd = .auth args size secret) ∧ isAuthOk (dispatch E cfg M ans now c b cmd).replies) := by
  cases cmd with
  | auth args size secret =>
    simp only [dispatch] at h ⊢
    rcases execAuth_hasAuth cfg M ans now c b args size secret h with h' | h'
    · exact Or.inl h'
    · exact Or.inr ⟨⟨args, size, secret, rfl⟩, h'⟩
  | identify d => left; simpa [dispatch, fatalRes] using h
  | pub args size =>
    left
    simp only [dispatch] at h; unfold execPub at h
    repeat' split at h
    all_goals first
      | (simp only [fatalRes] at h; exact h)
      | (simp only [deniedRes] at h; exact checkAuth_hasAuth _ _ _ _ _ _ _ h)
      | exact checkAuth_hasAuth _ _ _ _ _ _ _ h
  | mpub args size count sizes =>
    left
    simp only [dispatch] at h; unfold execMpub at h
    repeat' split at h
    all_goals first
      | (simp only [fatalRes] at h; exact h)
      | (simp only [deniedRes] at h; exact checkAuth_hasAuth _ _ _ _ _ _ _ h)
      | exact checkAuth_hasAuth _ _ _ _ _ _ _ h
  | dpub args size =>
    left
    simp only [dispatch] at h; unfold execDpub at h
    repeat' split at h
    all_goals first
      | (simp only [fatalRes] at h; exact h)
      | (simp only [deniedRes] at h; exact checkAuth_hasAuth _ _ _ _ _ _ _ h)
      | exact checkAuth_hasAuth _ _ _ _ _ _ _ h
  | sub args =>
    left
    simp only [dispatch] at h; unfold execSub at h
    repeat' split at h
    all_goals first
      | (simp only [fatalRes] at h; exact h)
      | (simp only [deniedRes] at h; exact checkAuth_hasAuth _ _ _ _ _ _ _ h)
      | (rw [hasAuthorizations_congr (y := (checkAuth cfg M ans now c (argAt args 0) (argAt args 1)).conn) rfl] at h
         exact checkAuth_hasAuth _ _ _ _ _ _ _ h)
  | rdy args =>
    left
    simp only [dispatch] at h; unfold execRdy at h
    repeat' split at h
    all_goals (simp only [fatalRes, okRes] at h; exact h)
  | fin args =>
    left
    simp only [dispatch] at h; unfold execChanCmd at h
    repeat' split at h
    all_goals (simp only [fatalRes, okRes] at h; exact h)
  | req args =>
    left
    simp only [dispatch] at h; unfold execChanCmd at h
    repeat' split at h
    all_goals (simp only [fatalRes, okRes] at h; exact h)
  | touch args =>
    left
    simp only [dispatch] at h; unfold execChanCmd at h
    repeat' split at h
    all_goals (simp only [fatalRes, okRes] at h; exact h)
  | cls =>
    left
    simp only [dispatch] at h; unfold execCls at h
    repeat' split at h
    · simp only [fatalRes] at h; exact h
    · simp only [okRes] at h
      have e := hasAuthorizations_congr (x := { c with state := CState.closing }) (y := c) rfl
      rw [e] at h; exact h
  | nop => left; simpa [dispatch, okRes] using h
  | unknown n => left; simpa [dispatch, fatalRes] using h


theorem exec_hasAuth (E : Ext) (cfg : Config) (M : Matcher) (ans : Request → Option Resp)
    (now : Int) (c : Conn) (b : Broker) (cmd : Cmd)
    (h : hasAuthorizations (exec E cfg M ans now c b cmd).conn = true) :
    hasAuthorizations c = true ∨
      ((∃ args size secret, cmd = .auth args size secret) ∧ isAuthOk (exec E cfg M ans now c b cmd).replies) := by
  cases cmd with
  | identify d =>
    left
    simp only [exec] at h
    rw [hasAuthorizations_congr (execIdentify_auth cfg c b d)] at h; exact h
  | _ =>
    simp only [exec] at h ⊢
    split at h
    · left; simpa [fatalRes] using h
    · rename_i hb
      simp only [hb]
      exact dispatch_hasAuth _ _ _ _ _ _ _ _ h

/-! ## steps and histories -/

theorem step_closed (E : Ext) (cfg : Config) (M : Matcher) (ans : Request → Option Resp)
    (now : Int) (c : Conn) (b : Broker) (cmd : Cmd) (h : c.closed = true) :
    step E cfg M ans now c b cmd = { conn := c, broker := b, replies := [], close := false, query := none } := by
  simp [step, h]

theorem step_open (E : Ext) (cfg : Config) (M : Matcher) (ans : Request → Option Resp)
    (now : Int) (c : Conn) (b : Broker) (cmd : Cmd) (h : c.closed = false) :
    step E cfg M ans now c b cmd = exec E cfg M ans now c b cmd := by
  simp [step, h]

theorem after_tls (r : Res) : (after r).conn.tls = r.conn.tls := by
  unfold after; split <;> rfl

theorem after_hasAuth (r : Res) : hasAuthorizations (after r).conn = hasAuthorizations r.conn := by
  unfold after; split
  · exact hasAuthorizations_congr rfl
  · rfl

/-- membership in a history: the record is consistent with the step function -/
theorem trace_mem (E : Ext) (cfg : Config) (M : Matcher) :
    ∀ (evs : List Ev) (s : St) (r : Rec), r ∈ trace E cfg M s evs →
      r.res = stepEv E cfg M r.pre r.ev ∧ r.post = after r.res := by
  intro evs
  induction evs with
  | nil => intro s r h; simp [trace] at h
  | cons e es ih =>
    intro s r h
    simp only [trace, List.mem_cons] at h
    rcases h with h | h
    · subst h; exact ⟨rfl, rfl⟩
    · exact ih _ _ h

/-- Generic history lemma: if a state predicate `P` can only become true through a step that
satisfies `Q`, then whenever `P` holds before some record of a history, either it held at the
start or an earlier record satisfies `Q`. -/
theorem trace_inv (E : Ext) (cfg : Config) (M : Matcher) (P : St → Prop) (Q : Rec → Prop)
    (hstep : ∀ s e, P (after (stepEv E cfg M s e)) →
      P s ∨ Q { pre := s, ev := e, res := stepEv E cfg M s e, post := after (stepEv E cfg M s e) }) :
    ∀ (evs : List Ev) (s : St) (pre : List Rec) (r : Rec) (post : List Rec),
      trace E cfg M s evs = pre ++ r :: post → P r.pre → P s ∨ ∃ q ∈ pre, Q q := by
  intro evs
  induction evs with
  | nil => intro s pre r post h; simp [trace] at h
  | cons e es ih =>
    intro s pre r post h hp
    cases pre with
    | nil =>
      simp only [trace, List.nil_append, List.cons.injEq] at h
      left
      rw [← h.1] at hp; exact hp
    | cons p pre' =>
      simp only [trace, List.cons_append, List.cons.injEq] at h
      rcases ih _ pre' r post h.2 hp with h1 | ⟨q, hq, hQ⟩
      · rcases hstep s e h1 with h2 | h2
        · exact Or.inl h2
        · right; exact ⟨p, List.mem_cons_self, by rw [← h.1]; exact h2⟩
      · right; exact ⟨q, List.mem_cons_of_mem _ hq, hQ⟩

/-- a record of a history is an element of it -/
theorem mem_of_split {α : Type} {l pre post : List α} {r : α} (h : l = pre ++ r :: post) : r ∈ l := by
  rw [h]; simp

/-- an IDENTIFY that completed a TLS handshake -/
def IsTlsUpgrade (cfg : Config) (q : Rec) : Prop :=
  ∃ rd now ans d, q.ev = .cmd rd now ans (.identify d) ∧ d.featureNegotiation = true ∧ d.tlsv1 = true ∧
    (∃ cn, handshake cfg.certPolicy d.cert = some cn) ∧ q.res.replies = upgradedReplies cfg

/-- a successful AUTH -/
def IsAuthSuccess (q : Rec) : Prop :=
  ∃ rd now ans args size secret, q.ev = .cmd rd now ans (.auth args size secret) ∧ isAuthOk q.res.replies

theorem stepEv_tls (E : Ext) (cfg : Config) (M : Matcher) (s : St) (e : Ev)
    (h : (after (stepEv E cfg M s e)).conn.tls = true) :
    s.conn.tls = true ∨
      IsTlsUpgrade cfg { pre := s, ev := e, res := stepEv E cfg M s e, post := after (stepEv E cfg M s e) } := by
  rw [after_tls] at h
  by_cases hc : s.conn.tls = true
  · exact Or.inl hc
  have hc' : s.conn.tls = false := by simpa using hc
  right
  cases e with
  | env b' => simp [stepEv, hc'] at h
  | cmd rd now ans c =>
    simp only [stepEv] at h ⊢
    by_cases hrd : rd = s.conn.rd
    · simp only [hrd, if_true] at h ⊢
      by_cases hcl : s.conn.closed = true
      · rw [step_closed _ _ _ _ _ _ _ _ hcl] at h; simp [hc'] at h
      · have hcl' : s.conn.closed = false := by simpa using hcl
        rw [step_open _ _ _ _ _ _ _ _ hcl'] at h ⊢
        obtain ⟨d, hd, _, _, a3, _, a5, a6, a7, _⟩ := exec_tls E cfg M ans now s.conn s.broker c h hc'
        exact ⟨s.conn.rd, now, ans, d, by rw [hd], a3, a5, a6, a7⟩
    · simp [hrd, hc'] at h

theorem stepEv_hasAuth (E : Ext) (cfg : Config) (M : Matcher) (s : St) (e : Ev)
    (h : hasAuthorizations (after (stepEv E cfg M s e)).conn = true) :
    hasAuthorizations s.conn = true ∨
      IsAuthSuccess { pre := s, ev := e, res := stepEv E cfg M s e, post := after (stepEv E cfg M s e) } := by
  rw [after_hasAuth] at h
  cases e with
  | env b' => left; simpa [stepEv] using h
  | cmd rd now ans c =>
    simp only [stepEv] at h ⊢
    by_cases hrd : rd = s.conn.rd
    · simp only [hrd, if_true] at h ⊢
      by_cases hcl : s.conn.closed = true
      · rw [step_closed _ _ _ _ _ _ _ _ hcl] at h; exact Or.inl h
      · have hcl' : s.conn.closed = false := by simpa using hcl
        rw [step_open _ _ _ _ _ _ _ _ hcl'] at h ⊢
        rcases exec_hasAuth E cfg M ans now s.conn s.broker c h with h1 | ⟨⟨args, size, secret, hc⟩, h2⟩
        · exact Or.inl h1
        · right; exact ⟨s.conn.rd, now, ans, args, size, secret, by rw [hc], h2⟩
    · simp only [hrd, if_false] at h; exact Or.inl h

/-- In any history, a connection whose TLS flag is set has completed a handshake inside an
earlier IDENTIFY (or had the flag from the start). -/
theorem trace_tls (E : Ext) (cfg : Config) (M : Matcher) (evs : List Ev) (s : St)
    (pre : List Rec) (r : Rec) (post : List Rec)
    (h : trace E cfg M s evs = pre ++ r :: post) (ht : r.pre.conn.tls = true) :
    s.conn.tls = true ∨ ∃ q ∈ pre, IsTlsUpgrade cfg q :=
  trace_inv E cfg M (fun s => s.conn.tls = true) (IsTlsUpgrade cfg) (stepEv_tls E cfg M) evs s pre r post h ht

/-- In any history, a connection that has authorizations got them from an earlier successful AUTH
(or had them from the start). -/
theorem trace_hasAuth (E : Ext) (cfg : Config) (M : Matcher) (evs : List Ev) (s : St)
    (pre : List Rec) (r : Rec) (post : List Rec)
    (h : trace E cfg M s evs = pre ++ r :: post) (ht : hasAuthorizations r.pre.conn = true) :
    hasAuthorizations s.conn = true ∨ ∃ q ∈ pre, IsAuthSuccess q :=
  trace_inv E cfg M (fun s => hasAuthorizations s.conn = true) IsAuthSuccess (stepEv_hasAuth E cfg M)
    evs s pre r post h ht


/-! ## the exit path leaves topics, channels and messages alone -/

theorem removeClientChans_names (c : String) (id : Nat) (cs : List Chan) :
    (removeClientChans c id cs).map (·.name) = cs.map (·.name) := by
  induction cs with
  | nil => rfl
  | cons x xs ih =>
    unfold removeClientChans
    split <;> simp [ih]

theorem unsubscribeTopic_content (t c : String) (id : Nat) (b : Broker) :
    content (unsubscribeTopic t c id b) = content b := by
  induction b with
  | nil => rfl
  | cons x xs ih =>
    unfold unsubscribeTopic
    split
    · simp [content, Topic.content, removeClientChans_names]
    · simp only [content, List.map_cons] at ih ⊢; rw [ih]

theorem cleanup_content (c : Conn) (b : Broker) : content (cleanup c b) = content b := by
  unfold cleanup
  split
  · rfl
  · exact unsubscribeTopic_content ..

theorem after_content (r : Res) : content (after r).broker = content r.broker := by
  unfold after; split
  · exact cleanup_content ..
  · rfl

theorem checkAuth_deny_code (cfg : Config) (M : Matcher) (ans : Request → Option Resp) (now : Int)
    (c : Conn) (t ch code : String) (h : (checkAuth cfg M ans now c t ch).deny = some code) :
    authCode code := by
  by_cases he : cfg.authEnabled = true
  · rw [checkAuth_deny _ _ _ _ _ _ _ he] at h
    split at h
    · simp at h; exact Or.inl h.symm
    · split at h
      · simp at h; exact Or.inr (Or.inl h.symm)
      · split at h
        · simp at h
        · simp at h; exact Or.inr (Or.inr h.symm)
  · have he' : cfg.authEnabled = false := by simpa using he
    rw [checkAuth_disabled _ _ _ _ _ _ _ he'] at h; simp at h

theorem execAuth_broker (cfg : Config) (M : Matcher) (ans : Request → Option Resp) (now : Int)
    (c : Conn) (b : Broker) (args : List String) (size : Int) (secret : String) :
    (execAuth cfg M ans now c b args size secret).broker = b := by
  unfold execAuth
  repeat' split
  all_goals simp [fatalRes]


theorem checkAuth_conn_requeried (cfg : Config) (M : Matcher) (ans : Request → Option Resp) (now : Int)
    (c : Conn) (t ch : String) (a a' : AuthState) (hauth : cfg.authEnabled = true)
    (hca : c.auth = some a) (hne : a.grants.length ≠ 0) (he : a.expires < now)
    (hv : validate M now (ans (requestOf c)) = some a') :
    (checkAuth cfg M ans now c t ch).conn = { c with auth := some a' } := by
  unfold checkAuth
  simp only [hauth, hca, isExpired, he, hv, hne]
  simp
  split <;> rfl

theorem checkAuth_conn_cached (cfg : Config) (M : Matcher) (ans : Request → Option Resp) (now : Int)
    (c : Conn) (t ch : String) (a : AuthState)
    (hca : c.auth = some a) (he : ¬ a.expires < now) :
    (checkAuth cfg M ans now c t ch).conn = c := by
  unfold checkAuth
  simp only [hca, isExpired, he]
  simp
  repeat' split
  all_goals rfl


/-! ## which commands can touch the broker at all, and who can leave the initial state -/

/-- a SUB that was accepted -/
def IsSubSuccess (q : Rec) : Prop :=
  ∃ rd now ans args, q.ev = .cmd rd now ans (.sub args) ∧ q.res.replies = [.ok]

/-- the commands whose handler can change the broker: the four gated ones, and FIN / REQ / TOUCH
(which need a subscription) -/
def Cmd.isChanCmd : Cmd → Bool
  | .fin _ => true
  | .req _ => true
  | .touch _ => true
  | _ => false

theorem dispatch_broker_other (E : Ext) (cfg : Config) (M : Matcher) (ans : Request → Option Resp)
    (now : Int) (c : Conn) (b : Broker) (cmd : Cmd)
    (h1 : cmd.isGated = false) (h2 : Cmd.isChanCmd cmd = false) :
    (dispatch E cfg M ans now c b cmd).broker = b := by
  cases cmd <;> simp [Cmd.isGated, Cmd.isChanCmd] at h1 h2
  · simp [dispatch, fatalRes]
  · simp only [dispatch]; exact execAuth_broker ..
  · simp only [dispatch]; unfold execRdy; repeat' split
    all_goals simp [fatalRes, okRes]
  · simp only [dispatch]; unfold execCls; repeat' split
    all_goals simp [fatalRes, okRes]
  · simp [dispatch, okRes]
  · simp [dispatch, fatalRes]

theorem execChanCmd_broker (E : Ext) (name : String) (n : Nat) (c : Conn) (b : Broker) (args : List String)
    (h : (execChanCmd E name n c b args).broker ≠ b) : c.state ≠ .init := by
  unfold execChanCmd at h
  by_cases h1 : c.state ≠ .subscribed ∧ c.state ≠ .closing
  · simp [h1, fatalRes] at h
  · intro hi
    apply h1
    rw [hi]; exact ⟨by decide, by decide⟩

theorem dispatch_broker_chan (E : Ext) (cfg : Config) (M : Matcher) (ans : Request → Option Resp)
    (now : Int) (c : Conn) (b : Broker) (cmd : Cmd) (h2 : Cmd.isChanCmd cmd = true)
    (h : (dispatch E cfg M ans now c b cmd).broker ≠ b) : c.state ≠ .init := by
  cases cmd <;> simp [Cmd.isChanCmd] at h2
  all_goals (simp only [dispatch] at h; exact execChanCmd_broker _ _ _ _ _ _ h)

/-- the state of a connection leaves `init` only through an accepted SUB -/
theorem dispatch_state (E : Ext) (cfg : Config) (M : Matcher) (ans : Request → Option Resp)
    (now : Int) (c : Conn) (b : Broker) (cmd : Cmd)
    (h : (dispatch E cfg M ans now c b cmd).conn.state ≠ .init) :
    c.state ≠ .init ∨ ((∃ args, cmd = .sub args) ∧ (dispatch E cfg M ans now c b cmd).replies = [.ok]) := by
  by_cases hc : c.state ≠ .init
  · exact Or.inl hc
  have hc' : c.state = .init := by simpa using hc
  right
  have cst : ∀ t ch, (checkAuth cfg M ans now c t ch).conn.state = .init := by
    intro t ch
    rcases checkAuth_conn cfg M ans now c t ch with h' | ⟨_, _, _, _, _, _, _, h'⟩ <;> simp [h', hc']
  cases cmd with
  | sub args =>
    refine ⟨⟨args, rfl⟩, ?_⟩
    simp only [dispatch] at h ⊢
    unfold execSub at h ⊢
    by_cases h0 : c.state ≠ .init
    · exact absurd hc' h0
    by_cases h00 : c.hbOff = true
    · exfalso; simp [h0, h00, fatalRes, hc'] at h
    by_cases h1 : args.length < 2
    · exfalso; simp [h0, h00, h1, fatalRes, hc'] at h
    by_cases h2 : validName (argAt args 0) = false
    · exfalso; simp [h0, h00, h1, h2, fatalRes, hc'] at h
    by_cases h3 : validName (argAt args 1) = false
    · exfalso; simp [h0, h00, h1, h2, h3, fatalRes, hc'] at h
    cases hd : (checkAuth cfg M ans now c (argAt args 0) (argAt args 1)).deny with
    | some code => exfalso; simp [h0, h00, h1, h2, h3, hd, deniedRes, cst] at h
    | none => simp [h0, h00, h1, h2, h3, hd]
  | identify d => exfalso; simp [dispatch, fatalRes, hc'] at h
  | auth args size secret =>
    exfalso
    simp only [dispatch] at h; unfold execAuth at h
    repeat' split at h
    all_goals simp [fatalRes, hc'] at h
  | pub args size =>
    exfalso
    simp only [dispatch] at h; unfold execPub at h
    repeat' split at h
    all_goals simp [fatalRes, deniedRes, hc', cst] at h
  | mpub args size count sizes =>
    exfalso
    simp only [dispatch] at h; unfold execMpub at h
    repeat' split at h
    all_goals simp [fatalRes, deniedRes, hc', cst] at h
  | dpub args size =>
    exfalso
    simp only [dispatch] at h; unfold execDpub at h
    repeat' split at h
    all_goals simp [fatalRes, deniedRes, hc', cst] at h
  | rdy args =>
    exfalso
    simp only [dispatch] at h; unfold execRdy at h
    repeat' split at h
    all_goals simp [fatalRes, okRes, hc'] at h
  | fin args =>
    exfalso
    simp only [dispatch] at h; unfold execChanCmd at h
    repeat' split at h
    all_goals simp_all [fatalRes, okRes]
  | req args =>
    exfalso
    simp only [dispatch] at h; unfold execChanCmd at h
    repeat' split at h
    all_goals simp_all [fatalRes, okRes]
  | touch args =>
    exfalso
    simp only [dispatch] at h; unfold execChanCmd at h
    repeat' split at h
    all_goals simp_all [fatalRes, okRes]
  | cls =>
    exfalso
    simp only [dispatch] at h; unfold execCls at h
    repeat' split at h
    all_goals simp_all [fatalRes, okRes]
  | nop => exfalso; simp [dispatch, okRes, hc'] at h
  | unknown n => exfalso; simp [dispatch, fatalRes, hc'] at h

theorem execIdentify_state (cfg : Config) (c : Conn) (b : Broker) (d : IdentifyData) :
    (execIdentify cfg c b d).conn.state = c.state := by
  unfold execIdentify
  repeat' split
  all_goals simp [fatalRes, okRes]

theorem exec_state (E : Ext) (cfg : Config) (M : Matcher) (ans : Request → Option Resp)
    (now : Int) (c : Conn) (b : Broker) (cmd : Cmd)
    (h : (exec E cfg M ans now c b cmd).conn.state ≠ .init) :
    c.state ≠ .init ∨ ((∃ args, cmd = .sub args) ∧ (exec E cfg M ans now c b cmd).replies = [.ok]) := by
  cases cmd with
  | identify d =>
    left
    simp only [exec] at h
    rw [execIdentify_state] at h; exact h
  | _ =>
    simp only [exec] at h ⊢
    split at h
    · left; simpa [fatalRes] using h
    · rename_i hb
      simp only [hb]
      exact dispatch_state _ _ _ _ _ _ _ _ h

theorem after_state (r : Res) : (after r).conn.state = r.conn.state := by
  unfold after; split <;> rfl

theorem stepEv_state (E : Ext) (cfg : Config) (M : Matcher) (s : St) (e : Ev)
    (h : (after (stepEv E cfg M s e)).conn.state ≠ .init) :
    s.conn.state ≠ .init ∨
      IsSubSuccess { pre := s, ev := e, res := stepEv E cfg M s e, post := after (stepEv E cfg M s e) } := by
  rw [after_state] at h
  cases e with
  | env b' => left; simpa [stepEv] using h
  | cmd rd now ans c =>
    simp only [stepEv] at h ⊢
    by_cases hrd : rd = s.conn.rd
    · simp only [hrd, if_true] at h ⊢
      by_cases hcl : s.conn.closed = true
      · rw [step_closed _ _ _ _ _ _ _ _ hcl] at h; exact Or.inl h
      · have hcl' : s.conn.closed = false := by simpa using hcl
        rw [step_open _ _ _ _ _ _ _ _ hcl'] at h ⊢
        rcases exec_state E cfg M ans now s.conn s.broker c h with h1 | ⟨⟨args, hc⟩, h2⟩
        · exact Or.inl h1
        · right; exact ⟨s.conn.rd, now, ans, args, by rw [hc], h2⟩
    · simp only [hrd, if_false] at h; exact Or.inl h

/-- In any history, a connection that is no longer in its initial state had an earlier SUB
accepted (or started that way). -/
theorem trace_state (E : Ext) (cfg : Config) (M : Matcher) (evs : List Ev) (s : St)
    (pre : List Rec) (r : Rec) (post : List Rec)
    (h : trace E cfg M s evs = pre ++ r :: post) (ht : r.pre.conn.state ≠ .init) :
    s.conn.state ≠ .init ∨ ∃ q ∈ pre, IsSubSuccess q :=
  trace_inv E cfg M (fun s => s.conn.state ≠ .init) IsSubSuccess (stepEv_state E cfg M) evs s pre r post h ht

/-- an accepted SUB on an auth-enabled server was issued by a connection holding authorizations -/
theorem sub_success_hasAuth (E : Ext) (cfg : Config) (M : Matcher) (ans : Request → Option Resp)
    (now : Int) (c : Conn) (b : Broker) (args : List String) (hauth : cfg.authEnabled = true)
    (h : (step E cfg M ans now c b (.sub args)).replies = [.ok]) : hasAuthorizations c = true := by
  by_cases hcl : c.closed = true
  · rw [step_closed _ _ _ _ _ _ _ _ hcl] at h; simp at h
  have hcl' : c.closed = false := by simpa using hcl
  rw [step_open _ _ _ _ _ _ _ _ hcl'] at h
  by_cases hb : tlsBlocked cfg c = true
  · rw [exec_tls_blocked _ _ _ _ _ _ _ _ hb rfl] at h; simp [fatalRes] at h
  have hex : exec E cfg M ans now c b (.sub args) = execSub cfg M ans now c b args := by
    simp [exec, hb, dispatch]
  rw [hex] at h
  rcases execSub_cases cfg M ans now c b args with ⟨code, _, hr⟩ | ⟨code, _, hr⟩ | ⟨hd, _⟩
  · rw [hr] at h; simp [fatalRes] at h
  · rw [hr] at h; simp [deniedRes] at h
  · rw [checkAuth_deny _ _ _ _ _ _ _ hauth] at hd
    by_cases hha : hasAuthorizations c = true
    · exact hha
    · have : hasAuthorizations c = false := by simpa using hha
      simp [this] at hd

/-! ## byte provenance: the reader generation -/

theorem checkAuth_conn_rd (cfg : Config) (M : Matcher) (ans : Request → Option Resp) (now : Int)
    (c : Conn) (t ch : String) : (checkAuth cfg M ans now c t ch).conn.rd = c.rd := by
  rcases checkAuth_conn cfg M ans now c t ch with h | ⟨a, a', _, _, _, _, _, h⟩ <;> simp [h]

/-- No handler behind the dispatch switch replaces the reader. -/
theorem dispatch_rd (E : Ext) (cfg : Config) (M : Matcher) (ans : Request → Option Resp)
    (now : Int) (c : Conn) (b : Broker) (cmd : Cmd) :
    (dispatch E cfg M ans now c b cmd).conn.rd = c.rd := by
  cases cmd with
  | identify d => simp [dispatch, fatalRes]
  | auth args size secret =>
    simp only [dispatch]; unfold execAuth
    repeat' split
    all_goals simp [fatalRes]
  | pub args size =>
    simp only [dispatch]; unfold execPub
    repeat' split
    all_goals simp [fatalRes, deniedRes, checkAuth_conn_rd]
  | mpub args size count sizes =>
    simp only [dispatch]; unfold execMpub
    repeat' split
    all_goals simp [fatalRes, deniedRes, checkAuth_conn_rd]
  | dpub args size =>
    simp only [dispatch]; unfold execDpub
    repeat' split
    all_goals simp [fatalRes, deniedRes, checkAuth_conn_rd]
  | sub args =>
    simp only [dispatch]; unfold execSub
    repeat' split
    all_goals simp [fatalRes, deniedRes, checkAuth_conn_rd]
  | rdy args =>
    simp only [dispatch]; unfold execRdy
    repeat' split
    all_goals simp [fatalRes, okRes]
  | fin args =>
    simp only [dispatch]; unfold execChanCmd
    repeat' split
    all_goals simp [fatalRes, okRes]
  | req args =>
    simp only [dispatch]; unfold execChanCmd
    repeat' split
    all_goals simp [fatalRes, okRes]
  | touch args =>
    simp only [dispatch]; unfold execChanCmd
    repeat' split
    all_goals simp [fatalRes, okRes]
  | cls =>
    simp only [dispatch]; unfold execCls
    repeat' split
    all_goals simp [fatalRes, okRes]
  | nop => simp [dispatch, okRes]
  | unknown n => simp [dispatch, fatalRes]

/-- IDENTIFY: either flag and reader are untouched, or the handshake completed: flag up and a
fresh reader (over the decrypted stream) installed — never one without the other. -/
theorem execIdentify_rd (cfg : Config) (c : Conn) (b : Broker) (d : IdentifyData) :
    ((execIdentify cfg c b d).conn.tls = c.tls ∧ (execIdentify cfg c b d).conn.rd = c.rd) ∨
    ((execIdentify cfg c b d).conn.tls = true ∧ (execIdentify cfg c b d).conn.rd = c.rd + 1) := by
  unfold execIdentify
  repeat' split
  all_goals simp [fatalRes, okRes]

theorem exec_rd (E : Ext) (cfg : Config) (M : Matcher) (ans : Request → Option Resp)
    (now : Int) (c : Conn) (b : Broker) (cmd : Cmd) :
    ((exec E cfg M ans now c b cmd).conn.tls = c.tls ∧ (exec E cfg M ans now c b cmd).conn.rd = c.rd) ∨
    ((exec E cfg M ans now c b cmd).conn.tls = true ∧ (exec E cfg M ans now c b cmd).conn.rd = c.rd + 1) := by
  cases cmd with
  | identify d => simp only [exec]; exact execIdentify_rd cfg c b d
  | _ =>
    left
    simp only [exec]
    split
    · simp [fatalRes]
    · exact ⟨dispatch_tls .., dispatch_rd ..⟩

theorem after_rd (r : Res) : (after r).conn.rd = r.conn.rd := by
  unfold after; split <;> rfl

/-- "TLS flag up although still on the plaintext reader" is not a state any step can enter. -/
theorem stepEv_flag_reader (E : Ext) (cfg : Config) (M : Matcher) (s : St) (e : Ev)
    (h : (after (stepEv E cfg M s e)).conn.tls = true ∧ (after (stepEv E cfg M s e)).conn.rd = 0) :
    (s.conn.tls = true ∧ s.conn.rd = 0) ∨ False := by
  rw [after_tls, after_rd] at h
  left
  cases e with
  | env b' => simpa [stepEv] using h
  | cmd rd now ans c =>
    simp only [stepEv] at h
    by_cases hrd : rd = s.conn.rd
    · simp only [hrd, if_true] at h
      by_cases hcl : s.conn.closed = true
      · rw [step_closed _ _ _ _ _ _ _ _ hcl] at h; exact h
      · have hcl' : s.conn.closed = false := by simpa using hcl
        rw [step_open _ _ _ _ _ _ _ _ hcl'] at h
        rcases exec_rd E cfg M ans now s.conn s.broker c with ⟨h1, h2⟩ | ⟨_, h2⟩
        · rw [h1, h2] at h; exact h
        · rw [h2] at h; exact absurd h.2 (by omega)
    · simp only [hrd, if_false] at h; exact h

/-- In every history of a connection that starts on its plaintext reader without TLS, the TLS flag
is up only on a later reader generation: `tls = true → rd ≠ 0`. -/
theorem trace_flag_reader (E : Ext) (cfg : Config) (M : Matcher) (evs : List Ev) (s : St)
    (pre : List Rec) (r : Rec) (post : List Rec)
    (h : trace E cfg M s evs = pre ++ r :: post) (h0 : ¬ (s.conn.tls = true ∧ s.conn.rd = 0))
    (ht : r.pre.conn.tls = true) : r.pre.conn.rd ≠ 0 := by
  intro hz
  rcases trace_inv E cfg M (fun s => s.conn.tls = true ∧ s.conn.rd = 0) (fun _ => False)
      (stepEv_flag_reader E cfg M) evs s pre r post h ⟨ht, hz⟩ with h1 | ⟨_, _, hf⟩
  · exact h0 h1
  · exact hf

/-- a command event that changes the broker was read from the current reader -/
theorem stepEv_cmd_effect (E : Ext) (cfg : Config) (M : Matcher) (s : St) (rd : Nat) (now : Int)
    (ans : Request → Option Resp) (c : Cmd)
    (h : (stepEv E cfg M s (.cmd rd now ans c)).broker ≠ s.broker) :
    rd = s.conn.rd ∧ stepEv E cfg M s (.cmd rd now ans c) = step E cfg M ans now s.conn s.broker c := by
  simp only [stepEv] at h ⊢
  by_cases hrd : rd = s.conn.rd
  · simp [hrd]
  · simp [hrd] at h

/-! ## small concrete objects for the non-vacuity examples of `Nsq.Props.C11` -/

/-- FIN / REQ / TOUCH do nothing -/
def exE : Ext := { chanCmd := fun _ _ _ b => (b, []) }

/-- a toy regexp engine: everything compiles; `.*` matches everything, any other pattern only itself -/
def exM : Matcher := { compiles := fun _ => true, isMatch := fun p s => p == ".*" || p == s }

def exCfg (tls : TlsReq) (pol : CertPolicy) (auth : Bool) : Config :=
  { tlsRequired := tls, certPolicy := pol, hasTls := true, authEnabled := auth,
    maxBodySize := 1000, maxMsgSize := 100, maxReqTimeoutNs := 3600000000000 }

def exOpts (tls : TlsReq) (pol : String) (cert : Bool) (auth : Nat) : Options :=
  { tlsRequired := tls, clientAuthPolicy := pol, hasCert := cert, authAddrs := auth,
    maxBodySize := 1000, maxMsgSize := 100, maxReqTimeoutNs := 3600000000000 }

/-- an auth server that answers every request with these grants and this TTL -/
def exAns (ttl : Int) (gs : List Grant) : Request → Option Resp :=
  fun _ => some { ttl := ttl, grants := gs, identity := "bob", url := "" }

/-- a failing auth server -/
def exDown : Request → Option Resp := fun _ => none

def exIdentify (cert : ClientCert) : Cmd :=
  .identify { bodyOk := true, featureNegotiation := true, tlsv1 := true, hbOff := false, cert := cert }

/-- publish on `orders` for channel-less use, subscribe on `orders`/`c0` -/
def exGrants : List Grant :=
  [{ topic := "orders", channels := [".*"], perms := ["publish"] },
   { topic := "orders", channels := ["c0"], perms := ["subscribe"] }]

/-- a connection that authenticated at time 0 with TTL 10 -/
def exAuthed : Conn :=
  { Conn.fresh 7 with secret := "s", auth := some { grants := exGrants, expires := 10, identity := "bob", url := "" } }

end Nsq.Proofs.Gate
