import Nsq.Proofs.RegistryDB
/-! Refinement: every operation of the implementation-shaped model commutes with `abs`. -/
namespace Nsq.Proofs.RegistryRefine
open Nsq.Model.Registry Nsq.Model.Registry.AMap Nsq.Proofs.RegistryMap Nsq.Proofs.RegistryDB
open Nsq.Spec.RegistrySpec

theorem abs_init : abs init = Spec.init := by
  apply Spec.ext' <;> (funext; try funext; try funext) <;> simp [abs, init, Spec.init, has, getP, mget]

theorem identified_abs (r : Registry) (p : Nat) : (abs r).identified p = identifiedB r p := rfl

/-- the DB after the exit path of a connection -/
theorem getP_disconnectDB (db : DB) (p : Nat) (k : Key) (q : Nat) :
    getP (removeProducerAll db (lookupRegistrations db p) p) k q = if q = p then none else getP db k q := by
  rw [getP_removeProducerAll]
  by_cases hq : q = p
  · subst hq
    by_cases hk : k ∈ lookupRegistrations db q
    · simp [hk]
    · have : ¬ (getP db k q).isSome = true := fun h => hk (mem_lookupRegistrations_of db q k h)
      simp only [hk, false_and, if_false, if_true]
      cases h : getP db k q with
      | none => rfl
      | some _ => simp [h] at this
  · have : ¬ p = q := fun h => hq h.symm
    simp [hq, this]

theorem abs_disconnect (r : Registry) (p : Nat) : abs (disconnect r p) = (abs r).disconnect p := by
  unfold disconnect Spec.disconnect
  rw [identified_abs]
  cases h : identifiedB r p with
  | false => rfl
  | true =>
    simp only [if_true]
    apply Spec.ext'
    · funext t; simp [abs, has_removeProducerAll]
    · funext t c; simp [abs, has_removeProducerAll]
    · funext q t; simp only [abs, getP_disconnectDB]
      by_cases hq : q = p <;> simp [hq]
    · funext q t c; simp only [abs, getP_disconnectDB]
      by_cases hq : q = p <;> simp [hq]
    · funext q t τ; simp only [abs, getP_disconnectDB]
      by_cases hq : q = p <;> simp [hq]
    · funext q; simp only [abs, getP_disconnectDB]
      by_cases hq : q = p <;> simp [hq]
    · funext q; simp only [abs, mget_mdel]
      by_cases hq : q = p
      · simp [hq]
      · have : ¬ p = q := fun h => hq h.symm
        simp [hq, this]


theorem abs_identify (r : Registry) (p : Nat) (info : Info) (now : Int) :
    abs (identify r p info now).1 = (abs r).identify p info now := by
  unfold identify Spec.identify
  rw [identified_abs]
  cases h : identifiedB r p with
  | true => simp only [if_true]; exact abs_disconnect r p
  | false =>
    cases hm : missingFields info with
    | true => simp
    | false =>
      simp only [Bool.false_eq_true, if_false]
      apply Spec.ext'
      · funext t; simp [abs, has_addProducer, clientKey, topicKey]
      · funext t c; simp [abs, has_addProducer, clientKey, chanKey]
      · funext q t; simp [abs, getP_addProducer, clientKey, topicKey]
      · funext q t c; simp [abs, getP_addProducer, clientKey, chanKey]
      · funext q t τ; simp [abs, getP_addProducer, clientKey, topicKey]
      · funext q; simp only [abs, getP_addProducer, true_and]
        by_cases hq : p = q
        · subst hq
          cases hg : getP r.db clientKey p <;> simp [hg]
        · have : ¬ q = p := fun h => hq h.symm
          simp [hq, this]
      · funext q; simp only [abs, mget_mset]
        by_cases hq : p = q
        · simp [hq]
        · have : ¬ q = p := fun h => hq h.symm
          simp [hq, this]

theorem has_registerDB (db : DB) (p : Nat) (tc : TopicChan) (k' : Key) :
    has (registerDB db p tc) k' =
      (decide (topicKey tc.topic = k') || (decide (tc.chan ≠ []) && decide (chanKey tc.topic tc.chan = k')) || has db k') := by
  unfold registerDB
  rw [has_addProducer]
  by_cases hc : tc.chan = []
  · simp [hc]
  · simp [hc, has_addProducer, Bool.or_assoc]

theorem getP_registerDB (db : DB) (p : Nat) (tc : TopicChan) (k' : Key) (q : Nat) :
    getP (registerDB db p tc) k' q =
      if p = q ∧ getP db k' p = none ∧ (topicKey tc.topic = k' ∨ (tc.chan ≠ [] ∧ chanKey tc.topic tc.chan = k'))
      then some fresh else getP db k' q := by
  unfold registerDB
  rw [getP_addProducer]
  have hne : ¬ chanKey tc.topic tc.chan = topicKey tc.topic := by simp [chanKey, topicKey]
  by_cases hc : tc.chan = []
  · simp only [hc, ne_eq, not_true_eq_false, if_false, false_and, or_false]
    grind
  · simp only [hc, ne_eq, not_false_eq_true, if_true, true_and, getP_addProducer]
    grind

theorem validName_ne_star (t : Name) (h : validName t = true) : t ≠ star := by
  intro hs; subst hs; revert h; decide

theorem getTopicChan_ok (cmd : String) (params : List Name) (tc : TopicChan)
    (h : getTopicChan cmd params = .ok tc) :
    validName tc.topic = true ∧ (tc.chan ≠ [] → validName tc.chan = true) := by
  unfold getTopicChan at h
  cases params with
  | nil => simp at h
  | cons t rest =>
    simp only at h
    split at h
    · simp at h
    · split at h
      · simp at h
      · simp only [Except.ok.injEq] at h
        subst h
        grind

theorem isSome_getP_registerDB (db : DB) (p : Nat) (tc : TopicChan) (k' : Key) (q : Nat) :
    (getP (registerDB db p tc) k' q).isSome =
      ((decide (p = q) && (decide (topicKey tc.topic = k') ||
          (decide (tc.chan ≠ []) && decide (chanKey tc.topic tc.chan = k')))) || (getP db k' q).isSome) := by
  rw [getP_registerDB]
  by_cases hq : p = q
  · subst hq
    cases hg : getP db k' p with
    | some _ => simp
    | none =>
      by_cases hk : topicKey tc.topic = k' ∨ (tc.chan ≠ [] ∧ chanKey tc.topic tc.chan = k')
      · have := hk
        simp only [true_and, this, and_self, if_true, Option.isSome_some]
        cases hk with
        | inl h => simp [h]
        | inr h => simp [h.1, h.2]
      · have h1 : ¬ topicKey tc.topic = k' := fun h => hk (Or.inl h)
        have h2 : ¬ (tc.chan ≠ [] ∧ chanKey tc.topic tc.chan = k') := fun h => hk (Or.inr h)
        simp only [hk, and_false, if_false, Option.isSome_none]
        by_cases hc : tc.chan = []
        · simp [h1, hc]
        · have : ¬ chanKey tc.topic tc.chan = k' := fun h => h2 ⟨hc, h⟩
          simp [h1, this]
  · simp [hq]

theorem tomb_getP_registerDB (db : DB) (p : Nat) (tc : TopicChan) (k' : Key) (q : Nat) (τ : Int) :
    (getP (registerDB db p tc) k' q = some ⟨true, τ⟩) = (getP db k' q = some ⟨true, τ⟩) := by
  rw [getP_registerDB]
  split
  · rename_i h
    obtain ⟨h1, h2, _⟩ := h
    subst h1
    simp [h2, fresh]
  · rfl

theorem abs_registerTC (r : Registry) (p : Nat) (tc : TopicChan) :
    abs { r with db := registerDB r.db p tc } = (abs r).registerTC p tc := by
  unfold Spec.registerTC
  apply Spec.ext'
  · funext t; apply propext
    simp only [abs, has_registerDB, topicKey, chanKey]
    grind
  · funext t c; apply propext
    simp only [abs, has_registerDB, topicKey, chanKey]
    grind
  · funext q t; apply propext
    simp only [abs, isSome_getP_registerDB, topicKey, chanKey]
    grind
  · funext q t c; apply propext
    simp only [abs, isSome_getP_registerDB, topicKey, chanKey]
    grind
  · funext q t τ
    simp only [abs, tomb_getP_registerDB]
  · funext q
    simp only [abs, isSome_getP_registerDB, topicKey, chanKey, clientKey]
    grind
  · rfl

theorem abs_register (r : Registry) (p : Nat) (params : List Name) :
    abs (register r p params).1 = (abs r).register p params := by
  unfold register Spec.register
  rw [identified_abs]
  cases h : identifiedB r p with
  | false => simp
  | true =>
    simp only [Bool.not_true, Bool.false_eq_true, if_false]
    cases hg : getTopicChan "REGISTER" params with
    | error e => exact abs_disconnect r p
    | ok tc => exact abs_registerTC r p tc


/-! ### UNREGISTER -/

theorem getP_removeAndGC (db : DB) (k : Key) (p : Nat) (eph : Bool) (k' : Key) (q : Nat) :
    getP (removeAndGC db k p eph) k' q = if k = k' ∧ p = q then none else getP db k' q := by
  unfold removeAndGC
  split
  · rename_i h
    simp only [Bool.and_eq_true, decide_eq_true_eq] at h
    rw [getP_removeRegistration, getP_removeProducer]
    by_cases hk : k = k'
    · subst hk
      by_cases hq : p = q
      · simp [hq]
      · have := (left_zero_iff db k p).mp h.1 q (fun x => hq x.symm)
        simp [hq, this]
    · simp [hk]
  · exact getP_removeProducer db k k' p q

theorem has_removeAndGC (db : DB) (k : Key) (p : Nat) (eph : Bool) (k' : Key) :
    has (removeAndGC db k p eph) k' = true ↔
      has db k' = true ∧ ¬ (k = k' ∧ eph = true ∧ ∀ q, q ≠ p → getP db k q = none) := by
  unfold removeAndGC
  split
  · rename_i h
    simp only [Bool.and_eq_true, decide_eq_true_eq] at h
    rw [has_removeRegistration, has_removeProducer]
    have hl := (left_zero_iff db k p).mp h.1
    by_cases hk : k = k'
    · subst hk; simp [h.2]; intro _; exact hl
    · simp [hk]
  · rename_i h
    simp only [Bool.and_eq_true, decide_eq_true_eq, not_and] at h
    rw [has_removeProducer]
    constructor
    · intro hh
      refine ⟨hh, ?_⟩
      intro ⟨_, he, hq⟩
      exact h ((left_zero_iff db k p).mpr hq) he
    · intro hh; exact hh.1

theorem isMatch_chan_star (t t' c' : Name) (ht : t ≠ star) :
    isMatch (chanKey t' c') .channel t star = true ↔ t' = t := by
  unfold isMatch chanKey
  simp [ht]

theorem has_of_getP (db : DB) (k : Key) (q : Nat) (h : (getP db k q).isSome = true) : has db k = true := by
  unfold getP at h; unfold has
  cases hg : mget db k with
  | none => simp [hg] at h
  | some _ => rfl

theorem getP_unregisterDB (db : DB) (p : Nat) (tc : TopicChan) (k' : Key) (q : Nat)
    (ht : tc.topic ≠ star) :
    getP (unregisterDB db p tc) k' q =
      if p = q ∧ ((tc.chan ≠ [] ∧ k' = chanKey tc.topic tc.chan) ∨
          (tc.chan = [] ∧ (k' = topicKey tc.topic ∨
            (has db k' = true ∧ isMatch k' .channel tc.topic star = true))))
      then none else getP db k' q := by
  unfold unregisterDB
  by_cases hc : tc.chan = []
  · simp only [hc, ne_eq, not_true_eq_false, if_false, false_and, true_and, false_or]
    rw [getP_removeAndGC, getP_removeProducerAll]
    simp only [mem_findRegistrations]
    by_cases hq : p = q
    · subst hq
      by_cases h1 : topicKey tc.topic = k'
      · subst h1; simp
      · have h1' : ¬ k' = topicKey tc.topic := fun h => h1 h.symm
        simp [h1, h1']
    · simp [hq]
  · simp only [hc, ne_eq, not_false_eq_true, if_true, true_and, false_and, or_false]
    rw [getP_removeAndGC]
    by_cases hq : p = q
    · subst hq
      by_cases h1 : chanKey tc.topic tc.chan = k'
      · subst h1; simp
      · have h1' : ¬ k' = chanKey tc.topic tc.chan := fun h => h1 h.symm
        simp [h1, h1']
    · simp [hq]

theorem has_unregisterDB (db : DB) (p : Nat) (tc : TopicChan) (k' : Key) :
    has (unregisterDB db p tc) k' = true ↔
      has db k' = true ∧
        ¬ ((tc.chan ≠ [] ∧ k' = chanKey tc.topic tc.chan ∧ isEphemeral tc.chan = true ∧
              ∀ q, q ≠ p → getP db (chanKey tc.topic tc.chan) q = none) ∨
           (tc.chan = [] ∧ k' = topicKey tc.topic ∧ isEphemeral tc.topic = true ∧
              ∀ q, q ≠ p → getP db (topicKey tc.topic) q = none)) := by
  unfold unregisterDB
  by_cases hc : tc.chan = []
  · simp only [hc, ne_eq, not_true_eq_false, if_false, false_and, true_and, false_or]
    rw [has_removeAndGC, has_removeProducerAll]
    have : ∀ q, q ≠ p →
        (getP (removeProducerAll db (findRegistrations db .channel tc.topic star) p) (topicKey tc.topic) q
          = getP db (topicKey tc.topic) q) := by
      intro q hq
      rw [getP_removeProducerAll]
      have : ¬ p = q := fun h => hq h.symm
      simp [this]
    constructor
    · intro ⟨h1, h2⟩
      refine ⟨h1, ?_⟩
      intro ⟨a, b, c⟩
      apply h2
      refine ⟨a.symm, b, ?_⟩
      intro q hq; rw [this q hq]; exact c q hq
    · intro ⟨h1, h2⟩
      refine ⟨h1, ?_⟩
      intro ⟨a, b, c⟩
      apply h2
      refine ⟨a.symm, b, ?_⟩
      intro q hq; rw [← this q hq]; exact c q hq
  · simp only [hc, ne_eq, not_false_eq_true, if_true, true_and, false_and, or_false]
    rw [has_removeAndGC]
    constructor
    · intro ⟨h1, h2⟩; exact ⟨h1, fun ⟨a, b, c⟩ => h2 ⟨a.symm, b, c⟩⟩
    · intro ⟨h1, h2⟩; exact ⟨h1, fun ⟨a, b, c⟩ => h2 ⟨a.symm, b, c⟩⟩

theorem none_iff_not_isSome {α : Type} (x : Option α) : x = none ↔ ¬ x.isSome = true := by
  cases x <;> simp

theorem abs_unregisterChan (r : Registry) (p : Nat) (tc : TopicChan) (hc : tc.chan ≠ [])
    (ht : tc.topic ≠ star) :
    abs { r with db := unregisterDB r.db p tc } = (abs r).unregisterChan p tc.topic tc.chan := by
  unfold Spec.unregisterChan
  apply Spec.ext'
  · funext t; apply propext
    simp only [abs, has_unregisterDB, hc, topicKey, chanKey]
    grind
  · funext t c; apply propext
    simp only [abs, has_unregisterDB, hc, none_iff_not_isSome, chanKey]
    grind
  · funext q t
    simp only [abs, getP_unregisterDB _ _ _ _ _ ht, hc, topicKey, chanKey]
    grind
  · funext q t c; apply propext
    simp only [abs, getP_unregisterDB _ _ _ _ _ ht, hc, topicKey, chanKey]
    grind
  · funext q t τ
    simp only [abs, getP_unregisterDB _ _ _ _ _ ht, hc, topicKey, chanKey]
    grind
  · funext q
    simp only [abs, getP_unregisterDB _ _ _ _ _ ht, hc, clientKey, chanKey]
    grind
  · rfl

theorem abs_unregisterTopic (r : Registry) (p : Nat) (tc : TopicChan) (hc : tc.chan = [])
    (ht : tc.topic ≠ star) :
    abs { r with db := unregisterDB r.db p tc } = (abs r).unregisterTopic p tc.topic := by
  unfold Spec.unregisterTopic
  apply Spec.ext'
  · funext t; apply propext
    simp only [abs, has_unregisterDB, hc, none_iff_not_isSome, topicKey]
    grind
  · funext t c; apply propext
    simp only [abs, has_unregisterDB, hc, topicKey, chanKey]
    grind
  · funext q t; apply propext
    simp only [abs, getP_unregisterDB _ _ _ _ _ ht, hc, isMatch, topicKey]
    grind
  · funext q t c; apply propext
    have hh := has_of_getP r.db (chanKey t c) q
    simp only [abs, getP_unregisterDB _ _ _ _ _ ht, hc, isMatch_chan_star _ _ _ ht]
    simp only [topicKey, chanKey] at hh ⊢
    grind
  · funext q t τ; apply propext
    simp only [abs, getP_unregisterDB _ _ _ _ _ ht, hc, isMatch, topicKey]
    grind
  · funext q
    simp only [abs, getP_unregisterDB _ _ _ _ _ ht, hc, isMatch, clientKey, topicKey]
    grind
  · rfl

theorem abs_unregister (r : Registry) (p : Nat) (params : List Name) :
    abs (unregister r p params).1 = (abs r).unregister p params := by
  unfold unregister Spec.unregister
  rw [identified_abs]
  cases h : identifiedB r p with
  | false => simp
  | true =>
    simp only [Bool.not_true, Bool.false_eq_true, if_false]
    cases hg : getTopicChan "UNREGISTER" params with
    | error e => exact abs_disconnect r p
    | ok tc =>
      have hv := getTopicChan_ok _ _ _ hg
      have ht := validName_ne_star _ hv.1
      simp only
      by_cases hc : tc.chan = []
      · simp only [hc, ne_eq, not_true_eq_false, if_false]
        exact abs_unregisterTopic r p tc hc ht
      · simp only [hc, ne_eq, not_false_eq_true, if_true]
        exact abs_unregisterChan r p tc hc ht


/-! ### PING and the admin calls -/

theorem abs_ping (r : Registry) (p : Nat) (now : Int) : abs (ping r p now) = (abs r).ping p now := by
  unfold ping Spec.ping
  cases h : mget r.peers p with
  | none =>
    apply Spec.ext' <;> try rfl
    funext q
    simp only [abs]
    by_cases hq : q = p
    · subst hq; simp [h]
    · simp [hq]
  | some pr =>
    apply Spec.ext' <;> try rfl
    funext q
    simp only [abs, mget_mset]
    by_cases hq : q = p
    · subst hq; simp [h]
    · have : ¬ p = q := fun x => hq x.symm
      simp [hq, this]

theorem abs_createTopic (r : Registry) (a : HttpArgs) :
    abs (createTopic r a).1 = (abs r).createTopic a := by
  unfold createTopic Spec.createTopic
  cases a.badQuery with
  | true => rfl
  | false =>
    simp only [Bool.false_eq_true, if_false]
    cases a.topic with
    | none => rfl
    | some t =>
      simp only
      cases validName t with
      | false => rfl
      | true =>
        simp only [Bool.not_true, Bool.false_eq_true, if_false]
        apply Spec.ext'
        · funext t'; apply propext
          simp only [abs, has_addRegistration, topicKey]; grind
        · funext t' c; simp [abs, has_addRegistration, topicKey, chanKey]
        · funext q t'; simp [abs, getP_addRegistration]
        · funext q t' c; simp [abs, getP_addRegistration]
        · funext q t' τ; simp [abs, getP_addRegistration]
        · funext q; simp [abs, getP_addRegistration]
        · rfl

theorem abs_createChannel (r : Registry) (a : HttpArgs) :
    abs (createChannel r a).1 = (abs r).createChannel a := by
  unfold createChannel Spec.createChannel
  cases a.badQuery with
  | true => rfl
  | false =>
    simp only [Bool.false_eq_true, if_false]
    cases getTopicChannelArgs a with
    | error e => rfl
    | ok tc =>
      simp only
      apply Spec.ext'
      · funext t'; apply propext
        simp only [abs, has_addRegistration, topicKey, chanKey]; grind
      · funext t' c; apply propext
        simp only [abs, has_addRegistration, topicKey, chanKey]; grind
      · funext q t'; simp [abs, getP_addRegistration]
      · funext q t' c; simp [abs, getP_addRegistration]
      · funext q t' τ; simp [abs, getP_addRegistration]
      · funext q; simp [abs, getP_addRegistration]
      · rfl

theorem getTopicChannelArgs_ok (a : HttpArgs) (tc : TopicChan) (h : getTopicChannelArgs a = .ok tc) :
    validName tc.topic = true ∧ validName tc.chan = true := by
  unfold getTopicChannelArgs at h
  cases ht : a.topic with
  | none => simp [ht] at h
  | some t =>
    cases hc : a.channel with
    | none => simp only [ht, hc] at h; split at h <;> simp at h
    | some c =>
      simp only [ht, hc] at h
      split at h
      · simp at h
      · split at h
        · simp at h
        · simp only [Except.ok.injEq] at h
          subst h
          grind

theorem isMatch_exactKey (k : Key) (t c : Name) (ht : t ≠ star) (hc : c ≠ star) :
    isMatch k .channel t c = true ↔ k = chanKey t c := by
  apply isMatch_exact
  simp [needFilter, ht, hc]

theorem abs_deleteChannel (r : Registry) (a : HttpArgs) :
    abs (deleteChannel r a).1 = (abs r).deleteChannel a := by
  unfold deleteChannel Spec.deleteChannel
  cases a.badQuery with
  | true => rfl
  | false =>
    simp only [Bool.false_eq_true, if_false]
    cases hg : getTopicChannelArgs a with
    | error e => rfl
    | ok tc =>
      have hv := getTopicChannelArgs_ok a tc hg
      have ht := validName_ne_star _ hv.1
      have hc := validName_ne_star _ hv.2
      have hm := fun k => isMatch_exactKey k tc.topic tc.chan ht hc
      simp only
      by_cases he : (findRegistrations r.db .channel tc.topic tc.chan).isEmpty = true
      · -- 404: the channel is not known; nothing changes, and the spec step is the identity there
        simp only [he, if_true]
        have hno : has r.db (chanKey tc.topic tc.chan) = false := by
          cases hh : has r.db (chanKey tc.topic tc.chan) with
          | false => rfl
          | true =>
            have : chanKey tc.topic tc.chan ∈ findRegistrations r.db .channel tc.topic tc.chan := by
              rw [mem_findRegistrations]; exact ⟨hh, (hm _).mpr rfl⟩
            rw [List.isEmpty_iff] at he
            rw [he] at this; simp at this
        apply Spec.ext' <;> try rfl
        · funext t c; apply propext
          simp only [abs, chanKey] at hno ⊢
          grind
        · funext q t c; apply propext
          have hh := has_of_getP r.db (chanKey t c) q
          simp only [abs, chanKey] at hno hh ⊢
          grind
      · rw [if_neg he]
        apply Spec.ext'
        · funext t; apply propext
          simp only [abs, has_removeRegistrations, mem_findRegistrations, hm, topicKey, chanKey]; grind
        · funext t c; apply propext
          simp only [abs, has_removeRegistrations, mem_findRegistrations, hm, topicKey, chanKey]; grind
        · funext q t; apply propext
          simp only [abs, getP_removeRegistrations, mem_findRegistrations, hm, topicKey, chanKey]; grind
        · funext q t c; apply propext
          have hh := has_of_getP r.db (chanKey t c) q
          simp only [abs, getP_removeRegistrations, mem_findRegistrations, hm, topicKey, chanKey] at hh ⊢; grind
        · funext q t τ; apply propext
          simp only [abs, getP_removeRegistrations, mem_findRegistrations, hm, topicKey, chanKey]; grind
        · funext q
          simp only [abs, getP_removeRegistrations, mem_findRegistrations, hm, clientKey, chanKey]; grind
        · rfl


/-! ### /topic/delete and /topic/tombstone -/

theorem getP_none_of_not_has (db : DB) (k : Key) (q : Nat) (h : has db k = false) : getP db k q = none := by
  cases hg : getP db k q with
  | none => rfl
  | some _ =>
    have := has_of_getP db k q (by simp [hg])
    simp [this] at h

theorem has_deleteTopicDB (db : DB) (t : Name) (k' : Key) :
    has (deleteTopicDB db t) k' = true ↔
      has db k' = true ∧ ¬ isMatch k' .channel t star = true ∧ ¬ isMatch k' .topic t [] = true := by
  unfold deleteTopicDB
  simp only [has_removeRegistrations, mem_findRegistrations, Bool.and_eq_true, Bool.not_eq_true',
    decide_eq_false_iff_not, decide_eq_true_eq]
  grind

theorem getP_deleteTopicDB (db : DB) (t : Name) (k' : Key) (q : Nat) :
    getP (deleteTopicDB db t) k' q =
      if isMatch k' .channel t star = true ∨ isMatch k' .topic t [] = true then none else getP db k' q := by
  unfold deleteTopicDB
  simp only [getP_removeRegistrations, mem_findRegistrations, has_removeRegistrations,
    Bool.and_eq_true, Bool.not_eq_true', decide_eq_false_iff_not, decide_eq_true_eq]
  cases hh : has db k' with
  | false =>
    have := getP_none_of_not_has db k' q hh
    simp [this]
  | true =>
    by_cases h1 : isMatch k' .channel t star = true <;> by_cases h2 : isMatch k' .topic t [] = true <;>
      simp [h1, h2]

theorem isMatch_topicKey_topic (t t' : Name) : isMatch (topicKey t') .topic t [] = true ↔ tmatch t t' := by
  unfold isMatch topicKey tmatch
  simp

theorem isMatch_chanKey_chanStar (t t' c : Name) : isMatch (chanKey t' c) .channel t star = true ↔ tmatch t t' := by
  unfold isMatch chanKey tmatch
  simp

theorem abs_deleteTopic (r : Registry) (a : HttpArgs) :
    abs (deleteTopic r a).1 = (abs r).deleteTopic a := by
  unfold deleteTopic Spec.deleteTopic
  cases a.badQuery with
  | true => rfl
  | false =>
    simp only [Bool.false_eq_true, if_false]
    cases a.topic with
    | none => rfl
    | some t =>
      simp only
      have e1 : ∀ t', isMatch (topicKey t') .channel t star = false := by intro t'; simp [isMatch, topicKey]
      have e2 : ∀ t' c, isMatch (chanKey t' c) .topic t [] = false := by intro t' c; simp [isMatch, chanKey]
      have e3 : isMatch clientKey .topic t [] = false := by simp [isMatch, clientKey]
      have e4 : isMatch clientKey .channel t star = false := by simp [isMatch, clientKey]
      apply Spec.ext'
      · funext t'; apply propext
        have m1 := isMatch_topicKey_topic t t'
        have m2 := e1 t'
        simp only [abs, has_deleteTopicDB]; grind
      · funext t' c; apply propext
        have m1 := isMatch_chanKey_chanStar t t' c
        have m2 := e2 t' c
        simp only [abs, has_deleteTopicDB]; grind
      · funext q t'; apply propext
        have m1 := isMatch_topicKey_topic t t'
        have m2 := e1 t'
        simp only [abs, getP_deleteTopicDB]; grind
      · funext q t' c; apply propext
        have m1 := isMatch_chanKey_chanStar t t' c
        have m2 := e2 t' c
        simp only [abs, getP_deleteTopicDB]; grind
      · funext q t' τ; apply propext
        have m1 := isMatch_topicKey_topic t t'
        have m2 := e1 t'
        simp only [abs, getP_deleteTopicDB]; grind
      · funext q
        simp only [abs, getP_deleteTopicDB, e3, e4]; simp
      · rfl

theorem tombstonePM_eq (r : Registry) (pm : PMap) (node : Name) (now : Int) :
    tombstonePM r pm node now =
      pm.map (fun e => (e.1, (fun id tb => if nodeMatches r id node then (⟨true, now⟩ : Tomb) else tb) e.1 e.2)) := by
  unfold tombstonePM
  apply List.map_congr_left
  intro e _
  by_cases h : nodeMatches r e.1 node = true <;> simp [h]

theorem has_tombstoneDB (r : Registry) (t node : Name) (now : Int) (ht : t ≠ star) (k' : Key) :
    has (tombstoneDB r t node now) k' = has r.db k' := by
  unfold tombstoneDB
  simp only [ht, if_false]
  cases hg : mget r.db (topicKey t) with
  | none => rfl
  | some pm =>
    simp only [has, mget_mset]
    by_cases hk : topicKey t = k'
    · subst hk; simp [hg]
    · simp [hk]

theorem getP_tombstoneDB (r : Registry) (t node : Name) (now : Int) (ht : t ≠ star) (k' : Key) (q : Nat) :
    getP (tombstoneDB r t node now) k' q =
      if k' = topicKey t ∧ nodeMatches r q node = true then (getP r.db k' q).map (fun _ => ⟨true, now⟩)
      else getP r.db k' q := by
  unfold tombstoneDB
  simp only [ht, if_false]
  cases hg : mget r.db (topicKey t) with
  | none =>
    by_cases hk : k' = topicKey t
    · subst hk; simp [getP, hg]
    · simp [hk]
  | some pm =>
    simp only [getP, mget_mset]
    by_cases hk : topicKey t = k'
    · subst hk
      simp only [if_true, Option.bind_some, hg, true_and]
      rw [tombstonePM_eq, mget_map_val pm (fun id tb => if nodeMatches r id node then (⟨true, now⟩ : Tomb) else tb) q]
      by_cases hn : nodeMatches r q node = true
      · simp [hn]
      · simp [hn]
    · have : ¬ k' = topicKey t := fun h => hk h.symm
      simp [hk, this]

theorem nodeIs_abs (r : Registry) (q : Nat) (node : Name) :
    (abs r).nodeIs q node ↔ nodeMatches r q node = true := by
  unfold Spec.nodeIs nodeMatches
  simp only [abs]
  cases mget r.peers q with
  | none => simp
  | some pr => simp

theorem abs_tombstone (r : Registry) (a : HttpArgs) (now : Int) (hm : a.topic ≠ some star) :
    abs (tombstone r a now).1 = (abs r).tombstone a now := by
  unfold tombstone Spec.tombstone
  cases a.badQuery with
  | true => rfl
  | false =>
    simp only [Bool.false_eq_true, if_false]
    cases ht : a.topic with
    | none => rfl
    | some t =>
      have hts : t ≠ star := by intro h; apply hm; rw [ht, h]
      cases a.node with
      | none => rfl
      | some node =>
        simp only
        apply Spec.ext'
        · funext t'; simp [abs, has_tombstoneDB _ _ _ _ hts]
        · funext t' c; simp [abs, has_tombstoneDB _ _ _ _ hts]
        · funext q t'; apply propext
          simp only [abs, getP_tombstoneDB _ _ _ _ hts]
          split <;> simp
        · funext q t' c; apply propext
          simp only [abs, getP_tombstoneDB _ _ _ _ hts, chanKey, topicKey]
          simp
        · funext q t' τ; apply propext
          simp only [nodeIs_abs]
          simp only [abs, getP_tombstoneDB _ _ _ _ hts, topicKey]
          by_cases h1 : t' = t
          · subst h1
            by_cases h2 : nodeMatches r q node = true
            · simp only [h2, and_self, if_true, true_and, not_true_eq_false, and_false, or_false]
              cases hg : getP r.db { cat := .topic, key := t', sub := [] } q with
              | none => simp
              | some tb => simp; exact eq_comm
            · simp [h2]
          · simp [h1]
        · funext q
          simp only [abs, getP_tombstoneDB _ _ _ _ hts, clientKey, topicKey]
          simp
        · rfl

/-! ### The refinement theorem -/

theorem abs_step (r : Registry) (op : Op) (h : op.modelled = true) :
    abs (step r op).1 = (abs r).step op := by
  cases op with
  | identify p info now => exact abs_identify r p info now
  | register p params => exact abs_register r p params
  | unregister p params => exact abs_unregister r p params
  | ping p now => exact abs_ping r p now
  | disconnect p => exact abs_disconnect r p
  | createTopic a => exact abs_createTopic r a
  | deleteTopic a => exact abs_deleteTopic r a
  | createChannel a => exact abs_createChannel r a
  | deleteChannel a => exact abs_deleteChannel r a
  | tombstone a now =>
    apply abs_tombstone r a now
    simpa [Op.modelled] using h

theorem abs_run (r : Registry) (ops : List Op) (h : ∀ op ∈ ops, op.modelled = true) :
    abs (run r ops) = (abs r).run ops := by
  induction ops generalizing r with
  | nil => rfl
  | cons op ops ih =>
    simp only [run, Spec.run]
    rw [ih _ (fun o ho => h o (List.mem_cons_of_mem _ ho)), abs_step r op (h op List.mem_cons_self)]

end Nsq.Proofs.RegistryRefine
