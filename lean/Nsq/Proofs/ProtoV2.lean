import Nsq.Model.ProtoV2
import Nsq.Spec.ProtoSpec
import Nsq.Proofs.Mpub
/-! Helper lemmas about the TCP protocol model (`Nsq.Model.ProtoV2`). -/
namespace Nsq.Proofs.ProtoV2
open Nsq.Model.ProtoV2 Nsq.Model.Names Nsq.Model.Base10 Nsq.Model Nsq.Spec.ProtoSpec

/-! ## No step panics: every `make` is preceded by its range check -/

theorem readBody_ne_panic (limit : Int) (bs : Bytes) : readBody limit bs ≠ .panic := by
  unfold readBody
  split
  · simp
  · split
    · simp
    · split
      · simp
      · split
        · omega
        · split <;> simp

theorem readMsgs_ne_panic (maxMsg : Int) (k : Nat) (bs : Bytes) (acc : List Bytes) :
    Mpub.readMsgs maxMsg k bs acc ≠ .panic := by
  induction k generalizing bs acc with
  | zero => simp [Mpub.readMsgs]
  | succ k ih =>
    unfold Mpub.readMsgs
    split
    · simp
    · split
      · simp
      · split
        · simp
        · split
          · omega
          · split
            · simp
            · exact ih _ _

theorem readMPUB_ne_panic (maxMsg maxBody : Int) (bs : Bytes) :
    Mpub.readMPUB maxMsg maxBody bs ≠ .panic := by
  unfold Mpub.readMPUB
  split
  · simp
  · split
    · simp
    · split
      · omega
      · exact readMsgs_ne_panic _ _ _ _


theorem identify_ctl (conf : Conf) (s : ConnState) (b : Broker) (rest : Bytes) :
    (identify conf s b rest).ctl ≠ .panic := by
  unfold identify
  repeat' split
  all_goals simp_all [fatal, done, panicStep, readBody_ne_panic]

theorem auth_ctl (conf : Conf) (s : ConnState) (b : Broker) (ps : List Bytes) (rest : Bytes) :
    (auth conf s b ps rest).ctl ≠ .panic := by
  unfold auth authStep
  repeat' split
  all_goals simp_all [fatal, done, panicStep, readBody_ne_panic]

theorem pubBody_ctl (conf : Conf) (s : ConnState) (b : Broker) (t : Bytes) (d : Int) (rest : Bytes) :
    (pubBody conf s b t d rest).ctl ≠ .panic := by
  unfold pubBody
  repeat' split
  all_goals simp_all [fatal, done, panicStep, readBody_ne_panic]

theorem mpub_ctl (conf : Conf) (s : ConnState) (b : Broker) (ps : List Bytes) (rest : Bytes) :
    (mpub conf s b ps rest).ctl ≠ .panic := by
  unfold mpub
  repeat' split
  all_goals simp_all [fatal, done, panicStep, readMPUB_ne_panic]

theorem rdy_ctl (conf : Conf) (s : ConnState) (b : Broker) (ps : List Bytes) (rest : Bytes) :
    (rdy conf s b ps rest).ctl ≠ .panic := by
  unfold rdy rdySet
  repeat' split
  all_goals simp_all [fatal, done]

theorem fin_ctl (s : ConnState) (b : Broker) (ps : List Bytes) (rest : Bytes) :
    (fin s b ps rest).ctl ≠ .panic := by
  unfold fin
  repeat' split
  all_goals simp_all [fatal, done, nonfatal]

theorem req_ctl (conf : Conf) (s : ConnState) (b : Broker) (ps : List Bytes) (rest : Bytes) :
    (req conf s b ps rest).ctl ≠ .panic := by
  unfold req
  repeat' split
  all_goals simp_all [fatal, done, nonfatal]

theorem touch_ctl (s : ConnState) (b : Broker) (ps : List Bytes) (rest : Bytes) :
    (touch s b ps rest).ctl ≠ .panic := by
  unfold touch
  repeat' split
  all_goals simp_all [fatal, done, nonfatal]

theorem sub_ctl (conf : Conf) (s : ConnState) (b : Broker) (ps : List Bytes) (rest : Bytes) :
    (sub conf s b ps rest).ctl ≠ .panic := by
  unfold sub
  repeat' split
  all_goals simp_all [fatal, done]

theorem cls_ctl (s : ConnState) (b : Broker) (rest : Bytes) : (cls s b rest).ctl ≠ .panic := by
  unfold cls
  split <;> simp [fatal, done]

theorem pub_ctl (conf : Conf) (s : ConnState) (b : Broker) (ps : List Bytes) (rest : Bytes) :
    (pub conf s b ps rest).ctl ≠ .panic := by
  unfold pub
  repeat' split
  all_goals first | exact pubBody_ctl _ _ _ _ _ _ | simp [fatal]

theorem dpub_ctl (conf : Conf) (s : ConnState) (b : Broker) (ps : List Bytes) (rest : Bytes) :
    (dpub conf s b ps rest).ctl ≠ .panic := by
  unfold dpub
  repeat' split
  all_goals first | exact pubBody_ctl _ _ _ _ _ _ | simp [fatal]

theorem P_ite {α : Type} (P : α → Prop) (c : Prop) [Decidable c] (a b : α)
    (ha : c → P a) (hb : ¬c → P b) : P (if c then a else b) := by
  by_cases h : c
  · simp only [h, if_true]; exact ha h
  · simp only [h, if_false]; exact hb h

/-- Case analysis over the dispatch of `Exec`: a property of every handler's result (and of the
two direct results) is a property of `exec`. -/
theorem exec_cases (P : Step → Prop) (conf : Conf) (s : ConnState) (b : Broker) (ps : List Bytes)
    (rest : Bytes)
    (hfatal : P (fatal .E_INVALID s b)) (hnop : P (done none s b rest []))
    (hid : P (identify conf s b rest)) (hfin : P (fin s b ps rest)) (hrdy : P (rdy conf s b ps rest))
    (hreq : P (req conf s b ps rest)) (hpub : P (pub conf s b ps rest))
    (hmpub : P (mpub conf s b ps rest)) (hdpub : P (dpub conf s b ps rest))
    (htouch : P (touch s b ps rest)) (hsub : P (sub conf s b ps rest)) (hcls : P (cls s b rest))
    (hauth : P (auth conf s b ps rest)) : P (exec conf s b ps rest) := by
  unfold exec
  split
  · exact hfatal
  · refine P_ite P _ _ _ (fun _ => hid) (fun _ => ?_)
    refine P_ite P _ _ _ (fun _ => hfatal) (fun _ => ?_)
    refine P_ite P _ _ _ (fun _ => hfin) (fun _ => ?_)
    refine P_ite P _ _ _ (fun _ => hrdy) (fun _ => ?_)
    refine P_ite P _ _ _ (fun _ => hreq) (fun _ => ?_)
    refine P_ite P _ _ _ (fun _ => hpub) (fun _ => ?_)
    refine P_ite P _ _ _ (fun _ => hmpub) (fun _ => ?_)
    refine P_ite P _ _ _ (fun _ => hdpub) (fun _ => ?_)
    refine P_ite P _ _ _ (fun _ => hnop) (fun _ => ?_)
    refine P_ite P _ _ _ (fun _ => htouch) (fun _ => ?_)
    refine P_ite P _ _ _ (fun _ => hsub) (fun _ => ?_)
    refine P_ite P _ _ _ (fun _ => hcls) (fun _ => ?_)
    exact P_ite P _ _ _ (fun _ => hauth) (fun _ => hfatal)

/-- No command handler reaches a `make` with a negative size (or any other panic). -/
theorem exec_ctl (conf : Conf) (s : ConnState) (b : Broker) (ps : List Bytes) (rest : Bytes) :
    (exec conf s b ps rest).ctl ≠ .panic := by
  apply exec_cases (fun x => x.ctl ≠ .panic)
  · simp [fatal]
  · simp [done]
  · exact identify_ctl _ _ _ _
  · exact fin_ctl _ _ _ _
  · exact rdy_ctl _ _ _ _ _
  · exact req_ctl _ _ _ _ _
  · exact pub_ctl _ _ _ _ _
  · exact mpub_ctl _ _ _ _ _
  · exact dpub_ctl _ _ _ _ _
  · exact touch_ctl _ _ _ _
  · exact sub_ctl _ _ _ _ _
  · exact cls_ctl _ _ _
  · exact auth_ctl _ _ _ _ _


/-! ## Every step consumes input: the loop terminates within `length + 1` iterations -/

theorem splitLine_len : ∀ (bs l r : Bytes), splitLine bs = some (l, r) → bs.length = l.length + 1 + r.length
  | [], l, r, h => by simp [splitLine] at h
  | c :: cs, l, r, h => by
    unfold splitLine at h
    split at h
    · simp at h; obtain ⟨rfl, rfl⟩ := h; simp; omega
    · split at h
      · simp at h
      · rename_i l' r' heq
        simp at h
        obtain ⟨rfl, rfl⟩ := h
        have := splitLine_len cs l' r' heq
        simp; omega

theorem readLine_len (bs l rest : Bytes) (h : readLine bs = .line l rest) : rest.length < bs.length := by
  unfold readLine at h
  split at h
  · rename_i l' r' heq
    split at h
    · simp at h
      obtain ⟨_, rfl⟩ := h
      have := splitLine_len bs l' r' heq
      omega
    · simp at h
  · split at h <;> simp at h

theorem readLen_len (bs : Bytes) (n : Int) (r : Bytes) (h : readLen bs = some (n, r)) :
    bs.length = r.length + 4 := by
  unfold readLen at h
  split at h
  · simp at h; obtain ⟨_, rfl⟩ := h; simp
  · simp at h

theorem readBody_len (limit : Int) (bs body r : Bytes) (h : readBody limit bs = .ok body r) :
    r.length ≤ bs.length := by
  unfold readBody at h
  split at h
  · simp at h
  · rename_i n r' heq
    have := readLen_len bs n r' heq
    split at h
    · simp at h
    · split at h
      · simp at h
      · split at h
        · simp at h
        · split at h
          · simp at h
          · simp at h
            obtain ⟨_, rfl⟩ := h
            simp; omega

theorem readMsgs_len (maxMsg : Int) : ∀ (k : Nat) (bs : Bytes) (acc bodies : List Bytes) (r : Bytes),
    Mpub.readMsgs maxMsg k bs acc = .ok bodies r → r.length ≤ bs.length
  | 0, bs, acc, bodies, r, h => by
    simp [Mpub.readMsgs] at h; obtain ⟨_, rfl⟩ := h; exact Nat.le_refl _
  | k + 1, bs, acc, bodies, r, h => by
    unfold Mpub.readMsgs at h
    split at h
    · simp at h
    · rename_i sz r' heq
      have := readLen_len bs sz r' heq
      split at h
      · simp at h
      · split at h
        · simp at h
        · split at h
          · simp at h
          · split at h
            · simp at h
            · have := readMsgs_len maxMsg k _ _ _ _ h
              simp at this; omega

theorem readMPUB_len (maxMsg maxBody : Int) (bs : Bytes) (bodies : List Bytes) (r : Bytes)
    (h : Mpub.readMPUB maxMsg maxBody bs = .ok bodies r) : r.length ≤ bs.length := by
  unfold Mpub.readMPUB at h
  split at h
  · simp at h
  · rename_i n r' heq
    have := readLen_len bs n r' heq
    split at h
    · simp at h
    · split at h
      · simp at h
      · have := readMsgs_len maxMsg _ _ _ _ _ h
        omega

/-- What is left to read after a step is never longer than before it. -/
theorem exec_rest (conf : Conf) (s : ConnState) (b : Broker) (ps : List Bytes) (rest : Bytes) :
    (exec conf s b ps rest).rest.length ≤ rest.length := by
  have hb1 := readBody_len conf.maxBodySize rest
  have hb2 := readBody_len conf.maxMsgSize rest
  apply exec_cases (fun x => x.rest.length ≤ rest.length)
  · simp [fatal]
  · simp [done]
  · unfold identify
    repeat' split
    all_goals simp_all [fatal, done, panicStep]
  · unfold fin
    repeat' split
    all_goals simp_all [fatal, done, nonfatal]
  · unfold rdy rdySet
    repeat' split
    all_goals simp_all [fatal, done]
  · unfold req
    repeat' split
    all_goals simp_all [fatal, done, nonfatal]
  · unfold pub pubBody
    repeat' split
    all_goals simp_all [fatal, done, panicStep]
  · unfold mpub
    repeat' split
    all_goals first
      | (simp_all [fatal, done, panicStep]; done)
      | (have h2 := readMPUB_len _ _ _ _ _ ‹Mpub.readMPUB _ _ _ = Mpub.Res.ok _ _›
         have h1 := readLen_len _ _ _ ‹readLen _ = some _›
         simp only [done, List.length_append, List.length_drop]
         simp only [List.length_take] at h2
         omega)
  · unfold dpub pubBody
    repeat' split
    all_goals simp_all [fatal, done, panicStep]
  · unfold touch
    repeat' split
    all_goals simp_all [fatal, done, nonfatal]
  · unfold sub
    repeat' split
    all_goals simp_all [fatal, done]
  · unfold cls
    split <;> simp [fatal, done]
  · unfold auth authStep
    repeat' split
    all_goals simp_all [fatal, done, panicStep]


/-! ## The loop -/

/-- With enough fuel (one unit per input byte, plus one) the loop ends by itself, and never by a
panic. -/
theorem loop_fin (conf : Conf) : ∀ (fuel : Nat) (s : ConnState) (b : Broker) (bs : Bytes),
    bs.length < fuel →
    (loop conf fuel s b bs).fin = .eof ∨ (loop conf fuel s b bs).fin = .closed ∨
      (loop conf fuel s b bs).fin = .upgraded
  | 0, _, _, _, h => by omega
  | fuel + 1, s, b, bs, h => by
    unfold loop
    split
    · simp
    · simp
    · rename_i l rest hl
      have h1 := readLine_len bs l rest hl
      have h2 := exec_rest conf s b (splitSp l) rest
      have h3 := exec_ctl conf s b (splitSp l) rest
      split
      · simp only [Run.cons]
        exact loop_fin conf fuel _ _ _ (by omega)
      · simp [Run.stop]
      · simp [Run.stop]
      · rename_i hp
        exact absurd hp h3

/-- A property of every step's effects is a property of every effect of the run. -/
theorem loop_eff (conf : Conf) (P : Effect → Prop)
    (h : ∀ s b ps rest, ∀ e ∈ (exec conf s b ps rest).eff, P e) :
    ∀ (fuel : Nat) (s : ConnState) (b : Broker) (bs : Bytes), ∀ e ∈ (loop conf fuel s b bs).eff, P e
  | 0, _, _, _ => by simp [loop]
  | fuel + 1, s, b, bs => by
    unfold loop
    split
    · simp
    · simp
    · rename_i l rest hl
      split
      · simp only [Run.cons]
        intro e he
        rcases List.mem_append.mp he with he | he
        · exact h _ _ _ _ e he
        · exact loop_eff conf P h fuel _ _ _ e he
      · simp only [Run.stop]; exact h _ _ _ _
      · simp only [Run.stop]; exact h _ _ _ _
      · simp only [Run.stop]; exact h _ _ _ _


/-! ## Limits: what an accepted command can do -/

theorem readBody_ok (limit : Int) (bs body r : Bytes) (h : readBody limit bs = .ok body r) :
    1 ≤ body.length ∧ (body.length : Int) ≤ limit := by
  unfold readBody at h
  split at h
  · simp at h
  · split at h
    · simp at h
    · split at h
      · simp at h
      · split at h
        · simp at h
        · split at h
          · simp at h
          · simp at h
            obtain ⟨rfl, _⟩ := h
            simp [List.length_take]
            omega

theorem applyIdentify_ok (conf : Conf) (s s' : ConnState) (d : IdentifyData)
    (h : applyIdentify conf s d = some s') : IdentOk conf d := by
  unfold applyIdentify at h
  unfold IdentOk
  split at h
  · simp at h
  · rename_i hb hhb
    split at h
    · simp at h
    · rename_i t ht
      split at h
      · simp at h
      · rename_i sz hsz
        split at h
        · simp at h
        · rename_i hsr
          split at h
          · simp at h
          · rename_i mt hmt
            refine ⟨?_, ?_, ?_, ?_, ?_⟩
            · unfold setHeartbeat at hhb
              by_cases h1 : d.heartbeat = -1
              · exact Or.inl h1
              · by_cases h2 : d.heartbeat = 0
                · exact Or.inr (Or.inl h2)
                · by_cases h3 : d.heartbeat ≥ 1000 ∧ d.heartbeat ≤ conf.maxHeartbeatMs
                  · exact Or.inr (Or.inr ⟨h3.1, h3.2⟩)
                  · simp [h1, h2, h3] at hhb
            · unfold setObSize at hsz
              by_cases h1 : d.outBufSize = -1
              · exact Or.inl h1
              · by_cases h2 : d.outBufSize = 0
                · exact Or.inr (Or.inl h2)
                · by_cases h3 : d.outBufSize ≥ 64 ∧ d.outBufSize ≤ conf.maxObSize
                  · exact Or.inr (Or.inr ⟨h3.1, h3.2⟩)
                  · simp [h1, h2, h3] at hsz
            · unfold setObTimeout at ht
              by_cases h1 : d.outBufTimeout = -1
              · exact Or.inl h1
              · by_cases h2 : d.outBufTimeout = 0
                · exact Or.inr (Or.inl h2)
                · by_cases h3 : d.outBufTimeout ≥ conf.minObtMs ∧ d.outBufTimeout ≤ conf.maxObtMs
                  · exact Or.inr (Or.inr ⟨h3.1, h3.2⟩)
                  · simp [h1, h2, h3] at ht
            · omega
            · unfold setMsgTimeout at hmt
              by_cases h2 : d.msgTimeout = 0
              · exact Or.inl h2
              · by_cases h3 : d.msgTimeout ≥ 1000 ∧ d.msgTimeout ≤ conf.maxMsgTimeoutMs
                · exact Or.inr ⟨h3.1, h3.2⟩
                · simp [h2, h3] at hmt

theorem pubBody_eff (conf : Conf) (s : ConnState) (b : Broker) (t : Bytes) (d : Int) (rest : Bytes)
    (ht : isValidName t = true) (hd : d = 0 ∨ (0 ≤ d ∧ d ≤ conf.maxReqTimeoutNs)) :
    ∀ e ∈ (pubBody conf s b t d rest).eff, EffOk conf e := by
  unfold pubBody
  split
  · simp [fatal]
  · simp [panicStep]
  · rename_i body r hb
    have := readBody_ok _ _ _ _ hb
    split
    · simp [fatal]
    · simp [done, EffOk, MsgOk, ht]
      exact ⟨this.1, this.2, hd⟩

/-- Every effect of every step respects the limits. -/
theorem exec_eff (conf : Conf) (s : ConnState) (b : Broker) (ps : List Bytes) (rest : Bytes) :
    ∀ e ∈ (exec conf s b ps rest).eff, EffOk conf e := by
  apply exec_cases (fun x => ∀ e ∈ x.eff, EffOk conf e)
  · simp [fatal]
  · simp [done]
  · unfold identify
    repeat' split
    all_goals first
      | (simp [fatal, done, panicStep]; done)
      | (simp only [done, List.mem_singleton, forall_eq, EffOk]
         exact applyIdentify_ok _ _ _ _ ‹applyIdentify _ _ _ = some _›)
  · unfold fin
    repeat' split
    all_goals simp [fatal, done, nonfatal, EffOk]
  · unfold rdy rdySet
    repeat' split
    all_goals first
      | (simp [fatal, done]; done)
      | (simp only [done, List.mem_singleton, forall_eq, EffOk]; omega)
  · unfold req
    repeat' split
    all_goals first
      | (simp [fatal, done, nonfatal]; done)
      | (simp only [done, List.mem_singleton, forall_eq, EffOk, clampReq]
         intro h0
         split
         · omega
         · split <;> omega)
  · unfold pub
    repeat' split
    all_goals first
      | (simp [fatal]; done)
      | (apply pubBody_eff
         · simp_all
         · exact Or.inl rfl)
  · unfold mpub
    repeat' split
    all_goals first
      | (simp [fatal, done, panicStep]; done)
      | (have hm := Nsq.Proofs.Mpub.readMPUB_ok _ _ _ _ _ ‹Mpub.readMPUB _ _ _ = Mpub.Res.ok _ _›
         simp only [done, List.mem_singleton, forall_eq, EffOk, toMsgs, List.length_map]
         refine ⟨by simp_all, hm.1, Or.inr hm.2.1, ?_⟩
         intro m hm'
         obtain ⟨x, hx, rfl⟩ := List.mem_map.mp hm'
         have := hm.2.2.1 x hx
         exact ⟨this.1, this.2, Or.inl rfl⟩)
  · unfold dpub
    repeat' split
    all_goals first
      | (simp [fatal]; done)
      | (apply pubBody_eff
         · simp_all
         · right; omega)
  · unfold touch
    repeat' split
    all_goals simp [fatal, done, nonfatal, EffOk]
  · unfold sub
    repeat' split
    all_goals first
      | (simp [fatal, done]; done)
      | (simp only [done, List.mem_singleton, forall_eq, EffOk]; simp_all)
  · unfold cls
    split <;> simp [fatal, done, EffOk]
  · unfold auth authStep
    repeat' split
    all_goals simp [fatal, done, panicStep]


/-! ## Rejected commands leave the queues alone -/

def emptyTopic (t : Bytes) : Topic := { name := t, paused := false, count := 0, msgs := [], chans := [] }

theorem getTopic_cases (b : Broker) (t : Bytes) :
    getTopic b t = b ∨ (hasTopic b t = false ∧ getTopic b t = b ++ [emptyTopic t]) := by
  unfold getTopic
  split
  · exact Or.inl rfl
  · rename_i h
    exact Or.inr ⟨by simpa using h, rfl⟩

/-- What a step that answers with an error (fatal or not) can have done: nothing, or (MPUB with a
well-formed name) created the still empty topic. It has no effect in the `EffOk` sense. -/
def Untouched (b b' : Broker) : Prop :=
  b' = b ∨ ∃ t, isValidName t = true ∧ hasTopic b t = false ∧ b' = b ++ [emptyTopic t]

theorem untouched_getTopic (b : Broker) (t : Bytes) (h : isValidName t = true) : Untouched b (getTopic b t) := by
  rcases getTopic_cases b t with h1 | ⟨h1, h2⟩
  · exact Or.inl h1
  · exact Or.inr ⟨t, h, h1, h2⟩

theorem exec_err (conf : Conf) (s : ConnState) (b : Broker) (ps : List Bytes) (rest : Bytes) (c : Code)
    (h : (exec conf s b ps rest).reply = some (.err c)) :
    Untouched b (exec conf s b ps rest).broker ∧ (exec conf s b ps rest).eff = [] := by
  revert h
  apply exec_cases (fun x => x.reply = some (.err c) → Untouched b x.broker ∧ x.eff = [])
  · simp [fatal, Untouched]
  · simp [done]
  · unfold identify
    repeat' split
    all_goals simp [fatal, done, panicStep, Untouched]
  · unfold fin
    repeat' split
    all_goals simp [fatal, done, nonfatal, Untouched]
  · unfold rdy rdySet
    repeat' split
    all_goals simp [fatal, done, Untouched]
  · unfold req
    repeat' split
    all_goals simp [fatal, done, nonfatal, Untouched]
  · unfold pub pubBody
    repeat' split
    all_goals simp [fatal, done, panicStep, Untouched]
  · unfold mpub
    repeat' split
    all_goals first
      | (simp [fatal, done, panicStep, Untouched]; done)
      | (intro _
         exact ⟨untouched_getTopic _ _ (by simp_all), by simp [fatal, panicStep]⟩)
  · unfold dpub pubBody
    repeat' split
    all_goals simp [fatal, done, panicStep, Untouched]
  · unfold touch
    repeat' split
    all_goals simp [fatal, done, nonfatal, Untouched]
  · unfold sub
    repeat' split
    all_goals simp [fatal, done, Untouched]
  · unfold cls
    split <;> simp [fatal, done, Untouched]
  · unfold auth authStep
    repeat' split
    all_goals simp [fatal, done, panicStep, Untouched]

/-- A step that closes the connection answered with an error frame. -/
theorem exec_close (conf : Conf) (s : ConnState) (b : Broker) (ps : List Bytes) (rest : Bytes)
    (h : (exec conf s b ps rest).ctl = .close) : ∃ c, (exec conf s b ps rest).reply = some (.err c) := by
  revert h
  apply exec_cases (fun x => x.ctl = .close → ∃ c, x.reply = some (.err c))
  · simp [fatal]
  · simp [done]
  · unfold identify
    repeat' split
    all_goals simp [fatal, done, panicStep]
  · unfold fin
    repeat' split
    all_goals simp [fatal, done, nonfatal]
  · unfold rdy rdySet
    repeat' split
    all_goals simp [fatal, done]
  · unfold req
    repeat' split
    all_goals simp [fatal, done, nonfatal]
  · unfold pub pubBody
    repeat' split
    all_goals simp [fatal, done, panicStep]
  · unfold mpub
    repeat' split
    all_goals simp [fatal, done, panicStep]
  · unfold dpub pubBody
    repeat' split
    all_goals simp [fatal, done, panicStep]
  · unfold touch
    repeat' split
    all_goals simp [fatal, done, nonfatal]
  · unfold sub
    repeat' split
    all_goals simp [fatal, done]
  · unfold cls
    split <;> simp [fatal, done]
  · unfold auth authStep
    repeat' split
    all_goals simp [fatal, done, panicStep]

/-- MPUB is all-or-nothing: either the whole decoded batch is enqueued (in order) and the answer
is OK, or the answer is a fatal error and nothing is enqueued. -/
theorem mpub_cases (conf : Conf) (s : ConnState) (b : Broker) (ps : List Bytes) (rest : Bytes) :
    (∃ t n r bodies r2, ps[1]? = some t ∧ readLen rest = some (n, r) ∧ 1 ≤ n ∧ n ≤ conf.maxBodySize ∧
        Mpub.readMPUB conf.maxMsgSize conf.maxBodySize (r.take n.toNat) = .ok bodies r2 ∧
        (mpub conf s b ps rest).reply = some .ok ∧ (mpub conf s b ps rest).ctl = .cont ∧
        (mpub conf s b ps rest).broker = publish b t (toMsgs bodies) ∧
        (mpub conf s b ps rest).eff = [.enq t (toMsgs bodies)] ∧
        (mpub conf s b ps rest).rest = r2 ++ r.drop n.toNat) ∨
    (∃ c, (mpub conf s b ps rest).reply = some (.err c) ∧ (mpub conf s b ps rest).ctl = .close ∧
        Untouched b (mpub conf s b ps rest).broker ∧ (mpub conf s b ps rest).eff = []) := by
  unfold mpub
  split
  · rename_i t tl
    split
    · right; exact ⟨_, rfl, rfl, Or.inl rfl, rfl⟩
    · rename_i hv
      have hv' : isValidName t = true := by simpa using hv
      split
      · right; exact ⟨_, rfl, rfl, Or.inl rfl, rfl⟩
      · split
        · right; exact ⟨_, rfl, rfl, untouched_getTopic _ _ hv', rfl⟩
        · rename_i n r hl
          split
          · right; exact ⟨_, rfl, rfl, untouched_getTopic _ _ hv', rfl⟩
          · split
            · right; exact ⟨_, rfl, rfl, untouched_getTopic _ _ hv', rfl⟩
            · split
              · right; exact ⟨_, rfl, rfl, untouched_getTopic _ _ hv', rfl⟩
              · rename_i hp
                exact absurd hp (readMPUB_ne_panic _ _ _)
              · rename_i bodies r2 hm
                left
                exact ⟨t, n, r, bodies, r2, by simp, hl, by omega, by omega, hm, rfl, rfl, rfl, rfl, rfl⟩
  · right; exact ⟨_, rfl, rfl, Or.inl rfl, rfl⟩


/-- An accepted MPUB consumed at most the body size it declared, and that size is within
max-body-size (the reader handed to `readMPUB` is limited to the declared size). -/
theorem mpub_ok_bounds (conf : Conf) (s : ConnState) (b : Broker) (ps : List Bytes) (rest : Bytes)
    (n : Int) (r : Bytes) (hl : readLen rest = some (n, r)) (hok : (mpub conf s b ps rest).reply = some .ok) :
    1 ≤ n ∧ n ≤ conf.maxBodySize ∧ ((r.length : Int) - ((mpub conf s b ps rest).rest.length : Int)) ≤ n := by
  rcases mpub_cases conf s b ps rest with ⟨t, n', r', bodies, r2, _, hl', h1, h2, hm, _, _, _, _, hrest⟩ | ⟨c, hc, _⟩
  · rw [hl] at hl'
    simp only [Option.some.injEq, Prod.mk.injEq] at hl'
    obtain ⟨rfl, rfl⟩ := hl'
    have h3 := readMPUB_len _ _ _ _ _ hm
    simp only [List.length_take] at h3
    rw [hrest]
    simp only [List.length_append, List.length_drop]
    refine ⟨h1, h2, ?_⟩
    omega
  · rw [hc] at hok; simp at hok

/-! ## What a connection is answered does not depend on the broker -/

/-- Everything of a step except the broker. -/
def view (x : Step) : Ctl × Option Reply × ConnState × Bytes × List Effect := (x.ctl, x.reply, x.st, x.rest, x.eff)

theorem R_ite {α : Type} (R : α → α → Prop) (c : Prop) [Decidable c] (a a' d d' : α)
    (h1 : c → R a d) (h2 : ¬c → R a' d') : R (if c then a else a') (if c then d else d') := by
  by_cases h : c
  · simp only [h, if_true]; exact h1 h
  · simp only [h, if_false]; exact h2 h

theorem exec_view (conf : Conf) (s : ConnState) (b b' : Broker) (ps : List Bytes) (rest : Bytes) :
    view (exec conf s b ps rest) = view (exec conf s b' ps rest) := by
  unfold exec
  split
  · rfl
  · let R : Step → Step → Prop := fun x y => view x = view y
    refine R_ite R _ _ _ _ _ (fun _ => ?_) (fun _ => ?_)
    · show view (identify conf s b rest) = view (identify conf s b' rest)
      unfold identify
      repeat' split
      all_goals simp_all [fatal, done, panicStep, view]
    refine R_ite R _ _ _ _ _ (fun _ => rfl) (fun _ => ?_)
    refine R_ite R _ _ _ _ _ (fun _ => ?_) (fun _ => ?_)
    · show view (fin s b _ rest) = view (fin s b' _ rest)
      unfold fin
      repeat' split
      all_goals simp_all [fatal, done, nonfatal, view]
    refine R_ite R _ _ _ _ _ (fun _ => ?_) (fun _ => ?_)
    · show view (rdy conf s b _ rest) = view (rdy conf s b' _ rest)
      unfold rdy rdySet
      repeat' split
      all_goals simp_all [fatal, done, view]
    refine R_ite R _ _ _ _ _ (fun _ => ?_) (fun _ => ?_)
    · show view (req conf s b _ rest) = view (req conf s b' _ rest)
      unfold req
      repeat' split
      all_goals simp_all [fatal, done, nonfatal, view]
    refine R_ite R _ _ _ _ _ (fun _ => ?_) (fun _ => ?_)
    · show view (pub conf s b _ rest) = view (pub conf s b' _ rest)
      unfold pub pubBody
      repeat' split
      all_goals simp_all [fatal, done, panicStep, view]
    refine R_ite R _ _ _ _ _ (fun _ => ?_) (fun _ => ?_)
    · show view (mpub conf s b _ rest) = view (mpub conf s b' _ rest)
      unfold mpub
      repeat' split
      all_goals simp_all [fatal, done, panicStep, view]
    refine R_ite R _ _ _ _ _ (fun _ => ?_) (fun _ => ?_)
    · show view (dpub conf s b _ rest) = view (dpub conf s b' _ rest)
      unfold dpub pubBody
      repeat' split
      all_goals simp_all [fatal, done, panicStep, view]
    refine R_ite R _ _ _ _ _ (fun _ => rfl) (fun _ => ?_)
    refine R_ite R _ _ _ _ _ (fun _ => ?_) (fun _ => ?_)
    · show view (touch s b _ rest) = view (touch s b' _ rest)
      unfold touch
      repeat' split
      all_goals simp_all [fatal, done, nonfatal, view]
    refine R_ite R _ _ _ _ _ (fun _ => ?_) (fun _ => ?_)
    · show view (sub conf s b _ rest) = view (sub conf s b' _ rest)
      unfold sub
      repeat' split
      all_goals simp_all [fatal, done, view]
    refine R_ite R _ _ _ _ _ (fun _ => ?_) (fun _ => ?_)
    · show view (cls s b rest) = view (cls s b' rest)
      unfold cls
      split <;> simp [fatal, done, view]
    refine R_ite R _ _ _ _ _ (fun _ => ?_) (fun _ => rfl)
    · show view (auth conf s b _ rest) = view (auth conf s b' _ rest)
      unfold auth authStep
      repeat' split
      all_goals simp_all [fatal, done, panicStep, view]


/-- Everything of a run except the broker. -/
def rview (r : Run) : List Reply × End × ConnState × List Effect := (r.replies, r.fin, r.st, r.eff)

theorem loop_indep (conf : Conf) : ∀ (fuel : Nat) (s : ConnState) (b b' : Broker) (bs : Bytes),
    rview (loop conf fuel s b bs) = rview (loop conf fuel s b' bs)
  | 0, _, _, _, _ => by simp [loop, rview]
  | fuel + 1, s, b, b', bs => by
    unfold loop
    split
    · simp [rview]
    · simp [rview]
    · rename_i l rest hl
      have hv := exec_view conf s b b' (splitSp l) rest
      simp only [view, Prod.mk.injEq] at hv
      obtain ⟨h1, h2, h3, h4, h5⟩ := hv
      generalize exec conf s b (splitSp l) rest = x at *
      generalize exec conf s b' (splitSp l) rest = y at *
      rw [← h1]
      cases hx : x.ctl
      · simp only [Run.cons, rview]
        have ih := loop_indep conf fuel x.st x.broker y.broker x.rest
        simp only [rview, Prod.mk.injEq] at ih
        obtain ⟨i1, i2, i3, i4⟩ := ih
        rw [← h2, ← h3, ← h4, ← h5]
        simp [i1, i2, i3, i4]
      · simp [Run.stop, rview, h2, h3, h5]
      · simp [Run.stop, rview, h2, h3, h5]
      · simp [Run.stop, rview, h2, h3, h5]


/-! ## Which codes the model can answer, and with which class -/

def modelFatal : List Code :=
  [.E_INVALID, .E_BAD_BODY, .E_BAD_TOPIC, .E_BAD_CHANNEL, .E_BAD_MESSAGE, .E_IDENTIFY_FAILED,
   .E_AUTH_DISABLED, .E_AUTH_FAILED, .E_UNAUTHORIZED, .E_AUTH_FIRST]

def modelNonFatal : List Code := [.E_FIN_FAILED, .E_REQ_FAILED, .E_TOUCH_FAILED]

/-- The gate input ranges over what `CheckAuth` can return. -/
def AuthGateOk (conf : Conf) : Prop :=
  ∀ code, conf.authGate = some code → code = .E_AUTH_FIRST ∨ code = .E_AUTH_FAILED ∨ code = .E_UNAUTHORIZED

theorem readMPUB_codes (maxMsg maxBody : Int) (bs : Bytes) (c : Code)
    (h : Mpub.readMPUB maxMsg maxBody bs = .err c) : c = .E_BAD_BODY ∨ c = .E_BAD_MESSAGE := by
  have hm : ∀ (k : Nat) (bs : Bytes) (acc : List Bytes), Mpub.readMsgs maxMsg k bs acc = .err c → c = .E_BAD_MESSAGE := by
    intro k
    induction k with
    | zero => intro bs acc h; simp [Mpub.readMsgs] at h
    | succ k ih =>
      intro bs acc h
      unfold Mpub.readMsgs at h
      repeat' split at h
      all_goals first | (simp at h; exact h.symm) | exact ih _ _ h | simp at h
  unfold Mpub.readMPUB at h
  repeat' split at h
  all_goals first | (simp at h; exact Or.inl h.symm) | exact Or.inr (hm _ _ _ h) | simp at h

/-- An error answer is a fatal one (connection closed) with a code of `modelFatal`, or a non-fatal
one (connection kept) with a code of `modelNonFatal`. -/
theorem exec_codes (conf : Conf) (s : ConnState) (b : Broker) (ps : List Bytes) (rest : Bytes) (c : Code)
    (hauth : AuthGateOk conf) (h : (exec conf s b ps rest).reply = some (.err c)) :
    ((exec conf s b ps rest).ctl = .close ∧ c ∈ modelFatal) ∨
    ((exec conf s b ps rest).ctl = .cont ∧ c ∈ modelNonFatal) := by
  have hA : ∀ code, conf.authGate = some code → code ∈ modelFatal := by
    intro code hc
    rcases hauth code hc with h | h | h <;> (subst h; decide)
  have hM : ∀ bs code, Mpub.readMPUB conf.maxMsgSize conf.maxBodySize bs = .err code → code ∈ modelFatal := by
    intro bs code hc
    rcases readMPUB_codes _ _ _ _ hc with h | h <;> (subst h; decide)
  revert h
  apply exec_cases (fun x => x.reply = some (.err c) →
    (x.ctl = .close ∧ c ∈ modelFatal) ∨ (x.ctl = .cont ∧ c ∈ modelNonFatal))
  case hfatal => intro h; simp [fatal] at h; subst h; exact Or.inl ⟨rfl, by decide⟩
  case hnop => simp [done]
  case hcls => unfold cls; split <;> (intro h; simp [fatal, done] at h; try (subst h; exact Or.inl ⟨rfl, by decide⟩))
  all_goals
    first | unfold identify | unfold fin | unfold rdy rdySet | unfold req | unfold pub pubBody | unfold mpub
          | unfold dpub pubBody | unfold touch | unfold sub | unfold auth authStep
    repeat' split
    all_goals
      intro h
      simp [fatal, done, nonfatal, panicStep] at h
      try
        (subst h
         first
          | exact Or.inl ⟨rfl, by decide⟩
          | exact Or.inr ⟨rfl, by decide⟩
          | exact Or.inl ⟨rfl, hA _ ‹_›⟩
          | exact Or.inl ⟨rfl, hM _ _ ‹_›⟩)

/-! ## The whole connection (`serve`) -/

theorem disconnect_rview (r : Run) : rview (disconnect r) = rview r := by
  unfold disconnect
  split
  · split <;> rfl
  · rfl

theorem serve_fin (conf : Conf) (s : ConnState) (b : Broker) (bs : Bytes) :
    (serve conf s b bs).fin = .eof ∨ (serve conf s b bs).fin = .closed ∨ (serve conf s b bs).fin = .upgraded := by
  unfold serve
  split
  · split
    · have h := loop_fin conf (List.length ‹Bytes› + 1) s b ‹Bytes› (by omega)
      have hd := disconnect_rview (loop conf (List.length ‹Bytes› + 1) s b ‹Bytes›)
      simp only [rview, Prod.mk.injEq] at hd
      rw [hd.2.1]
      exact h
    · simp
  · simp

theorem serve_eff (conf : Conf) (s : ConnState) (b : Broker) (bs : Bytes) :
    ∀ e ∈ (serve conf s b bs).eff, EffOk conf e := by
  unfold serve
  split
  · split
    · have hd := disconnect_rview (loop conf (List.length ‹Bytes› + 1) s b ‹Bytes›)
      simp only [rview, Prod.mk.injEq] at hd
      rw [hd.2.2.2]
      exact loop_eff conf (EffOk conf) (exec_eff conf) _ _ _ _
    · simp
  · simp

theorem serve_indep (conf : Conf) (s : ConnState) (b b' : Broker) (bs : Bytes) :
    rview (serve conf s b bs) = rview (serve conf s b' bs) := by
  unfold serve
  split
  · split
    · rw [disconnect_rview, disconnect_rview]
      exact loop_indep conf _ s b b' _
    · rfl
  · rfl

/-! ## Concrete values for the non-vacuity examples -/

namespace Examples

/-- Small limits: max-msg-size 8, max-body-size 64, max-rdy 7, max-req-timeout 90 s. -/
def conf : Conf :=
  { maxMsgSize := 8, maxBodySize := 64, maxRdy := 7, maxReqTimeoutNs := 90000000000,
    maxHeartbeatMs := 60000, minObtMs := 25, maxObtMs := 30000, maxObSize := 65536, maxMsgTimeoutMs := 900000,
    tlsGate := true, authGate := none, authCmd := .disabled, tlsConfigured := false,
    deflateEnabled := false, snappyEnabled := false, decode := fun _ => none }

def conn : ConnState := freshConn 30000000000 250000000 60000000000

end Examples

end Nsq.Proofs.ProtoV2
