import Nsq.Model.RegistrySched
/-!
Helpers for section 3 of `Nsq.Props.C14` (schedules with a reader): a reader that is ONE critical
section lands between two sections of the writers, so its observation is the atomic observation of the
registry after a prefix of the writers' sections.
-/
namespace Nsq.Proofs.RegistrySched
open Nsq.Model.Registry Nsq.Model.Registry.AMap

theorem interleaveF_single {α : Type} (r : α) :
    ∀ (xs : List α) (n : Nat), xs.length + 1 ≤ n → ∀ s ∈ interleaveF n xs [r],
      ∃ k, k ≤ xs.length ∧ s = xs.take k ++ r :: xs.drop k := by
  intro xs
  induction xs with
  | nil =>
    intro n hn s hs
    cases n with
    | zero => omega
    | succ m =>
      simp only [interleaveF, List.mem_singleton] at hs
      exact ⟨0, by simp, by simp [hs]⟩
  | cons x xs ih =>
    intro n hn s hs
    cases n with
    | zero => omega
    | succ m =>
      simp only [List.length_cons] at hn
      simp only [interleaveF, List.mem_append, List.mem_map] at hs
      rcases hs with ⟨s', hs', rfl⟩ | ⟨s', hs', rfl⟩
      · obtain ⟨k, hk, rfl⟩ := ih m (by omega) s' hs'
        exact ⟨k + 1, by simp; omega, by simp⟩
      · cases m with
        | zero => omega
        | succ m' =>
          simp only [interleaveF, List.mem_singleton] at hs'
          exact ⟨0, by simp, by simp [hs']⟩

theorem interleave_single {α : Type} (xs : List α) (r : α) :
    ∀ s ∈ interleave xs [r], ∃ k, k ≤ xs.length ∧ s = xs.take k ++ r :: xs.drop k := by
  intro s hs
  exact interleaveF_single r xs _ (by simp) s hs

theorem runSecsO_append {α : Type} (x : DB × α) (l₁ l₂ : List (SectionO α)) :
    runSecsO x (l₁ ++ l₂) = runSecsO (runSecsO x l₁) l₂ := by
  simp [runSecsO, List.foldl_append]

theorem runSecs_append (db : DB) (l₁ l₂ : List Section) :
    runSecs db (l₁ ++ l₂) = runSecs (runSecs db l₁) l₂ := by
  simp [runSecs, List.foldl_append]

theorem runSecsO_wsec {α : Type} (ws : List Section) (db : DB) (o : α) :
    runSecsO (db, o) (ws.map wsec) = (runSecs db ws, o) := by
  induction ws generalizing db with
  | nil => rfl
  | cons w ws ih =>
    simp only [List.map_cons, runSecsO, runSecs, List.foldl_cons]
    exact ih (w db)

/-- A reader that is one critical section sees the registry after a prefix of the writers' sections, and the
writers are not disturbed. -/
theorem atomic_reader_sees_prefix {α : Type} (ws : List Section) (rd : DB → α) (db : DB) (o : α) :
    ∀ s ∈ interleave (ws.map wsec) [rsec rd],
      ∃ k, k ≤ ws.length ∧ runSecsO (db, o) s = (runSecs db ws, rd (runSecs db (ws.take k))) := by
  intro s hs
  obtain ⟨k, hk, rfl⟩ := interleave_single _ _ s hs
  simp only [List.length_map] at hk
  refine ⟨k, hk, ?_⟩
  rw [runSecsO_append, ← List.map_take, runSecsO_wsec]
  have : (rsec rd :: List.drop k (List.map wsec ws) : List (SectionO α)) = [rsec rd] ++ (ws.drop k).map wsec := by
    simp [List.map_drop]
  rw [this, runSecsO_append]
  simp only [runSecsO, List.foldl_cons, List.foldl_nil, rsec]
  have h2 := runSecsO_wsec (ws.drop k) (runSecs db (ws.take k)) (rd (runSecs db (ws.take k)))
  simp only [runSecsO] at h2
  rw [h2, ← runSecs_append, List.take_append_drop]

/-- `GET /lookup` running alone: both section lists compute `lookupDB` -/
theorem lookup_sections_compose (atomic : Bool) (db : DB) (t : Name) :
    runSecsO (db, LookupObs.init) (lookupSecs atomic t) = (db, lookupDB db t) := by
  cases atomic
  · simp only [lookupSecs, runSecsO, List.foldl_cons, List.foldl_nil, lookupRead1, lookupRead2, lookupRead3, lookupDB,
      Bool.false_eq_true, if_false]
    by_cases h : (findRegistrations db Cat.topic t []).isEmpty = true <;> simp [h]
  · simp [lookupSecs, runSecsO, rsec]

/-- the answer of `GET /lookup` is a function of the observation (and of the peers table) -/
theorem lookup_answer_of_obs (c : Conf) (r : Registry) (t : Name) (now : Int) :
    qLookup c r t now =
      if (lookupDB r.db t).found then
        some ⟨(lookupDB r.db t).channels,
              peerInfos r (filterByActive r c.inactive c.tombLife now (lookupDB r.db t).prods)⟩
      else none := by
  unfold qLookup lookupDB qChannels
  by_cases h : (findRegistrations r.db Cat.topic t []).isEmpty = true <;> simp [h]

/-- the per-node part of the answer of `GET /nodes` is a function of the observation -/
theorem nodeTopics_of_obs (c : Conf) (r : Registry) (id : Nat) (now : Int) :
    nodeTopics c r id now = (nodeDB r.db id).flags.map (fun f => (f.1, flagOf c.tombLife now f.2)) := by
  simp only [nodeTopics, nodeDB, topicsOf, List.map_map]
  apply List.map_congr_left
  intro k _
  simp only [Function.comp, tombFlag, flagOf]
  cases mget (producersOf r.db (topicKey k.key)) id <;> rfl

/-- `GET /nodes` running alone as one critical section computes `nodesDB` -/
theorem nodes_section_compose (db : DB) (ids : List Nat) :
    runSecsO (db, NodesObs.init) (nodesSecs true ids) = (db, nodesDB db) := by
  simp [nodesSecs, runSecsO, rsec]

end Nsq.Proofs.RegistrySched
