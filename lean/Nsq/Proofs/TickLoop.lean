/-
C04 (timing half) — proofs about the whole tick of `queueScanLoop` (`Nsq.Model.Timing.tickLoop`):
never panics, keeps the channel list and every channel's invariant, a channel handed to a worker
with a clock reading ≥ d holds nothing due at d afterwards (and later rounds keep that), and a tick
that ends by the dirty test ended with a round whose dirty fraction was ≤ the threshold.
-/
import Nsq.Proofs.Tick
import Nsq.Model.TickLoop
namespace Nsq.Proofs.TickLoop
open Nsq.Model.PQ Nsq.Model.Timing Nsq.Proofs.PQ Nsq.Proofs.Timing Nsq.Proofs.Tick

def AllInv (cs : List Chan) : Prop := ∀ c ∈ cs, ChanInv c

/-- channel index `i` (if it exists) holds nothing — in flight or deferred — with deadline `≤ d` -/
def ClearAt (cs : List Chan) (i : Nat) (d : Int) : Prop := ∀ c, cs[i]? = some c → nothingDue c d = true

theorem nothingDue_mono {c : Chan} {t d : Int} (h : nothingDue c t = true) (hd : d ≤ t) :
    nothingDue c d = true := by
  rw [nothingDue_iff] at h ⊢
  exact ⟨fun k hk => by have := h.1 k hk; omega, fun k hk => by have := h.2 k hk; omega⟩

theorem clear_of_subset {a b : H} {d : Int} (hsub : ∀ x ∈ keys a, x ∈ keys b)
    (hb : ∀ k (hk : k < b.size), d < (b[k]).pri) : ∀ k (hk : k < a.size), d < (a[k]).pri := by
  intro k hk
  have hm : key a[k] ∈ keys a := by
    simp only [keys, List.mem_map, Array.mem_toList_iff]
    exact ⟨a[k], Array.getElem_mem hk, rfl⟩
  have := hsub _ hm
  simp only [keys, List.mem_map, Array.mem_toList_iff] at this
  obtain ⟨e, he, hke⟩ := this
  obtain ⟨k0, hk0, rfl⟩ := Array.mem_iff_getElem.mp he
  have h1 := hb k0 hk0
  simp only [key, Prod.mk.injEq] at hke
  omega

/-- a worker pass only removes entries: what was clear at `d` stays clear at `d` -/
theorem scanChannel_keeps {c : Chan} (hinv : ChanInv c) {d : Int} (h : nothingDue c d = true) (t : Int) :
    nothingDue (scanChannel c t).chan d = true := by
  rw [nothingDue_iff] at h ⊢
  rw [scanChannel_chan]
  have h1 := scanInFlight_inv c t hinv
  have hp1 := (scanInFlight_complete c t hinv).2
  have hp2 := (scanDeferred_complete _ t h1).2
  have hf1 := scanInFlight_frame c t
  have hf2 := scanDeferred_frame (scanInFlight c t).chan t
  constructor
  · rw [hf2.1]
    exact clear_of_subset (fun x hx => hp1.subset (List.mem_append_right _ hx)) h.1
  · apply clear_of_subset (b := c.dpq) _ h.2
    intro x hx
    have := hp2.subset (List.mem_append_right _ hx)
    rw [hf1.1] at this
    exact this

theorem scanTick_get? (cs : List Chan) (sel : List Nat) (now : Nat → Int) (i : Nat) :
    (scanTick cs sel now)[i]? =
      (cs[i]?).map fun c => if sel.contains i then (scanChannel c (now i)).chan else c := by
  simp [scanTick, List.getElem?_mapIdx]

theorem mem_of_get? {cs : List Chan} {i : Nat} {c : Chan} (h : cs[i]? = some c) : c ∈ cs :=
  List.mem_of_getElem? h

theorem scanTick_allInv {cs : List Chan} (h : AllInv cs) (sel : List Nat) (now : Nat → Int) :
    AllInv (scanTick cs sel now) := by
  intro c hc
  obtain ⟨i, hi⟩ := List.getElem?_of_mem hc
  rw [scanTick_get?] at hi
  cases h0 : cs[i]? with
  | none => simp [h0] at hi
  | some c0 =>
    simp only [h0, Option.map_some, Option.some.injEq] at hi
    have hc0 := h c0 (mem_of_get? h0)
    by_cases hs : sel.contains i = true
    · simp only [hs, ↓reduceIte] at hi; subst hi; exact (scanChannel_spec c0 hc0 (now i)).1
    · simp only [hs, Bool.false_eq_true, ↓reduceIte] at hi; subst hi; exact hc0

theorem scanTick_keeps {cs : List Chan} (hinv : AllInv cs) {i : Nat} {d : Int} (h : ClearAt cs i d)
    (sel : List Nat) (now : Nat → Int) : ClearAt (scanTick cs sel now) i d := by
  intro c hc
  rw [scanTick_get?] at hc
  cases h0 : cs[i]? with
  | none => simp [h0] at hc
  | some c0 =>
    simp only [h0, Option.map_some, Option.some.injEq] at hc
    have hc0 := hinv c0 (mem_of_get? h0)
    by_cases hs : sel.contains i = true
    · simp only [hs, ↓reduceIte] at hc; subst hc; exact scanChannel_keeps hc0 (h c0 h0) (now i)
    · simp only [hs, Bool.false_eq_true, ↓reduceIte] at hc; subst hc; exact h c0 h0

theorem scanTick_selected {cs : List Chan} (hinv : AllInv cs) {i : Nat} {d : Int} {sel : List Nat}
    {now : Nat → Int} (hs : sel.contains i = true) (hd : d ≤ now i) : ClearAt (scanTick cs sel now) i d := by
  intro c hc
  rw [scanTick_get?] at hc
  cases h0 : cs[i]? with
  | none => simp [h0] at hc
  | some c0 =>
    simp only [h0, Option.map_some, Option.some.injEq, hs, ↓reduceIte] at hc
    subst hc
    exact nothingDue_mono (scanChannel_spec c0 (hinv c0 (mem_of_get? h0)) (now i)).2.1 hd

/-- the whole tick: total, keeps length and invariants, executes between 1 and `|rds|` rounds,
keeps what was clear, and clears every channel that was ever handed to a worker late enough -/
theorem tickLoop_spec (q pn pd : Nat) (rds : List Round) : ∀ (cs : List Chan), AllInv cs →
    ∃ cs' b k, tickLoop q pn pd cs rds = some (cs', b, k) ∧ cs'.length = cs.length ∧ AllInv cs' ∧
      k ≤ rds.length ∧ (rds ≠ [] → 1 ≤ k) ∧ (b = false → k = rds.length) ∧
      (∀ i d, ClearAt cs i d → ClearAt cs' i d) ∧
      (∀ i d, everSelected q pn pd cs i d rds = true → ClearAt cs' i d) := by
  induction rds with
  | nil =>
    intro cs hinv
    exact ⟨cs, false, 0, rfl, rfl, hinv, Nat.le_refl _, fun h => absurd rfl h, fun _ => rfl,
      fun _ _ h => h, fun _ _ h => by simp [everSelected] at h⟩
  | cons rd rest ih =>
    intro cs hinv
    obtain ⟨sel, hsel, _⟩ := uniqRands_perm (min q cs.length) cs.length rd.r
    have hinv' := scanTick_allInv hinv sel rd.now
    by_cases hdirty : dirtyCount cs sel rd.now * pd > pn * min q cs.length
    · obtain ⟨cs', b, k, h1, h2, h3, h4, _, h5b, h5, h6⟩ := ih (scanTick cs sel rd.now) hinv'
      refine ⟨cs', b, k + 1, ?_, ?_, h3, ?_, fun _ => by omega, ?_, ?_, ?_⟩
      · simp [tickLoop, hsel, hdirty, h1]
      · rw [h2, scanTick_length]
      · simp only [List.length_cons]; omega
      · intro hb; simp only [List.length_cons]; rw [h5b hb]
      · intro i d hc; exact h5 i d (scanTick_keeps hinv hc sel rd.now)
      · intro i d he
        simp only [everSelected, hsel, hdirty, decide_true, Bool.true_and, Bool.or_eq_true,
          Bool.and_eq_true, decide_eq_true_eq] at he
        rcases he with ⟨hs, hd⟩ | he
        · exact h5 i d (scanTick_selected hinv hs hd)
        · exact h6 i d he
    · refine ⟨scanTick cs sel rd.now, true, 1, ?_, scanTick_length _ _ _, hinv', ?_, fun _ => Nat.le_refl _,
        fun h => (by cases h), ?_, ?_⟩
      · simp [tickLoop, hsel, hdirty]
      · simp
      · intro i d hc; exact scanTick_keeps hinv hc sel rd.now
      · intro i d he
        simp only [everSelected, hsel, hdirty, decide_false, Bool.false_and, Bool.or_false,
          Bool.and_eq_true, decide_eq_true_eq] at he
        exact scanTick_selected hinv he.1 he.2

/-- a tick that ended by the dirty test ended with a round in which at most the threshold fraction
of the scanned channels was dirty -/
theorem tickLoop_clean_exit (q pn pd : Nat) (rds : List Round) : ∀ (cs cs' : List Chan) (k : Nat),
    tickLoop q pn pd cs rds = some (cs', true, k) →
    ∃ cs0 rd sel, rd ∈ rds ∧ uniqRands (min q cs0.length) cs0.length rd.r = some sel ∧
      cs' = scanTick cs0 sel rd.now ∧ dirtyCount cs0 sel rd.now * pd ≤ pn * min q cs0.length := by
  induction rds with
  | nil => intro cs cs' k h; simp [tickLoop] at h
  | cons rd rest ih =>
    intro cs cs' k h
    obtain ⟨sel, hsel, _⟩ := uniqRands_perm (min q cs.length) cs.length rd.r
    by_cases hdirty : dirtyCount cs sel rd.now * pd > pn * min q cs.length
    · simp only [tickLoop, hsel, hdirty, ↓reduceIte, Option.map_eq_some_iff] at h
      obtain ⟨⟨a, b, k'⟩, h1, h2⟩ := h
      simp only [Prod.mk.injEq] at h2
      obtain ⟨rfl, rfl, _⟩ := h2
      obtain ⟨cs0, rd0, sel0, hm, r1, r2, r3⟩ := ih _ _ _ h1
      exact ⟨cs0, rd0, sel0, List.mem_cons_of_mem _ hm, r1, r2, r3⟩
    · simp only [tickLoop, hsel, hdirty, ↓reduceIte, Option.some.injEq, Prod.mk.injEq] at h
      exact ⟨cs, rd, sel, List.mem_cons_self, hsel, h.1.symm, by omega⟩

/-- with at most `q` channels the first round of every tick hands EVERY channel to a worker -/
theorem everSelected_small (q pn pd : Nat) (cs : List Chan) (hn : cs.length ≤ q) (rd : Round) (rest : List Round)
    (i : Nat) (hi : i < cs.length) (d : Int) (hd : d ≤ rd.now i) :
    everSelected q pn pd cs i d (rd :: rest) = true := by
  obtain ⟨sel, hsel, _, _, _, hperm⟩ := uniqRands_perm (min q cs.length) cs.length rd.r
  have hp : sel.Perm (List.range cs.length) := hperm (by omega)
  have hm : i ∈ sel := hp.mem_iff.2 (List.mem_range.2 hi)
  simp [everSelected, hsel, hm, hd]

end Nsq.Proofs.TickLoop
