/-
E2 — the micro-step model of the in-flight map / heap windows (`Nsq.Model.ChanMicro`):
the invariant `MInv` holds along every schedule of micro-steps.
-/
import Nsq.Model.ChanMicro
import Nsq.Proofs.ChanHist
namespace Nsq.Proofs.ChanMicro
open Nsq.Model.Chan (Ev St status evSt okHist okEv nDeliver)
open Nsq.Model.ChanMicro

/-! weighted sums: the counting device for "each id is in one place" -/

def wsum {α : Type} (w : α → Nat) : List α → Nat
  | [] => 0
  | x :: l => w x + wsum w l

theorem wsum_mem {α : Type} {w : α → Nat} {x : α} {l : List α} (h : x ∈ l) : w x ≤ wsum w l := by
  induction l with
  | nil => cases h
  | cons y l ih =>
    rcases List.mem_cons.mp h with rfl | h
    · simp [wsum]
    · have := ih h; simp [wsum]; omega

theorem wsum_erase {α : Type} [DecidableEq α] {w : α → Nat} {x : α} {l : List α} (h : x ∈ l) :
    wsum w (l.erase x) + w x = wsum w l := by
  induction l with
  | nil => cases h
  | cons y l ih =>
    by_cases hy : y = x
    · subst hy; simp [wsum]; omega
    · have hx : x ∈ l := by
        rcases List.mem_cons.mp h with rfl | h
        · exact absurd rfl hy
        · exact h
      have := ih hx
      rw [List.erase_cons_tail (by simpa using hy)]
      simp [wsum]; omega

theorem wsum_zero {α : Type} {w : α → Nat} {l : List α} (h : ∀ x ∈ l, w x = 0) : wsum w l = 0 := by
  induction l with
  | nil => rfl
  | cons y l ih =>
    simp [wsum, h y (List.mem_cons_self), ih (fun x hx => h x (List.mem_cons_of_mem _ hx))]

def isId (id x : Nat) : Nat := if x = id then 1 else 0

theorem isId_self (id : Nat) : isId id id = 1 := by simp [isId]

theorem mem_isId {id : Nat} {l : List Nat} (h : id ∈ l) : 1 ≤ wsum (isId id) l := by
  have := wsum_mem (w := isId id) h; simp [isId] at this; exact this

theorem isId_mem {id : Nat} {l : List Nat} (h : 1 ≤ wsum (isId id) l) : id ∈ l := by
  induction l with
  | nil => simp [wsum] at h
  | cons y l ih =>
    by_cases hy : y = id
    · subst hy; exact List.mem_cons_self
    · simp [wsum, isId, hy] at h; exact List.mem_cons_of_mem _ (ih h)

/-- does the pending continuation hold the object of `id` outside the map? -/
def holdsW (id : Nat) : Pend → Nat
  | .ans _ i _ => isId id i
  | .touchMap _ i => isId id i
  | .scan i => isId id i
  | _ => 0

/-- in how many places is `id`: queue, deferred set, in-flight map, held by an answering goroutine -/
def cnt (s : MS) (id : Nat) : Nat :=
  wsum (isId id) s.queue + wsum (isId id) s.deferred + wsum (isId id) s.map + wsum (holdsW id) s.pend

/-- what the history says about the object a pending answer holds -/
def pendOk (h : List Ev) (o : List (Nat × Nat)) : Pend → Prop
  | .ans _ i .fin => status h i = .gone
  | .ans _ i (.req d) => status h i = (if d = 0 then .queued else .deferred)
  | .ans k i .touch => status h i = .held k ∧ getA o i = k
  | .touchMap k i => status h i = .held k ∧ getA o i = k
  | .scan i => status h i = .queued
  | _ => True

structure MInv (s : MS) : Prop where
  okh  : okHist s.hist = true
  one  : ∀ id, cnt s id ≤ 1
  stq  : ∀ id ∈ s.queue, status s.hist id = .queued
  std  : ∀ id ∈ s.deferred, status s.hist id = .deferred
  stm  : ∀ id ∈ s.map, status s.hist id = .held (getA s.owner id)
  stp  : ∀ p ∈ s.pend, pendOk s.hist s.owner p
  att  : ∀ id, getA s.atts id = nDeliver s.hist id
  orph : ∀ id ∈ s.map, id ∈ s.heap ∨ Pend.push id ∈ s.pend

theorem minv_init : MInv {} := by
  constructor <;> simp [okHist, cnt, wsum, getA, nDeliver]

theorem pendOk_frame {h h' : List Ev} {o o' : List (Nat × Nat)} {p : Pend}
    (hf : ∀ i, holdsW i p = 1 → status h' i = status h i ∧ getA o' i = getA o i)
    (hp : pendOk h o p) : pendOk h' o' p := by
  cases p with
  | ans k i a =>
    have := hf i (by simp [holdsW, isId])
    cases a <;> simp only [pendOk] at * <;> simp [this.1, this.2, hp]
  | touchMap k i =>
    have := hf i (by simp [holdsW, isId])
    simp only [pendOk] at *; simp [this.1, this.2, hp]
  | push i => trivial
  | scan i =>
    have := hf i (by simp [holdsW, isId])
    simp only [pendOk] at *; simp [this.1, hp]

theorem holdsW_le_one (i : Nat) (p : Pend) : holdsW i p ≤ 1 := by
  cases p <;> simp [holdsW, isId] <;> split <;> omega

theorem holdsW_ne {i id : Nat} {p : Pend} (h0 : holdsW id p = 0) (h1 : holdsW i p = 1) : i ≠ id := by
  intro h; subst h; omega

/-- an object some goroutine holds outside the map has a status other than `none` -/
theorem pendOk_status {h : List Ev} {o : List (Nat × Nat)} {p : Pend} {i : Nat}
    (hp : pendOk h o p) (hw : holdsW i p = 1) : status h i ≠ .none := by
  cases p with
  | ans k j a =>
    have : j = i := by simp [holdsW, isId] at hw; exact hw
    subst this
    cases a <;> simp only [pendOk] at hp
    · simp [hp]
    · rw [hp]; split <;> simp
    · simp [hp.1]
  | touchMap k j =>
    have : j = i := by simp [holdsW, isId] at hw; exact hw
    subst this
    simp only [pendOk] at hp; simp [hp.1]
  | push j => simp [holdsW] at hw
  | scan j =>
    have : j = i := by simp [holdsW, isId] at hw; exact hw
    subst this
    simp only [pendOk] at hp; simp [hp]

theorem cnt_zero_of_none {s : MS} (h : MInv s) {id : Nat} (hn : status s.hist id = .none) : cnt s id = 0 := by
  have hq : wsum (isId id) s.queue = 0 := by
    apply Nat.eq_zero_of_not_pos; intro hp
    have := h.stq id (isId_mem hp); rw [hn] at this; cases this
  have hd : wsum (isId id) s.deferred = 0 := by
    apply Nat.eq_zero_of_not_pos; intro hp
    have := h.std id (isId_mem hp); rw [hn] at this; cases this
  have hm : wsum (isId id) s.map = 0 := by
    apply Nat.eq_zero_of_not_pos; intro hp
    have := h.stm id (isId_mem hp); rw [hn] at this; cases this
  have hpd : wsum (holdsW id) s.pend = 0 := by
    apply wsum_zero; intro p hp
    have h1 := holdsW_le_one id p
    apply Nat.eq_zero_of_not_pos; intro hpos
    exact pendOk_status (h.stp p hp) (by omega) hn
  simp [cnt, hq, hd, hm, hpd]

/-! exclusion facts drawn from `one` -/

theorem not_mem_erase_self {s : MS} {id : Nat} (h1 : cnt s id ≤ 1) {l : List Nat} (hl : wsum (isId id) l ≤ cnt s id)
    (hm : id ∈ l) : id ∉ l.erase id := by
  intro h2
  have a := mem_isId h2
  have b := wsum_erase (w := isId id) hm
  rw [isId_self] at b
  omega

theorem mem_erase_ne {s : MS} {id : Nat} (h1 : cnt s id ≤ 1) {l : List Nat} (hl : wsum (isId id) l ≤ cnt s id)
    (hm : id ∈ l) {i : Nat} (hi : i ∈ l.erase id) : i ∈ l ∧ i ≠ id :=
  ⟨List.mem_of_mem_erase hi, fun he => not_mem_erase_self h1 hl hm (he ▸ hi)⟩

/-! one lemma per micro-step -/

theorem minv_put {s : MS} (h : MInv s) {id : Nat} (hn : status s.hist id = .none) :
    MInv { s with queue := id :: s.queue, hist := Ev.fanout id false :: s.hist } := by
  have hz := cnt_zero_of_none h hn
  have hne : ∀ i, status s.hist i ≠ .none → ¬ id = i := fun i hi he => hi (he ▸ hn)
  constructor
  · simp [okHist, okEv, hn, h.okh]
  · intro i
    have := h.one i
    simp only [cnt, wsum] at this hz ⊢
    by_cases hi : id = i
    · subst hi; simp [isId]; omega
    · simp [isId, hi]; omega
  · intro i hi
    rcases List.mem_cons.mp hi with rfl | hi
    · simp [status, evSt]
    · have := h.stq i hi
      simp [status, evSt, hne i (by simp [this]), this]
  · intro i hi
    have := h.std i hi
    simp [status, evSt, hne i (by simp [this]), this]
  · intro i hi
    have := h.stm i hi
    simp [status, evSt, hne i (by simp [this]), this]
  · intro p hp
    refine pendOk_frame (fun i hw => ⟨?_, rfl⟩) (h.stp p hp)
    simp [status, evSt, hne i (pendOk_status (h.stp p hp) hw)]
  · intro i; simp [nDeliver, h.att i]
  · exact h.orph

theorem q_le_cnt (s : MS) (id : Nat) : wsum (isId id) s.queue ≤ cnt s id := by simp only [cnt]; omega
theorem d_le_cnt (s : MS) (id : Nat) : wsum (isId id) s.deferred ≤ cnt s id := by simp only [cnt]; omega
theorem m_le_cnt (s : MS) (id : Nat) : wsum (isId id) s.map ≤ cnt s id := by simp only [cnt]; omega

/-- `id` is in one of the lists: nobody holds it outside -/
theorem pend_free {s : MS} {id : Nat} (h1 : cnt s id ≤ 1)
    (hm : 1 ≤ wsum (isId id) s.queue + wsum (isId id) s.deferred + wsum (isId id) s.map)
    {p : Pend} (hp : p ∈ s.pend) : holdsW id p = 0 := by
  have := wsum_mem (w := holdsW id) hp
  simp only [cnt] at h1; omega

theorem minv_delMapPush {s : MS} (h : MInv s) {k id : Nat} (hq : id ∈ s.queue) :
    id ∉ s.map ∧
    MInv { s with queue := s.queue.erase id, atts := setA s.atts id (getA s.atts id + 1),
                  owner := setA s.owner id k, map := id :: s.map, pend := Pend.push id :: s.pend,
                  hist := Ev.deliver k id (getA s.atts id + 1) :: s.hist } := by
  have h1 := h.one id
  have hq1 := mem_isId hq
  have hm : id ∉ s.map := by
    intro hm; have := mem_isId hm; simp only [cnt] at h1; omega
  have hd : id ∉ s.deferred := by
    intro hm; have := mem_isId hm; simp only [cnt] at h1; omega
  have hpf : ∀ p ∈ s.pend, holdsW id p = 0 := fun p hp => pend_free h1 (by omega) hp
  refine ⟨hm, ?_⟩
  constructor
  · simp [okHist, okEv, h.stq id hq, h.att id, h.okh]
  · intro i
    have := h.one i
    have e := wsum_erase (w := isId i) hq
    simp only [cnt, wsum, holdsW] at this ⊢
    omega
  · intro i hi
    have ⟨hi1, hi2⟩ := mem_erase_ne h1 (q_le_cnt s id) hq hi
    have := h.stq i hi1
    simp [status, evSt, Ne.symm hi2, this]
  · intro i hi
    have hne : ¬ id = i := fun he => hd (he ▸ hi)
    simp [status, evSt, hne, h.std i hi]
  · intro i hi
    rcases List.mem_cons.mp hi with rfl | hi
    · simp [status, evSt, getA, setA]
    · have hne : ¬ id = i := fun he => hm (he ▸ hi)
      simp [status, evSt, getA, setA, hne, h.stm i hi]
  · intro p hp
    rcases List.mem_cons.mp hp with rfl | hp
    · trivial
    · refine pendOk_frame (fun i hw => ?_) (h.stp p hp)
      have hne : ¬ id = i := Ne.symm (holdsW_ne (hpf p hp) hw)
      simp [status, evSt, getA, setA, hne]
  · intro i
    by_cases hi : id = i
    · subst hi; simp [getA, setA, nDeliver, h.att id]
    · simp [getA, setA, nDeliver, hi, h.att i]
  · intro i hi
    rcases List.mem_cons.mp hi with rfl | hi
    · exact Or.inr (List.mem_cons_self)
    · rcases h.orph i hi with a | a
      · exact Or.inl a
      · exact Or.inr ((List.mem_cons_of_mem _ a))

theorem minv_heapPush {s : MS} (h : MInv s) {id : Nat} (hp : Pend.push id ∈ s.pend) :
    MInv { s with heap := id :: s.heap, pend := s.pend.erase (Pend.push id) } := by
  constructor
  · exact h.okh
  · intro i
    have := h.one i
    have e := wsum_erase (w := holdsW i) hp
    simp only [cnt, holdsW] at this ⊢ e
    omega
  · exact h.stq
  · exact h.std
  · exact h.stm
  · intro p hp'; exact h.stp p (List.mem_of_mem_erase hp')
  · exact h.att
  · intro i hi
    rcases h.orph i hi with a | a
    · exact Or.inl (List.mem_cons_of_mem _ a)
    · by_cases he : i = id
      · subst he; exact Or.inl List.mem_cons_self
      · exact Or.inr (((List.mem_erase_of_ne (by simp [he])).mpr a))

theorem status_ansEv_ne {k id i : Nat} (a : Ans) (h : List Ev) (hne : ¬ id = i) :
    status (ansEv k id a :: h) i = status h i := by
  cases a <;> simp [ansEv, status, evSt, hne]

theorem minv_ansMapPop {s : MS} (h : MInv s) {k id : Nat} (a : Ans) (hm : id ∈ s.map)
    (ho : getA s.owner id = k) :
    MInv { s with map := s.map.erase id, pend := Pend.ans k id a :: s.pend,
                  hist := ansEv k id a :: s.hist } := by
  have h1 := h.one id
  have hm1 := mem_isId hm
  have hq : id ∉ s.queue := by
    intro hx; have := mem_isId hx; simp only [cnt] at h1; omega
  have hd : id ∉ s.deferred := by
    intro hx; have := mem_isId hx; simp only [cnt] at h1; omega
  have hpf : ∀ p ∈ s.pend, holdsW id p = 0 := fun p hp => pend_free h1 (by omega) hp
  have hst := h.stm id hm
  rw [ho] at hst
  constructor
  · cases a <;> simp [ansEv, okHist, okEv, hst, h.okh]
  · intro i
    have := h.one i
    have e := wsum_erase (w := isId i) hm
    simp only [cnt, wsum, holdsW] at this ⊢
    omega
  · intro i hi
    rw [status_ansEv_ne a _ (fun (he : id = i) => hq (he ▸ hi))]; exact h.stq i hi
  · intro i hi
    rw [status_ansEv_ne a _ (fun (he : id = i) => hd (he ▸ hi))]; exact h.std i hi
  · intro i hi
    have ⟨hi1, hi2⟩ := mem_erase_ne h1 (m_le_cnt s id) hm hi
    rw [status_ansEv_ne a _ (Ne.symm hi2)]; exact h.stm i hi1
  · intro p hp
    rcases List.mem_cons.mp hp with rfl | hp
    · cases a with
      | fin => simp [pendOk, ansEv, status, evSt]
      | req d => simp [pendOk, ansEv, status, evSt]
      | touch => simp [pendOk, ansEv, status, evSt, hst, ho]
    · refine pendOk_frame (fun i hw => ⟨?_, rfl⟩) (h.stp p hp)
      exact status_ansEv_ne a _ (Ne.symm (holdsW_ne (hpf p hp) hw))
  · intro i; cases a <;> simp [ansEv, nDeliver, h.att i]
  · intro i hi
    rcases h.orph i (List.mem_of_mem_erase hi) with a | a
    · exact Or.inl a
    · exact Or.inr ((List.mem_cons_of_mem _ a))

/-- while an answering goroutine holds `id`, it is in none of the lists -/
theorem held_free {s : MS} (h : MInv s) {p : Pend} {id : Nat} (hp : p ∈ s.pend) (hw : holdsW id p = 1) :
    id ∉ s.queue ∧ id ∉ s.deferred ∧ id ∉ s.map := by
  have h1 := h.one id
  have := wsum_mem (w := holdsW id) hp
  simp only [cnt] at h1
  refine ⟨?_, ?_, ?_⟩ <;> (intro hx; have := mem_isId hx; omega)

theorem orph_erase {s : MS} (h : MInv s) {p : Pend} {id : Nat} (hp : p ∈ s.pend) (hw : holdsW id p = 1)
    {extra : List Pend} :
    ∀ i ∈ s.map, i ∈ s.heap.erase id ∨ Pend.push i ∈ extra ++ s.pend.erase p := by
  intro i hi
  have hne : i ≠ id := fun he => (held_free h hp hw).2.2 (he ▸ hi)
  have hpp : ∀ j, Pend.push j ≠ p := by intro j he; subst he; simp [holdsW] at hw
  rcases h.orph i hi with a | a
  · exact Or.inl ((List.mem_erase_of_ne hne).mpr a)
  · exact Or.inr ((List.mem_append_right _ ((List.mem_erase_of_ne (hpp i)).mpr a)))

theorem minv_ansFinish_fin {s : MS} (h : MInv s) {k id : Nat} (hp : Pend.ans k id .fin ∈ s.pend) :
    MInv { s with heap := s.heap.erase id, pend := s.pend.erase (Pend.ans k id .fin) } := by
  constructor
  · exact h.okh
  · intro i
    have := h.one i
    have e := wsum_erase (w := holdsW i) hp
    simp only [cnt] at this ⊢
    omega
  · exact h.stq
  · exact h.std
  · exact h.stm
  · intro p hp'; exact h.stp p (List.mem_of_mem_erase hp')
  · exact h.att
  · have := orph_erase h hp (id := id) (by simp [holdsW, isId]) (extra := [])
    simpa using this

theorem minv_ansFinish_req0 {s : MS} (h : MInv s) {k id : Nat} (hp : Pend.ans k id (.req 0) ∈ s.pend) :
    MInv { s with heap := s.heap.erase id, pend := s.pend.erase (Pend.ans k id (.req 0)),
                  queue := id :: s.queue } := by
  constructor
  · exact h.okh
  · intro i
    have := h.one i
    have e := wsum_erase (w := holdsW i) hp
    simp only [cnt, wsum, holdsW] at this ⊢ e
    omega
  · intro i hi
    rcases List.mem_cons.mp hi with rfl | hi
    · have := h.stp _ hp; simpa [pendOk] using this
    · exact h.stq i hi
  · exact h.std
  · exact h.stm
  · intro p hp'; exact h.stp p (List.mem_of_mem_erase hp')
  · exact h.att
  · have := orph_erase h hp (id := id) (by simp [holdsW, isId]) (extra := [])
    simpa using this

theorem minv_ansFinish_reqd {s : MS} (h : MInv s) {k id d : Nat} (hd : d ≠ 0)
    (hp : Pend.ans k id (.req d) ∈ s.pend) :
    MInv { s with heap := s.heap.erase id, pend := s.pend.erase (Pend.ans k id (.req d)),
                  deferred := id :: s.deferred } := by
  constructor
  · exact h.okh
  · intro i
    have := h.one i
    have e := wsum_erase (w := holdsW i) hp
    simp only [cnt, wsum, holdsW] at this ⊢ e
    omega
  · exact h.stq
  · intro i hi
    rcases List.mem_cons.mp hi with rfl | hi
    · have := h.stp _ hp; simpa [pendOk, hd] using this
    · exact h.std i hi
  · exact h.stm
  · intro p hp'; exact h.stp p (List.mem_of_mem_erase hp')
  · exact h.att
  · have := orph_erase h hp (id := id) (by simp [holdsW, isId]) (extra := [])
    simpa using this

theorem minv_ansFinish_touch {s : MS} (h : MInv s) {k id : Nat} (hp : Pend.ans k id .touch ∈ s.pend) :
    MInv { s with heap := s.heap.erase id,
                  pend := Pend.touchMap k id :: s.pend.erase (Pend.ans k id .touch) } := by
  constructor
  · exact h.okh
  · intro i
    have := h.one i
    have e := wsum_erase (w := holdsW i) hp
    simp only [cnt, wsum, holdsW] at this ⊢ e
    omega
  · exact h.stq
  · exact h.std
  · exact h.stm
  · intro p hp'
    rcases List.mem_cons.mp hp' with rfl | hp'
    · have := h.stp _ hp; simpa [pendOk] using this
    · exact h.stp p (List.mem_of_mem_erase hp')
  · exact h.att
  · have := orph_erase h hp (id := id) (by simp [holdsW, isId]) (extra := [Pend.touchMap k id])
    simpa using this

theorem minv_touchMapPush {s : MS} (h : MInv s) {k id : Nat} (hp : Pend.touchMap k id ∈ s.pend) :
    id ∉ s.map ∧
    MInv { s with map := id :: s.map, pend := Pend.push id :: s.pend.erase (Pend.touchMap k id) } := by
  have hf := held_free h hp (id := id) (by simp [holdsW, isId])
  refine ⟨hf.2.2, ?_⟩
  constructor
  · exact h.okh
  · intro i
    have := h.one i
    have e := wsum_erase (w := holdsW i) hp
    simp only [cnt, wsum, holdsW] at this ⊢ e
    omega
  · exact h.stq
  · exact h.std
  · intro i hi
    rcases List.mem_cons.mp hi with rfl | hi
    · have := h.stp _ hp; simp only [pendOk] at this; rw [this.2]; exact this.1
    · exact h.stm i hi
  · intro p hp'
    rcases List.mem_cons.mp hp' with rfl | hp'
    · trivial
    · exact h.stp p (List.mem_of_mem_erase hp')
  · exact h.att
  · intro i hi
    rcases List.mem_cons.mp hi with rfl | hi
    · exact Or.inr (List.mem_cons_self)
    · have := orph_erase h hp (id := id) (by simp [holdsW, isId]) (extra := [Pend.push id]) i hi
      rcases this with a | a
      · exact Or.inl (List.mem_of_mem_erase a)
      · exact Or.inr ((by simpa using a))

theorem minv_scanStale {s : MS} (h : MInv s) {id : Nat} (hm : id ∉ s.map) :
    MInv { s with heap := s.heap.erase id } := by
  constructor
  · exact h.okh
  · exact h.one
  · exact h.stq
  · exact h.std
  · exact h.stm
  · exact h.stp
  · exact h.att
  · intro i hi
    have hne : i ≠ id := fun he => hm (he ▸ hi)
    rcases h.orph i hi with a | a
    · exact Or.inl ((List.mem_erase_of_ne hne).mpr a)
    · exact Or.inr a

theorem minv_scanPop {s : MS} (h : MInv s) {id : Nat} (hm : id ∈ s.map) :
    MInv { s with heap := s.heap.erase id, map := s.map.erase id, pend := Pend.scan id :: s.pend,
                  hist := Ev.timeout id (getA s.owner id) :: s.hist } := by
  have h1 := h.one id
  have hm1 := mem_isId hm
  have hq : id ∉ s.queue := by
    intro hx; have := mem_isId hx; simp only [cnt] at h1; omega
  have hd : id ∉ s.deferred := by
    intro hx; have := mem_isId hx; simp only [cnt] at h1; omega
  have hpf : ∀ p ∈ s.pend, holdsW id p = 0 := fun p hp => pend_free h1 (by omega) hp
  constructor
  · simp [okHist, okEv, h.stm id hm, h.okh]
  · intro i
    have := h.one i
    have e := wsum_erase (w := isId i) hm
    simp only [cnt, wsum, holdsW] at this ⊢
    omega
  · intro i hi
    have hne : ¬ id = i := fun he => hq (he ▸ hi)
    simp [status, evSt, hne, h.stq i hi]
  · intro i hi
    have hne : ¬ id = i := fun he => hd (he ▸ hi)
    simp [status, evSt, hne, h.std i hi]
  · intro i hi
    have ⟨hi1, hi2⟩ := mem_erase_ne h1 (m_le_cnt s id) hm hi
    simp [status, evSt, Ne.symm hi2, h.stm i hi1]
  · intro p hp'
    rcases List.mem_cons.mp hp' with rfl | hp'
    · simp [pendOk, status, evSt]
    · refine pendOk_frame (fun i hw => ⟨?_, rfl⟩) (h.stp p hp')
      have hne : ¬ id = i := Ne.symm (holdsW_ne (hpf p hp') hw)
      simp [status, evSt, hne]
  · intro i; simp [nDeliver, h.att i]
  · intro i hi
    have ⟨hi1, hi2⟩ := mem_erase_ne h1 (m_le_cnt s id) hm hi
    rcases h.orph i hi1 with a | a
    · exact Or.inl ((List.mem_erase_of_ne hi2).mpr a)
    · exact Or.inr (List.mem_cons_of_mem _ a)

theorem minv_scanPut {s : MS} (h : MInv s) {id : Nat} (hp : Pend.scan id ∈ s.pend) :
    MInv { s with pend := s.pend.erase (Pend.scan id), queue := id :: s.queue } := by
  constructor
  · exact h.okh
  · intro i
    have := h.one i
    have e := wsum_erase (w := holdsW i) hp
    simp only [cnt, wsum, holdsW] at this ⊢ e
    omega
  · intro i hi
    rcases List.mem_cons.mp hi with rfl | hi
    · have := h.stp _ hp; simpa [pendOk] using this
    · exact h.stq i hi
  · exact h.std
  · exact h.stm
  · intro p hp'; exact h.stp p (List.mem_of_mem_erase hp')
  · exact h.att
  · intro i hi
    rcases h.orph i hi with a | a
    · exact Or.inl a
    · exact Or.inr ((List.mem_erase_of_ne (by simp)).mpr a)

theorem minv_deferDue {s : MS} (h : MInv s) {id : Nat} (hd : id ∈ s.deferred) :
    MInv { s with deferred := s.deferred.erase id, queue := id :: s.queue,
                  hist := Ev.deferDue id :: s.hist } := by
  have h1 := h.one id
  have hd1 := mem_isId hd
  have hq : id ∉ s.queue := by
    intro hx; have := mem_isId hx; simp only [cnt] at h1; omega
  have hm : id ∉ s.map := by
    intro hx; have := mem_isId hx; simp only [cnt] at h1; omega
  have hpf : ∀ p ∈ s.pend, holdsW id p = 0 := fun p hp => pend_free h1 (by omega) hp
  constructor
  · simp [okHist, okEv, h.std id hd, h.okh]
  · intro i
    have := h.one i
    have e := wsum_erase (w := isId i) hd
    simp only [cnt, wsum] at this ⊢
    omega
  · intro i hi
    rcases List.mem_cons.mp hi with rfl | hi
    · simp [status, evSt]
    · have hne : ¬ id = i := fun he => hq (he ▸ hi)
      simp [status, evSt, hne, h.stq i hi]
  · intro i hi
    have ⟨hi1, hi2⟩ := mem_erase_ne h1 (d_le_cnt s id) hd hi
    simp [status, evSt, Ne.symm hi2, h.std i hi1]
  · intro i hi
    have hne : ¬ id = i := fun he => hm (he ▸ hi)
    simp [status, evSt, hne, h.stm i hi]
  · intro p hp
    refine pendOk_frame (fun i hw => ⟨?_, rfl⟩) (h.stp p hp)
    have hne : ¬ id = i := Ne.symm (holdsW_ne (hpf p hp) hw)
    simp [status, evSt, hne]
  · intro i; simp [nDeliver, h.att i]
  · exact h.orph

/-- the invariant is preserved by every micro-step -/
theorem step_minv {s : MS} (h : MInv s) (op : Op) : MInv (step s op).1 := by
  cases op with
  | put id =>
    simp only [step]; split
    · rename_i hn; exact minv_put h hn
    · exact h
  | delMapPush k id =>
    simp only [step]; split
    · rename_i hq
      have := minv_delMapPush h (k := k) hq
      rw [if_neg this.1]; exact this.2
    · exact h
  | heapPush id =>
    simp only [step]; split
    · rename_i hp; exact minv_heapPush h hp
    · exact h
  | ansMapPop k id a =>
    simp only [step]; split
    · split
      · rename_i hm ho; exact minv_ansMapPop h a hm ho
      · exact h
    · exact h
  | ansFinish k id a =>
    simp only [step]; split
    · rename_i hp
      cases a with
      | fin => exact minv_ansFinish_fin h hp
      | req d =>
        by_cases hd : d = 0
        · subst hd; simp only [if_pos]; exact minv_ansFinish_req0 h hp
        · simp only [if_neg hd]; exact minv_ansFinish_reqd h hd hp
      | touch => exact minv_ansFinish_touch h hp
    · exact h
  | touchMapPush k id =>
    simp only [step]; split
    · rename_i hp
      have := minv_touchMapPush h hp
      rw [if_neg this.1]; exact this.2
    · exact h
  | scanPop id =>
    simp only [step]; split
    · split
      · rename_i hm; exact minv_scanPop h hm
      · rename_i hm; exact minv_scanStale h hm
    · exact h
  | scanPut id =>
    simp only [step]; split
    · rename_i hp; exact minv_scanPut h hp
    · exact h
  | deferDue id =>
    simp only [step]; split
    · rename_i hd; exact minv_deferDue h hd
    · exact h

theorem run_minv {s : MS} (h : MInv s) (ops : List Op) : MInv (run s ops) := by
  induction ops generalizing s with
  | nil => exact h
  | cons op ops ih => exact ih (step_minv h op)

/-! the map pop is the decision point -/

/-- a contender that finds the id gone from the map fails and changes nothing: an answer gets
`E_FIN_FAILED` / `E_REQ_FAILED` / `E_TOUCH_FAILED` and the state is the same … -/
theorem ansMapPop_out (s : MS) {id : Nat} (hm : id ∉ s.map) (k : Nat) (a : Ans) :
    step s (.ansMapPop k id a) = (s, .fail) := by
  simp [step, hm]

/-- … an answer of a connection that is not the owner likewise … -/
theorem ansMapPop_foreign (s : MS) {k id : Nat} (ho : getA s.owner id ≠ k) (a : Ans) :
    step s (.ansMapPop k id a) = (s, .fail) := by
  simp [step, ho]

/-- … and the scan that meets a heap entry of an id which is no longer in the map (fix F16: checked
in the same critical section as the heap pop) only drops that stale entry: no event, no change of
queue, deferred set, map, pending continuations or any message object. -/
theorem scanPop_out (s : MS) {id : Nat} (hm : id ∉ s.map) :
    (step s (.scanPop id)).2 ≠ .ok ∧
    (step s (.scanPop id)).1 = { s with heap := s.heap.erase id } := by
  simp only [step]; split
  · simp [hm]
  · rename_i hp; simp [List.erase_of_not_mem hp]

/-- a successful map pop takes the id out of the map (it is there at most once) -/
theorem pop_takes_it {s : MS} (h : MInv s) {id : Nat} {op : Op} (hp : isPopOf id op = true)
    (hok : (step s op).2 = .ok) : id ∉ (step s op).1.map := by
  have h1 := h.one id
  cases op with
  | ansMapPop k i a =>
    have : i = id := by simpa [isPopOf] using hp
    subst this
    simp only [step] at hok ⊢
    split
    · rename_i hm
      split
      · exact not_mem_erase_self h1 (m_le_cnt s i) hm
      · rename_i ho; rw [if_pos hm, if_neg ho] at hok; cases hok
    · rename_i hm; exact hm
  | scanPop i =>
    have : i = id := by simpa [isPopOf] using hp
    subst this
    simp only [step] at hok ⊢
    split
    · split
      · rename_i hm; exact not_mem_erase_self h1 (m_le_cnt s i) hm
      · rename_i hm; exact hm
    · rename_i hpn; rw [if_neg hpn] at hok; cases hok
  | _ => simp [isPopOf] at hp

/-- without a push of `id`, an id that is not in the map stays out of it -/
theorem stays_out (s : MS) {id : Nat} (hm : id ∉ s.map) {op : Op} (hnp : isPushOf id op = false) :
    id ∉ (step s op).1.map := by
  cases op with
  | delMapPush k i =>
    have hne : ¬ i = id := by simpa [isPushOf] using hnp
    simp only [step]; repeat' split
    all_goals (first | exact hm | (simp; exact ⟨fun he => hne he.symm, hm⟩))
  | touchMapPush k i =>
    have hne : ¬ i = id := by simpa [isPushOf] using hnp
    simp only [step]; repeat' split
    all_goals (first | exact hm | (simp; exact ⟨fun he => hne he.symm, hm⟩))
  | ansMapPop k i a =>
    simp only [step]; repeat' split
    all_goals (first | exact hm | exact fun hx => hm (List.mem_of_mem_erase hx))
  | scanPop i =>
    simp only [step]; repeat' split
    all_goals (first | exact hm | exact fun hx => hm (List.mem_of_mem_erase hx))
  | ansFinish k i a =>
    simp only [step]; repeat' split
    all_goals exact hm
  | put i => simp only [step]; split <;> exact hm
  | heapPush i => simp only [step]; split <;> exact hm
  | scanPut i => simp only [step]; split <;> exact hm
  | deferDue i => simp only [step]; split <;> exact hm

theorem no_win_when_out (s : MS) {id : Nat} (hm : id ∉ s.map) (ops : List Op)
    (hnp : ∀ op ∈ ops, isPushOf id op = false) : wins id s ops = 0 := by
  induction ops generalizing s with
  | nil => rfl
  | cons op ops ih =>
    have hout := stays_out s hm (hnp op List.mem_cons_self)
    have hrest := ih _ hout (fun o ho => hnp o (List.mem_cons_of_mem _ ho))
    have hfail : (isPopOf id op && (step s op).2 == .ok) = false := by
      cases op with
      | ansMapPop k i a =>
        by_cases hi : i = id
        · subst hi; rw [ansMapPop_out s hm]; simp
        · simp [isPopOf, hi]
      | scanPop i =>
        by_cases hi : i = id
        · subst hi; have := (scanPop_out s hm).1; simp [this]
        · simp [isPopOf, hi]
      | _ => simp [isPopOf]
    simp [wins, hfail, hrest]

/-- at most one map pop of `id` succeeds along a schedule that does not push `id` again -/
theorem wins_le_one {s : MS} (hi : MInv s) (id : Nat) (ops : List Op)
    (hnp : ∀ op ∈ ops, isPushOf id op = false) : wins id s ops ≤ 1 := by
  induction ops generalizing s with
  | nil => simp [wins]
  | cons op ops ih =>
    have hnp' : ∀ o ∈ ops, isPushOf id o = false := fun o ho => hnp o (List.mem_cons_of_mem _ ho)
    simp only [wins]
    by_cases hw : (isPopOf id op && (step s op).2 == .ok) = true
    · simp only [Bool.and_eq_true, beq_iff_eq] at hw
      have hout := pop_takes_it hi hw.1 hw.2
      have := no_win_when_out _ hout ops hnp'
      simp [hw.1, hw.2, this]
    · have := ih (step_minv hi op) hnp'
      simp only [Bool.not_eq_true] at hw
      simp [hw]; exact this

end Nsq.Proofs.ChanMicro
