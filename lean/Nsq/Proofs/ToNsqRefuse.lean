import Nsq.Model.ToNsqRefuse
/-!
Helper lemmas for `Nsq.Props.C20Refuse` (to_nsq with destinations that may refuse a record; audit round 7, C14).
-/
namespace Nsq.Proofs.ToNsqRefuse
open Nsq.Model.Split Nsq.Model.ToNsqRefuse

theorem publishOne_eq (acc : Nat → Bytes → Bool) (r : Bytes) (ord : List Nat) :
    (publishOne acc r ord).1 = (ord.takeWhile (fun i => acc i r)).map (fun i => (i, r)) ∧
    (publishOne acc r ord).2 = ord.all (fun i => acc i r) := by
  induction ord with
  | nil => simp [publishOne]
  | cons i is ih =>
    unfold publishOne
    by_cases h : acc i r = true
    · simp [h, ih.1, ih.2]
    · simp [h]

theorem received_append (i : Nat) (a b : List (Nat × Bytes)) : received i (a ++ b) = received i a ++ received i b := by
  simp [received, List.filterMap_append]

theorem received_map_notMem (i : Nat) (r : Bytes) (l : List Nat) (h : i ∉ l) :
    received i (l.map (fun k => (k, r))) = [] := by
  induction l with
  | nil => rfl
  | cons a as ih =>
    have ha : a ≠ i := fun e => h (by simp [e])
    have has : i ∉ as := fun e => h (by simp [e])
    simp only [List.map_cons, received, List.filterMap_cons, ha, if_false]
    exact ih has

theorem received_map (i : Nat) (r : Bytes) (l : List Nat) (hnd : l.Nodup) :
    received i (l.map (fun k => (k, r))) = if i ∈ l then [r] else [] := by
  induction l with
  | nil => rfl
  | cons a as ih =>
    have hnd' := List.nodup_cons.mp hnd
    by_cases ha : a = i
    · subst ha
      have := received_map_notMem a r as hnd'.1
      simp only [received] at this
      simp [received, this]
    · have hrec : received i ((a :: as).map (fun k => (k, r))) = received i (as.map (fun k => (k, r))) := by
        simp [received, ha]
      rw [hrec, ih hnd'.2]
      have : (i ∈ a :: as) ↔ i ∈ as := by
        simp only [List.mem_cons]
        constructor
        · rintro (e | e)
          · exact absurd e.symm ha
          · exact e
        · exact Or.inr
      simp [this]

/-- what destination `i` acknowledges of one record: the record iff `i` was visited before the first refuser -/
theorem received_publishOne (acc : Nat → Bytes → Bool) (r : Bytes) (ord : List Nat) (hnd : ord.Nodup) (i : Nat) :
    received i (publishOne acc r ord).1 = if i ∈ ord.takeWhile (fun k => acc k r) then [r] else [] := by
  rw [(publishOne_eq acc r ord).1]
  exact received_map i r _ (hnd.sublist (List.takeWhile_sublist _))

theorem takeWhile_all {α : Type} (p : α → Bool) (l : List α) (h : l.all p = true) : l.takeWhile p = l := by
  induction l with
  | nil => rfl
  | cons a as ih =>
    simp only [List.all_cons, Bool.and_eq_true] at h
    simp [h.1, ih h.2]

theorem mem_takeWhile_imp {α : Type} (p : α → Bool) (l : List α) (x : α) (h : x ∈ l.takeWhile p) : p x = true := by
  induction l with
  | nil => simp at h
  | cons a as ih =>
    rw [List.takeWhile_cons] at h
    by_cases ha : p a = true
    · simp only [ha, if_true, List.mem_cons] at h
      rcases h with rfl | h
      · exact ha
      · exact ih h
    · simp [ha] at h

/-- a prefix of iterations in which every destination accepts just passes -/
theorem run_append_accepted (acc : Nat → Bytes → Bool) (pre rest : List (Bytes × List Nat))
    (h : ∀ it ∈ pre, (publishOne acc it.1 it.2).2 = true) :
    run acc (pre ++ rest) = ((run acc pre).1 ++ (run acc rest).1, (run acc rest).2) := by
  induction pre with
  | nil => simp [run]
  | cons it its ih =>
    have h1 := h it (List.mem_cons_self ..)
    have ih' := ih (fun x hx => h x (List.mem_cons_of_mem _ hx))
    simp only [List.cons_append, run, h1, if_true, ih', List.append_assoc]

theorem run_accepted_exit (acc : Nat → Bytes → Bool) (its : List (Bytes × List Nat))
    (h : ∀ it ∈ its, (publishOne acc it.1 it.2).2 = true) : (run acc its).2 = 0 := by
  induction its with
  | nil => rfl
  | cons it its ih =>
    simp only [run, h it (List.mem_cons_self ..), if_true]
    exact ih (fun x hx => h x (List.mem_cons_of_mem _ hx))

theorem run_accepted_received (acc : Nat → Bytes → Bool) (n : Nat) (its : List (Bytes × List Nat))
    (hv : ∀ it ∈ its, ValidOrder n it.2)
    (h : ∀ it ∈ its, (publishOne acc it.1 it.2).2 = true) (i : Nat) (hi : i < n) :
    received i (run acc its).1 = its.map (·.1) := by
  induction its with
  | nil => rfl
  | cons it its ih =>
    have h1 := h it (List.mem_cons_self ..)
    have hv1 := hv it (List.mem_cons_self ..)
    simp only [run, h1, if_true, received_append, List.map_cons]
    rw [ih (fun x hx => hv x (List.mem_cons_of_mem _ hx)) (fun x hx => h x (List.mem_cons_of_mem _ hx))]
    rw [received_publishOne acc it.1 it.2 hv1.1 i]
    have hall : it.2.all (fun k => acc k it.1) = true := by rw [← (publishOne_eq acc it.1 it.2).2]; exact h1
    rw [takeWhile_all _ _ hall]
    simp [(hv1.2 i).mpr hi]

end Nsq.Proofs.ToNsqRefuse
