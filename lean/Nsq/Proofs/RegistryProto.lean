import Nsq.Model.RegistryProto
import Nsq.Proofs.RegistryWF
/-! Lemmas about the byte-level connection model `Nsq.Model.RegistryProto`. -/
namespace Nsq.Proofs.RegistryProto
open Nsq.Model.Registry Nsq.Model.Registry.AMap Nsq.Model.RegistryProto
open Nsq.Proofs.RegistryMap Nsq.Proofs.RegistryDB Nsq.Proofs.RegistryRefine Nsq.Spec.RegistrySpec
open Nsq.Proofs.RegistryWF

theorem splitSp_ne_nil (l : List UInt8) : splitSp l ≠ [] := by
  cases l with
  | nil => simp [splitSp]
  | cons c rest =>
    unfold splitSp
    by_cases h : c = 32
    · simp [h]
    · simp only [h, if_false]
      cases splitSp rest <;> simp

/-- with the size check, IDENTIFY never reaches `make([]byte, n)` with `n < 0` -/
theorem execIdentify_fixed_no_panic (decode : List UInt8 → Option Info) (r : Registry) (p : Nat)
    (now : Int) (rest : List UInt8) (w : String) :
    execIdentify fixedV decode r p now rest ≠ .panic w := by
  unfold execIdentify
  split
  · simp
  · split
    · rename_i a b c d body
      simp only [fixedV, Bool.true_and]
      by_cases h1 : be32 a b c d > maxIdentifyBody
      · simp [h1]
      · by_cases h2 : be32 a b c d ≤ 0
        · simp [h1, h2]
        · have h3 : ¬ be32 a b c d < 0 := by omega
          simp only [h1, h2, h3, decide_false, Bool.false_eq_true, if_false]
          split
          · simp
          · split <;> simp
    · simp

theorem exec_fixed_no_panic (decode : List UInt8 → Option Info) (r : Registry) (p : Nat) (now : Int)
    (params : List Name) (rest : List UInt8) (hp : params ≠ []) (w : String) :
    exec fixedV decode r p now params rest ≠ .panic w := by
  unfold exec
  cases params with
  | nil => exact absurd rfl hp
  | cons cmd args =>
    simp only
    split
    · simp
    · split
      · exact execIdentify_fixed_no_panic decode r p now rest w
      · split
        · simp
        · split <;> simp

theorem ioLoop_fixed_no_panic (decode : List UInt8 → Option Info) (wf : Nat → Bool) (p : Nat) (now : Int)
    (fuel : Nat) (r : Registry) (inp : List UInt8) (acc : List (List UInt8)) :
    (ioLoop fixedV decode wf p now fuel r inp acc).fin ≠ .panic := by
  induction fuel generalizing r inp acc with
  | zero => simp [ioLoop]
  | succ fuel ih =>
    unfold ioLoop
    split
    · simp
    · rename_i lr _
      split
      · rename_i w hx
        exact absurd hx (exec_fixed_no_panic decode r p now _ lr.2 (splitSp_ne_nil _) w)
      · split
        · simp
        · split
          · simp
          · exact ih _ _ _

theorem handleW_fixed_no_panic (decode : List UInt8 → Option Info) (wf : Nat → Bool) (r : Registry) (p : Nat)
    (now : Int) (inp : List UInt8) : (handleW fixedV decode wf r p now inp).fin ≠ .panic := by
  unfold handleW
  split
  · split
    · exact ioLoop_fixed_no_panic decode wf p now _ r _ []
    · simp
  · simp

theorem handle_fixed_no_panic (decode : List UInt8 → Option Info) (r : Registry) (p : Nat) (now : Int)
    (inp : List UInt8) : (handle fixedV decode r p now inp).fin ≠ .panic :=
  handleW_fixed_no_panic decode _ r p now inp


/-! ### Isolation: connection `p` never changes an entry of another connection -/

/-- everything that belongs to peers other than `p` is the same in `r` and `r'` -/
def Frame (p : Nat) (r r' : Registry) : Prop :=
  (∀ k q, q ≠ p → getP r'.db k q = getP r.db k q) ∧ (∀ q, q ≠ p → mget r'.peers q = mget r.peers q)

theorem Frame.refl (p : Nat) (r : Registry) : Frame p r r := ⟨fun _ _ _ => rfl, fun _ _ => rfl⟩

theorem Frame.trans {p : Nat} {a b c : Registry} (h1 : Frame p a b) (h2 : Frame p b c) : Frame p a c :=
  ⟨fun k q hq => (h2.1 k q hq).trans (h1.1 k q hq), fun q hq => (h2.2 q hq).trans (h1.2 q hq)⟩

theorem frame_disconnect (r : Registry) (p : Nat) : Frame p r (disconnect r p) := by
  unfold disconnect
  split
  · refine ⟨?_, ?_⟩
    · intro k q hq; simp only [getP_disconnectDB, hq, if_false]
    · intro q hq
      have : ¬ p = q := fun h => hq h.symm
      simp only [mget_mdel, this, if_false]
  · exact Frame.refl p r

theorem frame_identify (r : Registry) (p : Nat) (info : Info) (now : Int) :
    Frame p r (identify r p info now).1 := by
  unfold identify
  split
  · exact frame_disconnect r p
  · split
    · exact Frame.refl p r
    · refine ⟨?_, ?_⟩
      · intro k q hq
        have : ¬ p = q := fun h => hq h.symm
        simp only [getP_addProducer, this, false_and, and_false, if_false]
      · intro q hq
        have : ¬ p = q := fun h => hq h.symm
        simp only [mget_mset, this, if_false]

theorem frame_register (r : Registry) (p : Nat) (params : List Name) : Frame p r (register r p params).1 := by
  unfold register
  split
  · exact Frame.refl p r
  · split
    · exact frame_disconnect r p
    · refine ⟨?_, fun _ _ => rfl⟩
      intro k q hq
      have : ¬ p = q := fun h => hq h.symm
      simp only [getP_registerDB, this, false_and, if_false]

theorem frame_unregister (r : Registry) (p : Nat) (params : List Name) :
    Frame p r (unregister r p params).1 := by
  unfold unregister
  split
  · exact Frame.refl p r
  · split
    · exact frame_disconnect r p
    · rename_i tc hg
      refine ⟨?_, fun _ _ => rfl⟩
      intro k q hq
      have : ¬ p = q := fun h => hq h.symm
      have ht := validName_ne_star _ (getTopicChan_ok _ _ _ hg).1
      simp only [getP_unregisterDB _ _ _ _ _ ht, this, false_and, if_false]

theorem frame_ping (r : Registry) (p : Nat) (now : Int) : Frame p r (ping r p now) := by
  unfold ping
  split
  · refine ⟨fun _ _ _ => rfl, ?_⟩
    intro q hq
    have : ¬ p = q := fun h => hq h.symm
    simp only [mget_mset, this, if_false]
  · exact Frame.refl p r

theorem frame_execIdentify (v : Variant) (decode : List UInt8 → Option Info) (r r' : Registry) (p : Nat)
    (now : Int) (rest rest' : List UInt8) (out : TcpOut)
    (h : execIdentify v decode r p now rest = .reply r' out rest') : Frame p r r' := by
  unfold execIdentify at h
  split at h
  · simp only [ExecRes.reply.injEq] at h; rw [← h.1]; exact frame_disconnect r p
  · split at h
    · split at h
      · simp only [ExecRes.reply.injEq] at h; rw [← h.1]; exact Frame.refl p r
      · split at h
        · simp only [ExecRes.reply.injEq] at h; rw [← h.1]; exact Frame.refl p r
        · split at h
          · simp at h
          · split at h
            · simp only [ExecRes.reply.injEq] at h; rw [← h.1]; exact Frame.refl p r
            · split at h
              · simp only [ExecRes.reply.injEq] at h; rw [← h.1]; exact Frame.refl p r
              · simp only [ExecRes.reply.injEq] at h; rw [← h.1]; exact frame_identify r p _ now
    · simp only [ExecRes.reply.injEq] at h; rw [← h.1]; exact Frame.refl p r

theorem frame_exec (v : Variant) (decode : List UInt8 → Option Info) (r r' : Registry) (p : Nat) (now : Int)
    (params : List Name) (rest rest' : List UInt8) (out : TcpOut)
    (h : exec v decode r p now params rest = .reply r' out rest') : Frame p r r' := by
  unfold exec at h
  cases params with
  | nil => simp at h
  | cons cmd args =>
    simp only at h
    split at h
    · simp only [ExecRes.reply.injEq] at h; rw [← h.1]; exact frame_ping r p now
    · split at h
      · exact frame_execIdentify v decode r r' p now rest rest' out h
      · split at h
        · simp only [ExecRes.reply.injEq] at h; rw [← h.1]; exact frame_register r p args
        · split at h
          · simp only [ExecRes.reply.injEq] at h; rw [← h.1]; exact frame_unregister r p args
          · simp only [ExecRes.reply.injEq] at h; rw [← h.1]; exact frame_disconnect r p

theorem frame_ioLoop (v : Variant) (decode : List UInt8 → Option Info) (wf : Nat → Bool) (p : Nat) (now : Int)
    (fuel : Nat) (r : Registry) (inp : List UInt8) (acc : List (List UInt8)) :
    Frame p r (ioLoop v decode wf p now fuel r inp acc).reg := by
  induction fuel generalizing r inp acc with
  | zero => simp only [ioLoop]; exact frame_disconnect r p
  | succ fuel ih =>
    unfold ioLoop
    split
    · exact frame_disconnect r p
    · rename_i lr _
      split
      · exact Frame.refl p r
      · rename_i r' out rest hx
        have hf := frame_exec v decode r r' p now _ lr.2 rest out hx
        split
        · exact hf.trans (frame_disconnect r' p)
        · split
          · exact hf.trans (frame_disconnect r' p)
          · exact hf.trans (ih r' rest _)

theorem frame_handleW (v : Variant) (decode : List UInt8 → Option Info) (wf : Nat → Bool) (r : Registry) (p : Nat)
    (now : Int) (inp : List UInt8) : Frame p r (handleW v decode wf r p now inp).reg := by
  unfold handleW
  split
  · split
    · exact frame_ioLoop v decode wf p now _ r _ []
    · exact Frame.refl p r
  · exact Frame.refl p r

theorem frame_handle (v : Variant) (decode : List UInt8 → Option Info) (r : Registry) (p : Nat) (now : Int)
    (inp : List UInt8) : Frame p r (handle v decode r p now inp).reg :=
  frame_handleW v decode _ r p now inp

/-! ### Every way out of the loop runs the clean-up -/

/-- nothing of connection `p` is left: not identified, no producer entry under any key -/
def Gone (p : Nat) (r : Registry) : Prop :=
  identifiedB r p = false ∧ ∀ k, getP r.db k p = none

theorem disconnect_gone (r : Registry) (p : Nat) (h : WF r) : Gone p (disconnect r p) := by
  cases hi : identifiedB r p with
  | true =>
    refine ⟨by rw [identifiedB_disconnect r p p hi]; simp, ?_⟩
    intro k
    have : (disconnect r p).db = removeProducerAll r.db (lookupRegistrations r.db p) p := by
      unfold disconnect; simp [hi]
    rw [this, getP_disconnectDB]; simp
  | false =>
    have : disconnect r p = r := by unfold disconnect; simp [hi]
    rw [this]
    refine ⟨hi, ?_⟩
    intro k
    cases hg : getP r.db k p with
    | none => rfl
    | some tb =>
      have := h.peerKnown k p (by simp [hg])
      rw [hi] at this; exact absurd this (by simp)

theorem WF_execIdentify (v : Variant) (decode : List UInt8 → Option Info) (r r' : Registry) (p : Nat)
    (now : Int) (rest rest' : List UInt8) (out : TcpOut)
    (h : execIdentify v decode r p now rest = .reply r' out rest') (hw : WF r) : WF r' := by
  unfold execIdentify at h
  split at h
  · simp only [ExecRes.reply.injEq] at h; rw [← h.1]; exact WF_disconnect r p hw
  · split at h
    · split at h
      · simp only [ExecRes.reply.injEq] at h; rw [← h.1]; exact hw
      · split at h
        · simp only [ExecRes.reply.injEq] at h; rw [← h.1]; exact hw
        · split at h
          · simp at h
          · split at h
            · simp only [ExecRes.reply.injEq] at h; rw [← h.1]; exact hw
            · split at h
              · simp only [ExecRes.reply.injEq] at h; rw [← h.1]; exact hw
              · simp only [ExecRes.reply.injEq] at h; rw [← h.1]; exact WF_identify r p _ now hw
    · simp only [ExecRes.reply.injEq] at h; rw [← h.1]; exact hw

theorem WF_exec (v : Variant) (decode : List UInt8 → Option Info) (r r' : Registry) (p : Nat) (now : Int)
    (params : List Name) (rest rest' : List UInt8) (out : TcpOut)
    (h : exec v decode r p now params rest = .reply r' out rest') (hw : WF r) : WF r' := by
  unfold exec at h
  cases params with
  | nil => simp at h
  | cons cmd args =>
    simp only at h
    split at h
    · simp only [ExecRes.reply.injEq] at h; rw [← h.1]; exact WF_ping r p now hw
    · split at h
      · exact WF_execIdentify v decode r r' p now rest rest' out h hw
      · split at h
        · simp only [ExecRes.reply.injEq] at h; rw [← h.1]; exact WF_register r p args hw
        · split at h
          · simp only [ExecRes.reply.injEq] at h; rw [← h.1]; exact WF_unregister r p args hw
          · simp only [ExecRes.reply.injEq] at h; rw [← h.1]; exact WF_disconnect r p hw

/-- whatever ends the loop (except the death of the process): the peer is gone and the state is
well-formed -/
theorem ioLoop_exit_gone (v : Variant) (decode : List UInt8 → Option Info) (wf : Nat → Bool) (p : Nat) (now : Int)
    (fuel : Nat) (r : Registry) (inp : List UInt8) (acc : List (List UInt8)) (hw : WF r)
    (hnp : (ioLoop v decode wf p now fuel r inp acc).fin ≠ .panic) :
    Gone p (ioLoop v decode wf p now fuel r inp acc).reg ∧ WF (ioLoop v decode wf p now fuel r inp acc).reg := by
  induction fuel generalizing r inp acc with
  | zero => simp only [ioLoop]; exact ⟨disconnect_gone r p hw, WF_disconnect r p hw⟩
  | succ fuel ih =>
    unfold ioLoop at hnp ⊢
    split
    · exact ⟨disconnect_gone r p hw, WF_disconnect r p hw⟩
    · rename_i lr hrl
      simp only [hrl] at hnp
      split
      · rename_i w hx; simp [hx] at hnp
      · rename_i r' out rest hx
        have hw' := WF_exec v decode r r' p now _ lr.2 rest out hx hw
        simp only [hx] at hnp
        split
        · exact ⟨disconnect_gone r' p hw', WF_disconnect r' p hw'⟩
        · rename_i hne
          simp only [hne, if_false] at hnp
          split
          · exact ⟨disconnect_gone r' p hw', WF_disconnect r' p hw'⟩
          · rename_i hwf
            simp only [hwf, if_false] at hnp
            exact ih r' rest _ hw' hnp

theorem handleW_exit_gone (v : Variant) (decode : List UInt8 → Option Info) (wf : Nat → Bool) (r : Registry)
    (p : Nat) (now : Int) (inp : List UInt8) (hw : WF r)
    (hfin : (handleW v decode wf r p now inp).fin = .eof ∨ (handleW v decode wf r p now inp).fin = .fatal ∨
            (handleW v decode wf r p now inp).fin = .writeFail) :
    Gone p (handleW v decode wf r p now inp).reg ∧ WF (handleW v decode wf r p now inp).reg := by
  unfold handleW at hfin ⊢
  split at hfin
  · rename_i a b c d body
    by_cases hm : [a, b, c, d] = magicV1
    · simp only [hm, if_true] at hfin ⊢
      apply ioLoop_exit_gone v decode wf p now _ r body [] hw
      intro hp
      rcases hfin with hf | hf | hf <;> rw [hp] at hf <;> simp at hf
    · simp [hm] at hfin
  · simp at hfin

/-! ### Errors -/

def documentedCode (c : Code) : Prop := c = .invalid ∨ c = .badTopic ∨ c = .badChannel ∨ c = .badBody

theorem getTopicChan_err_code (cmd : String) (params : List Name) (e : TcpOut)
    (h : getTopicChan cmd params = .error e) : ∃ c m, e = .err c m ∧ documentedCode c := by
  unfold getTopicChan at h
  cases params with
  | nil => simp only [Except.error.injEq] at h; exact ⟨_, _, h.symm, Or.inl rfl⟩
  | cons t rest =>
    simp only at h
    split at h
    · simp only [Except.error.injEq] at h; exact ⟨_, _, h.symm, Or.inr (Or.inl rfl)⟩
    · split at h
      · simp only [Except.error.injEq] at h; exact ⟨_, _, h.symm, Or.inr (Or.inr (Or.inl rfl))⟩
      · simp at h

theorem register_out (r : Registry) (p : Nat) (params : List Name) :
    (register r p params).2 = .ok ∨ ∃ c m, (register r p params).2 = .err c m ∧ documentedCode c := by
  unfold register
  split
  · exact Or.inr ⟨_, _, rfl, Or.inl rfl⟩
  · split
    · rename_i e hg; exact Or.inr (getTopicChan_err_code _ _ e hg)
    · exact Or.inl rfl

theorem unregister_out (r : Registry) (p : Nat) (params : List Name) :
    (unregister r p params).2 = .ok ∨ ∃ c m, (unregister r p params).2 = .err c m ∧ documentedCode c := by
  unfold unregister
  split
  · exact Or.inr ⟨_, _, rfl, Or.inl rfl⟩
  · split
    · rename_i e hg; exact Or.inr (getTopicChan_err_code _ _ e hg)
    · exact Or.inl rfl

theorem identify_out (r : Registry) (p : Nat) (info : Info) (now : Int) :
    (identify r p info now).2 = .identified ∨
      ∃ c m, (identify r p info now).2 = .err c m ∧ documentedCode c := by
  unfold identify
  split
  · exact Or.inr ⟨_, _, rfl, Or.inl rfl⟩
  · split
    · exact Or.inr ⟨_, _, rfl, Or.inr (Or.inr (Or.inr rfl))⟩
    · exact Or.inl rfl

def goodOut (out : TcpOut) : Prop :=
  out = .ok ∨ out = .identified ∨ ∃ c m, out = .err c m ∧ documentedCode c

theorem exec_out (v : Variant) (decode : List UInt8 → Option Info) (r r' : Registry) (p : Nat) (now : Int)
    (params : List Name) (rest rest' : List UInt8) (out : TcpOut)
    (h : exec v decode r p now params rest = .reply r' out rest') : goodOut out := by
  unfold exec at h
  cases params with
  | nil => simp at h
  | cons cmd args =>
    simp only at h
    split at h
    · simp only [ExecRes.reply.injEq] at h; rw [← h.2.1]; exact Or.inl rfl
    · split at h
      · unfold execIdentify at h
        have bb : ∀ m, goodOut (.err .badBody m) := fun m => Or.inr (Or.inr ⟨_, _, rfl, Or.inr (Or.inr (Or.inr rfl))⟩)
        split at h
        · simp only [ExecRes.reply.injEq] at h; rw [← h.2.1]; exact Or.inr (Or.inr ⟨_, _, rfl, Or.inl rfl⟩)
        · split at h
          · split at h
            · simp only [ExecRes.reply.injEq] at h; rw [← h.2.1]; exact bb _
            · split at h
              · simp only [ExecRes.reply.injEq] at h; rw [← h.2.1]; exact bb _
              · split at h
                · simp at h
                · split at h
                  · simp only [ExecRes.reply.injEq] at h; rw [← h.2.1]; exact bb _
                  · split at h
                    · simp only [ExecRes.reply.injEq] at h; rw [← h.2.1]; exact bb _
                    · simp only [ExecRes.reply.injEq] at h; rw [← h.2.1]
                      cases identify_out r p _ now with
                      | inl hh => exact Or.inr (Or.inl hh)
                      | inr hh => exact Or.inr (Or.inr hh)
          · simp only [ExecRes.reply.injEq] at h; rw [← h.2.1]; exact bb _
      · split at h
        · simp only [ExecRes.reply.injEq] at h; rw [← h.2.1]
          cases register_out r p args with
          | inl hh => exact Or.inl hh
          | inr hh => exact Or.inr (Or.inr hh)
        · split at h
          · simp only [ExecRes.reply.injEq] at h; rw [← h.2.1]
            cases unregister_out r p args with
            | inl hh => exact Or.inl hh
            | inr hh => exact Or.inr (Or.inr hh)
          · simp only [ExecRes.reply.injEq] at h; rw [← h.2.1]; exact Or.inr (Or.inr ⟨_, _, rfl, Or.inl rfl⟩)

/-- a reply of a successful command -/
def okReply (b : List UInt8) : Prop := b = replyBytes .ok ∨ b = replyBytes .identified
/-- a documented error reply -/
def errReply (b : List UInt8) : Prop := ∃ c m, b = replyBytes (.err c m) ∧ documentedCode c

/-- shape of the replies of one connection: successes, then (iff the connection was closed for
an error) exactly one documented error as the last reply -/
def ReplyShape (res : Res) (acc : List (List UInt8)) : Prop :=
  ∃ oks, (∀ b ∈ oks, okReply b) ∧
    ((res.fin = .eof ∧ res.replies = acc ++ oks) ∨
     (res.fin = .fatal ∧ ∃ e, errReply e ∧ (res.replies = acc ++ oks ++ [e] ∨ res.replies = acc ++ oks)) ∨
     (res.fin = .panic) ∨
     (res.fin = .writeFail ∧ res.replies = acc ++ oks))

theorem ioLoop_shape (v : Variant) (decode : List UInt8 → Option Info) (wf : Nat → Bool) (p : Nat) (now : Int)
    (fuel : Nat) (r : Registry) (inp : List UInt8) (acc : List (List UInt8)) :
    ReplyShape (ioLoop v decode wf p now fuel r inp acc) acc := by
  induction fuel generalizing r inp acc with
  | zero => exact ⟨[], by simp, Or.inl ⟨rfl, by simp [ioLoop]⟩⟩
  | succ fuel ih =>
    unfold ioLoop
    split
    · exact ⟨[], by simp, Or.inl ⟨rfl, by simp⟩⟩
    · rename_i lr _
      split
      · exact ⟨[], by simp, Or.inr (Or.inr (Or.inl rfl))⟩
      · rename_i r' out rest hx
        have hgood := exec_out v decode r r' p now _ lr.2 rest out hx
        split
        · rename_i herr
          refine ⟨[], by simp, Or.inr (Or.inl ⟨rfl, replyBytes out, ?_, by split <;> simp⟩)⟩
          cases hgood with
          | inl h => rw [h] at herr; simp [TcpOut.isErr] at herr
          | inr h =>
            cases h with
            | inl h => rw [h] at herr; simp [TcpOut.isErr] at herr
            | inr h => obtain ⟨c, m, ho, hc⟩ := h; exact ⟨c, m, by rw [ho], hc⟩
        · rename_i hnerr
          split
          · exact ⟨[], by simp, Or.inr (Or.inr (Or.inr ⟨rfl, by simp⟩))⟩
          have hok : okReply (replyBytes out) := by
            cases hgood with
            | inl h => rw [h]; exact Or.inl rfl
            | inr h =>
              cases h with
              | inl h => rw [h]; exact Or.inr rfl
              | inr h => obtain ⟨c, m, ho, _⟩ := h; rw [ho] at hnerr; simp [TcpOut.isErr] at hnerr
          obtain ⟨oks, hoks, hcases⟩ := ih r' rest (acc ++ [replyBytes out])
          refine ⟨replyBytes out :: oks, ?_, ?_⟩
          · intro b hb
            cases List.mem_cons.mp hb with
            | inl h => rw [h]; exact hok
            | inr h => exact hoks b h
          · cases hcases with
            | inl h => exact Or.inl ⟨h.1, by rw [h.2]; simp⟩
            | inr h =>
              cases h with
              | inl h =>
                obtain ⟨hf, e, he, hr⟩ := h
                refine Or.inr (Or.inl ⟨hf, e, he, ?_⟩)
                cases hr with
                | inl hr => exact Or.inl (by rw [hr]; simp)
                | inr hr => exact Or.inr (by rw [hr]; simp)
              | inr h =>
                cases h with
                | inl h => exact Or.inr (Or.inr (Or.inl h))
                | inr h => exact Or.inr (Or.inr (Or.inr ⟨h.1, by rw [h.2]; simp⟩))

/-! ### HTTP -/

theorem httpOut_status_ok : HttpOut.ok.status = 200 := rfl

theorem createTopic_noop (r : Registry) (a : HttpArgs) (h : (createTopic r a).2 ≠ .ok) : (createTopic r a).1 = r := by
  unfold createTopic at h ⊢
  split
  · rfl
  · split
    · rfl
    · split
      · rfl
      · exfalso; apply h; simp_all

theorem deleteTopic_noop (r : Registry) (a : HttpArgs) (h : (deleteTopic r a).2 ≠ .ok) : (deleteTopic r a).1 = r := by
  unfold deleteTopic at h ⊢
  split
  · rfl
  · split
    · rfl
    · exfalso; apply h; simp_all

theorem createChannel_noop (r : Registry) (a : HttpArgs) (h : (createChannel r a).2 ≠ .ok) :
    (createChannel r a).1 = r := by
  unfold createChannel at h ⊢
  split
  · rfl
  · split
    · rfl
    · exfalso; apply h; simp_all

theorem deleteChannel_noop (r : Registry) (a : HttpArgs) (h : (deleteChannel r a).2 ≠ .ok) :
    (deleteChannel r a).1 = r := by
  unfold deleteChannel at h ⊢
  split
  · rfl
  · split
    · rfl
    · split
      · rfl
      · exfalso; apply h; simp_all

theorem tombstone_noop (r : Registry) (a : HttpArgs) (now : Int) (h : (tombstone r a now).2 ≠ .ok) :
    (tombstone r a now).1 = r := by
  unfold tombstone at h ⊢
  split
  · rfl
  · split
    · rfl
    · split
      · rfl
      · exfalso; apply h; simp_all

theorem status_ne_200 (o : HttpOut) (h : o.status ≠ 200) : o ≠ .ok := by
  intro hh; rw [hh] at h; exact h rfl

theorem route_redirect_code (method path : String) (code : Nat) (h : route method path = .redirect code) :
    code = 301 ∨ code = 307 := by
  unfold route at h
  split at h
  · simp at h
  · split at h
    · simp only [Route.redirect.injEq] at h
      rw [← h]; split <;> simp
    · split at h
      · split at h <;> simp at h
      · split at h <;> simp at h

/-- the deterministic part of the HTTP model: not 200 ⇒ nothing changed; the status is one of the listed ones -/
theorem httpStep_noop (c : Conf) (r : Registry) (method path : String) (a : HttpArgs) (now : Int) :
    ((httpStep c r method path a now).2 ≠ 200 → (httpStep c r method path a now).1 = r) ∧
    (httpStep c r method path a now).2 ∈ [200, 301, 307, 400, 404, 405] := by
  unfold httpStep
  have st : ∀ o : HttpOut, o.status ≠ 200 → o ≠ .ok := status_ne_200
  have e400 : ∀ m, (HttpOut.err 400 m).status = 400 := fun _ => rfl
  split
  · exact ⟨fun _ => rfl, by simp⟩
  · exact ⟨fun _ => rfl, by simp⟩
  · exact ⟨fun _ => rfl, by simp⟩
  · rename_i code hr
    refine ⟨fun _ => rfl, ?_⟩
    rcases route_redirect_code method path code hr with h | h <;> simp [h]
  · refine ⟨fun h => createTopic_noop r a (st _ h), ?_⟩
    unfold createTopic; split <;> (try split) <;> (try split) <;> simp [HttpOut.status]
  · refine ⟨fun h => deleteTopic_noop r a (st _ h), ?_⟩
    unfold deleteTopic; split <;> (try split) <;> simp [HttpOut.status]
  · refine ⟨fun h => createChannel_noop r a (st _ h), ?_⟩
    unfold createChannel
    split
    · simp [HttpOut.status]
    · split
      · rename_i e hg
        unfold getTopicChannelArgs at hg
        split at hg
        · simp only [Except.error.injEq] at hg; rw [← hg]; simp [HttpOut.status]
        · split at hg
          · simp only [Except.error.injEq] at hg; rw [← hg]; simp [HttpOut.status]
          · split at hg
            · simp only [Except.error.injEq] at hg; rw [← hg]; simp [HttpOut.status]
            · split at hg
              · simp only [Except.error.injEq] at hg; rw [← hg]; simp [HttpOut.status]
              · simp at hg
      · simp [HttpOut.status]
  · refine ⟨fun h => deleteChannel_noop r a (st _ h), ?_⟩
    unfold deleteChannel
    split
    · simp [HttpOut.status]
    · split
      · rename_i e hg
        unfold getTopicChannelArgs at hg
        split at hg
        · simp only [Except.error.injEq] at hg; rw [← hg]; simp [HttpOut.status]
        · split at hg
          · simp only [Except.error.injEq] at hg; rw [← hg]; simp [HttpOut.status]
          · split at hg
            · simp only [Except.error.injEq] at hg; rw [← hg]; simp [HttpOut.status]
            · split at hg
              · simp only [Except.error.injEq] at hg; rw [← hg]; simp [HttpOut.status]
              · simp at hg
      · split <;> simp [HttpOut.status]
  · refine ⟨fun h => tombstone_noop r a now (st _ h), ?_⟩
    unfold tombstone; split <;> (try split) <;> (try split) <;> simp [HttpOut.status]
  · split
    · exact ⟨fun _ => rfl, by simp⟩
    · split
      · exact ⟨fun _ => rfl, by simp⟩
      · split
        · refine ⟨fun _ => rfl, ?_⟩; split <;> simp
        · refine ⟨fun _ => rfl, ?_⟩; split <;> simp
  · split
    · exact ⟨fun _ => rfl, by simp⟩
    · split <;> exact ⟨fun _ => rfl, by simp⟩
  · exact ⟨fun _ => rfl, by simp⟩

/-! ### The documented error table: `Exec` answers exactly the error `expectedErr` names -/

theorem getTopicChan_errCode (cmd : String) (args : List Name) :
    (match getTopicChan cmd args with | .error e => errCodeOf e | .ok _ => none) =
      (match args with
       | [] => some .invalid
       | t :: _ => if !validName t then some .badTopic
                   else if chanParam args ≠ [] && !validName (chanParam args) then some .badChannel else none) := by
  unfold getTopicChan
  cases args with
  | nil => rfl
  | cons t rest =>
    simp only
    by_cases h1 : validName t = true
    · by_cases hc : chanParam (t :: rest) = []
      · simp [h1, hc]
      · by_cases hv : validName (chanParam (t :: rest)) = true
        · simp [h1, hc, hv]
        · simp [h1, hc, hv, errCodeOf]
    · simp [h1, errCodeOf]

theorem register_errCode (r : Registry) (p : Nat) (args : List Name) :
    errCodeOf (register r p args).2 =
      if !identifiedB r p then some .invalid
      else match args with
       | [] => some .invalid
       | t :: _ => if !validName t then some .badTopic
                   else if chanParam args ≠ [] && !validName (chanParam args) then some .badChannel else none := by
  unfold register
  by_cases hi : identifiedB r p = true
  · simp only [hi, Bool.not_true, Bool.false_eq_true, if_false]
    rw [← getTopicChan_errCode "REGISTER" args]
    cases getTopicChan "REGISTER" args <;> rfl
  · simp [hi, errCodeOf]

theorem unregister_errCode (r : Registry) (p : Nat) (args : List Name) :
    errCodeOf (unregister r p args).2 =
      if !identifiedB r p then some .invalid
      else match args with
       | [] => some .invalid
       | t :: _ => if !validName t then some .badTopic
                   else if chanParam args ≠ [] && !validName (chanParam args) then some .badChannel else none := by
  unfold unregister
  by_cases hi : identifiedB r p = true
  · simp only [hi, Bool.not_true, Bool.false_eq_true, if_false]
    rw [← getTopicChan_errCode "UNREGISTER" args]
    cases getTopicChan "UNREGISTER" args <;> rfl
  · simp [hi, errCodeOf]

theorem identify_errCode (r : Registry) (p : Nat) (info : Info) (now : Int) (hi : identifiedB r p = false) :
    errCodeOf (identify r p info now).2 = if missingFields info then some .badBody else none := by
  unfold identify
  by_cases hm : missingFields info = true <;> simp [hi, hm, errCodeOf]

theorem execIdentify_errCode (decode : List UInt8 → Option Info) (r r' : Registry) (p : Nat) (now : Int)
    (rest rest' : List UInt8) (out : TcpOut)
    (h : execIdentify fixedV decode r p now rest = .reply r' out rest') :
    errCodeOf out = expectedErr decode r p [cmdIDENTIFY] rest := by
  have hne : cmdIDENTIFY ≠ cmdPING := by decide
  unfold expectedErr
  simp only [hne, if_false, if_true]
  unfold execIdentify at h
  by_cases hi : identifiedB r p = true
  · simp only [hi, if_true, ExecRes.reply.injEq] at h
    simp [hi, ← h.2.1, errCodeOf]
  · simp only [hi, Bool.false_eq_true, if_false] at h ⊢
    split at h
    · rename_i a b c d body
      simp only [fixedV, Bool.true_and] at h
      by_cases h1 : be32 a b c d > maxIdentifyBody
      · simp only [h1, decide_true, if_true, ExecRes.reply.injEq] at h
        simp [h1, ← h.2.1, errCodeOf]
      · by_cases h2 : be32 a b c d ≤ 0
        · simp only [h1, h2, decide_true, decide_false, Bool.false_eq_true, if_true, if_false, ExecRes.reply.injEq] at h
          simp [h2, ← h.2.1, errCodeOf]
        · have h3 : ¬ be32 a b c d < 0 := by omega
          simp only [h1, h2, h3, decide_false, Bool.false_eq_true, if_false] at h
          simp only [h1, h2, or_self, if_false]
          by_cases h4 : body.length < (be32 a b c d).toNat
          · simp only [h4, if_true, ExecRes.reply.injEq] at h
            simp [h4, ← h.2.1, errCodeOf]
          · simp only [h4, if_false] at h ⊢
            cases hd : decode (body.take (be32 a b c d).toNat) with
            | none =>
              simp only [hd, ExecRes.reply.injEq] at h
              simp [← h.2.1, errCodeOf]
            | some info =>
              simp only [hd, ExecRes.reply.injEq] at h
              rw [← h.2.1]
              have hi' : identifiedB r p = false := by simpa using hi
              exact identify_errCode r p info now hi'
    · simp only [ExecRes.reply.injEq] at h
      rename_i hx
      rw [← h.2.1]
      rfl

/-- `Exec` answers exactly the error the documented table names -/
theorem exec_errCode (decode : List UInt8 → Option Info) (r r' : Registry) (p : Nat) (now : Int)
    (params : List Name) (rest rest' : List UInt8) (out : TcpOut)
    (h : exec fixedV decode r p now params rest = .reply r' out rest') :
    errCodeOf out = expectedErr decode r p params rest := by
  unfold exec at h
  cases params with
  | nil => simp at h
  | cons cmd args =>
    simp only at h
    by_cases c1 : cmd = cmdPING
    · simp only [c1, if_true, ExecRes.reply.injEq] at h
      simp [expectedErr, c1, ← h.2.1, errCodeOf]
    · simp only [c1, if_false] at h
      by_cases c2 : cmd = cmdIDENTIFY
      · simp only [c2, if_true] at h
        have := execIdentify_errCode decode r r' p now rest rest' out h
        rw [this]
        have hne : cmdIDENTIFY ≠ cmdPING := by decide
        simp [expectedErr, c2, hne]
      · simp only [c2, if_false] at h
        by_cases c3 : cmd = cmdREGISTER
        · simp only [c3, if_true, ExecRes.reply.injEq] at h
          have e1 : cmdREGISTER ≠ cmdPING := by decide
          have e2 : cmdREGISTER ≠ cmdIDENTIFY := by decide
          rw [← h.2.1, register_errCode]
          cases args <;> simp [expectedErr, c3, e1, e2]
        · simp only [c3, if_false] at h
          by_cases c4 : cmd = cmdUNREGISTER
          · simp only [c4, if_true, ExecRes.reply.injEq] at h
            have e1 : cmdUNREGISTER ≠ cmdPING := by decide
            have e2 : cmdUNREGISTER ≠ cmdIDENTIFY := by decide
            have e3 : cmdUNREGISTER ≠ cmdREGISTER := by decide
            rw [← h.2.1, unregister_errCode]
            cases args <;> simp [expectedErr, c4, e1, e2, e3]
          · simp only [c4, if_false, ExecRes.reply.injEq] at h
            simp [expectedErr, c1, c2, c3, c4, ← h.2.1, errCodeOf]


/-- one iteration of `IOLoop` on a stream whose next line is `line` -/
theorem ioLoop_line (v : Variant) (decode : List UInt8 → Option Info) (wf : Nat → Bool) (p : Nat) (now : Int)
    (fuel : Nat) (r : Registry) (inp : List UInt8) (acc : List (List UInt8)) (line rest : List UInt8)
    (hl : readLine inp = some (line, rest)) :
    ioLoop v decode wf p now (fuel + 1) r inp acc =
      match exec v decode r p now (splitSp (trimSpace line)) rest with
      | .panic _ => ⟨r, acc, .panic⟩
      | .reply r' out rest' =>
        if out.isErr then
          ⟨disconnect r' p, if wf acc.length then acc ++ [replyBytes out] else acc, .fatal⟩
        else if !wf acc.length then ⟨disconnect r' p, acc, .writeFail⟩
        else ioLoop v decode wf p now fuel r' rest' (acc ++ [replyBytes out]) := by
  rw [ioLoop, hl]
  simp only []
  cases exec v decode r p now (splitSp (trimSpace line)) rest <;> rfl

theorem errCodeOf_some (out : TcpOut) (c : Code) (h : errCodeOf out = some c) : ∃ m, out = .err c m := by
  cases out with
  | ok => simp [errCodeOf] at h
  | identified => simp [errCodeOf] at h
  | err c' m => simp only [errCodeOf, Option.some.injEq] at h; exact ⟨m, by rw [h]⟩

theorem errCodeOf_none (out : TcpOut) (h : errCodeOf out = none) : out.isErr = false := by
  cases out <;> simp_all [errCodeOf, TcpOut.isErr]

end Nsq.Proofs.RegistryProto
