import Nsq.Model.RegistryProto
import Nsq.Proofs.RegistryRefine
/-! Lemmas about the byte-level connection model `Nsq.Model.RegistryProto`. -/
namespace Nsq.Proofs.RegistryProto
open Nsq.Model.Registry Nsq.Model.Registry.AMap Nsq.Model.RegistryProto

theorem splitSp_ne_nil (l : List UInt8) : splitSp l ≠ [] := by
  cases l with
  | nil => simp [splitSp]
  | cons c rest =>
    unfold splitSp
    by_cases h : c = 32
    · simp [h]
    · simp only [h, if_false]
      cases splitSp rest <;> simp

/-- with the size check, IDENTIFY never reaches `make([]byte, n)` with `n < 0` -/
theorem execIdentify_fixed_no_panic (decode : List UInt8 → Option Info) (r : Registry) (p : Nat)
    (now : Int) (rest : List UInt8) (w : String) :
    execIdentify fixedV decode r p now rest ≠ .panic w := by
  unfold execIdentify
  split
  · simp
  · split
    · rename_i a b c d body
      simp only [fixedV, Bool.true_and]
      by_cases h1 : be32 a b c d > maxIdentifyBody
      · simp [h1]
      · by_cases h2 : be32 a b c d ≤ 0
        · simp [h1, h2]
        · have h3 : ¬ be32 a b c d < 0 := by omega
          simp only [h1, h2, h3, decide_false, Bool.false_eq_true, if_false]
          split
          · simp
          · split <;> simp
    · simp

theorem exec_fixed_no_panic (decode : List UInt8 → Option Info) (r : Registry) (p : Nat) (now : Int)
    (params : List Name) (rest : List UInt8) (hp : params ≠ []) (w : String) :
    exec fixedV decode r p now params rest ≠ .panic w := by
  unfold exec
  cases params with
  | nil => exact absurd rfl hp
  | cons cmd args =>
    simp only
    split
    · simp
    · split
      · exact execIdentify_fixed_no_panic decode r p now rest w
      · split
        · simp
        · split <;> simp

theorem ioLoop_fixed_no_panic (decode : List UInt8 → Option Info) (p : Nat) (now : Int) (fuel : Nat)
    (r : Registry) (inp : List UInt8) (acc : List (List UInt8)) :
    (ioLoop fixedV decode p now fuel r inp acc).fin ≠ .panic := by
  induction fuel generalizing r inp acc with
  | zero => simp [ioLoop]
  | succ fuel ih =>
    unfold ioLoop
    split
    · simp
    · rename_i lr _
      split
      · rename_i w hx
        exact absurd hx (exec_fixed_no_panic decode r p now _ lr.2 (splitSp_ne_nil _) w)
      · split
        · simp
        · exact ih _ _ _

theorem handle_fixed_no_panic (decode : List UInt8 → Option Info) (r : Registry) (p : Nat) (now : Int)
    (inp : List UInt8) : (handle fixedV decode r p now inp).fin ≠ .panic := by
  unfold handle
  split
  · split
    · exact ioLoop_fixed_no_panic decode p now _ r _ []
    · simp
  · simp

end Nsq.Proofs.RegistryProto
