import Nsq.Proofs.ToFile
/-!
Second invariant of the `ToFile` router model: nothing that existed before the tool started is
overwritten, truncated, re-pointed or (in the output dir) removed; the revision searches of
`updateFile` and `Close` terminate (helper lemmas for `Nsq.Props.C19`).
-/
namespace Nsq.Proofs.ToFile
open Nsq.Model.ToFile

/-- names whose entry must survive: everything in the output dir (and every name at all when there
is no separate work dir — then nothing is ever unlinked) -/
def Keep (c : Cfg) (p : Path) : Prop := p.out = true ∨ c.workDir = false

def DomOk (fs : FS) : Prop := ∀ p, fs.get p ≠ none → p ∈ fs.dom

structure NoOv (c : Cfg) (fs0 : FS) (st : St) : Prop where
  /-- a pre-existing file keeps its name and its bytes as a prefix (append-only) -/
  keep : ∀ p f0, fs0.get p = some f0 → Keep c p → ∃ f, st.fs.get p = some f ∧ FileLe f0 f
  /-- with `O_EXCL` (gzip or rotate-interval) pre-existing files are never touched at all -/
  excl : c.excl = true → ∀ p f0, fs0.get p = some f0 → st.fs.get p = some f0
  /-- … because the file behind `f.out` is one the tool created itself -/
  own : c.excl = true → st.hasOut = true → fs0.get st.outPath = none
  wd : c.workDir = true → st.hasOut = true → st.outPath.out = false
  dom : DomOk st.fs
  nodiv : st.status ≠ .diverged

theorem NoOv_congr {c : Cfg} {fs0 : FS} {st s' : St} (h : NoOv c fs0 st) (h1 : s'.fs = st.fs)
    (h5 : s'.hasOut = st.hasOut) (h7 : s'.outPath = st.outPath) (h8 : s'.status ≠ .diverged) : NoOv c fs0 s' :=
  ⟨by rw [h1]; exact h.keep, by rw [h1]; exact h.excl, by rw [h5, h7]; exact h.own, by rw [h5, h7]; exact h.wd,
   by rw [h1]; exact h.dom, h8⟩

/-- like `Dead`, but the stop is not the (impossible) `diverged` one -/
def Dead' (st s' : St) : Prop := Dead st s' ∧ (s'.status = .diverged → st.status = .diverged)

theorem NoOv_dead {c : Cfg} {fs0 : FS} {st s' : St} (h : NoOv c fs0 st) (hd : Dead' st s') : NoOv c fs0 s' :=
  NoOv_congr h hd.1.2.1 hd.1.2.2.2.1 hd.1.2.2.2.2 (fun e => h.nodiv (hd.2 e))

theorem guard_elim' (io : Nat → Fault) (st : St) (k : St → St) (P : St → Prop)
    (hdead : ∀ s', Dead' st s' → P s')
    (hlive : st.status = .running → P (k { st with tick := st.tick + 1 })) : P (Nsq.Model.ToFile.guard io st k) := by
  unfold Nsq.Model.ToFile.guard
  by_cases h1 : st.status ≠ .running
  · rw [if_pos h1]; exact hdead st ⟨Dead_self h1, id⟩
  · have hr : st.status = .running := by simpa using h1
    rw [if_neg h1]
    by_cases h2 : io st.tick = .kill
    · rw [if_pos h2]; exact hdead _ ⟨⟨by simp, rfl, rfl, rfl, rfl⟩, by simp⟩
    · rw [if_neg h2]
      by_cases h3 : io st.tick = .err
      · rw [if_pos h3]; exact hdead _ ⟨⟨by simp, rfl, rfl, rfl, rfl⟩, by simp⟩
      · rw [if_neg h3]; exact hlive hr

theorem onOut_elim' (io : Nat → Fault) (st : St) (g : File → File) (P : St → Prop)
    (hdead : ∀ s', Dead' st s' → P s')
    (hlive : ∀ f, st.status = .running → st.hasOut = true → st.outOpen = true → st.fs.get st.outPath = some f →
      P { st with tick := st.tick + 1, fs := st.fs.set st.outPath (g f) }) : P (onOut io st g) := by
  unfold onOut
  apply guard_elim'
  · exact hdead
  · intro hr
    by_cases h1 : st.hasOut = false ∨ st.outOpen = false
    · rw [if_pos h1]; exact hdead _ ⟨⟨by simp [fatal], rfl, rfl, rfl, rfl⟩, by simp [fatal]⟩
    · rw [if_neg h1]
      have h1' : st.hasOut = true ∧ st.outOpen = true := by
        cases hh : st.hasOut <;> cases ho : st.outOpen <;> simp_all
      cases hg : st.fs.get st.outPath with
      | none => simp only []; exact hdead _ ⟨⟨by simp [fatal], rfl, rfl, rfl, rfl⟩, by simp [fatal]⟩
      | some f => simp only []; exact hlive f hr h1'.1 h1'.2 hg

theorem FileLe_refl (f : File) : FileLe f f := ⟨⟨[], by simp⟩, Nat.le_refl _⟩
theorem FileLe_trans {a b d : File} (h1 : FileLe a b) (h2 : FileLe b d) : FileLe a d := by
  obtain ⟨⟨x, hx⟩, l1⟩ := h1
  obtain ⟨⟨y, hy⟩, l2⟩ := h2
  exact ⟨⟨x ++ y, by rw [hy, hx]; simp⟩, Nat.le_trans l1 l2⟩

theorem DomOk_set {fs : FS} (h : DomOk fs) (p : Path) (f : File) : DomOk (fs.set p f) := by
  intro q hq
  by_cases e : q = p
  · subst e; simp [FS.set]
  · rw [get_set_ne _ _ _ _ e] at hq
    simp only [FS.set]; exact List.mem_cons_of_mem _ (h q hq)

theorem DomOk_del {fs : FS} (h : DomOk fs) (p : Path) : DomOk (fs.del p) := by
  intro q hq
  by_cases e : q = p
  · subst e; simp at hq
  · rw [get_del_ne _ _ _ e] at hq; exact h q hq

/-- growing the file behind `f.out` -/
theorem noOv_setOut {c : Cfg} {fs0 : FS} {st : St} (h : NoOv c fs0 st) (hho : st.hasOut = true) {f f' : File}
    (hg : st.fs.get st.outPath = some f) (hle : FileLe f f') (s' : St) (h1 : s'.fs = st.fs.set st.outPath f')
    (h5 : s'.hasOut = st.hasOut) (h7 : s'.outPath = st.outPath) (h8 : s'.status ≠ .diverged) : NoOv c fs0 s' := by
  refine ⟨?_, ?_, by rw [h5, h7]; exact h.own, by rw [h5, h7]; exact h.wd, by rw [h1]; exact DomOk_set h.dom _ _, h8⟩
  · intro p f0 hp hk
    obtain ⟨g, hgp, hl⟩ := h.keep p f0 hp hk
    rw [h1]
    by_cases e : p = st.outPath
    · subst e
      rw [hg] at hgp; cases hgp
      exact ⟨f', by simp, FileLe_trans hl hle⟩
    · exact ⟨g, by rw [get_set_ne _ _ _ _ e]; exact hgp, hl⟩
  · intro hx p f0 hp
    have hne : p ≠ st.outPath := by
      intro e; subst e
      rw [h.own hx hho] at hp; cases hp
    rw [h1, get_set_ne _ _ _ _ hne]; exact h.excl hx p f0 hp

theorem noOv_onOut {c : Cfg} {fs0 : FS} (io : Nat → Fault) (st : St) (g : File → File)
    (hle : ∀ f, FileLe f (g f)) (h : NoOv c fs0 st) : NoOv c fs0 (onOut io st g) := by
  apply onOut_elim'
  · intro s' hd; exact NoOv_dead h hd
  · intro f hr hho _ hg
    exact noOv_setOut h hho hg (hle f) _ rfl rfl rfl (by simp [hr])

theorem noOv_syncOut {c : Cfg} {fs0 : FS} (io : Nat → Fault) (st : St) (h : NoOv c fs0 st) :
    NoOv c fs0 (syncOut c io st) := by
  unfold syncOut
  cases c.gzip
  · exact noOv_onOut io st _ fileFsync_le h
  · exact noOv_onOut io _ _ fileFsync_le (noOv_onOut io st _ fileGzClose_le h)

theorem noOv_finList {c : Cfg} {fs0 : FS} (io : Nat → Fault) (l : List Msg) (st : St) (h : NoOv c fs0 st) :
    NoOv c fs0 (finList io st l) := by
  induction l generalizing st with
  | nil => exact h
  | cons m rest ih =>
    unfold finList
    apply ih
    apply guard_elim' (P := fun s => NoOv c fs0 s)
    · intro s' hd; exact NoOv_dead h hd
    · intro hr; exact NoOv_congr h rfl rfl rfl (by simp [hr])

theorem noOv_syncBlock {c : Cfg} {fs0 : FS} (io : Nat → Fault) (st : St) (h : NoOv c fs0 st) :
    NoOv c fs0 (syncBlock c io st) := by
  unfold syncBlock
  by_cases hp : st.pending = []
  · rw [if_pos hp]; exact h
  · rw [if_neg hp]; exact noOv_finList io _ _ (noOv_syncOut io st h)

theorem noOv_closeFd {c : Cfg} {fs0 : FS} (io : Nat → Fault) (st : St) (h : NoOv c fs0 st) :
    NoOv c fs0 (closeFd io st) := by
  unfold closeFd
  apply guard_elim' (P := fun s => NoOv c fs0 s)
  · intro s' hd; exact NoOv_dead h hd
  · intro hr
    by_cases h1 : st.hasOut = false ∨ st.outOpen = false
    · rw [if_pos h1]; exact NoOv_congr h rfl rfl rfl (by simp [fatal])
    · rw [if_neg h1]; exact NoOv_congr h rfl rfl rfl (by simp [hr])

theorem noOv_clearOut {c : Cfg} {fs0 : FS} (st : St) (h : NoOv c fs0 st) : NoOv c fs0 (clearOut st) := by
  unfold clearOut
  by_cases h1 : st.status ≠ .running
  · rw [if_pos h1]; exact h
  · rw [if_neg h1]
    exact ⟨h.keep, h.excl, fun _ hh => by simp at hh, fun _ hh => by simp at hh, h.dom, h.nodiv⟩

theorem noOv_renameP {c : Cfg} {fs0 : FS} (io : Nat → Fault) (st : St) (dst : Path) (h : NoOv c fs0 st)
    (hho : st.hasOut = true) (hwd : c.workDir = true) (hfree : st.fs.get dst = none) :
    NoOv c fs0 (renameP io st st.outPath dst) := by
  have hsrc : st.outPath.out = false := h.wd hwd hho
  unfold renameP
  apply guard_elim' (st := st)
    (P := fun s => NoOv c fs0 (Nsq.Model.ToFile.guard io s fun s => { s with fs := s.fs.del st.outPath }))
  · intro s' hd
    rw [guard_dead io s' _ hd.1.1]; exact NoOv_dead h hd
  · intro hr
    cases hs : st.fs.get st.outPath with
    | none =>
      simp only []
      rw [guard_dead io _ _ (by simp [fatal])]
      exact NoOv_congr h rfl rfl rfl (by simp [fatal])
    | some f =>
      simp only []
      -- after the link
      have hlink : NoOv c fs0 { st with tick := st.tick + 1, fs := st.fs.set dst f } := by
        refine ⟨?_, ?_, h.own, h.wd, DomOk_set h.dom _ _, by simp [hr]⟩
        · intro p f0 hp hk
          obtain ⟨g, hgp, hl⟩ := h.keep p f0 hp hk
          have hne : p ≠ dst := by intro e; subst e; rw [hfree] at hgp; cases hgp
          exact ⟨g, by simp only []; rw [get_set_ne _ _ _ _ hne]; exact hgp, hl⟩
        · intro hx p f0 hp
          have := h.excl hx p f0 hp
          have hne : p ≠ dst := by intro e; subst e; rw [hfree] at this; cases this
          simp only []; rw [get_set_ne _ _ _ _ hne]; exact this
      apply guard_elim' (P := fun s => NoOv c fs0 s)
      · intro s' hd; exact NoOv_dead hlink hd
      · intro _
        refine ⟨?_, ?_, hlink.own, hlink.wd, DomOk_del hlink.dom _, by simp [hr]⟩
        · intro p f0 hp hk
          obtain ⟨g, hgp, hl⟩ := hlink.keep p f0 hp hk
          have hne : p ≠ st.outPath := by
            intro e; subst e
            cases hk with
            | inl hk => rw [hsrc] at hk; cases hk
            | inr hk => rw [hwd] at hk; cases hk
          exact ⟨g, by simp only []; rw [get_del_ne _ _ _ hne]; exact hgp, hl⟩
        · intro hx p f0 hp
          have hne : p ≠ st.outPath := by
            intro e; subst e
            rw [h.own hx hho] at hp; cases hp
          simp only []; rw [get_del_ne _ _ _ hne]; exact hlink.excl hx p f0 hp

/-! ### the revision searches terminate -/

theorem mem_maxRev {ps : List Path} {p : Path} (h : p ∈ ps) : p.rev ≤ maxRev ps := by
  induction ps with
  | nil => cases h
  | cons q qs ih =>
    unfold maxRev
    cases h with
    | head => exact Nat.le_max_left ..
    | tail _ h => exact Nat.le_trans (ih h) (Nat.le_max_right ..)

theorem search_ne_none (t : Nat → Bool) (n r B : Nat) (hB : t B = false) (hle : r ≤ B) (hn : B - r < n) :
    search t n r ≠ none := by
  induction n generalizing r with
  | zero => omega
  | succ n ih =>
    unfold search
    by_cases ht : t r = true
    · rw [if_pos ht]
      have : r ≠ B := by intro e; subst e; rw [hB] at ht; cases ht
      exact ih (r + 1) (by omega) (by omega)
    · rw [if_neg ht]; simp

/-- a revision above every revision that ever existed is free -/
theorem search_terminates (fs : FS) (hd : DomOk fs) (t : Nat → Bool) (r : Nat)
    (ht : ∀ i, t i = true → ∃ p, fs.get p ≠ none ∧ p.rev = i) : search t (fuel fs) r ≠ none := by
  apply search_ne_none t (fuel fs) r (max r (maxRev fs.dom + 1))
  · cases hb : t (max r (maxRev fs.dom + 1)) with
    | false => rfl
    | true =>
      obtain ⟨p, hp, hrev⟩ := ht _ hb
      have := mem_maxRev (hd p hp)
      omega
  · exact Nat.le_max_left ..
  · unfold fuel; omega

theorem taken_witness (c : Cfg) (hwf : c.WF) (fs : FS) (fn : String) (i : Nat) (h : taken c fs fn i = true) :
    ∃ p, fs.get p ≠ none ∧ p.rev = i := by
  unfold taken at h
  cases hwf with
  | inl hrev =>
    simp only [Bool.or_eq_true, Bool.and_eq_true] at h
    cases h with
    | inl h =>
      refine ⟨mkPath c true fn i, ?_, by simp [mkPath, hrev]⟩
      intro e; rw [e] at h; simp at h
    | inr h =>
      refine ⟨mkPath c (!c.workDir) fn i, ?_, by simp [mkPath, hrev]⟩
      intro e; rw [e] at h; simp at h
  | inr hno =>
    obtain ⟨hgz, hrs, hri, hwd⟩ := hno
    exfalso
    have hex : c.excl = false := by
      unfold Cfg.excl; rw [hgz]; simp; omega
    rw [hwd, hex, hrs] at h
    simp at h
    split at h <;> simp at h

theorem takenDst_witness (c : Cfg) (hrev : c.hasRev = true) (fs : FS) (fn : String) (i : Nat)
    (h : takenDst c fs fn i = true) : ∃ p, fs.get p ≠ none ∧ p.rev = i := by
  unfold takenDst at h
  refine ⟨mkPath c true fn i, ?_, by simp [mkPath, hrev]⟩
  intro e; rw [e] at h; simp at h

theorem noOv_moveOut {c : Cfg} {fs0 : FS} (hwf : c.WF) (io : Nat → Fault) (st : St) (h : NoOv c fs0 st)
    (hho : st.hasOut = true) (hwd : c.workDir = true) : NoOv c fs0 (moveOut c io st) := by
  unfold moveOut
  by_cases hfree : (st.fs.get { st.outPath with out := true }).isNone = true
  · simp only [hfree, if_true]
    have h2 := noOv_renameP io st _ h hho hwd (by simpa using hfree)
    by_cases hcc : c.closeClears = true
    · rw [if_pos hcc]; exact noOv_clearOut _ h2
    · rw [if_neg hcc]; exact h2
  · simp only [hfree]
    have hrev : c.hasRev = true := by
      cases hwf with
      | inl h => exact h
      | inr h => rw [hwd] at h; cases h.2.2.2
    cases hsr : search (takenDst c st.fs st.filename) (fuel st.fs) (st.rev + 1) with
    | none =>
      exact absurd hsr (search_terminates st.fs h.dom _ _ (fun i hi => takenDst_witness c hrev st.fs _ i hi))
    | some i =>
      simp only []
      have hfree2 : st.fs.get (mkPath c true st.filename i) = none := by
        simpa [takenDst] using search_some hsr
      exact noOv_clearOut _ (noOv_renameP io st _ h hho hwd hfree2)

theorem closeFd_hasOut (io : Nat → Fault) (st : St) (hr : (closeFd io st).status = .running) :
    (closeFd io st).hasOut = true := by
  revert hr
  unfold closeFd
  apply guard_elim (P := fun s => s.status = .running → s.hasOut = true)
  · intro s' hd hrun; exact absurd hrun hd.1
  · intro _
    by_cases hc : st.hasOut = false ∨ st.outOpen = false
    · rw [if_pos hc]; intro hrun; simp [fatal] at hrun
    · rw [if_neg hc]; intro _
      cases hh : st.hasOut <;> simp_all

theorem noOv_closeOut {c : Cfg} {fs0 : FS} (hwf : c.WF) (io : Nat → Fault) (st : St) (h : NoOv c fs0 st) :
    NoOv c fs0 (closeOut c io st) := by
  unfold closeOut
  by_cases hho : st.hasOut = false
  · rw [if_pos hho]; exact h
  · rw [if_neg hho]
    have h3 := noOv_closeFd io _ (noOv_syncOut io st h)
    by_cases hr : (closeFd io (syncOut c io st)).status ≠ .running
    · rw [if_pos hr]; exact h3
    · rw [if_neg hr]
      by_cases hwd : c.workDir = false
      · rw [if_pos hwd]; exact noOv_clearOut _ h3
      · rw [if_neg hwd]
        exact noOv_moveOut hwf io _ h3 (closeFd_hasOut io _ (by simpa using hr)) (by simpa using hwd)

theorem noOv_sealTail {c : Cfg} {fs0 : FS} (io : Nat → Fault) (rd : Fault) (s1 : St) (f : File) (h : NoOv c fs0 s1) :
    NoOv c fs0 (sealTail c io rd s1 f) := by
  unfold sealTail
  split
  · split
    · exact h
    · exact NoOv_dead h ⟨⟨by simp [fatal], rfl, rfl, rfl, rfl⟩, fun e => by simp [fatal] at e⟩
  split
  · have h2 := noOv_onOut io s1 _ (fileWrite_le c.gzip [10]) h
    simp only []
    split
    · exact h2
    · exact NoOv_congr h2 rfl rfl rfl h2.nodiv
  · exact h

theorem noOv_openNew {c : Cfg} {fs0 : FS} (hwf : c.WF) (io : Nat → Fault) (st : St) (fn : String)
    (h : NoOv c fs0 st) : NoOv c fs0 (openNew c io st fn) := by
  unfold openNew
  apply guard_elim' (P := fun s => NoOv c fs0 s)
  · intro s' hd; exact NoOv_dead h hd
  · intro hr
    simp only []
    cases hsr : search (taken c st.fs fn) (fuel st.fs) st.rev with
    | none => exact absurd hsr (search_terminates st.fs h.dom _ _ (fun i hi => taken_witness c hwf st.fs fn i hi))
    | some r =>
      simp only []
      have hnt := search_some hsr
      have hwd : c.workDir = true → (mkPath c (!c.workDir) fn r).out = false := by
        intro hw; rw [mkPath_out, hw]; rfl
      cases hg : st.fs.get (mkPath c (!c.workDir) fn r) with
      | none =>
        simp only []
        refine ⟨?_, ?_, ?_, fun hw _ => hwd hw, DomOk_set h.dom _ _, by simp [hr]⟩
        · intro p f0 hp hk
          obtain ⟨g, hgp, hl⟩ := h.keep p f0 hp hk
          have hne : p ≠ mkPath c (!c.workDir) fn r := by intro e; subst e; rw [hg] at hgp; cases hgp
          exact ⟨g, by rw [get_set_ne _ _ _ _ hne]; exact hgp, hl⟩
        · intro hx p f0 hp
          have := h.excl hx p f0 hp
          have hne : p ≠ mkPath c (!c.workDir) fn r := by intro e; subst e; rw [hg] at this; cases this
          rw [get_set_ne _ _ _ _ hne]; exact this
        · intro hx _
          cases h0 : fs0.get (mkPath c (!c.workDir) fn r) with
          | none => rfl
          | some f0 => have := h.excl hx _ f0 h0; rw [hg] at this; cases this
      | some f =>
        simp only []
        apply noOv_sealTail
        refine ⟨h.keep, h.excl, ?_, fun hw _ => hwd hw, h.dom, by simp [hr]⟩
        intro hx _
        exfalso
        unfold taken at hnt
        rw [hg, hx] at hnt
        simp at hnt

theorem noOv_updateFile {c : Cfg} {fs0 : FS} (hwf : c.WF) (io : Nat → Fault) (st : St) (now : Int) (fn : String)
    (h : NoOv c fs0 st) : NoOv c fs0 (updateFile c io st now fn) := by
  unfold updateFile
  have h1 := noOv_closeOut hwf io st h
  exact noOv_openNew hwf io _ fn (NoOv_congr h1 rfl rfl rfl h1.nodiv)

theorem noOv_writeLine {c : Cfg} {fs0 : FS} (io : Nat → Fault) (st : St) (m : Msg) (h : NoOv c fs0 st) :
    NoOv c fs0 (writeLine c io st m) := by
  unfold writeLine
  split
  · exact noOv_onOut io st _ (fileWrite_le c.gzip _) h
  · exact noOv_onOut io _ _ (fileWrite_le c.gzip _) (noOv_onOut io st _ (fileWrite_le c.gzip _) h)

theorem noOv_writeMsg {c : Cfg} {fs0 : FS} (io : Nat → Fault) (st : St) (m : Msg) (h : NoOv c fs0 st) :
    NoOv c fs0 (writeMsg c io st m) := by
  unfold writeMsg
  have h2 := noOv_writeLine io st m h
  by_cases hr : (writeLine c io st m).status ≠ .running
  · rw [if_pos hr]; exact h2
  · rw [if_neg hr]
    by_cases hp : (writeLine c io st m).pending.length ≥ c.maxInFlight
    · rw [if_pos hp]; exact NoOv_congr h2 rfl rfl rfl (by simp)
    · rw [if_neg hp]; exact NoOv_congr h2 rfl rfl rfl h2.nodiv

theorem NoOv_ite {c : Cfg} {fs0 : FS} {p : Prop} [Decidable p] {a b : St} (ha : NoOv c fs0 a) (hb : NoOv c fs0 b) :
    NoOv c fs0 (if p then a else b) := by
  split <;> assumption

theorem noOv_step {c : Cfg} {fs0 : FS} (hwf : c.WF) (io : Nat → Fault) (st : St) (ev : Ev) (starved : Bool)
    (h : NoOv c fs0 st) : NoOv c fs0 (step c io st ev starved) := by
  unfold step
  by_cases hr : st.status ≠ .running
  · rw [if_pos hr]; exact h
  · rw [if_neg hr]
    cases ev with
    | msg m now fn =>
      simp only []
      have h1 : NoOv c fs0 (if needsRotation c st now fn = true then updateFile c io st now fn else st) :=
        NoOv_ite (noOv_updateFile hwf io st now fn h) h
      have h2 := noOv_writeMsg io _ m h1
      exact NoOv_ite (noOv_syncBlock io _ h2) h2
    | tick now fn =>
      simp only []
      have h1 : NoOv c fs0 (if (needsRotation c st now fn && !c.skipEmpty) = true then updateFile c io st now fn else st) :=
        NoOv_ite (noOv_updateFile hwf io st now fn h) h
      have h2 := noOv_syncBlock io _ h1
      exact NoOv_ite (noOv_closeOut hwf io _ h2) h2
    | hup => exact noOv_closeOut hwf io _ (noOv_syncBlock io st h)
    | term => exact noOv_syncBlock io st h
    | stopped =>
      have h2 := noOv_closeOut hwf io _ (noOv_syncBlock io st h)
      unfold finishRun
      exact NoOv_ite h2 (NoOv_congr h2 rfl rfl rfl (by simp))
    | ext p data =>
      simp only []
      by_cases hp : (st.fs.get p).isSome = true
      · rw [if_pos hp]; exact h
      · rw [if_neg hp]
        have hfree : st.fs.get p = none := by simpa using hp
        refine ⟨?_, ?_, h.own, h.wd, DomOk_set h.dom _ _, h.nodiv⟩
        · intro q f0 hq hk
          obtain ⟨g, hgq, hl⟩ := h.keep q f0 hq hk
          have hne : q ≠ p := by intro e; subst e; rw [hfree] at hgq; cases hgq
          exact ⟨g, by rw [get_set_ne _ _ _ _ hne]; exact hgq, hl⟩
        · intro hx q f0 hq
          have := h.excl hx q f0 hq
          have hne : q ≠ p := by intro e; subst e; rw [hfree] at this; cases this
          rw [get_set_ne _ _ _ _ hne]; exact this
    | extAppend p data =>
      simp only []
      cases hg : st.fs.get p with
      | none => exact h
      | some f =>
        simp only []
        by_cases hx : c.excl = true
        · rw [if_pos hx]; exact h
        · rw [if_neg hx]
          refine ⟨?_, fun hx' => absurd hx' hx, h.own, h.wd, DomOk_set h.dom _ _, h.nodiv⟩
          intro q f0 hq hk
          obtain ⟨g, hgq, hl⟩ := h.keep q f0 hq hk
          by_cases e : q = p
          · subst e
            rw [hg] at hgq; cases hgq
            exact ⟨fileWrite false data f, by simp, FileLe_trans hl (fileWrite_le false data f)⟩
          · exact ⟨g, by rw [get_set_ne _ _ _ _ e]; exact hgq, hl⟩

theorem noOv_run {c : Cfg} {fs0 : FS} (hwf : c.WF) (io : Nat → Fault) (evs : List (Ev × Bool)) (st : St)
    (h : NoOv c fs0 st) : NoOv c fs0 (run c io st evs) := by
  induction evs generalizing st with
  | nil => exact h
  | cons e es ih => exact ih _ (noOv_step hwf io st e.1 e.2 h)

theorem noOv_init (c : Cfg) (fs0 : FS) (hd : DomOk fs0) : NoOv c fs0 (init fs0) :=
  ⟨fun p f0 hp _ => ⟨f0, hp, FileLe_refl f0⟩, fun _ p f0 hp => hp, fun _ hh => (by simp [init] at hh),
   fun _ hh => (by simp [init] at hh), hd, by simp [init]⟩

end Nsq.Proofs.ToFile
