/-
E2 — what `filterSnap` (the topic / channel / include_clients selection of `GetStats`) keeps: helper for
`C13.render_agree`.
-/
import Nsq.Model.ChanStats
namespace Nsq.Proofs.ChanStats
open Nsq.Model.ChanStats

theorem mem_filterSnap {ft fc : Option Nat} {incl : Bool} {snap : List TStat} {t' : TStat}
    (h : t' ∈ filterSnap ft fc incl snap) :
    ∃ t ∈ snap, t'.tid = t.tid ∧ t'.nums = t.nums ∧ t'.bytes = t.bytes ∧
      ∀ c' ∈ t'.chans, ∃ c ∈ t.chans, c'.cid = c.cid ∧ c'.nums = c.nums ∧ c'.nclients = c.nclients ∧
        c'.clients = (if incl then c.clients else []) := by
  unfold filterSnap at h
  -- stage 1: topic filter
  have h1 : ∀ x ∈ (match ft with | none => snap | some t => snap.filter (fun x => x.tid == t)), x ∈ snap := by
    intro x hx
    cases ft with
    | none => exact hx
    | some t => exact (List.mem_filter.1 hx).1
  -- stage 2: channel filter
  have h2 : ∀ x ∈ (match fc with
      | none => (match ft with | none => snap | some t => snap.filter (fun x => x.tid == t))
      | some c => (match ft with | none => snap | some t => snap.filter (fun x => x.tid == t)).filterMap (fun (t : TStat) =>
          if t.chans.any (fun x => x.cid == c) then some { t with chans := t.chans.filter (fun x => x.cid == c) } else none)),
      ∃ t ∈ snap, x.tid = t.tid ∧ x.nums = t.nums ∧ x.bytes = t.bytes ∧ ∀ c' ∈ x.chans, c' ∈ t.chans := by
    intro x hx
    cases fc with
    | none => exact ⟨x, h1 x hx, rfl, rfl, rfl, fun _ h => h⟩
    | some c =>
      simp only [List.mem_filterMap] at hx
      obtain ⟨y, hy, hyx⟩ := hx
      split at hyx
      · cases hyx
        exact ⟨y, h1 y hy, rfl, rfl, rfl, fun c' hc' => (List.mem_filter.1 hc').1⟩
      · cases hyx
  cases incl with
  | true =>
    simp only [↓reduceIte] at h
    obtain ⟨t, ht, e1, e2, e3, e4⟩ := h2 t' h
    exact ⟨t, ht, e1, e2, e3, fun c' hc' => ⟨c', e4 c' hc', rfl, rfl, rfl, rfl⟩⟩
  | false =>
    simp only [Bool.false_eq_true, ↓reduceIte, List.mem_map] at h
    obtain ⟨x, hx, rfl⟩ := h
    obtain ⟨t, ht, e1, e2, e3, e4⟩ := h2 x hx
    refine ⟨t, ht, e1, e2, e3, ?_⟩
    intro c' hc'
    simp only [stripClients, List.mem_map] at hc'
    obtain ⟨c, hc, rfl⟩ := hc'
    exact ⟨c, e4 c hc, rfl, rfl, rfl, rfl⟩


end Nsq.Proofs.ChanStats
