/-
E2 — what `filterSnap` (the topic / channel / include_clients selection of `GetStats`) keeps: helper for
`C13.render_agree`.
-/
import Nsq.Model.ChanStats
namespace Nsq.Proofs.ChanStats
open Nsq.Model.ChanStats

theorem mem_filterSnap {ft fc : Option Nat} {incl : Bool} {snap : List TStat} {t' : TStat}
    (h : t' ∈ filterSnap ft fc incl snap) :
    ∃ t ∈ snap, t'.tid = t.tid ∧ t'.nums = t.nums ∧ t'.bytes = t.bytes ∧
      ∀ c' ∈ t'.chans, ∃ c ∈ t.chans, c'.cid = c.cid ∧ c'.nums = c.nums ∧ c'.nclients = c.nclients ∧
        c'.clients = (if incl then c.clients else []) := by
  unfold filterSnap at h
  -- stage 1: topic filter
  have h1 : ∀ x ∈ (match ft with | none => snap | some t => snap.filter (fun x => x.tid == t)), x ∈ snap := by
    intro x hx
    cases ft with
    | none => exact hx
    | some t => exact (List.mem_filter.1 hx).1
  -- stage 2: channel filter
  have h2 : ∀ x ∈ (match fc with
      | none => (match ft with | none => snap | some t => snap.filter (fun x => x.tid == t))
      | some c => (match ft with | none => snap | some t => snap.filter (fun x => x.tid == t)).filterMap (fun (t : TStat) =>
          if t.chans.any (fun x => x.cid == c) then some { t with chans := t.chans.filter (fun x => x.cid == c) } else none)),
      ∃ t ∈ snap, x.tid = t.tid ∧ x.nums = t.nums ∧ x.bytes = t.bytes ∧ ∀ c' ∈ x.chans, c' ∈ t.chans := by
    intro x hx
    cases fc with
    | none => exact ⟨x, h1 x hx, rfl, rfl, rfl, fun _ h => h⟩
    | some c =>
      simp only [List.mem_filterMap] at hx
      obtain ⟨y, hy, hyx⟩ := hx
      split at hyx
      · cases hyx
        exact ⟨y, h1 y hy, rfl, rfl, rfl, fun c' hc' => (List.mem_filter.1 hc').1⟩
      · cases hyx
  cases incl with
  | true =>
    simp only [↓reduceIte] at h
    obtain ⟨t, ht, e1, e2, e3, e4⟩ := h2 t' h
    exact ⟨t, ht, e1, e2, e3, fun c' hc' => ⟨c', e4 c' hc', rfl, rfl, rfl, rfl⟩⟩
  | false =>
    simp only [Bool.false_eq_true, ↓reduceIte, List.mem_map] at h
    obtain ⟨x, hx, rfl⟩ := h
    obtain ⟨t, ht, e1, e2, e3, e4⟩ := h2 x hx
    refine ⟨t, ht, e1, e2, e3, ?_⟩
    intro c' hc'
    simp only [stripClients, List.mem_map] at hc'
    obtain ⟨c, hc, rfl⟩ := hc'
    exact ⟨c, e4 c hc, rfl, rfl, rfl, rfl⟩

/-- the converse (round 9, audit B14): a topic of the snapshot that passes the filters is kept, with every channel
that passes the channel filter -/
theorem filterSnap_keeps {ft fc : Option Nat} {incl : Bool} {snap : List TStat} {t : TStat} (ht : t ∈ snap)
    (hft : ft = none ∨ ft = some t.tid) (hfc : ∀ c, fc = some c → ∃ x ∈ t.chans, x.cid = c) :
    ∃ t' ∈ filterSnap ft fc incl snap, t'.tid = t.tid ∧ t'.nums = t.nums ∧ t'.bytes = t.bytes ∧
      ∀ c ∈ t.chans, (fc = none ∨ fc = some c.cid) →
        ∃ c' ∈ t'.chans, c'.cid = c.cid ∧ c'.nums = c.nums ∧ c'.nclients = c.nclients ∧
          c'.clients = (if incl then c.clients else []) := by
  unfold filterSnap
  have h1 : t ∈ (match ft with | none => snap | some x => snap.filter (fun y => y.tid == x)) := by
    rcases hft with h | h
    · rw [h]; exact ht
    · rw [h]; exact List.mem_filter.2 ⟨ht, by simp⟩
  have h2 : ∃ x ∈ (match fc with
      | none => (match ft with | none => snap | some t => snap.filter (fun x => x.tid == t))
      | some c => (match ft with | none => snap | some t => snap.filter (fun x => x.tid == t)).filterMap (fun (t : TStat) =>
          if t.chans.any (fun x => x.cid == c) then some { t with chans := t.chans.filter (fun x => x.cid == c) } else none)),
      x.tid = t.tid ∧ x.nums = t.nums ∧ x.bytes = t.bytes ∧
        ∀ c ∈ t.chans, (fc = none ∨ fc = some c.cid) → c ∈ x.chans := by
    cases fc with
    | none => exact ⟨t, h1, rfl, rfl, rfl, fun c hc _ => hc⟩
    | some c =>
      obtain ⟨x, hx, hxc⟩ := hfc c rfl
      have hany : t.chans.any (fun x => x.cid == c) = true := List.any_eq_true.2 ⟨x, hx, by simp [hxc]⟩
      refine ⟨{ t with chans := t.chans.filter (fun x => x.cid == c) }, ?_, rfl, rfl, rfl, ?_⟩
      · simp only [List.mem_filterMap]
        exact ⟨t, h1, by simp [hany]⟩
      · intro c0 hc0 hm
        rcases hm with hm | hm
        · cases hm
        · have : c = c0.cid := Option.some.inj hm
          exact List.mem_filter.2 ⟨hc0, by simp [this]⟩
  obtain ⟨x, hx, e1, e2, e3, e4⟩ := h2
  cases incl with
  | true =>
    simp only [↓reduceIte]
    exact ⟨x, hx, e1, e2, e3, fun c hc hm => ⟨c, e4 c hc hm, rfl, rfl, rfl, rfl⟩⟩
  | false =>
    simp only [Bool.false_eq_true, ↓reduceIte]
    refine ⟨stripClients x, List.mem_map.2 ⟨x, hx, rfl⟩, e1, e2, e3, ?_⟩
    intro c hc hm
    exact ⟨{ c with clients := [] }, by simp only [stripClients, List.mem_map]; exact ⟨c, e4 c hc hm, rfl⟩, rfl, rfl, rfl, rfl⟩

end Nsq.Proofs.ChanStats
