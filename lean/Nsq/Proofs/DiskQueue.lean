import Nsq.Proofs.DiskQueueBase
/-!
Engine E9 — the representation invariant `Rep` of go-diskqueue's state (files ↔ a FIFO of records)
and its preservation by every step of the model.
-/
namespace Nsq.Proofs.DiskQueue
open Nsq.Model.Wire Nsq.Model.DiskQueue

structure CfgOk (c : Cfg) : Prop where
  sync : 0 < c.syncEvery
  max : c.maxMsgSize < 2147483648

def ValidRec (c : Cfg) (d : Bytes) : Prop := c.minMsgSize ≤ d.length ∧ d.length ≤ c.maxMsgSize

instance (c : Cfg) (d : Bytes) : Decidable (ValidRec c d) := by unfold ValidRec; infer_instance

/-- the read-ahead: nothing valid is pending (the loop will read again), or `pending` is the first
unconsumed record of the read file and `next*` is the position behind it (rolled to the next file
when that record was the last of a completed file) -/
def Pend (s : St) (recs : Nat → List Bytes) : Prop :=
  (s.nrf = s.rf ∧ s.nrp = s.rp) ∨
  ∃ d rest, recs s.rf = d :: rest ∧ s.pending = d ∧
    ((s.nrf = s.rf ∧ s.nrp = s.rp + (4 + d.length)) ∨
     (s.rf < s.wf ∧ rest = [] ∧ s.nrf = s.rf + 1 ∧ s.nrp = 0 ∧ s.rOpen = false))

/-- `pre` = the consumed bytes of the read file, `recs i` = the records of file `i` still to be
delivered.  The queue represented is `qFrom recs rf (wf - rf + 1)`. -/
structure Rep (s : St) (pre : Bytes) (recs : Nat → List Bytes) : Prop where
  cfg : CfgOk s.cfg
  live : s.exited = false
  le : s.rf ≤ s.wf
  vrec : ∀ i, ∀ d ∈ recs i, ValidRec s.cfg d
  crf : s.fs.content s.rf = pre ++ enc (recs s.rf)
  rp : s.rp = pre.length
  cmid : ∀ i, s.rf < i → i ≤ s.wf → s.fs.content i = enc (recs i)
  ex : ∀ i, s.rf ≤ i → i < s.wf → s.fs.dat i ≠ none
  wex : s.fs.dat s.wf = none ↔ s.wp = 0
  wp : s.wp = (s.fs.content s.wf).length
  out : ∀ i, i < s.rf ∨ s.wf < i → s.fs.dat i = none
  depth : s.depth = ((qFrom recs s.rf (s.wf - s.rf + 1)).length : Int)
  pend : Pend s recs
  coh : s.rOpen = true → s.nrf = s.rf ∧ s.stream = (s.fs.content s.rf).drop s.nrp ∧
    s.rfd ≤ (s.fs.content s.rf).length ∧ s.nrp ≤ (s.fs.content s.rf).length
  mbr : s.rOpen = true → s.rf < s.wf → s.mbr = (s.fs.content s.rf).length

def PendB (s : St) (recs : Nat → List Bytes) : Prop :=
  ∃ d rest, recs s.rf = d :: rest ∧ s.pending = d ∧
    ((s.nrf = s.rf ∧ s.nrp = s.rp + (4 + d.length)) ∨
     (s.rf < s.wf ∧ rest = [] ∧ s.nrf = s.rf + 1 ∧ s.nrp = 0 ∧ s.rOpen = false))

def absQ (s : St) (recs : Nat → List Bytes) : List Bytes := qFrom recs s.rf (s.wf - s.rf + 1)

theorem content_none {fs : FS} {i : Nat} (h : fs.dat i = none) : fs.content i = [] := by
  simp [FS.content, h]

theorem content_some {fs : FS} {i : Nat} {c : Bytes} (h : fs.dat i = some c) : fs.content i = c := by
  simp [FS.content, h]

/-- at the tail (nothing readable) the queue is empty and the positions coincide -/
theorem tail_facts {s : St} {pre : Bytes} {recs : Nat → List Bytes} (h : Rep s pre recs)
    (hc : canRead s = false) : s.rf = s.wf ∧ s.rp = s.wp ∧ recs s.rf = [] ∧ absQ s recs = [] ∧ s.depth = 0 := by
  have hle := h.le
  simp only [canRead, Bool.or_eq_false_iff, decide_eq_false_iff_not] at hc
  have e : s.rf = s.wf := by omega
  have hw := h.wp
  rw [← e, h.crf, List.length_append] at hw
  have hrp := h.rp
  have hn : (enc (recs s.rf)).length = 0 := by omega
  have hr := enc_eq_nil _ hn
  have hq : absQ s recs = [] := by
    unfold absQ
    rw [e, Nat.sub_self]
    simp [qFrom, ← e, hr]
  refine ⟨e, by omega, hr, hq, ?_⟩
  rw [h.depth]
  unfold absQ at hq
  rw [hq]; rfl

theorem checkTail_id {s : St} {pre : Bytes} {recs : Nat → List Bytes} (h : Rep s pre recs) : checkTail s = s := by
  unfold checkTail
  by_cases hc : s.rf < s.wf ∨ s.rp < s.wp
  · rw [if_pos hc]
  · rw [if_neg hc]
    have hc' : canRead s = false := by
      simp only [canRead, Bool.or_eq_false_iff, decide_eq_false_iff_not]; omega
    obtain ⟨e1, e2, _, _, e3⟩ := tail_facts h hc'
    rw [if_neg (by simp [e3]), if_neg (by omega)]

/-- metadata, `needSync` and `count` are not part of the representation -/
theorem rep_md {s : St} {pre : Bytes} {recs : Nat → List Bytes} (h : Rep s pre recs) (x : Option Meta) (y : Bool) (z : Nat) :
    Rep { s with fs := { s.fs with md := x }, needSync := y, count := z } pre recs :=
  ⟨h.cfg, h.live, h.le, h.vrec, h.crf, h.rp, h.cmid, h.ex, h.wex, h.wp, h.out, h.depth, h.pend, h.coh, h.mbr⟩

theorem rep_syncDue {s : St} {pre : Bytes} {recs : Nat → List Bytes} (h : Rep s pre recs) : Rep (syncDue s) pre recs := by
  unfold syncDue
  split
  · exact rep_md h _ _ _
  · exact h

theorem syncDue_frame (s : St) : (syncDue s).rf = s.rf ∧ (syncDue s).wf = s.wf ∧ (syncDue s).rp = s.rp ∧
    (syncDue s).wp = s.wp ∧ (syncDue s).nrp = s.nrp ∧ (syncDue s).fs.dat = s.fs.dat ∧
    (syncDue s).fs.bad = s.fs.bad ∧ (syncDue s).needSync = false := by
  unfold syncDue
  split
  · exact ⟨rfl, rfl, rfl, rfl, rfl, rfl, rfl, rfl⟩
  · rename_i hh
    refine ⟨rfl, rfl, rfl, rfl, rfl, rfl, rfl, ?_⟩
    cases hn : s.needSync with
    | false => rfl
    | true => exact absurd (Or.inr hn) hh

/-- the part of `readOne` after the file is open -/
def readCore (s1 : St) : Bool × St :=
  match dqRead s1.cfg.minMsgSize s1.cfg.maxMsgSize s1.stream with
  | none => (false, { s1 with rOpen := false })
  | some r => (true, afterRead (consumed s1 r.1) r.1)

theorem readOne_eq (s : St) : readOne s =
    match openRead s with
    | none => (false, { s with rOpen := false })
    | some s1 => readCore s1 := by
  unfold readOne readCore
  rfl

theorem consumed_stream (s1 : St) (d : Bytes) (rest : Bytes) (hs : s1.stream = dqRecord d ++ rest)
    (hfd : s1.rfd ≤ (s1.fs.content s1.rf).length) :
    (consumed s1 d).stream = rest ∧ (consumed s1 d).rfd ≤ (s1.fs.content s1.rf).length := by
  have hlen : (s1.rbuf ++ (s1.fs.content s1.rf).drop s1.rfd).length = 4 + d.length + rest.length := by
    have := congrArg List.length hs
    simp only [St.stream, List.length_append, dqRecord_length] at this
    simp only [List.length_append]; omega
  obtain ⟨a1, a2⟩ := consume_stream s1.rbuf s1.rfd (s1.fs.content s1.rf) 4 hfd (by omega)
  have hl1 : ((consume s1.rbuf s1.rfd (s1.fs.content s1.rf) 4).1 ++
      (s1.fs.content s1.rf).drop (consume s1.rbuf s1.rfd (s1.fs.content s1.rf) 4).2).length = d.length + rest.length := by
    rw [a1, List.length_drop, hlen]; omega
  obtain ⟨b1, b2⟩ := consume_stream (consume s1.rbuf s1.rfd (s1.fs.content s1.rf) 4).1
    (consume s1.rbuf s1.rfd (s1.fs.content s1.rf) 4).2 (s1.fs.content s1.rf) d.length a2 (by omega)
  refine ⟨?_, b2⟩
  show (consumed s1 d).rbuf ++ ((consumed s1 d).fs.content (consumed s1 d).rf).drop (consumed s1 d).rfd = rest
  show _ ++ (s1.fs.content s1.rf).drop _ = rest
  unfold consumed
  simp only []
  rw [b1, a1, List.drop_drop]
  have : s1.rbuf ++ (s1.fs.content s1.rf).drop s1.rfd = dqRecord d ++ rest := hs
  rw [this]
  exact Nsq.Proofs.Wire.drop_app _ _ _ (by rw [dqRecord_length])

theorem readCore_cons (s1 : St) (d : Bytes) (rest : Bytes) (hs : s1.stream = dqRecord d ++ rest)
    (hv : ValidRec s1.cfg d) (hc : CfgOk s1.cfg) :
    readCore s1 = (true, afterRead (consumed s1 d) d) := by
  unfold readCore
  rw [hs, Nsq.Proofs.Wire.dq_roundtrip d rest _ _ hv.1 hv.2 (Nat.lt_of_le_of_lt hv.2 hc.max)]

theorem readCore_nil (s1 : St) (hs : s1.stream = []) : readCore s1 = (false, { s1 with rOpen := false }) := by
  unfold readCore
  rw [hs]
  simp [dqRead]

theorem after_rep {s : St} {pre : Bytes} {recs : Nat → List Bytes} {d : Bytes} {rest : List Bytes}
    (h : Rep s pre recs) (hr : recs s.rf = d :: rest) (b : Bytes) (f m : Nat)
    (hs : ({ s with rOpen := true, rbuf := b, rfd := f, mbr := m } : St).stream = dqRecord d ++ enc rest)
    (hfd : f ≤ (s.fs.content s.rf).length) (hm : s.rf < s.wf → m = (s.fs.content s.rf).length) :
    Rep (afterRead (consumed { s with rOpen := true, rbuf := b, rfd := f, mbr := m } d) d) pre recs ∧
      PendB (afterRead (consumed { s with rOpen := true, rbuf := b, rfd := f, mbr := m } d) d) recs := by
  obtain ⟨c1, c2⟩ := consumed_stream { s with rOpen := true, rbuf := b, rfd := f, mbr := m } d (enc rest) hs hfd
  have hcont : s.fs.content s.rf = pre ++ (dqRecord d ++ enc rest) := by rw [h.crf, hr, enc_cons]
  have hclen : (s.fs.content s.rf).length = pre.length + (4 + d.length) + (enc rest).length := by
    rw [hcont]; simp only [List.length_append, dqRecord_length]; omega
  unfold afterRead
  split
  · rename_i hroll
    replace hroll : s.rf < s.wf ∧ m ≤ s.rp + (4 + d.length) := hroll
    have hrest : rest = [] := by
      apply enc_eq_nil
      have := hm hroll.1
      have := h.rp
      omega
    refine ⟨⟨h.cfg, h.live, h.le, h.vrec, h.crf, h.rp, h.cmid, h.ex, h.wex, h.wp, h.out, h.depth, ?_, ?_, ?_⟩, ?_⟩
    · exact Or.inr ⟨d, rest, hr, rfl, Or.inr ⟨hroll.1, hrest, rfl, rfl, rfl⟩⟩
    · intro hf; exact absurd hf (by simp)
    · intro hf; exact absurd hf (by simp)
    · exact ⟨d, rest, hr, rfl, Or.inr ⟨hroll.1, hrest, rfl, rfl, rfl⟩⟩
  · rename_i hroll
    replace hroll : ¬ (s.rf < s.wf ∧ m ≤ s.rp + (4 + d.length)) := hroll
    refine ⟨⟨h.cfg, h.live, h.le, h.vrec, h.crf, h.rp, h.cmid, h.ex, h.wex, h.wp, h.out, h.depth, ?_, ?_, ?_⟩, ?_⟩
    · exact Or.inr ⟨d, rest, hr, rfl, Or.inl ⟨rfl, rfl⟩⟩
    · intro _
      refine ⟨rfl, ?_, c2, ?_⟩
      · show (consumed { s with rOpen := true, rbuf := b, rfd := f, mbr := m } d).stream = (s.fs.content s.rf).drop (s.rp + (4 + d.length))
        rw [c1, hcont, h.rp, ← List.append_assoc]
        exact (Nsq.Proofs.Wire.drop_app _ _ _ (by simp only [List.length_append, dqRecord_length])).symm
      · show s.rp + (4 + d.length) ≤ (s.fs.content s.rf).length
        have := h.rp
        omega
    · intro _ hlt
      exact hm hlt
    · exact ⟨d, rest, hr, rfl, Or.inl ⟨rfl, rfl⟩⟩

theorem afterRead_frame (s1 : St) (d : Bytes) : (afterRead s1 d).rf = s1.rf ∧ (afterRead s1 d).wf = s1.wf ∧
    (afterRead s1 d).rp = s1.rp ∧ (afterRead s1 d).wp = s1.wp ∧ (afterRead s1 d).needSync = s1.needSync ∧
    (afterRead s1 d).fs = s1.fs := by
  unfold afterRead
  split <;> exact ⟨rfl, rfl, rfl, rfl, rfl, rfl⟩

/-- what `Rep` and the API care about is unchanged by a read -/
def SameQ (a b : St) : Prop :=
  a.rf = b.rf ∧ a.wf = b.wf ∧ a.rp = b.rp ∧ a.wp = b.wp ∧ a.needSync = b.needSync ∧ a.fs = b.fs

theorem content_prefix_len {s : St} {pre : Bytes} {recs : Nat → List Bytes} (h : Rep s pre recs) :
    s.rp ≤ (s.fs.content s.rf).length := by
  rw [h.crf, h.rp, List.length_append]; omega

theorem readOne_cons {s : St} {pre : Bytes} {recs : Nat → List Bytes} {d : Bytes} {rest : List Bytes}
    (h : Rep s pre recs) (hn : s.nrp = s.rp) (hr : recs s.rf = d :: rest) :
    (readOne s).1 = true ∧ Rep (readOne s).2 pre recs ∧ PendB (readOne s).2 recs ∧ SameQ (readOne s).2 s := by
  have hcont : s.fs.content s.rf = pre ++ (dqRecord d ++ enc rest) := by rw [h.crf, hr, enc_cons]
  have hv : ValidRec s.cfg d := h.vrec _ d (by rw [hr]; simp)
  have hdrop : (s.fs.content s.rf).drop s.rp = dqRecord d ++ enc rest := by
    rw [hcont, h.rp]; exact Nsq.Proofs.Wire.drop_app _ _ _ rfl
  rw [readOne_eq]
  unfold openRead
  by_cases ho : s.rOpen = true
  · rw [if_pos ho]
    simp only []
    have e : s = { s with rOpen := true, rbuf := s.rbuf, rfd := s.rfd, mbr := s.mbr } := by
      cases s; simp_all
    obtain ⟨_, c2, c3, _⟩ := h.coh ho
    have hs : s.stream = dqRecord d ++ enc rest := by rw [c2, hn, hdrop]
    rw [readCore_cons s d (enc rest) hs hv h.cfg]
    have := after_rep h hr s.rbuf s.rfd s.mbr (by rw [← e]; exact hs) c3 (h.mbr ho)
    rw [← e] at this
    exact ⟨rfl, this.1, this.2, (afterRead_frame _ d).1, (afterRead_frame _ d).2.1, (afterRead_frame _ d).2.2.1,
      (afterRead_frame _ d).2.2.2.1, (afterRead_frame _ d).2.2.2.2.1, (afterRead_frame _ d).2.2.2.2.2⟩
  · rw [if_neg ho]
    cases hd : s.fs.dat s.rf with
    | none =>
      exfalso
      have := congrArg List.length hcont
      rw [content_none hd] at this
      simp only [List.length_append, dqRecord_length, List.length_nil] at this
      omega
    | some c =>
      simp only []
      have hc : s.fs.content s.rf = c := content_some hd
      have hs : ({ s with rOpen := true, rbuf := [], rfd := s.rp, mbr := if s.rf < s.wf then c.length else s.cfg.maxBytesPerFile } : St).stream = dqRecord d ++ enc rest := by
        show [] ++ (s.fs.content s.rf).drop s.rp = _
        rw [List.nil_append, hdrop]
      rw [readCore_cons _ d (enc rest) hs hv h.cfg]
      have := after_rep h hr [] s.rp (if s.rf < s.wf then c.length else s.cfg.maxBytesPerFile) hs
        (content_prefix_len h) (fun hlt => by rw [if_pos hlt, hc])
      exact ⟨rfl, this.1, this.2, (afterRead_frame _ d).1, (afterRead_frame _ d).2.1, (afterRead_frame _ d).2.2.1,
        (afterRead_frame _ d).2.2.2.1, (afterRead_frame _ d).2.2.2.2.1, (afterRead_frame _ d).2.2.2.2.2⟩

theorem readOne_nil {s : St} {pre : Bytes} {recs : Nat → List Bytes}
    (h : Rep s pre recs) (hn : s.nrp = s.rp) (hr : recs s.rf = []) :
    (readOne s).1 = false ∧ ∃ b f m, (readOne s).2 = { s with rOpen := false, rbuf := b, rfd := f, mbr := m } := by
  have hcont : s.fs.content s.rf = pre := by rw [h.crf, hr, enc_nil, List.append_nil]
  have hdrop : (s.fs.content s.rf).drop s.rp = [] := by
    rw [hcont, h.rp]; exact List.drop_eq_nil_of_le (Nat.le_refl _)
  rw [readOne_eq]
  unfold openRead
  by_cases ho : s.rOpen = true
  · rw [if_pos ho]
    simp only []
    obtain ⟨_, c2, _, _⟩ := h.coh ho
    rw [readCore_nil s (by rw [c2, hn, hdrop])]
    exact ⟨rfl, s.rbuf, s.rfd, s.mbr, rfl⟩
  · rw [if_neg ho]
    cases hd : s.fs.dat s.rf with
    | none => exact ⟨rfl, s.rbuf, s.rfd, s.mbr, rfl⟩
    | some c =>
      simp only []
      rw [readCore_nil _ (by show [] ++ (s.fs.content s.rf).drop s.rp = []; rw [hdrop]; rfl)]
      exact ⟨rfl, [], s.rp, _, rfl⟩

theorem quarantine_dat (fs : FS) (i j : Nat) : (quarantine fs i).dat j = if j = i then none else fs.dat j := by
  unfold quarantine
  cases h : fs.dat i with
  | none =>
    simp only []
    by_cases e : j = i
    · rw [if_pos e, e, h]
    · rw [if_neg e]
  | some c => simp only [setFile]

theorem quarantine_content (fs : FS) (i j : Nat) (hne : j ≠ i) : (quarantine fs i).content j = fs.content j := by
  unfold FS.content
  rw [quarantine_dat, if_neg hne]

/-- the read error at the end of a completely consumed, completed file: skip to the next file -/
theorem handle_rep {s : St} {pre : Bytes} {recs : Nat → List Bytes} (h : Rep s pre recs)
    (hr : recs s.rf = []) (hlt : s.rf < s.wf) (b : Bytes) (f m : Nat) :
    Rep (handleReadError { s with rOpen := false, rbuf := b, rfd := f, mbr := m }) [] recs ∧
    (handleReadError { s with rOpen := false, rbuf := b, rfd := f, mbr := m }).rf = s.rf + 1 ∧
    (handleReadError { s with rOpen := false, rbuf := b, rfd := f, mbr := m }).wf = s.wf := by
  have hq : qFrom recs (s.rf + 1) (s.wf - (s.rf + 1) + 1) = qFrom recs s.rf (s.wf - s.rf + 1) := by
    have e : s.wf - s.rf + 1 = (s.wf - (s.rf + 1) + 1) + 1 := by omega
    rw [e]
    show _ = recs s.rf ++ qFrom recs (s.rf + 1) (s.wf - (s.rf + 1) + 1)
    rw [hr, List.nil_append]
  have hrep : Rep { s with fs := quarantine s.fs s.rf, rf := s.rf + 1, rp := 0, nrf := s.rf + 1, nrp := 0, needSync := true, rOpen := false, rbuf := b, rfd := f, mbr := m } [] recs := by
    refine ⟨h.cfg, h.live, ?_, h.vrec, ?_, rfl, ?_, ?_, ?_, ?_, ?_, ?_, Or.inl ⟨rfl, rfl⟩, ?_, ?_⟩
    · show s.rf + 1 ≤ s.wf; omega
    · show (quarantine s.fs s.rf).content (s.rf + 1) = [] ++ enc (recs (s.rf + 1))
      rw [quarantine_content _ _ _ (by omega), List.nil_append]
      exact h.cmid _ (by omega) (by omega)
    · intro i h1 h2
      show (quarantine s.fs s.rf).content i = _
      replace h1 : s.rf + 1 < i := h1
      rw [quarantine_content _ _ _ (by omega)]
      exact h.cmid _ (by omega) h2
    · intro i h1 h2
      show (quarantine s.fs s.rf).dat i ≠ none
      replace h1 : s.rf + 1 ≤ i := h1
      rw [quarantine_dat, if_neg (by omega)]
      exact h.ex _ (by omega) h2
    · show (quarantine s.fs s.rf).dat s.wf = none ↔ s.wp = 0
      rw [quarantine_dat, if_neg (by omega)]; exact h.wex
    · show s.wp = ((quarantine s.fs s.rf).content s.wf).length
      rw [quarantine_content _ _ _ (by omega)]; exact h.wp
    · intro i hi
      show (quarantine s.fs s.rf).dat i = none
      replace hi : i < s.rf + 1 ∨ s.wf < i := hi
      rw [quarantine_dat]
      by_cases e : i = s.rf
      · rw [if_pos e]
      · rw [if_neg e]; exact h.out _ (by omega)
    · show s.depth = _
      rw [h.depth]
      show ((qFrom recs s.rf (s.wf - s.rf + 1)).length : Int) = ((qFrom recs (s.rf + 1) (s.wf - (s.rf + 1) + 1)).length : Int)
      rw [hq]
    · intro hf; exact absurd hf (by simp)
    · intro hf; exact absurd hf (by simp)
  unfold handleReadError
  rw [if_neg (show ¬ ({ s with rOpen := false, rbuf := b, rfd := f, mbr := m } : St).rf =
      ({ s with rOpen := false, rbuf := b, rfd := f, mbr := m } : St).wf from by show ¬ s.rf = s.wf; omega)]
  rw [checkTail_id hrep]
  exact ⟨hrep, rfl, rfl⟩

/-- after `settle`: the metadata is not waiting to be written and, when the loop offers `ReadChan`,
`pending` is the head of the queue -/
def Ready (s : St) (recs : Nat → List Bytes) : Prop :=
  s.needSync = false ∧ (canRead s = true → PendB s recs)

theorem canRead_nil_lt {s : St} {pre : Bytes} {recs : Nat → List Bytes} (h : Rep s pre recs)
    (hc : canRead s = true) (hr : recs s.rf = []) : s.rf < s.wf := by
  have hcont : s.fs.content s.rf = pre := by rw [h.crf, hr, enc_nil, List.append_nil]
  simp only [canRead, Bool.or_eq_true, decide_eq_true_eq] at hc
  cases hc with
  | inl h1 => exact h1
  | inr h2 =>
    have hle := h.le
    by_cases e : s.rf = s.wf
    · exfalso
      have hw := h.wp
      rw [← e, hcont] at hw
      have := h.rp
      omega
    · omega

theorem settleStep_rep {s : St} {pre : Bytes} {recs : Nat → List Bytes} (h : Rep s pre recs) :
    ((settleStep s).1 = true → Rep (settleStep s).2 [] recs ∧ (settleStep s).2.rf = s.rf + 1 ∧
        (settleStep s).2.wf = s.wf ∧ s.rf < s.wf ∧ recs s.rf = []) ∧
    ((settleStep s).1 = false → Rep (settleStep s).2 pre recs ∧ Ready (settleStep s).2 recs ∧
        (settleStep s).2.rf = s.rf ∧ (settleStep s).2.wf = s.wf) := by
  have ht : Rep (syncDue s) pre recs := rep_syncDue h
  obtain ⟨f1, f2, f3, f4, f5, f6, f7, f8⟩ := syncDue_frame s
  unfold settleStep
  by_cases hc : canRead (syncDue s) = true
  · rw [if_pos hc]
    by_cases hn : (syncDue s).nrp = (syncDue s).rp
    · rw [if_pos hn]
      cases hr : recs (syncDue s).rf with
      | nil =>
        obtain ⟨r1, b, f, m, r2⟩ := readOne_nil ht hn hr
        have hlt := canRead_nil_lt ht hc hr
        rw [r1]
        simp only [Bool.false_eq_true, if_false]
        rw [r2]
        obtain ⟨g1, g2, g3⟩ := handle_rep ht hr hlt b f m
        refine ⟨fun _ => ⟨g1, by rw [g2, f1], by rw [g3, f2], by rw [← f1, ← f2]; exact hlt, by rw [← f1]; exact hr⟩, fun hf => absurd hf (by simp)⟩
      | cons d rest =>
        obtain ⟨r1, r2, r3, q1, q2, q3, q4, q5, q6⟩ := readOne_cons ht hn hr
        rw [r1]
        simp only [if_true]
        refine ⟨fun hf => absurd hf (by simp), fun _ => ⟨r2, ⟨by rw [q5, f8], fun _ => r3⟩, by rw [q1, f1], by rw [q2, f2]⟩⟩
    · rw [if_neg hn]
      refine ⟨fun hf => absurd hf (by simp), fun _ => ⟨ht, ⟨f8, fun _ => ?_⟩, f1, f2⟩⟩
      cases ht.pend with
      | inl a => exact absurd a.2 hn
      | inr b => exact b
  · rw [if_neg hc]
    exact ⟨fun hf => absurd hf (by simp), fun _ => ⟨ht, ⟨f8, fun hh => absurd hh hc⟩, f1, f2⟩⟩

theorem settleN_rep (n : Nat) : ∀ {s : St} {pre : Bytes} {recs : Nat → List Bytes}, Rep s pre recs → s.wf - s.rf < n →
    ∃ pre', Rep (settleN n s) pre' recs ∧ Ready (settleN n s) recs ∧ absQ (settleN n s) recs = absQ s recs ∧
      (settleN n s).wf = s.wf := by
  induction n with
  | zero => intro s pre recs _ hlt; omega
  | succ n ih =>
    intro s pre recs h hlt
    obtain ⟨a, b⟩ := settleStep_rep h
    unfold settleN
    cases hb : (settleStep s).1 with
    | true =>
      obtain ⟨a1, a2, a3, a4, a5⟩ := a hb
      simp only [if_true]
      obtain ⟨pre', i1, i2, i3, i4⟩ := ih a1 (by rw [a2, a3]; omega)
      refine ⟨pre', i1, i2, ?_, by rw [i4, a3]⟩
      rw [i3]
      unfold absQ
      rw [a2, a3]
      have e : s.wf - s.rf + 1 = (s.wf - (s.rf + 1) + 1) + 1 := by omega
      rw [e]
      show _ = recs s.rf ++ qFrom recs (s.rf + 1) (s.wf - (s.rf + 1) + 1)
      rw [a5, List.nil_append]
    | false =>
      obtain ⟨b1, b2, b3, b4⟩ := b hb
      simp only [Bool.false_eq_true, if_false]
      exact ⟨pre, b1, b2, by unfold absQ; rw [b3, b4], b4⟩

theorem settle_rep {s : St} {pre : Bytes} {recs : Nat → List Bytes} (h : Rep s pre recs) :
    ∃ pre', Rep (settle s) pre' recs ∧ Ready (settle s) recs ∧ absQ (settle s) recs = absQ s recs ∧ (settle s).wf = s.wf :=
  settleN_rep _ h (by have := h.le; omega)

/-! ### writing -/

theorem appendRec_content {t : St} {pre : Bytes} {recs : Nat → List Bytes} (h : Rep t pre recs) (d : Bytes) (i : Nat) :
    (appendRec t d).fs.content i = if i = t.wf then t.fs.content t.wf ++ dqRecord d else t.fs.content i := by
  show FS.content { t.fs with dat := setFile t.fs.dat t.wf (some (writeAt (t.fs.content t.wf) t.wp (dqRecord d))) } i = _
  unfold FS.content setFile
  simp only []
  by_cases e : i = t.wf
  · rw [if_pos e, if_pos e, h.wp]
    exact writeAt_append _ _
  · rw [if_neg e, if_neg e]

theorem append_rep {t : St} {pre : Bytes} {recs : Nat → List Bytes} (h : Rep t pre recs) (d : Bytes)
    (hv : ValidRec t.cfg d) :
    Rep (appendRec t d) pre (fun i => if i = t.wf then recs t.wf ++ [d] else recs i) ∧
      absQ (appendRec t d) (fun i => if i = t.wf then recs t.wf ++ [d] else recs i) = absQ t recs ++ [d] := by
  have hq : qFrom (fun i => if i = t.wf then recs t.wf ++ [d] else recs i) t.rf (t.wf - t.rf + 1) =
      qFrom recs t.rf (t.wf - t.rf + 1) ++ [d] := by
    have hle := h.le
    rw [qFrom_snoc, qFrom_snoc, qFrom_congr _ recs t.rf (t.wf - t.rf) (fun j h1 h2 => by show (if j = t.wf then _ else recs j) = recs j; rw [if_neg (by omega)])]
    have e : t.rf + (t.wf - t.rf) = t.wf := by omega
    simp only [e, if_true, List.append_assoc]
  refine ⟨⟨h.cfg, h.live, h.le, ?_, ?_, h.rp, ?_, ?_, ?_, ?_, ?_, ?_, ?_, ?_, ?_⟩, hq⟩
  · intro i x hx
    by_cases e : i = t.wf
    · simp only [e, if_true, List.mem_append, List.mem_singleton] at hx
      cases hx with
      | inl h1 => exact h.vrec _ x h1
      | inr h1 => rw [h1]; exact hv
    · simp only [e, if_false] at hx; exact h.vrec _ x hx
  · show (appendRec t d).fs.content t.rf = pre ++ enc (if t.rf = t.wf then recs t.wf ++ [d] else recs t.rf)
    rw [appendRec_content h]
    by_cases e : t.rf = t.wf
    · rw [if_pos e, if_pos e, ← e, h.crf, enc_append, enc_cons, enc_nil, List.append_nil, List.append_assoc]
    · rw [if_neg e, if_neg e, h.crf]
  · intro i h1 h2
    show (appendRec t d).fs.content i = enc (if i = t.wf then recs t.wf ++ [d] else recs i)
    rw [appendRec_content h]
    by_cases e : i = t.wf
    · rw [if_pos e, if_pos e, h.cmid t.wf (by rw [← e]; exact h1) (Nat.le_refl _), enc_append, enc_cons, enc_nil, List.append_nil]
    · rw [if_neg e, if_neg e]; exact h.cmid i h1 h2
  · intro i h1 h2
    show setFile t.fs.dat t.wf _ i ≠ none
    replace h2 : i < t.wf := h2
    unfold setFile
    rw [if_neg (by omega)]
    exact h.ex i h1 h2
  · show setFile t.fs.dat t.wf _ t.wf = none ↔ t.wp + (4 + d.length) = 0
    unfold setFile
    rw [if_pos rfl]
    constructor
    · intro hh; exact absurd hh (by simp)
    · intro hh; omega
  · show t.wp + (4 + d.length) = ((appendRec t d).fs.content t.wf).length
    rw [appendRec_content h, if_pos rfl, List.length_append, dqRecord_length, ← h.wp]
  · intro i hi
    show setFile t.fs.dat t.wf _ i = none
    replace hi : i < t.rf ∨ t.wf < i := hi
    unfold setFile
    have hle := h.le
    rw [if_neg (by omega)]
    exact h.out i hi
  · show t.depth + 1 = _
    rw [h.depth]
    show _ = ((qFrom (fun i => if i = t.wf then recs t.wf ++ [d] else recs i) t.rf (t.wf - t.rf + 1)).length : Int)
    rw [hq, List.length_append]
    simp
  · cases h.pend with
    | inl a => exact Or.inl a
    | inr b =>
      obtain ⟨d0, rest, b1, b2, b3⟩ := b
      refine Or.inr ?_
      by_cases e : t.rf = t.wf
      · refine ⟨d0, rest ++ [d], ?_, b2, ?_⟩
        · show (if t.rf = t.wf then recs t.wf ++ [d] else recs t.rf) = _
          rw [if_pos e, ← e, b1]; rfl
        · cases b3 with
          | inl c => exact Or.inl c
          | inr c => exact absurd c.1 (by show ¬ t.rf < t.wf; omega)
      · refine ⟨d0, rest, ?_, b2, b3⟩
        show (if t.rf = t.wf then recs t.wf ++ [d] else recs t.rf) = _
        rw [if_neg e, b1]
  · intro ho
    obtain ⟨c1, c2, c3, c4⟩ := h.coh ho
    have hcl : (appendRec t d).fs.content t.rf = if t.rf = t.wf then t.fs.content t.wf ++ dqRecord d else t.fs.content t.rf :=
      appendRec_content h d t.rf
    refine ⟨c1, ?_, ?_, ?_⟩
    · show t.rbuf ++ ((appendRec t d).fs.content t.rf).drop t.rfd = ((appendRec t d).fs.content t.rf).drop t.nrp
      rw [hcl]
      by_cases e : t.rf = t.wf
      · rw [if_pos e, ← e, List.drop_append_of_le_length c3, List.drop_append_of_le_length c4, ← List.append_assoc]
        congr 1
      · rw [if_neg e]; exact c2
    · show t.rfd ≤ ((appendRec t d).fs.content t.rf).length
      rw [hcl]
      by_cases e : t.rf = t.wf
      · rw [if_pos e, ← e, List.length_append]; omega
      · rw [if_neg e]; exact c3
    · show t.nrp ≤ ((appendRec t d).fs.content t.rf).length
      rw [hcl]
      by_cases e : t.rf = t.wf
      · rw [if_pos e, ← e, List.length_append]; omega
      · rw [if_neg e]; exact c4
  · intro ho hlt
    replace hlt : t.rf < t.wf := hlt
    show t.mbr = ((appendRec t d).fs.content t.rf).length
    rw [appendRec_content h, if_neg (by omega)]
    exact h.mbr ho hlt

theorem roll_rep {s : St} {pre : Bytes} {recs : Nat → List Bytes} (h : Rep s pre recs) (hw : 0 < s.wp) :
    Rep (rollWrite s) pre (fun i => if i = s.wf + 1 then [] else recs i) ∧
      absQ (rollWrite s) (fun i => if i = s.wf + 1 then [] else recs i) = absQ s recs := by
  have hle := h.le
  have hq : qFrom (fun i => if i = s.wf + 1 then [] else recs i) s.rf (s.wf + 1 - s.rf + 1) =
      qFrom recs s.rf (s.wf - s.rf + 1) := by
    have e : s.wf + 1 - s.rf + 1 = (s.wf - s.rf + 1) + 1 := by omega
    rw [e, qFrom_snoc, qFrom_congr _ recs s.rf (s.wf - s.rf + 1) (fun j h1 h2 => by show (if j = s.wf + 1 then _ else recs j) = recs j; rw [if_neg (by omega)])]
    have e2 : s.rf + (s.wf - s.rf + 1) = s.wf + 1 := by omega
    simp only [e2, if_true, List.append_nil]
  have hnone : s.fs.dat (s.wf + 1) = none := h.out _ (Or.inr (by omega))
  refine ⟨⟨h.cfg, h.live, ?_, ?_, ?_, h.rp, ?_, ?_, ?_, ?_, ?_, ?_, ?_, ?_, ?_⟩, hq⟩
  · show s.rf ≤ s.wf + 1; omega
  · intro i x hx
    by_cases e : i = s.wf + 1
    · simp only [e, if_true] at hx; exact absurd hx (by simp)
    · simp only [e, if_false] at hx; exact h.vrec _ x hx
  · show s.fs.content s.rf = pre ++ enc (if s.rf = s.wf + 1 then [] else recs s.rf)
    rw [if_neg (by omega)]; exact h.crf
  · intro i h1 h2
    show s.fs.content i = enc (if i = s.wf + 1 then [] else recs i)
    replace h2 : i ≤ s.wf + 1 := h2
    by_cases e : i = s.wf + 1
    · rw [if_pos e, e, content_none hnone]; rfl
    · rw [if_neg e]; exact h.cmid i h1 (by omega)
  · intro i h1 h2
    show s.fs.dat i ≠ none
    replace h2 : i < s.wf + 1 := h2
    by_cases e : i = s.wf
    · rw [e]; intro hh; have := h.wex.mp hh; omega
    · exact h.ex i h1 (by omega)
  · show s.fs.dat (s.wf + 1) = none ↔ (0 : Nat) = 0
    exact ⟨fun _ => rfl, fun _ => hnone⟩
  · show (0 : Nat) = (s.fs.content (s.wf + 1)).length
    rw [content_none hnone]; rfl
  · intro i hi
    show s.fs.dat i = none
    replace hi : i < s.rf ∨ s.wf + 1 < i := hi
    exact h.out i (by omega)
  · show s.depth = _
    rw [h.depth]
    show _ = ((qFrom (fun i => if i = s.wf + 1 then [] else recs i) s.rf (s.wf + 1 - s.rf + 1)).length : Int)
    rw [hq]
  · cases h.pend with
    | inl a => exact Or.inl a
    | inr b =>
      obtain ⟨d0, rest, b1, b2, b3⟩ := b
      refine Or.inr ⟨d0, rest, ?_, b2, ?_⟩
      · show (if s.rf = s.wf + 1 then [] else recs s.rf) = _
        rw [if_neg (by omega)]; exact b1
      · cases b3 with
        | inl c => exact Or.inl c
        | inr c => exact Or.inr ⟨by show s.rf < s.wf + 1; omega, c.2.1, c.2.2.1, c.2.2.2.1, c.2.2.2.2⟩
  · exact h.coh
  · intro ho _
    show (if s.rf = s.wf then s.wp else s.mbr) = (s.fs.content s.rf).length
    by_cases e : s.rf = s.wf
    · rw [if_pos e, e]; exact h.wp
    · rw [if_neg e]; exact h.mbr ho (by omega)

theorem writeOne_rep {s : St} {pre : Bytes} {recs : Nat → List Bytes} (h : Rep s pre recs) (d : Bytes)
    (hv : ValidRec s.cfg d) :
    (writeOne s d).1 = true ∧ ∃ recs', Rep (writeOne s d).2 pre recs' ∧ absQ (writeOne s d).2 recs' = absQ s recs ++ [d] := by
  unfold writeOne
  have hvs : validSize s.cfg d = true := by
    simp only [validSize, Bool.and_eq_true, decide_eq_true_eq]; exact hv
  rw [if_neg (by rw [hvs]; simp)]
  by_cases hr : needRoll s d = true
  · rw [if_pos hr]
    have hw : 0 < s.wp := by
      simp only [needRoll, Bool.and_eq_true, decide_eq_true_eq] at hr; exact hr.1
    obtain ⟨r1, r2⟩ := roll_rep h hw
    obtain ⟨a1, a2⟩ := append_rep r1 d hv
    exact ⟨rfl, _, a1, by rw [a2, r2]⟩
  · rw [if_neg hr]
    obtain ⟨a1, a2⟩ := append_rep h d hv
    exact ⟨rfl, _, a1, a2⟩

theorem writeOne_invalid (s : St) (d : Bytes) (hv : ¬ ValidRec s.cfg d) : writeOne s d = (false, s) := by
  unfold writeOne
  have hvs : validSize s.cfg d = false := by
    cases hh : validSize s.cfg d with
    | false => rfl
    | true =>
      simp only [validSize, Bool.and_eq_true, decide_eq_true_eq] at hh
      exact absurd hh hv
  rw [if_pos hvs]

/-! ### the consumer took the pending record -/

/-- `moveForward_rep` with the frame facts the hard-kill analysis needs: within one file only the read
position and `depth` move (the metadata file is not touched, no sync is requested); a change of file
removes the consumed file and requests a sync -/
theorem moveForward_rep_frame {s : St} {pre : Bytes} {recs : Nat → List Bytes} (h : Rep s pre recs) (hb : PendB s recs) :
    ∃ pre' recs', Rep (moveForward s) pre' recs' ∧ absQ s recs = s.pending :: absQ (moveForward s) recs' ∧
      (s.nrf = s.rf → moveForward s = { s with rf := s.nrf, rp := s.nrp, depth := s.depth - 1 } ∧
        pre' = pre ++ dqRecord s.pending ∧ s.nrp = s.rp + (4 + s.pending.length) ∧ ValidRec s.cfg s.pending) ∧
      (s.nrf ≠ s.rf → (moveForward s).needSync = true) := by
  obtain ⟨d, rest, b1, b2, b3⟩ := hb
  have hle := h.le
  have hcont : s.fs.content s.rf = pre ++ (dqRecord d ++ enc rest) := by rw [h.crf, b1, enc_cons]
  have hqs : absQ s recs = d :: (rest ++ qFrom recs (s.rf + 1) (s.wf - s.rf)) := by
    unfold absQ
    show recs s.rf ++ qFrom recs (s.rf + 1) (s.wf - s.rf) = _
    rw [b1]; rfl
  cases b3 with
  | inl c =>
    obtain ⟨c1, c2⟩ := c
    have hq : qFrom (fun i => if i = s.rf then rest else recs i) s.rf (s.wf - s.rf + 1) =
        rest ++ qFrom recs (s.rf + 1) (s.wf - s.rf) := by
      show (if s.rf = s.rf then rest else recs s.rf) ++ qFrom _ (s.rf + 1) (s.wf - s.rf) = _
      rw [if_pos rfl, qFrom_congr _ recs (s.rf + 1) (s.wf - s.rf)
        (fun j h1 h2 => by show (if j = s.rf then _ else recs j) = recs j; rw [if_neg (by omega)])]
    have hrep : Rep { s with rf := s.nrf, rp := s.nrp, depth := s.depth - 1 } (pre ++ dqRecord d)
        (fun i => if i = s.rf then rest else recs i) := by
      refine ⟨h.cfg, h.live, ?_, ?_, ?_, ?_, ?_, ?_, h.wex, h.wp, ?_, ?_, Or.inl ⟨rfl, rfl⟩, ?_, ?_⟩
      · show s.nrf ≤ s.wf; rw [c1]; exact hle
      · intro i x hx
        by_cases e : i = s.rf
        · simp only [e, if_true] at hx
          exact h.vrec s.rf x (by rw [b1]; exact List.mem_cons_of_mem _ hx)
        · simp only [e, if_false] at hx; exact h.vrec _ x hx
      · show s.fs.content s.nrf = (pre ++ dqRecord d) ++ enc (if s.nrf = s.rf then rest else recs s.nrf)
        rw [c1, if_pos rfl, hcont, List.append_assoc]
      · show s.nrp = (pre ++ dqRecord d).length
        rw [c2, h.rp, List.length_append, dqRecord_length]
      · intro i h1 h2
        show s.fs.content i = enc (if i = s.rf then rest else recs i)
        replace h1 : s.nrf < i := h1
        rw [c1] at h1
        rw [if_neg (by omega)]; exact h.cmid i h1 h2
      · intro i h1 h2
        replace h1 : s.nrf ≤ i := h1
        rw [c1] at h1
        exact h.ex i h1 h2
      · intro i hi
        replace hi : i < s.nrf ∨ s.wf < i := hi
        rw [c1] at hi
        exact h.out i hi
      · show s.depth - 1 = ((qFrom (fun i => if i = s.rf then rest else recs i) s.nrf (s.wf - s.nrf + 1)).length : Int)
        rw [c1, hq, h.depth]
        have := congrArg List.length hqs
        unfold absQ at this
        rw [this]
        simp only [List.length_cons, List.length_append]
        omega
      · intro ho
        obtain ⟨_, k2, k3, k4⟩ := h.coh ho
        refine ⟨rfl, ?_, ?_, ?_⟩
        · show s.rbuf ++ (s.fs.content s.nrf).drop s.rfd = (s.fs.content s.nrf).drop s.nrp
          rw [c1]; exact k2
        · show s.rfd ≤ (s.fs.content s.nrf).length
          rw [c1]; exact k3
        · show s.nrp ≤ (s.fs.content s.nrf).length
          rw [c1]; exact k4
      · intro ho hlt
        replace hlt : s.nrf < s.wf := hlt
        show s.mbr = (s.fs.content s.nrf).length
        rw [c1] at hlt ⊢
        exact h.mbr ho hlt
    refine ⟨pre ++ dqRecord d, (fun i => if i = s.rf then rest else recs i), ?_, ?_, ?_, ?_⟩
    · unfold moveForward
      rw [if_neg (by rw [c1]; simp), checkTail_id hrep]
      exact hrep
    · unfold moveForward
      rw [if_neg (by rw [c1]; simp), checkTail_id hrep, hqs, b2]
      congr 1
      show _ = qFrom (fun i => if i = s.rf then rest else recs i) s.nrf (s.wf - s.nrf + 1)
      rw [c1, hq]
    · intro _
      refine ⟨?_, by rw [b2], by rw [c2, b2], ?_⟩
      · unfold moveForward
        rw [if_neg (by rw [c1]; simp), checkTail_id hrep]
      · rw [b2]; exact h.vrec s.rf d (by rw [b1]; simp)
    · intro hne; exact absurd c1 hne
  | inr c =>
    obtain ⟨c0, c1, c2, c3, c4⟩ := c
    have hq : qFrom recs (s.rf + 1) (s.wf - (s.rf + 1) + 1) = qFrom recs (s.rf + 1) (s.wf - s.rf) := by
      have e : s.wf - (s.rf + 1) + 1 = s.wf - s.rf := by omega
      rw [e]
    have hrep : Rep { s with fs := { s.fs with dat := setFile s.fs.dat s.rf none }, rf := s.nrf, rp := s.nrp, depth := s.depth - 1, needSync := true } [] recs := by
      refine ⟨h.cfg, h.live, ?_, h.vrec, ?_, ?_, ?_, ?_, ?_, ?_, ?_, ?_, Or.inl ⟨rfl, rfl⟩, ?_, ?_⟩
      · show s.nrf ≤ s.wf; omega
      · show FS.content { s.fs with dat := setFile s.fs.dat s.rf none } s.nrf = [] ++ enc (recs s.nrf)
        rw [c2, List.nil_append]
        unfold FS.content setFile
        simp only []
        rw [if_neg (by omega)]
        exact h.cmid (s.rf + 1) (by omega) (by omega)
      · show s.nrp = 0; exact c3
      · intro i h1 h2
        replace h1 : s.nrf < i := h1
        show FS.content { s.fs with dat := setFile s.fs.dat s.rf none } i = enc (recs i)
        unfold FS.content setFile
        simp only []
        rw [if_neg (by omega)]
        exact h.cmid i (by omega) h2
      · intro i h1 h2
        replace h1 : s.nrf ≤ i := h1
        show setFile s.fs.dat s.rf none i ≠ none
        unfold setFile
        rw [if_neg (by omega)]
        exact h.ex i (by omega) h2
      · show setFile s.fs.dat s.rf none s.wf = none ↔ s.wp = 0
        unfold setFile
        rw [if_neg (by omega)]; exact h.wex
      · show s.wp = (FS.content { s.fs with dat := setFile s.fs.dat s.rf none } s.wf).length
        unfold FS.content setFile
        simp only []
        rw [if_neg (by omega)]; exact h.wp
      · intro i hi
        replace hi : i < s.nrf ∨ s.wf < i := hi
        show setFile s.fs.dat s.rf none i = none
        unfold setFile
        by_cases e : i = s.rf
        · rw [if_pos e]
        · rw [if_neg e]; exact h.out i (by omega)
      · show s.depth - 1 = ((qFrom recs s.nrf (s.wf - s.nrf + 1)).length : Int)
        rw [c2, hq, h.depth]
        have := congrArg List.length hqs
        unfold absQ at this
        rw [this, c1]
        simp only [List.length_cons, List.nil_append]
        omega
      · intro ho; exact absurd ho (by show ¬ s.rOpen = true; rw [c4]; simp)
      · intro ho; exact absurd ho (by show ¬ s.rOpen = true; rw [c4]; simp)
    refine ⟨[], recs, ?_, ?_, ?_, ?_⟩
    · unfold moveForward
      rw [if_pos (by rw [c2]; omega), checkTail_id hrep]
      exact hrep
    · unfold moveForward
      rw [if_pos (by rw [c2]; omega), checkTail_id hrep, hqs, b2, c1]
      congr 1
      unfold absQ
      show _ = qFrom recs s.nrf (s.wf - s.nrf + 1)
      rw [c2, hq, List.nil_append]
    · intro he; rw [c2] at he; omega
    · intro _
      unfold moveForward
      rw [if_pos (by rw [c2]; omega), checkTail_id hrep]

theorem moveForward_rep {s : St} {pre : Bytes} {recs : Nat → List Bytes} (h : Rep s pre recs) (hb : PendB s recs) :
    ∃ pre' recs', Rep (moveForward s) pre' recs' ∧ absQ s recs = s.pending :: absQ (moveForward s) recs' := by
  obtain ⟨pre', recs', a, b, _⟩ := moveForward_rep_frame h hb
  exact ⟨pre', recs', a, b⟩

/-! ### Empty, Close + New -/

theorem empty_rep {s : St} {pre : Bytes} {recs : Nat → List Bytes} (h : Rep s pre recs) :
    Rep { deleteAllFiles s with count := 0 } [] (fun _ => []) ∧
      (∀ i, ({ deleteAllFiles s with count := 0 } : St).fs.dat i = none) := by
  have hle := h.le
  have hall : ∀ i, rmRange s.fs.dat s.rf s.wf i = none := by
    intro i
    unfold rmRange
    by_cases e : s.rf ≤ i ∧ i ≤ s.wf
    · rw [if_pos e]
    · rw [if_neg e]; exact h.out i (by omega)
  have hc : ∀ i, FS.content { s.fs with dat := rmRange s.fs.dat s.rf s.wf, md := none } i = [] := by
    intro i; unfold FS.content; simp only []; rw [hall i]
  have hq : ∀ a n, qFrom (fun _ => ([] : List Bytes)) a n = [] := by
    intro a n
    induction n generalizing a with
    | zero => rfl
    | succ n ih => simp [qFrom, ih]
  refine ⟨⟨h.cfg, h.live, Nat.le_refl _, ?_, ?_, rfl, ?_, ?_, ?_, ?_, ?_, ?_, Or.inl ⟨rfl, rfl⟩, ?_, ?_⟩, hall⟩
  · intro i x hx; exact absurd hx (by simp)
  · exact hc _
  · intro i _ _; exact hc i
  · intro i h1 h2
    replace h1 : s.wf + 1 ≤ i := h1
    replace h2 : i < s.wf + 1 := h2
    omega
  · exact ⟨fun _ => rfl, fun _ => hall _⟩
  · exact (congrArg List.length (hc (s.wf + 1))).symm
  · intro i _; exact hall i
  · show (0 : Int) = _
    rw [hq]; rfl
  · intro ho; exact absurd ho (by show ¬ (false = true); simp)
  · intro ho; exact absurd ho (by show ¬ (false = true); simp)

theorem settle_at_tail {t : St} {pre : Bytes} {recs : Nat → List Bytes} (h : Rep t pre recs) (hc : canRead t = false)
    (hn : t.needSync = false) (hcnt : t.count ≠ t.cfg.syncEvery) : settle t = t := by
  have hs : syncDue t = t := by
    unfold syncDue
    rw [if_neg (by rw [hn]; simp; exact hcnt)]
  have hstep : settleStep t = (false, t) := by
    unfold settleStep
    rw [hs, if_neg (by rw [hc]; simp)]
  unfold settle
  have : t.wf + 3 - t.rf = (t.wf + 2 - t.rf) + 1 := by have := h.le; omega
  rw [this]
  unfold settleN
  rw [hstep]
  simp

theorem reopen_rep {s : St} {pre : Bytes} {recs : Nat → List Bytes} (h : Rep s pre recs) (cfg' : Cfg)
    (hok : CfgOk cfg') (hmin : cfg'.minMsgSize = s.cfg.minMsgSize) (hmax : cfg'.maxMsgSize = s.cfg.maxMsgSize)
    (hmd : s.fs.md = some s.metaNow) :
    Rep (retrieve cfg' s.fs) pre recs ∧ absQ (retrieve cfg' s.fs) recs = absQ s recs := by
  have hX : retrieve cfg' s.fs = { cfg := cfg', fs := s.fs, depth := s.depth, rf := s.rf, rp := s.rp, wf := s.wf, wp := s.wp, nrf := s.rf, nrp := s.rp } := by
    unfold retrieve
    rw [hmd]
    cases hd : s.fs.dat s.wf with
    | none =>
      have e : s.fs.dat s.metaNow.wf = none := hd
      simp only [e]
      rfl
    | some c =>
      have e : s.fs.dat s.metaNow.wf = some c := hd
      have hnlt : ¬ s.metaNow.wp < c.length := by
        show ¬ s.wp < c.length
        rw [h.wp, content_some hd]; omega
      simp only [e]
      rw [if_neg hnlt]
      rfl
  rw [hX]
  refine ⟨⟨hok, rfl, h.le, ?_, h.crf, h.rp, h.cmid, h.ex, h.wex, h.wp, h.out, h.depth, Or.inl ⟨rfl, rfl⟩, ?_, ?_⟩, rfl⟩
  · intro i x hx
    have := h.vrec i x hx
    unfold ValidRec at this ⊢
    rw [hmin, hmax]; exact this
  · intro ho; exact absurd ho (by simp)
  · intro ho; exact absurd ho (by simp)

end Nsq.Proofs.DiskQueue
