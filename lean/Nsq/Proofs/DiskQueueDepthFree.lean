import Nsq.Proofs.DiskQueueApi
/-!
Engine E9 — the depth-free view of go-diskqueue.

`depth`, `needSync`, `count` and the metadata file never influence WHAT is written to or read from the
data files: they only decide when the metadata file is rewritten and whether `checkTailCorruption`
resets `depth` at the tail.  `E s s'` = "`s'` differs from `s` at most in these four"; every function of
the model maps `E`-related states to `E`-related states with the same answer (a bisimulation).  So a
state whose `depth` is stale (after a process kill between two syncs) behaves, for every future
operation, exactly like the healthy state next to it — except for what `Depth()` reports.
-/
namespace Nsq.Proofs.DiskQueue
open Nsq.Model.Wire Nsq.Model.DiskQueue

def upd (s : St) (dp : Int) (ns : Bool) (ct : Nat) (md : Option Meta) : St :=
  { s with depth := dp, needSync := ns, count := ct, fs := { s.fs with md := md } }

/-- `s'` differs from `s` at most in `depth`, `needSync`, `count` and the metadata file -/
def E (s s' : St) : Prop := ∃ dp ns ct md, s' = upd s dp ns ct md

theorem E.refl (s : St) : E s s := ⟨s.depth, s.needSync, s.count, s.fs.md, rfl⟩

theorem E.symm {s s' : St} (h : E s s') : E s' s := by
  obtain ⟨dp, ns, ct, md, rfl⟩ := h
  exact ⟨s.depth, s.needSync, s.count, s.fs.md, rfl⟩

theorem E.trans {a b c : St} (h1 : E a b) (h2 : E b c) : E a c := by
  obtain ⟨dp, ns, ct, md, rfl⟩ := h1
  obtain ⟨dp', ns', ct', md', rfl⟩ := h2
  exact ⟨dp', ns', ct', md', rfl⟩

theorem E_sync {s s' : St} (h : E s s') : E (sync s) (sync s') := by
  obtain ⟨dp, ns, ct, md, rfl⟩ := h
  exact ⟨_, _, _, _, rfl⟩

theorem E_rollWrite {s s' : St} (h : E s s') : E (rollWrite s) (rollWrite s') := by
  obtain ⟨dp, ns, ct, md, rfl⟩ := h
  exact ⟨_, _, _, _, rfl⟩

theorem E_appendRec {s s' : St} (h : E s s') (d : Bytes) : E (appendRec s d) (appendRec s' d) := by
  obtain ⟨dp, ns, ct, md, rfl⟩ := h
  exact ⟨_, _, _, _, rfl⟩

theorem E_writeOne {s s' : St} (h : E s s') (d : Bytes) :
    (writeOne s' d).1 = (writeOne s d).1 ∧ E (writeOne s d).2 (writeOne s' d).2 := by
  unfold writeOne
  have hc : s'.cfg = s.cfg := by obtain ⟨dp, ns, ct, md, rfl⟩ := h; rfl
  have hr : needRoll s' d = needRoll s d := by obtain ⟨dp, ns, ct, md, rfl⟩ := h; rfl
  rw [hc, hr]
  by_cases h1 : validSize s.cfg d = false
  · rw [if_pos h1, if_pos h1]; exact ⟨rfl, h⟩
  · rw [if_neg h1, if_neg h1]
    by_cases h2 : needRoll s d = true
    · rw [if_pos h2, if_pos h2]; exact ⟨rfl, E_appendRec (E_rollWrite h) d⟩
    · rw [if_neg h2, if_neg h2]; exact ⟨rfl, E_appendRec h d⟩

theorem openRead_upd (s : St) (dp : Int) (ns : Bool) (ct : Nat) (md : Option Meta) :
    openRead (upd s dp ns ct md) = (openRead s).map (fun t => upd t dp ns ct md) := by
  unfold openRead
  by_cases ho : s.rOpen = true
  · have ho' : (upd s dp ns ct md).rOpen = true := ho
    rw [if_pos ho', if_pos ho]; rfl
  · have ho' : ¬ (upd s dp ns ct md).rOpen = true := ho
    rw [if_neg ho', if_neg ho]
    cases hd : s.fs.dat s.rf with
    | none =>
      have hd' : (upd s dp ns ct md).fs.dat (upd s dp ns ct md).rf = none := hd
      simp only [hd']; rfl
    | some c =>
      have hd' : (upd s dp ns ct md).fs.dat (upd s dp ns ct md).rf = some c := hd
      simp only [hd']; rfl

theorem afterRead_upd (s : St) (d : Bytes) (dp : Int) (ns : Bool) (ct : Nat) (md : Option Meta) :
    afterRead (upd s dp ns ct md) d = upd (afterRead s d) dp ns ct md := by
  unfold afterRead
  split <;> rename_i h1 <;> split <;> rename_i h2
  · rfl
  · exact absurd h1 h2
  · exact absurd h2 h1
  · rfl

theorem readCore_upd (s : St) (dp : Int) (ns : Bool) (ct : Nat) (md : Option Meta) :
    readCore (upd s dp ns ct md) = ((readCore s).1, upd (readCore s).2 dp ns ct md) := by
  unfold readCore
  have hs : (upd s dp ns ct md).stream = s.stream := rfl
  have hc : (upd s dp ns ct md).cfg = s.cfg := rfl
  rw [hs, hc]
  cases hd : dqRead s.cfg.minMsgSize s.cfg.maxMsgSize s.stream with
  | none => rfl
  | some r =>
    simp only []
    have e1 : (consumed (upd s dp ns ct md) r.1) = upd (consumed s r.1) dp ns ct md := rfl
    rw [e1, afterRead_upd]

theorem readOne_upd (s : St) (dp : Int) (ns : Bool) (ct : Nat) (md : Option Meta) :
    readOne (upd s dp ns ct md) = ((readOne s).1, upd (readOne s).2 dp ns ct md) := by
  rw [readOne_eq, readOne_eq, openRead_upd]
  cases ho : openRead s with
  | none => rfl
  | some s1 => exact readCore_upd s1 dp ns ct md

theorem E_readOne {s s' : St} (h : E s s') :
    (readOne s').1 = (readOne s).1 ∧ E (readOne s).2 (readOne s').2 := by
  obtain ⟨dp, ns, ct, md, rfl⟩ := h
  rw [readOne_upd]
  exact ⟨rfl, _, _, _, _, rfl⟩

theorem E_skip {s s' : St} (h : E s s') : E (skipToNextRWFile s) (skipToNextRWFile s') := by
  obtain ⟨dp, ns, ct, md, rfl⟩ := h
  exact ⟨_, _, _, _, rfl⟩

/-- the four positions of two related states agree -/
theorem E_pos {s s' : St} (h : E s s') : s'.rf = s.rf ∧ s'.rp = s.rp ∧ s'.wf = s.wf ∧ s'.wp = s.wp ∧
    s'.nrf = s.nrf ∧ s'.nrp = s.nrp ∧ s'.cfg = s.cfg ∧ s'.exited = s.exited ∧ s'.pending = s.pending ∧
    s'.fs.dat = s.fs.dat ∧ s'.fs.bad = s.fs.bad := by
  obtain ⟨dp, ns, ct, md, rfl⟩ := h
  exact ⟨rfl, rfl, rfl, rfl, rfl, rfl, rfl, rfl, rfl, rfl, rfl⟩

theorem E_set {s s' : St} (h : E s s') (dp : Int) (ns : Bool) (ct : Nat) (md : Option Meta) :
    E s (upd s' dp ns ct md) := by
  obtain ⟨dp0, ns0, ct0, md0, rfl⟩ := h
  exact ⟨dp, ns, ct, md, rfl⟩

theorem E_checkTail {s s' : St} (h : E s s') : E (checkTail s) (checkTail s') := by
  obtain ⟨e1, e2, e3, e4, _⟩ := E_pos h
  unfold checkTail
  rw [e1, e2, e3, e4]
  by_cases h1 : s.rf < s.wf ∨ s.rp < s.wp
  · rw [if_pos h1, if_pos h1]; exact h
  · rw [if_neg h1, if_neg h1]
    by_cases h2 : s.rf ≠ s.wf ∨ s.rp ≠ s.wp
    · -- both sides skip to the next file
      have key : ∀ (x y : St), E s x → E s y →
          E ({ skipToNextRWFile x with needSync := true }) ({ skipToNextRWFile y with needSync := true }) := by
        intro x y hx hy
        obtain ⟨dp, ns, ct, md, rfl⟩ := hx
        obtain ⟨dp', ns', ct', md', rfl⟩ := hy
        exact ⟨_, _, _, _, rfl⟩
      have s0 : E s ({ s with depth := 0 } : St) := ⟨0, s.needSync, s.count, s.fs.md, rfl⟩
      by_cases d1 : s.depth ≠ 0 <;> by_cases d2 : s'.depth ≠ 0
      · rw [if_pos d1, if_pos d2, if_pos h2, if_pos h2]; exact key _ _ s0 (by obtain ⟨dp, ns, ct, md, rfl⟩ := h; exact ⟨0, ns, ct, md, rfl⟩)
      · rw [if_pos d1, if_neg d2, if_pos h2, if_pos h2]; exact key _ _ s0 h
      · rw [if_neg d1, if_pos d2, if_pos h2, if_pos h2]; exact key _ _ (E.refl s) (by obtain ⟨dp, ns, ct, md, rfl⟩ := h; exact ⟨0, ns, ct, md, rfl⟩)
      · rw [if_neg d1, if_neg d2, if_pos h2, if_pos h2]; exact key _ _ (E.refl s) h
    · have t0 : E s ({ s with depth := 0, needSync := true } : St) := ⟨0, true, s.count, s.fs.md, rfl⟩
      by_cases d1 : s.depth ≠ 0 <;> by_cases d2 : s'.depth ≠ 0
      · rw [if_pos d1, if_pos d2, if_neg h2, if_neg h2]; exact E.trans (E.symm t0) (by obtain ⟨dp, ns, ct, md, rfl⟩ := h; exact ⟨0, true, ct, md, rfl⟩)
      · rw [if_pos d1, if_neg d2, if_neg h2, if_neg h2]; exact E.trans (E.symm t0) h
      · rw [if_neg d1, if_pos d2, if_neg h2, if_neg h2]; exact (by obtain ⟨dp, ns, ct, md, rfl⟩ := h; exact ⟨0, true, ct, md, rfl⟩)
      · rw [if_neg d1, if_neg d2, if_neg h2, if_neg h2]; exact h

theorem E_moveForward {s s' : St} (h : E s s') : E (moveForward s) (moveForward s') := by
  obtain ⟨e1, _, _, _, e5, _⟩ := E_pos h
  unfold moveForward
  rw [e1, e5]
  by_cases h1 : s.rf ≠ s.nrf
  · rw [if_pos h1, if_pos h1]
    apply E_checkTail
    obtain ⟨dp, ns, ct, md, rfl⟩ := h
    exact ⟨_, _, _, _, rfl⟩
  · rw [if_neg h1, if_neg h1]
    apply E_checkTail
    obtain ⟨dp, ns, ct, md, rfl⟩ := h
    exact ⟨_, _, _, _, rfl⟩

theorem quarantine_md (fs : FS) (i : Nat) (md : Option Meta) :
    quarantine { fs with md := md } i = { quarantine fs i with md := md } := by
  unfold quarantine
  cases h : fs.dat i <;> rfl

theorem E_handleReadError {s s' : St} (h : E s s') : E (handleReadError s) (handleReadError s') := by
  obtain ⟨e1, _, e3, _⟩ := E_pos h
  unfold handleReadError
  rw [e1, e3]
  by_cases h1 : s.rf = s.wf
  · rw [if_pos h1, if_pos h1]
    apply E_checkTail
    obtain ⟨dp, ns, ct, md, rfl⟩ := h
    refine ⟨dp, true, ct, md, ?_⟩
    show _ = upd _ _ _ _ _
    unfold upd
    simp only [quarantine_md]
  · rw [if_neg h1, if_neg h1]
    apply E_checkTail
    obtain ⟨dp, ns, ct, md, rfl⟩ := h
    refine ⟨dp, true, ct, md, ?_⟩
    unfold upd
    simp only [quarantine_md]

theorem E_canRead {s s' : St} (h : E s s') : canRead s' = canRead s := by
  obtain ⟨dp, ns, ct, md, rfl⟩ := h
  rfl

theorem E_syncDue {s s' : St} (h : E s s') : E (syncDue s) (syncDue s') := by
  unfold syncDue
  have a : E s ({ sync s with count := 0 } : St) := ⟨_, _, _, _, rfl⟩
  have b : E s ({ sync s' with count := 0 } : St) := by
    obtain ⟨dp, ns, ct, md, rfl⟩ := h
    exact ⟨_, _, _, _, rfl⟩
  split <;> split
  · exact E.trans (E.symm a) b
  · exact E.trans (E.symm a) h
  · exact b
  · exact h

theorem E_settleStep {s s' : St} (h : E s s') :
    (settleStep s').1 = (settleStep s).1 ∧ E (settleStep s).2 (settleStep s').2 := by
  have hd := E_syncDue h
  have hc := E_canRead hd
  obtain ⟨_, e2, _, _, _, e6, _⟩ := E_pos hd
  obtain ⟨r1, r2⟩ := E_readOne hd
  unfold settleStep
  rw [hc, e2, e6, r1]
  by_cases c1 : canRead (syncDue s) = true
  · rw [if_pos c1, if_pos c1]
    by_cases c2 : (syncDue s).nrp = (syncDue s).rp
    · rw [if_pos c2, if_pos c2]
      by_cases c3 : (readOne (syncDue s)).1 = true
      · rw [if_pos c3, if_pos c3]; exact ⟨rfl, r2⟩
      · rw [if_neg c3, if_neg c3]; exact ⟨rfl, E_handleReadError r2⟩
    · rw [if_neg c2, if_neg c2]; exact ⟨rfl, hd⟩
  · rw [if_neg c1, if_neg c1]; exact ⟨rfl, hd⟩

theorem E_settleN (n : Nat) : ∀ {s s' : St}, E s s' → E (settleN n s) (settleN n s') := by
  induction n with
  | zero => intro s s' h; exact h
  | succ n ih =>
    intro s s' h
    obtain ⟨a, b⟩ := E_settleStep h
    unfold settleN
    rw [a]
    by_cases c : (settleStep s).1 = true
    · rw [if_pos c, if_pos c]; exact ih b
    · rw [if_neg c, if_neg c]; exact b

theorem E_settle {s s' : St} (h : E s s') : E (settle s) (settle s') := by
  obtain ⟨e1, _, e3, _⟩ := E_pos h
  unfold settle
  rw [e1, e3]
  exact E_settleN _ h

theorem E_count {s s' : St} (h : E s s') (k k' : Nat) :
    E ({ s with count := k } : St) ({ s' with count := k' } : St) := by
  obtain ⟨dp, ns, ct, md, rfl⟩ := h
  exact ⟨_, _, _, _, rfl⟩

/-- `Put`: same answer, related states -/
theorem E_put {s s' : St} (h : E s s') (d : Bytes) : (put s' d).1 = (put s d).1 ∧ E (put s d).2 (put s' d).2 := by
  obtain ⟨_, _, _, _, _, _, _, e8, _⟩ := E_pos h
  obtain ⟨w1, w2⟩ := E_writeOne (E_count h (s.count + 1) (s'.count + 1)) d
  unfold put
  by_cases x : s.exited = true
  · have x' : s'.exited = true := by rw [e8]; exact x
    rw [if_pos x, if_pos x']; exact ⟨rfl, h⟩
  · have x' : ¬ s'.exited = true := by rw [e8]; exact x
    rw [if_neg x, if_neg x']
    by_cases c : (writeOne { s with count := s.count + 1 } d).1 = true
    · have c' : (writeOne { s' with count := s'.count + 1 } d).1 = true := by rw [w1]; exact c
      rw [if_pos c, if_pos c']; exact ⟨rfl, E_settle w2⟩
    · have c' : ¬ (writeOne { s' with count := s'.count + 1 } d).1 = true := by rw [w1]; exact c
      rw [if_neg c, if_neg c']; exact ⟨rfl, E_settle (E_count h _ _)⟩

/-- a consumer takes from `ReadChan`: same record (or nothing), related states -/
theorem E_recv {s s' : St} (h : E s s') : (recv s').1 = (recv s).1 ∧ E (recv s).2 (recv s').2 := by
  obtain ⟨_, _, _, _, _, _, _, e8, e9, _⟩ := E_pos h
  have hc := E_canRead h
  unfold recv
  by_cases c : s.exited = false ∧ canRead s = true
  · have c' : s'.exited = false ∧ canRead s' = true := by rw [e8, hc]; exact c
    rw [if_pos c, if_pos c']
    exact ⟨by show some s'.pending = some s.pending; rw [e9], E_settle (E_moveForward (E_count h _ _))⟩
  · have c' : ¬ (s'.exited = false ∧ canRead s' = true) := by rw [e8, hc]; exact c
    rw [if_neg c, if_neg c']; exact ⟨rfl, h⟩

theorem E_empty {s s' : St} (h : E s s') : (empty s').1 = (empty s).1 ∧ E (empty s).2 (empty s').2 := by
  obtain ⟨_, _, _, _, _, _, _, e8, _⟩ := E_pos h
  unfold empty
  by_cases x : s.exited = true
  · have x' : s'.exited = true := by rw [e8]; exact x
    rw [if_pos x, if_pos x']; exact ⟨rfl, h⟩
  · have x' : ¬ s'.exited = true := by rw [e8]; exact x
    rw [if_neg x, if_neg x']
    refine ⟨rfl, E_settle ?_⟩
    obtain ⟨dp, ns, ct, md, rfl⟩ := h
    exact ⟨_, _, _, _, rfl⟩

theorem E_tick {s s' : St} (h : E s s') : E (tick s) (tick s') := by
  obtain ⟨_, _, _, _, _, _, _, e8, _⟩ := E_pos h
  have a : E s ({ s with needSync := true } : St) := ⟨_, _, _, _, rfl⟩
  have b : E s ({ s' with needSync := true } : St) := by
    obtain ⟨dp, ns, ct, md, rfl⟩ := h
    exact ⟨_, _, _, _, rfl⟩
  unfold tick
  by_cases x : s.exited = true
  · have x' : s'.exited = true := by rw [e8]; exact x
    rw [if_pos x, if_pos x']; exact h
  · have x' : ¬ s'.exited = true := by rw [e8]; exact x
    rw [if_neg x, if_neg x']
    split <;> split
    · exact E_settle h
    · exact E_settle b
    · exact E_settle (E.trans (E.symm a) h)
    · exact E_settle (E.trans (E.symm a) b)

theorem E_delete {s s' : St} (h : E s s') : E (delete s) (delete s') := by
  obtain ⟨dp, ns, ct, md, rfl⟩ := h
  exact ⟨_, _, _, _, rfl⟩

/-- `Close()` then `New(...)`: the stale depth travels through the metadata file, nothing else differs -/
theorem E_reopen {s s' : St} (h : E s s') (cfg' : Cfg) :
    E (openQ cfg' (close s).fs) (openQ cfg' (close s').fs) := by
  unfold openQ
  apply E_settle
  obtain ⟨dp, ns, ct, md, rfl⟩ := h
  unfold close sync retrieve
  simp only [St.metaNow, upd]
  cases hd : s.fs.dat s.wf with
  | none => exact ⟨_, _, _, _, rfl⟩
  | some c =>
    simp only []
    by_cases hw : s.wp < c.length
    · simp only [hw, ↓reduceIte]; exact ⟨_, _, _, _, rfl⟩
    · simp only [hw, ↓reduceIte]; exact ⟨_, _, _, _, rfl⟩

end Nsq.Proofs.DiskQueue
