import Nsq.Model.Restart
import Nsq.Proofs.Life
namespace Nsq.Proofs.Restart
open Nsq.Model.Life Nsq.Model.Restart Nsq.Proofs.Life

/-- every disk queue written by closing topic X is keyed by X's name -/
theorem topicQueues_key (X : Topic) : ∀ e ∈ topicQueues X, e.1.1 = X.name := by
  intro e he
  unfold topicQueues at he
  simp only [List.mem_append, List.mem_map, List.mem_filter] at he
  cases he with
  | inl h =>
    by_cases hx : X.eph <;> simp [hx] at h
    rw [h]
  | inr h =>
    obtain ⟨C, _, rfl⟩ := h
    rfl

theorem find_none_of_key {l : List (BName × List Msg)} {b : BName} (h : ∀ e ∈ l, e.1.1 ≠ b.1) :
    l.find? (fun e => e.1 == b) = none := by
  rw [List.find?_eq_none]
  intro e he hb
  have := eq_of_beq hb
  exact h e he (by rw [this])

theorem find_chan_aux (t : String) (cs : List Chan) (C : Chan) (hC : C ∈ cs) (he : C.eph = false)
    (hnd : (cs.map (·.name)).Nodup) :
    ((cs.filter (fun C => !C.eph)).map (fun C => (((t, some C.name) : BName), Chan.flushed C))).find?
        (fun e => e.1 == (t, some C.name)) = some ((t, some C.name), Chan.flushed C) := by
  induction cs with
  | nil => cases hC
  | cons Y ys ih =>
    simp only [List.map, List.nodup_cons] at hnd
    by_cases hY : Y = C
    · subst hY
      simp [List.filter, he]
    · have hCy : C ∈ ys := by
        cases hC with
        | head => exact absurd rfl hY
        | tail _ h => exact h
      have hne : Y.name ≠ C.name := by
        intro hn
        apply hnd.1
        rw [hn]
        exact List.mem_map.mpr ⟨C, hCy, rfl⟩
      by_cases hYe : Y.eph
      · simp only [List.filter, hYe, Bool.not_true]
        exact ih hCy hnd.2
      · have hYe' : (!Y.eph) = true := by simpa using hYe
        have hf : List.filter (fun C => !C.eph) (Y :: ys) = Y :: List.filter (fun C => !C.eph) ys := by
          simp [List.filter, hYe']
        rw [hf, List.map_cons, List.find?_cons_of_neg]
        · exact ih hCy hnd.2
        · simp [hne]

/-- lookup of a channel's disk queue among the queues of its own topic -/
theorem find_chan_in_topic (T : Topic) (C : Chan) (hC : C ∈ T.chans) (he : C.eph = false)
    (hnd : (T.chans.map (·.name)).Nodup) :
    (topicQueues T).find? (fun e => e.1 == (T.name, some C.name)) = some ((T.name, some C.name), Chan.flushed C) := by
  unfold topicQueues
  rw [List.find?_append]
  have h1 : (if T.eph then [] else [((T.name, none), T.queue)]).find? (fun e => e.1 == (T.name, some C.name)) = none := by
    by_cases hx : T.eph <;> simp [hx]
  rw [h1]
  simp only [Option.none_or]
  exact find_chan_aux T.name T.chans C hC he hnd

theorem find_topic_in_topic (T : Topic) (he : T.eph = false) :
    (topicQueues T).find? (fun e => e.1 == (T.name, none)) = some ((T.name, none), T.queue) := by
  unfold topicQueues
  simp [he]

/-- lookup in the concatenation of all topics' queues goes to the topic of that name -/
theorem find_in_all (ts : List Topic) (rest : List (BName × List Msg)) (T : Topic) (hT : T ∈ ts)
    (hnd : (ts.map (·.name)).Nodup) (b : BName) (hb : b.1 = T.name) (r : BName × List Msg)
    (hr : (topicQueues T).find? (fun e => e.1 == b) = some r) :
    ((ts.map topicQueues).flatten ++ rest).find? (fun e => e.1 == b) = some r := by
  induction ts with
  | nil => cases hT
  | cons X xs ih =>
    simp only [List.map, List.nodup_cons] at hnd
    simp only [List.map, List.flatten_cons, List.append_assoc]
    rw [List.find?_append]
    by_cases hX : X = T
    · subst hX
      rw [hr]; rfl
    · have hTx : T ∈ xs := by
        cases hT with
        | head => exact absurd rfl hX
        | tail _ h => exact h
      have hne : X.name ≠ T.name := by
        intro hn
        apply hnd.1
        rw [hn]
        exact List.mem_map.mpr ⟨T, hTx, rfl⟩
      have : (topicQueues X).find? (fun e => e.1 == b) = none := by
        apply find_none_of_key
        intro e he
        rw [topicQueues_key X e he, hb]
        exact hne
      rw [this]
      simp only [Option.none_or]
      exact ih hTx hnd.2

theorem lookup_topic (s : St) (T : Topic) (hT : T ∈ s.topics) (he : T.eph = false) (hwf : WF s) :
    lookupDQ (closeAll s).dq (T.name, none) = T.queue := by
  unfold lookupDQ closeAll
  simp only []
  rw [find_in_all s.topics s.orphans T hT hwf.1 (T.name, none) rfl _ (find_topic_in_topic T he)]

theorem lookup_chan (s : St) (T : Topic) (C : Chan) (hT : T ∈ s.topics) (hC : C ∈ T.chans)
    (he : C.eph = false) (hwf : WF s) :
    lookupDQ (closeAll s).dq (T.name, some C.name) = C.located := by
  unfold lookupDQ closeAll
  simp only []
  rw [find_in_all s.topics s.orphans T hT hwf.1 (T.name, some C.name) rfl _
    (find_chan_in_topic T C hC he (hwf.2 T hT))]
  rfl

def WFt (ts : List Topic) : Prop :=
  (ts.map (·.name)).Nodup ∧ ∀ T ∈ ts, (T.chans.map (·.name)).Nodup

theorem wf_iff (s : St) : WF s ↔ WFt s.topics := Iff.rfl

theorem wft_map (ts : List Topic) (g : Topic → Topic) (hn : ∀ T, (g T).name = T.name)
    (hc : ∀ T ∈ ts, (T.chans.map (·.name)).Nodup → ((g T).chans.map (·.name)).Nodup) (h : WFt ts) :
    WFt (ts.map g) := by
  constructor
  · rw [List.map_map]
    have : ((fun T : Topic => T.name) ∘ g) = (·.name) := by funext T; exact hn T
    rw [this]; exact h.1
  · intro T' hT'
    obtain ⟨T, hT, rfl⟩ := List.mem_map.mp hT'
    exact hc T hT (h.2 T hT)

theorem wft_filter (ts : List Topic) (p : Topic → Bool) (h : WFt ts) : WFt (ts.filter p) :=
  ⟨List.Nodup.sublist (List.Sublist.map _ List.filter_sublist) h.1,
   fun T hT => h.2 T (List.mem_filter.mp hT).1⟩

theorem find_none_name {ts : List Topic} {t : String} (h : ts.find? (fun T => T.name == t) = none) :
    t ∉ ts.map (·.name) := by
  intro hm
  obtain ⟨T, hT, rfl⟩ := List.mem_map.mp hm
  have := List.find?_eq_none.mp h T hT
  simp at this

theorem find_none_cname {cs : List Chan} {c : String} (h : cs.find? (fun C => C.name == c) = none) :
    c ∉ cs.map (·.name) := by
  intro hm
  obtain ⟨C, hC, rfl⟩ := List.mem_map.mp hm
  have := List.find?_eq_none.mp h C hC
  simp at this

theorem wft_append (ts : List Topic) (X : Topic) (hf : X.name ∉ ts.map (·.name))
    (hx : (X.chans.map (·.name)).Nodup) (h : WFt ts) : WFt (ts ++ [X]) := by
  constructor
  · rw [List.map_append, List.nodup_append]
    refine ⟨h.1, by simp, ?_⟩
    intro a ha b hb
    simp at hb
    subst hb
    intro hab
    subst hab
    exact hf ha
  · intro T hT
    rcases List.mem_append.mp hT with h1 | h1
    · exact h.2 T h1
    · simp at h1; subst h1; exact hx

theorem nodup_map_pres (cs : List Chan) (g : Chan → Chan) (hn : ∀ C, (g C).name = C.name)
    (h : (cs.map (·.name)).Nodup) : ((cs.map g).map (·.name)).Nodup := by
  rw [List.map_map]
  have : ((fun C : Chan => C.name) ∘ g) = (·.name) := by funext C; exact hn C
  rw [this]; exact h

theorem putMessage_name (cap : Nat) (C : Chan) (m : Msg) : (C.putMessage cap m).name = C.name := by
  unfold Chan.putMessage Chan.put
  by_cases h1 : C.exiting <;> by_cases h2 : C.memLen < cap <;> by_cases h3 : C.eph <;> simp [h1, h2, h3]

theorem fanoutAll_names (cap : Nat) (ms : List Msg) : ∀ (cs : List Chan),
    (fanoutAll cap cs ms).map (·.name) = cs.map (·.name) := by
  induction ms with
  | nil => intro cs; rfl
  | cons m ms ih =>
    intro cs
    show (fanoutAll cap (fanout cap cs m) ms).map (·.name) = _
    rw [ih]
    unfold fanout
    rw [List.map_map]
    apply List.map_congr_left
    intro C _
    exact putMessage_name cap C m

/-- update of the topics named `t` by a name-preserving `f` that keeps channel names unique -/
theorem wf_modTopic (s : St) (t : String) (f : Topic → Topic) (hn : ∀ T, (f T).name = T.name)
    (hc : ∀ T ∈ s.topics, (T.name == t) = true → (T.chans.map (·.name)).Nodup → ((f T).chans.map (·.name)).Nodup)
    (h : WF s) : WFt (modTopic s t f).topics := by
  unfold modTopic
  apply wft_map s.topics _ _ _ h
  · intro T; by_cases hx : T.name == t <;> simp [hx, hn]
  · intro T hT hnd
    by_cases hx : T.name == t
    · simp only [hx, if_true]; exact hc T hT hx hnd
    · simp only [hx]; exact hnd

theorem wf_modChan (s : St) (t c : String) (f : Chan → Chan) (hn : ∀ C, (f C).name = C.name)
    (h : WF s) : WFt (modChan s t c f).topics := by
  unfold modChan
  apply wf_modTopic s t (fun T => T.modChan c f) (fun T => rfl) _ h
  intro T _ _ hnd
  unfold Topic.modChan
  apply nodup_map_pres _ _ _ hnd
  intro C; by_cases hx : C.name == c <;> simp [hx, hn]

theorem put_name (cap : Nat) (C : Chan) (m : Msg) : (Chan.put cap C m).name = C.name := by
  unfold Chan.put
  by_cases h2 : C.memLen < cap <;> by_cases h3 : C.eph <;> simp [h2, h3]

theorem topic_put_name (cap : Nat) (T : Topic) (m : Msg) :
    (T.put cap m).name = T.name ∧ (T.put cap m).chans = T.chans := by
  unfold Topic.put
  by_cases h2 : T.memLen < cap <;> by_cases h3 : T.eph <;> simp [h2, h3]

theorem openChan_name (os : List (BName × List Msg)) (t c : String) (e : Bool) : (openChan os t c e).name = c := by
  unfold openChan; cases e <;> rfl

theorem inj_of_nodup_names : ∀ (ts : List Topic), (ts.map (·.name)).Nodup →
    ∀ {a b : Topic}, a ∈ ts → b ∈ ts → a.name = b.name → a = b := by
  intro ts
  induction ts with
  | nil => intro _ a b ha; cases ha
  | cons X xs ih =>
    intro hnd a b ha hb hab
    simp only [List.map, List.nodup_cons] at hnd
    rcases List.mem_cons.mp ha with ha | ha <;> rcases List.mem_cons.mp hb with hb | hb
    · rw [ha, hb]
    · rw [ha] at hab
      exact absurd (List.mem_map.mpr ⟨b, hb, hab.symm⟩) hnd.1
    · rw [hb] at hab
      exact absurd (List.mem_map.mpr ⟨a, ha, hab⟩) hnd.1
    · exact ih hnd.2 ha hb hab

theorem uniq_topic {s : St} {t : String} {T X : Topic} (h : WF s) (hT : getTopic s t = some T)
    (hX : X ∈ s.topics) (hn : (X.name == t) = true) : X = T := by
  have hTm : T ∈ s.topics := List.mem_of_find?_eq_some hT
  have hTn : T.name = t := getTopic_name hT
  have hXn : X.name = t := eq_of_beq hn
  exact inj_of_nodup_names s.topics h.1 hX hTm (by rw [hXn, hTn])

theorem nodup_filter_names (cs : List Chan) (p : Chan → Bool) (h : (cs.map (·.name)).Nodup) :
    ((cs.filter p).map (·.name)).Nodup :=
  List.Nodup.sublist (List.Sublist.map _ List.filter_sublist) h

/-- every operation keeps topic names and, per topic, channel names unique -/
theorem wf_step (s : St) (o : Op) (h : WF s) : WF (step s o).1 := by
  rw [wf_iff]
  cases o with
  | createTopic t e =>
    simp only [step]
    split
    · exact h
    · rename_i hnone
      exact wft_append s.topics _ (find_none_name hnone) (by simp [newTopic]) h
  | createChan t c e =>
    simp only [step]
    split
    · exact h
    · split
      · exact h
      · rename_i T hT _ hnone
        show WFt (modTopic s t (fun T => T.addChan (openChan s.orphans t c e))).topics
        apply wf_modTopic s t (fun T => T.addChan (openChan s.orphans t c e)) (fun _ => rfl) _ h
        intro X hX hXn hnd
        have : X = T := uniq_topic h hT hX hXn
        subst this
        show ((X.chans ++ [openChan s.orphans t c e]).map (·.name)).Nodup
        rw [List.map_append, List.nodup_append]
        refine ⟨hnd, by simp, ?_⟩
        intro a ha b hb
        simp [openChan_name] at hb
        subst hb
        intro hab
        subst hab
        exact find_none_cname hnone ha
  | deleteTopic t =>
    simp only [step]
    split
    · exact h
    · exact wft_filter s.topics _ h
  | deleteChanBegin t c =>
    simp only [step]
    split
    · exact h
    · split
      · exact h
      · exact wf_modChan s t c Chan.deleteBegin deleteBegin_name h
  | deleteChanUnlink t c =>
    simp only [step]
    split
    · exact h
    · split
      · exact h
      · split
        · exact h
        · split
          · exact wft_filter s.topics _ h
          · apply wf_modTopic s t (fun T => T.dropChan c) (fun _ => rfl) _ h
            intro X _ _ hnd
            exact nodup_filter_names X.chans _ hnd
  | emptyTopic t =>
    simp only [step]
    split
    · exact h
    · exact wf_modTopic s t Topic.clearQueue (fun _ => rfl) (fun _ _ _ hnd => hnd) h
  | emptyChan t c =>
    simp only [step]
    split
    · exact h
    · split
      · exact h
      · exact wf_modChan s t c Chan.empty empty_name h
  | pauseTopic t p =>
    simp only [step]
    split
    · exact h
    · exact wf_modTopic s t (fun T => { T with paused := p }) (fun _ => rfl) (fun _ _ _ hnd => hnd) h
  | pauseChan t c p =>
    simp only [step]
    split
    · exact h
    · exact wf_modChan s t c (fun C => { C with paused := p }) (fun _ => rfl) h
  | pub t m =>
    simp only [step]
    split
    · exact h
    · apply wf_modTopic s t (fun T => T.put s.memCap m) (fun T => (topic_put_name s.memCap T m).1) _ h
      intro X _ _ hnd
      rw [(topic_put_name s.memCap X m).2]; exact hnd
  | pump t =>
    simp only [step]
    split
    · exact h
    · split
      · exact h
      · refine wf_modTopic s t _ ?_ ?_ h
        · intro _; rfl
        · intro X hX _ _
          show ((fanoutAll s.memCap X.chans X.queue).map (·.name)).Nodup
          rw [fanoutAll_names]
          exact h.2 X hX
  | sub t c k =>
    simp only [step]
    repeat' split
    all_goals first | exact h | (refine wf_modChan s t c _ ?_ h; intro C; rfl)
  | unsub t c k =>
    simp only [step]
    repeat' split
    all_goals first | exact h | (refine wf_modChan s t c _ ?_ h; intro C; rfl)
  | deliver t c k fm id =>
    simp only [step]
    repeat' split
    all_goals first | exact h | (refine wf_modChan s t c _ ?_ h; intro C; rfl)
  | fin t c k id =>
    simp only [step]
    repeat' split
    all_goals first | exact h | (refine wf_modChan s t c _ ?_ h; intro C; rfl)
  | req t c k id d =>
    simp only [step]
    repeat' split
    all_goals first | exact h | (refine wf_modChan s t c _ ?_ h; intro C; first | rfl | exact put_name s.memCap _ _)
  | release t c id =>
    simp only [step]
    repeat' split
    all_goals first | exact h | (refine wf_modChan s t c _ ?_ h; intro C; first | rfl | exact put_name s.memCap _ _)

theorem wf_init (cap : Nat) : WF (init cap) := by
  constructor
  · simp [init]
  · intro T hT; simp [init] at hT

theorem wf_run : ∀ (ops : List Op) (s : St), WF s → WF (run s ops) := by
  intro ops
  induction ops with
  | nil => intro s h; exact h
  | cons o os ih => intro s h; exact ih _ (wf_step s o h)


/-- fanning a list of messages out to one durable, non-exiting channel appends them all -/
theorem foldl_put_durable (cap : Nat) (ms : List Msg) : ∀ (C : Chan), C.eph = false → C.exiting = false →
    (ms.foldl (fun C m => C.putMessage cap m) C).queue = C.queue ++ ms ∧
    (ms.foldl (fun C m => C.putMessage cap m) C).inflight = C.inflight ∧
    (ms.foldl (fun C m => C.putMessage cap m) C).deferred = C.deferred ∧
    (ms.foldl (fun C m => C.putMessage cap m) C).name = C.name := by
  induction ms with
  | nil => intro C _ _; simp
  | cons m ms ih =>
    intro C he hx
    have hq : (C.putMessage cap m).queue = C.queue ++ [m] ∧ (C.putMessage cap m).eph = false ∧
        (C.putMessage cap m).exiting = false ∧ (C.putMessage cap m).inflight = C.inflight ∧
        (C.putMessage cap m).deferred = C.deferred ∧ (C.putMessage cap m).name = C.name := by
      unfold Chan.putMessage Chan.put
      by_cases h2 : C.memLen < cap <;> simp [hx, he, h2]
    obtain ⟨q1, q2, q3, q4, q5, q6⟩ := hq
    have := ih (C.putMessage cap m) q2 q3
    simp only [List.foldl]
    rw [this.1, this.2.1, this.2.2.1, this.2.2.2, q1, q4, q5, q6]
    simp

theorem fanoutAll_eq (cap : Nat) (ms : List Msg) : ∀ (cs : List Chan),
    fanoutAll cap cs ms = cs.map (fun C => ms.foldl (fun C m => C.putMessage cap m) C) := by
  induction ms with
  | nil => intro cs; simp [fanoutAll]
  | cons m ms ih =>
    intro cs
    show fanoutAll cap (fanout cap cs m) ms = _
    rw [ih]
    unfold fanout
    rw [List.map_map]
    rfl


def Located (s : RaceSt) (m : Nat) : Prop :=
  m ∈ s.topicMem ∨ m ∈ s.topicDisk ∨ m ∈ s.chanMem ∨ m ∈ s.chanDisk ∨ m ∈ s.inflight ∨ m ∈ s.deferred ∨
    m ∈ s.pumpHolds ∨ m ∈ s.scanHolds ∨ m ∈ s.ansHolds ∨ m ∈ s.finished ∨ m ∈ s.lateTopic

/-- invariant of every tree whose scans hold the exit lock (model parameter, tied to the tree): until the
channel closes every acknowledged message is somewhere; once the channel has closed no scan holds a message -/
def RaceInv (s : RaceSt) : Prop :=
  s.scanLock = true ∧ (s.chanClosed = false → ∀ m ∈ s.acked, Located s m) ∧ (s.chanClosed = true → s.scanHolds = [])

theorem raceInv_init (s0 : RaceSt) (h : s0.scanLock = true) (ha : s0.acked = []) (hs : s0.scanHolds = []) : RaceInv s0 := by
  refine ⟨h, ?_, fun _ => hs⟩
  intro _ m hm; rw [ha] at hm; cases hm

theorem mem_erase_or {l : List Nat} {x m : Nat} (h : x ∈ l) : x = m ∨ x ∈ l.erase m := by
  by_cases hx : x = m
  · exact Or.inl hx
  · exact Or.inr ((List.mem_erase_of_ne hx).mpr h)

theorem raceInv_step (s s' : RaceSt) (a : RaceStep) (h : RaceInv s) (hs : raceStep s a = some s') : RaceInv s' := by
  obtain ⟨hlock, hL, hS⟩ := h
  cases a <;> simp only [raceStep] at hs <;> (repeat' split at hs) <;> (try cases hs) <;>
    (refine ⟨?_, ?_, ?_⟩ <;> (try intro hc x hx) <;> (try unfold Located at *) <;> grind [mem_erase_or])

theorem raceInv_run : ∀ (sched : List RaceStep) (s s' : RaceSt), RaceInv s → raceRun s sched = some s' → RaceInv s' := by
  intro sched
  induction sched with
  | nil => intro s s' h hs; cases hs; exact h
  | cons a as ih =>
    intro s s' h hs
    simp only [raceRun] at hs
    split at hs
    · cases hs
    · rename_i s1 h1
      exact ih s1 s' (raceInv_step s s1 a h h1) hs

/-! #### the tree with both repairs (F17 topic-exit barrier, F18 answers hold the exit lock) -/

/-- where an acknowledged message may be, taking into account which containers are still going to be
flushed: a container of a closed channel / topic does not count -/
def Safe (s : RaceSt) (m : Nat) : Prop :=
  m ∈ s.topicDisk ∨ m ∈ s.chanDisk ∨ m ∈ s.finished ∨ m ∈ s.lateReg ∨ m ∈ s.lateTopic ∨ m ∈ s.pumpHolds ∨
  (s.topicClosed = false ∧ m ∈ s.topicMem) ∨
  (s.chanClosed = false ∧ (m ∈ s.chanMem ∨ m ∈ s.inflight ∨ m ∈ s.deferred ∨ m ∈ s.scanHolds ∨ m ∈ s.ansHolds))

structure FixedInv (s : RaceSt) : Prop where
  scan : s.scanLock = true
  ans : s.ansLock = true
  bar : s.topicBarrier = true
  safe : ∀ m ∈ s.acked, Safe s m
  /-- the barrier: once the flag is set no publisher is between test and write -/
  pend : s.topicExiting = true → s.putPending = []
  ce : s.chanClosed = true → s.topicExiting = true
  tc : s.topicClosed = true → s.chanClosed = true

theorem fixedInv_init : FixedInv fixedTree where
  scan := rfl
  ans := rfl
  bar := rfl
  safe := by intro m hm; cases hm
  pend := fun _ => rfl
  ce := by intro h; cases h
  tc := by intro h; cases h

theorem fixedInv_step (s s' : RaceSt) (a : RaceStep) (h : FixedInv s) (hs : raceStep s a = some s') : FixedInv s' := by
  obtain ⟨h1, h2, h3, hS, hP, hC, hT⟩ := h
  cases a <;> simp only [raceStep] at hs <;> (repeat' split at hs) <;> (try cases hs) <;>
    (constructor <;> (try intro x hx) <;> (try unfold Safe at *) <;> grind [mem_erase_or])

theorem fixedInv_run : ∀ (sched : List RaceStep) (s s' : RaceSt), FixedInv s → raceRun s sched = some s' → FixedInv s' := by
  intro sched
  induction sched with
  | nil => intro s s' h hs; cases hs; exact h
  | cons a as ih =>
    intro s s' h hs
    simp only [raceRun] at hs
    split at hs
    · cases hs
    · rename_i s1 h1
      exact ih s1 s' (fixedInv_step s s1 a h h1) hs

/-! #### … and with fixes/F23: Exit joins every connection handler and its pump before it closes the topics -/

structure JoinInv (s : RaceSt) : Prop where
  fixed : FixedInv s
  join : s.pumpJoin = true
  /-- once the topics are being closed no pump holds a message -/
  ph : s.topicExiting = true → s.pumpHolds = []
  /-- nothing was ever registered in flight on a flushed channel -/
  late : s.lateReg = []
  guard : s.newTopicGuard = true
  /-- nothing was acknowledged into a topic created after Exit's critical section -/
  lt : s.lateTopic = []

theorem joinInv_init : JoinInv joinedTree where
  fixed :=
    { scan := rfl, ans := rfl, bar := rfl
      safe := by intro m hm; cases hm
      pend := fun _ => rfl
      ce := by intro h; cases h
      tc := by intro h; cases h }
  join := rfl
  ph := fun _ => rfl
  late := rfl
  guard := rfl
  lt := rfl

theorem joinInv_step (s s' : RaceSt) (a : RaceStep) (h : JoinInv s) (hs : raceStep s a = some s') : JoinInv s' := by
  obtain ⟨hf, hj, hp, hl, hg, hlt⟩ := h
  refine ⟨fixedInv_step s s' a hf hs, ?_, ?_, ?_, ?_, ?_⟩
  · cases a <;> simp only [raceStep] at hs <;> (repeat' split at hs) <;> (try cases hs) <;> (try exact hj) <;> grind
  · have hce := hf.ce
    cases a <;> simp only [raceStep] at hs <;> (repeat' split at hs) <;> (try cases hs) <;> grind [mem_erase_or]
  · have hce := hf.ce
    cases a <;> simp only [raceStep] at hs <;> (repeat' split at hs) <;> (try cases hs) <;> grind [mem_erase_or]
  · cases a <;> simp only [raceStep] at hs <;> (repeat' split at hs) <;> (try cases hs) <;> (try exact hg) <;> grind
  · cases a <;> simp only [raceStep] at hs <;> (repeat' split at hs) <;> (try cases hs) <;> (try exact hlt) <;> grind

theorem joinInv_run : ∀ (sched : List RaceStep) (s s' : RaceSt), JoinInv s → raceRun s sched = some s' → JoinInv s' := by
  intro sched
  induction sched with
  | nil => intro s s' h hs; cases hs; exact h
  | cons a as ih =>
    intro s s' h hs
    simp only [raceRun] at hs
    split at hs
    · cases hs
    · rename_i s1 h1
      exact ih s1 s' (joinInv_step s s1 a h h1) hs

/-! #### the topic side alone: any tree with the barrier (whatever the two channel-side parameters) -/

structure BarrierInv (s : RaceSt) : Prop where
  bar : s.topicBarrier = true
  /-- an acknowledged message is on the topic's disk queue, has been handed to the channel, or waits in
  the memory queue of a topic that is still going to be flushed -/
  safe : ∀ m ∈ s.acked, m ∈ s.topicDisk ∨ m ∈ s.fanned ∨ m ∈ s.lateTopic ∨ (s.topicClosed = false ∧ m ∈ s.topicMem)
  pend : s.topicExiting = true → s.putPending = []
  ce : s.chanClosed = true → s.topicExiting = true
  tc : s.topicClosed = true → s.chanClosed = true

theorem barrierInv_step (s s' : RaceSt) (a : RaceStep) (h : BarrierInv s) (hs : raceStep s a = some s') : BarrierInv s' := by
  obtain ⟨h3, hS, hP, hC, hT⟩ := h
  cases a <;> simp only [raceStep] at hs <;> (repeat' split at hs) <;> (try cases hs) <;>
    (constructor <;> (try intro x hx) <;> grind [mem_erase_or])

theorem barrierInv_run : ∀ (sched : List RaceStep) (s s' : RaceSt), BarrierInv s → raceRun s sched = some s' → BarrierInv s' := by
  intro sched
  induction sched with
  | nil => intro s s' h hs; cases hs; exact h
  | cons a as ih =>
    intro s s' h hs
    simp only [raceRun] at hs
    split at hs
    · cases hs
    · rename_i s1 h1
      exact ih s1 s' (barrierInv_step s s1 a h h1) hs

theorem persisted_reload (cap : Nat) (p : Persist) : persisted (reload cap p) = p.metadata := by
  unfold persisted reload
  simp only []
  have h1 : (p.metadata.map (reloadTopic p.dq)).filter (fun T => !T.eph) = p.metadata.map (reloadTopic p.dq) := by
    rw [List.filter_eq_self]
    intro T hT
    obtain ⟨e, _, rfl⟩ := List.mem_map.mp hT
    rfl
  rw [h1, List.map_map]
  conv => rhs; rw [← List.map_id p.metadata]
  apply List.map_congr_left
  intro e _
  simp only [Function.comp, reloadTopic, id]
  have h2 : (e.2.2.map (reloadChan p.dq e.1)).filter (fun C => !C.eph) = e.2.2.map (reloadChan p.dq e.1) := by
    rw [List.filter_eq_self]
    intro C hC
    obtain ⟨c, _, rfl⟩ := List.mem_map.mp hC
    rfl
  rw [h2, List.map_map]
  have h3 : e.2.2.map ((fun C : Chan => (C.name, C.paused)) ∘ reloadChan p.dq e.1) = e.2.2 := by
    conv => rhs; rw [← List.map_id e.2.2]
    apply List.map_congr_left
    intro c _
    rfl
  rw [h3]


end Nsq.Proofs.Restart
