/-
E2 / C03 — the connection's output history run at frame level and through C07's byte-level `bufio.Writer` model
(`Nsq.Model.Wire.bufWrite / bufFlush`): definitions and the joint invariant used by `Nsq.Props.C03PumpBytes` (audit A13).
-/
import Nsq.Proofs.Wire
namespace Nsq.Proofs.PumpBytes
open Nsq.Model.Wire Nsq.Proofs.Wire

/-- the output history of one connection: frame `f` written (in chunks), or `Flush` -/
inductive OAct (F : Type) where
  | write (f : F)
  | flush

/-- frame level (as in `Nsq.Model.Pump`): socket content and buffer as frame lists -/
def frameRun {F : Type} : List F × List F → List (OAct F) → List F × List F
  | s, [] => s
  | (sock, buf), .write f :: as => frameRun (sock, buf ++ [f]) as
  | (sock, buf), .flush :: as => frameRun (sock ++ buf, []) as

def writeChunks (w : BufW) : List Bytes → BufW
  | [] => w
  | c :: cs => writeChunks (bufWrite w c) cs

/-- byte level: `chunks f` are the `Write` calls that emit frame `f` -/
def byteRun {F : Type} (chunks : F → List Bytes) : BufW → List (OAct F) → BufW
  | w, [] => w
  | w, .write f :: as => byteRun chunks (writeChunks w (chunks f)) as
  | w, .flush :: as => byteRun chunks (bufFlush w) as

def enc {F : Type} (chunks : F → List Bytes) (l : List F) : Bytes := l.flatMap (fun f => (chunks f).flatten)

theorem bufWriteLoop_sink (fuel : Nat) (w : BufW) (p : Bytes) : ∃ r, (bufWriteLoop fuel w p).sink = w.sink ++ r := by
  induction fuel generalizing w p with
  | zero => exact ⟨[], by simp [bufWriteLoop]⟩
  | succ fuel ih =>
    unfold bufWriteLoop
    split
    · split
      · exact ⟨p, rfl⟩
      · obtain ⟨r, hr⟩ := ih { w with sink := w.sink ++ w.buf ++ p.take (w.cap - w.buf.length), buf := [] }
          (p.drop (w.cap - w.buf.length))
        exact ⟨w.buf ++ p.take (w.cap - w.buf.length) ++ r, by rw [hr]; simp⟩
    · exact ⟨[], by simp⟩

theorem writeChunks_spec (w : BufW) (cs : List Bytes) :
    (writeChunks w cs).sink ++ (writeChunks w cs).buf = w.sink ++ w.buf ++ cs.flatten ∧
    (∃ r, (writeChunks w cs).sink = w.sink ++ r) ∧ (writeChunks w cs).cap = w.cap ∧
    (w.buf.length ≤ w.cap → (writeChunks w cs).buf.length ≤ w.cap) := by
  induction cs generalizing w with
  | nil => exact ⟨by simp [writeChunks], ⟨[], by simp [writeChunks]⟩, rfl, fun h => h⟩
  | cons c cs ih =>
    obtain ⟨h1, ⟨r, h2⟩, h3, h4⟩ := ih (bufWrite w c)
    have b1 := bufWrite_stream w c
    obtain ⟨r0, b2⟩ := bufWriteLoop_sink 2 w c
    refine ⟨?_, ⟨r0 ++ r, ?_⟩, ?_, ?_⟩
    · simp only [writeChunks, h1, b1.1, List.flatten_cons, List.append_assoc]
    · simp only [writeChunks, h2]; show (bufWriteLoop 2 w c).sink ++ r = _; rw [b2]; simp
    · simp only [writeChunks, h3, b1.2]
    · intro hb
      simp only [writeChunks]
      have := h4 (by rw [b1.2]; exact bufWrite_bounded w c hb)
      rw [b1.2] at this; exact this

/-- the joint invariant of the two runs -/
theorem runs_agree {F : Type} (chunks : F → List Bytes) (as : List (OAct F)) (w : BufW) (sock buf : List F)
    (h1 : w.sink ++ w.buf = enc chunks (sock ++ buf)) (h2 : ∃ r, w.sink = enc chunks sock ++ r)
    (h3 : w.buf.length ≤ w.cap) :
    (byteRun chunks w as).sink ++ (byteRun chunks w as).buf =
      enc chunks ((frameRun (sock, buf) as).1 ++ (frameRun (sock, buf) as).2) ∧
    (∃ r, (byteRun chunks w as).sink = enc chunks (frameRun (sock, buf) as).1 ++ r) ∧
    (byteRun chunks w as).buf.length ≤ (byteRun chunks w as).cap ∧ (byteRun chunks w as).cap = w.cap := by
  induction as generalizing w sock buf with
  | nil => exact ⟨h1, h2, h3, rfl⟩
  | cons a as ih =>
    cases a with
    | write f =>
      obtain ⟨c1, ⟨r, c2⟩, c3, c4⟩ := writeChunks_spec w (chunks f)
      obtain ⟨r0, h2'⟩ := h2
      have := ih (writeChunks w (chunks f)) sock (buf ++ [f])
        (by rw [c1, h1]; simp [enc, List.flatMap_append])
        ⟨r0 ++ r, by rw [c2, h2']; simp⟩ (by rw [c3]; exact c4 h3)
      simp only [byteRun, frameRun]
      exact ⟨this.1, this.2.1, this.2.2.1, this.2.2.2.trans c3⟩
    | flush =>
      have := ih (bufFlush w) (sock ++ buf) []
        (by simp [bufFlush, h1]) ⟨[], by simp [bufFlush, h1]⟩ (by simp [bufFlush])
      simp only [byteRun, frameRun]
      exact ⟨this.1, this.2.1, this.2.2.1, this.2.2.2⟩

end Nsq.Proofs.PumpBytes
