import Nsq.Model.Num
/-! Helper lemmas for C04 (numeric half). -/
namespace Nsq.Proofs.Num
open Nsq.Model.Num

theorem decVal_ge (b : Bytes) (acc : Nat) : acc ≤ decVal b acc := by
  induction b generalizing acc with
  | nil => simp [decVal]
  | cons d tl ih =>
    simp only [decVal]
    have := ih (acc * 10 + digitVal d)
    omega

theorem decVal_mono (b : Bytes) {a c : Nat} (h : a ≤ c) : decVal b a ≤ decVal b c := by
  induction b generalizing a c with
  | nil => simpa [decVal]
  | cons d tl ih =>
    simp only [decVal]
    apply ih
    omega

theorem isDigit_iff (d : BitVec 8) : isDigit d = true ↔ 48 ≤ d.toNat ∧ d.toNat ≤ 57 := by
  simp [isDigit, BitVec.ule]

theorem digit_setWidth (d : BitVec 8) (h : isDigit d = true) :
    (BitVec.setWidth 64 (d - 48#8)).toNat = digitVal d ∧ digitVal d ≤ 9 := by
  rw [isDigit_iff] at h
  have : (d - 48#8).toNat = d.toNat - 48 := by
    rw [BitVec.toNat_sub]; simp; omega
  simp [digitVal, this]
  omega

/-- the overflow guard `n > (maxUint64 - v) / 10` is exactly "n*10 + v does not fit 64 bits" -/
theorem guard_iff (n : BitVec 64) (v : BitVec 64) (hv : v.toNat ≤ 9) :
    BitVec.ult ((maxUint64 - v) / 10#64) n = true ↔ 2 ^ 64 ≤ n.toNat * 10 + v.toNat := by
  have h1 : (maxUint64 - v).toNat = 18446744073709551615 - v.toNat := by
    rw [BitVec.toNat_sub]; simp [maxUint64]; omega
  simp only [BitVec.ult, decide_eq_true_eq, BitVec.toNat_udiv, h1]
  have : (10#64).toNat = 10 := rfl
  rw [this]
  omega

theorem step_toNat (n v : BitVec 64) (h : n.toNat * 10 + v.toNat < 2 ^ 64) :
    (n * 10#64 + v).toNat = n.toNat * 10 + v.toNat := by
  rw [BitVec.toNat_add, BitVec.toNat_mul]
  have : (10#64).toNat = 10 := rfl
  rw [this]
  omega

theorem b10loop_spec (b : Bytes) (n : BitVec 64) :
    b10loop b n =
      if allDigits b = true ∧ decVal b n.toNat < 2 ^ 64 then some (BitVec.ofNat 64 (decVal b n.toNat))
      else none := by
  induction b generalizing n with
  | nil => simp [b10loop, allDigits, decVal, n.isLt]
  | cons d tl ih =>
    unfold b10loop
    by_cases hd : isDigit d = true
    · have ⟨hv, hv9⟩ := digit_setWidth d hd
      have hg := guard_iff n (BitVec.setWidth 64 (d - 48#8)) (by omega)
      by_cases hg' : BitVec.ult ((maxUint64 - BitVec.setWidth 64 (d - 48#8)) / 10#64) n = true
      · have hov := hg.mp hg'
        have hge := decVal_ge tl (n.toNat * 10 + digitVal d)
        have : ¬ (decVal (d :: tl) n.toNat < 2 ^ 64) := by
          simp only [decVal]; omega
        simp [hd, hg', this]
      · have hno : n.toNat * 10 + digitVal d < 2 ^ 64 := by
          have := mt hg.mpr hg'; omega
        have hst := step_toNat n (BitVec.setWidth 64 (d - 48#8)) (by omega)
        simp only [hd, hg', if_true, Bool.false_eq_true, if_false]
        rw [ih, hst, hv]
        simp [allDigits, decVal, hd]
    · simp [hd, allDigits]

/-- **ByteToBase10, complete specification**: for every byte string, success iff every byte is a
decimal digit and the denoted natural number fits 64 bits; the result is then that number. -/
theorem byteToBase10_spec (b : Bytes) :
    byteToBase10 b =
      if allDigits b = true ∧ value b < 2 ^ 64 then some (BitVec.ofNat 64 (value b)) else none := by
  unfold byteToBase10 value
  have := b10loop_spec b 0#64
  simpa using this

theorem byteToBase10_some {b : Bytes} {n : BitVec 64} (h : byteToBase10 b = some n) :
    allDigits b = true ∧ value b < 2 ^ 64 ∧ n.toNat = value b := by
  rw [byteToBase10_spec] at h
  split at h
  · next hc =>
    injection h with h
    refine ⟨hc.1, hc.2, ?_⟩
    rw [← h]; simp; omega
  · contradiction

theorem byteToBase10_none {b : Bytes} (h : byteToBase10 b = none) :
    ¬ (allDigits b = true ∧ value b < 2 ^ 64) := by
  rw [byteToBase10_spec] at h
  split at h
  · contradiction
  · assumption

/-! ### durations -/

theorem maxInt64_toInt : maxInt64.toInt = 9223372036854775807 := by decide

/-- `msToDuration` as an integer: never negative, exact below the saturation point. -/
theorem msToDuration_toInt (ms : BitVec 64) :
    (msToDuration ms).toInt = if ms.toNat ≤ 9223372036854 then (ms.toNat : Int) * 1000000
                              else 9223372036854775807 := by
  unfold msToDuration
  by_cases h : ms.toNat ≤ 9223372036854
  · have : ¬ (BitVec.ult 9223372036854#64 ms = true) := by simp [BitVec.ult]; omega
    simp only [this, Bool.false_eq_true, if_false, h, if_true]
    have h2 : (ms * 1000000#64).toNat = ms.toNat * 1000000 := by
      rw [BitVec.toNat_mul]
      have : (1000000#64).toNat = 1000000 := rfl
      rw [this]; omega
    rw [BitVec.toInt_eq_toNat_cond, h2]
    split <;> omega
  · have : BitVec.ult 9223372036854#64 ms = true := by simp [BitVec.ult]; omega
    simp [this, h, maxInt64_toInt]

theorem slt_iff (a b : BitVec 64) : BitVec.slt a b = true ↔ a.toInt < b.toInt := by
  simp [BitVec.slt]

theorem sle_iff (a b : BitVec 64) : BitVec.sle a b = true ↔ a.toInt ≤ b.toInt := by
  simp [BitVec.sle]

instance : DecidableEq (Except DeferErr (BitVec 64)) := fun a b =>
  match a, b with
  | .ok x, .ok y => if h : x = y then isTrue (by rw [h]) else isFalse (fun h' => h (by cases h'; rfl))
  | .error x, .error y => if h : x = y then isTrue (by rw [h]) else isFalse (fun h' => h (by cases h'; rfl))
  | .ok _, .error _ => isFalse (fun h' => by cases h')
  | .error _, .ok _ => isFalse (fun h' => by cases h')

end Nsq.Proofs.Num
