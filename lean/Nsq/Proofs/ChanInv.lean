/-
E2 — the channel invariant `Inv` and its preservation by every step of `Nsq.Model.Chan.step`
(atomic operations and the two micro-steps of FIN alike), plus the stronger `InvA` preserved by
the atomic operations.
-/
import Nsq.Proofs.Chan
namespace Nsq.Proofs.Chan
open Nsq.Model.Chan

/-- a single-id event about `x`: status and delivery count of every other id are untouched -/
def Single (ev : Ev) (x : Nat) : Prop :=
  ∀ j, j ≠ x → (∀ s, evSt ev j s = s) ∧ (∀ h, nDeliver (ev :: h) j = nDeliver h j)

/-- an event that concerns no message at all -/
def Neutral (ev : Ev) : Prop :=
  ∀ j, (∀ s, evSt ev j s = s) ∧ (∀ h, nDeliver (ev :: h) j = nDeliver h j)

structure Core (msgs : List Entry) (h : List Ev) : Prop where
  nodup : (msgs.map (·.id)).Nodup
  agree : ∀ e ∈ msgs, status h e.id = locSt e.loc ∧ e.att = nDeliver h e.id
  absent : ∀ id, (status h id).located = true → ∃ e ∈ msgs, e.id = id

theorem locSt_located (l : Loc) : (locSt l).located = true := by cases l <;> rfl

theorem status_cons (ev : Ev) (h : List Ev) (j : Nat) : status (ev :: h) j = evSt ev j (status h j) := rfl

theorem core_set {msgs : List Entry} {h : List Ev} (hc : Core msgs h) {e : Entry} (he : e ∈ msgs)
    {ev : Ev} (hs : Single ev e.id) {a : Nat} {loc : Loc}
    (hst : evSt ev e.id (status h e.id) = locSt loc) (ha : a = nDeliver (ev :: h) e.id) :
    Core (setE msgs e.id a loc) (ev :: h) := by
  refine ⟨by rw [map_id_setE]; exact hc.nodup, ?_, ?_⟩
  · intro e' he'
    obtain ⟨e0, he0, rfl⟩ := mem_setE.1 he'
    by_cases hid : e0.id = e.id
    · simp only [hid, ↓reduceIte, status_cons]
      exact ⟨hst, ha⟩
    · simp only [hid, ↓reduceIte, status_cons, (hs e0.id hid).1, (hs e0.id hid).2]
      exact hc.agree e0 he0
  · intro j hj
    by_cases hid : j = e.id
    · subst hid
      exact ⟨_, mem_setE.2 ⟨e, he, rfl⟩, by simp⟩
    · rw [status_cons, (hs j hid).1] at hj
      obtain ⟨e0, he0, rfl⟩ := hc.absent j hj
      exact ⟨_, mem_setE.2 ⟨e0, he0, rfl⟩, by simp [hid]⟩

theorem core_remove {msgs : List Entry} {h : List Ev} (hc : Core msgs h) {e : Entry} (_he : e ∈ msgs)
    {ev : Ev} (hs : Single ev e.id)
    (hst : (evSt ev e.id (status h e.id)).located = false) :
    Core (removeE msgs e.id) (ev :: h) := by
  refine ⟨nodup_removeE _ hc.nodup, ?_, ?_⟩
  · intro e' he'
    obtain ⟨he0, hid⟩ := mem_removeE.1 he'
    simp only [status_cons, (hs e'.id hid).1, (hs e'.id hid).2]
    exact hc.agree e' he0
  · intro j hj
    by_cases hid : j = e.id
    · subst hid
      rw [status_cons, hst] at hj
      cases hj
    · rw [status_cons, (hs j hid).1] at hj
      obtain ⟨e0, he0, rfl⟩ := hc.absent j hj
      exact ⟨e0, mem_removeE.2 ⟨he0, hid⟩, rfl⟩

theorem not_mem_of_status_none {msgs : List Entry} {h : List Ev} (hc : Core msgs h) {x : Nat}
    (hx : status h x = .none) : ∀ e ∈ msgs, e.id ≠ x := by
  intro e he hid
  have := (hc.agree e he).1
  rw [hid, hx] at this
  cases hl : e.loc <;> simp [hl, locSt] at this

theorem core_add {msgs : List Entry} {h : List Ev} (hc : Core msgs h) {x : Nat}
    (hx : status h x = .none) {ev : Ev} (hs : Single ev x) {a : Nat} {loc : Loc}
    (hst : evSt ev x .none = locSt loc) (ha : a = nDeliver (ev :: h) x) (env : Env) :
    Core ({ id := x, att := a, loc := loc, env := env } :: msgs) (ev :: h) := by
  have hfresh := not_mem_of_status_none hc hx
  refine ⟨?_, ?_, ?_⟩
  · simp only [List.map_cons, List.nodup_cons, List.mem_map, not_exists, not_and]
    exact ⟨fun e he hid => hfresh e he hid, hc.nodup⟩
  · intro e' he'
    simp only [List.mem_cons] at he'
    rcases he' with rfl | he'
    · simp only [status_cons, hx]
      exact ⟨hst, ha⟩
    · have hid := hfresh e' he'
      simp only [status_cons, (hs e'.id hid).1, (hs e'.id hid).2]
      exact hc.agree e' he'
  · intro j hj
    by_cases hid : j = x
    · exact ⟨_, List.mem_cons_self, hid.symm⟩
    · rw [status_cons, (hs j hid).1] at hj
      obtain ⟨e0, he0, rfl⟩ := hc.absent j hj
      exact ⟨e0, List.mem_cons_of_mem _ he0, rfl⟩

theorem core_neutral {msgs : List Entry} {h : List Ev} (hc : Core msgs h) {ev : Ev} (hn : Neutral ev) :
    Core msgs (ev :: h) := by
  refine ⟨hc.nodup, ?_, ?_⟩
  · intro e he
    simp only [status_cons, (hn e.id).1, (hn e.id).2]
    exact hc.agree e he
  · intro j hj
    rw [status_cons, (hn j).1] at hj
    exact hc.absent j hj

theorem core_empty {msgs : List Entry} {h : List Ev} (hc : Core msgs h) :
    Core [] (Ev.emptied (msgs.map (·.id)) :: h) := by
  refine ⟨by simp, by simp, ?_⟩
  intro j hj
  exfalso
  rw [status_cons] at hj
  by_cases hm : (msgs.map (·.id)).contains j = true
  · simp only [evSt, hm, ↓reduceIte] at hj
    cases hj
  · simp only [evSt, hm] at hj
    obtain ⟨e, he, hid⟩ := hc.absent j (by simpa using hj)
    apply hm
    simp only [List.contains_eq_mem, List.mem_map, decide_eq_true_eq]
    exact ⟨e, he, hid⟩

/-! ### single-id facts for each event kind (all by unfolding) -/

theorem single_fanout (x : Nat) (d : Bool) : Single (.fanout x d) x := by
  intro j hj; constructor <;> intros <;> simp [evSt, nDeliver, Ne.symm hj]
theorem single_deliver (k x a : Nat) : Single (.deliver k x a) x := by
  intro j hj; constructor <;> intros <;> simp [evSt, nDeliver, Ne.symm hj]
theorem single_finOk (k x : Nat) : Single (.finOk k x) x := by
  intro j hj; constructor <;> intros <;> simp [evSt, nDeliver, Ne.symm hj]
theorem single_reqOk (k x d : Nat) : Single (.reqOk k x d) x := by
  intro j hj; constructor <;> intros <;> simp [evSt, nDeliver, Ne.symm hj]
theorem single_touchOk (k x : Nat) : Single (.touchOk k x) x := by
  intro j hj; constructor <;> intros <;> simp [evSt, nDeliver]
theorem single_timeout (x k : Nat) : Single (.timeout x k) x := by
  intro j hj; constructor <;> intros <;> simp [evSt, nDeliver, Ne.symm hj]
theorem single_deferDue (x : Nat) : Single (.deferDue x) x := by
  intro j hj; constructor <;> intros <;> simp [evSt, nDeliver, Ne.symm hj]
theorem single_sampledOut (k x : Nat) : Single (.sampledOut k x) x := by
  intro j hj; constructor <;> intros <;> simp [evSt, nDeliver, Ne.symm hj]
theorem single_ephDrop (x : Nat) : Single (.ephDrop x) x := by
  intro j hj; constructor <;> intros <;> simp [evSt, nDeliver, Ne.symm hj]
theorem neutral_rdySet (k : Nat) (n : Int) : Neutral (.rdySet k n) := by
  intro j; constructor <;> intros <;> simp [evSt, nDeliver]
theorem neutral_closed (k : Nat) : Neutral (.closed k) := by
  intro j; constructor <;> intros <;> simp [evSt, nDeliver]
theorem neutral_joined (k : Nat) : Neutral (.joined k) := by
  intro j; constructor <;> intros <;> simp [evSt, nDeliver]
theorem neutral_pauseSet (p : Bool) : Neutral (.pauseSet p) := by
  intro j; constructor <;> intros <;> simp [evSt, nDeliver]
theorem neutral_guardOk (k : Nat) : Neutral (.guardOk k) := by
  intro j; constructor <;> intros <;> simp [evSt, nDeliver]


/-! ### clients -/

theorem mem_updC {l : List Client} {k : Nat} {f : Client → Client} {c' : Client} :
    c' ∈ updC l k f ↔ ∃ c ∈ l, (if c.conn = k then f c else c) = c' := by
  unfold updC; simp [List.mem_map]

theorem map_conn_updC (l : List Client) (k : Nat) (f : Client → Client) (hf : ∀ c, (f c).conn = c.conn) :
    (updC l k f).map (·.conn) = l.map (·.conn) := by
  unfold updC
  induction l with
  | nil => rfl
  | cons c l ih => simp only [List.map_cons, ih]; split <;> simp_all

theorem nodup_updC {l : List Client} {k : Nat} {f : Client → Client} (h : (l.map (·.conn)).Nodup)
    (hf : ∀ c, (f c).conn = c.conn) : ((updC l k f).map (·.conn)).Nodup := by
  rw [map_conn_updC _ _ _ hf]; exact h

theorem mem_removeC {l : List Client} {k : Nat} {c' : Client} : c' ∈ removeC l k ↔ c' ∈ l ∧ c'.conn ≠ k := by
  unfold removeC; simp [List.mem_filter]

theorem nodup_removeC {l : List Client} (k : Nat) (h : (l.map (·.conn)).Nodup) :
    ((removeC l k).map (·.conn)).Nodup := by
  unfold removeC
  induction l with
  | nil => simp
  | cons e l ih =>
    simp only [List.map_cons, List.nodup_cons] at h
    simp only [List.filter_cons]
    split
    · simp only [List.map_cons, List.nodup_cons]
      refine ⟨?_, ih h.2⟩
      intro hm
      apply h.1
      simp only [List.mem_map, List.mem_filter] at hm ⊢
      obtain ⟨a, ⟨ha, _⟩, hb⟩ := hm
      exact ⟨a, ha, hb⟩
    · exact ih h.2

theorem findC_some {l : List Client} {k : Nat} {c : Client} (h : findC l k = some c) : c ∈ l ∧ c.conn = k := by
  unfold findC at h
  have h1 := List.find?_some h
  have h2 := List.mem_of_find?_eq_some h
  simp_all

theorem findC_none {l : List Client} {k : Nat} (h : findC l k = none) : ∀ c ∈ l, c.conn ≠ k := by
  unfold findC at h
  simpa using h

theorem hasC_iff {l : List Client} {k : Nat} : hasC l k = true ↔ ∃ c ∈ l, c.conn = k := by
  unfold hasC; simp

/-- what the history says about one connection's counters -/
def ClOk (h : List Ev) (cl : Client) : Prop :=
  cl.msgCount = nDeliverBy h cl.conn ∧ cl.reqCount = nReqBy h cl.conn ∧ cl.rdy = rdyOf h cl.conn ∧
  cl.closing = closedOf h cl.conn ∧ 0 ≤ cl.rdy ∧ (cl.closing = true → cl.rdy = 0)

/-- an event that does not move any per-connection history function -/
def ClNeutral (ev : Ev) : Prop :=
  ∀ h k, nDeliverBy (ev :: h) k = nDeliverBy h k ∧ nReqBy (ev :: h) k = nReqBy h k ∧
    rdyOf (ev :: h) k = rdyOf h k ∧ closedOf (ev :: h) k = closedOf h k

theorem clOk_neutral {ev : Ev} (hn : ClNeutral ev) {h : List Ev} {cl : Client} (hc : ClOk h cl) :
    ClOk (ev :: h) cl := by
  obtain ⟨h1, h2, h3, h4⟩ := hn h cl.conn
  unfold ClOk
  rw [h1, h2, h3, h4]
  exact hc

theorem clNeutral_fanout (x : Nat) (d : Bool) : ClNeutral (.fanout x d) := by
  intro h k; simp [nDeliverBy, nReqBy, rdyOf, closedOf]
theorem clNeutral_finOk (k' x : Nat) : ClNeutral (.finOk k' x) := by
  intro h k; simp [nDeliverBy, nReqBy, rdyOf, closedOf]
theorem clNeutral_touchOk (k' x : Nat) : ClNeutral (.touchOk k' x) := by
  intro h k; simp [nDeliverBy, nReqBy, rdyOf, closedOf]
theorem clNeutral_timeout (x k' : Nat) : ClNeutral (.timeout x k') := by
  intro h k; simp [nDeliverBy, nReqBy, rdyOf, closedOf]
theorem clNeutral_deferDue (x : Nat) : ClNeutral (.deferDue x) := by
  intro h k; simp [nDeliverBy, nReqBy, rdyOf, closedOf]
theorem clNeutral_emptied (ids : List Nat) : ClNeutral (.emptied ids) := by
  intro h k; simp [nDeliverBy, nReqBy, rdyOf, closedOf]
theorem clNeutral_sampledOut (k' x : Nat) : ClNeutral (.sampledOut k' x) := by
  intro h k; simp [nDeliverBy, nReqBy, rdyOf, closedOf]
theorem clNeutral_ephDrop (x : Nat) : ClNeutral (.ephDrop x) := by
  intro h k; simp [nDeliverBy, nReqBy, rdyOf, closedOf]
theorem clNeutral_pauseSet (p : Bool) : ClNeutral (.pauseSet p) := by
  intro h k; simp [nDeliverBy, nReqBy, rdyOf, closedOf]
theorem clNeutral_guardOk (k' : Nat) : ClNeutral (.guardOk k') := by
  intro h k; simp [nDeliverBy, nReqBy, rdyOf, closedOf]

/-! ### the invariant -/

/-- The channel invariant. `d` is the number of queued messages not yet counted in
`memLen + dqLen` (1 in the middle of an operation that is about to call `Channel.put`). -/
structure Inv (d : Nat) (c : Chan) : Prop where
  core : Core c.msgs c.hist
  okh : okHist c.hist = true
  counts : c.memLen + c.dqLen + d = nQueued c.msgs
  memcap : c.memLen ≤ c.memCap
  eph : c.ephemeral = true → c.dqLen = 0
  mcF : c.messageCount = nEv isFanout c.hist
  mcL : c.messageCount = c.msgs.length + nGone c.hist
  rq : c.requeueCount = nEv isReq c.hist
  to : c.timeoutCount = nEv isTimeout c.hist
  held : ∀ k, outstanding c.hist k = (heldBy c.msgs k : Int)
  cnodup : (c.clients.map (·.conn)).Nodup
  paused : c.paused = pausedOf c.hist
  cl : ∀ cl ∈ c.clients, ClOk c.hist cl

theorem nGone_cons (ev : Ev) (h : List Ev) :
    nGone (ev :: h) = nGone h + (match ev with
      | .finOk .. => 1 | .emptied ids => ids.length | .sampledOut .. => 1 | .ephDrop .. => 1 | _ => 0) := by
  cases ev <;> simp [nGone, nEv, nEmptied, isFin, isSampled, isEphDrop, List.countP_cons] <;> omega

/-- `Channel.put` of an entry that is already tagged `queued` but not yet counted -/
theorem inv_enqueue {c : Chan} {x : Nat} (hi : Inv 1 c) {e : Entry} (he : e ∈ c.msgs) (hid : e.id = x)
    (hq : e.loc = .queued) : Inv 0 (enqueue c x) := by
  subst hid
  unfold enqueue
  by_cases h1 : c.memLen < c.memCap
  · rw [if_pos h1]
    exact { hi with counts := by have := hi.counts; simp only; omega, memcap := by simp only; omega }
  · rw [if_neg h1]
    by_cases h2 : c.ephemeral = true
    · rw [if_pos h2]
      have hst : status c.hist e.id = .queued := by rw [(hi.core.agree e he).1, hq]; rfl
      have hqe : isQueued e = true := by simp [isQueued, hq]
      refine { core := core_remove hi.core he (single_ephDrop _) (by simp [evSt, St.located]),
               okh := by simp [okHist, okEv, hst, hi.okh],
               counts := ?_, memcap := hi.memcap, eph := hi.eph,
               mcF := by simpa [nEv, isFanout] using hi.mcF,
               mcL := ?_, rq := by simpa [nEv, isReq] using hi.rq, to := by simpa [nEv, isTimeout] using hi.to,
               held := ?_, cnodup := hi.cnodup, paused := by simpa [pausedOf] using hi.paused,
               cl := fun cl hcl => clOk_neutral (clNeutral_ephDrop _) (hi.cl cl hcl) }
      · have := countP_removeE hi.core.nodup he isQueued
        have h3 := hi.counts
        simp only [nQueued, hqe, ↓reduceIte] at this h3 ⊢
        omega
      · have := length_removeE hi.core.nodup he
        have h3 := hi.mcL
        simp only [nGone_cons] at h3 ⊢
        omega
      · intro k
        have := countP_removeE hi.core.nodup he (heldByE k)
        have hk : heldByE k e = false := by simp [heldByE, hq]
        simp only [hk, Bool.false_eq_true, ↓reduceIte, Nat.add_zero] at this
        simp only [outstanding, heldBy, this]
        exact hi.held k
    · rw [if_neg h2]
      exact { hi with counts := by have := hi.counts; simp only; omega,
                      eph := by simp only; intro h'; exact absurd h' h2 }


theorem nFanout_cons (ev : Ev) (h : List Ev) (id : Nat) :
    nFanout (ev :: h) id = nFanout h id + (match ev with | .fanout i _ => if i = id then 1 else 0 | _ => 0) := by
  cases ev <;> simp [nFanout, List.countP_cons]

/-- an id that was never fanned out has no status -/
theorem status_none_of_nFanout_zero {h : List Ev} (hok : okHist h = true) {id : Nat}
    (hz : nFanout h id = 0) : status h id = .none := by
  induction h with
  | nil => rfl
  | cons ev h ih =>
    simp only [okHist, Bool.and_eq_true] at hok
    rw [nFanout_cons] at hz
    have ih' := ih hok.2 (by omega)
    rw [status_cons, ih']
    have hev := hok.1
    cases ev <;> simp only [evSt] <;> simp only [okEv, ih', beq_iff_eq, Bool.and_eq_true] at hev
    case fanout i d =>
      by_cases hi : i = id
      · simp [hi] at hz
      · simp [hi]
    case deliver k i a =>
      by_cases hi : i = id
      · subst hi; rw [ih'] at hev; simp at hev
      · simp [hi]
    case finOk k i =>
      by_cases hi : i = id
      · subst hi; rw [ih'] at hev; simp at hev
      · simp [hi]
    case reqOk k i d =>
      by_cases hi : i = id
      · subst hi; rw [ih'] at hev; simp at hev
      · simp [hi]
    case timeout i k =>
      by_cases hi : i = id
      · subst hi; rw [ih'] at hev; simp at hev
      · simp [hi]
    case deferDue i =>
      by_cases hi : i = id
      · subst hi; rw [ih'] at hev; simp at hev
      · simp [hi]
    case emptied ids =>
      by_cases hi : ids.contains id = true
      · simp only [List.all_eq_true] at hev
        have := hev id (by simpa using hi)
        rw [ih'] at this
        simp [St.located] at this
      · simp only [hi]; rfl
    case sampledOut k i =>
      by_cases hi : i = id
      · subst hi; rw [ih'] at hev; simp at hev
      · simp [hi]
    case ephDrop i =>
      by_cases hi : i = id
      · subst hi; rw [ih'] at hev; simp at hev
      · simp [hi]

theorem nDeliver_zero_of_status_none {h : List Ev} {id : Nat} (hs : status h id = .none) :
    nDeliver h id = 0 := by
  induction h with
  | nil => rfl
  | cons ev h ih =>
    rw [status_cons] at hs
    cases ev <;> simp only [evSt] at hs <;> simp only [nDeliver]
    all_goals (first | (split at hs <;> first | (cases hs; done) | (split at hs <;> cases hs) | (simp_all; done)) | exact ih hs)

theorem outstanding_fanout (x : Nat) (d : Bool) (h : List Ev) (k : Nat) :
    outstanding (.fanout x d :: h) k = outstanding h k := rfl

theorem inv_put (conf : Conf) {c : Chan} (hi : Inv 0 c) (id : Nat) (env : Env) : Inv 0 (step conf c (.put id env)).1 := by
  simp only [step]
  split
  · exact hi
  · rename_i hcond
    simp only [bne_iff_ne, ne_eq, Bool.or_eq_true, not_or, Decidable.not_not, Bool.not_eq_true] at hcond
    have hnone := status_none_of_nFanout_zero hi.okh hcond.1
    apply inv_enqueue (e := { id := id, att := 0, loc := .queued, env := env }) ?_ (by simp) rfl rfl
    have hz : nDeliver c.hist id = 0 := nDeliver_zero_of_status_none hnone
    exact {
      core := core_add hi.core hnone (single_fanout id false) (by simp [evSt, locSt]) (by simp [nDeliver, hz]) env
      okh := by simp [okHist, okEv, hnone, hi.okh]
      counts := by have := hi.counts; simp [nQueued, List.countP_cons, isQueued] at this ⊢; omega
      memcap := hi.memcap, eph := hi.eph
      mcF := by have := hi.mcF; simp [nEv, List.countP_cons, isFanout] at this ⊢; omega
      mcL := by have := hi.mcL; simp only [nGone_cons, List.length_cons] at this ⊢; omega
      rq := by simpa [nEv, isReq] using hi.rq
      to := by simpa [nEv, isTimeout] using hi.to
      held := by intro k; simpa [outstanding, heldBy, List.countP_cons, heldByE] using hi.held k
      cnodup := hi.cnodup
      paused := by simpa [pausedOf] using hi.paused
      cl := fun cl hcl => clOk_neutral (clNeutral_fanout _ _) (hi.cl cl hcl) }


theorem inv_putDeferred (conf : Conf) {c : Chan} (hi : Inv 0 c) (id : Nat) (pri : Int) (env : Env) :
    Inv 0 (step conf c (.putDeferred id pri env)).1 := by
  simp only [step]
  split
  · exact hi
  · rename_i hcond
    simp only [bne_iff_ne, ne_eq, Bool.or_eq_true, not_or, Decidable.not_not, Bool.not_eq_true] at hcond
    have hnone := status_none_of_nFanout_zero hi.okh hcond.1
    have hz : nDeliver c.hist id = 0 := nDeliver_zero_of_status_none hnone
    exact {
      core := core_add hi.core hnone (single_fanout id true) (by simp [evSt, locSt]) (by simp [nDeliver, hz]) env
      okh := by simp [okHist, okEv, hnone, hi.okh]
      counts := by have := hi.counts; simp [nQueued, List.countP_cons, isQueued] at this ⊢; omega
      memcap := hi.memcap, eph := hi.eph
      mcF := by have := hi.mcF; simp [nEv, List.countP_cons, isFanout] at this ⊢; omega
      mcL := by have := hi.mcL; simp only [nGone_cons, List.length_cons] at this ⊢; omega
      rq := by simpa [nEv, isReq] using hi.rq
      to := by simpa [nEv, isTimeout] using hi.to
      held := by intro k; simpa [outstanding, heldBy, List.countP_cons, heldByE] using hi.held k
      cnodup := hi.cnodup
      paused := by simpa [pausedOf] using hi.paused
      cl := fun cl hcl => clOk_neutral (clNeutral_fanout _ _) (hi.cl cl hcl) }

/-- a step that only changes fields the invariant does not mention, or only `clients` to a
sub-list -/
theorem inv_removeC {d : Nat} {c : Chan} (hi : Inv d c) (k : Nat) : Inv d { c with clients := removeC c.clients k } :=
  { hi with cnodup := nodup_removeC k hi.cnodup
            cl := fun cl hcl => hi.cl cl (mem_removeC.1 hcl).1 }

theorem inv_addClient (conf : Conf) {c : Chan} (hi : Inv 0 c) (k : Nat) (mt : Int) (sm : Nat) :
    Inv 0 (step conf c (.addClient k mt sm)).1 := by
  simp only [step]
  split
  · exact hi
  · rename_i hcond
    simp only [Bool.or_eq_true, not_or, Bool.not_eq_true] at hcond
    have hfresh : ∀ cl ∈ c.clients, cl.conn ≠ k := by
      have := hcond.1.1
      unfold hasC at this
      simpa using this
    exact {
      core := core_neutral hi.core (neutral_joined k)
      okh := by simp [okHist, okEv, hi.okh]
      counts := hi.counts, memcap := hi.memcap, eph := hi.eph
      mcF := by simpa [nEv, isFanout] using hi.mcF
      mcL := by have := hi.mcL; simp only [nGone_cons] at this ⊢; omega
      rq := by simpa [nEv, isReq] using hi.rq
      to := by simpa [nEv, isTimeout] using hi.to
      held := by intro k'; simpa [outstanding] using hi.held k'
      cnodup := by
        simp only [List.map_cons, List.nodup_cons, List.mem_map, not_exists, not_and]
        exact ⟨fun cl hcl h' => hfresh cl hcl h', hi.cnodup⟩
      paused := by simpa [pausedOf] using hi.paused
      cl := by
        intro cl hcl
        simp only [List.mem_cons] at hcl
        rcases hcl with rfl | hcl
        · simp [ClOk, nDeliverBy, nReqBy, rdyOf, closedOf]
        · have hne := hfresh cl hcl
          have := hi.cl cl hcl
          simp only [ClOk, nDeliverBy, nReqBy, rdyOf, closedOf, Ne.symm hne, ↓reduceIte] at this ⊢
          exact this }

theorem inv_removeClient (conf : Conf) {c : Chan} (hi : Inv 0 c) (k : Nat) :
    Inv 0 (step conf c (.removeClient k)).1 := by
  simp only [step]
  split
  · exact hi
  · exact inv_removeC hi k

theorem inv_pause (conf : Conf) {c : Chan} (hi : Inv 0 c) (p : Bool) :
    Inv 0 { c with paused := p, hist := Ev.pauseSet p :: c.hist } :=
  { core := core_neutral hi.core (neutral_pauseSet p)
    okh := by simp [okHist, okEv, hi.okh]
    counts := hi.counts, memcap := hi.memcap, eph := hi.eph
    mcF := by simpa [nEv, isFanout] using hi.mcF
    mcL := by have := hi.mcL; simp only [nGone_cons] at this ⊢; omega
    rq := by simpa [nEv, isReq] using hi.rq
    to := by simpa [nEv, isTimeout] using hi.to
    held := by intro k'; simpa [outstanding] using hi.held k'
    cnodup := hi.cnodup
    paused := by simp [pausedOf]
    cl := fun cl hcl => clOk_neutral (clNeutral_pauseSet _) (hi.cl cl hcl) }

theorem inv_resplit (conf : Conf) {c : Chan} (hi : Inv 0 c) (m d : Nat) :
    Inv 0 (step conf c (.resplit m d)).1 := by
  simp only [step]
  split
  · rename_i hcond
    simp only [Bool.and_eq_true, beq_iff_eq, decide_eq_true_eq, Bool.or_eq_true, Bool.not_eq_true'] at hcond
    exact { hi with counts := by have := hi.counts; simp only at this ⊢; omega
                    memcap := hcond.1.2
                    eph := by
                      intro he
                      rcases hcond.2 with h' | h'
                      · simp only at he; rw [he] at h'; cases h'
                      · exact h' }
  · exact hi

theorem inv_empty (conf : Conf) {c : Chan} (hi : Inv 0 c) : Inv 0 (step conf c .empty).1 := by
  simp only [step]
  exact {
    core := core_empty hi.core
    okh := by
      simp only [okHist, okEv, hi.okh, Bool.and_true, List.all_eq_true, List.mem_map, forall_exists_index, and_imp,
        forall_apply_eq_imp_iff₂]
      intro e he
      rw [(hi.core.agree e he).1]
      exact locSt_located _
    counts := by simp [nQueued]
    memcap := by simp
    eph := by simp
    mcF := by simpa [nEv, isFanout] using hi.mcF
    mcL := by have := hi.mcL; simp only [nGone_cons, List.length_map, List.length_nil] at this ⊢; omega
    rq := by simpa [nEv, isReq] using hi.rq
    to := by simpa [nEv, isTimeout] using hi.to
    held := by intro k; simp [outstanding, heldBy]
    cnodup := by simpa [List.map_map, Function.comp_def] using hi.cnodup
    paused := by simpa [pausedOf] using hi.paused
    cl := by
      intro cl hcl
      simp only [List.mem_map] at hcl
      obtain ⟨cl0, hcl0, rfl⟩ := hcl
      exact clOk_neutral (clNeutral_emptied _) (hi.cl cl0 hcl0) }


theorem eq_of_conn_eq {l : List Client} (h : (l.map (·.conn)).Nodup) {c1 c2 : Client}
    (h1 : c1 ∈ l) (h2 : c2 ∈ l) (hid : c1.conn = c2.conn) : c1 = c2 := by
  induction l with
  | nil => cases h1
  | cons e l ih =>
    simp only [List.map_cons, List.nodup_cons, List.mem_map, not_exists, not_and] at h
    simp only [List.mem_cons] at h1 h2
    rcases h1 with rfl | h1 <;> rcases h2 with rfl | h2
    · rfl
    · exact absurd hid.symm (h.1 c2 h2)
    · exact absurd hid (h.1 c1 h1)
    · exact ih h.2 h1 h2

theorem inv_rdy (conf : Conf) {c : Chan} (hi : Inv 0 c) (k : Nat) (n : Int) :
    Inv 0 (step conf c (.rdy k n)).1 := by
  simp only [step]
  split
  · exact hi
  · rename_i cl hf
    obtain ⟨hmem, hconn⟩ := findC_some hf
    split
    · exact hi
    · rename_i hclosing
      split
      · exact inv_removeC hi k
      · rename_i hrange
        simp only [Bool.or_eq_true, decide_eq_true_eq, not_or, Int.not_lt, Int.not_lt] at hrange
        exact {
          core := core_neutral hi.core (neutral_rdySet k n)
          okh := by simp [okHist, okEv, hi.okh]
          counts := hi.counts, memcap := hi.memcap, eph := hi.eph
          mcF := by simpa [nEv, isFanout] using hi.mcF
          mcL := by have := hi.mcL; simp only [nGone_cons] at this ⊢; omega
          rq := by simpa [nEv, isReq] using hi.rq
          to := by simpa [nEv, isTimeout] using hi.to
          held := by intro k'; simpa [outstanding] using hi.held k'
          cnodup := nodup_updC hi.cnodup (fun _ => rfl)
          paused := by simpa [pausedOf] using hi.paused
          cl := by
            intro cl' hcl'
            obtain ⟨cl0, hcl0, rfl⟩ := mem_updC.1 hcl'
            have h0 := hi.cl cl0 hcl0
            by_cases hk : cl0.conn = k
            · have : cl0 = cl := eq_of_conn_eq hi.cnodup hcl0 hmem (hk.trans hconn.symm)
              subst this
              simp only [hk, ↓reduceIte]
              simp only [ClOk, nDeliverBy, nReqBy, rdyOf, closedOf, hk, ↓reduceIte] at h0 ⊢
              refine ⟨h0.1, h0.2.1, trivial, h0.2.2.2.1, hrange.1, ?_⟩
              intro hc; exact absurd hc hclosing
            · simp only [hk, ↓reduceIte]
              simp only [ClOk, nDeliverBy, nReqBy, rdyOf, closedOf, Ne.symm hk, ↓reduceIte] at h0 ⊢
              exact h0 }

theorem inv_cls (conf : Conf) {c : Chan} (hi : Inv 0 c) (k : Nat) :
    Inv 0 (step conf c (.cls k)).1 := by
  simp only [step]
  split
  · exact hi
  · rename_i cl hf
    obtain ⟨hmem, hconn⟩ := findC_some hf
    split
    · exact inv_removeC hi k
    · exact {
          core := core_neutral hi.core (neutral_closed k)
          okh := by simp [okHist, okEv, hi.okh]
          counts := hi.counts, memcap := hi.memcap, eph := hi.eph
          mcF := by simpa [nEv, isFanout] using hi.mcF
          mcL := by have := hi.mcL; simp only [nGone_cons] at this ⊢; omega
          rq := by simpa [nEv, isReq] using hi.rq
          to := by simpa [nEv, isTimeout] using hi.to
          held := by intro k'; simpa [outstanding] using hi.held k'
          cnodup := nodup_updC hi.cnodup (fun _ => rfl)
          paused := by simpa [pausedOf] using hi.paused
          cl := by
            intro cl' hcl'
            obtain ⟨cl0, hcl0, rfl⟩ := mem_updC.1 hcl'
            have h0 := hi.cl cl0 hcl0
            by_cases hk : cl0.conn = k
            · simp only [hk, ↓reduceIte]
              simp only [ClOk, nDeliverBy, nReqBy, rdyOf, closedOf, hk, ↓reduceIte] at h0 ⊢
              exact ⟨h0.1, h0.2.1, trivial, trivial, Int.le_refl 0, fun _ => trivial⟩
            · simp only [hk, ↓reduceIte]
              simp only [ClOk, nDeliverBy, nReqBy, rdyOf, closedOf, Ne.symm hk, ↓reduceIte] at h0 ⊢
              exact h0 }


theorem heldBy_setE {l : List Entry} (hn : (l.map (·.id)).Nodup) {e : Entry} (he : e ∈ l) (a : Nat) (loc : Loc) (k : Nat) :
    (heldBy (setE l e.id a loc) k : Int) + (if heldByE k e then 1 else 0)
      = heldBy l k + (if heldByE k { e with att := a, loc := loc } then 1 else 0) := by
  have := countP_setE hn he a loc (heldByE k)
  unfold heldBy
  split <;> split <;> simp_all <;> omega

theorem heldBy_removeE {l : List Entry} (hn : (l.map (·.id)).Nodup) {e : Entry} (he : e ∈ l) (k : Nat) :
    (heldBy (removeE l e.id) k : Int) + (if heldByE k e then 1 else 0) = heldBy l k := by
  have := countP_removeE hn he (heldByE k)
  unfold heldBy
  split <;> simp_all <;> omega

theorem nQueued_setE {l : List Entry} (hn : (l.map (·.id)).Nodup) {e : Entry} (he : e ∈ l) (a : Nat) (loc : Loc) :
    nQueued (setE l e.id a loc) + (if isQueued e then 1 else 0)
      = nQueued l + (if isQueued { e with att := a, loc := loc } then 1 else 0) :=
  countP_setE hn he a loc isQueued

theorem inv_doDeliver {c : Chan} (hi : Inv 0 c) (cl : Client) (k id : Nat) (now : Int) :
    Inv 0 (doDeliver c cl k id now).1 := by
  unfold doDeliver
  have hdummy : True := trivial
  · have hdummy2 : True := trivial
    · have hdummy3 : True := trivial
      split
      · exact hi
      · rename_i e hfe
        obtain ⟨he, hid⟩ := findE_some hfe
        subst hid
        split
        · exact hi
        · rename_i hq
          have hq' : e.loc = .queued := by
            cases hl : e.loc <;> simp [isQueued, hl] at hq ⊢
          have hst : status c.hist e.id = .queued := by rw [(hi.core.agree e he).1, hq']; rfl
          have hatt := (hi.core.agree e he).2
          have hnq := nQueued_setE hi.core.nodup he (e.att + 1) (.inflight k (now + cl.msgTimeout) now)
          have hcnt := hi.counts
          have hmc := hi.memcap
          simp [isQueued, hq'] at hnq
          exact {
            core := core_set hi.core he (single_deliver k e.id (e.att + 1)) (by simp [evSt, locSt])
              (by simp [nDeliver, hatt])
            okh := by simp [okHist, okEv, hst, hi.okh, hatt]
            counts := by simp only; split <;> omega
            memcap := by simp only; split <;> omega
            eph := by
              intro h'
              have := hi.eph h'
              simp only; split <;> omega
            mcF := by simpa [nEv, isFanout] using hi.mcF
            mcL := by have := hi.mcL; simp only [nGone_cons, length_setE] at this ⊢; omega
            rq := by simpa [nEv, isReq] using hi.rq
            to := by simpa [nEv, isTimeout] using hi.to
            held := by
              intro k'
              have h1 := heldBy_setE hi.core.nodup he (e.att + 1) (.inflight k (now + cl.msgTimeout) now) k'
              have h2 := hi.held k'
              simp only [heldByE, hq', beq_iff_eq] at h1
              simp only [outstanding]
              split at h1 <;> simp_all <;> omega
            cnodup := nodup_updC hi.cnodup (fun _ => rfl)
            paused := by simpa [pausedOf] using hi.paused
            cl := by
              intro cl' hcl'
              obtain ⟨cl0, hcl0, rfl⟩ := mem_updC.1 hcl'
              have h0 := hi.cl cl0 hcl0
              by_cases hk : cl0.conn = k
              · simp only [hk, ↓reduceIte]
                simp only [ClOk, nDeliverBy, nReqBy, rdyOf, closedOf, hk, ↓reduceIte] at h0 ⊢
                exact ⟨by omega, h0.2.1, h0.2.2.1, h0.2.2.2.1, h0.2.2.2.2.1, h0.2.2.2.2.2⟩
              · simp only [hk, ↓reduceIte]
                simp only [ClOk, nDeliverBy, nReqBy, rdyOf, closedOf, Ne.symm hk, ↓reduceIte, Nat.add_zero] at h0 ⊢
                exact h0 }

theorem inv_deliver (conf : Conf) {c : Chan} (hi : Inv 0 c) (k id : Nat) (now : Int) :
    Inv 0 (step conf c (.deliver k id now)).1 := by
  simp only [step]
  split
  · exact hi
  · split
    · exact hi
    · exact inv_doDeliver hi _ k id now

theorem inv_deliverArmed (conf : Conf) {c : Chan} (hi : Inv 0 c) (k id : Nat) (now : Int) :
    Inv 0 (step conf c (.deliverArmed k id now)).1 := by
  simp only [step]
  split
  · exact hi
  · split
    · exact hi
    · exact inv_doDeliver hi _ k id now

theorem inv_sampleDrop (conf : Conf) {c : Chan} (hi : Inv 0 c) (k id : Nat) :
    Inv 0 (step conf c (.sampleDrop k id)).1 := by
  simp only [step]
  split
  · exact hi
  · split
    · exact hi
    · split
      · exact hi
      · split
        · exact hi
        · rename_i e hfe
          obtain ⟨he, hid⟩ := findE_some hfe
          subst hid
          split
          · exact hi
          · rename_i hq
            have hq' : e.loc = .queued := by
              cases hl : e.loc <;> simp [isQueued, hl] at hq ⊢
            have hst : status c.hist e.id = .queued := by rw [(hi.core.agree e he).1, hq']; rfl
            have hnq := countP_removeE hi.core.nodup he isQueued
            have hcnt := hi.counts
            have hmc := hi.memcap
            simp [isQueued, hq'] at hnq
            simp only [nQueued] at hcnt
            exact {
              core := core_remove hi.core he (single_sampledOut k e.id) (by simp [evSt, St.located])
              okh := by simp [okHist, okEv, hst, hi.okh]
              counts := by simp only [nQueued] at hcnt ⊢; split <;> omega
              memcap := by simp only; split <;> omega
              eph := by
                intro h'
                have := hi.eph h'
                simp only [nQueued] at hcnt ⊢; split <;> omega
              mcF := by simpa [nEv, isFanout] using hi.mcF
              mcL := by
                have := hi.mcL
                have hl := length_removeE hi.core.nodup he
                simp only [nGone_cons] at this ⊢; omega
              rq := by simpa [nEv, isReq] using hi.rq
              to := by simpa [nEv, isTimeout] using hi.to
              held := by
                intro k'
                have h1 := heldBy_removeE hi.core.nodup he k'
                have h2 := hi.held k'
                simp only [heldByE, hq'] at h1
                simp only [outstanding]
                simp_all
              cnodup := hi.cnodup
              paused := by simpa [pausedOf] using hi.paused
              cl := fun cl hcl => clOk_neutral (clNeutral_sampledOut _ _) (hi.cl cl hcl) }


theorem inflight_status {c : Chan} {d : Nat} (hi : Inv d c) {e : Entry} (he : e ∈ c.msgs) {k : Nat} {p dts : Int}
    (hl : e.loc = .inflight k p dts) : status c.hist e.id = .held k := by
  rw [(hi.core.agree e he).1, hl]; rfl

/-- `Channel.FinishMessage` (the channel half of FIN) -/
theorem inv_finChanPart {c c' : Chan} (hi : Inv 0 c) {k id : Nat} (h : finChanPart c k id = some c') : Inv 0 c' := by
  unfold finChanPart at h
  split at h
  · rename_i e hfe
    obtain ⟨he, hid⟩ := findE_some hfe
    subst hid
    split at h
    · rename_i k' p dts hl
      split at h
      · rename_i hk
        subst hk
        cases h
        have hst := inflight_status hi he hl
        have hnq := countP_removeE hi.core.nodup he isQueued
        have hcnt := hi.counts
        simp [isQueued, hl] at hnq
        simp only [nQueued] at hcnt
        exact {
          core := core_remove hi.core he (single_finOk k' e.id) (by simp [evSt, St.located])
          okh := by simp [okHist, okEv, hst, hi.okh]
          counts := by simp only [nQueued]; omega
          memcap := hi.memcap, eph := hi.eph
          mcF := by simpa [nEv, isFanout] using hi.mcF
          mcL := by
            have := hi.mcL
            have hl := length_removeE hi.core.nodup he
            simp only [nGone_cons] at this ⊢; omega
          rq := by simpa [nEv, isReq] using hi.rq
          to := by simpa [nEv, isTimeout] using hi.to
          held := by
            intro k''
            have h1 := heldBy_removeE hi.core.nodup he k''
            have h2 := hi.held k''
            simp only [heldByE, hl, beq_iff_eq] at h1
            simp only [outstanding]
            split at h1 <;> simp_all <;> omega
          cnodup := hi.cnodup
          paused := by simpa [pausedOf] using hi.paused
          cl := fun cl hcl => clOk_neutral (clNeutral_finOk _ _) (hi.cl cl hcl) }
      · cases h
    · cases h
  · cases h

/-- a change of client fields the invariant does not mention -/
theorem inv_updC_free {d : Nat} {c : Chan} (hi : Inv d c) (k : Nat) (f : Client → Client)
    (hf : ∀ cl, (f cl).conn = cl.conn ∧ (f cl).msgCount = cl.msgCount ∧ (f cl).reqCount = cl.reqCount ∧
      (f cl).rdy = cl.rdy ∧ (f cl).closing = cl.closing) :
    Inv d { c with clients := updC c.clients k f } :=
  { hi with
    cnodup := nodup_updC hi.cnodup (fun cl => (hf cl).1)
    cl := by
      intro cl' hcl'
      obtain ⟨cl0, hcl0, rfl⟩ := mem_updC.1 hcl'
      have h0 := hi.cl cl0 hcl0
      split
      · obtain ⟨h1, h2, h3, h4, h5⟩ := hf cl0
        simp only [ClOk, h1, h2, h3, h4, h5] at h0 ⊢
        exact h0
      · exact h0 }

theorem inv_finClientPart {d : Nat} {c : Chan} (hi : Inv d c) (k : Nat) : Inv d (finClientPart c k) :=
  inv_updC_free hi k _ (fun _ => ⟨rfl, rfl, rfl, rfl, rfl⟩)

theorem inv_fin (conf : Conf) {c : Chan} (hi : Inv 0 c) (k id : Nat) : Inv 0 (step conf c (.fin k id)).1 := by
  simp only [step]
  split
  · exact hi
  · split
    · exact hi
    · rename_i c' h
      exact inv_finClientPart (inv_finChanPart hi h) k

theorem inv_finChan (conf : Conf) {c : Chan} (hi : Inv 0 c) (k id : Nat) : Inv 0 (step conf c (.finChan k id)).1 := by
  simp only [step]
  split
  · exact hi
  · split
    · exact hi
    · rename_i c' h
      exact { inv_finChanPart hi h with }

theorem inv_finClient (conf : Conf) {c : Chan} (hi : Inv 0 c) (k : Nat) : Inv 0 (step conf c (.finClient k)).1 := by
  simp only [step]
  split
  · exact hi
  · exact inv_finClientPart (c := { c with pendingFin := c.pendingFin.erase k }) { hi with } k

theorem inv_touch (conf : Conf) {c : Chan} (hi : Inv 0 c) (k id : Nat) (now : Int) :
    Inv 0 (step conf c (.touch k id now)).1 := by
  simp only [step]
  split
  · exact hi
  · rename_i cl hf
    split
    · exact hi
    · rename_i e hfe
      obtain ⟨he, hid⟩ := findE_some hfe
      subst hid
      split
      · rename_i k' p dts hl
        split
        · exact hi
        · rename_i hk
          simp only [ne_eq, Decidable.not_not] at hk
          subst hk
          have hst := inflight_status hi he hl
          have hatt := (hi.core.agree e he).2
          have hnq := nQueued_setE hi.core.nodup he e.att (.inflight k' (touchPri conf now cl.msgTimeout dts) dts)
          have hcnt := hi.counts
          simp [isQueued, hl] at hnq
          exact {
            core := core_set hi.core he (single_touchOk k' e.id) (by simp [evSt, hst, locSt]) (by simp [nDeliver, hatt])
            okh := by simp [okHist, okEv, hst, hi.okh]
            counts := by simp only; omega
            memcap := hi.memcap, eph := hi.eph
            mcF := by simpa [nEv, isFanout] using hi.mcF
            mcL := by have := hi.mcL; simp only [nGone_cons, length_setE] at this ⊢; omega
            rq := by simpa [nEv, isReq] using hi.rq
            to := by simpa [nEv, isTimeout] using hi.to
            held := by
              intro k''
              have h1 := heldBy_setE hi.core.nodup he e.att (.inflight k' (touchPri conf now cl.msgTimeout dts) dts) k''
              have h2 := hi.held k''
              simp only [heldByE, hl, beq_iff_eq] at h1
              simp only [outstanding]
              split at h1 <;> simp_all <;> omega
            cnodup := hi.cnodup
            paused := by simpa [pausedOf] using hi.paused
            cl := fun cl hcl => clOk_neutral (clNeutral_touchOk _ _) (hi.cl cl hcl) }
      · exact hi


theorem inv_req (conf : Conf) {c : Chan} (hi : Inv 0 c) (k id delay : Nat) (now : Int) :
    Inv 0 (step conf c (.req k id delay now)).1 := by
  simp only [step]
  split
  · exact hi
  · split
    · exact hi
    · rename_i e hfe
      obtain ⟨he, hid⟩ := findE_some hfe
      subst hid
      split
      · rename_i k' p dts hl
        split
        · exact hi
        · rename_i hk
          simp only [ne_eq, Decidable.not_not] at hk
          subst hk
          have hst := inflight_status hi he hl
          have hatt := (hi.core.agree e he).2
          have hcnt := hi.counts
          have clpart : ∀ cl' ∈ updC c.clients k' (fun cl => { cl with reqCount := cl.reqCount + 1, inFlight := cl.inFlight - 1 }),
              ClOk (Ev.reqOk k' e.id delay :: c.hist) cl' := by
            intro cl' hcl'
            obtain ⟨cl0, hcl0, rfl⟩ := mem_updC.1 hcl'
            have h0 := hi.cl cl0 hcl0
            by_cases hk : cl0.conn = k'
            · simp only [hk, ↓reduceIte]
              simp only [ClOk, nDeliverBy, nReqBy, rdyOf, closedOf, hk, ↓reduceIte] at h0 ⊢
              exact ⟨h0.1, by omega, h0.2.2.1, h0.2.2.2.1, h0.2.2.2.2.1, h0.2.2.2.2.2⟩
            · simp only [hk, ↓reduceIte]
              simp only [ClOk, nDeliverBy, nReqBy, rdyOf, closedOf, Ne.symm hk, ↓reduceIte, Nat.add_zero] at h0 ⊢
              exact h0
          split
          · rename_i hd
            subst hd
            have hnq := nQueued_setE hi.core.nodup he e.att .queued
            simp [isQueued, hl] at hnq
            have hmem : ({ e with att := e.att, loc := Loc.queued } : Entry) ∈ setE c.msgs e.id e.att .queued :=
              mem_setE.2 ⟨e, he, by simp⟩
            refine inv_enqueue (e := { e with att := e.att, loc := Loc.queued }) ?_ hmem rfl rfl
            exact {
              core := core_set hi.core he (single_reqOk k' e.id 0) (by simp [evSt, locSt]) (by simp [nDeliver, hatt])
              okh := by simp [okHist, okEv, hst, hi.okh]
              counts := by simp only; omega
              memcap := hi.memcap, eph := hi.eph
              mcF := by simpa [nEv, isFanout] using hi.mcF
              mcL := by have := hi.mcL; simp only [nGone_cons, length_setE] at this ⊢; omega
              rq := by have := hi.rq; simp [nEv, isReq, List.countP_cons] at this ⊢; omega
              to := by simpa [nEv, isTimeout] using hi.to
              held := by
                intro k''
                have h1 := heldBy_setE hi.core.nodup he e.att .queued k''
                have h2 := hi.held k''
                simp only [heldByE, hl, beq_iff_eq] at h1
                simp only [outstanding]
                split at h1 <;> simp_all <;> omega
              cnodup := nodup_updC hi.cnodup (fun _ => rfl)
              paused := by simpa [pausedOf] using hi.paused
              cl := clpart }
          · rename_i hd
            have hnq := nQueued_setE hi.core.nodup he e.att (.deferred (now + (delay : Int) * 1000000))
            simp [isQueued, hl] at hnq
            exact {
              core := core_set hi.core he (single_reqOk k' e.id delay) (by simp [evSt, locSt, hd]) (by simp [nDeliver, hatt])
              okh := by simp [okHist, okEv, hst, hi.okh]
              counts := by simp only; omega
              memcap := hi.memcap, eph := hi.eph
              mcF := by simpa [nEv, isFanout] using hi.mcF
              mcL := by have := hi.mcL; simp only [nGone_cons, length_setE] at this ⊢; omega
              rq := by have := hi.rq; simp [nEv, isReq, List.countP_cons] at this ⊢; omega
              to := by simpa [nEv, isTimeout] using hi.to
              held := by
                intro k''
                have h1 := heldBy_setE hi.core.nodup he e.att (.deferred (now + (delay : Int) * 1000000)) k''
                have h2 := hi.held k''
                simp only [heldByE, hl, beq_iff_eq] at h1
                simp only [outstanding]
                split at h1 <;> simp_all <;> omega
              cnodup := nodup_updC hi.cnodup (fun _ => rfl)
              paused := by simpa [pausedOf] using hi.paused
              cl := clpart }
      · exact hi

theorem inv_timeoutOne {c : Chan} (hi : Inv 0 c) (id : Nat) : Inv 0 (timeoutOne c id) := by
  unfold timeoutOne
  split
  · rename_i e hfe
    obtain ⟨he, hid⟩ := findE_some hfe
    subst hid
    split
    · rename_i k p dts hl
      have hst := inflight_status hi he hl
      have hatt := (hi.core.agree e he).2
      have hcnt := hi.counts
      have hnq := nQueued_setE hi.core.nodup he e.att .queued
      simp [isQueued, hl] at hnq
      have hmem : ({ e with att := e.att, loc := Loc.queued } : Entry) ∈ setE c.msgs e.id e.att .queued :=
        mem_setE.2 ⟨e, he, by simp⟩
      refine inv_enqueue (e := { e with att := e.att, loc := Loc.queued }) ?_ hmem rfl rfl
      exact {
        core := core_set hi.core he (single_timeout e.id k) (by simp [evSt, locSt]) (by simp [nDeliver, hatt])
        okh := by simp [okHist, okEv, hst, hi.okh]
        counts := by simp only; omega
        memcap := hi.memcap, eph := hi.eph
        mcF := by simpa [nEv, isFanout] using hi.mcF
        mcL := by have := hi.mcL; simp only [nGone_cons, length_setE] at this ⊢; omega
        rq := by simpa [nEv, isReq] using hi.rq
        to := by have := hi.to; simp [nEv, isTimeout, List.countP_cons] at this ⊢; omega
        held := by
          intro k''
          have h1 := heldBy_setE hi.core.nodup he e.att .queued k''
          have h2 := hi.held k''
          simp only [heldByE, hl, beq_iff_eq] at h1
          simp only [outstanding]
          split at h1 <;> simp_all <;> omega
        cnodup := nodup_updC hi.cnodup (fun _ => rfl)
        paused := by simpa [pausedOf] using hi.paused
        cl := by
          intro cl' hcl'
          obtain ⟨cl0, hcl0, rfl⟩ := mem_updC.1 hcl'
          have h0 := clOk_neutral (clNeutral_timeout e.id k) (hi.cl cl0 hcl0)
          split
          · simpa [ClOk, decIn] using h0
          · exact h0 }
    · exact hi
  · exact hi

theorem inv_deferDueOne {c : Chan} (hi : Inv 0 c) (id : Nat) : Inv 0 (deferDueOne c id) := by
  unfold deferDueOne
  split
  · rename_i e hfe
    obtain ⟨he, hid⟩ := findE_some hfe
    subst hid
    split
    · rename_i p hl
      have hst : status c.hist e.id = .deferred := by rw [(hi.core.agree e he).1, hl]; rfl
      have hatt := (hi.core.agree e he).2
      have hcnt := hi.counts
      have hnq := nQueued_setE hi.core.nodup he e.att .queued
      simp [isQueued, hl] at hnq
      have hmem : ({ e with att := e.att, loc := Loc.queued } : Entry) ∈ setE c.msgs e.id e.att .queued :=
        mem_setE.2 ⟨e, he, by simp⟩
      refine inv_enqueue (e := { e with att := e.att, loc := Loc.queued }) ?_ hmem rfl rfl
      exact {
        core := core_set hi.core he (single_deferDue e.id) (by simp [evSt, locSt]) (by simp [nDeliver, hatt])
        okh := by simp [okHist, okEv, hst, hi.okh]
        counts := by simp only; omega
        memcap := hi.memcap, eph := hi.eph
        mcF := by simpa [nEv, isFanout] using hi.mcF
        mcL := by have := hi.mcL; simp only [nGone_cons, length_setE] at this ⊢; omega
        rq := by simpa [nEv, isReq] using hi.rq
        to := by simpa [nEv, isTimeout] using hi.to
        held := by
          intro k''
          have h1 := heldBy_setE hi.core.nodup he e.att .queued k''
          have h2 := hi.held k''
          simp only [heldByE, hl] at h1
          simp only [outstanding]
          simp_all
        cnodup := hi.cnodup
        paused := by simpa [pausedOf] using hi.paused
        cl := fun cl hcl => clOk_neutral (clNeutral_deferDue _) (hi.cl cl hcl) }
    · exact hi
  · exact hi

theorem inv_guard (conf : Conf) {c : Chan} (hi : Inv 0 c) (k : Nat) : Inv 0 (step conf c (.guard k)).1 := by
  simp only [step]
  split
  · exact hi
  · split
    · have h1 : Inv 0 { c with hist := Ev.guardOk k :: c.hist } :=
        { core := core_neutral hi.core (neutral_guardOk k)
          okh := by simp [okHist, okEv, hi.okh]
          counts := hi.counts, memcap := hi.memcap, eph := hi.eph
          mcF := by simpa [nEv, isFanout] using hi.mcF
          mcL := by have := hi.mcL; simp only [nGone_cons] at this ⊢; omega
          rq := by simpa [nEv, isReq] using hi.rq
          to := by simpa [nEv, isTimeout] using hi.to
          held := by intro k'; simpa [outstanding] using hi.held k'
          cnodup := hi.cnodup
          paused := by simpa [pausedOf] using hi.paused
          cl := fun cl hcl => clOk_neutral (clNeutral_guardOk _) (hi.cl cl hcl) }
      exact inv_updC_free h1 k _ (fun _ => ⟨rfl, rfl, rfl, rfl, rfl⟩)
    · exact inv_updC_free hi k _ (fun _ => ⟨rfl, rfl, rfl, rfl, rfl⟩)

theorem inv_foldl {f : Chan → Nat → Chan} (hf : ∀ c id, Inv 0 c → Inv 0 (f c id)) (l : List Nat) {c : Chan}
    (hi : Inv 0 c) : Inv 0 (l.foldl f c) := by
  induction l generalizing c with
  | nil => exact hi
  | cons x l ih => exact ih (hf c x hi)

/-- **the one-step preservation lemma**: every operation (micro-steps included) preserves `Inv` -/
theorem step_inv (conf : Conf) {c : Chan} (hi : Inv 0 c) (op : Op) : Inv 0 (step conf c op).1 := by
  cases op with
  | put id env => exact inv_put conf hi id env
  | putDeferred id pri env => exact inv_putDeferred conf hi id pri env
  | addClient k mt sm => exact inv_addClient conf hi k mt sm
  | removeClient k => exact inv_removeClient conf hi k
  | rdy k n => exact inv_rdy conf hi k n
  | cls k => exact inv_cls conf hi k
  | deliver k id now => exact inv_deliver conf hi k id now
  | sampleDrop k id => exact inv_sampleDrop conf hi k id
  | fin k id => exact inv_fin conf hi k id
  | req k id d now => exact inv_req conf hi k id d now
  | touch k id now => exact inv_touch conf hi k id now
  | scanInFlight t => exact inv_foldl (fun c id h => inv_timeoutOne h id) _ hi
  | scanDeferred t => exact inv_foldl (fun c id h => inv_deferDueOne h id) _ hi
  | pause => exact inv_pause conf hi true
  | unpause => exact inv_pause conf hi false
  | empty => exact inv_empty conf hi
  | resplit m d => exact inv_resplit conf hi m d
  | finChan k id => exact inv_finChan conf hi k id
  | finClient k => exact inv_finClient conf hi k
  | guard k => exact inv_guard conf hi k
  | deliverArmed k id now => exact inv_deliverArmed conf hi k id now

theorem inv_init (eph : Bool) (cap : Nat) : Inv 0 { ephemeral := eph, memCap := cap } :=
  { core := ⟨by simp, by simp, by intro j hj; simp [status, St.located] at hj⟩
    okh := rfl, counts := rfl, memcap := Nat.zero_le _, eph := fun _ => rfl
    mcF := rfl, mcL := rfl, rq := rfl, to := rfl
    held := fun _ => rfl, cnodup := by simp, paused := rfl, cl := by simp }

theorem run_inv (conf : Conf) (ops : List Op) {c : Chan} (hi : Inv 0 c) : Inv 0 (run conf c ops) := by
  induction ops generalizing c with
  | nil => exact hi
  | cons op ops ih => exact ih (step_inv conf hi op)

end Nsq.Proofs.Chan
