import Nsq.Model.PubCounts
/-! Helper lemmas for `Nsq.Props.C13Pub` (producer `pub_counts` in `/stats`, audit B26). -/
namespace Nsq.Proofs.PubCounts
open Nsq.Model.PubCounts

/-! ### the loop -/

/-- F49 shape, no filter: the loop copies the whole map, in iteration order. -/
theorem unfiltered_fixed (m : List (String × Nat)) : pubCountsOf true m "" = m := by
  induction m with
  | nil => simp [pubCountsOf]
  | cons e rest ih => obtain ⟨t, c⟩ := e; simp [pubCountsOf, ih]

/-- shape with the unconditional `break`, no filter: the first key of the iteration order, nothing else. -/
theorem unfiltered_break (m : List (String × Nat)) : pubCountsOf false m "" = m.take 1 := by
  cases m with
  | nil => simp [pubCountsOf]
  | cons e rest => obtain ⟨t, c⟩ := e; simp [pubCountsOf]

/-- with a filter both shapes stop at the first matching key. -/
theorem filtered_lookup (fixed : Bool) (m : List (String × Nat)) (t : String) (ht : t ≠ "") :
    pubCountsOf fixed m t = match m.lookup t with | some c => [(t, c)] | none => [] := by
  induction m with
  | nil => simp [pubCountsOf]
  | cons e rest ih =>
    obtain ⟨k, c⟩ := e
    by_cases hk : k = t
    · subst hk
      cases fixed <;> simp [pubCountsOf, ht, List.lookup]
    · have hk' : (t == k) = false := by simpa using fun h => hk h.symm
      simp [pubCountsOf, ht, hk, ih, List.lookup, hk']

/-! ### the map -/

theorem keys_cons (e : String × Nat) (m : List (String × Nat)) : keys (e :: m) = e.1 :: keys m := rfl

theorem mem_keys_publish (m : List (String × Nat)) (t : String) (n : Nat) (k : String) :
    k ∈ keys (publish m t n) ↔ k = t ∨ k ∈ keys m := by
  induction m with
  | nil => simp [publish, keys]
  | cons e rest ih =>
    obtain ⟨k0, c⟩ := e
    by_cases h0 : k0 = t
    · subst h0; simp [publish, keys]
    · simp only [publish, h0, if_false, keys_cons, List.mem_cons, ih]
      constructor
      · rintro (h | h | h) <;> simp [h]
      · rintro (h | h | h) <;> simp [h]

theorem nodup_publish (m : List (String × Nat)) (t : String) (n : Nat) (hm : (keys m).Nodup) :
    (keys (publish m t n)).Nodup := by
  induction m with
  | nil => simp [publish, keys]
  | cons e rest ih =>
    obtain ⟨k0, c⟩ := e
    rw [keys_cons, List.nodup_cons] at hm
    by_cases h0 : k0 = t
    · subst h0; simpa [publish, keys_cons, List.nodup_cons] using hm
    · have := ih hm.2
      simp [publish, h0, keys_cons, List.nodup_cons, mem_keys_publish, hm.1, this]

theorem nodup_mapFrom (h m : List (String × Nat)) (hm : (keys m).Nodup) : (keys (mapFrom m h)).Nodup := by
  induction h generalizing m with
  | nil => simpa [mapFrom] using hm
  | cons e rest ih => obtain ⟨t, n⟩ := e; exact ih _ (nodup_publish m t n hm)

/-- a Go map has distinct keys: so has the list the model builds. -/
theorem keys_nodup_mapOf (h : List (String × Nat)) : (keys (mapOf h)).Nodup :=
  nodup_mapFrom h [] (by simp [keys])

theorem mem_keys_mapFrom (h m : List (String × Nat)) (k : String) :
    k ∈ keys (mapFrom m h) ↔ k ∈ keys m ∨ k ∈ keys h := by
  induction h generalizing m with
  | nil => simp [mapFrom, keys]
  | cons e rest ih =>
    obtain ⟨t, n⟩ := e
    simp only [mapFrom, ih, mem_keys_publish, keys_cons, List.mem_cons]
    constructor
    · rintro ((h | h) | h) <;> simp [h]
    · rintro (h | h | h) <;> simp [h]

theorem mem_keys_mapOf (h : List (String × Nat)) (k : String) : k ∈ keys (mapOf h) ↔ k ∈ keys h := by
  rw [mapOf, mem_keys_mapFrom]; simp [keys]

/-! ### counts: `publishedTo m k` of a map is the count stored under `k` (0 when absent) -/

theorem total_cons (e : String × Nat) (m : List (String × Nat)) : total (e :: m) = e.2 + total m := by
  simp [total]

theorem publishedTo_cons (e : String × Nat) (m : List (String × Nat)) (k : String) :
    publishedTo (e :: m) k = (if e.1 = k then e.2 else 0) + publishedTo m k := by
  by_cases h : e.1 = k <;> simp [publishedTo, h, total_cons]

theorem publishedTo_publish (m : List (String × Nat)) (t : String) (n : Nat) (k : String) :
    publishedTo (publish m t n) k = publishedTo m k + (if t = k then n else 0) := by
  induction m with
  | nil => by_cases h : t = k <;> simp [publish, publishedTo, total, h]
  | cons e rest ih =>
    obtain ⟨k0, c⟩ := e
    by_cases h0 : k0 = t
    · subst h0
      by_cases hk : k0 = k <;> simp [publish, publishedTo_cons, hk] <;> omega
    · simp only [publish, h0, if_false, publishedTo_cons, ih]; omega

theorem publishedTo_mapFrom (h m : List (String × Nat)) (k : String) :
    publishedTo (mapFrom m h) k = publishedTo m k + publishedTo h k := by
  induction h generalizing m with
  | nil => simp [mapFrom, publishedTo, total]
  | cons e rest ih =>
    obtain ⟨t, n⟩ := e
    simp only [mapFrom, ih, publishedTo_publish, publishedTo_cons]; omega

theorem publishedTo_mapOf (h : List (String × Nat)) (k : String) : publishedTo (mapOf h) k = publishedTo h k := by
  rw [mapOf, publishedTo_mapFrom]; simp [publishedTo, total]

theorem total_publish (m : List (String × Nat)) (t : String) (n : Nat) : total (publish m t n) = total m + n := by
  induction m with
  | nil => simp [publish, total]
  | cons e rest ih =>
    obtain ⟨k0, c⟩ := e
    by_cases h0 : k0 = t
    · simp [publish, h0, total_cons]; omega
    · simp only [publish, h0, if_false, total_cons, ih]; omega

theorem total_mapFrom (h m : List (String × Nat)) : total (mapFrom m h) = total m + total h := by
  induction h generalizing m with
  | nil => simp [mapFrom, total]
  | cons e rest ih => obtain ⟨t, n⟩ := e; simp only [mapFrom, ih, total_publish, total_cons]; omega

theorem total_mapOf (h : List (String × Nat)) : total (mapOf h) = total h := by
  rw [mapOf, total_mapFrom]; simp [total]

/-! ### any iteration order -/

theorem total_perm {m m' : List (String × Nat)} (p : m.Perm m') : total m = total m' :=
  (p.map Prod.snd).sum_nat

theorem publishedTo_perm {m m' : List (String × Nat)} (p : m.Perm m') (k : String) :
    publishedTo m k = publishedTo m' k :=
  total_perm (p.filter _)

theorem keys_perm {m m' : List (String × Nat)} (p : m.Perm m') : (keys m).Perm (keys m') := p.map Prod.fst

theorem mem_keys_of_mem {m : List (String × Nat)} {k : String} {c : Nat} (h : (k, c) ∈ m) : k ∈ keys m :=
  List.mem_map_of_mem (f := Prod.fst) h

/-- distinct keys: the entry stored under `k` is the only contribution to `publishedTo m k`. -/
theorem publishedTo_of_mem (m : List (String × Nat)) (hm : (keys m).Nodup) (k : String) (c : Nat)
    (hmem : (k, c) ∈ m) : publishedTo m k = c := by
  induction m with
  | nil => simp at hmem
  | cons e rest ih =>
    obtain ⟨k0, c0⟩ := e
    rw [keys_cons, List.nodup_cons] at hm
    rw [publishedTo_cons]
    rcases List.mem_cons.1 hmem with h | h
    · obtain ⟨rfl, rfl⟩ := Prod.mk.inj h
      have : publishedTo rest k = 0 := by
        have hk : ∀ e ∈ rest, ¬ e.1 = k := fun e he hek => hm.1 (by
          obtain ⟨a, b⟩ := e; simp only at hek; subst hek; exact mem_keys_of_mem he)
        have : rest.filter (fun e => e.1 = k) = [] := by
          simpa [List.filter_eq_nil_iff] using hk
        simp [publishedTo, this, total]
      simp [this]
    · have hne : k0 ≠ k := fun hk => hm.1 (by subst hk; exact mem_keys_of_mem h)
      simp [hne, ih hm.2 h]

theorem mem_keys_iff (m : List (String × Nat)) (k : String) : k ∈ keys m ↔ ∃ c, (k, c) ∈ m := by
  simp [keys]

/-- distinct keys: the entries of the map are exactly `(k, publishedTo m k)` for the keys `k`. -/
theorem mem_iff_publishedTo (m : List (String × Nat)) (hm : (keys m).Nodup) (k : String) (c : Nat) :
    (k, c) ∈ m ↔ k ∈ keys m ∧ c = publishedTo m k := by
  constructor
  · intro h
    exact ⟨(mem_keys_iff m k).2 ⟨c, h⟩, (publishedTo_of_mem m hm k c h).symm⟩
  · rintro ⟨hk, rfl⟩
    obtain ⟨c, hc⟩ := (mem_keys_iff m k).1 hk
    rw [publishedTo_of_mem m hm k c hc]; exact hc

/-- distinct keys: `lookup` finds the stored count. -/
theorem lookup_eq (m : List (String × Nat)) (hm : (keys m).Nodup) (k : String) :
    m.lookup k = if k ∈ keys m then some (publishedTo m k) else none := by
  induction m with
  | nil => simp [keys]
  | cons e rest ih =>
    obtain ⟨k0, c0⟩ := e
    have hm' := hm
    rw [keys_cons, List.nodup_cons] at hm
    by_cases h0 : k = k0
    · subst h0
      have : publishedTo ((k, c0) :: rest) k = c0 := publishedTo_of_mem _ hm' k c0 (List.mem_cons_self ..)
      simp [List.lookup, keys_cons, this]
    · have hb : (k == k0) = false := by simpa using h0
      have h0' : ¬ k0 = k := fun h => h0 h.symm
      simp [List.lookup, hb, ih hm.2, keys_cons, h0, publishedTo_cons, h0']

/-! ### the unfiltered answer is the union of the filtered ones (F49 shape) -/

theorem flatMap_skip (fixed : Bool) (k : String) (c : Nat) (rest : List (String × Nat)) (l : List String)
    (hl : ∀ k' ∈ l, k' ≠ k ∧ k' ≠ "") :
    l.flatMap (pubCountsOf fixed ((k, c) :: rest)) = l.flatMap (pubCountsOf fixed rest) := by
  induction l with
  | nil => rfl
  | cons a l ih =>
    have ha := hl a (List.mem_cons_self ..)
    have : pubCountsOf fixed ((k, c) :: rest) a = pubCountsOf fixed rest a := by
      have h1 : ¬ k = a := fun h => ha.1 h.symm
      simp [pubCountsOf, ha.2, h1]
    simp only [List.flatMap_cons, this, ih (fun k' hk' => hl k' (List.mem_cons_of_mem _ hk'))]

theorem union_of_filtered (fixed : Bool) (m : List (String × Nat)) (hm : (keys m).Nodup) (hne : "" ∉ keys m) :
    (keys m).flatMap (pubCountsOf fixed m) = m := by
  induction m with
  | nil => rfl
  | cons e rest ih =>
    obtain ⟨k, c⟩ := e
    rw [keys_cons, List.nodup_cons] at hm
    rw [keys_cons, List.mem_cons, not_or] at hne
    have hk : k ≠ "" := fun h => hne.1 h.symm
    have h1 : pubCountsOf fixed ((k, c) :: rest) k = [(k, c)] := by
      cases fixed <;> simp [pubCountsOf, hk]
    have h2 := flatMap_skip fixed k c rest (keys rest)
      (fun k' hk' => ⟨fun h => hm.1 (h ▸ hk'), fun h => hne.2 (h ▸ hk')⟩)
    simp only [keys_cons, List.flatMap_cons, h1, h2, ih hm.2 hne.2, List.singleton_append]

end Nsq.Proofs.PubCounts
