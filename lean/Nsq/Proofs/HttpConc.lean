import Nsq.Model.HttpConc
/-! Invariant of the interleaving model `Nsq.Model.HttpConc` under an injective slot assignment. -/
namespace Nsq.Proofs.HttpConc
open Nsq.Model.HttpConc Nsq.Model.HttpFull Nsq.Model.HttpApi Nsq.Model.ProtoV2

theorem get_cons_eq (k : Nat) (w : Wire) (l : List (Nat × Wire)) : slotGet k ((k, w) :: l) = some w := by
  simp [slotGet]

theorem get_cons_ne (k k' : Nat) (w : Wire) (l : List (Nat × Wire)) (h : k' ≠ k) :
    slotGet k ((k', w) :: l) = slotGet k l := by
  simp [slotGet, h]

/-- `w` is the answer of request `i` on one of the broker states the handlers ran on -/
def Own (hc : HConf) (healthy : Bool) (reqs : List Request) (seen : List Broker) (i : Nat) (w : Wire) : Prop :=
  ∃ rq b, reqs[i]? = some rq ∧ b ∈ seen ∧ w = (serve hc healthy b rq).1

theorem Own.mono {hc healthy reqs seen i w} (b0 : Broker) (h : Own hc healthy reqs seen i w) :
    Own hc healthy reqs (b0 :: seen) i w := by
  obtain ⟨rq, b, h1, h2, h3⟩ := h
  exact ⟨rq, b, h1, List.mem_cons_of_mem _ h2, h3⟩

structure Inv (hc : HConf) (healthy : Bool) (reqs : List Request) (slot : Nat → Nat) (s : CSt) : Prop where
  pend : ∀ i ∈ s.pending, ∃ w, slotGet (slot i) s.held = some w ∧ Own hc healthy reqs s.seen i w
  out : ∀ p ∈ s.out, Own hc healthy reqs s.seen p.1 p.2

theorem inv_init (hc : HConf) (healthy : Bool) (reqs : List Request) (slot : Nat → Nat) (b : Broker) :
    Inv hc healthy reqs slot (init b) :=
  ⟨by simp [init], by simp [init]⟩

theorem inv_step (hc : HConf) (healthy : Bool) (reqs : List Request) (slot : Nat → Nat)
    (inj : ∀ i j, slot i = slot j → i = j) (s : CSt) (st : CStep)
    (h : Inv hc healthy reqs slot s) : Inv hc healthy reqs slot (step hc healthy reqs slot s st) := by
  cases st with
  | encode i =>
    unfold step
    simp only []
    cases hr : reqs[i]? with
    | none => simpa using h
    | some rq =>
      simp only []
      refine ⟨?_, ?_⟩
      · intro j hj
        simp only [List.mem_cons] at hj
        by_cases hji : j = i
        · subst hji
          exact ⟨_, get_cons_eq _ _ _, rq, s.broker, hr, by simp, rfl⟩
        · have hj' : j ∈ s.pending := by
            cases hj with
            | inl e => exact absurd e hji
            | inr m => exact m
          obtain ⟨w, hw, ho⟩ := h.pend j hj'
          have hne : slot i ≠ slot j := fun e => hji (inj _ _ e).symm
          exact ⟨w, by rw [get_cons_ne _ _ _ _ hne]; exact hw, ho.mono _⟩
      · intro p hp
        exact (h.out p hp).mono _
  | write i =>
    unfold step
    simp only []
    by_cases hi : i ∈ s.pending
    · simp only [hi, if_true]
      cases hg : slotGet (slot i) s.held with
      | none => simpa using h
      | some w =>
        simp only []
        refine ⟨?_, ?_⟩
        · intro j hj
          have hj' : j ∈ s.pending := (List.mem_filter.mp hj).1
          exact h.pend j hj'
        · intro p hp
          simp only [List.mem_cons] at hp
          cases hp with
          | inl e =>
            subst e
            obtain ⟨w', hw', ho⟩ := h.pend i hi
            rw [hg] at hw'
            cases hw'
            exact ho
          | inr m => exact h.out p m
    · simp only [hi, if_false]
      exact h

theorem inv_run (hc : HConf) (healthy : Bool) (reqs : List Request) (slot : Nat → Nat)
    (inj : ∀ i j, slot i = slot j → i = j) (sched : List CStep) (s : CSt)
    (h : Inv hc healthy reqs slot s) :
    Inv hc healthy reqs slot (sched.foldl (step hc healthy reqs slot) s) := by
  induction sched generalizing s with
  | nil => exact h
  | cons st rest ih => exact ih _ (inv_step hc healthy reqs slot inj s st h)

/-- under `ReadOnly` every handler ran on the initial broker -/
structure Still (b : Broker) (s : CSt) : Prop where
  broker : s.broker = b
  seen : ∀ x ∈ s.seen, x = b

theorem still_step (hc : HConf) (healthy : Bool) (reqs : List Request) (slot : Nat → Nat) (b : Broker)
    (ro : ReadOnly hc healthy b reqs) (s : CSt) (st : CStep) (h : Still b s) :
    Still b (step hc healthy reqs slot s st) := by
  cases st with
  | encode i =>
    unfold step
    simp only []
    cases hr : reqs[i]? with
    | none => simpa using h
    | some rq =>
      simp only []
      have hm : rq ∈ reqs := List.mem_of_getElem? hr
      refine ⟨?_, ?_⟩
      · rw [h.broker]; exact ro rq hm
      · intro x hx
        simp only [List.mem_cons] at hx
        cases hx with
        | inl e => rw [e]; exact h.broker
        | inr m => exact h.seen x m
  | write i =>
    unfold step
    simp only []
    by_cases hi : i ∈ s.pending
    · simp only [hi, if_true]
      cases hg : slotGet (slot i) s.held with
      | none => simpa using h
      | some w => exact ⟨h.broker, h.seen⟩
    · simp only [hi, if_false]
      exact h

theorem still_run (hc : HConf) (healthy : Bool) (reqs : List Request) (slot : Nat → Nat) (b : Broker)
    (ro : ReadOnly hc healthy b reqs) (sched : List CStep) (s : CSt) (h : Still b s) :
    Still b (sched.foldl (step hc healthy reqs slot) s) := by
  induction sched generalizing s with
  | nil => exact h
  | cons st rest ih => exact ih _ (still_step hc healthy reqs slot b ro s st h)

end Nsq.Proofs.HttpConc
