import Nsq.Model.TopicDelete
/-
Invariant of the tree with fixes/F19 (SUB refuses any exiting topic) and fixes/F20 (a deletion unlinks
only the object it deleted): an object leaves the map only deleted and without consumers.
-/
namespace Nsq.Proofs.TopicDelete
open Nsq.Model.TopicDelete

structure FixedInv (s : DSt) : Prop where
  g1 : s.subGuard = true
  g2 : s.ownUnlink = true
  nol : s.losers = 0
  unl : ∀ T ∈ s.unlinked, T.subs = [] ∧ T.exiting = true
  mp : ∀ T, s.map = some T → T.chansDeleted = true → T.subs = [] ∧ T.exiting = true
  del : ∀ T, s.map = some T → T.id ∈ s.deleters → T.exiting = true
  fr1 : ∀ id ∈ s.deleters, id < s.nextId
  fr2 : ∀ T, s.map = some T → T.id < s.nextId

theorem fixedInv_init : FixedInv fixedTree where
  g1 := rfl
  g2 := rfl
  nol := rfl
  unl := by intro T h; cases h
  mp := by intro T h; cases h
  del := by intro T h; cases h
  fr1 := by intro id h; cases h
  fr2 := by intro T h; cases h

theorem mem_erase_or {l : List Nat} {x m : Nat} (h : x ∈ l) : x = m ∨ x ∈ l.erase m := by
  by_cases hx : x = m
  · exact Or.inl hx
  · exact Or.inr ((List.mem_erase_of_ne hx).mpr h)

theorem findObj_map (s : DSt) (id : Nat) (T M : TObj) (h : findObj s id = some T) (hm : s.map = some M)
    (hid : M.id = id) : T = M := by
  unfold findObj at h
  rw [hm] at h
  simp only [hid, if_true] at h
  cases h; rfl

theorem fixedInv_step (s s' : DSt) (a : DStep) (h : FixedInv s) (hs : dstep s a = some s') : FixedInv s' := by
  obtain ⟨g1, g2, nol, unl, mp, del, fr1, fr2⟩ := h
  cases a with
  | sub k eph =>
    simp only [dstep] at hs
    split at hs
    · cases hs
    · split at hs <;> cases hs <;> unfold attach <;> simp only [g1, Bool.or_true, Bool.true_and] <;> split <;>
        (constructor <;> grind)
  | leave k =>
    simp only [dstep] at hs
    split at hs
    · cases hs
    · cases hs
      constructor <;> (try simp only [List.mem_map, Option.map_eq_some_iff]) <;> grind
  | delBegin =>
    simp only [dstep] at hs
    (repeat' split at hs) <;> (try cases hs) <;> (constructor <;> grind)
  | delChannels id =>
    simp only [dstep] at hs
    (repeat' split at hs) <;> (try cases hs)
    unfold updObj
    constructor <;> (try simp only [List.mem_map, Option.map_eq_some_iff]) <;> grind
  | delUnlink id =>
    simp only [dstep] at hs
    (repeat' split at hs) <;> (try cases hs)
    · constructor <;> grind [mem_erase_or, List.mem_of_mem_erase]
    · constructor <;> grind [mem_erase_or, List.mem_of_mem_erase]
    · rename_i _ T hf hcd _ M hM hcond
      have hid : M.id = id := by
        simp only [g2, Bool.true_and, bne_iff_ne, ne_eq, Decidable.not_not] at hcond
        exact hcond
      have hTM := findObj_map s id T M hf hM hid
      subst hTM
      have := mp T hM (by simpa using hcd)
      constructor <;> grind [mem_erase_or, List.mem_of_mem_erase]
  | loserUnlink =>
    simp only [dstep] at hs
    split at hs
    · cases hs
    · rename_i h0; exact absurd nol h0

theorem fixedInv_run : ∀ (sched : List DStep) (s s' : DSt), FixedInv s → drun s sched = some s' → FixedInv s' := by
  intro sched
  induction sched with
  | nil => intro s s' h hs; cases hs; exact h
  | cons a as ih =>
    intro s s' h hs
    simp only [drun] at hs
    split at hs
    · cases hs
    · rename_i s1 h1
      exact ih s1 s' (fixedInv_step s s1 a h h1) hs

end Nsq.Proofs.TopicDelete
