import Nsq.Model.LifeLock
namespace Nsq.Proofs.LifeLock
open Nsq.Model.LifeLock

theorem edge_rank {E : Edges} (h : acyclicB E = true) {a b : String} (hab : (a, b) ∈ E) :
    rank E a < rank E b := by
  unfold acyclicB at h
  rw [List.all_eq_true] at h
  have := h (a, b) hab
  simpa using this

/-- along a chain the rank strictly increases from the first to the last element -/
theorem chain_rank {E : Edges} (h : acyclicB E = true) :
    ∀ (l : List String) (a z : String), IsChain E (a :: l ++ [z]) → rank E a < rank E z := by
  intro l
  induction l with
  | nil =>
    intro a z hc
    exact edge_rank h hc.1
  | cons b l ih =>
    intro a z hc
    have h1 : rank E a < rank E b := edge_rank h hc.1
    have h2 : rank E b < rank E z := ih b z hc.2
    omega

/-- "acyclic lock order ⇒ no lock-only deadlock cycle" (proved once, for any relation) -/
theorem no_deadlock_cycle {E : Edges} (h : acyclicB E = true) (hs : List String) :
    ¬ DeadlockCycle E hs := by
  intro hd
  cases hs with
  | nil => exact hd
  | cons a l =>
    have := chain_rank h l a a hd
    omega

end Nsq.Proofs.LifeLock
