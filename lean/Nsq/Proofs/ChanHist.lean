/-
E2 — pure lemmas about well-formed histories (`okHist`): what the per-id status automaton
implies about the order of events.  No state involved.
-/
import Nsq.Proofs.ChanInv
namespace Nsq.Proofs.Chan
open Nsq.Model.Chan

theorem okHist_append {h2 h1 : List Ev} (h : okHist (h2 ++ h1) = true) : okHist h1 = true := by
  induction h2 with
  | nil => exact h
  | cons ev h2 ih =>
    simp only [List.cons_append, okHist, Bool.and_eq_true] at h
    exact ih h.2

theorem okHist3_append {m : Int} {h2 h1 : List Ev} (h : okHist3 m (h2 ++ h1) = true) : okHist3 m h1 = true := by
  induction h2 with
  | nil => exact h
  | cons ev h2 ih =>
    simp only [List.cons_append, okHist3, Bool.and_eq_true] at h
    exact ih h.2

/-- does the event mention message `id`? -/
def concerns (ev : Ev) (id : Nat) : Bool := (evIds ev).contains id

theorem evSt_of_not_concerns {ev : Ev} {id : Nat} (h : concerns ev id = false) (s : St) : evSt ev id s = s := by
  cases ev <;> simp_all [concerns, evIds, evSt] <;> (intro h'; simp_all)

theorem nDeliver_of_not_concerns {ev : Ev} {id : Nat} (h : concerns ev id = false) (hs : List Ev) :
    nDeliver (ev :: hs) id = nDeliver hs id := by
  cases ev <;> simp_all [concerns, evIds, nDeliver]
  intro h'; simp_all

/-- an event that mentions `id` is only well-formed when `id` is located (or, for a fan-out,
unknown): never when it is gone -/
theorem not_concerns_of_gone {rest : List Ev} {ev : Ev} {id : Nat} (hok : okEv rest ev = true)
    (hg : status rest id = .gone) : concerns ev id = false := by
  cases ev <;> simp only [concerns, evIds, List.contains_eq_mem, List.mem_singleton, decide_eq_false_iff_not,
    List.mem_nil_iff, not_false_eq_true] <;> simp only [okEv, beq_iff_eq, Bool.and_eq_true] at hok
  case fanout i d => intro h'; subst h'; rw [hg] at hok; cases hok
  case deliver k i a => intro h'; subst h'; rw [hg] at hok; cases hok.1
  case finOk k i => intro h'; subst h'; rw [hg] at hok; cases hok
  case reqOk k i d => intro h'; subst h'; rw [hg] at hok; cases hok
  case touchOk k i => intro h'; subst h'; rw [hg] at hok; cases hok
  case timeout i k => intro h'; subst h'; rw [hg] at hok; cases hok
  case deferDue i => intro h'; subst h'; rw [hg] at hok; cases hok
  case emptied ids =>
    intro h'
    simp only [List.all_eq_true] at hok
    have := hok id h'
    rw [hg] at this
    cases this
  case sampledOut k i => intro h'; subst h'; rw [hg] at hok; cases hok
  case ephDrop i => intro h'; subst h'; rw [hg] at hok; cases hok

/-- **gone is forever**: once the history says `id` is gone (finished, emptied, sampled out,
dropped), no later event mentions it -/
theorem gone_forever {h2 base : List Ev} {id : Nat} (hok : okHist (h2 ++ base) = true)
    (hg : status base id = .gone) : status (h2 ++ base) id = .gone ∧ ∀ ev ∈ h2, concerns ev id = false := by
  induction h2 with
  | nil => exact ⟨hg, by simp⟩
  | cons ev h2 ih =>
    simp only [List.cons_append, okHist, Bool.and_eq_true] at hok
    obtain ⟨ih1, ih2⟩ := ih hok.2
    have hnc := not_concerns_of_gone hok.1 ih1
    refine ⟨?_, ?_⟩
    · rw [List.cons_append, status_cons, evSt_of_not_concerns hnc, ih1]
    · intro ev' hev'
      simp only [List.mem_cons] at hev'
      rcases hev' with rfl | hev'
      · exact hnc
      · exact ih2 ev' hev'

/-- does the event release `id` from its holder (REQ accepted / timeout)? -/
def releases (ev : Ev) (id : Nat) : Bool :=
  match ev with
  | .reqOk _ i _ => i == id
  | .timeout i _ => i == id
  | _ => false

/-- while nobody releases it, a held message stays held by the same connection or is gone -/
theorem held_until_released {h2 base : List Ev} {id k : Nat} (hok : okHist (h2 ++ base) = true)
    (hh : status base id = .held k) (hnr : ∀ ev ∈ h2, releases ev id = false) :
    status (h2 ++ base) id = .held k ∨ status (h2 ++ base) id = .gone := by
  induction h2 with
  | nil => exact Or.inl hh
  | cons ev h2 ih =>
    simp only [List.cons_append, okHist, Bool.and_eq_true] at hok
    have hnr' : ∀ ev ∈ h2, releases ev id = false := fun e he => hnr e (List.mem_cons_of_mem _ he)
    have hev := hnr ev List.mem_cons_self
    rcases ih hok.2 hnr' with ih | ih
    · rw [List.cons_append, status_cons, ih]
      have hok1 := hok.1
      cases ev <;> simp only [evSt] <;> simp only [okEv, beq_iff_eq, Bool.and_eq_true] at hok1
      case fanout i d =>
        by_cases hi : i = id
        · subst hi; rw [ih] at hok1; cases hok1
        · simp [hi]
      case deliver k' i a =>
        by_cases hi : i = id
        · subst hi; rw [ih] at hok1; cases hok1.1
        · simp [hi]
      case finOk k' i =>
        by_cases hi : i = id
        · simp [hi]
        · simp [hi]
      case reqOk k' i d =>
        by_cases hi : i = id
        · simp [releases, hi] at hev
        · simp [hi]
      case timeout i k' =>
        by_cases hi : i = id
        · simp [releases, hi] at hev
        · simp [hi]
      case deferDue i =>
        by_cases hi : i = id
        · subst hi; rw [ih] at hok1; cases hok1
        · simp [hi]
      case emptied ids =>
        by_cases hi : ids.contains id = true
        · rw [if_pos hi]; exact Or.inr rfl
        · rw [if_neg hi]; exact Or.inl rfl
      case sampledOut k' i =>
        by_cases hi : i = id
        · subst hi; rw [ih] at hok1; cases hok1
        · simp [hi]
      case ephDrop i =>
        by_cases hi : i = id
        · subst hi; rw [ih] at hok1; cases hok1
        · simp [hi]
      all_goals simp
    · have hnc := not_concerns_of_gone hok.1 ih
      right
      rw [List.cons_append, status_cons, evSt_of_not_concerns hnc, ih]

/-- connection of the most recent delivery of `id` -/
def lastDeliver : List Ev → Nat → Option Nat
  | [], _ => none
  | .deliver k i _ :: h, id => if i = id then some k else lastDeliver h id
  | _ :: h, id => lastDeliver h id

theorem held_is_last_deliver {h : List Ev} {id k : Nat} (hs : status h id = .held k) :
    lastDeliver h id = some k := by
  induction h with
  | nil => cases hs
  | cons ev h ih =>
    rw [status_cons] at hs
    cases ev <;> simp only [evSt] at hs <;> simp only [lastDeliver]
    case deliver k' i a =>
      by_cases hi : i = id
      · simp [hi] at hs ⊢; exact hs
      · simp [hi] at hs ⊢; exact ih hs
    all_goals first
      | exact ih hs
      | (split at hs
         · first | (cases hs; done) | (split at hs <;> cases hs)
         · exact ih hs)

/-! history-level forms of the C02 theorems: they use nothing but `okHist`, so they apply to the
atomic model and to the micro-step model of the map / heap windows alike -/

theorem hist_redelivery_justified {hist : List Ev} (hok : okHist hist = true)
    {h3 h2 h1 : List Ev} {k1 k2 id a1 a2 : Nat}
    (hs : hist = h3 ++ Ev.deliver k2 id a2 :: (h2 ++ Ev.deliver k1 id a1 :: h1)) :
    ∃ ev ∈ h2, releases ev id = true := by
  rw [hs] at hok
  have hok2 := okHist_append hok
  have hev : okEv (h2 ++ Ev.deliver k1 id a1 :: h1) (Ev.deliver k2 id a2) = true := by
    simp only [okHist, Bool.and_eq_true] at hok2; exact hok2.1
  have hok3 : okHist (h2 ++ Ev.deliver k1 id a1 :: h1) = true := by
    simp only [okHist, Bool.and_eq_true] at hok2; exact hok2.2
  simp only [okEv, beq_iff_eq, Bool.and_eq_true] at hev
  apply Classical.byContradiction
  intro hno
  have hnr : ∀ ev ∈ h2, releases ev id = false := by
    intro ev hev'
    cases hr : releases ev id
    · rfl
    · exact absurd ⟨ev, hev', hr⟩ hno
  have hbase : status (Ev.deliver k1 id a1 :: h1) id = .held k1 := by simp [status, evSt]
  rcases held_until_released hok3 hbase hnr with h' | h' <;> rw [h'] at hev <;> cases hev.1

theorem hist_answer_by_holder {hist : List Ev} (hok : okHist hist = true) {h2 h1 : List Ev} {ev : Ev} {k id : Nat}
    (hs : hist = h2 ++ ev :: h1)
    (hev : ev = .finOk k id ∨ (∃ d, ev = .reqOk k id d) ∨ ev = .touchOk k id ∨ ev = .timeout id k) :
    lastDeliver h1 id = some k := by
  rw [hs] at hok
  have hok2 := okHist_append hok
  simp only [okHist, Bool.and_eq_true] at hok2
  apply held_is_last_deliver
  rcases hev with rfl | ⟨d, rfl⟩ | rfl | rfl <;> simpa [okEv] using hok2.1

theorem hist_attempts_consecutive {hist : List Ev} (hok : okHist hist = true) {h2 h1 : List Ev} {k id a : Nat}
    (hs : hist = h2 ++ Ev.deliver k id a :: h1) :
    a = nDeliver h1 id + 1 ∧ (a < 65536 → wireAttempts a = nDeliver h1 id + 1) := by
  rw [hs] at hok
  have hok2 := okHist_append hok
  simp only [okHist, okEv, beq_iff_eq, Bool.and_eq_true] at hok2
  refine ⟨hok2.1.2, fun hlt => ?_⟩
  unfold wireAttempts
  rw [Nat.mod_eq_of_lt hlt]
  exact hok2.1.2

theorem hist_fin_final {hist : List Ev} (hok : okHist hist = true) {h2 h1 : List Ev} {k id : Nat}
    (hs : hist = h2 ++ Ev.finOk k id :: h1) :
    ∀ ev ∈ h2, concerns ev id = false ∧ ∀ k' a, ev ≠ .deliver k' id a := by
  rw [hs] at hok
  have hg : status (Ev.finOk k id :: h1) id = .gone := by simp [status, evSt]
  intro ev hev
  have hnc := (gone_forever hok hg).2 ev hev
  refine ⟨hnc, ?_⟩
  intro k' a heq
  subst heq
  simp [concerns, evIds] at hnc


/-- ids of the fan-out events, newest first -/
def fannedIds : List Ev → List Nat
  | [] => []
  | .fanout i _ :: h => i :: fannedIds h
  | _ :: h => fannedIds h

/-- removal events: finished, emptied, sampled out, dropped by an ephemeral queue -/
def removedIn (ev : Ev) (id : Nat) : Bool :=
  match ev with
  | .finOk _ i => i == id
  | .emptied ids => ids.contains id
  | .sampledOut _ i => i == id
  | .ephDrop i => i == id
  | _ => false

def removed (h : List Ev) (id : Nat) : Bool := h.any (fun ev => removedIn ev id)

theorem mem_fannedIds {h : List Ev} {id : Nat} : id ∈ fannedIds h ↔ nFanout h id ≠ 0 := by
  induction h with
  | nil => simp [fannedIds, nFanout]
  | cons ev h ih =>
    rw [nFanout_cons]
    cases ev <;> simp only [fannedIds, ih, List.mem_cons] <;> try omega
    case fanout i d =>
      by_cases hi : i = id
      · simp [hi]
      · simp [hi, Ne.symm hi]

theorem status_none_iff {h : List Ev} (hok : okHist h = true) {id : Nat} :
    status h id = .none ↔ nFanout h id = 0 := by
  refine ⟨?_, status_none_of_nFanout_zero hok⟩
  intro hs
  induction h with
  | nil => rfl
  | cons ev h ih =>
    simp only [okHist, Bool.and_eq_true] at hok
    rw [status_cons] at hs
    rw [nFanout_cons]
    cases ev <;> simp only [evSt] at hs
    case fanout i d =>
      by_cases hi : i = id
      · simp [hi] at hs; split at hs <;> cases hs
      · simp [hi] at hs ⊢; exact ih hok.2 hs
    all_goals first
      | (simp only [Nat.add_zero]; exact ih hok.2 hs)
      | (split at hs
         · first | (cases hs; done) | (split at hs <;> cases hs)
         · simp only [Nat.add_zero]; exact ih hok.2 hs)

theorem status_gone_iff {h : List Ev} (hok : okHist h = true) {id : Nat} :
    status h id = .gone ↔ removed h id = true := by
  induction h with
  | nil => simp [status, removed]
  | cons ev h ih =>
    have hok' := hok
    simp only [okHist, Bool.and_eq_true] at hok
    have ih' := ih hok.2
    simp only [removed, List.any_cons, Bool.or_eq_true] at ih' ⊢
    constructor
    · intro hs
      rw [status_cons] at hs
      by_cases hr : removedIn ev id = true
      · exact Or.inl hr
      · right
        apply ih'.1
        cases ev <;> simp only [evSt] at hs <;> simp only [removedIn, beq_iff_eq, Bool.false_eq_true] at hr
        case finOk k i => simp [hr] at hs; exact hs
        case emptied ids => simp only [hr] at hs; simpa using hs
        case sampledOut k i => simp [hr] at hs; exact hs
        case ephDrop i => simp [hr] at hs; exact hs
        all_goals first
          | exact hs
          | (split at hs
             · first | (cases hs; done) | (split at hs <;> cases hs)
             · exact hs)
    · intro hr
      rcases hr with hr | hr
      · rw [status_cons]
        cases ev <;> simp only [removedIn, beq_iff_eq, Bool.false_eq_true] at hr <;> simp only [evSt]
        case finOk k i => simp [hr]
        case emptied ids => rw [if_pos hr]
        case sampledOut k i => simp [hr]
        case ephDrop i => simp [hr]
      · have hg := ih'.2 hr
        exact (gone_forever (h2 := [ev]) (base := h) hok' hg).1

end Nsq.Proofs.Chan
