import Nsq.Model.InFlight
import Nsq.Proofs.InFlight
/-
C08 micro-step model: WHICH objects the heap operations of in_flight_pqueue.go keep, add and hand out
(the existing lemmas of Proofs/InFlight.lean only speak about the index fields).
  push x        : afterwards the heap holds exactly the old objects and x
  pop           : hands out slot 0 and keeps exactly the others
  remove i      : hands out slot i and keeps exactly the others
Used by Proofs/InFlightQuiesce.lean (MapHeapAgree at quiescence for every schedule of the F48 shape).
-/
namespace Nsq.Proofs.InFlight
open Nsq.Model.InFlight

theorem swap_length (s s' : HS) (i j : Nat) (h : swap s i j = some s') : s'.pq.length = s.pq.length := by
  unfold swap at h
  split at h
  · cases h; simp
  · cases h

theorem swap_get (s s' : HS) (i j : Nat) (h : swap s i j = some s') (k : Nat) :
    s'.pq[k]? = if k = j then s.pq[i]? else if k = i then s.pq[j]? else s.pq[k]? := by
  unfold swap at h
  split at h
  · rename_i hb
    cases h
    simp only [List.getElem?_set]
    by_cases hkj : j = k
    · subst hkj; simp [hb.2, hb.1]
    · have hkj' : ¬ k = j := fun e => hkj e.symm
      simp only [hkj, hkj', if_false]
      by_cases hki : i = k
      · subst hki; simp [hb.1, hb.2]
      · have hki' : ¬ k = i := fun e => hki e.symm
        simp [hki, hki']
  · cases h

theorem swap_mem (s s' : HS) (i j : Nat) (h : swap s i j = some s') (y : Nat) : y ∈ s'.pq ↔ y ∈ s.pq := by
  have hl := swap_length s s' i j h
  have hg := swap_get s s' i j h
  have hb : i < s.pq.length ∧ j < s.pq.length := by
    unfold swap at h; split at h
    · assumption
    · cases h
  simp only [List.mem_iff_getElem?]
  constructor
  · rintro ⟨k, hk⟩
    rw [hg k] at hk
    by_cases hkj : k = j
    · simp only [hkj, if_true] at hk; exact ⟨i, hk⟩
    · simp only [hkj, if_false] at hk
      by_cases hki : k = i
      · simp only [hki, if_true] at hk; exact ⟨j, hk⟩
      · simp only [hki, if_false] at hk; exact ⟨k, hk⟩
  · rintro ⟨k, hk⟩
    by_cases hki : k = i
    · subst hki
      refine ⟨j, ?_⟩
      rw [hg j]; simp [hk]
    · by_cases hkj : k = j
      · subst hkj
        by_cases hij : i = k
        · exact absurd hij.symm hki
        · refine ⟨i, ?_⟩
          rw [hg i]; simp [hij, hk]
      · refine ⟨k, ?_⟩
        rw [hg k]; simp [hki, hkj, hk]

theorem up_mem : ∀ (fuel : Nat) (s s' : HS) (j : Nat), up fuel s j = some s' →
    s'.pq.length = s.pq.length ∧ (∀ y, y ∈ s'.pq ↔ y ∈ s.pq) ∧ (∀ k, j < k → s'.pq[k]? = s.pq[k]?) := by
  intro fuel
  induction fuel with
  | zero => intro s s' j h; simp [up] at h
  | succ f ih =>
    intro s s' j h
    unfold up at h
    split at h
    · cases h; exact ⟨rfl, fun _ => Iff.rfl, fun _ _ => rfl⟩
    · split at h
      · split at h
        · cases h; exact ⟨rfl, fun _ => Iff.rfl, fun _ _ => rfl⟩
        · split at h
          · cases h
          · rename_i s1 h1
            obtain ⟨l2, m2, g2⟩ := ih s1 s' _ h
            refine ⟨l2.trans (swap_length _ _ _ _ h1), fun y => (m2 y).trans (swap_mem _ _ _ _ h1 y), ?_⟩
            intro k hk
            have hp : (j - 1) / 2 ≤ j := by omega
            rw [g2 k (by omega), swap_get _ _ _ _ h1 k]
            have : ¬ k = j := by omega
            have : ¬ k = (j - 1) / 2 := by omega
            simp [*]
      · cases h

theorem pickChild_lt (s : HS) (j1 n j : Nat) (h : pickChild s j1 n = some j) (h1 : j1 < n) : j < n := by
  unfold pickChild at h
  split at h
  · split at h
    · split at h
      · split at h <;> (cases h; omega)
      · cases h
    · cases h; exact h1
  · cases h

theorem down_mem : ∀ (fuel : Nat) (s s' : HS) (i n : Nat), down fuel s i n = some s' →
    s'.pq.length = s.pq.length ∧ (∀ y, y ∈ s'.pq ↔ y ∈ s.pq) ∧ (∀ k, n ≤ k → s'.pq[k]? = s.pq[k]?) := by
  intro fuel
  induction fuel with
  | zero => intro s s' i n h; simp [down] at h
  | succ f ih =>
    intro s s' i n h
    unfold down at h
    split at h
    · cases h; exact ⟨rfl, fun _ => Iff.rfl, fun _ _ => rfl⟩
    · rename_i hlt
      split at h
      · cases h
      · rename_i j hj
        have hjn := pickChild_lt s _ n j hj (by omega)
        split at h
        · split at h
          · cases h; exact ⟨rfl, fun _ => Iff.rfl, fun _ _ => rfl⟩
          · split at h
            · cases h
            · rename_i s1 h1
              obtain ⟨l2, m2, g2⟩ := ih s1 s' _ _ h
              refine ⟨l2.trans (swap_length _ _ _ _ h1), fun y => (m2 y).trans (swap_mem _ _ _ _ h1 y), ?_⟩
              intro k hk
              rw [g2 k hk, swap_get _ _ _ _ h1 k]
              have : ¬ k = j := by omega
              have : ¬ k = i := by omega
              simp [*]
        · cases h

/-- `Push(x)`: the heap holds exactly the old objects and `x` -/
theorem push_mem (s s' : HS) (x : Nat) (h : push s x = some s') (y : Nat) : y ∈ s'.pq ↔ y = x ∨ y ∈ s.pq := by
  unfold push at h
  obtain ⟨_, m, _⟩ := up_mem _ _ _ _ h
  rw [m y]
  simp only [List.mem_append, List.mem_singleton]
  exact Or.comm

theorem dropLast_mem (s : HS) (r : HS × Nat) (h : dropLast s = some r) :
    s.pq[s.pq.length - 1]? = some r.2 ∧ ∀ y, y ∈ s.pq ↔ y ∈ r.1.pq ∨ y = r.2 := by
  unfold dropLast at h
  split at h
  · rename_i hpos
    cases h
    simp only []
    have hlast : s.pq.length - 1 < s.pq.length := by omega
    refine ⟨by simp [hlast], ?_⟩
    intro y
    have hsplit : s.pq = s.pq.take (s.pq.length - 1) ++ [s.pq[s.pq.length - 1]] := by
      have := List.take_append_drop (s.pq.length - 1) s.pq
      rw [List.drop_eq_getElem_cons hlast] at this
      have hd : s.pq.drop (s.pq.length - 1 + 1) = [] := by
        apply List.drop_eq_nil_of_le; omega
      rw [hd] at this
      exact this.symm
    have hiff : y ∈ s.pq ↔ y ∈ s.pq.take (s.pq.length - 1) ++ [s.pq[s.pq.length - 1]] := by
      rw [← hsplit]
    exact hiff.trans (by simp only [List.mem_append, List.mem_singleton])
  · cases h

/-- `Pop()`: hands out slot 0; the heap keeps exactly the other objects -/
theorem pop_mem (s : HS) (r : HS × Nat) (ok : IndexOK s) (h : pop s = some r) :
    s.pq[0]? = some r.2 ∧ ∀ y, y ∈ r.1.pq ↔ y ∈ s.pq ∧ y ≠ r.2 := by
  have hio := pop_indexOK s r ok h
  unfold pop at h
  split at h
  · cases h
  · rename_i hne
    split at h
    · cases h
    · rename_i s1 h1
      split at h
      · cases h
      · rename_i s2 h2
        obtain ⟨l2, m2, g2⟩ := down_mem _ _ _ _ _ h2
        obtain ⟨hlast, hm⟩ := dropLast_mem s2 r h
        have l1 := swap_length _ _ _ _ h1
        have e1 : s.pq[0]? = some r.2 := by
          rw [l2, l1] at hlast
          rw [g2 _ (by omega), swap_get _ _ _ _ h1] at hlast
          simpa using hlast
        refine ⟨e1, ?_⟩
        intro y
        have := hm y
        rw [m2 y, swap_mem _ _ _ _ h1 y] at this
        constructor
        · intro hy
          refine ⟨this.mpr (Or.inl hy), ?_⟩
          intro e; subst e; exact hio.2.2 hy
        · rintro ⟨hy, hne'⟩
          rcases this.mp hy with h3 | h3
          · exact h3
          · exact absurd h3 hne'

/-- `Remove(i)`: hands out slot i; the heap keeps exactly the other objects -/
theorem remove_mem (s : HS) (i : Int) (r : HS × Nat) (ok : IndexOK s) (h : remove s i = some r) :
    s.pq[i.toNat]? = some r.2 ∧ ∀ y, y ∈ r.1.pq ↔ y ∈ s.pq ∧ y ≠ r.2 := by
  have hio := remove_indexOK s i r ok h
  have fin : ∀ (e1 : s.pq[i.toNat]? = some r.2) (hm : ∀ y, y ∈ s.pq ↔ y ∈ r.1.pq ∨ y = r.2),
      s.pq[i.toNat]? = some r.2 ∧ ∀ y, y ∈ r.1.pq ↔ y ∈ s.pq ∧ y ≠ r.2 := by
    intro e1 hm
    refine ⟨e1, ?_⟩
    intro y
    constructor
    · intro hy
      refine ⟨(hm y).mpr (Or.inl hy), ?_⟩
      intro e; subst e; exact hio.2.2 hy
    · rintro ⟨hy, hne'⟩
      rcases (hm y).mp hy with h3 | h3
      · exact h3
      · exact absurd h3 hne'
  unfold remove at h
  split at h
  · cases h
  · rename_i hrange
    split at h
    · rename_i hlast
      obtain ⟨hl, hm⟩ := dropLast_mem s r h
      exact fin (by rw [hlast]; exact hl) hm
    · rename_i hnl
      split at h
      · cases h
      · rename_i s1 h1
        split at h
        · cases h
        · rename_i s2 h2
          split at h
          · cases h
          · rename_i s3 h3
            obtain ⟨l2, m2, g2⟩ := down_mem _ _ _ _ _ h2
            obtain ⟨l3, m3, g3⟩ := up_mem _ _ _ _ h3
            obtain ⟨hlast, hm⟩ := dropLast_mem s3 r h
            have l1 := swap_length _ _ _ _ h1
            have hi : i.toNat < s.pq.length - 1 := by omega
            apply fin
            · rw [l3, l2, l1] at hlast
              rw [g3 _ (by omega), g2 _ (by omega), swap_get _ _ _ _ h1] at hlast
              simpa using hlast
            · intro y
              have := hm y
              rw [m3 y, m2 y, swap_mem _ _ _ _ h1 y] at this
              exact this

/-- the patched `removeFromInFlightPQ`: afterwards `o` is not on the heap, every other object is kept -/
theorem removeFromPQ_mem (s s' : HS) (o : Nat) (ok : IndexOK s) (h : removeFromPQ true s o = some s') (y : Nat) :
    y ∈ s'.pq ↔ y ∈ s.pq ∧ y ≠ o := by
  unfold removeFromPQ at h
  split at h
  · rename_i hskip
    cases h
    -- skipped: `o` is not on the heap (a heap slot holding `o` would carry `o`'s index, by IndexOK)
    have hno : o ∉ s.pq := by
      intro ho
      obtain ⟨k, hk, hke⟩ := List.getElem_of_mem ho
      have hidx := ok k hk
      rw [hke] at hidx
      simp only [removeSkips, if_true, Bool.or_eq_true, decide_eq_true_eq, bne_iff_ne, ne_eq] at hskip
      rw [hidx] at hskip
      rcases hskip with (h1 | h1) | h1
      · omega
      · omega
      · apply h1
        simp [hk, hke]
    constructor
    · intro hy; exact ⟨hy, fun e => hno (e ▸ hy)⟩
    · exact fun hy => hy.1
  · rename_i hskip
    split at h
    · cases h
    · rename_i r hr
      cases h
      obtain ⟨e1, hm⟩ := remove_mem s _ r ok hr
      -- not skipped: the slot `index o` holds `o`
      have : r.2 = o := by
        simp only [removeSkips, if_true, Bool.or_eq_false_iff, decide_eq_false_iff_not, bne_eq_false_iff_eq,
          Bool.not_eq_true] at hskip
        rw [hskip.2] at e1
        exact (Option.some.inj e1).symm
      rw [this] at hm
      exact hm y

/-- `PeekAndShift`: either nothing is due and the heap is unchanged, or the object handed out was on the heap and the
heap keeps exactly the others -/
theorem peekAndShift_mem (s : HS) (t : Int) (r : HS × Option Nat) (ok : IndexOK s) (h : peekAndShift s t = some r) :
    (r.2 = none ∧ r.1 = s) ∨ (∃ o, r.2 = some o ∧ o ∈ s.pq ∧ ∀ y, y ∈ r.1.pq ↔ y ∈ s.pq ∧ y ≠ o) := by
  unfold peekAndShift at h
  split at h
  · rename_i hpos
    split at h
    · cases h; exact Or.inl ⟨rfl, rfl⟩
    · split at h
      · cases h
      · rename_i r' hr'
        cases h
        obtain ⟨e1, hm⟩ := pop_mem s r' ok hr'
        have : r'.2 = s.pq[0] := by
          rw [List.getElem?_eq_getElem hpos] at e1
          exact (Option.some.inj e1).symm
        refine Or.inr ⟨s.pq[0], rfl, List.getElem_mem hpos, ?_⟩
        intro y
        rw [← this]
        exact hm y
  · cases h; exact Or.inl ⟨rfl, rfl⟩

theorem indexOK_nodup {h : HS} (ok : IndexOK h) : h.pq.Nodup := by
  unfold List.Nodup
  rw [List.pairwise_iff_getElem]
  intro i j hi hj hij e
  have := indexOK_inj ok hi hj e
  omega

end Nsq.Proofs.InFlight
