import Nsq.Model.Int64
/-! Facts about `wrap64`: it is the identity exactly on the int64 range, and a ring homomorphism up to
`wrap64`, so a running int64 sum equals the wrapped exact sum whatever the intermediate overflows. -/
namespace Nsq.Proofs.Int64
open Nsq.Model.Int64

theorem wrap64_inRange (x : Int) : inRange (wrap64 x) := by
  unfold wrap64 inRange two63 two64
  have h1 := Int.emod_nonneg (x + 9223372036854775808) (b := 18446744073709551616) (by decide)
  have h2 := Int.emod_lt_of_pos (x + 9223372036854775808) (b := 18446744073709551616) (by decide)
  omega

theorem wrap64_id (x : Int) (h : inRange x) : wrap64 x = x := by
  unfold wrap64 inRange two63 two64 at *
  have : (x + 9223372036854775808) % 18446744073709551616 = x + 9223372036854775808 :=
    Int.emod_eq_of_lt (by omega) (by omega)
  omega

theorem wrap64_eq_iff (x : Int) : wrap64 x = x ↔ inRange x :=
  ⟨fun h => h ▸ wrap64_inRange x, wrap64_id x⟩

theorem wrap64_add_left (a b : Int) : wrap64 (wrap64 a + b) = wrap64 (a + b) := by
  unfold wrap64 two63 two64
  have : ((a + 9223372036854775808) % 18446744073709551616 - 9223372036854775808 + b + 9223372036854775808)
      = (a + 9223372036854775808) % 18446744073709551616 + b := by omega
  rw [this, Int.emod_add_emod]
  congr 2
  omega

theorem wrap64_add_right (a b : Int) : wrap64 (a + wrap64 b) = wrap64 (a + b) := by
  rw [Int.add_comm, wrap64_add_left, Int.add_comm]

theorem wrap64_idem (a : Int) : wrap64 (wrap64 a) = wrap64 a := wrap64_id _ (wrap64_inRange a)

theorem wrap64_sub (a b : Int) : wrap64 (wrap64 a - wrap64 b) = wrap64 (a - b) := by
  unfold wrap64 two63 two64
  have e : ((a + 9223372036854775808) % 18446744073709551616 - 9223372036854775808 -
      ((b + 9223372036854775808) % 18446744073709551616 - 9223372036854775808) + 9223372036854775808)
      = ((a + 9223372036854775808) % 18446744073709551616 - (b + 9223372036854775808) % 18446744073709551616)
        + 9223372036854775808 := by omega
  rw [e]
  have h1 : ((a + 9223372036854775808) % 18446744073709551616 - (b + 9223372036854775808) % 18446744073709551616
      + 9223372036854775808) % 18446744073709551616 = (a - b + 9223372036854775808) % 18446744073709551616 := by
    have := Int.emod_emod_of_dvd (a + 9223372036854775808) (Int.dvd_refl 18446744073709551616)
    omega
  rw [h1]

theorem foldl_add64 (l : List Int) (acc : Int) :
    l.foldl add64 (wrap64 acc) = wrap64 (acc + l.sum) := by
  induction l generalizing acc with
  | nil => simp
  | cons x rest ih =>
    simp only [List.foldl_cons, List.sum_cons, add64]
    rw [wrap64_add_left, ih (acc + x)]
    congr 1
    omega

theorem goSum_eq (l : List Int) : goSum l = wrap64 l.sum := by
  have := foldl_add64 l 0
  simpa [goSum, wrap64_id 0 (by unfold inRange two63; omega)] using this

theorem sum_nonneg (l : List Int) (h : ∀ x ∈ l, 0 ≤ x) : 0 ≤ l.sum := by
  induction l with
  | nil => simp
  | cons x rest ih =>
    simp only [List.sum_cons]
    have := h x (List.mem_cons_self)
    have := ih (fun y hy => h y (List.mem_cons_of_mem _ hy))
    omega

end Nsq.Proofs.Int64
