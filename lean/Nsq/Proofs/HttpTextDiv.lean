import Nsq.Proofs.HttpApiText
import Nsq.Proofs.HttpChar
/-!
Text `/mpub` against binary `/mpub` / TCP `MPUB`: exact acceptance conditions of both sides and hence
exactly where they diverge (audit round 7, item B15). The text format is line oriented: its only limits
are "whole body ≤ max-body-size" and "each line ≤ max-msg-size"; it has no message-count limit, no
per-message framing overhead and it accepts a body without any non-empty line. The binary format (same
reader as TCP MPUB) additionally needs 1 ≤ count ≤ (max-body-size − 4)/5 and counts 4 bytes of framing
per message plus 4 for the count against max-body-size.
-/
namespace Nsq.Proofs.HttpTextDiv
open Nsq.Model.HttpApi Nsq.Model.ProtoV2 Nsq.Model.Names Nsq.Model.Base10 Nsq.Model
open Nsq.Proofs.ProtoV2 Nsq.Proofs.HttpApi Nsq.Proofs.HttpApiEquiv Nsq.Proofs.Mpub Nsq.Proofs.HttpApiText
open Nsq.Proofs.HttpChar

def nonEmptyBlocks (blocks : List Bytes) : List Bytes := blocks.filter (fun b => !b.isEmpty)

/-- The text loop without the body-size alarm: accepted exactly when every non-empty line is within
max-msg-size, and then the messages are the non-empty lines in order. -/
theorem textLoop_false_ok_iff (maxMsg : Int) : ∀ (blocks bs : List Bytes),
    textLoop maxMsg false blocks = .ok bs ↔
      bs = nonEmptyBlocks blocks ∧ ∀ l ∈ nonEmptyBlocks blocks, (l.length : Int) ≤ maxMsg
  | [], bs => by simp [textLoop, nonEmptyBlocks, eq_comm]
  | blk :: rest, bs => by
    have ih := textLoop_false_ok_iff maxMsg rest
    unfold textLoop
    simp only [Bool.false_and, Bool.false_eq_true, if_false]
    by_cases he : blk.isEmpty = true
    · simp only [he, if_true]
      rw [ih bs]
      simp [nonEmptyBlocks, he]
    · have he' : blk.isEmpty = false := by simpa using he
      simp only [he', Bool.false_eq_true, if_false]
      by_cases hb : (blk.length : Int) > maxMsg
      · simp only [hb, if_true]
        simp [nonEmptyBlocks, he']
        intro _ h
        omega
      · simp only [hb, if_false]
        cases hr : textLoop maxMsg false rest with
        | error e =>
          simp only []
          have := ih
          constructor
          · intro h; cases h
          · intro ⟨_, hall⟩
            have hrest : ∀ l ∈ nonEmptyBlocks rest, (l.length : Int) ≤ maxMsg := by
              intro l hl
              apply hall
              simp only [nonEmptyBlocks, List.filter_cons, he', Bool.not_false, if_true]
              exact List.mem_cons_of_mem _ hl
            have := (ih (nonEmptyBlocks rest)).mpr ⟨rfl, hrest⟩
            rw [hr] at this
            cases this
        | ok ms =>
          simp only []
          obtain ⟨hms, hall⟩ := (ih ms).mp hr
          constructor
          · intro h
            cases h
            refine ⟨by simp [nonEmptyBlocks, he', hms], ?_⟩
            intro l hl
            simp only [nonEmptyBlocks, List.filter_cons, he', Bool.not_false, if_true, List.mem_cons] at hl
            rcases hl with rfl | hl
            · omega
            · exact hall l hl
          · intro ⟨hbs, _⟩
            rw [hbs]
            simp [nonEmptyBlocks, he', hms]

/-- The only error of the loop without the body alarm is MSG_TOO_BIG. -/
theorem textLoop_false_error (maxMsg : Int) : ∀ (blocks : List Bytes) (e : String),
    textLoop maxMsg false blocks = .error e → e = "MSG_TOO_BIG"
  | [], e, h => by simp [textLoop] at h
  | blk :: rest, e, h => by
    unfold textLoop at h
    simp only [Bool.false_and, Bool.false_eq_true, if_false] at h
    split at h
    · exact textLoop_false_error maxMsg rest e h
    · split at h
      · cases h; rfl
      · split at h
        · rename_i e' he'
          cases h
          exact textLoop_false_error maxMsg rest _ he'
        · cases h

/-- What a text `/mpub` body is accepted as. -/
structure TextAccepts (hc : HConf) (body : Bytes) : Prop where
  size : (body.length : Int) ≤ hc.maxBodySize
  lines : ∀ l ∈ Mpub.textBlocks body, (l.length : Int) ≤ hc.maxMsgSize

/-- **Exact acceptance of text mode**: the body is within max-body-size and every non-empty line within
max-msg-size; the messages are the non-empty lines. Nothing else is checked — in particular not the
number of lines, and a body without any non-empty line (empty, or only newlines) is accepted. -/
theorem mpubText_ok_iff (hc : HConf) (h0 : 0 ≤ hc.maxBodySize) (body : Bytes) (bs : List Bytes) :
    mpubText hc body = .ok bs ↔ TextAccepts hc body ∧ bs = Mpub.textBlocks body := by
  constructor
  · intro h
    have hsz := mpubText_bounded hc body bs h0 h
    have htake : body.take (hc.maxBodySize + 1).toNat = body := by
      apply List.take_of_length_le; omega
    have hover : ¬ ((body.length : Int) = hc.maxBodySize + 1) := by omega
    unfold mpubText at h
    rw [htake] at h
    simp only [hover, decide_false] at h
    obtain ⟨h1, h2⟩ := (textLoop_false_ok_iff _ _ _).mp h
    exact ⟨⟨hsz, h2⟩, h1⟩
  · intro ⟨⟨hsz, hl⟩, hbs⟩
    have htake : body.take (hc.maxBodySize + 1).toNat = body := by
      apply List.take_of_length_le; omega
    have hover : ¬ ((body.length : Int) = hc.maxBodySize + 1) := by omega
    unfold mpubText
    rw [htake]
    simp only [hover, decide_false]
    exact (textLoop_false_ok_iff _ _ _).mpr ⟨hbs, hl⟩

/-- The two refusals of text mode. -/
theorem mpubText_error (hc : HConf) (body : Bytes) (e : String) (h : mpubText hc body = .error e) :
    e = "MSG_TOO_BIG" ∨ e = "BODY_TOO_BIG" := by
  unfold mpubText at h
  generalize (decide (((body.take (hc.maxBodySize + 1).toNat).length : Int) = hc.maxBodySize + 1)) = over at h
  generalize Mpub.splitNl (body.take (hc.maxBodySize + 1).toNat) = blocks at h
  induction blocks with
  | nil => simp [textLoop] at h
  | cons blk rest ih =>
    unfold textLoop at h
    split at h
    · cases h; exact Or.inr rfl
    · split at h
      · exact ih h
      · split at h
        · cases h; exact Or.inl rfl
        · split at h
          · rename_i e' he'
            cases h
            exact ih he'
          · cases h

theorem textBlocks_nonempty (body : Bytes) : ∀ l ∈ Mpub.textBlocks body, 1 ≤ l.length := by
  intro l hl
  have := (List.mem_filter.mp hl).2
  cases l with
  | nil => simp at this
  | cons x xs => simp

/-- What binary `/mpub` / TCP `MPUB` needs of a batch `ms` (besides what text mode needs). -/
structure BinAccepts (conf : Conf) (ms : List Bytes) : Prop where
  nonempty : ms ≠ []
  each : ∀ m ∈ ms, BodyOk conf.maxMsgSize m
  count : (ms.length : Int) ≤ Mpub.maxMessages conf.maxBodySize
  size : ((Mpub.encode ms).length : Int) ≤ conf.maxBodySize

theorem encode_length_pos (ms : List Bytes) : 4 ≤ (Mpub.encode ms).length := by
  simp [Mpub.encode, be32_length]

/-- TCP accepts a batch that satisfies `BinAccepts`, and enqueues it. -/
theorem tcp_accepts (conf : Conf) (s : ConnState) (b : Broker) (cmd t : Bytes) (tl : List Bytes) (ms : List Bytes)
    (hauth : conf.authGate = none) (hv : isValidName t = true) (hlen : (Mpub.encode ms).length < 2147483648)
    (h : BinAccepts conf ms) :
    (mpub conf s b (cmd :: t :: tl) (mwire (Mpub.encode ms))).reply = some .ok ∧
    (mpub conf s b (cmd :: t :: tl) (mwire (Mpub.encode ms))).broker = publish b t (toMsgs ms) := by
  have hrm := readMPUB_encode conf.maxMsgSize conf.maxBodySize ms h.nonempty h.each h.count hlen
  have hpos : ¬ (((Mpub.encode ms).length : Int) ≤ 0) := by have := encode_length_pos ms; omega
  have hle : ¬ (((Mpub.encode ms).length : Int) > conf.maxBodySize) := by have := h.size; omega
  have htcp := mpub_mwire conf s b cmd t tl (Mpub.encode ms) hauth hv hlen
  rw [if_neg hpos, if_neg hle, hrm] at htcp
  rw [htcp]
  exact ⟨rfl, rfl⟩

/-- TCP refuses a batch that is empty, has too many messages, or is longer than max-body-size. -/
theorem tcp_refuses (conf : Conf) (s : ConnState) (b : Broker) (cmd t : Bytes) (tl : List Bytes) (ms : List Bytes)
    (hauth : conf.authGate = none) (hv : isValidName t = true) (hlen : (Mpub.encode ms).length < 2147483648)
    (h : ms = [] ∨ (ms.length : Int) > Mpub.maxMessages conf.maxBodySize ∨
      ((Mpub.encode ms).length : Int) > conf.maxBodySize) :
    (mpub conf s b (cmd :: t :: tl) (mwire (Mpub.encode ms))).reply = some (.err .E_BAD_BODY) := by
  have hpos : ¬ (((Mpub.encode ms).length : Int) ≤ 0) := by have := encode_length_pos ms; omega
  have htcp := mpub_mwire conf s b cmd t tl (Mpub.encode ms) hauth hv hlen
  rw [if_neg hpos] at htcp
  by_cases hle : ((Mpub.encode ms).length : Int) > conf.maxBodySize
  · rw [if_pos hle] at htcp
    rw [htcp]; rfl
  · rw [if_neg hle] at htcp
    have hcnt : ms.length < 2147483648 := by
      have : ∀ (l : List Bytes), l.length ≤ (Mpub.encodeMsgs l).length := by
        intro l
        induction l with
        | nil => simp
        | cons x xs ih => simp only [Mpub.encodeMsgs, List.length_append, be32_length, List.length_cons]; omega
      have h1 := this ms
      simp only [Mpub.encode, List.length_append, be32_length] at hlen
      omega
    have hbad : (ms.length : Int) ≤ 0 ∨ (ms.length : Int) > Mpub.maxMessages conf.maxBodySize := by
      rcases h with h | h | h
      · left; simp [h]
      · right; exact h
      · exact absurd h hle
    have hr : Mpub.readMPUB conf.maxMsgSize conf.maxBodySize (Mpub.encode ms) = .err .E_BAD_BODY := by
      rw [Mpub.readMPUB, Mpub.encode, readLen_be32 _ _ hcnt]
      simp only [hbad, if_true]
    rw [hr] at htcp
    rw [htcp]; rfl

/-- Text `/mpub` at the handler: 200 exactly under `TextAccepts`, and then the queue receives the
non-empty lines. (Topic present and valid, text mode, declared length not above max-body-size.) -/
theorem doMPUB_text_iff (hc : HConf) (h0 : 0 ≤ hc.maxBodySize) (b : Broker) (rq : Request) (kv : List (Bytes × Bytes))
    (t : Bytes) (hq : parseQuery rq.rawQuery = some kv) (ht : qget kv kTopic = some t)
    (htext : binaryMode kv = false) (hv : isValidName t = true) (hcl : ¬ rq.contentLength > hc.maxBodySize) :
    ((doMPUB hc b rq).1.status = .s200 ↔ TextAccepts hc rq.body) ∧
    (TextAccepts hc rq.body → doMPUB hc b rq = (⟨.s200, "OK"⟩, publish b t (toMsgs (Mpub.textBlocks rq.body)))) ∧
    (¬ TextAccepts hc rq.body → (doMPUB hc b rq).1.status = .s413 ∧ (doMPUB hc b rq).2 = getTopic b t ∧
      ((doMPUB hc b rq).1.msg = "MSG_TOO_BIG" ∨ (doMPUB hc b rq).1.msg = "BODY_TOO_BIG")) := by
  have hd : doMPUB hc b rq = match mpubText hc rq.body with
      | .error e => resp .s413 e (getTopic b t)
      | .ok bodies => resp .s200 "OK" (publish b t (toMsgs bodies)) := by
    rw [doMPUB, if_neg hcl, topicFromQuery_of _ _ _ hq ht, if_pos hv]
    simp only [hq, Option.getD_some, htext, Bool.false_eq_true, if_false]
    rfl
  cases hm : mpubText hc rq.body with
  | error e =>
    have hna : ¬ TextAccepts hc rq.body := by
      intro ha
      have := (mpubText_ok_iff hc h0 rq.body _).mpr ⟨ha, rfl⟩
      rw [hm] at this; cases this
    rw [hd, hm]
    refine ⟨by simp [resp, hna], fun ha => absurd ha hna, fun _ => ⟨rfl, rfl, mpubText_error hc rq.body e hm⟩⟩
  | ok bs =>
    obtain ⟨ha, hbs⟩ := (mpubText_ok_iff hc h0 rq.body bs).mp hm
    rw [hd, hm]
    refine ⟨by simp [resp, ha], fun _ => by rw [hbs]; rfl, fun hna => absurd ha hna⟩

end Nsq.Proofs.HttpTextDiv
