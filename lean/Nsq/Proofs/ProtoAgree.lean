/-
E3 / C09 — audit B7 remainder: whole-run independence of a connection's answers from the broker when
`--max-channel-consumers > 0`, for brokers that agree on the number of consumers of every channel (a channel that does
not exist counts 0). Needs what `docs/C09.md` named as missing: publishes, `GetTopic`, `GetChannel` (all through
`settle`) do not change any client count, and an accepted SUB adds exactly one to its own channel.
-/
import Nsq.Proofs.ProtoEnv
namespace Nsq.Proofs.ProtoAgree
open Nsq.Model.ProtoV2 Nsq.Model.Names Nsq.Model.ProtoEnv Nsq.Model Nsq.Proofs.ProtoV2 Nsq.Proofs.ProtoEnv

def chanCount (tp : Topic) (c : Bytes) : Nat :=
  match findChan tp c with
  | none => 0
  | some ch => ch.clients

theorem clientCount_eq (b : Broker) (t c : Bytes) :
    clientCount b t c = (match findTopic b t with | none => 0 | some tp => chanCount tp c) := by
  unfold clientCount chanCount; rfl

theorem findTopic_name {b : Broker} {t : Bytes} {tp : Topic} (h : findTopic b t = some tp) : tp.name = t := by
  have := List.find?_some h; simpa using this

theorem findChan_name {tp : Topic} {c : Bytes} {ch : Chan} (h : findChan tp c = some ch) : ch.name = c := by
  have := List.find?_some h; simpa using this

theorem findTopic_modify (b : Broker) (n m : Bytes) (f : Topic → Topic) (hf : ∀ t, (f t).name = t.name) :
    findTopic (modifyTopic b n f) m = (findTopic b m).map (fun t => if t.name == n then f t else t) := by
  induction b with
  | nil => rfl
  | cons x l ih =>
    simp only [findTopic, modifyTopic] at ih
    have hcx : (if (x.name == n) = true then f x else x).name = x.name := by split <;> simp [hf]
    simp only [findTopic, modifyTopic, List.map_cons, List.find?_cons, hcx]
    cases hj : (x.name == m)
    · exact ih
    · rfl

theorem findChan_map (tp : Topic) (c : Bytes) (g : Chan → Chan) (hg : ∀ ch, (g ch).name = ch.name) :
    findChan { tp with chans := tp.chans.map g } c = (findChan tp c).map g := by
  unfold findChan
  simp only
  induction tp.chans with
  | nil => rfl
  | cons x l ih =>
    simp only [List.map_cons, List.find?_cons, hg]
    cases hj : (x.name == c)
    · exact ih
    · rfl

/-- client counts through `modifyTopic` -/
theorem clientCount_modify (b : Broker) (n t c : Bytes) (f : Topic → Topic) (hf : ∀ tp, (f tp).name = tp.name) :
    clientCount (modifyTopic b n f) t c =
      (match findTopic b t with | none => 0 | some tp => if t = n then chanCount (f tp) c else chanCount tp c) := by
  rw [clientCount_eq, findTopic_modify b n t f hf]
  cases h : findTopic b t with
  | none => rfl
  | some tp =>
    have hn := findTopic_name h
    simp only [Option.map_some]
    by_cases htn : t = n
    · subst htn; simp [hn]
    · have : (tp.name == n) = false := by simp [hn, htn]
      simp [this, htn]

theorem clientCount_modify_same (b : Broker) (n t c : Bytes) (f : Topic → Topic) (hf : ∀ tp, (f tp).name = tp.name)
    (hc : ∀ tp, chanCount (f tp) c = chanCount tp c) : clientCount (modifyTopic b n f) t c = clientCount b t c := by
  rw [clientCount_modify b n t c f hf, clientCount_eq]
  cases findTopic b t with
  | none => rfl
  | some tp => simp only [hc]; split <;> rfl

theorem settle_name (tp : Topic) : (settle tp).name = tp.name := by
  unfold settle; split <;> rfl

theorem find_map_clients (l : List Chan) (c : Bytes) (g : Chan → Chan) (hg : ∀ ch, (g ch).name = ch.name)
    (hc : ∀ ch, (g ch).clients = ch.clients) :
    (match (l.map g).find? (·.name == c) with | none => 0 | some ch => ch.clients) =
    (match l.find? (·.name == c) with | none => 0 | some ch => ch.clients) := by
  induction l with
  | nil => rfl
  | cons x l ih =>
    simp only [List.map_cons, List.find?_cons, hg]
    cases hj : (x.name == c)
    · exact ih
    · exact hc x

theorem chanCount_settle (tp : Topic) (c : Bytes) : chanCount (settle tp) c = chanCount tp c := by
  unfold settle
  split
  · rfl
  · unfold chanCount findChan
    exact find_map_clients tp.chans c _ (fun _ => rfl) (fun _ => rfl)

theorem clientCount_getTopic (b : Broker) (n t c : Bytes) : clientCount (getTopic b n) t c = clientCount b t c := by
  unfold getTopic
  split
  · rfl
  · rename_i hh
    rw [clientCount_eq, clientCount_eq]
    simp only [findTopic, List.find?_append]
    cases h : List.find? (fun x => x.name == t) b with
    | some tp => rfl
    | none =>
      simp only [Option.none_or, List.find?_cons]
      cases hn : (n == t)
      · simp
      · simp [chanCount, findChan]

theorem clientCount_putMsgs (b : Broker) (n : Bytes) (ms : List Msg) (t c : Bytes) :
    clientCount (putMsgs b n ms) t c = clientCount b t c := by
  unfold putMsgs
  apply clientCount_modify_same
  · intro tp; rw [settle_name]
  · intro tp; rw [chanCount_settle]; rfl

theorem clientCount_publish (b : Broker) (n : Bytes) (ms : List Msg) (t c : Bytes) :
    clientCount (publish b n ms) t c = clientCount b t c := by
  unfold publish; rw [clientCount_putMsgs, clientCount_getTopic]


/-- the function `getChannel` applies to its topic -/
def gcF (cn : Bytes) (t : Topic) : Topic :=
  if hasChan t cn then t
  else settle { t with chans := t.chans ++ [{ name := cn, paused := false, clients := 0, msgs := [] }] }

theorem getChannel_eq (b : Broker) (tn cn : Bytes) : getChannel b tn cn = modifyTopic b tn (gcF cn) := rfl

theorem gcF_name (cn : Bytes) (t : Topic) : (gcF cn t).name = t.name := by
  unfold gcF; split
  · rfl
  · rw [settle_name]

theorem findChan_none_of_not_has {t : Topic} {cn : Bytes} (h : ¬ hasChan t cn = true) : findChan t cn = none := by
  unfold findChan
  rw [List.find?_eq_none]
  intro x hx hp
  apply h
  unfold hasChan
  exact List.any_eq_true.2 ⟨x, hx, hp⟩

theorem chanCount_gcF (cn : Bytes) (t : Topic) (c : Bytes) : chanCount (gcF cn t) c = chanCount t c := by
  unfold gcF
  split
  · rfl
  · rename_i hh
    rw [chanCount_settle]
    unfold chanCount findChan
    simp only [List.find?_append]
    cases h : List.find? (fun x => x.name == c) t.chans with
    | some ch => rfl
    | none =>
      simp only [Option.none_or, List.find?_cons]
      cases hn : (cn == c) <;> simp

theorem clientCount_getChannel (b : Broker) (tn cn t c : Bytes) :
    clientCount (getChannel b tn cn) t c = clientCount b t c := by
  rw [getChannel_eq]
  exact clientCount_modify_same b tn t c (gcF cn) (gcF_name cn) (fun tp => chanCount_gcF cn tp c)

theorem find_of_any {α : Type} (l : List α) (p : α → Bool) (h : l.any p = true) : ∃ x, l.find? p = some x := by
  cases hf : l.find? p with
  | some x => exact ⟨x, rfl⟩
  | none =>
    rw [List.find?_eq_none] at hf
    obtain ⟨x, hx, hp⟩ := List.any_eq_true.1 h
    exact absurd hp (hf x hx)

theorem hasChan_settle (tp : Topic) (c : Bytes) : hasChan (settle tp) c = hasChan tp c := by
  unfold settle
  split
  · rfl
  · unfold hasChan
    simp only [List.any_map]
    rfl

theorem hasChan_gcF (c : Bytes) (tp : Topic) : hasChan (gcF c tp) c = true := by
  unfold gcF
  by_cases hh : hasChan tp c = true
  · simp only [hh, if_true]
  · have hh' : hasChan tp c = false := by simpa using hh
    simp only [hh', Bool.false_eq_true, if_false]
    rw [hasChan_settle]
    unfold hasChan
    simp [List.any_append]

theorem hasTopic_getTopic (b : Broker) (t : Bytes) : hasTopic (getTopic b t) t = true := by
  unfold getTopic
  split
  · assumption
  · unfold hasTopic
    simp [List.any_append]

/-- after `GetChannel(GetTopic)` the channel exists -/
theorem exists_after_get (b : Broker) (t c : Bytes) :
    ∃ tp ch, findTopic (getChannel (getTopic b t) t c) t = some tp ∧ findChan tp c = some ch := by
  obtain ⟨tp0, h0⟩ := find_of_any (getTopic b t) (·.name == t) (hasTopic_getTopic b t)
  have h0' : findTopic (getTopic b t) t = some tp0 := h0
  have hn := findTopic_name h0'
  obtain ⟨ch, hch⟩ := find_of_any (gcF c tp0).chans (·.name == c) (hasChan_gcF c tp0)
  refine ⟨gcF c tp0, ch, ?_, hch⟩
  rw [getChannel_eq, findTopic_modify _ _ _ _ (gcF_name c), h0']
  simp [hn]

def acF (cn : Bytes) (t : Topic) : Topic :=
  { t with chans := t.chans.map (fun c => if c.name == cn then { c with clients := c.clients + 1 } else c) }

theorem addClient_eq (b : Broker) (tn cn : Bytes) : addClient b tn cn = modifyTopic b tn (acF cn) := rfl

/-- an accepted SUB adds exactly one client, to its own channel -/
theorem clientCount_sub (b : Broker) (t c t' c' : Bytes) :
    clientCount (addClient (getChannel (getTopic b t) t c) t c) t' c' =
      clientCount b t' c' + (if t' = t ∧ c' = c then 1 else 0) := by
  have hB : clientCount (getChannel (getTopic b t) t c) t' c' = clientCount b t' c' := by
    rw [clientCount_getChannel, clientCount_getTopic]
  rw [← hB, addClient_eq, clientCount_modify _ _ _ _ (acF c) (fun _ => rfl), clientCount_eq]
  cases hft : findTopic (getChannel (getTopic b t) t c) t' with
  | none =>
    by_cases htt : t' = t
    · subst htt
      obtain ⟨tp1, ch1, h1, _⟩ := exists_after_get b t' c
      rw [hft] at h1; cases h1
    · simp [htt]
  | some tp =>
    simp only
    have hmap := findChan_map tp c' (fun ch => if ch.name == c then { ch with clients := ch.clients + 1 } else ch)
      (fun ch => by split <;> rfl)
    by_cases htt : t' = t
    · subst htt
      simp only [if_true, true_and]
      unfold chanCount acF
      rw [hmap]
      cases hfc : findChan tp c' with
      | none =>
        simp only [Option.map_none]
        by_cases hcc : c' = c
        · subst hcc
          obtain ⟨tp1, ch1, h1, h2⟩ := exists_after_get b t' c'
          rw [hft] at h1; cases h1
          rw [hfc] at h2; cases h2
        · simp [hcc]
      | some ch =>
        have hn := findChan_name hfc
        simp only [Option.map_some, hn]
        by_cases hcc : c' = c
        · subst hcc; simp
        · have : (c' == c) = false := by simpa using hcc
          simp [this, hcc]
    · simp [htt]


/-! ### what a base step does to the broker -/

theorem exec_broker_cases (conf : Conf) (s : ConnState) (b : Broker) (ps : List Bytes) (rest : Bytes) :
    (exec conf s b ps rest).broker = b ∨ (∃ t, (exec conf s b ps rest).broker = getTopic b t) ∨
    (∃ t ms, (exec conf s b ps rest).eff = [.enq t ms]) ∨
    (∃ t c, (exec conf s b ps rest).eff = [.sub t c] ∧
      (exec conf s b ps rest).broker = addClient (getChannel (getTopic b t) t c) t c) := by
  apply exec_cases (fun x => x.broker = b ∨ (∃ t, x.broker = getTopic b t) ∨ (∃ t ms, x.eff = [.enq t ms]) ∨
    (∃ t c, x.eff = [.sub t c] ∧ x.broker = addClient (getChannel (getTopic b t) t c) t c))
  · simp [fatal]
  · simp [done]
  · unfold identify
    repeat' split
    all_goals simp [fatal, done, panicStep]
  · unfold fin
    repeat' split
    all_goals simp [fatal, done, nonfatal]
  · unfold rdy rdySet
    repeat' split
    repeat' split
    all_goals simp [fatal, done]
  · unfold req
    repeat' split
    all_goals simp [fatal, done, nonfatal]
  · unfold pub pubBody
    repeat' split
    all_goals simp [fatal, done, panicStep]
  · unfold mpub
    repeat' split
    all_goals first
      | (simp [fatal, done, panicStep]; done)
      | exact Or.inr (Or.inl ⟨_, rfl⟩)
  · unfold dpub pubBody
    repeat' split
    all_goals simp [fatal, done, panicStep]
  · unfold touch
    repeat' split
    all_goals simp [fatal, done, nonfatal]
  · unfold sub
    repeat' split
    all_goals first
      | (simp [fatal, done]; done)
      | exact Or.inr (Or.inr (Or.inr ⟨_, _, rfl, rfl⟩))
  · unfold cls
    repeat' split
    all_goals simp [fatal, done]
  · unfold auth authStep
    repeat' split
    all_goals simp [fatal, done, panicStep]

/-! ### brokers that agree on the client count of a channel / of every channel -/

/-- the two brokers have the same number of consumers on channel `c` of topic `t` (absent = 0) -/
def AgreeAt (t c : Bytes) (b b' : Broker) : Prop := clientCount b t c = clientCount b' t c

def Agree (b b' : Broker) : Prop := ∀ t c, AgreeAt t c b b'

theorem agreeAt_limit {t c : Bytes} {b b' : Broker} (h : AgreeAt t c b b') (xc : XConf) :
    limitHit xc b t c = limitHit xc b' t c := by
  unfold limitHit; rw [h]

theorem agree_limit {b b' : Broker} (h : Agree b b') (xc : XConf) (t c : Bytes) : limitHit xc b t c = limitHit xc b' t c :=
  agreeAt_limit (h t c) xc

theorem agree_publish {t c : Bytes} {b b' : Broker} (h : AgreeAt t c b b') (n : Bytes) (ms ms' : List Msg) :
    AgreeAt t c (publish b n ms) (publish b' n ms') := by
  unfold AgreeAt; rw [clientCount_publish, clientCount_publish]; exact h

theorem agree_getTopic {t c : Bytes} {b b' : Broker} (h : AgreeAt t c b b') (n n' : Bytes) :
    AgreeAt t c (getTopic b n) (getTopic b' n') := by
  unfold AgreeAt; rw [clientCount_getTopic, clientCount_getTopic]; exact h

theorem agree_refused {t c : Bytes} {b b' : Broker} (h : AgreeAt t c b b') (n m : Bytes) :
    AgreeAt t c (getChannel (getTopic b n) n m) (getChannel (getTopic b' n) n m) := by
  unfold AgreeAt
  rw [clientCount_getChannel, clientCount_getChannel, clientCount_getTopic, clientCount_getTopic]; exact h

theorem agree_sub {t c : Bytes} {b b' : Broker} (h : AgreeAt t c b b') (n m : Bytes) :
    AgreeAt t c (addClient (getChannel (getTopic b n) n m) n m) (addClient (getChannel (getTopic b' n) n m) n m) := by
  unfold AgreeAt; rw [clientCount_sub, clientCount_sub, h]

/-- a base step keeps agreement (both sides run the same command from the same connection state) -/
theorem exec_agree (conf : Conf) (s : ConnState) {t0 c0 : Bytes} {b b' : Broker} (h : AgreeAt t0 c0 b b') (ps : List Bytes) (rest : Bytes) :
    AgreeAt t0 c0 (exec conf s b ps rest).broker (exec conf s b' ps rest).broker := by
  unfold exec
  split
  · exact h
  · let R : Step → Step → Prop := fun x y => AgreeAt t0 c0 x.broker y.broker
    refine R_ite R _ _ _ _ _ (fun _ => ?_) (fun _ => ?_)
    · show AgreeAt t0 c0 (identify conf s b rest).broker (identify conf s b' rest).broker
      unfold identify
      repeat' split
      all_goals first | exact h | (simp_all [fatal, done, panicStep]; done)
    refine R_ite R _ _ _ _ _ (fun _ => h) (fun _ => ?_)
    refine R_ite R _ _ _ _ _ (fun _ => ?_) (fun _ => ?_)
    · show AgreeAt t0 c0 (fin s b _ rest).broker (fin s b' _ rest).broker
      unfold fin
      repeat' split
      all_goals first | exact h | (simp_all [fatal, done, nonfatal]; done)
    refine R_ite R _ _ _ _ _ (fun _ => ?_) (fun _ => ?_)
    · show AgreeAt t0 c0 (rdy conf s b _ rest).broker (rdy conf s b' _ rest).broker
      unfold rdy rdySet
      repeat' split
      all_goals first | exact h | (simp_all [fatal, done]; done)
    refine R_ite R _ _ _ _ _ (fun _ => ?_) (fun _ => ?_)
    · show AgreeAt t0 c0 (req conf s b _ rest).broker (req conf s b' _ rest).broker
      unfold req
      repeat' split
      all_goals first | exact h | (simp_all [fatal, done, nonfatal]; done)
    refine R_ite R _ _ _ _ _ (fun _ => ?_) (fun _ => ?_)
    · show AgreeAt t0 c0 (pub conf s b _ rest).broker (pub conf s b' _ rest).broker
      unfold pub pubBody
      repeat' split
      all_goals first | exact h | exact agree_publish h _ _ _ | (simp_all [fatal, done, panicStep]; done)
    refine R_ite R _ _ _ _ _ (fun _ => ?_) (fun _ => ?_)
    · show AgreeAt t0 c0 (mpub conf s b _ rest).broker (mpub conf s b' _ rest).broker
      unfold mpub
      repeat' split
      all_goals first | exact h | exact agree_getTopic h _ _ | exact agree_publish h _ _ _ | (simp_all [fatal, done, panicStep]; done)
    refine R_ite R _ _ _ _ _ (fun _ => ?_) (fun _ => ?_)
    · show AgreeAt t0 c0 (dpub conf s b _ rest).broker (dpub conf s b' _ rest).broker
      unfold dpub pubBody
      repeat' split
      all_goals first | exact h | exact agree_publish h _ _ _ | (simp_all [fatal, done, panicStep]; done)
    refine R_ite R _ _ _ _ _ (fun _ => h) (fun _ => ?_)
    refine R_ite R _ _ _ _ _ (fun _ => ?_) (fun _ => ?_)
    · show AgreeAt t0 c0 (touch s b _ rest).broker (touch s b' _ rest).broker
      unfold touch
      repeat' split
      all_goals first | exact h | (simp_all [fatal, done, nonfatal]; done)
    refine R_ite R _ _ _ _ _ (fun _ => ?_) (fun _ => ?_)
    · show AgreeAt t0 c0 (sub conf s b _ rest).broker (sub conf s b' _ rest).broker
      unfold sub
      repeat' split
      all_goals first | exact h | exact agree_sub h _ _ | (simp_all [fatal, done]; done)
    refine R_ite R _ _ _ _ _ (fun _ => ?_) (fun _ => ?_)
    · show AgreeAt t0 c0 (cls s b rest).broker (cls s b' rest).broker
      unfold cls
      split <;> exact h
    refine R_ite R _ _ _ _ _ (fun _ => ?_) (fun _ => h)
    · show AgreeAt t0 c0 (auth conf s b _ rest).broker (auth conf s b' _ rest).broker
      unfold auth authStep
      repeat' split
      all_goals first | exact h | (simp_all [fatal, done, panicStep]; done)


/-- one step reads the broker only at the channel of the SUB it accepted: same answer, effects and next state against two
brokers that agree there (refinement of `execX_view`, whose hypothesis ranges over all channels) -/
theorem execX_view_at (xc : XConf) (x : XState) (b b' : Broker) (ps : List Bytes) (rest : Bytes)
    (hl : ∀ t c, (baseStep xc x b ps rest).eff = [.sub t c] → AgreeAt t c b b') :
    viewX (execX xc x b ps rest) = viewX (execX xc x b' ps rest) := by
  have hv := exec_view (stepConf xc x ps rest) x.conn b b' ps rest
  simp only [view, Prod.mk.injEq] at hv
  obtain ⟨h1, h2, h3, h4, h5⟩ := hv
  unfold baseStep at hl
  unfold execX
  generalize exec (stepConf xc x ps rest) x.conn b ps rest = X at *
  generalize exec (stepConf xc x ps rest) x.conn b' ps rest = Y at *
  rw [← h5]
  split
  · rename_i t c he
    rw [← agreeAt_limit (hl t c he) xc]
    by_cases hh : limitHit xc b t c = true
    · simp [hh, viewX, view, subRefused]
    · simp [hh, viewX, view, advance, h1, h2, h3, h4, h5]
  · rename_i t ms he
    split
    · simp [viewX, view, advance, h1, h2, h3, h4, h5]
    · rename_i k hk
      by_cases hlt : k < ms.length
      · simp [hlt, viewX, view, pubFailed]
      · simp [hlt, viewX, view, advance, h1, h2, h3, h4, h5]
  · simp [viewX, view, advance, h1, h2, h3, h4, h5]

/-- … and the step keeps agreement at ANY channel `(t0, c0)` where the brokers agreed -/
theorem execX_agree_at (xc : XConf) (x : XState) {t0 c0 : Bytes} {b b' : Broker} (ps : List Bytes) (rest : Bytes)
    (hl : ∀ t c, (baseStep xc x b ps rest).eff = [.sub t c] → AgreeAt t c b b') (h : AgreeAt t0 c0 b b') :
    AgreeAt t0 c0 (execX xc x b ps rest).1.broker (execX xc x b' ps rest).1.broker := by
  have hv := exec_view (stepConf xc x ps rest) x.conn b b' ps rest
  simp only [view, Prod.mk.injEq] at hv
  obtain ⟨_, _, _, _, h5⟩ := hv
  have ha := exec_agree (stepConf xc x ps rest) x.conn h ps rest
  unfold baseStep at hl
  unfold execX
  generalize exec (stepConf xc x ps rest) x.conn b ps rest = X at *
  generalize exec (stepConf xc x ps rest) x.conn b' ps rest = Y at *
  rw [← h5]
  split
  · rename_i t c he
    rw [← agreeAt_limit (hl t c he) xc]
    by_cases hh : limitHit xc b t c = true
    · simp only [hh, if_true, subRefused]
      exact agree_refused h t c
    · simp only [hh, Bool.false_eq_true, if_false]
      exact ha
  · rename_i t ms he
    split
    · exact ha
    · rename_i k hk
      by_cases hlt : k < ms.length
      · simp only [hlt, if_true, pubFailed]
        exact agree_publish h _ _ _
      · simp only [hlt, if_false]
        exact ha
  · exact ha

/-- the channels the connection's run asks the broker about: the `(topic, channel)` of every SUB its own input gets
accepted by the base step (at most one in fact: afterwards the connection is subscribed or closed) -/
def subTargets (xc : XConf) : Nat → XState → Broker → Bytes → List (Bytes × Bytes)
  | 0, _, _, _ => []
  | fuel + 1, x, b, bs =>
    match readLine bs with
    | .line l rest =>
      (match (baseStep xc x b (splitSp l) rest).eff with
       | [.sub t c] => [(t, c)]
       | _ => []) ++
      (match (execX xc x b (splitSp l) rest).1.ctl with
       | .cont => subTargets xc fuel (execX xc x b (splitSp l) rest).2 (execX xc x b (splitSp l) rest).1.broker
                    (execX xc x b (splitSp l) rest).1.rest
       | _ => [])
    | _ => []

/-- **whole run**: the run of a connection is the same against two brokers that agree on the client count of the channels
the connection SUBscribes to (and they then agree on every channel on which they agreed before) -/
theorem loopX_agree_on (xc : XConf) :
    ∀ (fuel : Nat) (x : XState) (b b' : Broker) (bs : Bytes),
    (∀ p ∈ subTargets xc fuel x b bs, AgreeAt p.1 p.2 b b') →
    rview (loopX xc fuel x b bs) = rview (loopX xc fuel x b' bs) ∧
    ∀ t0 c0, AgreeAt t0 c0 b b' → AgreeAt t0 c0 (loopX xc fuel x b bs).broker (loopX xc fuel x b' bs).broker
  | 0, _, _, _, _, _ => by simp [loopX, rview]
  | fuel + 1, x, b, b', bs, H => by
    unfold loopX
    unfold subTargets at H
    split
    · simp [rview]
    · simp [rview]
    · rename_i l rest hln
      simp only [hln, List.mem_append] at H
      have hl : ∀ t c, (baseStep xc x b (splitSp l) rest).eff = [.sub t c] → AgreeAt t c b b' := by
        intro t c he
        exact H (t, c) (Or.inl (by rw [he]; simp))
      have hv := execX_view_at xc x b b' (splitSp l) rest hl
      have hag := fun t0 c0 (h : AgreeAt t0 c0 b b') => execX_agree_at xc x (t0 := t0) (c0 := c0) (splitSp l) rest hl h
      simp only [viewX, view, Prod.mk.injEq] at hv
      obtain ⟨⟨h1, h2, h3, h4, h5⟩, h6⟩ := hv
      generalize execX xc x b (splitSp l) rest = X at *
      generalize execX xc x b' (splitSp l) rest = Y at *
      rw [← h1]
      cases hx : X.1.ctl
      · simp only [Run.cons, rview]
        have H2 : ∀ p ∈ subTargets xc fuel X.2 X.1.broker X.1.rest, AgreeAt p.1 p.2 X.1.broker Y.1.broker := by
          intro p hp
          exact hag p.1 p.2 (H p (Or.inr (by rw [hx]; exact hp)))
        have ih := loopX_agree_on xc fuel X.2 X.1.broker Y.1.broker X.1.rest H2
        obtain ⟨ih1, ih2⟩ := ih
        simp only [rview, Prod.mk.injEq] at ih1
        obtain ⟨i1, i2, i3, i4⟩ := ih1
        rw [← h2, ← h4, ← h5, ← h6]
        exact ⟨by simp [i1, i2, i3, i4], fun t0 c0 h => ih2 t0 c0 (hag t0 c0 h)⟩
      · exact ⟨by simp [Run.stop, rview, h2, h3, h5], hag⟩
      · exact ⟨by simp [Run.stop, rview, h2, h3, h5], hag⟩
      · exact ⟨by simp [Run.stop, rview, h2, h3, h5], hag⟩

/-- corollary: brokers that agree on EVERY client count -/
theorem loopX_agree (xc : XConf) (fuel : Nat) (x : XState) (b b' : Broker) (bs : Bytes) (h : Agree b b') :
    rview (loopX xc fuel x b bs) = rview (loopX xc fuel x b' bs) ∧
    Agree (loopX xc fuel x b bs).broker (loopX xc fuel x b' bs).broker := by
  have := loopX_agree_on xc fuel x b b' bs (fun p _ => h p.1 p.2)
  exact ⟨this.1, fun t c => this.2 t c (h t c)⟩

end Nsq.Proofs.ProtoAgree
