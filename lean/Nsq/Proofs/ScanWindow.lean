import Nsq.Proofs.Timing
/-!
The window between the two halves of one iteration of `processInFlightQueue`, fixed shape
(`fixed = true`): the heap pop and the in-flight-map delete are ONE step (`scanPopPQ true`); then any
history of other operations in which deliveries come from the queue (`runQ`); then the hand-over
to `put` (`scanFinishPop true`).

`never_early_micro_true`: the popped entry was due (`e.pri ≤ t`), and when it is handed to `put` the
message has neither a deadline in the in-flight heap nor an entry in the in-flight map — nothing
that happened in the window could bring it back, because the only source of deliveries is the
queue and the message is not there yet.
-/
namespace Nsq.Proofs.ScanWindow
open Nsq.Model.PQ Nsq.Model.Timing Nsq.Proofs.PQ Nsq.Proofs.Timing

/-- the message `id` is nowhere in the channel: not in the in-flight heap (hence not in the
in-flight map), not in the queue, not deferred -/
structure Gone (id : Nat) (c : Chan) : Prop where
  inv : ChanInv c
  heap : id ∉ heapIds c.ifpq
  ready : id ∉ c.ready
  dmap : id ∉ c.dmap

theorem Gone.lookup_none {id : Nat} {c : Chan} (g : Gone id c) : lookup c.ifmap id = none :=
  lookup_none_iff.2 (fun h => g.heap (g.inv.ifIds.mem_iff.2 h))

theorem Gone.of {id : Nat} {c : Chan} (inv : ChanInv c)
    (h : id ∉ heapIds c.ifpq ∧ id ∉ c.ready ∧ id ∉ c.dmap) : Gone id c :=
  ⟨inv, h.1, h.2.1, h.2.2⟩

theorem Gone.ne_of_lookup {id id' : Nat} {c : Chan} (g : Gone id c) {r : InF}
    (hr : lookup c.ifmap id' = some r) : id ≠ id' := by
  intro h
  have := g.lookup_none
  rw [h, hr] at this
  cases this

theorem heapIds_sub {a b : H} (h : ∀ k ∈ keys b, k ∈ keys a) {id : Nat} (hid : id ∈ heapIds b) :
    id ∈ heapIds a := by
  obtain ⟨p, hp⟩ := mem_heapIds.1 hid
  exact mem_heapIds.2 ⟨p, h _ hp⟩

theorem chanInv_ready {c : Chan} (h : ChanInv c) (r : List Nat) : ChanInv { c with ready := r } :=
  ⟨h.ifInv, h.dInv, h.ifIds, h.ifNodup, h.dIds, h.dNodup⟩

/-- what a successful first half of the fixed iteration did -/
theorem scanPopPQ_true_some {c : Chan} {t : Int} {e : E} (he : (scanPopPQ true c t).2 = some e) :
    ∃ pq r, peekAndShift1 c.ifpq t = some (pq, e) ∧ lookup c.ifmap e.id = some r ∧
      (scanPopPQ true c t).1 = { c with ifpq := pq, ifmap := erase c.ifmap e.id } := by
  cases hp : peekAndShift1 c.ifpq t with
  | none => simp [scanPopPQ, hp] at he
  | some x =>
    obtain ⟨pq, e'⟩ := x
    cases hl : lookup c.ifmap e'.id with
    | none => simp [scanPopPQ, hp, hl] at he
    | some r =>
      simp only [scanPopPQ, hp, hl, if_true, Option.some.injEq] at he
      subst he
      exact ⟨pq, r, rfl, hl, by simp [scanPopPQ, hp, hl]⟩

/-- right after the single critical section the message is gone -/
theorem gone_after_pop {c : Chan} {t : Int} {e : E} (h : ChanInv c)
    (he : (scanPopPQ true c t).2 = some e) (h1 : e.id ∉ c.ready) (h2 : e.id ∉ c.dmap) :
    e.pri ≤ t ∧ Gone e.id (scanPopPQ true c t).1 := by
  obtain ⟨pq, r, hp, _, hc⟩ := scanPopPQ_true_some he
  refine ⟨peekAndShift1_le hp, ?_⟩
  rw [hc]
  have hk := (peekAndShift1_keys hp).1
  have hperm : (e.id :: heapIds pq).Perm (heapIds c.ifpq) :=
    heapIds_of_perm (id := e.id) (p := e.pri) hk
  have hnd : (heapIds c.ifpq).Nodup := h.ifIds.nodup_iff.2 h.ifNodup
  refine ⟨chanInv_remove_if (id := e.id) (p := e.pri) h (peekAndShift1_inv h.ifInv hp) hk rfl rfl rfl,
    ?_, h1, h2⟩
  exact (List.nodup_cons.1 (hperm.nodup_iff.2 hnd)).1

theorem gone_startInFlight {id : Nat} {c : Chan} (g : Gone id c) (now : Int) (id' : Nat)
    (client timeout : Int) (hne : id ≠ id') :
    Gone id (startInFlight c now id' client timeout).1 := by
  refine ⟨startInFlight_inv _ _ _ _ _ g.inv, ?_, ?_, ?_⟩
  · unfold startInFlight
    split
    · exact g.heap
    · intro hin
      rcases List.mem_cons.1 ((heapIds_push _ _ _).mem_iff.1 hin) with h | h
      · exact hne h
      · exact g.heap h
  · rw [(startInFlight_frame _ _ _ _ _).2]
    exact g.ready
  · unfold startInFlight
    split <;> exact g.dmap

theorem gone_touch {id : Nat} {c : Chan} (g : Gone id c) (now client : Int) (id' : Nat)
    (mt max : Int) : Gone id (touch c now client id' mt max).1 := by
  refine Gone.of (touch_inv c now client id' mt max g.inv).1 ?_
  unfold touch
  split
  · exact ⟨g.heap, g.ready, g.dmap⟩
  · rename_i r hr
    have hne := g.ne_of_lookup hr
    split
    · exact ⟨g.heap, g.ready, g.dmap⟩
    · split
      · exact ⟨g.heap, g.ready, g.dmap⟩
      · rename_i pq hpq
        refine ⟨?_, g.ready, g.dmap⟩
        intro hin
        rcases List.mem_cons.1 ((heapIds_push _ _ _).mem_iff.1 hin) with h | h
        · exact hne h
        · exact g.heap (heapIds_sub (removeFromPQ_sub hpq) h)

theorem gone_finish {id : Nat} {c : Chan} (g : Gone id c) (client : Int) (id' : Nat) :
    Gone id (finish c client id').1 := by
  refine Gone.of (finish_inv c client id' g.inv).1 ?_
  unfold finish
  split
  · exact ⟨g.heap, g.ready, g.dmap⟩
  · split
    · exact ⟨g.heap, g.ready, g.dmap⟩
    · split
      · exact ⟨g.heap, g.ready, g.dmap⟩
      · rename_i pq hpq
        exact ⟨fun hin => g.heap (heapIds_sub (removeFromPQ_sub hpq) hin), g.ready, g.dmap⟩

theorem gone_startDeferred_parts {id : Nat} {c : Chan} (now : Int) (id' : Nat) (d : Int)
    (hne : id ≠ id') (hh : id ∉ heapIds c.ifpq) (hr : id ∉ c.ready) (hd : id ∉ c.dmap) :
    id ∉ heapIds (startDeferred c now id' d).1.ifpq ∧ id ∉ (startDeferred c now id' d).1.ready ∧
      id ∉ (startDeferred c now id' d).1.dmap := by
  obtain ⟨f1, _, f3⟩ := startDeferred_frame c now id' d
  refine ⟨by rw [f1]; exact hh, by rw [f3]; exact hr, ?_⟩
  unfold startDeferred
  split
  · exact hd
  · intro hin
    rcases List.mem_cons.1 hin with h | h
    · exact hne h
    · exact hd h

theorem gone_requeue {id : Nat} {c : Chan} (g : Gone id c) (now client : Int) (id' : Nat)
    (d : Int) : Gone id (requeue c now client id' d).1 := by
  refine Gone.of (requeue_inv c now client id' d g.inv).1 ?_
  unfold requeue
  split
  · exact ⟨g.heap, g.ready, g.dmap⟩
  · rename_i r hr
    have hne := g.ne_of_lookup hr
    split
    · exact ⟨g.heap, g.ready, g.dmap⟩
    · split
      · exact ⟨g.heap, g.ready, g.dmap⟩
      · rename_i pq hpq
        have hh : id ∉ heapIds pq := fun hin => g.heap (heapIds_sub (removeFromPQ_sub hpq) hin)
        split
        · refine ⟨hh, ?_, g.dmap⟩
          intro hin
          rcases List.mem_append.1 hin with h | h
          · exact g.ready h
          · exact hne (by simpa using h)
        · exact gone_startDeferred_parts (c := { c with ifpq := pq, ifmap := erase c.ifmap id' })
            now id' d hne hh g.ready g.dmap

theorem gone_scanInFlight {id : Nat} {c : Chan} (g : Gone id c) (t : Int) :
    Gone id (scanInFlight c t).chan := by
  obtain ⟨_, hperm⟩ := scanInFlight_complete c t g.inv
  have hsub : ∀ k ∈ keys (scanInFlight c t).chan.ifpq, k ∈ keys c.ifpq :=
    fun k hk => hperm.mem_iff.1 (List.mem_append_right _ hk)
  refine ⟨scanInFlight_inv c t g.inv, fun hin => g.heap (heapIds_sub hsub hin), ?_, ?_⟩
  · rw [scanInFlight_ready]
    intro hin
    rcases List.mem_append.1 hin with h | h
    · exact g.ready h
    · obtain ⟨e, he, hid⟩ := List.mem_map.1 h
      have hk : key e ∈ keys c.ifpq :=
        hperm.mem_iff.1 (List.mem_append_left _ (List.mem_map.2 ⟨e, he, rfl⟩))
      exact g.heap (mem_heapIds.2 ⟨e.pri, by rw [← hid]; exact hk⟩)
  · rw [(scanInFlight_frame c t).2]
    exact g.dmap

theorem gone_scanDeferred {id : Nat} {c : Chan} (g : Gone id c) (t : Int) :
    Gone id (scanDeferred c t).chan := by
  obtain ⟨_, hperm⟩ := scanDeferred_complete c t g.inv
  have hinv := scanDeferred_inv c t g.inv
  have hsub : ∀ k ∈ keys (scanDeferred c t).chan.dpq, k ∈ keys c.dpq :=
    fun k hk => hperm.mem_iff.1 (List.mem_append_right _ hk)
  have hd : id ∉ heapIds c.dpq := fun hin => g.dmap (g.inv.dIds.mem_iff.1 hin)
  refine ⟨hinv, ?_, ?_, ?_⟩
  · rw [(scanDeferred_frame c t).1]
    exact g.heap
  · rw [scanDeferred_ready]
    intro hin
    rcases List.mem_append.1 hin with h | h
    · exact g.ready h
    · obtain ⟨e, he, hid⟩ := List.mem_map.1 h
      have hk : key e ∈ keys c.dpq :=
        hperm.mem_iff.1 (List.mem_append_left _ (List.mem_map.2 ⟨e, he, rfl⟩))
      exact hd (mem_heapIds.2 ⟨e.pri, by rw [← hid]; exact hk⟩)
  · intro hin
    exact hd (heapIds_sub hsub (hinv.dIds.mem_iff.2 hin))

/-- no operation other than a `defer` of that very id (which only the owner of the message — here
the scan itself — could issue) brings a gone message back -/
theorem gone_stepQ (max : Int) {id : Nat} {c : Chan} (g : Gone id c) (op : Op)
    (hop : ∀ now d, op ≠ .defer now id d) : Gone id (stepQ max c op) := by
  cases op with
  | inflight now id' client timeout =>
    show Gone id (if c.ready.contains id' then
      (startInFlight { c with ready := c.ready.erase id' } now id' client timeout).1 else c)
    split
    · rename_i hc
      have hmem : id' ∈ c.ready := by simpa using hc
      have hne : id ≠ id' := fun h => g.ready (h ▸ hmem)
      have g' : Gone id { c with ready := c.ready.erase id' } :=
        ⟨chanInv_ready g.inv _, g.heap, fun h => g.ready (List.mem_of_mem_erase h), g.dmap⟩
      exact gone_startInFlight g' now id' client timeout hne
    · exact g
  | touch now client id' mt => exact gone_touch g now client id' mt max
  | finish client id' => exact gone_finish g client id'
  | requeue now client id' d => exact gone_requeue g now client id' d
  | defer now id' d =>
    have hne : id ≠ id' := fun h => hop now d (h ▸ rfl)
    obtain ⟨a, b, c'⟩ := gone_startDeferred_parts (c := c) now id' d hne g.heap g.ready g.dmap
    exact ⟨(startDeferred_inv c now id' d g.inv).1, a, b, c'⟩
  | scanIf t => exact gone_scanInFlight g t
  | scanDef t => exact gone_scanDeferred g t

theorem gone_runQ (max : Int) {id : Nat} (ops : List Op) :
    ∀ c, Gone id c → (∀ op ∈ ops, ∀ now d, op ≠ .defer now id d) → Gone id (runQ max c ops) := by
  induction ops with
  | nil => intro c g _; exact g
  | cons op ops ih =>
    intro c g h
    exact ih _ (gone_stepQ max g op (h op List.mem_cons_self))
      (fun op' h' => h op' (List.mem_cons_of_mem _ h'))

theorem deadlineOf_none {c : Chan} {id : Nat} (h : id ∉ heapIds c.ifpq) :
    deadlineOf c id = none := by
  unfold deadlineOf
  have hf : c.ifpq.find? (fun e => e.id == id) = none := by
    rw [Array.find?_eq_none]
    intro x hx hp
    have hid : x.id = id := by simpa using hp
    exact h (mem_heapIds.2 ⟨x.pri, mem_keys.2 ⟨x, hx, by simp [key, hid]⟩⟩)
  rw [hf]
  rfl

/-- fixed shape: the popped entry was due, and whatever history runs between the single critical
section and the hand-over to `put` (deliveries only from the queue; nobody else defers this
message), at the hand-over the message has no in-flight deadline and no in-flight map entry -/
theorem never_early_micro_true (c : Chan) (t : Int) (between : List Op) (max : Int)
    (h : ChanInv c) (e : E) (he : (scanPopPQ true c t).2 = some e)
    (h1 : e.id ∉ c.ready) (h2 : e.id ∉ c.dmap)
    (h3 : ∀ op ∈ between, ∀ now d, op ≠ .defer now e.id d)
    (hfin : (scanFinishPop true (runQ max (scanPopPQ true c t).1 between) e.id).2 = true) :
    e.pri ≤ t ∧ deadlineOf (runQ max (scanPopPQ true c t).1 between) e.id = none ∧
      lookup (runQ max (scanPopPQ true c t).1 between).ifmap e.id = none := by
  have _ := hfin
  obtain ⟨hle, g0⟩ := gone_after_pop h he h1 h2
  have g := gone_runQ max between _ g0 h3
  exact ⟨hle, deadlineOf_none g.heap, g.lookup_none⟩

end Nsq.Proofs.ScanWindow
