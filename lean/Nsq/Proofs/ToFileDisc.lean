import Nsq.Model.ToFileDisc
/-! Lemmas about `Nsq.Model.ToFileDisc` (TopicDiscoverer of nsq_to_file). -/
namespace Nsq.Proofs.ToFileDisc
open Nsq.Model.Str Nsq.Model.ToFileDisc

def Wanted (e : Env) (t : Str) : Prop := isTopicAllowed e.pattern (e.matched t) = true ∧ e.create t = true

theorem updateTopics_mem (e : Env) (l : List Str) : ∀ (ts : List Str) (t : Str),
    t ∈ updateTopics e ts l ↔ t ∈ ts ∨ (t ∈ l ∧ Wanted e t) := by
  induction l with
  | nil => intro ts t; simp [updateTopics]
  | cons x rest ih =>
    intro ts t
    unfold updateTopics
    by_cases h1 : x ∈ ts
    · rw [if_pos h1, ih]
      constructor
      · rintro (h | ⟨h, w⟩)
        · exact Or.inl h
        · exact Or.inr ⟨List.mem_cons_of_mem _ h, w⟩
      · rintro (h | ⟨h, w⟩)
        · exact Or.inl h
        · rcases List.mem_cons.mp h with rfl | h
          · exact Or.inl h1
          · exact Or.inr ⟨h, w⟩
    · by_cases h2 : isTopicAllowed e.pattern (e.matched x) = false
      · rw [if_neg h1, if_pos h2, ih]
        constructor
        · rintro (h | ⟨h, w⟩)
          · exact Or.inl h
          · exact Or.inr ⟨List.mem_cons_of_mem _ h, w⟩
        · rintro (h | ⟨h, w⟩)
          · exact Or.inl h
          · rcases List.mem_cons.mp h with rfl | h
            · exact absurd w.1 (by simp [h2])
            · exact Or.inr ⟨h, w⟩
      · by_cases h3 : e.create x = false
        · rw [if_neg h1, if_neg h2, if_pos h3, ih]
          constructor
          · rintro (h | ⟨h, w⟩)
            · exact Or.inl h
            · exact Or.inr ⟨List.mem_cons_of_mem _ h, w⟩
          · rintro (h | ⟨h, w⟩)
            · exact Or.inl h
            · rcases List.mem_cons.mp h with rfl | h
              · exact absurd w.2 (by simp [h3])
              · exact Or.inr ⟨h, w⟩
        · rw [if_neg h1, if_neg h2, if_neg h3, ih]
          simp only [List.mem_append, List.mem_singleton]
          have hw : Wanted e x := ⟨by simpa using h2, by simpa using h3⟩
          constructor
          · rintro ((h | rfl) | ⟨h, w⟩)
            · exact Or.inl h
            · exact Or.inr ⟨List.mem_cons_self, hw⟩
            · exact Or.inr ⟨List.mem_cons_of_mem _ h, w⟩
          · rintro (h | ⟨h, w⟩)
            · exact Or.inl (Or.inl h)
            · rcases List.mem_cons.mp h with rfl | h
              · exact Or.inl (Or.inr rfl)
              · exact Or.inr ⟨h, w⟩

theorem updateTopics_nodup (e : Env) (l : List Str) : ∀ (ts : List Str), ts.Nodup → (updateTopics e ts l).Nodup := by
  induction l with
  | nil => intro ts h; simpa [updateTopics] using h
  | cons x rest ih =>
    intro ts h
    unfold updateTopics
    by_cases h1 : x ∈ ts
    · rw [if_pos h1]; exact ih ts h
    · by_cases h2 : isTopicAllowed e.pattern (e.matched x) = false
      · rw [if_neg h1, if_pos h2]; exact ih ts h
      · by_cases h3 : e.create x = false
        · rw [if_neg h1, if_neg h2, if_pos h3]; exact ih ts h
        · rw [if_neg h1, if_neg h2, if_neg h3]
          apply ih
          rw [List.nodup_append]
          exact ⟨h, (by simp), by intro a ha b hb; rw [List.mem_singleton] at hb; subst hb; intro hab; subst hab; exact h1 ha⟩

theorem updateTopics_prefix (e : Env) (l : List Str) : ∀ (ts : List Str), ts <+: updateTopics e ts l := by
  induction l with
  | nil => intro ts; simp [updateTopics]
  | cons x rest ih =>
    intro ts
    unfold updateTopics
    by_cases h1 : x ∈ ts
    · rw [if_pos h1]; exact ih ts
    · by_cases h2 : isTopicAllowed e.pattern (e.matched x) = false
      · rw [if_neg h1, if_pos h2]; exact ih ts
      · by_cases h3 : e.create x = false
        · rw [if_neg h1, if_neg h2, if_pos h3]; exact ih ts
        · rw [if_neg h1, if_neg h2, if_neg h3]
          exact List.IsPrefix.trans (List.prefix_append ts [x]) (ih _)

/-- invariant of `run()`: loggers are distinct; while looping nothing was terminated; after the loop
exactly the existing loggers were terminated -/
structure Inv (s : St) : Prop where
  nodup : s.topics.Nodup
  live  : s.looping = true → s.termed = []
  done  : s.looping = false → s.termed = s.topics

theorem inv_start (e : Env) (l : List Str) : Inv (start e l) :=
  ⟨updateTopics_nodup e l [] List.nodup_nil, fun _ => rfl, fun h => by simp [start] at h⟩

theorem inv_step (e : Env) (p : Bool) (s : St) (ev : Ev) (h : Inv s) : Inv (step e p s ev) := by
  cases ev with
  | tick r =>
    simp only [step]
    by_cases hl : s.looping = false ∨ p = false
    · rw [if_pos hl]; exact h
    · rw [if_neg hl]
      cases r with
      | none => exact h
      | some l =>
        have hlo : s.looping = true := by
          cases hs : s.looping with
          | true => rfl
          | false => exact absurd (Or.inl hs) hl
        exact ⟨updateTopics_nodup e l _ h.nodup, fun _ => h.live hlo, fun hf => by simp [hlo] at hf⟩
  | term =>
    simp only [step]
    by_cases hl : s.looping = false
    · rw [if_pos hl]; exact h
    · rw [if_neg hl]
      have hlo : s.looping = true := by simpa using hl
      exact ⟨h.nodup, fun hf => by simp at hf, fun _ => by simp [h.live hlo]⟩
  | hup =>
    simp only [step]
    by_cases hl : s.looping = false
    · rw [if_pos hl]; exact h
    · rw [if_neg hl]
      exact ⟨h.nodup, h.live, h.done⟩

theorem inv_run (e : Env) (p : Bool) (evs : List Ev) : ∀ (s : St), Inv s → Inv (run e p s evs) := by
  induction evs with
  | nil => intro s h; exact h
  | cons ev evs ih => intro s h; exact ih _ (inv_step e p s ev h)

theorem step_stopped (e : Env) (p : Bool) (s : St) (ev : Ev) (h : s.looping = false) : step e p s ev = s := by
  cases ev <;> simp [step, h]

theorem run_stopped (e : Env) (p : Bool) (evs : List Ev) : ∀ (s : St), s.looping = false → run e p s evs = s := by
  induction evs with
  | nil => intro s _; rfl
  | cons ev evs ih => intro s h; simp only [run]; rw [step_stopped e p s ev h]; exact ih s h

theorem step_prefix (e : Env) (p : Bool) (s : St) (ev : Ev) : s.topics <+: (step e p s ev).topics := by
  cases ev with
  | tick r =>
    simp only [step]
    by_cases hl : s.looping = false ∨ p = false
    · rw [if_pos hl]; exact List.prefix_refl _
    · rw [if_neg hl]
      cases r with
      | none => exact List.prefix_refl _
      | some l => exact updateTopics_prefix e l _
  | term =>
    simp only [step]
    by_cases hl : s.looping = false
    · rw [if_pos hl]; exact List.prefix_refl _
    · rw [if_neg hl]; exact List.prefix_refl _
  | hup =>
    simp only [step]
    by_cases hl : s.looping = false
    · rw [if_pos hl]; exact List.prefix_refl _
    · rw [if_neg hl]; exact List.prefix_refl _

theorem run_prefix (e : Env) (p : Bool) (evs : List Ev) : ∀ (s : St), s.topics <+: (run e p s evs).topics := by
  induction evs with
  | nil => intro s; exact List.prefix_refl _
  | cons ev evs ih => intro s; exact List.IsPrefix.trans (step_prefix e p s ev) (ih _)

end Nsq.Proofs.ToFileDisc
