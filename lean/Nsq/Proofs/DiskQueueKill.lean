import Nsq.Proofs.DiskQueueDepthFree
/-!
Engine E9 — what a process kill between two syncs does, for every history.

`Lag s m dup new` relates the metadata file `m` on disk to the live state `s` at rest: same file numbers;
the persisted read position lies `enc dup` bytes before the live one (`dup` = the records handed to the
consumer since the metadata was written); the persisted write position lies `enc new` bytes before the
live one (`new` = the records appended since then); `depth` differs accordingly.  `Lag` (or "no
metadata file") is an invariant of every clean history (`lag_*` lemmas, one per API operation), and it
determines the queue after a kill + `New` exactly (`crash_lag`): `dup ++ q`, nothing lost.
-/
namespace Nsq.Proofs.DiskQueue
open Nsq.Model.Wire Nsq.Model.DiskQueue

/-! ### frame facts: which functions leave files / metadata / positions alone -/

/-- same files (incl. the metadata file), same five persisted integers, same sync bookkeeping -/
def Fr (a b : St) : Prop :=
  a.fs = b.fs ∧ a.metaNow = b.metaNow ∧ a.needSync = b.needSync ∧ a.count = b.count ∧ a.cfg = b.cfg

theorem Fr.refl (a : St) : Fr a a := ⟨rfl, rfl, rfl, rfl, rfl⟩

theorem Fr.trans {a b c : St} (h1 : Fr a b) (h2 : Fr b c) : Fr a c :=
  ⟨h1.1.trans h2.1, h1.2.1.trans h2.2.1, h1.2.2.1.trans h2.2.2.1, h1.2.2.2.1.trans h2.2.2.2.1, h1.2.2.2.2.trans h2.2.2.2.2⟩

theorem openRead_frame {s s1 : St} (ho : openRead s = some s1) : Fr s1 s := by
  unfold openRead at ho
  split at ho
  · injection ho with ho; rw [← ho]; exact Fr.refl s
  · split at ho
    · exact absurd ho (by simp)
    · injection ho with ho; rw [← ho]; exact ⟨rfl, rfl, rfl, rfl, rfl⟩

theorem readCore_frame (s1 : St) : Fr (readCore s1).2 s1 := by
  unfold readCore
  split
  · exact ⟨rfl, rfl, rfl, rfl, rfl⟩
  · simp only []
    unfold afterRead
    split <;> exact ⟨rfl, rfl, rfl, rfl, rfl⟩

theorem readOne_frame (s : St) : Fr (readOne s).2 s := by
  rw [readOne_eq]
  cases ho : openRead s with
  | none => exact ⟨rfl, rfl, rfl, rfl, rfl⟩
  | some s1 => exact Fr.trans (readCore_frame s1) (openRead_frame ho)

theorem checkTail_needSync (s : St) (h : s.needSync = true) : (checkTail s).needSync = true := by
  unfold checkTail
  split
  · exact h
  · split
    · split <;> rfl
    · split
      · rfl
      · exact h

theorem handleReadError_needSync (s : St) : (handleReadError s).needSync = true := by
  unfold handleReadError
  split <;> exact checkTail_needSync _ rfl

/-- `syncDue`: either it syncs (metadata := the current five integers) or it is the identity -/
theorem syncDue_cases (s : St) :
    ((s.count = s.cfg.syncEvery ∨ s.needSync = true) ∧ (syncDue s).fs.md = some s.metaNow ∧
        (syncDue s).metaNow = s.metaNow ∧ (syncDue s).needSync = false) ∨
    (¬ (s.count = s.cfg.syncEvery ∨ s.needSync = true) ∧ syncDue s = s) := by
  unfold syncDue
  by_cases h : s.count = s.cfg.syncEvery ∨ s.needSync = true
  · rw [if_pos h]; exact Or.inl ⟨h, rfl, rfl, rfl⟩
  · rw [if_neg h]; exact Or.inr ⟨h, rfl⟩

/-- one loop pass without a read error: files and the five integers are those after `syncDue` -/
theorem settleStep_false_frame (s : St) (h : (settleStep s).1 = false) : Fr (settleStep s).2 (syncDue s) := by
  unfold settleStep at h ⊢
  split
  · split
    · split
      · exact readOne_frame _
      · rename_i hr
        rw [if_pos (by assumption), if_pos (by assumption), if_neg hr] at h
        exact absurd h (by simp)
    · exact Fr.refl _
  · exact Fr.refl _

theorem settleStep_true_needSync (s : St) (h : (settleStep s).1 = true) : (settleStep s).2.needSync = true := by
  unfold settleStep at h ⊢
  split
  · split
    · split
      · rename_i hr
        rw [if_pos (by assumption), if_pos (by assumption), if_pos hr] at h
        exact absurd h (by simp)
      · exact handleReadError_needSync _
    · rename_i h1 h2
      rw [if_pos h1, if_neg h2] at h
      exact absurd h (by simp)
  · rename_i h1
    rw [if_neg h1] at h
    exact absurd h (by simp)

/-- the metadata file is up to date -/
def Cur (s : St) : Prop := s.fs.md = some s.metaNow

/-- nothing that concerns the metadata lag has moved -/
def Unch (s t : St) : Prop := t.fs = s.fs ∧ t.metaNow = s.metaNow ∧ t.cfg = s.cfg

theorem settleN_meta (n : Nat) : ∀ {s : St} {pre : Bytes} {recs : Nat → List Bytes}, Rep s pre recs → s.wf - s.rf < n →
    ∃ pre', Rep (settleN n s) pre' recs ∧ Ready (settleN n s) recs ∧ absQ (settleN n s) recs = absQ s recs ∧
      (Cur (settleN n s) ∨
        (¬ (s.count = s.cfg.syncEvery ∨ s.needSync = true) ∧ Unch s (settleN n s) ∧ pre' = pre)) := by
  induction n with
  | zero => intro s pre recs _ hlt; omega
  | succ n ih =>
    intro s pre recs h hlt
    obtain ⟨a, b⟩ := settleStep_rep h
    unfold settleN
    cases hb : (settleStep s).1 with
    | true =>
      obtain ⟨a1, a2, a3, a4, a5⟩ := a hb
      simp only [if_true]
      obtain ⟨pre', i1, i2, i3, i4⟩ := ih a1 (by rw [a2, a3]; omega)
      refine ⟨pre', i1, i2, ?_, ?_⟩
      · rw [i3]
        unfold absQ
        rw [a2, a3]
        have e : s.wf - s.rf + 1 = (s.wf - (s.rf + 1) + 1) + 1 := by omega
        rw [e]
        show _ = recs s.rf ++ qFrom recs (s.rf + 1) (s.wf - (s.rf + 1) + 1)
        rw [a5, List.nil_append]
      · cases i4 with
        | inl c => exact Or.inl c
        | inr c => exact absurd (Or.inr (settleStep_true_needSync s hb)) c.1
    | false =>
      obtain ⟨b1, b2, b3, b4⟩ := b hb
      simp only [Bool.false_eq_true, if_false]
      refine ⟨pre, b1, b2, by unfold absQ; rw [b3, b4], ?_⟩
      obtain ⟨f1, f2, _, _, f5⟩ := settleStep_false_frame s hb
      cases syncDue_cases s with
      | inl c =>
        refine Or.inl ?_
        show (settleStep s).2.fs.md = some (settleStep s).2.metaNow
        rw [f1, f2, c.2.1, c.2.2.1]
      | inr c =>
        refine Or.inr ⟨c.1, ⟨?_, ?_, ?_⟩, rfl⟩
        · rw [f1, c.2]
        · rw [f2, c.2]
        · rw [f5, c.2]

theorem settle_meta {s : St} {pre : Bytes} {recs : Nat → List Bytes} (h : Rep s pre recs) :
    ∃ pre', Rep (settle s) pre' recs ∧ Ready (settle s) recs ∧ absQ (settle s) recs = absQ s recs ∧
      (Cur (settle s) ∨
        (¬ (s.count = s.cfg.syncEvery ∨ s.needSync = true) ∧ Unch s (settle s) ∧ pre' = pre)) :=
  settleN_meta _ h (by have := h.le; omega)

/-! ### the lag of the metadata file -/

/-- the metadata file `m` lags behind the live state `s` by the receives `dup` and the puts `new` -/
structure Lag (s : St) (m : Meta) (dup new : List Bytes) : Prop where
  rf : m.rf = s.rf
  wf : m.wf = s.wf
  /-- the persisted read position is a record boundary `enc dup` bytes before the live one -/
  rp : ∃ pre0, (s.fs.content s.rf).take s.rp = pre0 ++ enc dup ∧ m.rp = pre0.length
  vdup : ∀ d ∈ dup, ValidRec s.cfg d
  /-- the persisted write position is `enc new` bytes before the live one -/
  wp : m.wp + (enc new).length = s.wp
  depth : m.depth + (new.length : Int) = s.depth + (dup.length : Int)

/-- no metadata file, or one that lags by `dup` / `new` -/
def LagOpt (s : St) (dup new : List Bytes) : Prop := ∀ m, s.fs.md = some m → Lag s m dup new

theorem rep_pre {s : St} {pre : Bytes} {recs : Nat → List Bytes} (h : Rep s pre recs) :
    (s.fs.content s.rf).take s.rp = pre := by
  rw [h.crf, h.rp]; simp

theorem lag_cur {s : St} {pre : Bytes} {recs : Nat → List Bytes} (h : Rep s pre recs) :
    Lag s s.metaNow [] [] :=
  ⟨rfl, rfl, ⟨pre, by rw [rep_pre h]; simp [enc], h.rp⟩, fun d hd => absurd hd (by simp), by simp [enc, St.metaNow],
    by simp [St.metaNow]⟩

theorem lagOpt_cur {s : St} {pre : Bytes} {recs : Nat → List Bytes} (h : Rep s pre recs) (hc : Cur s) :
    LagOpt s [] [] := by
  intro m hm
  have : m = s.metaNow := by
    unfold Cur at hc
    rw [hc] at hm
    injection hm with hm
    exact hm.symm
  rw [this]; exact lag_cur h

theorem lag_unch {s t : St} {m : Meta} {dup new : List Bytes} (hl : Lag s m dup new) (hu : Unch s t) : Lag t m dup new := by
  obtain ⟨u1, u2, u3⟩ := hu
  have e : t.depth = s.depth ∧ t.rf = s.rf ∧ t.rp = s.rp ∧ t.wf = s.wf ∧ t.wp = s.wp := by
    unfold St.metaNow at u2
    injection u2 with a b c d e
    exact ⟨a, b, c, d, e⟩
  obtain ⟨e1, e2, e3, e4, e5⟩ := e
  refine ⟨by rw [e2]; exact hl.rf, by rw [e4]; exact hl.wf, by rw [u1, e2, e3]; exact hl.rp, by rw [u3]; exact hl.vdup,
    by rw [e5]; exact hl.wp, by rw [e1]; exact hl.depth⟩

theorem lagOpt_unch {s t : St} {dup new : List Bytes} (hl : LagOpt s dup new) (hu : Unch s t) : LagOpt t dup new := by
  intro m hm
  rw [hu.1] at hm
  exact lag_unch (hl m hm) hu

/-- at rest, holding `q`, metadata absent or lagging by `dup` / `new` -/
def QL (s : St) (q dup new : List Bytes) : Prop :=
  ∃ pre recs, Rep s pre recs ∧ Ready s recs ∧ absQ s recs = q ∧ LagOpt s dup new

theorem QL.toQ {s : St} {q dup new : List Bytes} (h : QL s q dup new) : Q s q := by
  obtain ⟨pre, recs, a, b, c, _⟩ := h
  exact ⟨pre, recs, a, b, c⟩

/-- the loop parks: either nothing about the metadata moved, or it has just been written -/
theorem QL_settle {t : St} {pre : Bytes} {recs : Nat → List Bytes} {dup new : List Bytes} (h : Rep t pre recs)
    (hl : t.needSync = true ∨ LagOpt t dup new) :
    QL (settle t) (absQ t recs) [] [] ∨ (QL (settle t) (absQ t recs) dup new ∧ (settle t).fs.md = t.fs.md) := by
  obtain ⟨pre', a, b, c, d⟩ := settle_meta h
  cases d with
  | inl hc => exact Or.inl ⟨pre', recs, a, b, c, lagOpt_cur a hc⟩
  | inr hu =>
    cases hl with
    | inl hn => exact absurd (Or.inr hn) hu.1
    | inr hl => exact Or.inr ⟨⟨pre', recs, a, b, c, lagOpt_unch hl hu.2.1⟩, by rw [hu.2.1.1]⟩

/-! ### one lemma per API operation -/

theorem lag_count {s : St} {dup new : List Bytes} (hl : LagOpt s dup new) (k : Nat) :
    LagOpt ({ s with count := k } : St) dup new := by
  intro m hm
  have := hl m hm
  exact ⟨this.rf, this.wf, this.rp, this.vdup, this.wp, this.depth⟩

theorem lag_append {t : St} {pre : Bytes} {recs : Nat → List Bytes} {dup new : List Bytes} (h : Rep t pre recs)
    (hl : LagOpt t dup new) (d : Bytes) : LagOpt (appendRec t d) dup (new ++ [d]) := by
  intro m hm
  have L := hl m hm
  refine ⟨L.rf, L.wf, ?_, L.vdup, ?_, ?_⟩
  · show ∃ pre0, ((appendRec t d).fs.content t.rf).take t.rp = pre0 ++ enc dup ∧ m.rp = pre0.length
    rw [appendRec_content h]
    by_cases e : t.rf = t.wf
    · rw [if_pos e, ← e, List.take_append_of_le_length (content_prefix_len h)]
      exact L.rp
    · rw [if_neg e]; exact L.rp
  · show m.wp + (enc (new ++ [d])).length = t.wp + (4 + d.length)
    rw [enc_append, enc_cons, enc_nil, List.append_nil, List.length_append, dqRecord_length]
    have := L.wp
    omega
  · show m.depth + ((new ++ [d]).length : Int) = t.depth + 1 + (dup.length : Int)
    have := L.depth
    simp only [List.length_append, List.length_cons, List.length_nil]
    omega

/-- `Put` of a valid record: appended to the queue; the lag grows by this record, or the metadata was
rewritten during the operation (`new` is then this record alone if the write rolled, else empty) -/
theorem put_ok_QL {s : St} {q dup new : List Bytes} (h : QL s q dup new) (d : Bytes) (hv : ValidRec s.cfg d) :
    (put s d).1 = .ok ∧
      (QL (put s d).2 (q ++ [d]) [] [] ∨ QL (put s d).2 (q ++ [d]) [] [d] ∨ QL (put s d).2 (q ++ [d]) dup (new ++ [d])) := by
  obtain ⟨pre, recs, a, _, c, l⟩ := h
  have a' : Rep { s with count := s.count + 1 } pre recs := rep_md a s.fs.md s.needSync (s.count + 1)
  have l' := lag_count l (s.count + 1)
  have hvs : validSize s.cfg d = true := by
    simp only [validSize, Bool.and_eq_true, decide_eq_true_eq]; exact hv
  have hw : (writeOne { s with count := s.count + 1 } d).1 = true := (writeOne_rep a' d hv).1
  have e : absQ ({ s with count := s.count + 1 } : St) recs = absQ s recs := rfl
  unfold put
  rw [if_neg (by rw [a.live]; simp), if_pos hw]
  refine ⟨rfl, ?_⟩
  simp only []
  unfold writeOne
  rw [if_neg (by show ¬ validSize s.cfg d = false; rw [hvs]; simp)]
  by_cases hr : needRoll { s with count := s.count + 1 } d = true
  · rw [if_pos hr]
    have hwp : 0 < s.wp := by
      simp only [needRoll, Bool.and_eq_true, decide_eq_true_eq] at hr; exact hr.1
    obtain ⟨r1, r2⟩ := roll_rep a' hwp
    obtain ⟨a1, a2⟩ := append_rep r1 d hv
    have lr : LagOpt (rollWrite { s with count := s.count + 1 }) [] [] := lagOpt_cur r1 rfl
    have la := lag_append r1 lr d
    cases QL_settle a1 (Or.inr la) with
    | inl x => rw [a2, r2, e, c] at x; exact Or.inl x
    | inr x => rw [a2, r2, e, c] at x; exact Or.inr (Or.inl x.1)
  · rw [if_neg hr]
    obtain ⟨a1, a2⟩ := append_rep a' d hv
    have la := lag_append a' l' d
    cases QL_settle a1 (Or.inr la) with
    | inl x => rw [a2, e, c] at x; exact Or.inl x
    | inr x => rw [a2, e, c] at x; exact Or.inr (Or.inr x.1)

theorem put_invalid_QL {s : St} {q dup new : List Bytes} (h : QL s q dup new) (d : Bytes) (hv : ¬ ValidRec s.cfg d) :
    (put s d).1 = .invalid ∧ (QL (put s d).2 q [] [] ∨ QL (put s d).2 q dup new) := by
  obtain ⟨pre, recs, a, _, c, l⟩ := h
  have a' : Rep { s with count := s.count + 1 } pre recs := rep_md a s.fs.md s.needSync (s.count + 1)
  have l' := lag_count l (s.count + 1)
  have e : absQ ({ s with count := s.count + 1 } : St) recs = absQ s recs := rfl
  unfold put
  rw [if_neg (by rw [a.live]; simp), writeOne_invalid { s with count := s.count + 1 } d hv]
  simp only [Bool.false_eq_true, if_false]
  refine ⟨trivial, ?_⟩
  cases QL_settle a' (Or.inr l') with
  | inl x => rw [e, c] at x; exact Or.inl x
  | inr x => rw [e, c] at x; exact Or.inr x.1

/-- a consumer takes the head: the lag grows by that record (it would be delivered again after a kill),
or the metadata was rewritten during the operation -/
theorem recv_head_QL {s : St} {d : Bytes} {q dup new : List Bytes} (h : QL s (d :: q) dup new) :
    (recv s).1 = some d ∧ (QL (recv s).2 q [] [] ∨ QL (recv s).2 q (dup ++ [d]) new) := by
  obtain ⟨pre, recs, a, b, c, l⟩ := h
  have hc := canRead_of_cons a c
  have hb := b.2 hc
  have a' : Rep { s with count := s.count + 1 } pre recs := rep_md a s.fs.md s.needSync (s.count + 1)
  obtain ⟨pre', recs', m1, m2, m3, m4⟩ := moveForward_rep_frame a' hb
  have e : absQ ({ s with count := s.count + 1 } : St) recs = absQ s recs := rfl
  rw [e, c] at m2
  have hp : s.pending = d := by
    have : ({ s with count := s.count + 1 } : St).pending = d := (List.cons.inj m2).1.symm
    exact this
  have hq : absQ (moveForward { s with count := s.count + 1 }) recs' = q := (List.cons.inj m2).2.symm
  unfold recv
  rw [if_pos ⟨a.live, hc⟩]
  refine ⟨by rw [hp], ?_⟩
  simp only []
  by_cases hn : s.nrf = s.rf
  · obtain ⟨f1, f2, f3, f4⟩ := m3 hn
    have f3' : s.nrp = s.rp + (4 + s.pending.length) := f3
    have f2' : pre' = pre ++ dqRecord s.pending := f2
    have f4' : ValidRec s.cfg s.pending := f4
    have lm : LagOpt (moveForward { s with count := s.count + 1 }) (dup ++ [d]) new := by
      intro m hm
      have hm' : s.fs.md = some m := by rw [f1] at hm; exact hm
      have L := l m hm'
      obtain ⟨pre0, p1, p2⟩ := L.rp
      rw [rep_pre a] at p1
      refine ⟨?_, ?_, ⟨pre0, ?_, p2⟩, ?_, ?_, ?_⟩
      · rw [f1]; show m.rf = s.nrf; rw [hn]; exact L.rf
      · rw [f1]; exact L.wf
      · rw [rep_pre m1, f2', p1, hp, enc_append, enc_cons, enc_nil, List.append_nil, List.append_assoc]
      · rw [f1]
        intro x hx
        simp only [List.mem_append, List.mem_singleton] at hx
        cases hx with
        | inl h1 => exact L.vdup x h1
        | inr h1 => rw [h1, ← hp]; exact f4'
      · rw [f1]; exact L.wp
      · rw [f1]
        show m.depth + (new.length : Int) = s.depth - 1 + ((dup ++ [d]).length : Int)
        have := L.depth
        simp only [List.length_append, List.length_cons, List.length_nil]
        omega
    cases QL_settle m1 (Or.inr lm) with
    | inl x => rw [hq] at x; exact Or.inl x
    | inr x => rw [hq] at x; exact Or.inr x.1
  · have hns := m4 hn
    cases QL_settle (dup := []) (new := []) m1 (Or.inl hns) with
    | inl x => rw [hq] at x; exact Or.inl x
    | inr x => rw [hq] at x; exact Or.inl x.1

theorem recv_none_QL {s : St} {dup new : List Bytes} (h : QL s [] dup new) : recv s = (none, s) := recv_none_Q h.toQ

/-- `Empty`: the queue is empty and there is NO metadata file until the next sync -/
theorem empty_QL {s : St} {q dup new : List Bytes} (h : QL s q dup new) :
    (empty s).1 = true ∧ QL (empty s).2 [] [] [] ∧ (empty s).2.fs.md = none := by
  obtain ⟨e1, e2, _, e4, _⟩ := empty_Q h.toQ
  obtain ⟨pre, recs, a, b, c⟩ := e2
  refine ⟨e1, ⟨pre, recs, a, b, c, ?_⟩, e4⟩
  intro m hm
  rw [e4] at hm
  exact absurd hm (by simp)

theorem retrieve_current {s : St} {pre : Bytes} {recs : Nat → List Bytes} (h : Rep s pre recs) (cfg' : Cfg)
    (hmd : s.fs.md = some s.metaNow) :
    retrieve cfg' s.fs = { cfg := cfg', fs := s.fs, depth := s.depth, rf := s.rf, rp := s.rp, wf := s.wf, wp := s.wp,
                           nrf := s.rf, nrp := s.rp } := by
  unfold retrieve
  rw [hmd]
  cases hd : s.fs.dat s.wf with
  | none =>
    have e : s.fs.dat s.metaNow.wf = none := hd
    simp only [e]
    rfl
  | some c =>
    have e : s.fs.dat s.metaNow.wf = some c := hd
    have hnlt : ¬ s.metaNow.wp < c.length := by
      show ¬ s.wp < c.length
      rw [h.wp, content_some hd]; omega
    simp only [e]
    rw [if_neg hnlt]
    rfl

/-- `Close` + `New`: the metadata is current afterwards -/
theorem reopen_QL {s : St} {q dup new : List Bytes} (h : QL s q dup new) (cfg' : Cfg) (hok : CfgOk cfg')
    (hmin : cfg'.minMsgSize = s.cfg.minMsgSize) (hmax : cfg'.maxMsgSize = s.cfg.maxMsgSize) :
    QL (openQ cfg' (close s).fs) q [] [] := by
  obtain ⟨pre, recs, a, _, c, _⟩ := h
  have a' : Rep { s with fs := { s.fs with md := some s.metaNow } } pre recs := rep_md a (some s.metaNow) s.needSync s.count
  obtain ⟨r1, r2⟩ := reopen_rep a' cfg' hok hmin hmax rfl
  have hcur : Cur (retrieve cfg' ({ s with fs := { s.fs with md := some s.metaNow } } : St).fs) := by
    rw [retrieve_current a' cfg' rfl]; rfl
  have e : absQ ({ s with fs := { s.fs with md := some s.metaNow } } : St) recs = absQ s recs := rfl
  have := QL_settle r1 (Or.inr (lagOpt_cur r1 hcur))
  rw [r2, e, c] at this
  cases this with
  | inl x => exact x
  | inr x => exact x.1

/-! ### the kill: only the files survive, `New` reads the lagging metadata -/

/-- depth-free abstraction: `s` behaves for every future operation like a healthy queue holding `q`;
only `Depth()` (and the sync bookkeeping) may be off -/
def QD (s : St) (q : List Bytes) : Prop := ∃ s0, E s0 s ∧ Q s0 q

theorem QD_of_Q {s : St} {q : List Bytes} (h : Q s q) : QD s q := ⟨s, E.refl s, h⟩

/-- the records the reader will find after the restart: the re-read ones first; the file the writer skips
to is empty -/
def recsAfter (s : St) (recs : Nat → List Bytes) (dup : List Bytes) : Nat → List Bytes :=
  fun i => if i = s.rf then dup ++ recs s.rf else if i = s.wf + 1 then [] else recs i

theorem qFrom_after {s : St} {pre : Bytes} {recs : Nat → List Bytes} (h : Rep s pre recs) (dup : List Bytes) :
    qFrom (recsAfter s recs dup) s.rf (s.wf - s.rf + 1) = dup ++ absQ s recs := by
  have hle := h.le
  unfold absQ
  show recsAfter s recs dup s.rf ++ qFrom (recsAfter s recs dup) (s.rf + 1) (s.wf - s.rf) =
    dup ++ (recs s.rf ++ qFrom recs (s.rf + 1) (s.wf - s.rf))
  rw [qFrom_congr (recsAfter s recs dup) recs (s.rf + 1) (s.wf - s.rf) (fun j h1 h2 => by
    unfold recsAfter; rw [if_neg (by omega), if_neg (by omega)])]
  unfold recsAfter
  rw [if_pos rfl, List.append_assoc]

/-- the state `retrieveMetaData` builds from the lagging metadata, with `depth` set right, is a healthy
queue holding `dup ++ q` -/
theorem crash_rep {s : St} {pre : Bytes} {recs : Nat → List Bytes} {m : Meta} {dup new : List Bytes}
    (h : Rep s pre recs) (L : Lag s m dup new) (cfg' : Cfg) (hok : CfgOk cfg')
    (hmin : cfg'.minMsgSize = s.cfg.minMsgSize) (hmax : cfg'.maxMsgSize = s.cfg.maxMsgSize)
    (wf' wp' : Nat)
    (hcase : (wf' = s.wf ∧ wp' = s.wp) ∨ (wf' = s.wf + 1 ∧ wp' = 0 ∧ s.fs.dat s.wf ≠ none)) :
    ∃ pre0, Rep ({ cfg := cfg', fs := s.fs, depth := ((dup ++ absQ s recs).length : Int), rf := s.rf, rp := m.rp,
                   wf := wf', wp := wp', nrf := s.rf, nrp := m.rp } : St) pre0 (recsAfter s recs dup) ∧
      absQ ({ cfg := cfg', fs := s.fs, depth := ((dup ++ absQ s recs).length : Int), rf := s.rf, rp := m.rp,
              wf := wf', wp := wp', nrf := s.rf, nrp := m.rp } : St) (recsAfter s recs dup) = dup ++ absQ s recs := by
  obtain ⟨pre0, p1, p2⟩ := L.rp
  rw [rep_pre h] at p1
  have hle := h.le
  have hq := qFrom_after h dup
  have hvr : ∀ i, ∀ d ∈ recsAfter s recs dup i, ValidRec cfg' d := by
    intro i d hd
    have tr : ∀ x, ValidRec s.cfg x → ValidRec cfg' x := by
      intro x hx; unfold ValidRec at hx ⊢; rw [hmin, hmax]; exact hx
    unfold recsAfter at hd
    by_cases e1 : i = s.rf
    · rw [if_pos e1] at hd
      simp only [List.mem_append] at hd
      cases hd with
      | inl a => exact tr d (L.vdup d a)
      | inr a => exact tr d (h.vrec s.rf d a)
    · rw [if_neg e1] at hd
      by_cases e2 : i = s.wf + 1
      · rw [if_pos e2] at hd; exact absurd hd (by simp)
      · rw [if_neg e2] at hd; exact tr d (h.vrec i d hd)
  have hcrf : s.fs.content s.rf = pre0 ++ enc (recsAfter s recs dup s.rf) := by
    unfold recsAfter
    rw [if_pos rfl, h.crf, p1, enc_append, List.append_assoc]
  have hnext : s.fs.dat (s.wf + 1) = none := h.out _ (Or.inr (by omega))
  refine ⟨pre0, ?_, ?_⟩
  · cases hcase with
    | inl hc =>
      obtain ⟨c1, c2⟩ := hc
      subst c1 c2
      refine ⟨hok, rfl, hle, hvr, hcrf, p2, ?_, h.ex, h.wex, h.wp, h.out, ?_, Or.inl ⟨rfl, rfl⟩, ?_, ?_⟩
      · intro i h1 h2
        show s.fs.content i = enc (recsAfter s recs dup i)
        replace h1 : s.rf < i := h1
        replace h2 : i ≤ s.wf := h2
        unfold recsAfter
        rw [if_neg (by omega), if_neg (by omega)]
        exact h.cmid i h1 h2
      · show ((dup ++ absQ s recs).length : Int) = ((qFrom (recsAfter s recs dup) s.rf (s.wf - s.rf + 1)).length : Int)
        rw [hq]
      · intro ho; exact absurd ho (by simp)
      · intro ho; exact absurd ho (by simp)
    | inr hc =>
      obtain ⟨c1, c2, c3⟩ := hc
      subst c1 c2
      have hq2 : qFrom (recsAfter s recs dup) s.rf (s.wf + 1 - s.rf + 1) = dup ++ absQ s recs := by
        have e : s.wf + 1 - s.rf + 1 = (s.wf - s.rf + 1) + 1 := by omega
        rw [e, qFrom_snoc, hq]
        have e2 : s.rf + (s.wf - s.rf + 1) = s.wf + 1 := by omega
        rw [e2]
        unfold recsAfter
        rw [if_neg (by omega), if_pos rfl, List.append_nil]
      refine ⟨hok, rfl, by show s.rf ≤ s.wf + 1; omega, hvr, hcrf, p2, ?_, ?_, ⟨fun _ => rfl, fun _ => hnext⟩, ?_, ?_, ?_,
        Or.inl ⟨rfl, rfl⟩, ?_, ?_⟩
      · intro i h1 h2
        show s.fs.content i = enc (recsAfter s recs dup i)
        replace h1 : s.rf < i := h1
        replace h2 : i ≤ s.wf + 1 := h2
        unfold recsAfter
        rw [if_neg (by omega)]
        by_cases e : i = s.wf + 1
        · rw [if_pos e, e, content_none hnext]; rfl
        · rw [if_neg e]; exact h.cmid i h1 (by omega)
      · intro i h1 h2
        show s.fs.dat i ≠ none
        replace h1 : s.rf ≤ i := h1
        replace h2 : i < s.wf + 1 := h2
        by_cases e : i = s.wf
        · rw [e]; exact c3
        · exact h.ex i h1 (by omega)
      · show (0 : Nat) = (s.fs.content (s.wf + 1)).length
        rw [content_none hnext]; rfl
      · intro i hi
        show s.fs.dat i = none
        replace hi : i < s.rf ∨ s.wf + 1 < i := hi
        exact h.out i (by omega)
      · show ((dup ++ absQ s recs).length : Int) = ((qFrom (recsAfter s recs dup) s.rf (s.wf + 1 - s.rf + 1)).length : Int)
        rw [hq2]
      · intro ho; exact absurd ho (by simp)
      · intro ho; exact absurd ho (by simp)
  · unfold absQ
    cases hcase with
    | inl hc =>
      obtain ⟨c1, c2⟩ := hc
      subst c1 c2
      exact hq
    | inr hc =>
      obtain ⟨c1, c2, c3⟩ := hc
      subst c1 c2
      show qFrom (recsAfter s recs dup) s.rf (s.wf + 1 - s.rf + 1) = dup ++ qFrom recs s.rf (s.wf - s.rf + 1)
      have e : s.wf + 1 - s.rf + 1 = (s.wf - s.rf + 1) + 1 := by omega
      rw [e, qFrom_snoc, hq]
      have e2 : s.rf + (s.wf - s.rf + 1) = s.wf + 1 := by omega
      rw [e2]
      unfold recsAfter absQ
      rw [if_neg (by omega), if_pos rfl, List.append_nil]

/-- what `retrieveMetaData` computes from a lagging metadata file -/
theorem retrieve_lag {s : St} {pre : Bytes} {recs : Nat → List Bytes} {m : Meta} {dup new : List Bytes}
    (h : Rep s pre recs) (hmd : s.fs.md = some m) (L : Lag s m dup new) (cfg' : Cfg) :
    ∃ wf' wp', ((wf' = s.wf ∧ wp' = s.wp) ∨ (wf' = s.wf + 1 ∧ wp' = 0 ∧ s.fs.dat s.wf ≠ none)) ∧
      retrieve cfg' s.fs = { cfg := cfg', fs := s.fs, depth := m.depth, rf := s.rf, rp := m.rp, wf := wf', wp := wp',
                             nrf := s.rf, nrp := m.rp } := by
  unfold retrieve
  rw [hmd]
  simp only []
  rw [L.wf, L.rf]
  cases hd : s.fs.dat s.wf with
  | none =>
    simp only []
    have hw : s.wp = 0 := h.wex.mp hd
    have : m.wp = s.wp := by have := L.wp; omega
    exact ⟨s.wf, s.wp, Or.inl ⟨rfl, rfl⟩, by rw [this]⟩
  | some c =>
    simp only []
    by_cases hw : m.wp < c.length
    · rw [if_pos hw]
      exact ⟨s.wf + 1, 0, Or.inr ⟨rfl, rfl, by simp⟩, rfl⟩
    · rw [if_neg hw]
      have hc : s.wp = c.length := by rw [h.wp, content_some hd]
      have : m.wp = s.wp := by have := L.wp; omega
      exact ⟨s.wf, s.wp, Or.inl ⟨rfl, rfl⟩, by rw [this]⟩

/-- THE HARD-KILL LEMMA: kill a queue at rest whose metadata file lags by `dup` / `new`, start a new
process on the files: it behaves like a healthy queue holding `dup ++ q` -/
theorem crash_QD {s : St} {q dup new : List Bytes} {m : Meta} (h : QL s q dup new) (hmd : s.fs.md = some m)
    (cfg' : Cfg) (hok : CfgOk cfg') (hmin : cfg'.minMsgSize = s.cfg.minMsgSize) (hmax : cfg'.maxMsgSize = s.cfg.maxMsgSize) :
    QD (openQ cfg' (crash s)) (dup ++ q) ∧ (retrieve cfg' (crash s)).depth = m.depth ∧
      m.depth + (new.length : Int) = ((dup ++ q).length : Int) := by
  obtain ⟨pre, recs, a, _, c, l⟩ := h
  have L := l m hmd
  obtain ⟨wf', wp', hcase, hr⟩ := retrieve_lag a hmd L cfg'
  obtain ⟨pre0, r1, r2⟩ := crash_rep a L cfg' hok hmin hmax wf' wp' hcase
  have hQ := Q_of_rep r1
  rw [r2, c] at hQ
  refine ⟨⟨_, ?_, hQ⟩, ?_, ?_⟩
  · unfold openQ crash
    apply E_settle
    rw [hr]
    exact ⟨m.depth, false, 0, s.fs.md, rfl⟩
  · unfold crash; rw [hr]
  · have := L.depth
    rw [a.depth] at this
    unfold absQ at c
    rw [c] at this
    simp only [List.length_append]
    omega

/-- without a metadata file the new process starts at file 0, position 0, depth 0 — whatever the files
hold: nothing is offered to consumers -/
theorem crash_nomd (fs : FS) (hmd : fs.md = none) (cfg' : Cfg) (hok : CfgOk cfg') :
    openQ cfg' fs = { cfg := cfg', fs := fs } := by
  have hr : retrieve cfg' fs = { cfg := cfg', fs := fs } := by
    unfold retrieve; rw [hmd]
  unfold openQ
  rw [hr]
  have hs : syncDue ({ cfg := cfg', fs := fs } : St) = { cfg := cfg', fs := fs } := by
    unfold syncDue
    rw [if_neg (by show ¬ ((0 : Nat) = cfg'.syncEvery ∨ false = true); have := hok.sync; simp; omega)]
  have hstep : settleStep ({ cfg := cfg', fs := fs } : St) = (false, { cfg := cfg', fs := fs }) := by
    unfold settleStep
    rw [hs, if_neg (by simp [canRead])]
  unfold settle
  show settleN 3 _ = _
  unfold settleN
  rw [hstep]
  simp

/-! ### a depth-stale queue is a FIFO for every future operation -/

theorem QD_cfg {s s0 : St} (e : E s0 s) : s.cfg = s0.cfg := (E_pos e).2.2.2.2.2.2.1

theorem put_ok_QD {s : St} {q : List Bytes} (h : QD s q) (d : Bytes) (hv : ValidRec s.cfg d) :
    (put s d).1 = .ok ∧ QD (put s d).2 (q ++ [d]) := by
  obtain ⟨s0, e, hq⟩ := h
  obtain ⟨a, b⟩ := put_ok_Q hq d (by rw [← QD_cfg e]; exact hv)
  obtain ⟨c1, c2⟩ := E_put e d
  exact ⟨by rw [c1]; exact a, _, c2, b⟩

theorem put_invalid_QD {s : St} {q : List Bytes} (h : QD s q) (d : Bytes) (hv : ¬ ValidRec s.cfg d) :
    (put s d).1 = .invalid ∧ QD (put s d).2 q := by
  obtain ⟨s0, e, hq⟩ := h
  obtain ⟨a, b⟩ := put_invalid_Q hq d (by rw [← QD_cfg e]; exact hv)
  obtain ⟨c1, c2⟩ := E_put e d
  exact ⟨by rw [c1]; exact a, _, c2, b⟩

theorem recv_head_QD {s : St} {d : Bytes} {q : List Bytes} (h : QD s (d :: q)) :
    (recv s).1 = some d ∧ QD (recv s).2 q := by
  obtain ⟨s0, e, hq⟩ := h
  obtain ⟨a, b⟩ := recv_head_Q hq
  obtain ⟨c1, c2⟩ := E_recv e
  exact ⟨by rw [c1]; exact a, _, c2, b⟩

theorem recv_none_QD {s : St} (h : QD s []) : (recv s).1 = none ∧ QD (recv s).2 [] := by
  obtain ⟨s0, e, hq⟩ := h
  have a := recv_none_Q hq
  obtain ⟨c1, c2⟩ := E_recv e
  refine ⟨by rw [c1, a], _, c2, ?_⟩
  rw [a]; exact hq

theorem empty_QD {s : St} {q : List Bytes} (h : QD s q) :
    (empty s).1 = true ∧ QD (empty s).2 [] ∧ (∀ i, (empty s).2.fs.dat i = none) := by
  obtain ⟨s0, e, hq⟩ := h
  obtain ⟨a, b, c, _⟩ := empty_Q hq
  obtain ⟨c1, c2⟩ := E_empty e
  refine ⟨by rw [c1]; exact a, ⟨_, c2, b⟩, ?_⟩
  intro i
  rw [(E_pos c2).2.2.2.2.2.2.2.2.2.1]
  exact c i

theorem reopen_QD {s : St} {q : List Bytes} (h : QD s q) (cfg' : Cfg) (hok : CfgOk cfg')
    (hmin : cfg'.minMsgSize = s.cfg.minMsgSize) (hmax : cfg'.maxMsgSize = s.cfg.maxMsgSize) :
    QD (openQ cfg' (close s).fs) q := by
  obtain ⟨s0, e, hq⟩ := h
  have hc := QD_cfg e
  exact ⟨_, E_reopen e cfg', reopen_Q hq cfg' hok (by rw [hmin, hc]) (by rw [hmax, hc])⟩

/-- once `Depth()` is right again (and no sync is pending) the queue is healthy in the full sense -/
theorem Q_of_QD {s : St} {q : List Bytes} (h : QD s q) (hd : s.depth = (q.length : Int)) (hn : s.needSync = false) :
    Q s q := by
  obtain ⟨s0, e, pre, recs, a, b, c⟩ := h
  obtain ⟨dp, ns, ct, md, rfl⟩ := e
  have hd0 : dp = s0.depth := by
    have : (upd s0 dp ns ct md).depth = dp := rfl
    rw [this] at hd
    rw [hd, a.depth, ← c]; rfl
  have hn0 : ns = false := hn
  subst hd0 hn0
  refine ⟨pre, recs, rep_md a md false ct, ⟨rfl, ?_⟩, c⟩
  intro hcr
  exact b.2 hcr

end Nsq.Proofs.DiskQueue
